package main

// Lines for the heap model of the pointer forest (Lean: Model/PollardHeap.lean, driver:
// Driver/PollardHeap.lean).  The `block` line carries the arguments of Pollard.Modify except
// the Leaf.Remember flags, the `undo` line carries none of the arguments of Pollard.Undo; the
// `ph` lines add what is missing, the Go result, and the Go state after the call:
//
//	ph on
//	ph modify <label> <ok|err|panic|hang> <rememberBits> <state>
//	ph undo   <label> <ok|err|panic|hang> <numAdds> <targets> <delHashes> <prevRoots> <state>
//	<state> = <NumLeaves> <NumDels> <roots> <dump> <len(NodeMap)> <map>
//	<dump>  = pos:hash:leaf:remember:aunt,…  every node reachable over the niece pointers (the walk
//	          of VerifDump, done here by reflection so that the aunt POINTER of every node is seen
//	          too), sorted by position; aunt = position of the node the aunt pointer points to,
//	          "-" for nil, "?" for a node that is not reachable; "skip" when too large
//	<map>   = pos:hash:at,…  for every NodeMap entry: calculatePosition and data of the mapped
//	          node (VerifDump) and the position at which that very node sits in the structure

import (
	"fmt"
	"os"
	"reflect"
	"sort"
	"strings"

	u "github.com/utreexo/utreexo"
)

// phFamilies: the families whose Sim sessions carry `ph` lines (the families of the
// properties the heap-model kinds serve: C01, C02, C05, C06, C10; the serial families so that
// Pollard.WriteTo / RestorePollardFrom are replayed on the heap model as well).
var phFamilies = map[string]bool{"forest": true, "forestexh": true, "undoredo": true, "encodings": true, "serial": true, "serialexh": true,
	"pollardheap": true}

// phDumpLimit bounds the size of a per-operation dump (nodes).
const phDumpLimit = 4200

func phEnabled() bool {
	if os.Getenv("VERIF_PH") == "0" {
		return false
	}
	return len(os.Args) > 1 && (phFamilies[os.Args[1]] || os.Getenv("VERIF_PH") == "1")
}

func init() {
	families["pollardheap"] = famPollardHeap
}

// phNew: emitted right after `new`.
func phNew() {
	if phEnabled() {
		emit("ph on")
	}
}

func phRes(r string, err error) string {
	if r == "ok" && err != nil {
		return "err"
	}
	return r
}

// phNode is one node of the pointer forest as seen by the reflective walker.
type phNode struct {
	pos       uint64
	ptr, aunt uintptr
	hash      u.Hash
	leaf, rem bool
}

func phHashOf(v reflect.Value) (h u.Hash) {
	for j := 0; j < 32; j++ {
		h[j] = byte(v.Index(j).Uint())
	}
	return
}

// phWalk walks the niece structure exactly like VerifDump (export_verif.go) but by reflection,
// so that pointer identities (aunt pointers, NodeMap values) can be reported as positions.
func phWalk(pol *u.Pollard) (nodes []phNode, mapAt map[u.Hash]uintptr) {
	rows := u.TreeRows(pol.NumLeaves)
	rootPos := u.RootPositions(pol.NumLeaves, rows)
	var walk func(n, holder reflect.Value, pos uint64)
	walk = func(n, holder reflect.Value, pos uint64) {
		if n.IsNil() {
			return
		}
		ne := n.Elem()
		var l, r reflect.Value
		lnil, rnil := true, true
		if !holder.IsNil() {
			l, r = holder.Elem().FieldByName("lNiece"), holder.Elem().FieldByName("rNiece")
			lnil, rnil = l.IsNil(), r.IsNil()
		}
		nodes = append(nodes, phNode{pos: pos, ptr: n.Pointer(), aunt: ne.FieldByName("aunt").Pointer(),
			hash: phHashOf(ne.FieldByName("data")), leaf: lnil && rnil, rem: ne.FieldByName("remember").Bool()})
		if u.DetectRow(pos, rows) == 0 || holder.IsNil() {
			return
		}
		lp := u.LeftChild(pos, rows)
		walk(l, r, lp)
		walk(r, l, lp|1)
	}
	roots := reflect.ValueOf(pol).Elem().FieldByName("Roots")
	for i := 0; i < roots.Len() && i < len(rootPos); i++ {
		walk(roots.Index(i), roots.Index(i), rootPos[i])
	}
	mapAt = map[u.Hash]uintptr{}
	it := reflect.ValueOf(pol).Elem().FieldByName("NodeMap").MapRange()
	for it.Next() {
		v := it.Value()
		if !v.IsNil() {
			mapAt[phHashOf(v.Elem().FieldByName("data"))] = v.Pointer()
		}
	}
	return
}

// phState renders the state of a pointer forest.
func phState(pol *u.Pollard) string {
	var nodes []phNode
	var mapAt map[u.Hash]uintptr
	var mapped map[u.Hash]uint64
	var mapLen int
	var roots []u.Hash
	r := guard(watchdog, func() {
		roots = pol.GetRoots()
		nodes, mapAt = phWalk(pol)
		_, mapped, mapLen = pol.VerifDump()
	})
	if r != "ok" {
		return fmt.Sprintf("%d %d %s %s 0 -", pol.NumLeaves, pol.NumDels, r, r)
	}
	if len(nodes) > phDumpLimit {
		return fmt.Sprintf("%d %d %s skip %d -", pol.NumLeaves, pol.NumDels, hxs(roots), mapLen)
	}
	sort.SliceStable(nodes, func(a, b int) bool { return nodes[a].pos < nodes[b].pos })
	at := map[uintptr]uint64{}
	for i := len(nodes) - 1; i >= 0; i-- { // the first node (in position order) wins
		at[nodes[i].ptr] = nodes[i].pos
	}
	where := func(p uintptr) string {
		if p == 0 {
			return "-"
		}
		if pos, ok := at[p]; ok {
			return fmt.Sprintf("%d", pos)
		}
		return "?"
	}
	np := make([]string, len(nodes))
	for i, n := range nodes {
		np[i] = fmt.Sprintf("%d:%s:%s:%s:%s", n.pos, hx(n.hash), b01(n.leaf), b01(n.rem), where(n.aunt))
	}
	type hp struct {
		h  string
		p  uint64
		at string
	}
	var ms []hp
	for h, p := range mapped {
		ms = append(ms, hp{hx(h), p, where(mapAt[h])})
	}
	sort.Slice(ms, func(a, b int) bool { return ms[a].p < ms[b].p || (ms[a].p == ms[b].p && ms[a].h < ms[b].h) })
	mp := make([]string, len(ms))
	for i, m := range ms {
		mp[i] = fmt.Sprintf("%d:%s:%s", m.p, m.h, m.at)
	}
	j := func(x []string) string {
		if len(x) == 0 {
			return "-"
		}
		return strings.Join(x, ",")
	}
	return fmt.Sprintf("%d %d %s %s %d %s", pol.NumLeaves, pol.NumDels, hxs(roots), j(np), mapLen, j(mp))
}

// phModify: after Modify(adds, …) of a pointer-forest instance (r = guard result).
func (s *Sim) phModify(in *Inst, adds []u.Leaf, r string, err error) {
	if in.pol == nil || !phEnabled() {
		return
	}
	rem := make([]byte, len(adds))
	for i, a := range adds {
		rem[i] = '0'
		if a.Remember {
			rem[i] = '1'
		}
	}
	bits := string(rem)
	if bits == "" {
		bits = "-"
	}
	emit("ph modify %s %s %s %s", in.label, phRes(r, err), bits, phState(in.pol))
}

// phUndo: after Undo(numAdds, proof, delHashes, prevRoots) of a pointer-forest instance.
func (s *Sim) phUndo(in *Inst, rec blockRec, r string, err error) {
	if in.pol == nil || !phEnabled() {
		return
	}
	emit("ph undo %s %s %d %s %s %s %s", in.label, phRes(r, err), len(rec.adds), us(rec.proof.Targets),
		hxs(rec.delHashes), hxs(rec.prevRoots), phState(in.pol))
}

// famPollardHeap: histories aimed at the pointer surgery: small forests, deletion modes that
// move subtrees up (siblings of deleted leaves with descendants), whole trees emptied and
// overwritten, mixed Remember flags, deep undo; every operation is followed by the full
// look-up / proof observations so that every query is answered by the heap model too.
func famPollardHeap(g *Gen, tier string, shard, nshards int) {
	nHist, maxBlocks, maxAdds := 14, 10, 9
	if tier == "thorough" {
		nHist, maxBlocks, maxAdds = 60, 40, 33
	}
	for h := 0; h < nHist; h++ {
		s := newSim(g, nil)
		s.allRemember = h%3 != 2 // Pollard is always full: the flag must not matter
		// one history in five lives in a forest of many trees (9 or more roots, rows >= 9)
		if h%5 == 4 {
			famPollardHeapMany(s, shard*nHist/5+h/5, tier)
			continue
		}
		nBlocks := 2 + g.Intn(maxBlocks)
		for b := 0; b < nBlocks; b++ {
			mode := g.Intn(8)
			nAdds := g.Intn(maxAdds + 1)
			if b == 0 {
				mode, nAdds = 0, 1+g.Intn(maxAdds*2)
			}
			if g.Intn(4) == 0 {
				mode = 5
				nAdds = 1 + g.Intn(4)
			}
			s.applyBlock(s.pickDeletions(mode), nAdds)
			s.obsRoots()
			if g.Intn(2) == 0 {
				s.observeAll()
			}
			if len(s.hist) > 0 && g.Intn(4) == 0 {
				k := 1 + g.Intn(len(s.hist))
				for i := 0; i < k; i++ {
					s.undoLast()
					s.obsRoots()
				}
				s.observeAll()
			}
		}
	}
}

// famPollardHeapMany: the pointer surgery in a many-tree forest: deletions in the small trees
// at the right edge (tree indexes 8 and up), deletions that leave one leaf of a big tree (its
// node is moved up row by row), whole small trees emptied and overwritten by additions, undo of
// all of that; the heap model replays every Modify/Undo and the complete pointer structure is
// compared (up to phDumpLimit nodes), every query of the sampled observations is answered by
// the heap model too.
func famPollardHeapMany(s *Sim, k int, tier string) {
	g := s.g
	n := manyTreeCount(k)
	if tier == "thorough" && k%8 == 7 {
		n = hugeTreeCount(k / 8)
	}
	s.growTo(n)
	s.obsRoots()
	nBlocks := 3 + g.Intn(4)
	for b := 0; b < nBlocks; b++ {
		style := manyTreeStyleHeavy(g)
		if b == 0 && k%3 == 2 {
			style = 2
		}
		nAdds := manyTreeAdds(g)
		if style == 3 {
			nAdds = 1 + g.Intn(4) // additions overwrite the emptied roots
		}
		s.applyBlock(manyTreeDeletions(g, s.alive, style), nAdds)
		s.obsRoots()
		if g.Intn(2) == 0 {
			s.observeAllSampled()
		}
		if len(s.hist) > 0 && g.Intn(3) == 0 {
			kk := 1 + g.Intn(len(s.hist))
			if len(s.hist) > 1 && g.Intn(3) != 0 {
				kk = 1 + g.Intn(len(s.hist)-1) // mostly keep the big first block
			}
			for i := 0; i < kk; i++ {
				s.undoLast()
				s.obsRoots()
			}
			if len(s.slots) == 0 {
				s.applyBlock(nil, manyTreeCount(k+b+1))
				s.obsRoots()
			}
			s.observeAllSampled()
		}
	}
	if len(s.slots) <= 1100 {
		s.observeAll() // every position, every leaf
	} else {
		s.observeAllSampled()
	}
}
