package main

// Family `conclin` (property C12): two-operation linearizability with instrumented maps.
//
// MapPollard.Nodes and MapPollard.CachedLeaves are exported fields of interface type, so the
// harness wraps the real maps of an instance with wrappers that call a hook before every
// Get / Put / Delete / Length / ForEach.  Together with the library's verifPoint sites (the
// same hook is installed as u.VerifHook) this gives a suspension point at EVERY map access of
// an operation, inside or outside its critical sections, without touching the library.
//
// Pair scenario (X, Y, k): X and Y are state-changing operations on the same instance
// (Verify(remember) / VerifyPartialProof(remember) / Ingest / Prune / Modify / Undo / Read),
// chosen so that they touch overlapping paths.  X is started in a goroutine and parked at its
// k-th map access (k in 1..K, K measured on a twin); Y is started in another goroutine; after
// Y finished or a bounded wait (Y is then blocked on the lock) X is released and both are
// awaited (deadlock watchdog).  The harness reports
//
//	conclin pair <X> <Y> <cfg> <k> <K> <site> <parked 0|1> <early|blocked> <conc> <xy> <yx>
//
// site = the access X was parked at (Nodes.Get, CachedLeaves.Put, site:modify.between, ...),
// conc / xy / yx = outcome of the concurrent run and of the two sequential orders X;Y and Y;X
// on twin instances, each rendered as
//
//	<result of X>/<result of Y>/<NumLeaves>/<TotalRows>/<#Nodes>/<#CachedLeaves>/<digest>/<roots>
//
// (digest = SHA-256 of the canonical dump of NumLeaves, TotalRows, Nodes, CachedLeaves and
// GetRoots; roots in clear, shortened).  When the concurrent outcome equals neither
// sequential outcome the three full dumps are written before the line (`conclin dump …`), so
// that a replay shows the corrupted state.
//
// Query scenario (X, k): X is parked at its k-th access and every read-only query is started
// in its own goroutine:
//
//	conclin q <X> <cfg> <k> <K> <site> <query> <args> <early|blocked> <result> <pre> <post>
//	conclin qw <X> <cfg> <k> <K> <site> <parked> <outcome of X on A> <outcome of X alone on a twin>
//
// pre / post = the twin's answer before / after X.  `conclin info …` lines describe the
// scenario (base state, operations, K and the sampled k) for the reader of a replay.
//
// Verdicts are the driver's (Driver/ConcLin.lean).

import (
	"bytes"
	"crypto/sha256"
	"encoding/hex"
	"fmt"
	"os"
	"runtime"
	"sort"
	"strings"
	"sync/atomic"
	"time"

	u "github.com/utreexo/utreexo"
)

func init() { families["conclin"] = famConcLin }

// ---------- instrumented maps ----------

// linHook counts the map accesses (and verifPoint sites) of the instance it is attached to and
// parks the caller of the armAt-th one until release is closed.  After that it is passive.
type linHook struct {
	count   int64 // atomic
	armAt   int64 // 0 = never park
	site    string
	parked  chan struct{}
	release chan struct{}
}

func newLinHook(armAt int) *linHook {
	return &linHook{armAt: int64(armAt), parked: make(chan struct{}), release: make(chan struct{})}
}

func (h *linHook) hit(site string) {
	n := atomic.AddInt64(&h.count, 1)
	if n == h.armAt {
		h.site = site
		close(h.parked)
		<-h.release
	}
}

type hookedNodes struct {
	in u.NodesInterface
	h  *linHook
}

func (w *hookedNodes) Get(k uint64) (u.Leaf, bool) { w.h.hit("Nodes.Get"); return w.in.Get(k) }
func (w *hookedNodes) Put(k uint64, v u.Leaf)      { w.h.hit("Nodes.Put"); w.in.Put(k, v) }
func (w *hookedNodes) Delete(k uint64)             { w.h.hit("Nodes.Delete"); w.in.Delete(k) }
func (w *hookedNodes) Length() int                 { w.h.hit("Nodes.Length"); return w.in.Length() }
func (w *hookedNodes) ForEach(fn func(uint64, u.Leaf) error) error {
	w.h.hit("Nodes.ForEach")
	return w.in.ForEach(fn)
}

type hookedCached struct {
	in u.CachedLeavesInterface
	h  *linHook
}

func (w *hookedCached) Get(k u.Hash) (uint64, bool) {
	w.h.hit("CachedLeaves.Get")
	return w.in.Get(k)
}
func (w *hookedCached) Put(k u.Hash, v uint64) { w.h.hit("CachedLeaves.Put"); w.in.Put(k, v) }
func (w *hookedCached) Delete(k u.Hash)        { w.h.hit("CachedLeaves.Delete"); w.in.Delete(k) }
func (w *hookedCached) Length() int            { w.h.hit("CachedLeaves.Length"); return w.in.Length() }
func (w *hookedCached) ForEach(fn func(u.Hash, uint64) error) error {
	w.h.hit("CachedLeaves.ForEach")
	return w.in.ForEach(fn)
}

var _ u.NodesInterface = (*hookedNodes)(nil)
var _ u.CachedLeavesInterface = (*hookedCached)(nil)

// linInst is an instrumented copy of a map forest; the real maps stay reachable for dumping.
type linInst struct {
	m      *u.MapPollard
	h      *linHook
	nodes  u.NodesInterface
	cached u.CachedLeavesInterface
}

// linClone copies base (which must be quiescent) into a fresh instance with its own lock and
// wraps the copy's maps with the hook.
func linClone(base *u.MapPollard, armAt int) *linInst {
	c := u.NewMapPollard(base.Full)
	c.TotalRows = base.TotalRows
	c.NumLeaves = base.NumLeaves
	base.Nodes.ForEach(func(k uint64, v u.Leaf) error { c.Nodes.Put(k, v); return nil })
	base.CachedLeaves.ForEach(func(k u.Hash, v uint64) error { c.CachedLeaves.Put(k, v); return nil })
	in := &linInst{m: &c, h: newLinHook(armAt), nodes: c.Nodes, cached: c.CachedLeaves}
	c.Nodes = &hookedNodes{c.Nodes, in.h}
	c.CachedLeaves = &hookedCached{c.CachedLeaves, in.h}
	return in
}

// arm installs the instance's hook at the library's verifPoint sites as well.
func (in *linInst) arm() { h := in.h; u.VerifHook = func(s string) { h.hit("site:" + s) } }

// linDump renders the state of a quiescent instance: summary token and the full canonical text.
func (in *linInst) dump() (summary, full string) {
	type nd struct {
		pos uint64
		l   u.Leaf
	}
	var ns []nd
	in.nodes.ForEach(func(k uint64, v u.Leaf) error { ns = append(ns, nd{k, v}); return nil })
	sort.Slice(ns, func(i, j int) bool { return ns[i].pos < ns[j].pos })
	type cd struct {
		h   u.Hash
		pos uint64
	}
	var cs []cd
	in.cached.ForEach(func(k u.Hash, v uint64) error { cs = append(cs, cd{k, v}); return nil })
	sort.Slice(cs, func(i, j int) bool { return bytes.Compare(cs[i].h[:], cs[j].h[:]) < 0 })
	roots := guardStr(func() string { return shs(in.m.GetRoots()) })
	if roots == "hang" {
		concHung = true
	}
	var np, cp []string
	hs := sha256.New()
	fmt.Fprintf(hs, "%d %d\n", in.m.NumLeaves, in.m.TotalRows)
	for _, n := range ns {
		np = append(np, fmt.Sprintf("%d:%s:%s", n.pos, sh(n.l.Hash), b01(n.l.Remember)))
		fmt.Fprintf(hs, "n %d %x %v\n", n.pos, n.l.Hash[:], n.l.Remember)
	}
	for _, c := range cs {
		cp = append(cp, fmt.Sprintf("%s:%d", sh(c.h), c.pos))
		fmt.Fprintf(hs, "c %x %d\n", c.h[:], c.pos)
	}
	fmt.Fprintf(hs, "r %s\n", roots)
	summary = fmt.Sprintf("%d/%d/%d/%d/%s/%s", in.m.NumLeaves, in.m.TotalRows, len(ns), len(cs),
		hex.EncodeToString(hs.Sum(nil)[:8]), roots)
	j := func(p []string) string {
		if len(p) == 0 {
			return "-"
		}
		return strings.Join(p, ",")
	}
	full = fmt.Sprintf("numLeaves=%d totalRows=%d roots=%s nodes=%s cached=%s", in.m.NumLeaves, in.m.TotalRows, roots, j(np), j(cp))
	return
}

// ---------- operations ----------

type linop struct {
	name  string // Go method name
	desc  string // arguments, for the reader of a replay (no spaces)
	touch []u.Hash
	run   func(m *u.MapPollard) string // ok / err
}

func safeOp(op linop, m *u.MapPollard) (res string) {
	defer func() {
		if r := recover(); r != nil {
			res = "panic"
		}
	}()
	return op.run(m)
}

// seqOp runs an operation alone under the watchdog.
func seqOp(op linop, m *u.MapPollard) string {
	if concHung {
		return "skipped"
	}
	r := guardStr(func() string { return safeOp(op, m) })
	if r == "hang" {
		concHung = true
	}
	return r
}

var linWindow = 20 * time.Millisecond

var linTypes = []string{"Verify", "VerifyPartialProof", "Ingest", "Prune", "Modify", "Undo", "Read"}

// linWorld: a base state plus two sets of operations prepared on it (primary: all around one
// focus leaf, so that their paths overlap; secondary: random arguments).
type linWorld struct {
	w         *cworld
	cfg       cconfig
	focus     u.Hash
	primary   map[string]linop
	secondary map[string]linop
}

func (lw *linWorld) leafPos(h u.Hash) uint64 {
	p, err := lw.w.prover.Prove([]u.Hash{h})
	if err != nil || len(p.Targets) != 1 {
		die("conclin: prover cannot prove a live leaf: %v", err)
	}
	return p.Targets[0]
}

// nearest orders cands by the height of the lowest common ancestor with h (closest first).
func (lw *linWorld) nearest(h u.Hash, cands []u.Hash) []u.Hash {
	ph := lw.leafPos(h)
	r := append([]u.Hash(nil), cands...)
	key := map[u.Hash]uint64{}
	for _, c := range r {
		key[c] = lw.leafPos(c) ^ ph
	}
	sort.SliceStable(r, func(i, j int) bool { return key[r[i]] < key[r[j]] })
	return r
}

func (lw *linWorld) opVerify(tg []u.Hash) linop {
	proof, err := lw.w.prover.Prove(copyHashes(tg))
	if err != nil {
		die("conclin: prover failed: %v", err)
	}
	return linop{"Verify", fmt.Sprintf("Verify(hashes=%s,targets=%s,proof=%s,remember=true)", shs(tg), us(proof.Targets), shs(proof.Proof)), tg,
		func(m *u.MapPollard) string { return errStr(m.Verify(copyHashes(tg), cpProof(proof), true)) }}
}

func (lw *linWorld) opIngest(tg []u.Hash) linop {
	proof, err := lw.w.prover.Prove(copyHashes(tg))
	if err != nil {
		die("conclin: prover failed: %v", err)
	}
	return linop{"Ingest", fmt.Sprintf("Ingest(hashes=%s,targets=%s,proof=%s)", shs(tg), us(proof.Targets), shs(proof.Proof)), tg,
		func(m *u.MapPollard) string { return errStr(m.Ingest(copyHashes(tg), cpProof(proof))) }}
}

// opPartial: the partial proof holds the hashes the base state is missing (asked of the base
// state, as a client would).
func (lw *linWorld) opPartial(tg []u.Hash) linop {
	proof, err := lw.w.prover.Prove(copyHashes(tg))
	if err != nil {
		die("conclin: prover failed: %v", err)
	}
	missing := lw.w.a.GetMissingPositions(copyU64(proof.Targets))
	fetched := make([]u.Hash, len(missing))
	for i, p := range missing {
		fetched[i] = lw.w.prover.GetHash(p)
	}
	return linop{"VerifyPartialProof", fmt.Sprintf("VerifyPartialProof(targets=%s,hashes=%s,missing=%s,proofHashes=%s,remember=true)",
		us(proof.Targets), shs(tg), us(missing), shs(fetched)), tg,
		func(m *u.MapPollard) string {
			return errStr(m.VerifyPartialProof(copyU64(proof.Targets), copyHashes(tg), copyHashes(fetched), true))
		}}
}

func (lw *linWorld) opPrune(v []u.Hash) linop {
	return linop{"Prune", fmt.Sprintf("Prune(%s)", shs(v)), v,
		func(m *u.MapPollard) string { return errStr(m.Prune(copyHashes(v))) }}
}

func (lw *linWorld) opModify(dels []u.Hash, nAdds int) linop {
	blk := lw.w.mkBlock(dels, nAdds, false)
	return linop{"Modify", fmt.Sprintf("Modify(adds=%s,dels=%s,targets=%s)", shs(addHashes(blk.adds)), shs(dels), us(blk.proof.Targets)),
		append(append([]u.Hash{}, dels...), addHashes(blk.adds)...),
		func(m *u.MapPollard) string { return errStr(blk.modify(m)) }}
}

func (lw *linWorld) opUndo() linop {
	blk := lw.w.last
	return linop{"Undo", fmt.Sprintf("Undo(numAdds=%d,targets=%s,dels=%s,prevRoots=%s)", len(blk.adds), us(blk.proof.Targets), shs(blk.delHashes), shs(blk.prevRoots)),
		append(append([]u.Hash{}, blk.delHashes...), addHashes(blk.adds)...),
		func(m *u.MapPollard) string { return errStr(blk.undo(m)) }}
}

func (lw *linWorld) opRead(tag string, data []byte, touch []u.Hash) linop {
	return linop{"Read", fmt.Sprintf("Read(%s:%s)", tag, writeDigest(data)), touch,
		func(m *u.MapPollard) string {
			_, err := m.Read(bytes.NewReader(data))
			return errStr(err)
		}}
}

func serialize(m *u.MapPollard) []byte {
	var buf bytes.Buffer
	if _, err := m.Write(&buf); err != nil {
		die("conclin: Write failed: %v", err)
	}
	return buf.Bytes()
}

func newLinWorld(g *Gen, cfg cconfig, maxAdds int) *linWorld {
	w := newCWorld(g, cfg)
	lw := &linWorld{w: w, cfg: cfg, primary: map[string]linop{}, secondary: map[string]linop{}}
	w.grow(2+g.Intn(2), maxAdds)
	snap1, live1 := serialize(w.a), w.cachedLive()
	w.grow(1, maxAdds)
	snap2, live2 := serialize(w.a), w.cachedLive()
	for tries := 0; tries < 30 && (len(w.cachedLive()) < 6 || (!cfg.full && len(w.uncachedLive()) < 3)); tries++ {
		w.grow(1, maxAdds)
	}
	if len(w.cachedLive()) < 6 || (!cfg.full && len(w.uncachedLive()) < 3) {
		return nil
	}
	// the leaves the proof-caching operations are about: uncached ones (partial forest), cached
	// ones on a full forest (there the operations re-put what is already there)
	pool := w.uncachedLive()
	if cfg.full {
		pool = w.cachedLive()
	}
	lw.focus = pool[g.Intn(len(pool))]
	// the newest block (the one Undo takes back) deletes the cached leaf closest to the focus
	// leaf, so that Undo changes the focus leaf's proof path
	{
		near := lw.nearest(lw.focus, minus(w.cachedLive(), []u.Hash{lw.focus}))
		b := w.mkBlock(near[:1], 1+g.Intn(maxAdds), false)
		for _, m := range []*u.MapPollard{w.a, w.b} {
			if err := b.modify(m); err != nil {
				die("conclin: set-up Modify failed: %v", err)
			}
		}
		w.commit(b)
	}
	c := w.cachedLive()
	if cfg.full {
		pool = c
	} else {
		pool = w.uncachedLive()
	}
	others := minus(pool, []u.Hash{lw.focus})
	nearC := lw.nearest(lw.focus, minus(c, []u.Hash{lw.focus}))
	d1, d2 := nearC[0], nearC[1]
	farC := minus(c, []u.Hash{lw.focus, d1, d2})

	tgA := []u.Hash{lw.focus}
	if g.Intn(3) == 0 {
		tgA = append(tgA, lw.nearest(lw.focus, others)[0])
	}
	lw.primary["Verify"] = lw.opVerify(tgA)
	lw.primary["VerifyPartialProof"] = lw.opPartial(tgA)
	lw.primary["Ingest"] = lw.opIngest(tgA)
	tgB := pick(g, others, 1+g.Intn(2))
	lw.secondary["Verify"] = lw.opVerify(tgB)
	lw.secondary["VerifyPartialProof"] = lw.opPartial(pick(g, others, 1+g.Intn(2)))
	lw.secondary["Ingest"] = lw.opIngest(pick(g, others, 1+g.Intn(2)))
	if !cfg.full {
		lw.primary["Prune"] = lw.opPrune([]u.Hash{d1, d2})
		lw.secondary["Prune"] = lw.opPrune(pick(g, farC, 1+g.Intn(2)))
	}
	delsA := []u.Hash{d1}
	if g.Intn(2) == 0 {
		delsA = append(delsA, pick(g, farC, 1)...)
	}
	lw.primary["Modify"] = lw.opModify(delsA, 1+g.Intn(maxAdds))
	lw.secondary["Modify"] = lw.opModify(pick(g, minus(c, delsA), 1+g.Intn(2)), g.Intn(maxAdds))
	lw.primary["Undo"] = lw.opUndo()
	lw.primary["Read"] = lw.opRead("previous", snap2, live2)
	lw.secondary["Read"] = lw.opRead("older", snap1, live1)
	return lw
}

// sampleK: 1, 2, K-1, K and random others, n in all (every k when K <= n).
func sampleK(g *Gen, K, n int) []int {
	if K <= n {
		r := make([]int, K)
		for i := range r {
			r[i] = i + 1
		}
		return r
	}
	set := map[int]bool{1: true, 2: true, K - 1: true, K: true}
	for len(set) < n {
		set[1+g.Intn(K)] = true
	}
	var r []int
	for k := range set {
		r = append(r, k)
	}
	sort.Ints(r)
	return r
}

// ---------- pair scenarios ----------

type linSeq struct {
	x, y          string
	summary, full string
	k             int // accesses of the first operation (K of X in the order X;Y)
}

func (s linSeq) token() string { return s.x + "/" + s.y + "/" + s.summary }

// linSequential runs first;second on a twin; which says which of them is X.
func linSequential(base *u.MapPollard, first, second linop, firstIsX bool) linSeq {
	in := linClone(base, 0)
	in.arm()
	r1 := seqOp(first, in.m)
	k := int(atomic.LoadInt64(&in.h.count))
	r2 := seqOp(second, in.m)
	u.VerifHook = nil
	s := linSeq{k: k}
	if firstIsX {
		s.x, s.y = r1, r2
	} else {
		s.x, s.y = r2, r1
	}
	if concHung {
		s.summary, s.full = "hang", "hang"
		return s
	}
	s.summary, s.full = in.dump()
	return s
}

func linPair(g *Gen, lw *linWorld, x, y linop, nK int) {
	if concHung {
		return
	}
	base := lw.w.a
	emit("session conclin %s %s %s", x.name, y.name, lw.cfg)
	b := linClone(base, 0)
	bs, _ := b.dump()
	emit("conclin info base %s focus=%s", bs, sh(lw.focus))
	emit("conclin info X %s", x.desc)
	emit("conclin info Y %s", y.desc)
	xy := linSequential(base, x, y, true)
	yx := linSequential(base, y, x, false)
	K := xy.k
	ks := sampleK(g, K, nK)
	emit("conclin info K %d sampled %s", K, ints(ks))
	if concHung {
		emit("conclin pair %s %s %s 0 %d - 0 blocked skipped %s %s", x.name, y.name, lw.cfg, K, xy.token(), yx.token())
		return
	}
	for _, k := range ks {
		in := linClone(base, k)
		in.arm()
		xdone, ydone := make(chan string, 1), make(chan string, 1)
		go func() { xdone <- safeOp(x, in.m) }()
		parked, xres, yres, ysched := 0, "", "", "blocked"
		select {
		case <-in.h.parked:
			parked = 1
		case xres = <-xdone:
		case <-time.After(concWatchdog):
			xres, concHung = "hang", true
		}
		if parked == 0 {
			// X returned before its k-th access (the number of accesses of a failing Read depends on
			// the map iteration order): nobody is to be parked any more, Y simply runs after X
			close(in.h.release)
		}
		if !concHung {
			go func() { ydone <- safeOp(y, in.m) }()
			if parked == 1 {
				select {
				case yres = <-ydone:
					ysched = "early"
				case <-time.After(linWindow):
				}
				close(in.h.release)
				select {
				case xres = <-xdone:
				case <-time.After(concWatchdog):
					xres, concHung = "hang", true
				}
			}
			if yres == "" {
				select {
				case yres = <-ydone:
				case <-time.After(concWatchdog):
					yres, concHung = "hang", true
				}
			}
		} else {
			yres = "skipped"
		}
		site := "-"
		if parked == 1 {
			site = in.h.site
		}
		conc := linSeq{x: xres, y: yres, summary: "hang", full: "hang"}
		if !concHung {
			u.VerifHook = nil
			conc.summary, conc.full = in.dump()
		}
		if conc.token() != xy.token() && conc.token() != yx.token() {
			emit("conclin dump k=%d concurrent X=%s Y=%s %s", k, conc.x, conc.y, conc.full)
			emit("conclin dump k=%d X;Y X=%s Y=%s %s", k, xy.x, xy.y, xy.full)
			emit("conclin dump k=%d Y;X X=%s Y=%s %s", k, yx.x, yx.y, yx.full)
		}
		emit("conclin pair %s %s %s %d %d %s %d %s %s %s %s", x.name, y.name, lw.cfg, k, K, site, parked, ysched,
			conc.token(), xy.token(), yx.token())
		if concHung {
			return
		}
	}
}

// ---------- query scenarios ----------

func (lw *linWorld) linQueries(x linop) []cquery {
	w, g := lw.w, lw.w.g
	base := w.a
	qs := []cquery{qGetRoots(), qGetStump(), qGetNumLeaves(), qGetTreeRows(), qWrite()}
	seen := map[u.Hash]bool{}
	var probe []u.Hash
	add := func(tag string, h u.Hash) {
		if seen[h] || len(probe) >= 6 {
			return
		}
		seen[h] = true
		probe = append(probe, h)
		qs = append(qs, qProve(tag, []u.Hash{h}), qGetLeafPosition(tag, h))
	}
	add("f", lw.focus)
	for _, h := range x.touch {
		add("t", h)
	}
	if c := minus(w.cachedLive(), x.touch); len(c) > 0 {
		s := c[g.Intn(len(c))]
		add("s", s)
		if len(c) > 1 {
			qs = append(qs, qProve("ss", pick(g, c, 2)))
		}
	}
	for _, h := range probe[:min(2, len(probe))] {
		if p, err := w.prover.Prove([]u.Hash{h}); err == nil {
			qs = append(qs, qVerify("p", []u.Hash{h}, p), qGetMissingPositions(p.Targets))
		}
	}
	probe = append(probe, g.leafHash())
	qs = append(qs, qGetLeafHashPositions(probe))
	// the focus leaf, its ancestors, its sibling and a few fixed positions
	pos := lw.leafPos(lw.focus)
	ps := []uint64{0, pos, pos ^ 1, w.prover.NumLeaves - 1, w.prover.NumLeaves}
	for i, p := 0, pos; i < 3; i++ {
		p = u.Parent(p, base.TotalRows)
		ps = append(ps, p, p^1)
	}
	done := map[uint64]bool{}
	for _, p := range ps {
		if !done[p] {
			done[p] = true
			qs = append(qs, qGetHash(p))
		}
	}
	return qs
}

func linQueryScenario(g *Gen, lw *linWorld, x linop, nK int) {
	if concHung {
		return
	}
	base := lw.w.a
	qs := lw.linQueries(x)
	n := len(qs)
	emit("session conclinq %s %s", x.name, lw.cfg)
	pre, post := make([]string, n), make([]string, n)
	tw := linClone(base, 0)
	tw.arm()
	bs, _ := tw.dump()
	emit("conclin info base %s focus=%s", bs, sh(lw.focus))
	emit("conclin info X %s", x.desc)
	for i, q := range qs {
		pre[i] = twinRun(q, tw.m)
	}
	before := atomic.LoadInt64(&tw.h.count)
	alone := linSeq{x: seqOp(x, tw.m), y: "-", summary: "hang"}
	K := int(atomic.LoadInt64(&tw.h.count) - before)
	if !concHung {
		alone.summary, _ = tw.dump()
	}
	for i, q := range qs {
		post[i] = twinRun(q, tw.m)
	}
	u.VerifHook = nil
	ks := sampleK(g, K, nK)
	emit("conclin info K %d sampled %s", K, ints(ks))
	if concHung {
		emit("conclin qw %s %s 0 %d - 0 skipped %s", x.name, lw.cfg, K, alone.token())
		return
	}
	for _, k := range ks {
		in := linClone(base, k)
		in.arm()
		xdone := make(chan string, 1)
		go func() { xdone <- safeOp(x, in.m) }()
		parked, xres := 0, ""
		select {
		case <-in.h.parked:
			parked = 1
		case xres = <-xdone:
		case <-time.After(concWatchdog):
			xres, concHung = "hang", true
		}
		res, sched := make([]string, n), make([]string, n)
		site := "-"
		if parked == 0 {
			close(in.h.release)
		}
		if parked == 1 {
			site = in.h.site
			done := make([]chan string, n)
			for i := range qs {
				done[i] = make(chan string, 1)
				go func(i int) { done[i] <- safeRun(qs[i], in.m) }(i)
			}
			time.Sleep(linWindow)
			for i := range qs {
				select {
				case res[i] = <-done[i]:
					sched[i] = "early"
				default:
					sched[i] = "blocked"
				}
			}
			close(in.h.release)
			select {
			case xres = <-xdone:
			case <-time.After(concWatchdog):
				xres, concHung = "hang", true
			}
			deadline := time.Now().Add(concWatchdog)
			for i := range qs {
				if sched[i] == "early" {
					continue
				}
				select {
				case res[i] = <-done[i]:
				case <-time.After(time.Until(deadline)):
					res[i], concHung = "hang", true
				}
			}
		}
		conc := linSeq{x: xres, y: "-", summary: "hang"}
		if !concHung {
			u.VerifHook = nil
			conc.summary, _ = in.dump()
		}
		if parked == 1 {
			for i, q := range qs {
				emit("conclin q %s %s %d %d %s %s %s %s %s %s %s", x.name, lw.cfg, k, K, site, q.name, q.args, sched[i], res[i], pre[i], post[i])
			}
		}
		emit("conclin qw %s %s %d %d %s %d %s %s", x.name, lw.cfg, k, K, site, parked, conc.token(), alone.token())
		if concHung {
			return
		}
	}
}

func famConcLin(g *Gen, tier string, shard, nshards int) {
	limit := 5 * time.Minute
	if tier == "thorough" {
		limit = 30 * time.Minute
	}
	runtime.GOMAXPROCS(4)
	time.AfterFunc(limit, func() {
		fmt.Fprintln(os.Stderr, "harness: conclin: global watchdog expired (a call never returned: deadlock?)")
		os.Exit(3)
	})
	rounds, maxAdds, nK, nKq := 2, 4, 5, 4
	if tier == "thorough" {
		rounds, maxAdds, nK, nKq = 8, 8, 14, 10
		linWindow = 40 * time.Millisecond
	}
	cfgs := []cconfig{{false, 63}, {false, 0}, {true, 63}, {false, 50}, {true, 0}, {false, 5}}
	for r := 0; r < rounds; r++ {
		for i, cfg := range cfgs {
			if (r*len(cfgs)+i)%nshards != shard {
				continue
			}
			var lw *linWorld
			for tries := 0; lw == nil && tries < 10; tries++ {
				lw = newLinWorld(g, cfg, maxAdds)
			}
			if lw == nil {
				die("conclin: could not build a world with cached and uncached live leaves")
			}
			for _, xn := range linTypes {
				x, ok := lw.primary[xn]
				if !ok {
					continue
				}
				for _, yn := range linTypes {
					y, ok := lw.primary[yn]
					if xn == yn {
						y, ok = lw.secondary[yn]
					}
					if !ok {
						continue
					}
					linPair(g, lw, x, y, nK)
				}
				linQueryScenario(g, lw, x, nKq)
			}
			// the operations with random arguments as X against the focused ones
			for _, xn := range linTypes {
				x, ok := lw.secondary[xn]
				if !ok {
					continue
				}
				yn := linTypes[g.Intn(len(linTypes))]
				if y, ok := lw.primary[yn]; ok {
					linPair(g, lw, x, y, nK)
				}
			}
			if concHung {
				return
			}
		}
	}
}
