package main

import (
	"fmt"

	u "github.com/utreexo/utreexo"
)

func init() { families["arith"] = famArith }

func e01(err error) string {
	if err != nil {
		return "1"
	}
	return "0"
}

// arithPoint prints every position function at one (pos, other, numLeaves, rows, row) point.
func arithPoint(pos, other, n uint64, rows, row uint8) {
	emit("fn LeftChild %d %d = %d", pos, rows, u.LeftChild(pos, rows))
	emit("fn RightChild %d %d = %d", pos, rows, u.RightChild(pos, rows))
	emit("fn Parent %d %d = %d", pos, rows, u.Parent(pos, rows))
	v, err := u.ChildMany(pos, row, rows)
	emit("fn ChildMany %d %d %d = %d %s", pos, row, rows, v, e01(err))
	v, err = u.ParentMany(pos, row, rows)
	emit("fn ParentMany %d %d %d = %d %s", pos, row, rows, v, e01(err))
	emit("fn DetectRow %d %d = %d", pos, rows, u.DetectRow(pos, rows))
	emit("fn TreeRows %d = %d", n, u.TreeRows(n))
	emit("fn rootPosition %d %d %d = %d", n, row, rows, u.VerifRootPosition(n, row, rows))
	emit("fn isRootPosition %d %d = %s", pos, n, b01(u.VerifIsRootPosition(pos, n)))
	emit("fn isRootPositionOnRow %d %d %d = %s", pos, n, row, b01(u.VerifIsRootPositionOnRow(pos, n, row)))
	emit("fn isRootPositionTotalRows %d %d %d = %s", pos, n, rows, b01(u.VerifIsRootPositionTotalRows(pos, n, rows)))
	emit("fn isRootPositionOnRowTotalRows %d %d %d %d = %s", pos, n, row, rows, b01(u.VerifIsRootPositionOnRowTotalRows(pos, n, row, rows)))
	v, err = u.VerifMaxPositionAtRow(row, rows, n)
	emit("fn maxPositionAtRow %d %d %d = %d %s", row, rows, n, v, e01(err))
	emit("fn maxPossiblePosAtRow %d %d = %d", row, rows, u.VerifMaxPossiblePosAtRow(row, rows))
	emit("fn startPositionAtRow %d %d = %d", row, rows, u.VerifStartPositionAtRow(row, rows))
	emit("fn translatePos %d %d %d = %d", pos, rows, row, u.VerifTranslatePos(pos, rows, row))
	v, err = u.VerifCalcNextPosition(pos, other, rows)
	emit("fn calcNextPosition %d %d %d = %d %s", pos, other, rows, v, e01(err))
	emit("fn calcPrevPosition %d %d %d = %d", pos, other, rows, u.VerifCalcPrevPosition(pos, other, rows))
	emit("fn isAncestor %d %d %d = %s", pos, other, rows, b01(u.VerifIsAncestor(pos, other, rows)))
	emit("fn inForest %d %d %d = %s", pos, n, rows, b01(u.VerifInForest(pos, n, rows)))
	if rows < 255 {
		emit("fn getLowestRoot %d %d = %d", n, rows, u.VerifGetLowestRoot(n, rows))
	}
	emit("fn rootIdxOnRow %d %d = %d", n, row, u.VerifRootIdxOnRow(n, row))
	if other < 70 {
		emit("fn removeBit %d %d = %d", pos, other, u.VerifRemoveBit(pos, other))
		emit("fn addBit %d %d 0 = %d", pos, other, u.VerifAddBit(pos, other, false))
		emit("fn addBit %d %d 1 = %d", pos, other, u.VerifAddBit(pos, other, true))
	}
	// DetectOffset can panic (negative shift) or spin on garbage: guard it.
	var a, b uint8
	var c uint64
	var derr error
	r := guard(watchdog, func() { a, b, c, derr = u.DetectOffset(pos, n) })
	if r == "ok" {
		emit("fn DetectOffset %d %d = %d %d %d %s", pos, n, a, b, c, e01(derr))
	}
	if row < 64 && n > 0 {
		var sr uint8
		r := guard(watchdog, func() { sr = u.VerifSubtreeRow(n, row) })
		if r == "ok" {
			emit("fn subtreeRow %d %d = %d", n, row, sr)
		}
	}
}

func arithLists(g *Gen, targets []uint64, n uint64, rows uint8) {
	emit("fn RootPositions %d %d = %s", n, rows, us(u.RootPositions(n, rows)))
	emit("fn deTwin %s %d = %s", us(targets), rows, us(u.VerifDeTwin(targets, rows)))
	pp, comp := u.ProofPositions(copyU64(targets), n, rows)
	emit("fn ProofPositions %s %d %d = %s %s", us(targets), n, rows, us(pp), us(comp))
	if len(targets) > 0 {
		emit("fn proofPosition %d %d %d = %s", targets[0], n, rows, us(u.VerifProofPosition(targets[0], n, rows)))
	}
}

// famArith: exhaustive for small heights, boundary and random 64-bit values up to 63 rows.
func famArith(g *Gen, tier string, shard, nshards int) {
	maxRows := uint8(4)
	if tier == "thorough" {
		maxRows = 6
	}
	c := 0
	for rows := uint8(0); rows <= maxRows; rows++ {
		top := uint64(2)<<rows + 2
		for pos := uint64(0); pos < top; pos++ {
			c++
			if c%nshards != shard {
				continue
			}
			for n := uint64(0); n <= uint64(1)<<rows+1; n++ {
				other := uint64(g.Intn(int(top)))
				for row := uint8(0); row <= rows+1; row++ {
					arithPoint(pos, other, n, rows, row)
				}
			}
		}
		// all sorted target subsets of small forests
		if rows <= 3 || (tier == "thorough" && rows <= 4) {
			for n := uint64(1); n <= uint64(1)<<rows; n++ {
				if u.TreeRows(n) != rows {
					continue
				}
				np := uint64(2) << rows
				for m := uint64(1); m < uint64(1)<<np && m < 1<<16; m++ {
					c++
					if c%nshards != shard || (np > 8 && g.Intn(8) != 0) {
						continue
					}
					var ts []uint64
					for p := uint64(0); p < np; p++ {
						if m>>p&1 == 1 {
							ts = append(ts, p)
						}
					}
					arithLists(g, ts, n, rows)
					// allocated rows larger than needed
					if g.Intn(4) == 0 {
						big := []uint8{rows + 1, 50, 63}[g.Intn(3)]
						tr := make([]uint64, len(ts))
						for i := range ts {
							tr[i] = u.VerifTranslatePos(ts[i], rows, big)
						}
						arithLists(g, tr, n, big)
					}
				}
			}
		}
	}
	// boundary / random at all heights
	nRand := 3000
	if tier == "thorough" {
		nRand = 40000
	}
	for i := 0; i < nRand; i++ {
		rows := uint8(g.Intn(64))
		if g.Intn(20) == 0 {
			rows = uint8(g.Intn(256))
		}
		row := uint8(g.Intn(int(rows) + 2))
		if g.Intn(10) == 0 {
			row = uint8(g.Intn(256))
		}
		var n uint64
		if rows < 64 {
			n = g.boundaryU64() & (uint64(1)<<rows | (uint64(1)<<rows - 1))
		} else {
			n = g.boundaryU64()
		}
		pos := g.boundaryU64()
		other := g.boundaryU64()
		if g.Intn(2) == 0 && rows < 64 {
			// a valid position and a valid ancestor-ish position for this height
			mask := uint64(2)<<rows - 1
			pos &= mask
			other &= mask
		}
		arithPoint(pos, other, n, rows, row)
		if i%10 == 0 && rows <= 63 && n > 0 {
			// random leaf targets in TreeRows coordinates and translated
			tr := u.TreeRows(n)
			k := 1 + g.Intn(5)
			seen := map[uint64]bool{}
			var ts []uint64
			for j := 0; j < k; j++ {
				t := g.Uint64() % n
				if !seen[t] {
					seen[t] = true
					ts = append(ts, t)
				}
			}
			sortU64(ts)
			arithLists(g, ts, n, tr)
			if rows >= tr {
				arithLists(g, ts, n, rows)
			}
		}
	}
	_ = fmt.Sprint
}

func sortU64(xs []uint64) {
	for i := 1; i < len(xs); i++ {
		for j := i; j > 0 && xs[j-1] > xs[j]; j-- {
			xs[j-1], xs[j] = xs[j], xs[j-1]
		}
	}
}
