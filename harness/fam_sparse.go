package main

// Families `sparse` / `sparseexh`: the PURE part of the library (Verify, Stump.Update,
// Proof.Update, Proof.Undo, AddProof, GetProofSubset, GetMissingPositions) driven on SPARSE
// forests with huge leaf counts (rows 32..63), which no stateful family can reach.
//
// A sparse forest is a leaf count N, a handful of target nodes, fresh random hashes for the
// targets and for exactly the proof positions their canonical proof needs, and the roots that
// follow by hashing upwards.  The geometry used to fabricate it is written here from scratch
// on (row, offset) pairs (nothing of the library's position arithmetic is used: only the
// parent-hash function), so that a library defect that shows only beyond 2^31 / 2^32 leaves
// cannot hide in a shared helper.
//
// Lines (all judged by the driver, Driver/Sparse.lean):
//
//	session sparse <forest> <stage>
//	sforest <n> <roots> <known positions> <known hashes> <targets>     ground truth
//	sverify <tag> <n> <roots> <hashes> <targets> <proof> <res…>        tag = honest[:ctx] | mut:<kind>
//	sexpect <ctx> <expected tokens…> = <observed tokens…>              independent expectation
//	stump … update …  /  pupdate …  /  pundo …  /  addproof sparse …  /  subset sparse …  /
//	missing sparse …                                                   (existing line kinds)

import (
	"math/bits"
	"sort"

	u "github.com/utreexo/utreexo"
)

func init() {
	families["sparse"] = famSparse
	families["sparseexh"] = famSparseExh
}

// spMaxLeaves: positions of a forest with more than 2^63 leaves do not fit 64 bits.
const spMaxLeaves = uint64(1) << 63

// ---------------------------------------------------------------- geometry (independent)

// spNode is a node of the forest: row (0 = leaves) and offset within the row, counted over the
// whole forest (the trees stand side by side, the largest on the left).
type spNode struct {
	row uint8
	off uint64
}

func spLess(a, b spNode) bool { return a.row < b.row || (a.row == b.row && a.off < b.off) }

func spSort(xs []spNode) { sort.Slice(xs, func(i, j int) bool { return spLess(xs[i], xs[j]) }) }

// spRows: the rows a forest of n leaves allocates: the smallest R with 2^R >= n.
func spRows(n uint64) uint8 {
	R := uint8(0)
	for R < 64 && uint64(1)<<R < n {
		R++
	}
	return R
}

// spStart: encoded position of the first node on a row: the rows below it hold 2^R, 2^(R-1), …
// positions.
func spStart(R, row uint8) uint64 {
	var s uint64
	for i := uint8(0); i < row; i++ {
		s += uint64(1) << (R - i)
	}
	return s
}

func spEnc(R uint8, x spNode) uint64 { return spStart(R, x.row) + x.off }

func spDec(R uint8, pos uint64) (spNode, bool) {
	for row := uint8(0); row <= R; row++ {
		start := spStart(R, row)
		if pos >= start && pos-start < uint64(1)<<(R-row) {
			return spNode{row, pos - start}, true
		}
	}
	return spNode{}, false
}

func spParent(x spNode) spNode  { return spNode{x.row + 1, x.off >> 1} }
func spSibling(x spNode) spNode { return spNode{x.row, x.off ^ 1} }

type sparseForest struct {
	n       uint64
	R       uint8
	roots   []u.Hash // as Stump.Roots: the root of the largest tree first
	known   map[spNode]u.Hash
	targets []spNode // ascending
}

func (sf *sparseForest) enc(x spNode) uint64 { return spEnc(sf.R, x) }

func (sf *sparseForest) encAll(xs []spNode) []uint64 {
	r := make([]uint64, len(xs))
	for i, x := range xs {
		r[i] = sf.enc(x)
	}
	return r
}

// exists: the subtree below the node lies within the first n leaves.
func (sf *sparseForest) exists(x spNode) bool {
	if x.row > sf.R || x.off >= uint64(1)<<(sf.R-x.row) {
		return false
	}
	return (x.off+1)<<x.row <= sf.n
}

// treeOf: height of the tree that holds the node: the highest bit in which the leaf count and
// the node's leftmost leaf differ.
func (sf *sparseForest) treeOf(x spNode) uint8 {
	return uint8(bits.Len64(sf.n^(x.off<<x.row)) - 1)
}

func (sf *sparseForest) rootNode(h uint8) spNode { return spNode{h, (sf.n >> (h + 1)) << 1} }

// rootIdx: index of the root of the tree of height h in Stump.Roots.
func (sf *sparseForest) rootIdx(h uint8) int { return bits.OnesCount64(sf.n >> (h + 1)) }

func (sf *sparseForest) isRoot(x spNode) bool {
	return sf.n>>x.row&1 == 1 && x == sf.rootNode(x.row)
}

// trees: heights of the trees, descending.
func (sf *sparseForest) trees() []uint8 {
	var hs []uint8
	for h := 63; h >= 0; h-- {
		if sf.n>>uint(h)&1 == 1 {
			hs = append(hs, uint8(h))
		}
	}
	return hs
}

// closure: the nodes and all their ancestors up to the roots.
func (sf *sparseForest) closure(ts []spNode) map[spNode]bool {
	S := map[spNode]bool{}
	for _, t := range ts {
		for x := t; !S[x]; x = spParent(x) {
			S[x] = true
			if sf.isRoot(x) {
				break
			}
		}
	}
	return S
}

// proofNodes: the canonical proof positions of the targets, ascending: siblings of the nodes
// on the paths that are not on a path themselves.
func (sf *sparseForest) proofNodes(ts []spNode) []spNode {
	S := sf.closure(ts)
	var need []spNode
	for x := range S {
		if sf.isRoot(x) {
			continue
		}
		if s := spSibling(x); !S[s] {
			need = append(need, s)
		}
	}
	spSort(need)
	return need
}

// proofFor: the honest proof of known nodes, read off the ground truth.
func (sf *sparseForest) proofFor(ts []spNode) (u.Proof, []u.Hash, bool) {
	need := sf.proofNodes(ts)
	p := u.Proof{Targets: sf.encAll(ts)}
	for _, s := range need {
		h, ok := sf.known[s]
		if !ok {
			return u.Proof{}, nil, false
		}
		p.Proof = append(p.Proof, h)
	}
	hs := make([]u.Hash, len(ts))
	for i, t := range ts {
		h, ok := sf.known[t]
		if !ok {
			return u.Proof{}, nil, false
		}
		hs[i] = h
	}
	return p, hs, true
}

// compute: the hash of a node on a path, from the hashes below it.
func (sf *sparseForest) compute(x spNode) u.Hash {
	if h, ok := sf.known[x]; ok {
		return h
	}
	if x.row == 0 {
		die("sparse: internal error: leaf %d has no hash", x.off)
	}
	l := sf.compute(spNode{x.row - 1, x.off << 1})
	r := sf.compute(spNode{x.row - 1, x.off<<1 | 1})
	h := u.VerifParentHash(l, r)
	sf.known[x] = h
	return h
}

func (sf *sparseForest) stump() u.Stump {
	return u.Stump{Roots: copyHashes(sf.roots), NumLeaves: sf.n}
}

// spNewForest fabricates a sparse forest with the given targets.  emptyPct: share of the trees
// without a target that are given an EMPTY root (a tree whose leaves were all deleted).
func spNewForest(g *Gen, n uint64, ts []spNode, emptyPct int) *sparseForest {
	sf := &sparseForest{n: n, R: spRows(n), known: map[spNode]u.Hash{}}
	ts = append([]spNode{}, ts...)
	spSort(ts)
	sf.targets = ts
	for _, t := range ts {
		if !sf.exists(t) {
			die("sparse: internal error: target (%d,%d) not in a forest of %d leaves", t.row, t.off, n)
		}
		sf.known[t] = g.leafHash()
	}
	for _, s := range sf.proofNodes(ts) {
		sf.known[s] = g.leafHash()
	}
	touched := map[uint8]bool{}
	for _, t := range ts {
		touched[sf.treeOf(t)] = true
	}
	sf.roots = make([]u.Hash, bits.OnesCount64(n))
	for _, h := range sf.trees() {
		r := sf.rootNode(h)
		if touched[h] {
			sf.roots[sf.rootIdx(h)] = sf.compute(r)
			continue
		}
		var rh u.Hash
		if g.Intn(100) >= emptyPct {
			rh = g.leafHash()
		}
		sf.known[r] = rh
		sf.roots[sf.rootIdx(h)] = rh
	}
	return sf
}

// spFromProof rebuilds the sparse knowledge from a stump and a proof the library produced (the
// cached proof after a block): nil when the proof does not hash up to the stump.
func spFromProof(st u.Stump, targets []uint64, hashes []u.Hash, proof []u.Hash) *sparseForest {
	sf := &sparseForest{n: st.NumLeaves, R: spRows(st.NumLeaves), known: map[spNode]u.Hash{}, roots: copyHashes(st.Roots)}
	if len(targets) != len(hashes) || len(sf.roots) != bits.OnesCount64(sf.n) {
		return nil
	}
	for i, t := range targets {
		x, ok := spDec(sf.R, t)
		if !ok || !sf.exists(x) {
			return nil
		}
		if _, dup := sf.known[x]; dup {
			return nil
		}
		sf.known[x] = hashes[i]
		sf.targets = append(sf.targets, x)
	}
	spSort(sf.targets)
	need := sf.proofNodes(sf.targets)
	if len(need) != len(proof) {
		return nil
	}
	for i, s := range need {
		if _, clash := sf.known[s]; clash {
			return nil
		}
		sf.known[s] = proof[i]
	}
	touched := map[uint8]bool{}
	for _, t := range sf.targets {
		touched[sf.treeOf(t)] = true
	}
	for _, h := range sf.trees() {
		r := sf.rootNode(h)
		if touched[h] {
			if sf.compute(r) != sf.roots[sf.rootIdx(h)] {
				return nil
			}
		} else {
			sf.known[r] = sf.roots[sf.rootIdx(h)]
		}
	}
	return sf
}

// ---------------------------------------------------------------- generators

// spPickK: exponent in 20..62 with extra weight on the 32-bit boundary and on the top.
func spPickK(g *Gen) uint {
	switch g.Intn(10) {
	case 0, 1, 2:
		return []uint{31, 32, 33}[g.Intn(3)]
	case 3:
		return 62
	case 4:
		return []uint{30, 34, 47, 48, 61, 63}[g.Intn(6)]
	default:
		return uint(20 + g.Intn(43))
	}
}

// spPickN: boundary-rich leaf counts; about one in eight is small (<= 64) so that the family
// overlaps with what the stateful families see.
func spPickN(g *Gen) uint64 {
	var n uint64
	k := spPickK(g)
	switch g.Intn(16) {
	case 0:
		n = uint64(1) << k
	case 1:
		n = uint64(1)<<k - 1 // k trees
	case 2:
		n = uint64(1)<<k + 1
	case 3:
		n = uint64(1)<<k | uint64(1)<<uint(g.Intn(int(k)))
	case 4:
		n = uint64(1)<<k | uint64(1)<<uint(g.Intn(int(k))) | 1
	case 5: // a run of ones from the top: 2^k - 2^j, possibly with a few low trees
		n = uint64(1)<<k - uint64(1)<<uint(g.Intn(int(k)))
		if g.Intn(2) == 0 {
			n |= uint64(g.Intn(8))
		}
	case 6:
		n = uint64(1)<<k + uint64(1+g.Intn(64))
	case 7:
		n = uint64(1)<<k - uint64(1+g.Intn(64))
	case 8, 9: // random 64-bit pattern below 2^63
		n = g.Uint64() >> uint(1+g.Intn(43))
	case 10: // a random pattern with the low rows full or empty
		n = g.Uint64() >> uint(1+g.Intn(30))
		if g.Intn(2) == 0 {
			n |= uint64(1)<<uint(1+g.Intn(6)) - 1
		} else {
			n &^= uint64(1)<<uint(1+g.Intn(6)) - 1
		}
	case 11: // straddling 2^32 in the low word: high word and low word patterns
		n = uint64(1+g.Intn(1<<20))<<32 | uint64(g.Uint32())>>uint(g.Intn(32))
	case 12, 13:
		n = uint64(1 + g.Intn(64))
	case 14:
		n = uint64(65 + g.Intn(1<<20))
	default:
		n = uint64(1)<<k + uint64(g.Uint32())
	}
	if n == 0 {
		n = 1
	}
	if n > spMaxLeaves-8 && g.Intn(3) != 0 {
		n = spMaxLeaves - uint64(1+g.Intn(40))
	}
	if n > spMaxLeaves {
		n = spMaxLeaves
	}
	return n
}

// spLeafIn: a leaf of the tree of height h: edges, middle, 32-bit boundaries, random.
func spLeafIn(g *Gen, n uint64, h uint8) uint64 {
	base := n >> (h + 1) << (h + 1)
	size := uint64(1) << h
	var o uint64
	switch g.Intn(9) {
	case 0:
		o = 0
	case 1:
		o = size - 1
	case 2:
		o = size / 2
	case 3:
		o = size/2 - 1
	case 4: // offsets around 2^31 / 2^32 / 2^33 inside the tree
		o = uint64(1)<<uint(31+g.Intn(3)) - uint64(g.Intn(3)) + uint64(g.Intn(2))
	case 5:
		o = g.boundaryU64()
	case 6:
		o = uint64(g.Intn(8))
	case 7:
		o = size - 1 - uint64(g.Intn(8))
	default:
		o = g.Uint64()
	}
	return base + o&(size-1)
}

// spPickTargets: 1..6 distinct target nodes (leaves; now and then a node a few rows up, the
// place of a leaf whose neighbours were deleted): same tree / different trees, siblings,
// cousins, edges of a tree, the lone row-0 root, trees of very different heights.
func spPickTargets(g *Gen, n uint64) []spNode {
	probe := &sparseForest{n: n, R: spRows(n)}
	hs := probe.trees()
	pickTree := func() uint8 {
		switch g.Intn(10) {
		case 0, 1, 2, 3:
			return hs[0]
		case 4, 5, 6:
			lo := min(len(hs), 3)
			return hs[len(hs)-1-g.Intn(lo)]
		default:
			return hs[g.Intn(len(hs))]
		}
	}
	want := 1 + g.Intn(6)
	seen := map[spNode]bool{}
	var ts []spNode
	add := func(x spNode) {
		if len(ts) >= want || !probe.exists(x) || seen[x] {
			return
		}
		// no target may be an ancestor of another one (an honest proof names leaves only)
		for _, t := range ts {
			lo, hi := t, x
			if lo.row > hi.row {
				lo, hi = hi, lo
			}
			if lo.off>>(hi.row-lo.row) == hi.off {
				return
			}
		}
		seen[x] = true
		ts = append(ts, x)
	}
	if n&1 == 1 && g.Intn(4) == 0 {
		add(spNode{0, n - 1}) // the lone row-0 root
	}
	for tries := 0; len(ts) < want && tries < 60; tries++ {
		if len(ts) > 0 && g.Intn(2) == 0 {
			// relative to an earlier target
			b := ts[g.Intn(len(ts))]
			if b.row == 0 {
				h := probe.treeOf(b)
				lo := n >> (h + 1) << (h + 1)
				var x uint64
				switch g.Intn(6) {
				case 0:
					x = b.off ^ 1 // sibling
				case 1:
					x = b.off ^ 2 // cousin
				case 2:
					x = b.off ^ 3
				case 3:
					x = b.off ^ uint64(1)<<uint(g.Intn(int(h)+1)) // same tree, splits j rows up
				case 4:
					x = b.off ^ uint64(1)<<uint(31+g.Intn(2)) // the leaf 2^31 / 2^32 away
				default:
					x = b.off + 1
				}
				if x >= lo && x-lo < uint64(1)<<h {
					add(spNode{0, x})
				}
				continue
			}
		}
		h := pickTree()
		leaf := spLeafIn(g, n, h)
		if h > 0 && g.Intn(8) == 0 {
			up := uint8(1 + g.Intn(int(min(int(h), 3))))
			add(spNode{up, leaf >> up})
			continue
		}
		add(spNode{0, leaf})
	}
	if len(ts) == 0 {
		ts = append(ts, spNode{0, 0})
	}
	return ts
}

// ---------------------------------------------------------------- emitting

func spRes(r string, err error, idx []int) string {
	if r != "ok" {
		return r
	}
	if err != nil {
		return "err"
	}
	return "ok " + ints(idx)
}

// spVerify calls Verify and emits the sverify line; reports whether the proof was accepted.
func spVerify(tag string, st u.Stump, hs []u.Hash, ts []uint64, pr []u.Hash) bool {
	var idx []int
	var err error
	stc := u.Stump{Roots: copyHashes(st.Roots), NumLeaves: st.NumLeaves}
	r := guard(watchdog, func() {
		idx, err = u.Verify(stc, copyHashes(hs), u.Proof{Targets: copyU64(ts), Proof: copyHashes(pr)})
	})
	emit("sverify %s %d %s %s %s %s %s", tag, st.NumLeaves, hxs(st.Roots), hxs(hs), us(ts), hxs(pr), spRes(r, err, idx))
	return r == "ok" && err == nil
}

func (sf *sparseForest) emitForest() {
	var nodes []spNode
	for x := range sf.known {
		nodes = append(nodes, x)
	}
	spSort(nodes)
	hs := make([]u.Hash, len(nodes))
	for i, x := range nodes {
		hs[i] = sf.known[x]
	}
	emit("sforest %d %s %s %s %s", sf.n, hxs(sf.roots), us(sf.encAll(nodes)), hxs(hs), us(sf.encAll(sf.targets)))
}

// spPairs renders (position, hash) pairs sorted by position: the canonical form in which a
// set of claims is compared.
func spPairs(ts []uint64, hs []u.Hash) string {
	if len(ts) != len(hs) {
		return "badlen"
	}
	idx := make([]int, len(ts))
	for i := range idx {
		idx[i] = i
	}
	sort.SliceStable(idx, func(a, b int) bool { return ts[idx[a]] < ts[idx[b]] })
	st, sh := make([]uint64, len(ts)), make([]u.Hash, len(ts))
	for i, j := range idx {
		st[i], sh[i] = ts[j], hs[j]
	}
	return us(st) + " " + hxs(sh)
}

func spSortedHashes(hs []u.Hash) string {
	c := copyHashes(hs)
	sort.Slice(c, func(i, j int) bool { return string(c[i][:]) < string(c[j][:]) })
	return hxs(c)
}

func spPermute(g *Gen, ts []uint64, hs []u.Hash) ([]uint64, []u.Hash) {
	p := g.Perm(len(ts))
	pt, ph := make([]uint64, len(ts)), make([]u.Hash, len(ts))
	for i, j := range p {
		pt[i], ph[i] = ts[j], hs[j]
	}
	return pt, ph
}

func spSubset(g *Gen, ts []spNode, pct int) []spNode {
	var r []spNode
	for _, t := range ts {
		if g.Intn(100) < pct {
			r = append(r, t)
		}
	}
	return r
}

// ---------------------------------------------------------------- Verify: honest and mutated

func (sf *sparseForest) verifyLines(g *Gen, nMut int) {
	st := sf.stump()
	p, hs, ok := sf.proofFor(sf.targets)
	if !ok {
		die("sparse: internal error: no proof for the forest's own targets")
	}
	spVerify("honest", st, hs, p.Targets, p.Proof)
	if len(p.Targets) > 1 {
		pt, ph := spPermute(g, p.Targets, hs)
		spVerify("honest", st, ph, pt, p.Proof)
		// descending
		rt, rh := copyU64(p.Targets), copyHashes(hs)
		for i, j := 0, len(rt)-1; i < j; i, j = i+1, j-1 {
			rt[i], rt[j] = rt[j], rt[i]
			rh[i], rh[j] = rh[j], rh[i]
		}
		spVerify("honest", st, rh, rt, p.Proof)
	}
	if len(sf.targets) > 1 {
		// honest proof of a sub-list
		sub := spSubset(g, sf.targets, 50)
		if sp, sh, ok := sf.proofFor(sub); ok {
			spVerify("honest", st, sh, sp.Targets, sp.Proof)
		}
	}
	for m := 0; m < nMut; m++ {
		sf.mutatedVerify(g, g.Intn(spNumMut), p, hs)
	}
}

const spNumMut = 24

// mutatedVerify emits one mutated variant of the honest proof (p, hs).
func (sf *sparseForest) mutatedVerify(g *Gen, mut int, p u.Proof, hs []u.Hash) {
	st := sf.stump()
	ts, pr := copyU64(p.Targets), copyHashes(p.Proof)
	hs = copyHashes(hs)
	i := g.Intn(len(ts))
	span := uint64(1) << sf.R << 1 // 2^(rows+1); 0 when rows = 63
	kind := ""
	switch mut {
	case 0: // wrong hash for a target
		kind, hs[i] = "hash", g.leafHash()
	case 1: // one proof hash flipped
		if len(pr) == 0 {
			return
		}
		j := g.Intn(len(pr))
		kind = "proofflip"
		if g.Intn(2) == 0 {
			pr[j][g.Intn(32)] ^= 1 << uint(g.Intn(8))
		} else {
			pr[j] = g.leafHash()
		}
	case 2: // proof too short
		if len(pr) == 0 {
			return
		}
		kind = "short"
		if g.Intn(2) == 0 {
			pr = pr[:len(pr)-1]
		} else {
			j := g.Intn(len(pr))
			pr = append(pr[:j:j], pr[j+1:]...)
		}
	case 3: // proof too long: trailing hashes are ignored
		kind = "long"
		pr = append(pr, g.leafHashes(1+g.Intn(3))...)
	case 4: // a surplus hash in the middle
		if len(pr) == 0 {
			return
		}
		kind = "insert"
		j := g.Intn(len(pr))
		pr = append(pr[:j:j], append([]u.Hash{g.leafHash()}, pr[j:]...)...)
	case 5: // target replaced by a position beyond the leaves / beyond every row
		kind = "oor"
		c := []uint64{sf.n, sf.n + 1, span, span - 1, span - 2, ts[i] + span, ts[i] | 1<<63, ^uint64(0), ^uint64(0) - 1,
			sf.n + uint64(1)<<32, uint64(1)<<sf.R + ts[i]}
		ts[i] = c[g.Intn(len(c))]
	case 6: // the same proof claimed for a neighbour
		kind = "moved"
		c := []uint64{ts[i] ^ 1, ts[i] + 1, ts[i] - 1, ts[i] ^ 2, ts[i] + 2}
		ts[i] = c[g.Intn(len(c))]
	case 7: // the leaf 2^31 / 2^32 / 2^33 further: equal to the target in the low word
		kind = "bit32"
		c := []uint64{ts[i] ^ 1<<32, ts[i] + 1<<32, ts[i] ^ 1<<31, ts[i] ^ 1<<33, ts[i] &^ (1<<32 - 1), ts[i] & (1<<32 - 1),
			ts[i] ^ 1<<uint(g.Intn(64))}
		ts[i] = c[g.Intn(len(c))]
	case 8, 9: // a node on a higher row with its true hash, in place of the targets below it
		kind = "higher"
		x := sf.targets[g.Intn(len(sf.targets))]
		h := sf.treeOf(x)
		if x.row >= h {
			return
		}
		up := x.row + 1 + uint8(g.Intn(int(h-x.row)))
		if g.Intn(3) == 0 {
			up = x.row + 1
		}
		anc := spNode{up, x.off >> (up - x.row)}
		nts := []spNode{anc}
		for _, t := range sf.targets {
			if t.row < up && t.off>>(up-t.row) == anc.off {
				continue
			}
			nts = append(nts, t)
		}
		spSort(nts)
		np, nh, ok := sf.proofFor(nts)
		if !ok {
			return
		}
		ts, hs, pr = np.Targets, nh, np.Proof
		if mut == 9 { // … with a wrong hash
			kind = "higherbad"
			for j := range nts {
				if nts[j] == anc {
					hs[j] = g.leafHash()
				}
			}
		}
	case 10: // an ancestor with its true hash next to the targets below it
		kind = "nested"
		x := sf.targets[g.Intn(len(sf.targets))]
		h := sf.treeOf(x)
		if x.row >= h {
			return
		}
		up := x.row + 1 + uint8(g.Intn(int(h-x.row)))
		anc := spNode{up, x.off >> (up - x.row)}
		ts, hs = append(ts, sf.enc(anc)), append(hs, sf.known[anc])
	case 11: // duplicate target with the same hash
		kind = "dup"
		ts, hs = append(ts, ts[i]), append(hs, hs[i])
	case 12: // duplicate target with another hash
		kind = "dupdiff"
		ts, hs = append(ts, ts[i]), append(hs, g.leafHash())
	case 13: // hashes permuted against the targets
		if len(ts) < 2 {
			return
		}
		kind = "swap"
		j := (i + 1 + g.Intn(len(ts)-1)) % len(ts)
		hs[i], hs[j] = hs[j], hs[i]
	case 14: // as many hashes as targets?
		kind = "lenmis"
		if g.Intn(2) == 0 {
			hs = hs[:len(hs)-1]
		} else {
			hs = append(hs, g.leafHash())
		}
	case 15:
		if len(pr) == 0 {
			return
		}
		kind, pr[g.Intn(len(pr))] = "zeroproof", u.Hash{}
	case 16:
		kind, hs[i] = "zerohash", u.Hash{}
	case 17: // a root claimed at its own position, alone or next to the honest proof
		kind = "rootclaim"
		hts := sf.trees()
		h := hts[g.Intn(len(hts))]
		if sf.roots[sf.rootIdx(h)] == (u.Hash{}) {
			return
		}
		if g.Intn(2) == 0 {
			ts, hs, pr = nil, nil, nil
		} else {
			var nts []spNode
			for _, t := range sf.targets {
				if sf.treeOf(t) != h {
					nts = append(nts, t)
				}
			}
			np, nh, ok := sf.proofFor(nts)
			if !ok {
				return
			}
			ts, hs, pr = np.Targets, nh, np.Proof
		}
		ts, hs = append(ts, sf.enc(sf.rootNode(h))), append(hs, sf.roots[sf.rootIdx(h)])
		if g.Intn(2) == 0 { // Verify takes the pairs in any order
			ts, hs = spPermute(g, ts, hs)
		}
	case 18: // another tree's root (or a fresh value) claimed at a root position
		kind = "rootwrong"
		hts := sf.trees()
		h := hts[g.Intn(len(hts))]
		w := g.leafHash()
		if len(hts) > 1 && g.Intn(2) == 0 {
			if o := sf.roots[sf.rootIdx(hts[g.Intn(len(hts))])]; o != sf.roots[sf.rootIdx(h)] && o != (u.Hash{}) {
				w = o
			}
		}
		ts, hs, pr = []uint64{sf.enc(sf.rootNode(h))}, []u.Hash{w}, nil
	case 19: // a node above row 0 with its true hash and proof, written in the coordinates of a
		// forest one row higher / lower (row-0 positions are the same in every coordinate system)
		kind = "otherrows"
		x := sf.targets[g.Intn(len(sf.targets))]
		h := sf.treeOf(x)
		R2 := sf.R + 1
		if sf.R >= 63 || (sf.R > 1 && g.Intn(2) == 0) {
			R2 = sf.R - 1
		}
		if x.row == 0 {
			if h == 0 {
				return
			}
			x = spNode{1, x.off >> 1}
		}
		if x.row > R2 {
			return
		}
		var nts []spNode
		for _, t := range sf.targets {
			if !(t.row <= x.row && t.off>>(x.row-t.row) == x.off) && !(t.row > x.row && x.off>>(t.row-x.row) == t.off) {
				nts = append(nts, t)
			}
		}
		nts = append(nts, x)
		spSort(nts)
		np, nh, ok := sf.proofFor(nts)
		if !ok {
			return
		}
		ts, hs, pr = np.Targets, nh, np.Proof
		for j := range nts {
			if nts[j] == x {
				ts[j] = spEnc(R2, x)
			}
		}
	case 20: // nothing claimed, junk proof
		kind = "empty"
		ts, hs, pr = nil, nil, g.leafHashes(g.Intn(3))
	case 21: // the honest proof of a sub-list offered for the whole list
		if len(sf.targets) < 2 {
			return
		}
		kind = "subproof"
		sub := append([]spNode{}, sf.targets...)
		j := g.Intn(len(sub))
		sub = append(sub[:j], sub[j+1:]...)
		sp, _, ok := sf.proofFor(sub)
		if !ok {
			return
		}
		pr = sp.Proof
	case 22: // a proof hash claimed as a target at its own position (true claim about a sibling)
		need := sf.proofNodes(sf.targets)
		if len(need) == 0 {
			return
		}
		kind = "proofastarget"
		s := need[g.Intn(len(need))]
		nts := append(append([]spNode{}, sf.targets...), s)
		spSort(nts)
		np, nh, ok := sf.proofFor(nts)
		if !ok {
			return
		}
		ts, hs, pr = np.Targets, nh, np.Proof
	default: // two proof hashes exchanged
		if len(pr) < 2 {
			return
		}
		kind = "proofswap"
		j := g.Intn(len(pr) - 1)
		pr[j], pr[j+1] = pr[j+1], pr[j]
	}
	spVerify("mut:"+kind, st, hs, ts, pr)
}

// ---------------------------------------------------------------- AddProof / subset / missing

func spAddProof(n uint64, pA, pB u.Proof, hA, hB []u.Hash) (string, []u.Hash, u.Proof) {
	var rh []u.Hash
	var rp u.Proof
	r := guard(watchdog, func() { rh, rp = u.AddProof(cpProof(pA), cpProof(pB), copyHashes(hA), copyHashes(hB), n) })
	head := "addproof sparse"
	if r != "ok" {
		emit("%s %d %s %s %s %s %s %s %s", head, n, us(pA.Targets), hxs(pA.Proof), hxs(hA), us(pB.Targets), hxs(pB.Proof), hxs(hB), r)
		return r, nil, u.Proof{}
	}
	emit("%s %d %s %s %s %s %s %s ok %s %s %s", head, n, us(pA.Targets), hxs(pA.Proof), hxs(hA),
		us(pB.Targets), hxs(pB.Proof), hxs(hB), hxs(rh), us(rp.Targets), hxs(rp.Proof))
	return r, rh, rp
}

func spGetSubset(n uint64, p u.Proof, hashes []u.Hash, wants []uint64) (string, []u.Hash, u.Proof) {
	var rh []u.Hash
	var rp u.Proof
	var err error
	w := copyU64(wants)
	r := guard(watchdog, func() { rh, rp, err = u.GetProofSubset(cpProof(p), copyHashes(hashes), w, n) })
	res := r
	if r == "ok" {
		if err != nil {
			res = "err"
		} else {
			res = "ok " + hxs(rh) + " " + us(rp.Targets) + " " + hxs(rp.Proof)
		}
	}
	emit("subset sparse %d %s %s %s %s %s", n, us(p.Targets), hxs(p.Proof), hxs(hashes), us(wants), res)
	if res == "err" {
		return "err", nil, u.Proof{}
	}
	return r, rh, rp
}

func spUnion(a, b []spNode) []spNode {
	seen := map[spNode]bool{}
	var r []spNode
	for _, x := range append(append([]spNode{}, a...), b...) {
		if !seen[x] {
			seen[x] = true
			r = append(r, x)
		}
	}
	spSort(r)
	return r
}

func (sf *sparseForest) proofOpsLines(g *Gen) {
	st := sf.stump()
	T := sf.targets
	// two sub-lists: overlapping, disjoint, one empty, nested, equal
	var A, B []spNode
	switch g.Intn(6) {
	case 0:
		A, B = spSubset(g, T, 50), spSubset(g, T, 50)
	case 1: // disjoint
		for _, t := range T {
			if g.Intn(2) == 0 {
				A = append(A, t)
			} else {
				B = append(B, t)
			}
		}
	case 2:
		A, B = spSubset(g, T, 70), nil
	case 3:
		A = spSubset(g, T, 70)
		B = spSubset(g, A, 50)
	case 4:
		A, B = T, T
	default:
		A, B = spSubset(g, T, 30), spSubset(g, T, 80)
	}
	if g.Intn(2) == 0 {
		A, B = B, A
	}
	pA, hA, okA := sf.proofFor(A)
	pB, hB, okB := sf.proofFor(B)
	if !okA || !okB {
		die("sparse: internal error: sub-proof")
	}
	U := spUnion(A, B)
	pU, hU, _ := sf.proofFor(U)

	// AddProof of the two honest sub-proofs = the canonical proof of the union
	if r, rh, rp := spAddProof(sf.n, pA, pB, hA, hB); r == "ok" {
		emit("sexpect addproof %s %s = %s %s", spPairs(pU.Targets, hU), hxs(pU.Proof), spPairs(rp.Targets, rh), hxs(rp.Proof))
		spVerify("honest:addproof", st, rh, rp.Targets, rp.Proof)
	}

	// GetProofSubset of the whole proof (pairs in a random parallel order) to a sub-list
	pT, hT, _ := sf.proofFor(T)
	ft, fh := pT.Targets, hT
	if g.Intn(2) == 0 {
		ft, fh = spPermute(g, ft, fh)
	}
	full := u.Proof{Targets: ft, Proof: pT.Proof}
	W := spSubset(g, T, 50)
	pW, hW, _ := sf.proofFor(W)
	wants, wh := pW.Targets, hW
	if g.Intn(2) == 0 {
		wants, wh = spPermute(g, wants, wh)
	}
	if r, rh, rp := spGetSubset(sf.n, full, fh, wants); r == "ok" {
		// hashes and targets in the order of the wants, the canonical proof hashes
		emit("sexpect subset %s %s %s = %s %s %s", us(wants), hxs(wh), hxs(pW.Proof), us(rp.Targets), hxs(rh), hxs(rp.Proof))
		spVerify("honest:subset", st, rh, rp.Targets, rp.Proof)
	} else {
		emit("sexpect subset ok = %s", r)
	}
	// an uncovered want: a neighbour that is no target, a position beyond the leaves
	unc := []uint64{sf.n, pT.Targets[0] ^ 1, pT.Targets[len(pT.Targets)-1] + 1, pT.Targets[0] ^ 1<<32}[g.Intn(4)]
	covered := false
	for _, t := range pT.Targets {
		covered = covered || t == unc
	}
	if !covered {
		w2 := append(copyU64(wants), unc)
		if g.Intn(2) == 0 {
			w2[0], w2[len(w2)-1] = w2[len(w2)-1], w2[0]
		}
		r, _, _ := spGetSubset(sf.n, full, fh, w2)
		emit("sexpect subset:uncovered err = %s", r)
	}

	// GetMissingPositions: holding the proof of A, wanting B
	var missing []uint64
	hT2, dT, dH := copyU64(pA.Targets), copyU64(pB.Targets), hB
	if g.Intn(2) == 0 {
		dT, dH = spPermute(g, dT, dH)
	}
	r := guard(watchdog, func() { missing = u.GetMissingPositions(sf.n, hT2, copyU64(dT)) })
	if r != "ok" {
		emit("missing sparse %d %s %s %s %s %s %s", sf.n, us(pA.Targets), hxs(hA), hxs(pA.Proof), us(dT), hxs(dH), r)
		emit("sexpect missing ok = %s", r)
		return
	}
	emit("missing sparse %d %s %s %s %s %s ok %s", sf.n, us(pA.Targets), hxs(hA), hxs(pA.Proof), us(dT), hxs(dH), us(missing))
	// expectation from the geometry: what proving B \ A needs, minus what the holder of the
	// proof of A has or can compute (targets, proof positions, everything on the paths)
	var extra []spNode
	inA := map[spNode]bool{}
	for _, a := range A {
		inA[a] = true
	}
	for _, b := range B {
		if !inA[b] {
			extra = append(extra, b)
		}
	}
	have := sf.closure(A)
	for _, s := range sf.proofNodes(A) {
		have[s] = true
	}
	var expMissing []uint64
	if len(extra) > 0 {
		for _, s := range sf.proofNodes(extra) {
			if !have[s] {
				expMissing = append(expMissing, sf.enc(s))
			}
		}
	}
	emit("sexpect missing %s = %s", us(expMissing), us(missing))
	// completion: the proof of A plus the true hashes at the reported positions must give
	// the canonical proof of the union
	got := map[uint64]u.Hash{}
	for i, s := range sf.proofNodes(A) {
		got[sf.enc(s)] = pA.Proof[i]
	}
	for _, m := range missing {
		if x, ok := spDec(sf.R, m); ok {
			if h, ok := sf.known[x]; ok {
				got[m] = h
			}
		}
	}
	var cp []u.Hash
	for _, s := range sf.proofNodes(U) {
		if h, ok := got[sf.enc(s)]; ok {
			cp = append(cp, h)
		}
	}
	spVerify("honest:missing", st, hU, pU.Targets, cp)
}

// ---------------------------------------------------------------- blocks

type spBlockOpt struct {
	delPct, cachePct int
	nAdds            int
	remPct           int
	permute, junk    bool
}

func spStumpUpdate(st u.Stump, delH, adds []u.Hash, p u.Proof) (u.Stump, u.UpdateData, bool) {
	work := u.Stump{Roots: copyHashes(st.Roots), NumLeaves: st.NumLeaves}
	var ud u.UpdateData
	var err error
	r := guard(watchdog, func() { ud, err = work.Update(copyHashes(delH), copyHashes(adds), cpProof(p)) })
	emitStumpUpdate(st, delH, adds, p, r, err, ud, work)
	return work, ud, r == "ok" && err == nil
}

func cpUD(ud u.UpdateData) u.UpdateData {
	return u.UpdateData{ToDestroy: copyU64(ud.ToDestroy), PrevNumLeaves: ud.PrevNumLeaves,
		NewDelHash: copyHashes(ud.NewDelHash), NewDelPos: copyU64(ud.NewDelPos),
		NewAddHash: copyHashes(ud.NewAddHash), NewAddPos: copyU64(ud.NewAddPos)}
}

// block applies one block to the sparse forest: Stump.Update with the honest proof of D,
// Proof.Update of the cached proof of C, Verify against the new stump, Proof.Undo, Verify
// against the old stump.  Returns the sparse knowledge of the NEW forest (what the updated
// cached proof tells), or nil when the chain cannot go on.
func (sf *sparseForest) block(g *Gen, D, C []spNode, adds []u.Hash, rem []uint32, o spBlockOpt) *sparseForest {
	st := sf.stump()
	pD, hD, ok := sf.proofFor(D)
	pC, hC, ok2 := sf.proofFor(C)
	if !ok || !ok2 {
		die("sparse: internal error: block proof")
	}
	bt, bh := pD.Targets, hD
	if o.permute && len(bt) > 1 {
		bt, bh = spPermute(g, bt, bh)
	}
	blockProof := u.Proof{Targets: bt, Proof: pD.Proof}

	// a rejected update leaves the stump as it was (model prints the stump after)
	if len(bh) > 0 && g.Intn(3) == 0 {
		bad, bp := copyHashes(bh), cpProof(blockProof)
		j := g.Intn(len(bad))
		switch g.Intn(4) {
		case 0: // wrong hash
			bad[j] = g.leafHash()
		case 1: // proof too short
			if len(bp.Proof) > 0 {
				bp.Proof = bp.Proof[:len(bp.Proof)-1]
			} else {
				bad[j] = g.leafHash()
			}
		case 2: // a target beyond the leaves / beyond every row / 2^32 away
			bp.Targets[j] = []uint64{sf.n, uint64(1) << sf.R << 1, bp.Targets[j] ^ 1<<32, bp.Targets[j] | 1<<63}[g.Intn(4)]
		default: // a proof hash flipped
			if len(bp.Proof) > 0 {
				bp.Proof[g.Intn(len(bp.Proof))][0] ^= 1
			} else {
				bad[j] = g.leafHash()
			}
		}
		spStumpUpdate(st, bad, adds, bp)
	}
	if o.junk {
		jp := u.Proof{Targets: bt, Proof: append(copyHashes(pD.Proof), g.leafHashes(1+g.Intn(2))...)}
		spStumpUpdate(st, bh, adds, jp)
	}
	after, ud, okU := spStumpUpdate(st, bh, adds, blockProof)
	if !okU {
		// the honest block was rejected: say so through the driver
		spVerify("honest", st, bh, bt, pD.Proof)
		return nil
	}

	// the cached proof of C through the block
	cached := cpProof(pC)
	var out []u.Hash
	var err error
	r := guard(watchdog, func() {
		out, err = cached.Update(copyHashes(hC), copyHashes(adds), copyU64(bt), append([]uint32{}, rem...), cpUD(ud))
	})
	emitPUpdate(pC, hC, adds, bt, rem, ud, r, err, out, cached)
	if r != "ok" || err != nil {
		emit("sexpect afterupdate ok = %s", resTriple(r, err, nil, u.Proof{}))
		return nil
	}
	// the hashes it must hold now: C minus D plus the remembered additions
	inD := map[spNode]bool{}
	for _, d := range D {
		inD[d] = true
	}
	var keep []spNode
	var expH []u.Hash
	for _, c := range C {
		if !inD[c] {
			keep = append(keep, c)
			expH = append(expH, sf.known[c])
		}
	}
	for _, i := range rem {
		expH = append(expH, adds[i])
	}
	emit("sexpect afterupdate %s = %s", spSortedHashes(expH), spSortedHashes(out))
	spVerify("honest:afterupdate", after, out, cached.Targets, cached.Proof)

	// and back
	undone := cpProof(cached)
	var uout []u.Hash
	var uerr error
	ur := guard(watchdog, func() {
		uout, uerr = undone.Undo(uint64(len(adds)), after.NumLeaves, copyU64(bt), copyHashes(bh), copyHashes(out),
			copyU64(ud.ToDestroy), cpProof(blockProof))
	})
	emitPUndo(cached, out, uint64(len(adds)), after.NumLeaves, bt, bh, ud.ToDestroy, blockProof, ur, uerr, uout, undone)
	if ur == "ok" && uerr == nil {
		pK, hK, _ := sf.proofFor(keep)
		emit("sexpect afterundo %s %s = %s %s", spPairs(pK.Targets, hK), hxs(pK.Proof), spPairs(undone.Targets, uout), hxs(undone.Proof))
		spVerify("honest:afterundo", st, uout, undone.Targets, undone.Proof)
	} else {
		emit("sexpect afterundo ok = %s", resTriple(ur, uerr, nil, u.Proof{}))
	}
	return spFromProof(after, cached.Targets, out, cached.Proof)
}

// randomBlock picks D, C, the additions and the remember indexes.
func (sf *sparseForest) randomBlock(g *Gen, maxAdds int) *sparseForest {
	o := spBlockOpt{permute: g.Intn(2) == 0, junk: g.Intn(4) == 0}
	var D, C []spNode
	switch g.Intn(8) {
	case 0:
		D = nil
	case 1:
		D = sf.targets
	default:
		D = spSubset(g, sf.targets, 30+g.Intn(50))
	}
	switch g.Intn(6) {
	case 0:
		C = sf.targets
	case 1:
		C = spSubset(g, sf.targets, 30)
	default: // mostly what survives, and some of what does not
		inD := map[spNode]bool{}
		for _, d := range D {
			inD[d] = true
		}
		for _, t := range sf.targets {
			if (!inD[t] && g.Intn(5) != 0) || (inD[t] && g.Intn(3) == 0) {
				C = append(C, t)
			}
		}
	}
	nAdds := 0
	switch g.Intn(5) {
	case 0:
		nAdds = 0
	case 1:
		nAdds = 1
	default:
		nAdds = g.Intn(maxAdds + 1)
	}
	if len(D) == 0 && nAdds == 0 && g.Intn(4) != 0 {
		nAdds = 1 + g.Intn(3)
	}
	if room := spMaxLeaves - sf.n; uint64(nAdds) > room {
		nAdds = int(room)
	}
	adds := g.leafHashes(nAdds)
	var rem []uint32
	pct := []int{0, 50, 50, 100}[g.Intn(4)]
	for i := range adds {
		if g.Intn(100) < pct {
			rem = append(rem, uint32(i))
		}
	}
	return sf.block(g, D, C, adds, rem, o)
}

// ---------------------------------------------------------------- the families

// famSparse: structured random sparse forests; per forest the verify lines (honest orders and
// mutations), the proof operations, and a chain of blocks, each followed by the same lines on
// the forest the updated cached proof describes.
func famSparse(g *Gen, tier string, shard, nshards int) {
	nForests, maxChain, nMut, maxAdds := 50, 3, 10, 6
	if tier == "thorough" {
		nForests, maxChain, nMut, maxAdds = 600, 4, 16, 6
	}
	for f := 0; f < nForests; f++ {
		n := spPickN(g)
		ts := spPickTargets(g, n)
		emptyPct := []int{0, 0, 25, 60}[g.Intn(4)]
		sf := spNewForest(g, n, ts, emptyPct)
		chain := 1 + g.Intn(maxChain)
		if tier == "thorough" && g.Intn(3) == 0 {
			chain = 2 + g.Intn(maxChain-1)
		}
		for stage := 0; sf != nil && len(sf.targets) > 0; stage++ {
			emit("session sparse %d %d", f, stage)
			sf.emitForest()
			m := nMut
			if stage > 0 {
				m = nMut / 3
			}
			sf.verifyLines(g, m)
			sf.proofOpsLines(g)
			if stage >= chain {
				break
			}
			sf = sf.randomBlock(g, maxAdds)
		}
	}
}

// spMix spreads the case numbers over the shards (a plain modulus would give a shard the same
// pattern / addition count for every leaf count).
func spMix(c int) int { return int(uint32(c) * 2654435761 >> 16) }

// famSparseExh: systematic boundary enumeration: for every exponent k of the tier, the leaf
// counts around 2^k, a fixed list of target patterns, every addition count 0..3 (and the count
// that crosses the next power of two when it is near), with a fixed sequence of lines.
func famSparseExh(g *Gen, tier string, shard, nshards int) {
	ks := []uint{1, 2, 3, 5, 16, 31, 32, 33, 62, 63}
	addCounts := []int{0, 1, 3}
	if tier == "thorough" {
		ks = nil
		for k := uint(1); k <= 63; k++ {
			ks = append(ks, k)
		}
		addCounts = []int{0, 1, 2, 3, 6}
	}
	caseNo := 0
	for _, k := range ks {
		p := uint64(1) << k
		ns := []uint64{p, p - 1, p + 1, p | p>>1, p | uint64(1)<<(k/2) | 1, p - p>>2}
		if tier == "thorough" {
			ns = append(ns, p-2, p+2)
		}
		for _, n := range ns {
			if n == 0 || n > spMaxLeaves {
				continue
			}
			probe := &sparseForest{n: n, R: spRows(n)}
			hs := probe.trees()
			big, low := hs[0], hs[len(hs)-1]
			bBase, bSize := n>>(big+1)<<(big+1), uint64(1)<<big
			lBase := n >> (low + 1) << (low + 1)
			pats := [][]spNode{
				{{0, bBase}},             // leftmost leaf of the largest tree
				{{0, bBase + bSize - 1}}, // its rightmost leaf
				{{0, bBase}, {0, bBase + 1&(bSize-1)}}, // sibling pair
				{{0, bBase + bSize - 1}, {0, lBase}},   // last leaf of the largest tree, first of the lowest
				{{0, n - 1}},                           // the last leaf (the lone root when n is odd)
				{{0, bBase + (uint64(1)<<31)&(bSize-1)}, {0, bBase + (uint64(1)<<32)&(bSize-1)}},
				{{0, bBase + (uint64(1)<<32-1)&(bSize-1)}, {0, bBase + (bSize/2)&(bSize-1)}, {0, n - 1}},
				{{0, bBase + bSize/2 - bSize/2&1}, {0, (bBase + bSize/2) ^ 2&(bSize-1)}}, // cousins in the middle
			}
			for pi, pat := range pats {
				// distinct, existing
				seen := map[spNode]bool{}
				var ts []spNode
				for _, x := range pat {
					if probe.exists(x) && !seen[x] {
						seen[x] = true
						ts = append(ts, x)
					}
				}
				if len(ts) == 0 {
					continue
				}
				for _, na := range addCounts {
					caseNo++
					if spMix(caseNo)%nshards != shard {
						continue
					}
					if uint64(na) > spMaxLeaves-n {
						continue
					}
					emit("session sparseexh k=%d n=%d pat=%d adds=%d", k, n, pi, na)
					sf := spNewForest(g, n, ts, []int{0, 100}[caseNo/len(addCounts)%2])
					sf.emitForest()
					sf.verifyLines(g, 0)
					p0, h0, _ := sf.proofFor(sf.targets)
					for _, m := range []int{0, 2, 5, 7, 8, 17} {
						sf.mutatedVerify(g, m, p0, h0)
					}
					if spMix(caseNo+7919)%4 == 0 {
						sf.proofOpsLines(g)
					}
					// block: delete the first target (all of them every third case), cache all
					D := sf.targets[:1]
					if caseNo%3 == 0 {
						D = sf.targets
					}
					adds := g.leafHashes(na)
					var rem []uint32
					for i := range adds {
						if (caseNo+i)%2 == 0 {
							rem = append(rem, uint32(i))
						}
					}
					nx := sf.block(g, D, sf.targets, adds, rem, spBlockOpt{permute: caseNo%2 == 0})
					if nx != nil && len(nx.targets) > 0 {
						// second block on what the cached proof knows: delete everything, add one
						emit("session sparseexh k=%d n=%d pat=%d adds=%d stage=1", k, n, pi, na)
						nx.emitForest()
						nx.verifyLines(g, 0)
						if nx.n < spMaxLeaves {
							nx.block(g, nx.targets, nx.targets, g.leafHashes(1), []uint32{0}, spBlockOpt{})
						}
					}
				}
			}
		}
	}
}
