package main

// Families `serial` (structured random histories) and `serialexh` (bounded-exhaustive small
// histories) for property C13: after a history every forest is written, the bytes are
// emitted for the Lean model of the wire format, and the stream is restored through
// readers that split it differently, from every truncation point, and written into sinks
// that fail at every offset.  The harness only reports what the Go code did (and whether a
// restored instance is observationally identical to the one that was written); the driver
// (lean/UtreexoVerif/Driver/Serial.lean) decides.  Restored instances join Sim.insts, so the
// following blocks, undos and observations run on them like on every other instance.

import (
	"bytes"
	"encoding/hex"
	"errors"
	"fmt"
	"io"
	"sort"
	"strconv"
	"strings"
	"testing/iotest"

	u "github.com/utreexo/utreexo"
)

func init() {
	families["serial"] = famSerial
	families["serialexh"] = famSerialExh
}

// ---------- readers and sinks ----------

// chunkReader is the reader of the Lean model: one Read returns at most what is left of the
// first chunk (an empty chunk is a 0,nil read); after the last chunk 0,io.EOF — or, with
// ewd, the read that delivers the end of the last chunk already carries io.EOF.
type chunkReader struct {
	chunks [][]byte
	ewd    bool
}

func (c *chunkReader) Read(p []byte) (int, error) {
	if len(c.chunks) == 0 {
		return 0, io.EOF
	}
	if len(p) == 0 {
		return 0, nil
	}
	h := c.chunks[0]
	if len(h) <= len(p) {
		n := copy(p, h)
		c.chunks = c.chunks[1:]
		if c.ewd && len(c.chunks) == 0 {
			return n, io.EOF
		}
		return n, nil
	}
	n := copy(p, h[:len(p)])
	c.chunks[0] = h[len(p):]
	return n, nil
}

func splitChunks(b []byte, sizes []int) [][]byte {
	var r [][]byte
	for _, s := range sizes {
		if s > len(b) {
			s = len(b)
		}
		r = append(r, b[:s])
		b = b[s:]
	}
	return append(r, b)
}

// mkReader builds the reader named by desc over b.
//
//	whole | one | half | dataerr | dataerr1 | c:<ewd>:<size,size,...>
func mkReader(desc string, b []byte) io.Reader {
	switch {
	case desc == "whole":
		return bytes.NewReader(b)
	case desc == "one":
		return iotest.OneByteReader(bytes.NewReader(b))
	case desc == "half":
		return iotest.HalfReader(bytes.NewReader(b))
	case desc == "dataerr":
		return iotest.DataErrReader(bytes.NewReader(b))
	case desc == "dataerr1":
		return iotest.DataErrReader(iotest.OneByteReader(bytes.NewReader(b)))
	case strings.HasPrefix(desc, "c:"):
		parts := strings.Split(desc, ":")
		var sizes []int
		if parts[2] != "-" {
			for _, s := range strings.Split(parts[2], ",") {
				n, _ := strconv.Atoi(s)
				sizes = append(sizes, n)
			}
		}
		return &chunkReader{chunks: splitChunks(append([]byte(nil), b...), sizes), ewd: parts[1] == "1"}
	}
	die("unknown reader %s", desc)
	return nil
}

func (g *Gen) randomChunkDesc(n int) string {
	var sizes []int
	left := n
	for left > 0 && len(sizes) < 4000 {
		var s int
		switch g.Intn(6) {
		case 0:
			s = 0
		case 1:
			s = 1
		case 2:
			s = 1 + g.Intn(8)
		case 3:
			s = 1 + g.Intn(40)
		case 4:
			s = 31 + g.Intn(4)
		default:
			s = 1 + g.Intn(300)
		}
		sizes = append(sizes, s)
		left -= s
	}
	return fmt.Sprintf("c:%d:%s", g.Intn(2), ints(sizes))
}

var errSink = errors.New("sink failed")

// failSink accepts room bytes in total, then fails (short write with an error).
type failSink struct {
	got  []byte
	room int
}

func (f *failSink) Write(p []byte) (int, error) {
	if len(p) <= f.room {
		f.got = append(f.got, p...)
		f.room -= len(p)
		return len(p), nil
	}
	n := f.room
	f.got = append(f.got, p[:n]...)
	f.room = 0
	return n, errSink
}

// cutPoints: every offset below n when the stream is small, otherwise the offsets around
// the field boundaries given by `marks` (±1) thinned to a sample, plus random offsets.
func (g *Gen) cutPoints(n int, marks []int, all bool) []int {
	if all || n <= 700 {
		r := make([]int, n)
		for i := range r {
			r[i] = i
		}
		return r
	}
	// budget: the driver decodes every prefix with the model, so the sample shrinks as the
	// stream grows (about 260 offsets for 1 kB, 48 for 6 kB and more)
	budget := 300000 / n
	if budget > 260 {
		budget = 260
	}
	if budget < 48 {
		budget = 48
	}
	set := map[int]bool{0: true, 1: true, n - 1: true, n - 2: true}
	var cand []int
	for _, m := range marks {
		for d := -1; d <= 1; d++ {
			if m+d >= 0 && m+d < n {
				cand = append(cand, m+d)
			}
		}
	}
	sort.Ints(cand)
	// keep the tail of the stream dense: that is where trailing empty roots / last records sit
	tailN := budget / 4
	if len(cand) > tailN {
		for _, c := range cand[len(cand)-tailN:] {
			set[c] = true
		}
		cand = cand[:len(cand)-tailN]
	}
	g.Shuffle(len(cand), func(a, b int) { cand[a], cand[b] = cand[b], cand[a] })
	if len(cand) > budget/2 {
		cand = cand[:budget/2]
	}
	for _, c := range cand {
		set[c] = true
	}
	for i := 0; i < budget/4; i++ {
		set[g.Intn(n)] = true
	}
	var r []int
	for k := range set {
		if k >= 0 && k < n {
			r = append(r, k)
		}
	}
	sort.Ints(r)
	return r
}

// ---------- corrupted streams ----------

type edit struct {
	off int
	val byte
}

func applyEdits(b []byte, es []edit) []byte {
	c := append([]byte(nil), b...)
	for _, e := range es {
		if e.off >= 0 && e.off < len(c) {
			c[e.off] = e.val
		}
	}
	return c
}

func editsStr(es []edit) string {
	parts := make([]string, len(es))
	for i, e := range es {
		parts[i] = fmt.Sprintf("%d=%d", e.off, e.val)
	}
	return strings.Join(parts, "+")
}

// addU64 returns the edits that replace the little-endian uint64 at off by v.
func putU64Edits(off int, v uint64) []edit {
	var es []edit
	for i := 0; i < 8; i++ {
		es = append(es, edit{off + i, byte(v >> (8 * uint(i)))})
	}
	return es
}

func getU64(b []byte, off int) uint64 {
	var v uint64
	for i := 0; i < 8; i++ {
		v |= uint64(b[off+i]) << (8 * uint(i))
	}
	return v
}

// pollardCorruptions: damaged variants of a pointer-forest stream: flipped leaf / niece flags,
// changed counters, flipped bytes.  Not part of the property's quantifier (which speaks of
// prefixes); the Go outcome is only compared with the model's, and must not be a panic.
func (g *Gen) pollardCorruptions(b []byte, many bool) [][]edit {
	var r [][]edit
	nNodes := (len(b) - 16) / 34
	k := 4
	if many {
		k = 10
	}
	for i := 0; i < k && nNodes > 0; i++ {
		nd := g.Intn(nNodes)
		lf, nf := 16+34*nd+32, 16+34*nd+33
		r = append(r, []edit{{lf, b[lf] ^ 1}}, []edit{{nf, b[nf] ^ 1}})
		if g.Intn(3) == 0 {
			r = append(r, []edit{{lf, byte(2 + g.Intn(250))}})
		}
	}
	nl, ndl := getU64(b, 0), getU64(b, 8)
	r = append(r, putU64Edits(0, nl+1), putU64Edits(0, nl-1), putU64Edits(8, ndl+1), putU64Edits(8, ndl-1),
		putU64Edits(0, 0), putU64Edits(0, nl|1<<63), putU64Edits(0, nl^1<<uint(g.Intn(8))))
	for i := 0; i < k; i++ {
		off := g.Intn(len(b))
		r = append(r, []edit{{off, b[off] ^ byte(1<<uint(g.Intn(8)))}})
	}
	if nNodes > 0 {
		// a live leaf's hash zeroed: readOne does not index the all-zero hash
		nd := g.Intn(nNodes)
		var es []edit
		for i := 0; i < 32; i++ {
			es = append(es, edit{16 + 34*nd + i, 0})
		}
		r = append(r, es)
	}
	return r
}

func (g *Gen) mapCorruptions(b []byte, nc int, many bool) [][]edit {
	var r [][]edit
	k := 3
	if many {
		k = 8
	}
	nn := (len(b) - 25 - 40*nc) / 41
	ncOff, nnOff := 9, 17+40*nc
	r = append(r, []edit{{0, byte(g.Intn(256))}}, putU64Edits(1, getU64(b, 1)+1),
		putU64Edits(ncOff, uint64(nc)+1), putU64Edits(ncOff, uint64(nc)|1<<63), putU64Edits(ncOff, ^uint64(0)),
		putU64Edits(nnOff, uint64(nn)+1), putU64Edits(nnOff, uint64(nn)|1<<63), putU64Edits(nnOff, 0))
	if nc > 0 {
		r = append(r, putU64Edits(ncOff, uint64(nc)-1))
	}
	if nn > 0 {
		r = append(r, putU64Edits(nnOff, uint64(nn)-1))
	}
	for i := 0; i < k; i++ {
		if nc > 0 {
			rec := 17 + 40*g.Intn(nc)
			o1, o2 := rec+g.Intn(32), rec+32+g.Intn(8)
			r = append(r, []edit{{o1, b[o1] ^ byte(1<<uint(g.Intn(8)))}}, []edit{{o2, b[o2] ^ byte(1<<uint(g.Intn(8)))}})
		}
		if nn > 0 {
			rec := nnOff + 8 + 41*g.Intn(nn)
			o1, o2, o3 := rec+g.Intn(8), rec+8+g.Intn(32), rec+40
			r = append(r, []edit{{o1, b[o1] ^ byte(1<<uint(g.Intn(8)))}}, []edit{{o2, b[o2] ^ byte(1<<uint(g.Intn(8)))}},
				[]edit{{o3, b[o3] ^ 1}}, []edit{{o3, byte(2 + g.Intn(250))}})
		}
		off := g.Intn(len(b))
		r = append(r, []edit{{off, b[off] ^ byte(1<<uint(g.Intn(8)))}})
	}
	return r
}

// ---------- comparing a restored instance with the original ----------

func eqHashes(a, b []u.Hash) bool {
	if len(a) != len(b) {
		return false
	}
	for i := range a {
		if a[i] != b[i] {
			return false
		}
	}
	return true
}

func eqU64s(a, b []uint64) bool {
	if len(a) != len(b) {
		return false
	}
	for i := range a {
		if a[i] != b[i] {
			return false
		}
	}
	return true
}

// sameObs compares two forests through the Utreexo interface: roots, leaf count, rows, the
// position of every leaf ever added, GetHash over all positions, proofs of live subsets.
func (s *Sim) sameObs(a, b u.Utreexo, provable []u.Hash) string {
	res := "same"
	r := guard(watchdog, func() {
		if a.GetNumLeaves() != b.GetNumLeaves() {
			res = "differ:numleaves"
			return
		}
		if a.GetTreeRows() != b.GetTreeRows() {
			res = "differ:rows"
			return
		}
		if !eqHashes(a.GetRoots(), b.GetRoots()) {
			res = "differ:roots"
			return
		}
		for _, h := range s.slots {
			pa, oa := a.GetLeafPosition(h)
			pb, ob := b.GetLeafPosition(h)
			if pa != pb || oa != ob {
				res = "differ:pos"
				return
			}
		}
		rows := u.TreeRows(a.GetNumLeaves())
		for p := uint64(0); p <= uint64(2)<<rows+3; p++ {
			if a.GetHash(p) != b.GetHash(p) {
				res = "differ:hash"
				return
			}
		}
		// proofs: every single provable leaf (bounded), the whole set, a few random subsets
		reqs := [][]u.Hash{}
		for i, h := range provable {
			if i < 24 {
				reqs = append(reqs, []u.Hash{h})
			}
		}
		if len(provable) > 0 {
			reqs = append(reqs, provable)
			for k := 0; k < 4; k++ {
				n := 1 + s.g.Intn(len(provable))
				perm := s.g.Perm(len(provable))[:n]
				req := make([]u.Hash, n)
				for i, j := range perm {
					req[i] = provable[j]
				}
				reqs = append(reqs, req)
			}
		}
		for _, req := range reqs {
			pa, ea := a.Prove(copyHashes(req))
			pb, eb := b.Prove(copyHashes(req))
			if (ea == nil) != (eb == nil) || !eqU64s(pa.Targets, pb.Targets) || !eqHashes(pa.Proof, pb.Proof) {
				res = "differ:prove"
				return
			}
		}
		// a dead leaf and a fresh hash are not provable on either
		for _, h := range append(s.deadHashes(), s.g.leafHash()) {
			_, ea := a.Prove([]u.Hash{h})
			_, eb := b.Prove([]u.Hash{h})
			if (ea == nil) != (eb == nil) {
				res = "differ:provedead"
				return
			}
		}
	})
	if r != "ok" {
		return "differ:" + r
	}
	return res
}

func pollardDumpKey(p *u.Pollard) string {
	nodes, mapped, mapLen := p.VerifDump()
	var sb strings.Builder
	for _, n := range nodes {
		fmt.Fprintf(&sb, "%d:%s:%v;", n.Pos, hx(n.Hash), n.Leaf)
	}
	keys := make([]string, 0, len(mapped))
	for h, pos := range mapped {
		keys = append(keys, fmt.Sprintf("%s@%d", hx(h), pos))
	}
	sort.Strings(keys)
	fmt.Fprintf(&sb, "|%d|%s", mapLen, strings.Join(keys, ","))
	return sb.String()
}

func (s *Sim) samePollard(a, b *u.Pollard) string {
	if a.NumDels != b.NumDels {
		return "differ:numdels"
	}
	if len(a.NodeMap) != len(b.NodeMap) {
		return "differ:nodemap"
	}
	res := s.sameObs(a, b, s.liveHashes())
	if res != "same" {
		return res
	}
	var ka, kb string
	if r := guard(watchdog, func() { ka, kb = pollardDumpKey(a), pollardDumpKey(b) }); r != "ok" {
		return "differ:dump" + r
	}
	if ka != kb {
		return "differ:pointers"
	}
	var wa, wb bytes.Buffer
	a.WriteTo(&wa)
	b.WriteTo(&wb)
	if !bytes.Equal(wa.Bytes(), wb.Bytes()) {
		return "differ:rewrite"
	}
	return "same"
}

type cachedRec struct {
	h   u.Hash
	pos uint64
}
type nodeRec struct {
	pos uint64
	h   u.Hash
	rem bool
}

func mapDump(m *u.MapPollard) ([]cachedRec, []nodeRec) {
	var cs []cachedRec
	var ns []nodeRec
	m.CachedLeaves.ForEach(func(h u.Hash, p uint64) error { cs = append(cs, cachedRec{h, p}); return nil })
	m.Nodes.ForEach(func(p uint64, l u.Leaf) error { ns = append(ns, nodeRec{p, l.Hash, l.Remember}); return nil })
	sort.Slice(cs, func(i, j int) bool { return bytes.Compare(cs[i].h[:], cs[j].h[:]) < 0 })
	sort.Slice(ns, func(i, j int) bool { return ns[i].pos < ns[j].pos })
	return cs, ns
}

func cachedStr(cs []cachedRec) string {
	if len(cs) == 0 {
		return "-"
	}
	parts := make([]string, len(cs))
	for i, c := range cs {
		parts[i] = fmt.Sprintf("%s@%d", hx(c.h), c.pos)
	}
	return strings.Join(parts, ",")
}

func nodesStr(ns []nodeRec) string {
	if len(ns) == 0 {
		return "-"
	}
	parts := make([]string, len(ns))
	for i, n := range ns {
		parts[i] = fmt.Sprintf("%d@%s@%s", n.pos, hx(n.h), b01(n.rem))
	}
	return strings.Join(parts, ",")
}

func mapStateStr(m *u.MapPollard) string {
	cs, ns := mapDump(m)
	return fmt.Sprintf("%d %d %s %s", m.TotalRows, m.NumLeaves, cachedStr(cs), nodesStr(ns))
}

func (s *Sim) sameMap(a, b *u.MapPollard) string {
	if a.TotalRows != b.TotalRows {
		return "differ:totalrows"
	}
	if a.NumLeaves != b.NumLeaves {
		return "differ:numleaves"
	}
	if a.Full != b.Full {
		return "differ:full"
	}
	if mapStateStr(a) != mapStateStr(b) {
		return "differ:maps"
	}
	var provable []u.Hash
	cs, _ := mapDump(a)
	for _, c := range cs {
		provable = append(provable, c.h)
	}
	return s.sameObs(a, b, provable)
}

// ---------- the serialisation checks of one instance ----------

type restoreOut struct {
	outcome string // ok | err | panic | hang
	n       int64
	pol     *u.Pollard
	mp      *u.MapPollard
}

func restorePollard(r io.Reader) restoreOut {
	var o restoreOut
	var err error
	res := guard(watchdog, func() { o.n, o.pol, err = u.RestorePollardFrom(r) })
	switch {
	case res != "ok":
		o.outcome, o.pol = res, nil
	case err != nil:
		o.outcome, o.pol = "err", nil
	default:
		o.outcome = "ok"
	}
	return o
}

// restoreMap reads into recv (a fresh NewMapPollard(full) unless the caller wants a used one).
func restoreMap(r io.Reader, recv *u.MapPollard) restoreOut {
	var o restoreOut
	var err error
	var n int
	res := guard(watchdog, func() { n, err = recv.Read(r) })
	o.n = int64(n)
	switch {
	case res != "ok":
		o.outcome = res
	case err != nil:
		o.outcome = "err"
	default:
		o.outcome, o.mp = "ok", recv
	}
	return o
}

func freshMap(full bool) *u.MapPollard {
	m := u.NewMapPollard(full)
	return &m
}

var readerKinds = []string{"whole", "one", "half", "dataerr", "dataerr1"}

// serialPollard runs every C13 check on the pointer forest `in`; returns a restored
// instance (restored through a randomly chosen reader) or nil.
func (s *Sim) serialPollard(in *Inst, allCuts bool) *u.Pollard {
	g := s.g
	p := in.pol
	var buf bytes.Buffer
	var n int64
	var err error
	var size int
	res := guard(watchdog, func() { size = p.SerializeSize(); n, err = p.WriteTo(&buf) })
	if res != "ok" {
		emit("ser pwrite %s %s", in.label, res)
		return nil
	}
	b := append([]byte(nil), buf.Bytes()...)
	emit("ser pwrite %s %d %s %d %s", in.label, n, b01(err != nil), size, hex.EncodeToString(b))
	if err != nil {
		return nil
	}
	// restore through differently splitting readers
	kinds := append([]string(nil), readerKinds...)
	for i := 0; i < 3; i++ {
		kinds = append(kinds, g.randomChunkDesc(len(b)))
	}
	var keep *u.Pollard
	keepIdx := g.Intn(len(kinds))
	for i, k := range kinds {
		o := restorePollard(mkReader(k, b))
		verdict := "-"
		if o.outcome == "ok" {
			verdict = s.samePollard(p, o.pol)
			if i == keepIdx {
				keep = o.pol
			}
		}
		emit("ser prestore %s %s %s %d %s", in.label, k, o.outcome, o.n, verdict)
	}
	// every truncation point
	marks := []int{8, 16}
	for m := 16; m < len(b); m += 34 {
		marks = append(marks, m, m+32, m+33)
	}
	for _, rk := range []string{"whole", "one"} {
		cuts := g.cutPoints(len(b), marks, allCuts)
		if rk == "one" && len(cuts) > 100 {
			g.Shuffle(len(cuts), func(a, b int) { cuts[a], cuts[b] = cuts[b], cuts[a] })
			cuts = cuts[:40+6000/len(b)]
			sort.Ints(cuts)
		}
		parts := make([]string, 0, len(cuts))
		for _, t := range cuts {
			o := restorePollard(mkReader(rk, b[:t]))
			verdict := "-"
			if o.outcome == "ok" {
				verdict = s.samePollard(p, o.pol)
			}
			parts = append(parts, fmt.Sprintf("%d:%s:%d:%s", t, o.outcome, o.n, verdict))
		}
		emit("ser ptrunc %s %s %s", in.label, rk, joinOrDash(parts))
	}
	// a sink failing at every offset
	cuts := g.cutPoints(len(b), marks, allCuts)
	parts := make([]string, 0, len(cuts))
	for _, k := range cuts {
		sink := &failSink{room: k}
		var n int64
		var err error
		res := guard(watchdog, func() { n, err = p.WriteTo(sink) })
		out := res
		if res == "ok" && err != nil {
			out = "err"
		}
		pfx := "p"
		if !bytes.Equal(sink.got, b[:len(sink.got)]) || len(sink.got) != k {
			pfx = "x"
		}
		parts = append(parts, fmt.Sprintf("%d:%s:%d:%s", k, out, n, pfx))
	}
	emit("ser psink %s %s", in.label, joinOrDash(parts))
	// damaged streams: outcome and what was restored (re-serialised), for the model to match
	for _, es := range g.pollardCorruptions(b, allCuts) {
		o := restorePollard(bytes.NewReader(applyEdits(b, es)))
		rew := "-"
		if o.outcome == "ok" {
			var wb bytes.Buffer
			if r := guard(watchdog, func() { o.pol.WriteTo(&wb) }); r == "ok" {
				rew = hex.EncodeToString(wb.Bytes())
				if rew == "" {
					rew = "-"
				}
			} else {
				rew = r
			}
		}
		emit("ser pcorrupt %s %s %s %d %s", in.label, editsStr(es), o.outcome, o.n, rew)
	}
	return keep
}

func joinOrDash(parts []string) string {
	if len(parts) == 0 {
		return "-"
	}
	return strings.Join(parts, ",")
}

// serialMap runs every C13 check on the map forest `in`.
func (s *Sim) serialMap(in *Inst, allCuts bool, stale []byte) (*u.MapPollard, []byte) {
	g := s.g
	m := in.mp
	var buf bytes.Buffer
	var n int
	var err error
	res := guard(watchdog, func() { n, err = m.Write(&buf) })
	if res != "ok" {
		emit("ser mwrite %s %s", in.label, res)
		return nil, nil
	}
	b := append([]byte(nil), buf.Bytes()...)
	emit("ser mwrite %s %s %d %s %s %s", in.label, b01(m.Full), n, b01(err != nil), mapStateStr(m), hex.EncodeToString(b))
	if err != nil {
		return nil, nil
	}
	kinds := append([]string(nil), readerKinds...)
	for i := 0; i < 3; i++ {
		kinds = append(kinds, g.randomChunkDesc(len(b)))
	}
	var keep *u.MapPollard
	keepIdx := g.Intn(len(kinds))
	for i, k := range kinds {
		o := restoreMap(mkReader(k, b), freshMap(m.Full))
		verdict := "-"
		if o.outcome == "ok" {
			verdict = s.sameMap(m, o.mp)
			if i == keepIdx {
				keep = o.mp
			}
		}
		emit("ser mrestore %s %s %s %d %s", in.label, k, o.outcome, o.n, verdict)
	}
	// truncation points: header fields, record boundaries
	nc := m.CachedLeaves.Length()
	marks := []int{1, 9, 17}
	off := 17
	for i := 0; i < nc; i++ {
		marks = append(marks, off+32, off+40)
		off += 40
	}
	marks = append(marks, off+8)
	off += 8
	for off < len(b) {
		marks = append(marks, off+8, off+40, off+41)
		off += 41
	}
	for _, rk := range []string{"whole", "one"} {
		cuts := g.cutPoints(len(b), marks, allCuts)
		if rk == "one" && len(cuts) > 100 {
			g.Shuffle(len(cuts), func(a, b int) { cuts[a], cuts[b] = cuts[b], cuts[a] })
			cuts = cuts[:40+6000/len(b)]
			sort.Ints(cuts)
		}
		parts := make([]string, 0, len(cuts))
		for _, t := range cuts {
			o := restoreMap(mkReader(rk, b[:t]), freshMap(m.Full))
			verdict := "-"
			if o.outcome == "ok" {
				verdict = s.sameMap(m, o.mp)
			}
			parts = append(parts, fmt.Sprintf("%d:%s:%d:%s", t, o.outcome, o.n, verdict))
		}
		emit("ser mtrunc %s %s %s", in.label, rk, joinOrDash(parts))
	}
	cuts := g.cutPoints(len(b), marks, allCuts)
	parts := make([]string, 0, len(cuts))
	for _, k := range cuts {
		sink := &failSink{room: k}
		var n int
		var err error
		res := guard(watchdog, func() { n, err = m.Write(sink) })
		out := res
		if res == "ok" && err != nil {
			out = "err"
		}
		pfx := "p"
		if len(sink.got) != k || !bytes.Equal(sink.got[:min(17, k)], b[:min(17, k)]) {
			pfx = "x"
		}
		parts = append(parts, fmt.Sprintf("%d:%s:%d:%s", k, out, n, pfx))
	}
	emit("ser msink %s %s", in.label, joinOrDash(parts))
	for _, es := range g.mapCorruptions(b, nc, allCuts) {
		recv := freshMap(m.Full)
		o := restoreMap(bytes.NewReader(applyEdits(b, es)), recv)
		st := "- - - -"
		if o.outcome == "ok" {
			st = mapStateStr(recv)
		}
		emit("ser mcorrupt %s %s %s %d %s", in.label, editsStr(es), o.outcome, o.n, st)
	}
	// reading into a receiver that already holds an earlier state of the same forest
	if stale != nil {
		recv := freshMap(m.Full)
		o0 := restoreMap(bytes.NewReader(stale), recv)
		if o0.outcome == "ok" {
			o := restoreMap(bytes.NewReader(b), recv)
			verdict := "-"
			if o.outcome == "ok" {
				verdict = s.sameMap(m, recv)
			}
			emit("ser mdirty %s %s %d %s %s %s", in.label, o.outcome, o.n, verdict, mapStateStr(recv), hex.EncodeToString(stale))
		}
	}
	return keep, b
}

// serSim is a Sim plus what the C13 families keep beside it: sparse partial map forests
// (random Remember flags, pruned now and then — the Sim's own partial instances remember
// every leaf), the restored twin of every instance, and an earlier stream per instance.
type serSim struct {
	*Sim
	sparse []*Inst         // originals; driven by Ingest+Modify with their own remember flags
	twin   map[*Inst]*Inst // original -> its newest restored copy
	stale  map[string][]byte
	// serOnly, when set, selects the instances (by label) that serializeAll works on: the
	// many-tree histories serialise two of the instances each (the driver's byte-list models
	// need seconds per replay of a stream of tens of kilobytes)
	serOnly func(label string) bool
}

func newSerSim(g *Gen, rows []uint8, sparseRows []uint8) *serSim {
	x := &serSim{Sim: newSim(g, rows), twin: map[*Inst]*Inst{}, stale: map[string][]byte{}}
	for _, r := range sparseRows {
		m := newMap(false, r)
		x.sparse = append(x.sparse, &Inst{label: fmt.Sprintf("map:S:%d", r), acc: m, mp: m})
	}
	return x
}

func isRestored(in *Inst) bool {
	return strings.HasSuffix(in.label, "R") || strings.Contains(in.label, "r:")
}

// block applies one block to everything: the sparse forests (and their twins) first ingest
// the deletion proof, then Modify with their own remember flags; then the Sim's instances.
func (x *serSim) block(delIdx []int, nAdds int) {
	s := x.Sim
	delHashes := make([]u.Hash, len(delIdx))
	for i, j := range delIdx {
		delHashes[i] = s.slots[j]
	}
	s.g.Shuffle(len(delHashes), func(a, b int) { delHashes[a], delHashes[b] = delHashes[b], delHashes[a] })
	proof, err := s.prover.Prove(delHashes)
	if err != nil {
		die("prover failed: %v", err)
	}
	addHashes := s.g.leafHashes(nAdds)
	adds := make([]u.Leaf, nAdds)
	sadds := make([]u.Leaf, nAdds)
	for i := range adds {
		adds[i] = u.Leaf{Hash: addHashes[i], Remember: s.allRemember}
		sadds[i] = u.Leaf{Hash: addHashes[i], Remember: s.g.Intn(3) == 0}
	}
	for _, in := range x.sparseAll() {
		var merr error
		r := guard(watchdog, func() {
			if len(delHashes) > 0 {
				merr = in.mp.Ingest(copyHashes(delHashes), u.Proof{Targets: copyU64(proof.Targets), Proof: copyHashes(proof.Proof)})
			}
			if merr == nil {
				merr = in.mp.Modify(append([]u.Leaf(nil), sadds...), copyHashes(delHashes),
					u.Proof{Targets: copyU64(proof.Targets), Proof: copyHashes(proof.Proof)})
			}
		})
		if r != "ok" || merr != nil {
			emit("obs %s modifyfail %s", in.label, r)
		}
	}
	s.applyBlockData(delIdx, delHashes, proof, adds)
}

func (x *serSim) sparseAll() []*Inst {
	var r []*Inst
	for _, in := range x.sparse {
		r = append(r, in)
		if t := x.twin[in]; t != nil {
			r = append(r, t)
		}
	}
	return r
}

// prune forgets some cached leaves on every sparse forest (same call on original and twin).
func (x *serSim) prune() {
	for _, in := range x.sparse {
		cs, _ := mapDump(in.mp)
		if len(cs) == 0 {
			continue
		}
		k := 1 + x.g.Intn(len(cs))
		perm := x.g.Perm(len(cs))[:k]
		hs := make([]u.Hash, k)
		for i, j := range perm {
			hs[i] = cs[j].h
		}
		for _, t := range []*Inst{in, x.twin[in]} {
			if t == nil {
				continue
			}
			var perr error
			r := guard(watchdog, func() { perr = t.mp.Prune(copyHashes(hs)) })
			if r != "ok" || perr != nil {
				emit("obs %s modifyfail %s", t.label, r)
			}
		}
	}
}

func (x *serSim) obsRoots() {
	x.Sim.obsRoots()
	for _, in := range x.sparseAll() {
		var n uint64
		var roots []u.Hash
		r := guard(watchdog, func() { n = in.acc.GetNumLeaves(); roots = in.acc.GetRoots() })
		if r != "ok" {
			emit("obs %s roots %s", in.label, r)
			continue
		}
		emit("obs %s roots %d %s", in.label, n, hxs(roots))
	}
}

// evolve compares every original with its restored twin (full state, then observations):
// the twin was restored some blocks ago and has been driven alongside since.
func (x *serSim) evolve() {
	all := append(append([]*Inst(nil), x.insts...), x.sparse...)
	for _, in := range all {
		t := x.twin[in]
		if t == nil {
			continue
		}
		v := ""
		if in.pol != nil {
			v = x.samePollard(in.pol, t.pol)
		} else {
			v = x.sameMap(in.mp, t.mp)
		}
		emit("ser evolve %s %s", in.label, v)
	}
}

// serializeAll runs the checks on every original instance and (re)places one restored
// copy per original (Sim instances: at the end of s.insts, so that every later block, undo
// and observation of the Sim runs on them too).
func (x *serSim) serializeAll(allCuts bool) {
	s := x.Sim
	var orig []*Inst
	for _, in := range s.insts {
		if !isRestored(in) {
			orig = append(orig, in)
		}
	}
	insts := append([]*Inst(nil), orig...)
	twinOf := func(in *Inst, q *u.MapPollard) *Inst {
		parts := strings.Split(in.label, ":")
		return &Inst{label: parts[0] + ":" + parts[1] + "r:" + parts[2], acc: q, mp: q}
	}
	for _, in := range orig {
		if x.serOnly != nil && !x.serOnly(in.label) {
			if t := x.twin[in]; t != nil {
				insts = append(insts, t)
			}
			continue
		}
		if in.pol != nil {
			if q := s.serialPollard(in, allCuts); q != nil {
				x.twin[in] = &Inst{label: "pollardR", acc: q, pol: q}
			}
		}
		if in.mp != nil {
			q, b := s.serialMap(in, allCuts, x.stale[in.label])
			if q != nil {
				x.twin[in] = twinOf(in, q)
			}
			if b != nil && s.g.Intn(2) == 0 {
				x.stale[in.label] = b
			}
		}
		if t := x.twin[in]; t != nil {
			insts = append(insts, t)
		}
	}
	s.insts = insts
	for _, in := range x.sparse {
		if x.serOnly != nil && !x.serOnly(in.label) {
			continue
		}
		q, b := s.serialMap(in, allCuts, x.stale[in.label])
		if q != nil {
			x.twin[in] = twinOf(in, q)
		}
		if b != nil && s.g.Intn(2) == 0 {
			x.stale[in.label] = b
		}
	}
}

// undo undoes the newest block everywhere (sparse forests included).
func (x *serSim) undo() {
	s := x.Sim
	if len(s.hist) == 0 {
		return
	}
	rec := s.hist[len(s.hist)-1]
	for _, in := range x.sparseAll() {
		p := u.Proof{Targets: copyU64(rec.proof.Targets), Proof: copyHashes(rec.proof.Proof)}
		var uerr error
		r := guard(watchdog, func() {
			uerr = in.acc.Undo(uint64(len(rec.adds)), p, copyHashes(rec.delHashes), copyHashes(rec.prevRoots))
		})
		if r != "ok" || uerr != nil {
			emit("obs %s undofail %s", in.label, r)
		}
	}
	s.undoLast()
}

// ---------- families ----------

func famSerial(g *Gen, tier string, shard, nshards int) {
	nHist, maxBlocks, maxAdds := 6, 10, 9
	if tier == "thorough" {
		nHist, maxBlocks, maxAdds = 8, 24, 32
	}
	for h := 0; h < nHist; h++ {
		rows := rowConfigs[g.Intn(len(rowConfigs))]
		// one history in six lives in a forest of many trees (9 or more roots, rows >= 9; counts
		// and record numbers beyond 255 in every stream)
		if h%6 == 5 {
			famSerialMany(g, shard*(nHist/6)+h/6, tier)
			continue
		}
		x := newSerSim(g, rows, []uint8{rows[0], []uint8{0, 63, 7}[g.Intn(3)]})
		s := x.Sim
		nBlocks := 3 + g.Intn(maxBlocks)
		for b := 0; b < nBlocks; b++ {
			mode := g.Intn(8)
			if b == 0 {
				mode = 0
			}
			nAdds := 0
			switch g.Intn(5) {
			case 0:
				nAdds = 0
			case 1:
				nAdds = 1
			case 2:
				nAdds = 1 + g.Intn(3)
			case 3: // cross the next power of two
				n := s.numLeaves()
				p := uint64(1)
				for p <= n {
					p <<= 1
				}
				nAdds = int(p-n) + g.Intn(2)
				if nAdds > maxAdds*2 {
					nAdds = maxAdds
				}
			default:
				nAdds = g.Intn(maxAdds + 1)
			}
			if b == 0 && nAdds == 0 {
				nAdds = 1 + g.Intn(maxAdds)
			}
			x.block(s.pickDeletions(mode), nAdds)
			if g.Intn(4) == 0 {
				x.prune()
			}
			x.obsRoots()
			x.evolve()
			if g.Intn(3) == 0 || b == nBlocks-1 {
				x.serializeAll(false)
				x.obsRoots()
				s.observeAll()
			} else if g.Intn(3) == 0 {
				s.observeAll()
			}
			if len(s.hist) > 1 && g.Intn(5) == 0 {
				k := 1 + g.Intn(min(len(s.hist)-1, 3))
				for i := 0; i < k; i++ {
					x.undo()
					x.obsRoots()
					x.evolve()
				}
				s.observeAll()
				if g.Intn(2) == 0 {
					x.serializeAll(false)
				}
			}
		}
	}
}

// famSerialExh: every history "add n1; delete a subset, add k2" for small n1, serialised
// after the second block with ALL truncation points and sink offsets, then driven on with
// one more block and an undo of it (restored instances included).
func famSerialExh(g *Gen, tier string, shard, nshards int) {
	maxN1 := 5
	if tier == "thorough" {
		maxN1 = 8
	}
	caseNo := 0
	for n1 := 0; n1 <= maxN1; n1++ {
		for mask := 0; mask < 1<<uint(n1); mask++ {
			for k2 := 0; k2 <= 2; k2++ {
				caseNo++
				if caseNo%nshards != shard {
					continue
				}
				rows := rowConfigs[caseNo%len(rowConfigs)]
				x := newSerSim(g, rows, []uint8{rows[0]})
				s := x.Sim
				if n1 == 0 {
					// the empty accumulator and a first block
					x.serializeAll(true)
					x.block(nil, k2)
					x.obsRoots()
					x.evolve()
					x.serializeAll(true)
					x.obsRoots()
					continue
				}
				x.block(nil, n1)
				if caseNo%3 == 0 {
					x.serializeAll(true)
				}
				var del []int
				for i := 0; i < n1; i++ {
					if mask>>uint(i)&1 == 1 {
						del = append(del, i)
					}
				}
				x.block(del, k2)
				if caseNo%2 == 0 {
					x.prune()
				}
				x.obsRoots()
				x.evolve()
				x.serializeAll(true)
				x.obsRoots()
				s.observeAll()
				// drive on: one more block, then undo it
				x.block(s.pickDeletions(1+g.Intn(7)), g.Intn(4))
				x.obsRoots()
				x.evolve()
				s.observeAll()
				x.undo()
				x.obsRoots()
				x.evolve()
				s.observeAll()
			}
		}
	}
}

// famSerialMany: a short history in a many-tree forest of 511 or 767 leaves (thorough: also
// 509, 1021, 1022, 1023), so that every stream carries hundreds to thousands of records (pointer
// forest: ~2n nodes of 34 bytes; map forest: up to n cached leaves of 40 bytes and ~2n nodes of
// 41 bytes; the sparse forest remembers a third of the leaves): counts beyond 255, positions on
// rows 9 and 10, a pointer structure 9..10 levels deep.  Blocks delete at the right edge,
// spread over the forest, all but one leaf of a big tree, or whole small trees.  One or two of the
// instances (rotating with k: pointer forest + sparse map forest, full map forest, partial map
// forest) are serialised after the second block — the Lean models work on byte lists
// and association lists and need seconds per replay of such a stream, which is also why bigger
// forests (a 16-bit count needs 65536 records) are out of reach here; truncation points and sink
// offsets are sampled by cutPoints (about 48 offsets per stream of this size) and the driver
// replays a sample of them on the model while the oracle judges all of them.  The restored
// twins are driven along and compared after every block and undo.
func famSerialMany(g *Gen, k int, tier string) {
	rows := rowConfigs[k%4] // one TotalRows setting: 63, 0, 50, 3
	x := newSerSim(g, rows, []uint8{[]uint8{0, 63, 7}[k%3]})
	s := x.Sim
	n := 511
	switch k % 3 {
	case 0:
		withSparse := (k/3)%2 == 1
		if !withSparse {
			n = 767
		}
		x.serOnly = func(l string) bool { return l == "pollard" || (withSparse && strings.HasPrefix(l, "map:S:")) }
	case 1:
		x.serOnly = func(l string) bool { return strings.HasPrefix(l, "map:F:") }
	default:
		x.serOnly = func(l string) bool { return strings.HasPrefix(l, "map:P:") }
	}
	if tier == "thorough" {
		n = []int{511, 767, 1022, 1023, 509, 1021}[(k/3)%6]
	}
	x.block(nil, n)
	x.obsRoots()
	nBlocks := 2 + g.Intn(3)
	for b := 0; b < nBlocks; b++ {
		style := manyTreeStyleHeavy(g)
		if b == 0 && k%3 == 1 {
			style = 2
		}
		nAdds := manyTreeAdds(g)
		if style == 3 {
			nAdds = 1 + g.Intn(4)
		}
		x.block(manyTreeDeletions(g, s.alive, style), nAdds)
		if g.Intn(3) == 0 {
			x.prune()
		}
		x.obsRoots()
		x.evolve()
		if b == 0 {
			x.serializeAll(false)
			x.obsRoots()
		}
		if len(s.hist) > 1 && g.Intn(3) == 0 {
			x.undo()
			x.obsRoots()
			x.evolve()
		}
	}
	s.observeAllSampled()
}
