package main

import (
	"sort"

	u "github.com/utreexo/utreexo"
)

func init() {
	families["cached"] = famCached
	families["cachedexh"] = famCachedExh
}

// rememberTail: remember most of the last 40 additions of a block (many-tree histories).
var rememberTail bool

// rememberMask, when >= 0, fixes the remember subset of the next block (bit i = add i).
var rememberMask = -1

// clientUpdate updates the light client's cached proof with the block data alone and emits
// what it holds afterwards (C07).
func (s *Sim) clientUpdate(addHashes []u.Hash, blockTargets []uint64, ud u.UpdateData) {
	c := s.client
	var rem []uint32
	for i := range addHashes {
		pick := s.g.Intn(3) == 0
		if rememberTail && i >= len(addHashes)-40 {
			pick = s.g.Intn(3) != 0 // the right edge of a many-tree forest is mostly remembered
		}
		if rememberMask >= 0 {
			pick = rememberMask>>uint(i)&1 == 1
		}
		if pick {
			rem = append(rem, uint32(i))
		}
	}
	var out []u.Hash
	var err error
	udc := u.UpdateData{ToDestroy: copyU64(ud.ToDestroy), PrevNumLeaves: ud.PrevNumLeaves,
		NewDelHash: copyHashes(ud.NewDelHash), NewDelPos: copyU64(ud.NewDelPos),
		NewAddHash: copyHashes(ud.NewAddHash), NewAddPos: copyU64(ud.NewAddPos)}
	pBefore, hBefore := cpProof(c.proof), copyHashes(c.hashes)
	r := guard(watchdog, func() {
		out, err = c.proof.Update(c.hashes, copyHashes(addHashes), copyU64(blockTargets), rem, udc)
	})
	emitPUpdate(pBefore, hBefore, addHashes, blockTargets, rem, ud, r, err, out, c.proof)
	remStr := "-"
	if len(rem) > 0 {
		xs := make([]uint64, len(rem))
		for i, x := range rem {
			xs[i] = uint64(x)
		}
		remStr = us(xs)
	}
	if r != "ok" || err != nil {
		if r == "ok" {
			r = "err"
		}
		emit("cupdate %s %s", remStr, r)
		return
	}
	c.hashes = out
	// expected set: previous leaves minus the block's deletions plus the remembered additions
	dead := map[u.Hash]bool{}
	for _, h := range s.lastDels {
		dead[h] = true
	}
	var exp []u.Hash
	for _, h := range c.expect {
		if !dead[h] {
			exp = append(exp, h)
		}
	}
	for _, i := range rem {
		exp = append(exp, addHashes[i])
	}
	c.expect = exp
	emit("cupdate %s %s %s %s v=%s", remStr, hxs(c.hashes), us(c.proof.Targets), hxs(c.proof.Proof), s.clientVerify())
}

func (s *Sim) clientVerify() string {
	c := s.client
	if len(c.hashes) == 0 {
		return "ok"
	}
	st := u.Stump{Roots: copyHashes(s.stump.Roots), NumLeaves: s.stump.NumLeaves}
	var err error
	r := guard(watchdog, func() {
		_, err = u.Verify(st, copyHashes(c.hashes), u.Proof{Targets: copyU64(c.proof.Targets), Proof: copyHashes(c.proof.Proof)})
	})
	if r != "ok" {
		return r
	}
	if err != nil {
		return "err"
	}
	return "ok"
}

// clientUndo reverts the cached proof with the undone block's data (C08).
func (s *Sim) clientUndo(rec blockRec) {
	c := s.client
	var out []u.Hash
	var err error
	bp := u.Proof{Targets: copyU64(rec.proof.Targets), Proof: copyHashes(rec.proof.Proof)}
	pBefore, hBefore := cpProof(c.proof), copyHashes(c.hashes)
	r := guard(watchdog, func() {
		out, err = c.proof.Undo(uint64(len(rec.adds)), rec.numAfter, copyU64(rec.proof.Targets),
			copyHashes(rec.delHashes), c.hashes, copyU64(rec.ud.ToDestroy), bp)
	})
	emitPUndo(pBefore, hBefore, uint64(len(rec.adds)), rec.numAfter, rec.proof.Targets, rec.delHashes,
		rec.ud.ToDestroy, rec.proof, r, err, out, c.proof)
	if r != "ok" || err != nil {
		if r == "ok" {
			r = "err"
		}
		emit("cundo %s", r)
		return
	}
	c.hashes = out
	// what the client should hold now: its leaves minus the undone block's additions
	added := map[u.Hash]bool{}
	for _, a := range rec.adds {
		added[a.Hash] = true
	}
	var exp []u.Hash
	for _, h := range c.expect {
		if !added[h] {
			exp = append(exp, h)
		}
	}
	c.expect = exp
	// verify against the previous stump
	v := "ok"
	if len(c.hashes) > 0 {
		var verr error
		rr := guard(watchdog, func() {
			_, verr = u.Verify(u.Stump{Roots: copyHashes(rec.prevStump.Roots), NumLeaves: rec.prevStump.NumLeaves},
				copyHashes(c.hashes), u.Proof{Targets: copyU64(c.proof.Targets), Proof: copyHashes(c.proof.Proof)})
		})
		if rr != "ok" {
			v = rr
		} else if verr != nil {
			v = "err"
		}
	}
	emit("cundo %s %s %s v=%s", hxs(c.hashes), us(c.proof.Targets), hxs(c.proof.Proof), v)
	s.clientResync()
}

// clientResync replaces the client's proof by the canonical one for the expected leaves when
// it deviates (reported on the cundo line already), so that a defect of Undo does not taint
// the judgement of the following updates.
func (s *Sim) clientResync() {
	c := s.client
	var canon u.Proof
	if len(c.expect) > 0 {
		var err error
		canon, err = s.prover.Prove(copyHashes(c.expect))
		if err != nil {
			die("prover cannot prove the expected cached set: %v", err)
		}
	}
	same := len(c.hashes) == len(c.expect) && len(c.proof.Proof) == len(canon.Proof)
	if same {
		at := map[u.Hash]uint64{}
		for i, h := range c.expect {
			at[h] = canon.Targets[i]
		}
		for i, h := range c.hashes {
			if p, ok := at[h]; !ok || i >= len(c.proof.Targets) || p != c.proof.Targets[i] {
				same = false
			}
		}
		for i := range canon.Proof {
			if canon.Proof[i] != c.proof.Proof[i] {
				same = false
			}
		}
	}
	if !same {
		c.hashes = copyHashes(c.expect)
		c.proof = canon
		emit("cresync")
	}
}

// famCached: random histories with a light client that remembers random subsets of the
// additions, including undo to random depth followed by further blocks.
func famCached(g *Gen, tier string, shard, nshards int) {
	nHist, maxBlocks, maxAdds := 30, 14, 8
	if tier == "thorough" {
		nHist, maxBlocks, maxAdds = 150, 50, 30
	}
	defer func() { rememberTail = false }()
	for h := 0; h < nHist; h++ {
		s := newSim(g, nil)
		s.client = &LightClient{}
		nBlocks := 2 + g.Intn(maxBlocks)
		manyTrees := h%3 == 2
		if manyTrees {
			nBlocks = 3 + g.Intn(4) // big forests: keep these histories short
		}
		rememberTail = manyTrees
		for b := 0; b < nBlocks; b++ {
			mode := g.Intn(8)
			nAdds := 0
			switch g.Intn(4) {
			case 0:
				nAdds = 1
			case 1:
				nAdds = g.Intn(4)
			default:
				nAdds = g.Intn(maxAdds + 1)
			}
			if b == 0 {
				mode, nAdds = 0, 1+g.Intn(maxAdds*2)
				// one history in six starts with a forest of many trees (9 or more roots):
				// tree indexes beyond 7 and positions on high rows are otherwise never reached
				if h%3 == 2 {
					nAdds = []int{511, 1022, 1023, 2046, 767, 1535, 1021, 509}[g.Intn(8)]
				}
			}
			if g.Intn(5) == 0 { // empty whole trees, then overwrite the empty roots
				mode, nAdds = 5, 1+g.Intn(5)
			}
			dels := s.pickDeletions(mode)
			if manyTrees && b > 0 && g.Intn(4) != 0 {
				// deletions among the small trees at the right edge
				live := s.liveIdx()
				dels = nil
				for i := len(live) - 1; i >= 0 && i >= len(live)-24; i-- {
					if g.Intn(2) == 0 {
						dels = append([]int{live[i]}, dels...)
					}
				}
				// mostly no additions, so that the leaf count keeps its many one-bits
				nAdds = 0
				if g.Intn(4) == 0 {
					nAdds = 1 + g.Intn(2)
				}
			}
			if manyTrees && b > 0 && g.Intn(5) == 0 {
				// now and then: leaves spread over the whole forest plus some of the right
				// edge, or all but one leaf of a big tree (the survivor - possibly a cached
				// leaf - climbs many rows)
				dels = manyTreeDeletions(g, s.alive, 1+g.Intn(2))
				nAdds = manyTreeAdds(g)
			}
			s.applyBlock(dels, nAdds)
			if len(s.hist) > 0 && (g.Intn(5) == 0 || (manyTrees && g.Intn(2) == 0)) {
				k := 1 + g.Intn(min(len(s.hist), 4))
				if g.Intn(6) == 0 {
					k = len(s.hist)
				}
				for i := 0; i < k; i++ {
					s.undoLast()
				}
			}
		}
	}
}

// famCachedExh: bounded-exhaustive: block 1 adds n1 leaves with every remember subset (n1 <= 4,
// else sampled), block 2 deletes every subset and adds 0..3 with every remember subset,
// followed by undo of both blocks.
func famCachedExh(g *Gen, tier string, shard, nshards int) {
	maxN1 := 4
	if tier == "thorough" {
		maxN1 = 6
	}
	caseNo := 0
	for n1 := 1; n1 <= maxN1; n1++ {
		for rem1 := 0; rem1 < 1<<uint(n1); rem1++ {
			for mask := 0; mask < 1<<uint(n1); mask++ {
				for k2 := 0; k2 <= 3; k2++ {
					for rem2 := 0; rem2 < 1<<uint(k2); rem2++ {
						caseNo++
						if caseNo%nshards != shard {
							continue
						}
						s := newSim(g, nil)
						s.client = &LightClient{}
						rememberMask = rem1
						s.applyBlock(nil, n1)
						var del []int
						for i := 0; i < n1; i++ {
							if mask>>uint(i)&1 == 1 {
								del = append(del, i)
							}
						}
						rememberMask = rem2
						s.applyBlock(del, k2)
						// a third block over what is left, sampled
						rememberMask = -1
						live := s.liveIdx()
						var del3 []int
						for _, i := range live {
							if g.Intn(2) == 0 {
								del3 = append(del3, i)
							}
						}
						sort.Ints(del3)
						s.applyBlock(del3, g.Intn(3))
						s.undoLast()
						s.undoLast()
						if g.Intn(2) == 0 {
							s.applyBlock(s.pickDeletions(g.Intn(8)), g.Intn(4))
						}
						s.undoLast()
					}
				}
			}
		}
	}
	rememberMask = -1
}
