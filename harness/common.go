package main

import (
	"bufio"
	"crypto/sha256"
	"encoding/binary"
	"encoding/hex"
	"fmt"
	"math/rand"
	"os"
	"strconv"
	"strings"
	"time"

	u "github.com/utreexo/utreexo"
)

// out is the line writer every family prints its trace to.
var out *bufio.Writer

// hangSeen is set when a guarded call ran into the watchdog.  The goroutine of that call is
// leaked and may still be mutating the instance, so nothing observed afterwards is reliable:
// the run stops right after the line that reports the hang has been written.
var hangSeen bool

func emit(format string, a ...interface{}) {
	fmt.Fprintf(out, format, a...)
	out.WriteByte('\n')
	if hangSeen {
		out.WriteString("# run stopped after a watchdog timeout\n")
		out.Flush()
		os.Exit(0)
	}
}

// ---------- formatting (must match Main.lean's parser) ----------

func hx(h u.Hash) string {
	if h == (u.Hash{}) {
		return "z"
	}
	return hex.EncodeToString(h[:])
}

func hxs(hs []u.Hash) string {
	if len(hs) == 0 {
		return "-"
	}
	parts := make([]string, len(hs))
	for i, h := range hs {
		parts[i] = hx(h)
	}
	return strings.Join(parts, ",")
}

func us(xs []uint64) string {
	if len(xs) == 0 {
		return "-"
	}
	parts := make([]string, len(xs))
	for i, x := range xs {
		parts[i] = strconv.FormatUint(x, 10)
	}
	return strings.Join(parts, ",")
}

func ints(xs []int) string {
	if len(xs) == 0 {
		return "-"
	}
	parts := make([]string, len(xs))
	for i, x := range xs {
		parts[i] = strconv.Itoa(x)
	}
	return strings.Join(parts, ",")
}

func b01(b bool) string {
	if b {
		return "1"
	}
	return "0"
}

// ---------- deterministic randomness ----------

type Gen struct {
	*rand.Rand
	ctr uint64
}

func newGen(seed int64) *Gen { return &Gen{Rand: rand.New(rand.NewSource(seed))} }

// leafHash returns a fresh leaf hash; distinct in the first 12 bytes (Pollard.NodeMap key).
func (g *Gen) leafHash() u.Hash {
	g.ctr++
	var b [16]byte
	copy(b[:], "leaf")
	binary.LittleEndian.PutUint64(b[8:], g.ctr)
	binary.LittleEndian.PutUint32(b[4:], uint32(g.Int31()))
	return u.Hash(sha256.Sum256(b[:]))
}

func (g *Gen) leafHashes(n int) []u.Hash {
	r := make([]u.Hash, n)
	for i := range r {
		r[i] = g.leafHash()
	}
	return r
}

// boundaryU64 draws a 64-bit value biased to boundaries.
func (g *Gen) boundaryU64() uint64 {
	switch g.Intn(6) {
	case 0:
		return uint64(g.Intn(70))
	case 1:
		return uint64(1)<<uint(g.Intn(64)) - uint64(g.Intn(3))
	case 2:
		return uint64(1)<<uint(g.Intn(64)) + uint64(g.Intn(3))
	case 3:
		return ^uint64(0) - uint64(g.Intn(4))
	default:
		return g.Uint64() >> uint(g.Intn(64))
	}
}

// ---------- guarded calls ----------

// guard runs f with recover and a watchdog. Result: "ok", "panic" or "hang".
// A hung goroutine is leaked on purpose (it cannot be killed); callers that may hang
// must not hold state the rest of the run depends on.
func guard(timeout time.Duration, f func()) string {
	done := make(chan string, 1)
	go func() {
		defer func() {
			if r := recover(); r != nil {
				done <- "panic"
			}
		}()
		f()
		done <- "ok"
	}()
	select {
	case r := <-done:
		return r
	case <-time.After(timeout):
		hangSeen = true
		return "hang"
	}
}

func die(format string, a ...interface{}) {
	out.Flush()
	fmt.Fprintf(os.Stderr, "harness: "+format+"\n", a...)
	os.Exit(2)
}

func copyHashes(h []u.Hash) []u.Hash {
	c := make([]u.Hash, len(h))
	copy(c, h)
	return c
}

func copyU64(h []uint64) []uint64 {
	c := make([]uint64, len(h))
	copy(c, h)
	return c
}
