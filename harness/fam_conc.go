package main

// Family `conc` (property C12): the map forest under concurrent use.  Built with -race.
//
// Part 1, suspended writer.  For every verifPoint site in turn a writer goroutine applies a
// block (Modify / Undo / Ingest / Verify(remember) / Prune / Read) to instance A and is
// SUSPENDED at the site through u.VerifHook (channel handshake), i.e. in the middle of its
// critical section.  While it is suspended every query method is started in its own
// goroutine.  The harness reports, per query,
//
//	conc <site> <hit> <writer-op> <config> <query> <args> <early|blocked> <result> <before> <after>
//
// early   = the query returned while the writer was still suspended,
// blocked = it returned only after the writer had been released,
// result  = what it returned on A (canonical rendering; `panic` / `hang` if it did not return),
// before/after = what the same query returns on a twin instance B before / after the same
// block (B is driven sequentially, no hook).  One line per scenario describes the writer:
//
//	concw <site> <hit> <writer-op> <config> <reached 0|1> <result on A> <result on B>
//
// Part 2, stress.  N reader goroutines call random queries while one writer applies and
// undoes blocks (Modify/Undo on a full forest; Prune/Verify(remember) on a partial one); the
// hook yields / sleeps at random inside the critical sections to widen the windows.  Every
// query result is compared with the set of answers the twin gives at the block boundaries
// of the same cycle:
//
//	concstress <cycle> <config> readers=<n> queries=<n> outside=<k> panics=<k> hang=<0|1> [first=<query:result>]
//
// Verdicts are the driver's (Driver/Conc.lean).  A data race makes the Go runtime print
// "WARNING: DATA RACE" on stderr and exit with status 66; bin/check turns that into a
// violation with the report as replay.

import (
	"bytes"
	"crypto/sha256"
	"encoding/hex"
	"fmt"
	"math/rand"
	"os"
	"runtime"
	"sort"
	"strings"
	"sync"
	"sync/atomic"
	"time"

	u "github.com/utreexo/utreexo"
)

func init() { families["conc"] = famConc }

// ---------- canonical rendering (no spaces) ----------

func sh(h u.Hash) string {
	if h == (u.Hash{}) {
		return "z"
	}
	return hex.EncodeToString(h[:6])
}

func shs(hs []u.Hash) string {
	if len(hs) == 0 {
		return "-"
	}
	p := make([]string, len(hs))
	for i, h := range hs {
		p[i] = sh(h)
	}
	return strings.Join(p, ",")
}

// writeDigest: canonical digest of MapPollard.Write output (map iteration order removed).
func writeDigest(b []byte) string {
	if len(b) < 17 {
		return fmt.Sprintf("short%d", len(b))
	}
	hdr := b[:9]
	p := 9
	n1 := int(uint64(b[p]) | uint64(b[p+1])<<8 | uint64(b[p+2])<<16 | uint64(b[p+3])<<24)
	p += 8
	var a []string
	for i := 0; i < n1 && p+40 <= len(b); i++ {
		a = append(a, string(b[p:p+40]))
		p += 40
	}
	if p+8 > len(b) {
		return "malformed"
	}
	n2 := int(uint64(b[p]) | uint64(b[p+1])<<8 | uint64(b[p+2])<<16 | uint64(b[p+3])<<24)
	p += 8
	var c []string
	for i := 0; i < n2 && p+41 <= len(b); i++ {
		c = append(c, string(b[p:p+41]))
		p += 41
	}
	if p != len(b) || len(a) != n1 || len(c) != n2 {
		return "malformed"
	}
	sort.Strings(a)
	sort.Strings(c)
	h := sha256.New()
	h.Write(hdr)
	for _, x := range a {
		h.Write([]byte(x))
	}
	h.Write([]byte{0xff})
	for _, x := range c {
		h.Write([]byte(x))
	}
	return fmt.Sprintf("%d/%d/%d/%s", hdr[0], n1, n2, hex.EncodeToString(h.Sum(nil)[:6]))
}

// ---------- queries ----------

type cquery struct {
	name string // the Go method name
	args string
	run  func(m *u.MapPollard) string
}

func qGetRoots() cquery {
	return cquery{"GetRoots", "-", func(m *u.MapPollard) string { return shs(m.GetRoots()) }}
}
func qGetStump() cquery {
	return cquery{"GetStump", "-", func(m *u.MapPollard) string {
		s := m.GetStump()
		return fmt.Sprintf("%d:%s", s.NumLeaves, shs(s.Roots))
	}}
}
func qGetNumLeaves() cquery {
	return cquery{"GetNumLeaves", "-", func(m *u.MapPollard) string { return fmt.Sprint(m.GetNumLeaves()) }}
}
func qGetTreeRows() cquery {
	return cquery{"GetTreeRows", "-", func(m *u.MapPollard) string { return fmt.Sprint(m.GetTreeRows()) }}
}
func qProve(tag string, hs []u.Hash) cquery {
	return cquery{"Prove", tag + ":" + shs(hs), func(m *u.MapPollard) string {
		p, err := m.Prove(copyHashes(hs))
		if err != nil {
			return "err"
		}
		return "ok:" + us(p.Targets) + ":" + shs(p.Proof)
	}}
}
func qVerify(tag string, hs []u.Hash, p u.Proof) cquery {
	return cquery{"Verify", tag + ":" + shs(hs) + ":" + us(p.Targets), func(m *u.MapPollard) string {
		err := m.Verify(copyHashes(hs), u.Proof{Targets: copyU64(p.Targets), Proof: copyHashes(p.Proof)}, false)
		if err != nil {
			return "err"
		}
		return "ok"
	}}
}
func qGetLeafPosition(tag string, h u.Hash) cquery {
	return cquery{"GetLeafPosition", tag + ":" + sh(h), func(m *u.MapPollard) string {
		p, ok := m.GetLeafPosition(h)
		if !ok {
			return "none"
		}
		return fmt.Sprint(p)
	}}
}
func qGetHash(pos uint64) cquery {
	return cquery{"GetHash", fmt.Sprint(pos), func(m *u.MapPollard) string { return sh(m.GetHash(pos)) }}
}
func qGetMissingPositions(ts []uint64) cquery {
	return cquery{"GetMissingPositions", us(ts), func(m *u.MapPollard) string { return us(m.GetMissingPositions(copyU64(ts))) }}
}
func qGetLeafHashPositions(hs []u.Hash) cquery {
	return cquery{"GetLeafHashPositions", shs(hs), func(m *u.MapPollard) string { return us(m.GetLeafHashPositions(copyHashes(hs))) }}
}
func qWrite() cquery {
	return cquery{"Write", "-", func(m *u.MapPollard) string {
		var buf bytes.Buffer
		n, err := m.Write(&buf)
		if err != nil || n != buf.Len() {
			return fmt.Sprintf("err:%d:%d", n, buf.Len())
		}
		return writeDigest(buf.Bytes())
	}}
}

// safeRun runs a query with recover.
func safeRun(q cquery, m *u.MapPollard) (res string) {
	defer func() {
		if r := recover(); r != nil {
			res = "panic"
		}
	}()
	return q.run(m)
}

// ---------- a world: a prover plus twin map forests driven through the same history ----------

type cconfig struct {
	full bool
	rows uint8
}

func (c cconfig) String() string {
	f := "P"
	if c.full {
		f = "F"
	}
	return fmt.Sprintf("%s%d", f, c.rows)
}

type cblock struct {
	adds      []u.Leaf
	delHashes []u.Hash
	proof     u.Proof
	prevRoots []u.Hash
}

type cworld struct {
	g      *Gen
	cfg    cconfig
	prover u.Pollard
	a, b   *u.MapPollard
	live   []u.Hash        // live leaves, insertion order
	rem    map[u.Hash]bool // leaves cached by the map forests
	last   *cblock
	// many > 0: the first block of grow adds this many leaves (a forest of many trees: 9 or
	// more roots, rows >= 9) and the scenarios draw their leaves from the right edge half of
	// the time
	many int
}

// concManyEvery > 0 (set by famConc only): every concManyEvery-th world of the interleaving
// scenarios is a many-tree world.
var concManyEvery, concWorldNo int

func newCWorld(g *Gen, cfg cconfig) *cworld {
	w := &cworld{g: g, cfg: cfg, prover: u.NewAccumulator(), rem: map[u.Hash]bool{}}
	w.a, w.b = newMap(cfg.full, cfg.rows), newMap(cfg.full, cfg.rows)
	if concManyEvery > 0 {
		concWorldNo++
		if concWorldNo%concManyEvery == 0 {
			w.many = manyTreeCount(concWorldNo / concManyEvery)
		}
	}
	return w
}

// edge narrows a list of cached live leaves to the last 24 (the small trees at the right edge)
// half of the time in a many-tree world.
func (w *cworld) edge(c []u.Hash) []u.Hash {
	if w.many > 0 && len(c) > 24 && w.g.Intn(2) == 0 {
		return c[len(c)-24:]
	}
	return c
}

// cachedLive returns the live leaves the map forests have cached.
func (w *cworld) cachedLive() []u.Hash {
	var r []u.Hash
	for _, h := range w.live {
		if w.rem[h] {
			r = append(r, h)
		}
	}
	return r
}

func (w *cworld) uncachedLive() []u.Hash {
	var r []u.Hash
	for _, h := range w.live {
		if !w.rem[h] {
			r = append(r, h)
		}
	}
	return r
}

// mkBlock prepares a block deleting `dels` (cached live leaves) and adding nAdds leaves.
func (w *cworld) mkBlock(dels []u.Hash, nAdds int, rememberAll bool) *cblock {
	proof, err := w.prover.Prove(copyHashes(dels))
	if err != nil {
		die("conc: prover failed: %v", err)
	}
	adds := make([]u.Leaf, nAdds)
	for i := range adds {
		adds[i] = u.Leaf{Hash: w.g.leafHash(), Remember: rememberAll || w.cfg.full || w.g.Intn(2) == 0}
	}
	return &cblock{adds: adds, delHashes: copyHashes(dels), proof: proof, prevRoots: copyHashes(w.prover.GetRoots())}
}

func (b *cblock) modify(m *u.MapPollard) error {
	return m.Modify(append([]u.Leaf(nil), b.adds...), copyHashes(b.delHashes),
		u.Proof{Targets: copyU64(b.proof.Targets), Proof: copyHashes(b.proof.Proof)})
}

func (b *cblock) undo(m *u.MapPollard) error {
	return m.Undo(uint64(len(b.adds)), u.Proof{Targets: copyU64(b.proof.Targets), Proof: copyHashes(b.proof.Proof)},
		copyHashes(b.delHashes), copyHashes(b.prevRoots))
}

// commit records the block in the prover and the bookkeeping (the map forests are driven by the caller).
func (w *cworld) commit(b *cblock) {
	if err := w.prover.Modify(append([]u.Leaf(nil), b.adds...), copyHashes(b.delHashes),
		u.Proof{Targets: copyU64(b.proof.Targets), Proof: copyHashes(b.proof.Proof)}); err != nil {
		die("conc: prover modify failed: %v", err)
	}
	del := map[u.Hash]bool{}
	for _, h := range b.delHashes {
		del[h] = true
		delete(w.rem, h)
	}
	var nl []u.Hash
	for _, h := range w.live {
		if !del[h] {
			nl = append(nl, h)
		}
	}
	for _, a := range b.adds {
		nl = append(nl, a.Hash)
		if a.Remember {
			w.rem[a.Hash] = true
		}
	}
	w.live = nl
	w.last = b
}

// grow applies nBlocks random blocks to prover, A and B alike.
func (w *cworld) grow(nBlocks, maxAdds int) {
	for i := 0; i < nBlocks; i++ {
		var dels []u.Hash
		c := w.cachedLive()
		if len(c) > 2 && w.g.Intn(3) > 0 {
			k := 1 + w.g.Intn(min(3, len(c)-2))
			for _, j := range w.g.Perm(len(c))[:k] {
				dels = append(dels, c[j])
			}
		}
		nAdds := 1 + w.g.Intn(maxAdds)
		if i == 0 {
			nAdds += 3
			if w.many > 0 && len(w.live) == 0 {
				nAdds = w.many
			}
		} else if w.many > 0 && w.g.Intn(3) != 0 {
			nAdds = 0 // keep the many one-bits of the leaf count
		}
		b := w.mkBlock(dels, nAdds, false)
		for _, m := range []*u.MapPollard{w.a, w.b} {
			m := m
			if r := guardStr(func() string { return errStr(b.modify(m)) }); r != "ok" {
				die("conc: set-up Modify: %s (hang = a call that never returns: deadlock)", r)
			}
		}
		w.commit(b)
	}
}

func pick(g *Gen, xs []u.Hash, k int) []u.Hash {
	if k > len(xs) {
		k = len(xs)
	}
	var r []u.Hash
	for _, j := range g.Perm(len(xs))[:k] {
		r = append(r, xs[j])
	}
	return r
}

// ---------- part 1: a writer suspended at a site ----------

type cscenario struct {
	site    string
	hit     int // suspend at the hit-th arrival at the site
	op      string
	apply   func(m *u.MapPollard) string // the writer's operation; returns ok / err
	queries []cquery
}

var earlyWindow = 25 * time.Millisecond

// concWatchdog: how long a call may take before it is reported as `hang`.  Generous on
// purpose: with 16 race-instrumented shards running in parallel a goroutine can be starved for
// seconds, and a genuine deadlock never returns anyway.
var concWatchdog = 25 * time.Second

func errStr(err error) string {
	if err != nil {
		return "err"
	}
	return "ok"
}

// concHung is set as soon as any call fails to return (deadlock watchdog): the family reports
// the lines of the current scenario and stops, because the hung goroutines keep the lock.
var concHung bool

// twinRun runs a query on the twin under the watchdog (a re-entrant lock would hang it).
func twinRun(q cquery, m *u.MapPollard) string {
	if concHung {
		return "skipped"
	}
	r := guardStr(func() string { return safeRun(q, m) })
	if r == "hang" {
		concHung = true
	}
	return r
}

// runScenario: see the file comment.  a is the instance under test, b its twin.
func runScenario(cfg cconfig, a, b *u.MapPollard, sc cscenario) {
	if concHung {
		return
	}
	n := len(sc.queries)
	before, after := make([]string, n), make([]string, n)
	u.VerifHook = nil
	emit("session conc %s %d %s %s", sc.site, sc.hit, sc.op, cfg) // start of a scenario (replay excerpts start here)
	for i, q := range sc.queries {
		before[i] = twinRun(q, b)
	}
	wtwin := "skipped"
	if !concHung {
		wtwin = guardStr(func() string { return sc.apply(b) })
		if wtwin == "hang" {
			concHung = true
		}
	}
	for i, q := range sc.queries {
		after[i] = twinRun(q, b)
	}
	if concHung {
		// the sequential twin already hangs: report it and stop
		emit("concw %s %d %s %s 0 skipped %s", sc.site, sc.hit, sc.op, cfg, wtwin)
		for i, q := range sc.queries {
			emit("conc %s %d %s %s %s %s blocked skipped %s %s", sc.site, sc.hit, sc.op, cfg, q.name, q.args, before[i], after[i])
		}
		return
	}

	atSite, release := make(chan struct{}), make(chan struct{})
	hits := 0
	u.VerifHook = func(s string) {
		if s != sc.site {
			return
		}
		hits++
		if hits == sc.hit {
			close(atSite)
			<-release
		}
	}
	wdone := make(chan string, 1)
	go func() {
		defer func() {
			if r := recover(); r != nil {
				wdone <- "panic"
			}
		}()
		wdone <- sc.apply(a)
	}()
	reached, wres := 0, ""
	select {
	case <-atSite:
		reached = 1
	case wres = <-wdone:
	case <-time.After(concWatchdog):
		wres = "hang"
		concHung = true
	}
	res := make([]string, n)
	sched := make([]string, n)
	if reached == 1 {
		done := make([]chan string, n)
		for i := range sc.queries {
			done[i] = make(chan string, 1)
			go func(i int) { done[i] <- safeRun(sc.queries[i], a) }(i)
		}
		// which queries return while the writer is still suspended inside its section?
		deadline := time.Now().Add(earlyWindow)
		for time.Now().Before(deadline) {
			time.Sleep(time.Millisecond)
		}
		for i := range sc.queries {
			select {
			case res[i] = <-done[i]:
				sched[i] = "early"
			default:
				sched[i] = "blocked"
			}
		}
		close(release)
		select {
		case wres = <-wdone:
		case <-time.After(concWatchdog):
			wres = "hang"
			concHung = true
		}
		deadline = time.Now().Add(concWatchdog)
		for i := range sc.queries {
			if sched[i] == "early" {
				continue
			}
			select {
			case res[i] = <-done[i]:
			case <-time.After(time.Until(deadline)):
				res[i] = "hang"
				concHung = true
			}
		}
	}
	u.VerifHook = nil
	emit("concw %s %d %s %s %d %s %s", sc.site, sc.hit, sc.op, cfg, reached, wres, wtwin)
	if reached == 1 {
		for i, q := range sc.queries {
			emit("conc %s %d %s %s %s %s %s %s %s %s", sc.site, sc.hit, sc.op, cfg, q.name, q.args, sched[i], res[i], before[i], after[i])
		}
	}
}

func guardStr(f func() string) (r string) {
	done := make(chan string, 1)
	go func() {
		defer func() {
			if x := recover(); x != nil {
				done <- "panic"
			}
		}()
		done <- f()
	}()
	select {
	case r = <-done:
		return r
	case <-time.After(concWatchdog):
		return "hang"
	}
}

// queriesFor builds the query set for a scenario: every query method, with arguments that
// make the answer depend on the block (a surviving leaf, a leaf the block removes / uncaches,
// a leaf the block adds / caches, a fresh hash).
func (w *cworld) queriesFor(survivors, victims, added []u.Hash) []cquery {
	g := w.g
	fresh := g.leafHash()
	qs := []cquery{qGetRoots(), qGetStump(), qGetNumLeaves(), qGetTreeRows(), qWrite()}
	var probe []u.Hash
	if len(survivors) > 0 {
		s := survivors[0]
		qs = append(qs, qProve("s", pick(g, survivors, 1+g.Intn(2))), qGetLeafPosition("s", s))
		if p, err := w.prover.Prove([]u.Hash{s}); err == nil {
			qs = append(qs, qVerify("s", []u.Hash{s}, p), qGetMissingPositions(p.Targets))
		}
		probe = append(probe, s)
	}
	if len(victims) > 0 {
		v := victims[0]
		qs = append(qs, qProve("v", []u.Hash{v}), qGetLeafPosition("v", v))
		if p, err := w.prover.Prove([]u.Hash{v}); err == nil {
			qs = append(qs, qVerify("v", []u.Hash{v}, p), qGetMissingPositions(p.Targets))
		}
		probe = append(probe, v)
	}
	if len(added) > 0 {
		x := added[len(added)-1]
		qs = append(qs, qProve("a", []u.Hash{x}), qGetLeafPosition("a", x))
		probe = append(probe, x)
	}
	probe = append(probe, fresh)
	qs = append(qs, qGetLeafHashPositions(probe))
	n := w.prover.NumLeaves
	for _, p := range []uint64{0, n - 1, n, n + 1 + uint64(g.Intn(4))} {
		qs = append(qs, qGetHash(p))
	}
	return qs
}

func addHashes(ls []u.Leaf) []u.Hash {
	r := make([]u.Hash, len(ls))
	for i, l := range ls {
		r[i] = l.Hash
	}
	return r
}

// scenarios of one round for one configuration.
func concRound(g *Gen, cfg cconfig, maxAdds int) {
	// --- Modify: both sites ---
	{
		w := newCWorld(g, cfg)
		w.grow(2+g.Intn(3), maxAdds)
		c := w.edge(w.cachedLive())
		dels := pick(g, c, 1+g.Intn(2))
		nAdds := 2 + g.Intn(maxAdds)
		if cfg.rows == 0 { // cross the next power of two: remap inside the add loop
			p := uint64(1)
			for p <= w.prover.NumLeaves {
				p <<= 1
			}
			nAdds = int(p-w.prover.NumLeaves) + 1 + g.Intn(2)
		}
		blk := w.mkBlock(dels, nAdds, true)
		surv := minus(c, dels)
		qs := w.queriesFor(surv, dels, addHashes(blk.adds))
		site, hit := "modify.between", 1
		if g.Intn(2) == 0 {
			site = "modify.addloop"
			hit = []int{1, (nAdds + 1) / 2, nAdds}[g.Intn(3)]
		}
		runScenario(cfg, w.a, w.b, cscenario{site: site, hit: hit, op: "Modify", queries: qs,
			apply: func(m *u.MapPollard) string { return errStr(blk.modify(m)) }})
	}
	// the other Modify site on a fresh world, so that both are exercised in every round
	{
		w := newCWorld(g, cfg)
		w.grow(2+g.Intn(3), maxAdds)
		c := w.edge(w.cachedLive())
		dels := pick(g, c, 1+g.Intn(3))
		nAdds := 1 + g.Intn(maxAdds)
		blk := w.mkBlock(dels, nAdds, true)
		qs := w.queriesFor(minus(c, dels), dels, addHashes(blk.adds))
		runScenario(cfg, w.a, w.b, cscenario{site: "modify.addloop", hit: 1 + g.Intn(nAdds), op: "Modify", queries: qs,
			apply: func(m *u.MapPollard) string { return errStr(blk.modify(m)) }})
		w2 := newCWorld(g, cfg)
		w2.grow(2+g.Intn(3), maxAdds)
		c2 := w2.edge(w2.cachedLive())
		dels2 := pick(g, c2, 1+g.Intn(3))
		blk2 := w2.mkBlock(dels2, g.Intn(maxAdds), true)
		qs2 := w2.queriesFor(minus(c2, dels2), dels2, addHashes(blk2.adds))
		runScenario(cfg, w2.a, w2.b, cscenario{site: "modify.between", hit: 1, op: "Modify", queries: qs2,
			apply: func(m *u.MapPollard) string { return errStr(blk2.modify(m)) }})
	}
	// --- Undo ---
	{
		w := newCWorld(g, cfg)
		w.grow(2+g.Intn(3), maxAdds)
		c := w.edge(w.cachedLive())
		dels := pick(g, c, 1+g.Intn(2))
		blk := w.mkBlock(dels, 1+g.Intn(maxAdds), true)
		// queries are prepared on the pre-block state: proofs of survivors / of the leaves
		// the undo brings back are valid for the state the undo returns to
		qs := w.queriesFor(minus(c, dels), addHashes(blk.adds), dels)
		for _, m := range []*u.MapPollard{w.a, w.b} {
			if err := blk.modify(m); err != nil {
				die("conc: Modify before Undo failed: %v", err)
			}
		}
		w.commit(blk)
		runScenario(cfg, w.a, w.b, cscenario{site: "undo.between", hit: 1, op: "Undo", queries: qs,
			apply: func(m *u.MapPollard) string { return errStr(blk.undo(m)) }})
	}
	// --- Read ---
	{
		w := newCWorld(g, cfg)
		w.grow(2+g.Intn(3), maxAdds)
		var buf bytes.Buffer
		if _, err := w.a.Write(&buf); err != nil {
			die("conc: Write failed: %v", err)
		}
		data := buf.Bytes()
		c := w.edge(w.cachedLive())
		qs := w.queriesFor(nil, nil, c)
		fa, fb := newMap(cfg.full, cfg.rows), newMap(cfg.full, cfg.rows)
		runScenario(cfg, fa, fb, cscenario{site: "read.afterheader", hit: 1, op: "Read", queries: qs,
			apply: func(m *u.MapPollard) string {
				_, err := m.Read(bytes.NewReader(data))
				return errStr(err)
			}})
	}
	if cfg.full {
		return
	}
	// --- Ingest / Verify(remember) / Prune: partial forests only ---
	for _, op := range []string{"Ingest", "Verify"} {
		w := newCWorld(g, cfg)
		for tries := 0; len(w.uncachedLive()) == 0 && tries < 20; tries++ {
			w.grow(1, maxAdds)
		}
		if len(w.uncachedLive()) == 0 {
			continue
		}
		w.grow(1+g.Intn(2), maxAdds)
		un := w.uncachedLive()
		if len(un) == 0 {
			continue
		}
		tg := pick(g, un, 1+g.Intn(2))
		proof, err := w.prover.Prove(copyHashes(tg))
		if err != nil {
			die("conc: prover failed: %v", err)
		}
		qs := w.queriesFor(w.cachedLive(), nil, tg)
		op := op
		runScenario(cfg, w.a, w.b, cscenario{site: "ingest.beforeputs", hit: 1, op: op, queries: qs,
			apply: func(m *u.MapPollard) string {
				p := u.Proof{Targets: copyU64(proof.Targets), Proof: copyHashes(proof.Proof)}
				if op == "Ingest" {
					return errStr(m.Ingest(copyHashes(tg), p))
				}
				return errStr(m.Verify(copyHashes(tg), p, true))
			}})
	}
	{
		w := newCWorld(g, cfg)
		w.grow(2+g.Intn(3), maxAdds)
		c := w.edge(w.cachedLive())
		if len(c) >= 2 {
			k := 1 + g.Intn(min(3, len(c)-1))
			vict := pick(g, c, k)
			qs := w.queriesFor(minus(c, vict), vict, nil)
			runScenario(cfg, w.a, w.b, cscenario{site: "prune.loop", hit: 1 + g.Intn(k), op: "Prune", queries: qs,
				apply: func(m *u.MapPollard) string { return errStr(m.Prune(copyHashes(vict))) }})
		}
	}
}

func minus(xs, ys []u.Hash) []u.Hash {
	drop := map[u.Hash]bool{}
	for _, y := range ys {
		drop[y] = true
	}
	var r []u.Hash
	for _, x := range xs {
		if !drop[x] {
			r = append(r, x)
		}
	}
	return r
}

// ---------- part 2: randomized stress ----------

// stressCycle: one writer cycling through ops that return to the starting state, N readers.
func stressCycle(g *Gen, cfg cconfig, kind string, readers, perReader, maxAdds int) {
	if concHung {
		return
	}
	w := newCWorld(g, cfg)
	w.grow(3+g.Intn(3), maxAdds)
	var ops []func(m *u.MapPollard) string
	var survivors, changing []u.Hash
	switch kind {
	case "modify-undo":
		c := w.cachedLive()
		d1 := pick(g, c, 1+g.Intn(2))
		b1 := w.mkBlock(d1, 1+g.Intn(maxAdds), true)
		// second block on top of the first: prepared on a scratch copy of the prover state
		for _, m := range []*u.MapPollard{w.a, w.b} {
			if err := b1.modify(m); err != nil {
				die("conc: stress set-up failed: %v", err)
			}
		}
		w.commit(b1)
		c2 := w.cachedLive()
		d2 := pick(g, minus(c2, addHashes(b1.adds)), 1)
		b2 := w.mkBlock(d2, 1+g.Intn(maxAdds), true)
		// bring A and B back to the state before b1: the cycle is  b1, b2, undo b2, undo b1
		for _, m := range []*u.MapPollard{w.a, w.b} {
			if err := b1.undo(m); err != nil {
				die("conc: stress set-up undo failed: %v", err)
			}
		}
		ops = []func(m *u.MapPollard) string{
			func(m *u.MapPollard) string { return errStr(b1.modify(m)) },
			func(m *u.MapPollard) string { return errStr(b2.modify(m)) },
			func(m *u.MapPollard) string { return errStr(b2.undo(m)) },
			func(m *u.MapPollard) string { return errStr(b1.undo(m)) },
		}
		survivors = minus(minus(c, d1), d2)
		changing = append(append(append([]u.Hash{}, d1...), d2...), addHashes(b1.adds)...)
		changing = append(changing, addHashes(b2.adds)...)
	case "prune-verify":
		c := w.cachedLive()
		if len(c) < 3 {
			return
		}
		vict := pick(g, c, 1+g.Intn(2))
		proof, err := w.prover.Prove(copyHashes(vict))
		if err != nil {
			die("conc: prover failed: %v", err)
		}
		ops = []func(m *u.MapPollard) string{
			func(m *u.MapPollard) string { return errStr(m.Prune(copyHashes(vict))) },
			func(m *u.MapPollard) string {
				return errStr(m.Verify(copyHashes(vict), u.Proof{Targets: copyU64(proof.Targets), Proof: copyHashes(proof.Proof)}, true))
			},
		}
		survivors = minus(c, vict)
		changing = vict
	}
	// the queries the readers draw from
	var qs []cquery
	qs = append(qs, qGetRoots(), qGetStump(), qGetNumLeaves(), qGetTreeRows(), qWrite())
	for _, h := range append(append([]u.Hash{}, survivors...), changing...) {
		qs = append(qs, qGetLeafPosition("x", h), qProve("x", []u.Hash{h}))
	}
	if len(survivors) > 0 {
		qs = append(qs, qProve("s", pick(g, survivors, 2)))
		if p, err := w.prover.Prove(survivors[:1]); err == nil {
			qs = append(qs, qVerify("s", survivors[:1], p), qGetMissingPositions(p.Targets))
		}
	}
	qs = append(qs, qGetLeafHashPositions(append(append([]u.Hash{}, changing...), survivors...)))
	for p := uint64(0); p < 6; p++ {
		qs = append(qs, qGetHash(p))
	}
	// boundary answers from the twin: three full cycles (the state must be periodic)
	valid := make([]map[string]bool, len(qs))
	for i := range valid {
		valid[i] = map[string]bool{}
	}
	record := func() {
		for i, q := range qs {
			valid[i][twinRun(q, w.b)] = true
		}
	}
	u.VerifHook = nil
	record()
	for c := 0; c < 3; c++ {
		for _, op := range ops {
			if concHung {
				break
			}
			if r := guardStr(func() string { return op(w.b) }); r != "ok" {
				if r == "hang" {
					concHung = true
					break
				}
				die("conc: stress cycle op failed on the twin: %s", r)
			}
			record()
		}
	}
	if concHung {
		emit("concstress %s %s writer=skipped readers=%d queries=0 outside=0 panics=0 hang=1 first=the-sequential-twin-hangs", kind, cfg, readers)
		return
	}
	// the writer's hook: widen the windows inside the critical sections
	hr := rand.New(rand.NewSource(g.Int63()))
	u.VerifHook = func(string) {
		switch hr.Intn(4) {
		case 0:
			runtime.Gosched()
		case 1:
			time.Sleep(time.Duration(hr.Intn(200)) * time.Microsecond)
		}
	}
	var outside, panics, total int64
	var firstMu sync.Mutex
	first := ""
	var stop int32
	var wg sync.WaitGroup
	for r := 0; r < readers; r++ {
		wg.Add(1)
		rr := rand.New(rand.NewSource(g.Int63()))
		go func() {
			defer wg.Done()
			for k := 0; k < perReader; k++ {
				i := rr.Intn(len(qs))
				res := safeRun(qs[i], w.a)
				atomic.AddInt64(&total, 1)
				if res == "panic" {
					atomic.AddInt64(&panics, 1)
				}
				if !valid[i][res] {
					atomic.AddInt64(&outside, 1)
					firstMu.Lock()
					if first == "" {
						first = qs[i].name + "(" + qs[i].args + ")=" + res
					}
					firstMu.Unlock()
				}
				if rr.Intn(8) == 0 {
					runtime.Gosched()
				}
			}
		}()
	}
	wfail := make(chan string, 1)
	wdone := make(chan struct{})
	go func() {
		defer close(wdone)
		defer func() {
			if x := recover(); x != nil {
				wfail <- "panic"
			}
		}()
		for cycles := 0; atomic.LoadInt32(&stop) == 0 || cycles < 2; cycles++ {
			for _, op := range ops {
				if r := op(w.a); r != "ok" {
					wfail <- r
					return
				}
			}
		}
	}()
	rdone := make(chan struct{})
	go func() { wg.Wait(); close(rdone) }()
	hang := 0
	select {
	case <-rdone:
	case <-time.After(90 * time.Second):
		hang = 1
	}
	atomic.StoreInt32(&stop, 1)
	select {
	case <-wdone:
	case <-time.After(30 * time.Second):
		hang = 1
	}
	if hang == 1 {
		concHung = true
	}
	wres := "ok"
	select {
	case wres = <-wfail:
	default:
	}
	if hang == 0 {
		u.VerifHook = nil
	}
	emit("session concstress %s %s", kind, cfg)
	line := fmt.Sprintf("concstress %s %s writer=%s readers=%d queries=%d outside=%d panics=%d hang=%d", kind, cfg, wres,
		readers, atomic.LoadInt64(&total), atomic.LoadInt64(&outside), atomic.LoadInt64(&panics), hang)
	if first != "" {
		line += " first=" + first
	}
	emit("%s", line)
}

func famConc(g *Gen, tier string, shard, nshards int) {
	// global watchdog: a deadlock in a place no per-call watchdog covers must not hang the check
	limit := 5 * time.Minute
	if tier == "thorough" {
		limit = 30 * time.Minute
	}
	runtime.GOMAXPROCS(4) // real parallelism for the race detector, little oversubscription across shards
	time.AfterFunc(limit, func() {
		fmt.Fprintln(os.Stderr, "harness: conc: global watchdog expired (a call never returned: deadlock?)")
		os.Exit(3)
	})
	rounds, maxAdds := 6, 6
	readers, perReader, stressRounds := 8, 400, 3
	if tier == "thorough" {
		rounds, maxAdds = 40, 12
		readers, perReader, stressRounds = 12, 2000, 48
		earlyWindow = 40 * time.Millisecond
	}
	if shard == 0 {
		emit("conctable") // the driver evaluates the lock-discipline check on the regenerated table
	}
	cfgs := []cconfig{{true, 63}, {true, 0}, {false, 63}, {false, 0}, {true, 5}, {false, 50}}
	// one world in five of the interleaving scenarios is a forest of many trees
	concManyEvery, concWorldNo = 5, shard
	for r := 0; r < rounds; r++ {
		for i, cfg := range cfgs {
			if (r*len(cfgs)+i)%nshards != shard {
				continue
			}
			concRound(g, cfg, maxAdds)
		}
	}
	concManyEvery = 0
	for r := 0; r < stressRounds; r++ {
		for i, cfg := range cfgs {
			if (r*len(cfgs)+i)%nshards != shard {
				continue
			}
			stressCycle(g, cfg, "modify-undo", readers, perReader, maxAdds)
			if !cfg.full {
				stressCycle(g, cfg, "prune-verify", readers, perReader, maxAdds)
			}
		}
	}
}
