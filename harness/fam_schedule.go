package main

// Families `schedule` (structured random) and `scheduleexh` (bounded-exhaustive) for
// property C15: block histories are played on a real Pollard prover, so the harness KNOWS
// every leaf's insertion slot, birth block and death block; the block summaries
// (prover-emitted deletion targets, addition counts) are fed to a CachingScheduleTracker
// and GenerateCachingSchedule is called for several memory limits.
//
// Lines (every line is self-contained, so a replay is a single line):
//
//	sttl  <blocks> <res> <dels63> <numLeaves> <toDestroy> <ttls>
//	sched <blocks> <limit> <res> <schedule>
//	gpp   <cached> <deleted> <toDestroy> <numAdds> <numLeaves> <res> <newCached> <createdIdxs>
//	msched <summaries> <limit> <res> <schedule>      (family schedulemal: arbitrary summaries
//	       `numAdds/targets;...`, not prover-emitted; model correspondence + ordering only)
//
// <blocks>    = per block `numAdds/deletedSlots/targets`, blocks joined by `;`
//               (deletedSlots[i] is the insertion slot of the leaf whose position,
//               as emitted by the prover, is targets[i])
// <res>       = ok | panic | hang
// <dels63> / <toDestroy> = per block a u64 list, joined by `;` (tracker state, 63-row coordinates)
// <ttls>      = per block `pos:ttl,...` joined by `;`
// <schedule>  = per block a u64 list, joined by `;`
//
// The harness only reports; all verdicts are the driver's.

import (
	"fmt"
	"sort"
	"strings"

	u "github.com/utreexo/utreexo"
)

func init() {
	families["schedule"] = famSchedule
	families["scheduleexh"] = famScheduleExh
	families["schedulemal"] = famScheduleMal
}

// schedBlock is one recorded block summary plus what the harness knows about it.
type schedBlock struct {
	numAdds  int
	delSlots []int    // parallel to targets
	targets  []uint64 // as emitted by the prover (TreeRows(numLeaves before the block) coordinates)
}

// schedSim plays a history on a Pollard and records the block summaries.
type schedSim struct {
	g      *Gen
	p      u.Pollard
	slots  []u.Hash
	alive  []bool
	blocks []schedBlock
}

func newSchedSim(g *Gen) *schedSim {
	return &schedSim{g: g, p: u.NewAccumulator()}
}

func (s *schedSim) liveIdx() []int {
	var r []int
	for i, a := range s.alive {
		if a {
			r = append(r, i)
		}
	}
	return r
}

// treeRanges: slot ranges [lo,hi) of the trees, biggest first.
func (s *schedSim) treeRanges() [][2]int {
	n := uint64(len(s.slots))
	var r [][2]int
	lo := 0
	for h := 63; h >= 0; h-- {
		if (n>>uint(h))&1 == 1 {
			r = append(r, [2]int{lo, lo + (1 << uint(h))})
			lo += 1 << uint(h)
		}
	}
	return r
}

// block deletes the given slots (request order: as given) and adds nAdds fresh leaves.
func (s *schedSim) block(delIdx []int, nAdds int) {
	delHashes := make([]u.Hash, len(delIdx))
	for i, j := range delIdx {
		delHashes[i] = s.slots[j]
	}
	proof, err := s.p.Prove(delHashes)
	if err != nil {
		die("schedule: prover failed: %v", err)
	}
	if len(proof.Targets) != len(delIdx) {
		die("schedule: prover returned %d targets for %d leaves", len(proof.Targets), len(delIdx))
	}
	adds := make([]u.Leaf, nAdds)
	for i := range adds {
		adds[i] = u.Leaf{Hash: s.g.leafHash()}
	}
	targets := copyU64(proof.Targets)
	if err := s.p.Modify(adds, delHashes, proof); err != nil {
		die("schedule: modify failed: %v", err)
	}
	for _, j := range delIdx {
		s.alive[j] = false
	}
	for _, a := range adds {
		s.slots = append(s.slots, a.Hash)
		s.alive = append(s.alive, true)
	}
	s.blocks = append(s.blocks, schedBlock{numAdds: nAdds, delSlots: append([]int(nil), delIdx...), targets: targets})
}

func blocksToken(bs []schedBlock) string {
	parts := make([]string, len(bs))
	for i, b := range bs {
		parts[i] = fmt.Sprintf("%d/%s/%s", b.numAdds, ints(b.delSlots), us(b.targets))
	}
	return strings.Join(parts, ";")
}

func u64ListsToken(ls [][]uint64) string {
	if len(ls) == 0 {
		return "."
	}
	parts := make([]string, len(ls))
	for i, l := range ls {
		parts[i] = us(l)
	}
	return strings.Join(parts, ";")
}

// gppGen, when set, makes emitSchedule also print direct getPrevPos calls on the tracker's
// per-block state with honest and arbitrary cached positions.
var gppGen *Gen

// emitGetPrevPos calls getPrevPos for some blocks of the history with (a) the positions a
// later block deletes (63-row coordinates) and (b) arbitrary positions.
func emitGetPrevPos(g *Gen, dels [][]uint64, numLeaves []uint64, toDestroy [][]uint64, bs []schedBlock) {
	for i := len(bs) - 1; i >= 1; i-- {
		if g.Intn(3) != 0 {
			continue
		}
		var cached []uint64
		switch g.Intn(3) {
		case 0: // what the next block deletes
			if i+1 < len(dels) {
				cached = copyU64(dels[i+1])
			}
		case 1: // arbitrary row-0 positions around the leaf count, possibly repeated
			for k := g.Intn(5); k > 0; k-- {
				cached = append(cached, uint64(g.Intn(int(numLeaves[i])+3)))
			}
		default: // arbitrary positions of any row in 63-row coordinates
			for k := g.Intn(5); k > 0; k-- {
				row := uint(g.Intn(5))
				rowStart := ^uint64(0) << (64 - row) // start of the row in 63-row coordinates
				if row == 0 {
					rowStart = 0
				}
				cached = append(cached, rowStart+uint64(g.Intn(int(numLeaves[i]>>row)+2)))
			}
		}
		var nc []uint64
		var created []int
		res := guard(watchdog, func() {
			nc, created = u.VerifGetPrevPos(63, cached, copyU64(dels[i]), copyU64(toDestroy[i]), uint16(bs[i].numAdds), numLeaves[i])
		})
		if res != "ok" {
			emit("gpp %s %s %s %d %d %s", us(cached), us(dels[i]), us(toDestroy[i]), bs[i].numAdds, numLeaves[i], res)
			continue
		}
		emit("gpp %s %s %s %d %d ok %s %s", us(cached), us(dels[i]), us(toDestroy[i]), bs[i].numAdds, numLeaves[i], us(nc), ints(created))
	}
}

func newTracker(bs []schedBlock) *u.CachingScheduleTracker {
	cs := u.NewCachingScheduleTracker(len(bs))
	for _, b := range bs {
		cs.AddBlockSummary(copyU64(b.targets), uint16(b.numAdds))
	}
	return &cs
}

// newTrackerIncremental feeds the summaries like a caller that asks for a schedule while the
// chain grows: GenerateCachingSchedule is also called after every other block (results
// dropped), so state kept between calls (memoised ttl tables, cursors) must stay right when
// more summaries arrive.
func newTrackerIncremental(bs []schedBlock, limit int) *u.CachingScheduleTracker {
	cs := u.NewCachingScheduleTracker(len(bs))
	for i, b := range bs {
		cs.AddBlockSummary(copyU64(b.targets), uint16(b.numAdds))
		if i%2 == 0 && i+1 < len(bs) {
			cs.GenerateCachingSchedule(limit)
		}
	}
	return &cs
}

// emitSchedule feeds the recorded summaries to a tracker and prints the tracker state after
// genTTLs and the schedule for every limit.
func emitSchedule(bs []schedBlock, limits []int) {
	tok := blocksToken(bs)

	// tracker state + ttl tables
	var cs *u.CachingScheduleTracker
	res := guard(watchdog, func() {
		cs = newTracker(bs)
		cs.VerifGenTTLs()
	})
	if res == "hang" {
		res = guard(20*watchdog, func() {
			cs = newTracker(bs)
			cs.VerifGenTTLs()
		})
	}
	if res != "ok" {
		emit("sttl %s %s", tok, res)
	} else {
		dels, ttls, _, numLeaves, toDestroy := cs.VerifScheduleState()
		tparts := make([]string, len(ttls))
		for i, l := range ttls {
			if len(l) == 0 {
				tparts[i] = "-"
				continue
			}
			ps := make([]string, len(l))
			for j, t := range l {
				ps[j] = fmt.Sprintf("%d:%d", t.Pos, t.TTL)
			}
			tparts[i] = strings.Join(ps, ",")
		}
		emit("sttl %s ok %s %s %s %s", tok, u64ListsToken(dels), us(numLeaves), u64ListsToken(toDestroy), strings.Join(tparts, ";"))
		if gppGen != nil {
			emitGetPrevPos(gppGen, dels, numLeaves, toDestroy, bs)
		}
	}

	// one tracker serves all limits, as a caller would use it (the model is a pure function
	// of the summaries, so any state leaking between calls shows up as a mismatch)
	var shared *u.CachingScheduleTracker
	for k, limit := range limits {
		var sch [][]uint64
		res := guard(watchdog, func() {
			t := shared
			if t == nil || k%3 == 2 {
				t = newTracker(bs)
				shared = t
			} else if k%3 == 1 {
				t = newTrackerIncremental(bs, limit)
				shared = t
			}
			sch = t.GenerateCachingSchedule(limit)
		})
		if res == "hang" {
			// a genuine hang is a deterministic infinite loop: confirm it on a fresh tracker
			// with a long timeout, so that a stall of a loaded machine is not reported as one
			shared = nil
			res = guard(20*watchdog, func() { sch = newTracker(bs).GenerateCachingSchedule(limit) })
		}
		if res != "ok" {
			shared = nil
			emit("sched %s %d %s", tok, limit, res)
			continue
		}
		emit("sched %s %d ok %s", tok, limit, u64ListsToken(sch))
	}
}

// limitsFor: 1, 2, 3, a few small ones, total-1, total, total+1 and "unbounded".
func limitsFor(g *Gen, total int, everDeleted int, withUnbounded bool) []int {
	set := map[int]bool{1: true, 2: true, 3: true, total: true, total + 1: true}
	if total > 1 {
		set[total-1] = true
	}
	if everDeleted > 0 {
		set[everDeleted] = true
		if everDeleted > 1 {
			set[everDeleted-1] = true
		}
	}
	if total > 4 {
		set[4+g.Intn(total-3)] = true
		set[1+g.Intn(total/2+1)] = true
	}
	if withUnbounded {
		set[1<<16] = true
	}
	var r []int
	for l := range set {
		if l >= 1 {
			r = append(r, l)
		}
	}
	sort.Ints(r)
	return r
}

func sampleInts(g *Gen, xs []int, k int) []int {
	if k >= len(xs) {
		return append([]int(nil), xs...)
	}
	p := g.Perm(len(xs))[:k]
	sort.Ints(p)
	r := make([]int, k)
	for i, j := range p {
		r[i] = xs[j]
	}
	return r
}

// pickDeletions chooses live slots to delete.
func (s *schedSim) pickDeletions(mode int) []int {
	live := s.liveIdx()
	if len(live) == 0 {
		return nil
	}
	g := s.g
	switch mode {
	case 0:
		return nil
	case 1: // few
		return sampleInts(g, live, 1+g.Intn(3))
	case 2: // half
		return sampleInts(g, live, (len(live)+1)/2)
	case 3: // almost all
		k := len(live) - 1 - g.Intn(2)
		if k < 1 {
			k = 1
		}
		return sampleInts(g, live, k)
	case 4: // all
		return live
	case 5: // whole trees
		var r []int
		for _, t := range s.treeRanges() {
			if g.Intn(2) == 0 {
				for i := t[0]; i < t[1]; i++ {
					if s.alive[i] {
						r = append(r, i)
					}
				}
			}
		}
		return r
	case 6: // sibling pairs
		var r []int
		for i := 0; i+1 < len(s.alive); i += 2 {
			if s.alive[i] && s.alive[i+1] && g.Intn(3) == 0 {
				r = append(r, i, i+1)
			}
		}
		return r
	default: // a contiguous run
		a := g.Intn(len(live))
		b := a + 1 + g.Intn(len(live)-a)
		return live[a:b]
	}
}

// smallTrees returns the live slots of the trees of height < h (the trees that
// 2^h - (n mod 2^h) additions merge away).
func (s *schedSim) lowTreesLive(maxTrees int) []int {
	tr := s.treeRanges()
	var r []int
	for k := 0; k < maxTrees && k < len(tr); k++ {
		t := tr[len(tr)-1-k]
		for i := t[0]; i < t[1]; i++ {
			if s.alive[i] {
				r = append(r, i)
			}
		}
	}
	sort.Ints(r)
	return r
}

func (s *schedSim) everDeleted() int {
	n := 0
	for _, a := range s.alive {
		if !a {
			n++
		}
	}
	return n
}

func nextPow2Gap(n uint64) int {
	p := uint64(1)
	for p <= n {
		p <<= 1
	}
	return int(p - n)
}

// famSchedule: structured random histories.
func famSchedule(g *Gen, tier string, shard, nshards int) {
	gppGen = g
	defer func() { gppGen = nil }()
	nHist, maxBlocks, maxAdds := 400, 12, 10
	if tier == "thorough" {
		nHist, maxBlocks, maxAdds = 1000, 30, 24
	}
	// the histories of this family are tiny (a dozen leaves) and there are hundreds per shard; a
	// many-tree history costs as much as a hundred of them, so they are 1 in 20 here
	manyEvery := 20
	for h := 0; h < nHist; h++ {
		s := newSchedSim(g)
		nBlocks := 2 + g.Intn(maxBlocks)
		if h%7 == 0 {
			nBlocks = 2 + g.Intn(4)
		}
		style := g.Intn(4) // 0: generic, 1: tree-emptying + overwriting heavy, 2: small adds, 3: generic
		if h%manyEvery == manyEvery-1 {
			// a history in a forest of many trees (9 or more roots, rows >= 9; some with 12..16)
			manySchedule(g, s, shard*(nHist/manyEvery)+h/manyEvery)
			emitSchedule(s.blocks, limitsFor(g, len(s.slots), s.everDeleted(), h%2 == 0))
			continue
		}
		if tier == "thorough" && h%125 == 124 {
			// a few big histories: hundreds of additions per block, crossing 2^8 .. 2^12
			bigSchedule(g, s)
			emitSchedule(s.blocks, limitsFor(g, len(s.slots), s.everDeleted(), false))
			continue
		}
		for b := 0; b < nBlocks; b++ {
			mode := g.Intn(8)
			if style == 1 && g.Intn(2) == 0 {
				mode = 5
			}
			nAdds := 0
			n := uint64(len(s.slots))
			switch g.Intn(6) {
			case 0:
				nAdds = 0
			case 1:
				nAdds = 1
			case 2:
				nAdds = 1 + g.Intn(3)
			case 3: // cross the next power of two
				nAdds = nextPow2Gap(n) + g.Intn(2)
				if nAdds > maxAdds*2 {
					nAdds = maxAdds
				}
			case 4: // exactly fill the lowest trees (merges over the low roots)
				low := 1 + g.Intn(3)
				nAdds = int((uint64(1) << uint(low)) - n&(uint64(1)<<uint(low)-1))
			default:
				nAdds = g.Intn(maxAdds + 1)
			}
			if style == 2 && nAdds > 2 {
				nAdds = g.Intn(3)
			}
			if b == 0 {
				mode = 0
				if nAdds == 0 {
					nAdds = 1 + g.Intn(maxAdds)
				}
			}
			var del []int
			if style == 1 && b > 0 && g.Intn(3) == 0 {
				// empty some of the lowest trees and add enough to merge over them
				del = s.lowTreesLive(1 + g.Intn(3))
				if nAdds == 0 {
					nAdds = 1 + g.Intn(4)
				}
			} else {
				del = s.pickDeletions(mode)
			}
			if b == nBlocks-1 && g.Intn(2) == 0 {
				// last block: make many leaves die
				del = s.pickDeletions(3 + g.Intn(2))
			}
			// request order: sorted or shuffled
			del = append([]int(nil), del...)
			if g.Intn(2) == 0 {
				g.Shuffle(len(del), func(a, c int) { del[a], del[c] = del[c], del[a] })
			}
			s.block(del, nAdds)
		}
		emitSchedule(s.blocks, limitsFor(g, len(s.slots), s.everDeleted(), h%5 == 0))
	}
}

// famScheduleExh: bounded-exhaustive histories of four blocks: n1 additions; every deletion
// subset + 0..3 additions; every deletion subset of the survivors + 0..2 additions; a closing
// block deleting all / every other / none of the survivors.  Every limit from 1 to total+1
// (plus 0 and -1 once per shape, outside the property's quantifier, for the model comparison).
func famScheduleExh(g *Gen, tier string, shard, nshards int) {
	maxN1, maxLive3 := 6, 5
	if tier == "thorough" {
		maxN1, maxLive3 = 7, 6
	}
	if shard == 0 {
		// corpus: the minimal witness of finding C15.createdMovedByUndoDel (3 blocks, 2 leaves):
		// add leaf 0 | delete leaf 0, add leaf 1 (overwrites the emptied root) | delete leaf 1
		s := newSchedSim(g)
		s.block(nil, 1)
		s.block([]int{0}, 1)
		s.block([]int{1}, 0)
		emitSchedule(s.blocks, []int{1, 2, 3, 1 << 16})
	}
	caseNo := 0
	for n1 := 1; n1 <= maxN1; n1++ {
		for mask := 0; mask < 1<<uint(n1); mask++ {
			for k2 := 0; k2 <= 3; k2++ {
				caseNo++
				if caseNo%nshards != shard {
					continue
				}
				nlive := n1 - popcount(uint64(mask)) + k2
				if nlive > maxLive3 {
					// too many third-block subsets: one random third block instead
					exhRun(g, n1, mask, k2, int(g.Int63())&(1<<uint(nlive)-1), g.Intn(3), caseNo)
					continue
				}
				for mask3 := 0; mask3 < 1<<uint(nlive); mask3++ {
					for k3 := 0; k3 <= 2; k3++ {
						exhRun(g, n1, mask, k2, mask3, k3, caseNo+mask3+k3)
					}
				}
			}
		}
	}
}

func exhRun(g *Gen, n1, mask, k2, mask3, k3, variant int) {
	s := newSchedSim(g)
	s.block(nil, n1)
	var del []int
	for i := 0; i < n1; i++ {
		if mask>>uint(i)&1 == 1 {
			del = append(del, i)
		}
	}
	s.block(del, k2)
	live := s.liveIdx()
	var del3 []int
	for i := range live {
		if mask3>>uint(i)&1 == 1 {
			del3 = append(del3, live[i])
		}
	}
	if variant%2 == 1 {
		// descending request order
		sort.Sort(sort.Reverse(sort.IntSlice(del3)))
	}
	s.block(del3, k3)
	live = s.liveIdx()
	switch variant % 3 {
	case 0:
		s.block(live, 0)
	case 1:
		var d []int
		for i, j := range live {
			if i%2 == 0 {
				d = append(d, j)
			}
		}
		s.block(d, 1)
		s.block(s.liveIdx(), 0)
	default:
		s.block(live, variant%2)
	}
	total := len(s.slots)
	var limits []int
	if variant%16 == 0 {
		limits = append(limits, -1, 0)
	}
	for l := 1; l <= total+1; l++ {
		limits = append(limits, l)
	}
	if variant%8 == 0 {
		limits = append(limits, 1<<16)
	}
	emitSchedule(s.blocks, limits)
}

// famScheduleMal: ARBITRARY block summaries (targets that no prover would emit: random
// positions of any row, repeated, outside the forest; first block with deletions).  Outside the
// quantifier of C15, so no slot oracle; the driver compares with the model (which the theorems
// are about for all summaries) including panics, and checks the unconditional ordering theorem.
func famScheduleMal(g *Gen, tier string, shard, nshards int) {
	n := 400
	if tier == "thorough" {
		n = 4000
	}
	for c := 0; c < n; c++ {
		nBlocks := 1 + g.Intn(6)
		var total uint64
		parts := make([]string, nBlocks)
		type sum struct {
			targets []uint64
			adds    int
		}
		sums := make([]sum, nBlocks)
		for b := 0; b < nBlocks; b++ {
			adds := g.Intn(6)
			if b == 0 && g.Intn(4) != 0 {
				adds = 1 + g.Intn(8)
			}
			var tg []uint64
			if b > 0 || g.Intn(8) == 0 {
				rows := u.TreeRows(total)
				maxPos := uint64(2)<<rows + 2
				for k := g.Intn(4); k > 0; k-- {
					switch g.Intn(6) {
					case 0:
						tg = append(tg, g.boundaryU64())
					case 1:
						if len(tg) > 0 {
							tg = append(tg, tg[g.Intn(len(tg))]^uint64(g.Intn(2)))
							break
						}
						fallthrough
					default:
						tg = append(tg, uint64(g.Int63n(int64(maxPos))))
					}
				}
			}
			sums[b] = sum{tg, adds}
			parts[b] = fmt.Sprintf("%d/%s", adds, us(tg))
			total += uint64(adds)
		}
		tok := strings.Join(parts, ";")
		limits := []int{1, 2 + g.Intn(3), int(total) + 1}
		for _, limit := range limits {
			var sch [][]uint64
			run := func() {
				cs := u.NewCachingScheduleTracker(nBlocks)
				for _, sm := range sums {
					cs.AddBlockSummary(copyU64(sm.targets), uint16(sm.adds))
				}
				sch = cs.GenerateCachingSchedule(limit)
			}
			res := guard(watchdog, run)
			if res == "hang" {
				res = guard(20*watchdog, run)
			}
			if res != "ok" {
				emit("msched %s %d %s", tok, limit, res)
				continue
			}
			emit("msched %s %d ok %s", tok, limit, u64ListsToken(sch))
		}
	}
}

// bigSchedule: 4-7 blocks with 100-700 additions each and large deletion sets (whole trees,
// halves, runs), so that leaf counts cross several powers of two between 2^8 and 2^12.
func bigSchedule(g *Gen, s *schedSim) {
	nBlocks := 4 + g.Intn(4)
	for b := 0; b < nBlocks; b++ {
		nAdds := 100 + g.Intn(600)
		if g.Intn(3) == 0 {
			nAdds = nextPow2Gap(uint64(len(s.slots))) + g.Intn(3)
			if nAdds > 2000 {
				nAdds = 700
			}
		}
		var del []int
		if b > 0 {
			del = append([]int(nil), s.pickDeletions([]int{2, 3, 5, 5, 6, 7}[g.Intn(6)])...)
			if len(del) > 400 {
				del = sampleInts(g, del, 400)
			}
		}
		if b == nBlocks-1 {
			nAdds = g.Intn(3)
		}
		s.block(del, nAdds)
	}
}

// manySchedule: a first block of 509..2046 leaves (k%8 == 3: 4095..16382, k%32 == 9: 32767..65535;
// AddBlockSummary takes the number of additions as a uint16), then 2..5 short blocks deleting
// leaves of the small trees at the right edge, leaves spread over the forest, all but one
// leaf of a tree of 16..128 leaves, or whole small trees, with few additions; a last block that
// deletes most of what the right edge still holds.  The replay of a history on the model and
// the oracle costs about quadratically in the number of leaves that are ever deleted (not in the
// size of the forest), so a history deletes at most about 160 leaves.
func manySchedule(g *Gen, s *schedSim, k int) {
	n := manyTreeCount(k)
	if k%8 == 3 {
		n = hugeTreeCount(k / 8)
	}
	if k%32 == 9 {
		n = giantTreeCount(k / 32)
	}
	s.block(nil, n)
	nBlocks := 2 + g.Intn(4)
	budget := 160
	for b := 0; b < nBlocks; b++ {
		style := manyTreeStyle(g)
		if b == 0 && k%3 == 0 {
			style = 2
		}
		var del []int
		if style == 2 {
			// the survivor climbs 4..7 rows
			del = climbDeletions(g, s.alive, 4, 7, g.Intn(8), g.Intn(3) == 0)
		} else {
			del = manyTreeDeletions(g, s.alive, style)
		}
		if b == nBlocks-1 && g.Intn(2) == 0 {
			del = rightEdge(g, s.liveIdx(), 64)
		}
		if len(del) > budget {
			del = rightEdge(g, s.liveIdx(), 24)
			if len(del) > budget {
				del = nil
			}
		}
		budget -= len(del)
		del = append([]int(nil), del...)
		if g.Intn(2) == 0 {
			g.Shuffle(len(del), func(a, c int) { del[a], del[c] = del[c], del[a] })
		}
		nAdds := manyTreeAdds(g)
		if style == 3 && nAdds == 0 {
			nAdds = 1 + g.Intn(4) // additions over the emptied roots
		}
		s.block(del, nAdds)
	}
}
