package main

// Families for property C14: proof combination (AddProof), restriction (GetProofSubset) and
// completion (GetMissingPositions, MapPollard.GetMissingPositions + VerifyPartialProof).
//
// The harness only reports what the Go code did; every verdict is the driver's.
//
// Lines (all lists comma separated, "-" = empty):
//
//	addproof <tag> <numLeaves> <targetsA> <proofA> <hashesA> <targetsB> <proofB> <hashesB> <res>
//	    res = ok <hashes> <targets> <proof> | panic | hang
//	subset <tag> <numLeaves> <targets> <proof> <hashes> <wants> <res>
//	    res = ok <hashes> <targets> <proof> | err | panic | hang
//	missing <tag> <numLeaves> <heldTargets> <heldHashes> <heldProof> <desiredTargets> <desiredHashes> <res>
//	    res = ok <positions> <fetchedHashes> <unionTargets> <unionHashes> <unionProof> v=<ok|err|panic|hang|incomplete>
//	        | panic | hang
//	    (tags other than "honest": res = ok <positions> | panic | hang)
//	mapnodes <label> <numLeaves> <totalRows> <positions> <hashes>       (m.Nodes, sorted by position)
//	mapmissing <tag> <label> <targets> <leafHashes> <res>
//	    res = ok <positions> <fetchedHashes> v=<ok|err|panic|hang> | panic | hang
//
// tag: honest = inputs come from the reference prover on a reachable state: the property
// oracle applies; adv = arbitrary targets (unsorted, duplicates, outside the forest) with
// consistent lengths: model comparison only; badlen = inconsistent lengths (outside the
// documented precondition of toHashAndPos): the Go outcome is recorded only.

import (
	"sort"

	u "github.com/utreexo/utreexo"
)

func init() {
	families["proofops"] = famProofOps
	families["proofopsexh"] = famProofOpsExh
}

// ---------- partial map forests ----------

// pmap is a partial MapPollard (Full=false) that remembers only some of the added leaves.
type pmap struct {
	label string
	m     *u.MapPollard
	// clean: the `mapnodes` line of the current state has been emitted (big forests emit it once
	// per state: the calls made between two blocks read the map only)
	clean bool
}

func newPartials(rows []uint8) []*pmap {
	var r []*pmap
	for _, tr := range rows {
		m := u.NewMapPollard(false)
		m.TotalRows = tr
		r = append(r, &pmap{label: "pmap:" + ints([]int{int(tr)}), m: &m})
	}
	return r
}

// applyBlockP applies a block to the Sim (reference prover, stump, specification line) and to
// the partial maps.  A partial map remembers each added leaf with probability 1/2; leaves it
// is about to delete are first ingested with Verify(remember=true), as a light node does.
func (s *Sim) applyBlockP(delIdx []int, nAdds int, pms []*pmap) {
	delHashes := make([]u.Hash, len(delIdx))
	for i, j := range delIdx {
		delHashes[i] = s.slots[j]
	}
	s.g.Shuffle(len(delHashes), func(a, b int) { delHashes[a], delHashes[b] = delHashes[b], delHashes[a] })
	proof, err := s.prover.Prove(delHashes)
	if err != nil {
		die("prover failed: %v", err)
	}
	addHashes := s.g.leafHashes(nAdds)
	adds := make([]u.Leaf, nAdds)
	for i := range adds {
		adds[i] = u.Leaf{Hash: addHashes[i], Remember: true}
	}
	for _, pm := range pms {
		pm.clean = false
		padds := make([]u.Leaf, nAdds)
		for i := range padds {
			padds[i] = u.Leaf{Hash: addHashes[i], Remember: s.g.Intn(2) == 0}
		}
		var e1, e2 error
		r := guard(watchdog, func() {
			if len(delHashes) > 0 {
				e1 = pm.m.Verify(copyHashes(delHashes), u.Proof{Targets: copyU64(proof.Targets), Proof: copyHashes(proof.Proof)}, true)
			}
			if e1 == nil {
				e2 = pm.m.Modify(padds, copyHashes(delHashes), u.Proof{Targets: copyU64(proof.Targets), Proof: copyHashes(proof.Proof)})
			}
		})
		if r != "ok" || e1 != nil || e2 != nil {
			emit("obs %s modifyfail %s", pm.label, r)
		}
	}
	s.applyBlockData(delIdx, delHashes, proof, adds)
}

func (pm *pmap) emitNodes() {
	type kv struct {
		p uint64
		h u.Hash
	}
	var all []kv
	pm.m.Nodes.ForEach(func(p uint64, l u.Leaf) error {
		all = append(all, kv{p, l.Hash})
		return nil
	})
	sort.Slice(all, func(a, b int) bool { return all[a].p < all[b].p })
	ps := make([]uint64, len(all))
	hs := make([]string, len(all))
	for i, x := range all {
		ps[i] = x.p
		hs[i] = hx(x.h)
	}
	hstr := "-"
	if len(hs) > 0 {
		hstr = joinComma(hs)
	}
	emit("mapnodes %s %d %d %s %s", pm.label, pm.m.NumLeaves, pm.m.TotalRows, us(ps), hstr)
}

func joinComma(xs []string) string {
	n := 0
	for _, x := range xs {
		n += len(x) + 1
	}
	b := make([]byte, 0, n)
	for i, x := range xs {
		if i > 0 {
			b = append(b, ',')
		}
		b = append(b, x...)
	}
	return string(b)
}

// ---------- the calls ----------

func (s *Sim) callAddProof(tag string, pA, pB u.Proof, hA, hB []u.Hash) {
	n := s.numLeaves()
	var rh []u.Hash
	var rp u.Proof
	r := guard(watchdog, func() { rh, rp = u.AddProof(cpProof(pA), cpProof(pB), copyHashes(hA), copyHashes(hB), n) })
	head := "addproof " + tag
	if r != "ok" {
		emit("%s %d %s %s %s %s %s %s %s", head, n, us(pA.Targets), hxs(pA.Proof), hxs(hA), us(pB.Targets), hxs(pB.Proof), hxs(hB), r)
		return
	}
	emit("%s %d %s %s %s %s %s %s ok %s %s %s", head, n, us(pA.Targets), hxs(pA.Proof), hxs(hA),
		us(pB.Targets), hxs(pB.Proof), hxs(hB), hxs(rh), us(rp.Targets), hxs(rp.Proof))
}

func (s *Sim) callSubset(tag string, p u.Proof, hashes []u.Hash, wants []uint64) {
	n := s.numLeaves()
	var rh []u.Hash
	var rp u.Proof
	var err error
	w := copyU64(wants)
	r := guard(watchdog, func() { rh, rp, err = u.GetProofSubset(cpProof(p), copyHashes(hashes), w, n) })
	res := r
	if r == "ok" {
		if err != nil {
			res = "err"
		} else {
			res = "ok " + hxs(rh) + " " + us(rp.Targets) + " " + hxs(rp.Proof)
		}
	}
	emit("subset %s %d %s %s %s %s %s", tag, n, us(p.Targets), hxs(p.Proof), hxs(hashes), us(wants), res)
}

// callMissing: GetMissingPositions(function) and, for honest inputs, completion of the held
// proof with the true hashes at the reported positions followed by Verify of (held ∪ desired).
func (s *Sim) callMissing(tag string, held u.Proof, heldH []u.Hash, desT []uint64, desH []u.Hash) {
	n := s.numLeaves()
	rows := u.TreeRows(n)
	var missing []uint64
	r := guard(watchdog, func() { missing = u.GetMissingPositions(n, copyU64(held.Targets), copyU64(desT)) })
	head := "missing " + tag
	if r != "ok" {
		emit("%s %d %s %s %s %s %s %s", head, n, us(held.Targets), hxs(heldH), hxs(held.Proof), us(desT), hxs(desH), r)
		return
	}
	if tag != "honest" {
		emit("%s %d %s %s %s %s %s ok %s", head, n, us(held.Targets), hxs(heldH), hxs(held.Proof), us(desT), hxs(desH), us(missing))
		return
	}
	fetched := make([]u.Hash, len(missing))
	for i, p := range missing {
		fetched[i] = s.prover.GetHash(p)
	}
	// union of the targets with their hashes, ascending
	at := map[uint64]u.Hash{}
	for i, t := range held.Targets {
		at[t] = heldH[i]
	}
	for i, t := range desT {
		at[t] = desH[i]
	}
	var unionT []uint64
	for t := range at {
		unionT = append(unionT, t)
	}
	sort.Slice(unionT, func(a, b int) bool { return unionT[a] < unionT[b] })
	unionH := make([]u.Hash, len(unionT))
	for i, t := range unionT {
		unionH[i] = at[t]
	}
	// what is held: the proof hashes at the proof positions of the held targets, plus what was fetched
	have := map[uint64]u.Hash{}
	hs := copyU64(held.Targets)
	sort.Slice(hs, func(a, b int) bool { return hs[a] < hs[b] })
	heldPos, _ := u.ProofPositions(hs, n, rows)
	for i, p := range heldPos {
		if i < len(held.Proof) {
			have[p] = held.Proof[i]
		}
	}
	for i, p := range missing {
		have[p] = fetched[i]
	}
	need, _ := u.ProofPositions(unionT, n, rows)
	var unionP []u.Hash
	v := ""
	for _, p := range need {
		h, ok := have[p]
		if !ok {
			v = "incomplete"
			break
		}
		unionP = append(unionP, h)
	}
	if v == "" {
		v = "ok"
		if len(unionT) > 0 {
			var verr error
			st := u.Stump{Roots: copyHashes(s.stump.Roots), NumLeaves: s.stump.NumLeaves}
			rr := guard(watchdog, func() {
				_, verr = u.Verify(st, copyHashes(unionH), u.Proof{Targets: copyU64(unionT), Proof: copyHashes(unionP)})
			})
			if rr != "ok" {
				v = rr
			} else if verr != nil {
				v = "err"
			}
		}
	}
	emit("%s %d %s %s %s %s %s ok %s %s %s %s %s v=%s", head, n, us(held.Targets), hxs(heldH), hxs(held.Proof), us(desT), hxs(desH),
		us(missing), hxs(fetched), us(unionT), hxs(unionH), hxs(unionP), v)
}

func (s *Sim) callMapMissing(tag string, pm *pmap, targets []uint64, leafH []u.Hash) {
	if !pm.clean || pm.m.NumLeaves <= 300 {
		pm.emitNodes()
		pm.clean = true
	}
	var missing []uint64
	r := guard(watchdog, func() { missing = pm.m.GetMissingPositions(copyU64(targets)) })
	if r != "ok" {
		emit("mapmissing %s %s %s %s %s", tag, pm.label, us(targets), hxs(leafH), r)
		return
	}
	fetched := make([]u.Hash, len(missing))
	for i, p := range missing {
		fetched[i] = s.prover.GetHash(p)
	}
	var verr error
	rr := guard(watchdog, func() {
		verr = pm.m.VerifyPartialProof(copyU64(targets), copyHashes(leafH), copyHashes(fetched), false)
	})
	v := rr
	if rr == "ok" && verr != nil {
		v = "err"
	}
	emit("mapmissing %s %s %s %s ok %s %s v=%s", tag, pm.label, us(targets), hxs(leafH), us(missing), hxs(fetched), v)
}

// ---------- generators ----------

// prove asks the reference prover; the proof's targets are in the order of req.
func (s *Sim) prove(req []u.Hash) u.Proof {
	if len(req) == 0 {
		return u.Proof{}
	}
	p, err := s.prover.Prove(copyHashes(req))
	if err != nil {
		die("prover failed: %v", err)
	}
	return p
}

func pickSubset(g *Gen, live []u.Hash, k int) []u.Hash {
	if k > len(live) {
		k = len(live)
	}
	p := g.Perm(len(live))[:k]
	r := make([]u.Hash, k)
	for i, j := range p {
		r[i] = live[j]
	}
	return r
}

// slot index of a live leaf hash
func (s *Sim) slotOf(h u.Hash) int {
	for i := range s.slots {
		if s.alive[i] && s.slots[i] == h {
			return i
		}
	}
	return -1
}

// pairOfSets draws two sets of live leaves according to a mode.
func (s *Sim) pairOfSets(mode int) ([]u.Hash, []u.Hash) {
	g := s.g
	live := s.pickPool()
	if len(live) == 0 {
		return nil, nil
	}
	maxK := min(len(live), 8)
	a := pickSubset(g, live, 1+g.Intn(maxK))
	switch mode {
	case 0: // independent (often overlapping)
		return a, pickSubset(g, live, 1+g.Intn(maxK))
	case 1: // disjoint
		in := map[u.Hash]bool{}
		for _, h := range a {
			in[h] = true
		}
		var rest []u.Hash
		for _, h := range live {
			if !in[h] {
				rest = append(rest, h)
			}
		}
		if len(rest) == 0 {
			return a, nil
		}
		return a, pickSubset(g, rest, 1+g.Intn(min(len(rest), 8)))
	case 2: // siblings / nested under a common parent: the slot neighbours of A's leaves
		var b []u.Hash
		seen := map[u.Hash]bool{}
		for _, h := range a {
			i := s.slotOf(h)
			for _, j := range []int{i ^ 1, i ^ 2, i ^ 3} {
				if j >= 0 && j < len(s.slots) && s.alive[j] && !seen[s.slots[j]] && g.Intn(2) == 0 {
					seen[s.slots[j]] = true
					b = append(b, s.slots[j])
				}
			}
		}
		g.Shuffle(len(b), func(x, y int) { b[x], b[y] = b[y], b[x] })
		return a, b
	case 3: // different trees
		tr := s.treeRanges()
		if len(tr) < 2 {
			return a, pickSubset(g, live, 1+g.Intn(maxK))
		}
		ta, tb := g.Intn(len(tr)), g.Intn(len(tr))
		var la, lb []u.Hash
		for i := range s.slots {
			if !s.alive[i] {
				continue
			}
			if i >= tr[ta][0] && i < tr[ta][1] {
				la = append(la, s.slots[i])
			}
			if i >= tr[tb][0] && i < tr[tb][1] && ta != tb {
				lb = append(lb, s.slots[i])
			}
		}
		if len(la) == 0 {
			la = a
		}
		return pickSubset(g, la, 1+g.Intn(min(len(la), 6))), pickSubset(g, lb, g.Intn(min(len(lb), 6)+1))
	case 4: // one empty
		if g.Intn(2) == 0 {
			return a, nil
		}
		return nil, a
	case 5: // identical, different order
		b := copyHashes(a)
		g.Shuffle(len(b), func(x, y int) { b[x], b[y] = b[y], b[x] })
		return a, b
	default: // nested: B a subset of A
		return a, pickSubset(g, a, g.Intn(len(a)+1))
	}
}

// permuteParallel returns the proof with its targets and the hashes in the same random order.
func permuteParallel(g *Gen, p u.Proof, hashes []u.Hash) (u.Proof, []u.Hash) {
	perm := g.Perm(len(hashes))
	ts := make([]uint64, len(hashes))
	hs := make([]u.Hash, len(hashes))
	for i, j := range perm {
		ts[i] = p.Targets[j]
		hs[i] = hashes[j]
	}
	return u.Proof{Targets: ts, Proof: copyHashes(p.Proof)}, hs
}

// advTargets draws arbitrary target positions: node positions, duplicates, positions outside
// the forest, boundary values; at most 12 (Go sorts stably up to 12 elements).
func (s *Sim) advTargets(k int) []uint64 {
	g := s.g
	n := s.numLeaves()
	rows := u.TreeRows(n)
	_, nodeP := s.nodeAlphabet()
	ts := make([]uint64, 0, k)
	for i := 0; i < k; i++ {
		switch g.Intn(8) {
		case 0:
			if len(ts) > 0 {
				ts = append(ts, ts[g.Intn(len(ts))]) // duplicate
				continue
			}
			fallthrough
		case 1, 2, 3:
			if len(nodeP) > 0 {
				ts = append(ts, nodeP[g.Intn(len(nodeP))])
				continue
			}
			fallthrough
		case 4:
			ts = append(ts, uint64(g.Intn(int(uint64(2)<<rows)+3)))
		case 5:
			if len(ts) > 0 {
				ts = append(ts, ts[g.Intn(len(ts))]^1) // a sibling
				continue
			}
			fallthrough
		case 6:
			cands := []uint64{n, n + 1, uint64(2)<<rows - 2, uint64(2)<<rows - 1, uint64(2) << rows, ^uint64(0), 1 << 63}
			ts = append(ts, cands[g.Intn(len(cands))])
		default:
			ts = append(ts, g.boundaryU64())
		}
	}
	return ts
}

func (s *Sim) randHashes(k int) []u.Hash {
	g := s.g
	nodeH, _ := s.nodeAlphabet()
	r := make([]u.Hash, k)
	for i := range r {
		switch {
		case len(nodeH) > 0 && g.Intn(3) > 0:
			r[i] = nodeH[g.Intn(len(nodeH))]
		case g.Intn(6) == 0:
			r[i] = u.Hash{}
		default:
			r[i] = g.leafHash()
		}
	}
	return r
}

// advProof: arbitrary targets with hashes and a proof of the length ProofPositions asks for
// (the consistent-length precondition under which the model is exact).
func (s *Sim) advProof(k int) (u.Proof, []u.Hash) {
	ts := s.advTargets(k)
	n := s.numLeaves()
	sorted := copyU64(ts)
	sort.Slice(sorted, func(a, b int) bool { return sorted[a] < sorted[b] })
	var pp []uint64
	if guard(watchdog, func() { pp, _ = u.ProofPositions(sorted, n, u.TreeRows(n)) }) != "ok" {
		return u.Proof{}, nil
	}
	pr := make([]u.Hash, len(pp))
	for i, p := range pp {
		pr[i] = s.prover.GetHash(p)
		if pr[i] == (u.Hash{}) || s.g.Intn(8) == 0 {
			pr[i] = s.g.leafHash()
		}
	}
	hs := make([]u.Hash, len(ts))
	for i, t := range ts {
		hs[i] = s.prover.GetHash(t)
		if hs[i] == (u.Hash{}) || s.g.Intn(8) == 0 {
			hs[i] = s.randHashes(1)[0]
		}
	}
	return u.Proof{Targets: ts, Proof: pr}, hs
}

// proofOpsOnState runs a batch of calls of every kind on the current state.
func (s *Sim) proofOpsOnState(nEach int, pms []*pmap) {
	g := s.g
	live := s.liveHashes()
	n := s.numLeaves()
	for k := 0; k < nEach; k++ {
		// AddProof
		la, lb := s.pairOfSets(g.Intn(7))
		s.callAddProof("honest", s.prove(la), s.prove(lb), la, lb)

		// GetProofSubset
		if len(live) > 0 {
			uset := pickSubset(g, s.pickPool(), 1+g.Intn(min(len(live), 10)))
			big := s.prove(uset)
			pp, ph := permuteParallel(g, big, uset)
			w := g.Perm(len(pp.Targets))[:g.Intn(len(pp.Targets)+1)]
			wants := make([]uint64, len(w))
			for i, j := range w {
				wants[i] = pp.Targets[j]
			}
			s.callSubset("honest", pp, ph, wants)
			// a wanted target that is not covered: a live leaf outside U, a node position, or a
			// position outside the forest
			var bad uint64
			covered := map[uint64]bool{}
			for _, t := range pp.Targets {
				covered[t] = true
			}
			switch g.Intn(3) {
			case 0:
				other := s.prove(pickSubset(g, live, 1))
				bad = other.Targets[0]
			case 1:
				bad = uint64(g.Intn(int(uint64(2)<<u.TreeRows(n)) + 2))
			default:
				bad = g.boundaryU64()
			}
			if !covered[bad] {
				at := g.Intn(len(wants) + 1)
				w2 := append(append(copyU64(wants[:at]), bad), wants[at:]...)
				s.callSubset("honest", pp, ph, w2)
			}
		}

		// GetMissingPositions (function) + completion
		ha, hd := s.pairOfSets(g.Intn(7))
		held := s.prove(ha)
		des := s.prove(hd)
		s.callMissing("honest", held, ha, des.Targets, hd)

		// partial map forests
		for _, pm := range pms {
			if len(live) == 0 {
				continue
			}
			req := pickSubset(g, s.pickPool(), 1+g.Intn(min(len(live), 6)))
			pr := s.prove(req)
			s.callMapMissing("honest", pm, pr.Targets, req)
		}

		// adversarial inputs: model comparison only
		if k%2 == 0 {
			pA, hA := s.advProof(g.Intn(7))
			pB, hB := s.advProof(g.Intn(6))
			s.callAddProof("adv", pA, pB, hA, hB)
			pU, hU := s.advProof(g.Intn(9))
			var wants []uint64
			for _, t := range pU.Targets {
				if g.Intn(2) == 0 {
					wants = append(wants, t)
				}
			}
			if g.Intn(4) == 0 {
				wants = append(wants, s.advTargets(1)...)
			}
			g.Shuffle(len(wants), func(a, b int) { wants[a], wants[b] = wants[b], wants[a] })
			s.callSubset("adv", pU, hU, wants)
			// a semi-honest subset call: honest proof, duplicated wants
			if len(live) > 0 {
				uset := pickSubset(g, live, 1+g.Intn(min(len(live), 6)))
				big := s.prove(uset)
				w := []uint64{big.Targets[0], big.Targets[0]}
				s.callSubset("adv", big, uset, w)
			}
			s.callMissing("adv", u.Proof{Targets: s.advTargets(g.Intn(7))}, nil, s.advTargets(g.Intn(7)), nil)
			for _, pm := range pms {
				s.callMapMissing("adv", pm, s.advTargets(1+g.Intn(5)), s.randHashes(0))
			}
		}
		// inconsistent lengths: outcome recorded only
		if k%4 == 0 && len(live) > 0 {
			la, lb := s.pairOfSets(g.Intn(7))
			pA, pB := s.prove(la), s.prove(lb)
			switch g.Intn(4) {
			case 0: // proof too short
				if len(pA.Proof) > 0 {
					pA.Proof = pA.Proof[:len(pA.Proof)-1]
				}
			case 1: // proof too long
				pB.Proof = append(pB.Proof, g.leafHash())
				pA.Proof = append(pA.Proof, g.leafHash(), g.leafHash())
			case 2: // fewer hashes than targets
				if len(la) > 0 {
					la = la[:len(la)-1]
				}
			default: // more hashes than targets
				lb = append(copyHashes(lb), g.leafHash())
			}
			s.callAddProof("badlen", pA, pB, la, lb)
			uset := pickSubset(g, live, 1+g.Intn(min(len(live), 6)))
			big := s.prove(uset)
			wants := copyU64(big.Targets[:g.Intn(len(big.Targets)+1)])
			switch g.Intn(4) {
			case 0:
				if len(big.Proof) > 0 {
					big.Proof = big.Proof[:len(big.Proof)-1]
				}
			case 1:
				big.Proof = append(big.Proof, g.leafHash())
			case 2:
				uset = uset[:len(uset)-1]
			default:
				uset = append(copyHashes(uset), g.leafHash())
			}
			s.callSubset("badlen", big, uset, wants)
		}
	}
}

// famProofOps: structured random states (several blocks with deletions, emptied trees,
// additions over empty roots), a batch of calls on each.
func famProofOps(g *Gen, tier string, shard, nshards int) {
	nStates, perState, maxLeaves := 14, 14, 40
	if tier == "thorough" {
		nStates, perState, maxLeaves = 50, 40, 300
	}
	for st := 0; st < nStates; st++ {
		s := newSim(g, nil)
		pms := newPartials([][]uint8{{63}, {0}, {50, 0}, {63, 5}}[g.Intn(4)])
		// one state in five is a forest of many trees (9 or more roots, rows >= 9): proofs of
		// leaves in the small trees at the right edge (half of the draws) and anywhere are
		// combined, restricted and completed; a leaf that has climbed many rows is among them
		if st%5 == 4 {
			k := shard*nStates/5 + st/5
			n := manyTreeCount(k)
			if k%4 == 3 {
				n = hugeTreeCount(k / 4) // 12..13 roots
			}
			s.edgeBias = true
			for len(s.slots) < n {
				s.applyBlockP(nil, min(n-len(s.slots), 2048), pms)
			}
			nb := 1 + g.Intn(3)
			for b := 0; b < nb; b++ {
				style := manyTreeStyle(g)
				if b == 0 && k%3 == 0 {
					style = 2
				}
				s.applyBlockP(manyTreeDeletions(g, s.alive, style), manyTreeAdds(g), pms)
				if g.Intn(3) == 0 {
					s.proofOpsOnState(2, pms)
				}
			}
			s.obsRoots()
			s.proofOpsOnState(perState, pms)
			continue
		}
		nl := 1 + g.Intn(maxLeaves)
		if g.Intn(3) == 0 {
			nl = 1 + g.Intn(12)
		}
		s.applyBlockP(nil, nl, pms)
		nb := g.Intn(5)
		for b := 0; b < nb; b++ {
			s.applyBlockP(s.pickDeletions(1+g.Intn(7)), g.Intn(6), pms)
			if g.Intn(3) == 0 {
				s.proofOpsOnState(2, pms)
			}
		}
		s.obsRoots()
		s.proofOpsOnState(perState, pms)
	}
}

// ---------- bounded-exhaustive ----------

func subsetOf(live []u.Hash, mask int) []u.Hash {
	var r []u.Hash
	for i := range live {
		if mask>>uint(i)&1 == 1 {
			r = append(r, live[i])
		}
	}
	return r
}

// permutations of 0..n-1 (n <= 4)
func allPerms(n int) [][]int {
	if n == 0 {
		return [][]int{{}}
	}
	var r [][]int
	for _, p := range allPerms(n - 1) {
		for i := 0; i <= len(p); i++ {
			q := append(append(append([]int{}, p[:i]...), n-1), p[i:]...)
			r = append(r, q)
		}
	}
	return r
}

// famProofOpsExh: every reachable forest shape (block 1 adds n1, block 2 deletes a subset and
// adds k2) with at most maxLive live leaves: all pairs of target subsets for AddProof and
// GetMissingPositions; for GetProofSubset every covering set U, every subset W of U and every
// permutation of W (|W| <= 4), U's (targets, hashes) in a random parallel order.
func famProofOpsExh(g *Gen, tier string, shard, nshards int) {
	maxN1, maxLive, pairBudget := 6, 5, 1<<8
	if tier == "thorough" {
		maxN1, maxLive, pairBudget = 7, 6, 1<<10
	}
	caseNo := 0
	for n1 := 1; n1 <= maxN1; n1++ {
		for mask := 0; mask < 1<<uint(n1); mask++ {
			for k2 := 0; k2 <= 2; k2++ {
				nlive := n1 - popcount(uint64(mask)) + k2
				if nlive == 0 || nlive > maxLive+1 {
					continue
				}
				caseNo++
				if caseNo%nshards != shard {
					continue
				}
				s := newSim(g, nil)
				pms := newPartials([][]uint8{{63}, {0}, {3}}[caseNo%3])
				s.applyBlockP(nil, n1, pms)
				var del []int
				for i := 0; i < n1; i++ {
					if mask>>uint(i)&1 == 1 {
						del = append(del, i)
					}
				}
				s.applyBlockP(del, k2, pms)
				s.obsRoots()
				live := s.liveHashes()
				nsub := 1 << uint(len(live))
				full := nlive <= maxLive // beyond: sampled
				for a := 0; a < nsub; a++ {
					la := subsetOf(live, a)
					pa := s.prove(la)
					for b := 0; b < nsub; b++ {
						if !full && g.Intn(nsub*nsub/pairBudget+1) != 0 {
							continue
						}
						lb := subsetOf(live, b)
						if g.Intn(2) == 0 { // request order of B reversed
							for i, j := 0, len(lb)-1; i < j; i, j = i+1, j-1 {
								lb[i], lb[j] = lb[j], lb[i]
							}
						}
						pb := s.prove(lb)
						s.callAddProof("honest", pa, pb, la, lb)
						s.callMissing("honest", pa, la, pb.Targets, lb)
					}
					// restriction of the proof of A
					if len(la) == 0 {
						continue
					}
					for w := 0; w < nsub; w++ {
						if w&a != w {
							continue
						}
						if !full && g.Intn(4) != 0 {
							continue
						}
						lw := subsetOf(live, w)
						pw := s.prove(lw)
						pp, ph := permuteParallel(g, pa, la)
						if len(lw) <= 4 {
							for _, perm := range allPerms(len(lw)) {
								wants := make([]uint64, len(lw))
								for i, j := range perm {
									wants[i] = pw.Targets[j]
								}
								s.callSubset("honest", pp, ph, wants)
							}
						} else {
							wants := copyU64(pw.Targets)
							g.Shuffle(len(wants), func(x, y int) { wants[x], wants[y] = wants[y], wants[x] })
							s.callSubset("honest", pp, ph, wants)
						}
					}
					// one uncovered target per covering set: every live leaf outside A
					for i := range live {
						if a>>uint(i)&1 == 1 {
							continue
						}
						other := s.prove([]u.Hash{live[i]})
						pp, ph := permuteParallel(g, pa, la)
						wants := append(copyU64(pp.Targets[:g.Intn(len(pp.Targets)+1)]), other.Targets[0])
						g.Shuffle(len(wants), func(x, y int) { wants[x], wants[y] = wants[y], wants[x] })
						s.callSubset("honest", pp, ph, wants)
					}
					// partial maps: every target subset
					for _, pm := range pms {
						s.callMapMissing("honest", pm, pa.Targets, la)
					}
				}
			}
		}
	}
}
