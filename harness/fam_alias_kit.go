package main

// Tools of the `alias` family (C17): caller-owned slices with canaries around them,
// snapshots of whole backing arrays, and the registry of results returned earlier.

import (
	"fmt"
	"strings"
	"time"

	u "github.com/utreexo/utreexo"
)

// aliasWatchdog: every call of this family is made on an honest block and is expected to
// return; a generous limit keeps a loaded machine from producing spurious "hang" outcomes
// (after the first anomaly the session is abandoned, so a real hang costs this only once).
var aliasWatchdog = 30 * time.Second

// watch is a caller-owned backing array under observation together with the window of it
// that is passed to (or was returned by) the library.
type watch interface {
	snapshot()
	check() string // "same" or "changed:<region>@<index relative to the window>"
	meta() (n, spare int)
	diff() string // " was=<window before> now=<window now>" (only meaningful after a change)
}

type watchT[T comparable] struct {
	full   []T // the whole backing array
	off, n int // the window
	snap   []T
}

func (w *watchT[T]) snapshot() { w.snap = append(w.snap[:0], w.full...) }

func (w *watchT[T]) check() string {
	if len(w.snap) != len(w.full) {
		return "changed:length"
	}
	for i := range w.full {
		if w.full[i] != w.snap[i] {
			where := "spare"
			if i >= w.off && i < w.off+w.n {
				where = "data"
			} else if i < w.off {
				where = "before"
			}
			return fmt.Sprintf("changed:%s@%d", where, i-w.off)
		}
	}
	return "same"
}

func (w *watchT[T]) meta() (int, int) { return w.n, len(w.full) - w.n }

func fmtElems[T comparable](xs []T) string {
	if len(xs) == 0 {
		return "-"
	}
	parts := make([]string, len(xs))
	for i, x := range xs {
		switch v := any(x).(type) {
		case u.Hash:
			parts[i] = fmt.Sprintf("%x", v[:4])
		case u.Leaf:
			parts[i] = fmt.Sprintf("%x/%v", v.Hash[:4], v.Remember)
		default:
			parts[i] = fmt.Sprint(v)
		}
	}
	return strings.Join(parts, ",")
}

// diff renders the whole backing array before and now (hashes by their first 4 bytes).
func (w *watchT[T]) diff() string {
	if len(w.snap) != len(w.full) {
		return ""
	}
	return fmt.Sprintf(" off=%d was=%s now=%s", w.off, fmtElems(w.snap), fmtElems(w.full))
}

// watchResult observes a slice the library returned: its whole capacity.
func watchResult[T comparable](s []T) watch {
	w := &watchT[T]{full: s[:cap(s)], off: 0, n: len(s)}
	w.snapshot()
	return w
}

// ---------- canaries ----------

func canaryHash(i int) u.Hash {
	var h u.Hash
	for j := range h {
		h[j] = 0xCA
	}
	h[0], h[1] = byte(i), byte(i>>8)
	return h
}
func canaryU64(i int) uint64  { return 0xCACACACA00000000 + uint64(i) }
func canaryU32(i int) uint32  { return 0xCACA0000 + uint32(i) }
func canaryLeaf(i int) u.Leaf { return u.Leaf{Hash: canaryHash(i), Remember: true} }
func canaryInt(i int) int     { return -1000 - i }

// argSpec: one slice argument to lay out; *out receives the caller-owned slice.
type argSpec[T comparable] struct {
	name string
	data []T
	out  *[]T
}

// layout modes
const (
	laySep       = iota // every slice in its own array: canaries before, spare capacity of canaries after
	layShared           // all slices of the type consecutively in ONE array (caps run into the next slice)
	laySharedRev        // the same in reverse order
	layTight            // own array, cap == len
	layRaw              // the data slices themselves (earlier results used as inputs)
	nLayouts
)

var layoutNames = []string{"sep", "shared", "sharedrev", "tight", "raw"}

// layoutArgs builds caller-owned slices for the specs and returns a watch per spec.
func layoutArgs[T comparable](mode int, canary func(int) T, specs []argSpec[T]) map[string]watch {
	res := map[string]watch{}
	switch mode {
	case layRaw:
		for _, sp := range specs {
			*sp.out = sp.data
			res[sp.name] = &watchT[T]{full: sp.data[:cap(sp.data)], off: 0, n: len(sp.data)}
		}
	case layShared, laySharedRev:
		order := make([]int, len(specs))
		for i := range order {
			order[i] = i
			if mode == laySharedRev {
				order[i] = len(specs) - 1 - i
			}
		}
		total := 2
		for _, sp := range specs {
			total += len(sp.data)
		}
		total += 4
		full := make([]T, total)
		for i := range full {
			full[i] = canary(i)
		}
		off := 2
		for _, k := range order {
			sp := specs[k]
			copy(full[off:], sp.data)
			*sp.out = full[off : off+len(sp.data)] // cap runs to the end of the shared array
			res[sp.name] = &watchT[T]{full: full, off: off, n: len(sp.data)}
			off += len(sp.data)
		}
	case layTight:
		for _, sp := range specs {
			full := make([]T, len(sp.data))
			copy(full, sp.data)
			*sp.out = full
			res[sp.name] = &watchT[T]{full: full, off: 0, n: len(full)}
		}
	default: // laySep
		for _, sp := range specs {
			full := make([]T, 2+len(sp.data)+5)
			for i := range full {
				full[i] = canary(i)
			}
			copy(full[2:], sp.data)
			*sp.out = full[2 : 2+len(sp.data)]
			res[sp.name] = &watchT[T]{full: full, off: 2, n: len(sp.data)}
		}
	}
	return res
}

func mergeWatches(ms ...map[string]watch) map[string]watch {
	res := map[string]watch{}
	for _, m := range ms {
		for k, v := range m {
			res[k] = v
		}
	}
	return res
}

// ---------- results returned earlier ----------

type keptResult struct {
	kind string
	id   int
	w    watch
}

type aliasKit struct {
	kept   []keptResult
	nextID int
	// tainted: a call failed or changed caller-owned data; the rest of the history would run on
	// corrupted inputs (and may hang), so the session is abandoned
	tainted bool
}

func (k *aliasKit) keep(kind string, w watch) {
	k.nextID++
	k.kept = append(k.kept, keptResult{kind: kind, id: k.nextID, w: w})
}

func keepSlice[T comparable](k *aliasKit, kind string, s []T) {
	k.keep(kind, watchResult(s))
}

func (k *aliasKit) keepProof(kind string, p u.Proof) {
	keepSlice(k, kind+".Targets", p.Targets)
	keepSlice(k, kind+".Proof", p.Proof)
}

func (k *aliasKit) keepUpdateData(ud u.UpdateData) {
	keepSlice(k, "Stump.Update.ToDestroy", ud.ToDestroy)
	keepSlice(k, "Stump.Update.NewDelHash", ud.NewDelHash)
	keepSlice(k, "Stump.Update.NewDelPos", ud.NewDelPos)
	keepSlice(k, "Stump.Update.NewAddHash", ud.NewAddHash)
	keepSlice(k, "Stump.Update.NewAddPos", ud.NewAddPos)
}

// checkLater re-compares EVERY result kept so far after the call `api` and emits one line per
// kind of earlier result (with the number compared); a changed result is named individually.
func (k *aliasKit) checkLater(api string) {
	type agg struct {
		n    int
		bad  string
		diff string
	}
	order := []string{}
	byKind := map[string]*agg{}
	for _, r := range k.kept {
		a := byKind[r.kind]
		if a == nil {
			a = &agg{}
			byKind[r.kind] = a
			order = append(order, r.kind)
		}
		a.n++
		if v := r.w.check(); v != "same" && a.bad == "" {
			a.bad = fmt.Sprintf("%s#%d", v, r.id)
			a.diff = r.w.diff()
			k.tainted = true
		}
	}
	for _, kind := range order {
		a := byKind[kind]
		v := "same"
		if a.bad != "" {
			v = a.bad
		}
		emit("later %s %s %s n=%d%s", api, kind, v, a.n, a.diff)
	}
}

// call runs one library call with the given argument watches: snapshot, call, compare.
func (k *aliasKit) call(api string, mode int, args map[string]watch, order []string, f func() error) string {
	for _, name := range order {
		args[name].snapshot()
	}
	var err error
	r := guard(aliasWatchdog, func() { err = f() })
	if r == "ok" && err != nil {
		r = "err"
	}
	emit("aliasinfo call %s %s", api, r)
	if r != "ok" {
		k.tainted = true
	}
	for _, name := range order {
		n, spare := args[name].meta()
		v, d := args[name].check(), ""
		if v != "same" {
			k.tainted = true
			d = args[name].diff()
		}
		emit("alias %s %s %s l=%s n=%d c=%d%s", api, name, v, layoutNames[mode], n, spare, d)
	}
	k.checkLater(api)
	return r
}
