package main

// Family `conclinrd` (property C12): READERS parked in the middle of a call, on large forests.
//
// Complement of family `conclin` (fam_conc2.go), which parks state-changing operations only
// and works on forests of a few dozen leaves.  Here X is a read-only query that makes MANY
// accesses to the maps of the instance:
//
//	GetLeafHashPositions(all cached live leaves + some uncached + a fresh hash)   one access per hash
//	Prove(many cached leaves)                  2 per leaf + one per proof position
//	GetMissingPositions(many targets)          one per proof position
//	Write                                      Length/ForEach + one per serialized element
//	GetStump / GetRoots                        one per root
//
// and the world is a forest of 130..600 leaves (most of them 300..600; full and partial
// forests; TotalRows 0/12/50/63), so that a call crosses batch boundaries of every plausible
// size (64, 128, 256 accesses).  The maps are wrapped as in `conclin`; in addition every
// ELEMENT visited by ForEach is a suspension point (Write would otherwise have four).
//
// Scenario (X, Y, k): X is started in a goroutine and parked at its k-th access (k = 1, 2,
// K-1, K, every 128*m+1, then 64*m+1, 128*m, 256*m and random others; K measured on a twin).
// Y = a Modify that deletes many cached leaves all over the forest (single ones and runs of
// neighbours, so that whole subtrees move up) and adds leaves (now and then across the next
// power of two: every position above row 0 is renumbered), or the Undo of the newest block
// (which was built the same way).  Y is started; after Y finished or a bounded wait (Y is
// then blocked on the lock) X is released and both are awaited (deadlock watchdog).
//
//	conclin rd <X> <Y> <cfg> <numLeaves> <k> <K> <site> <parked 0|1> <early|blocked>
//	           <result of Y> <result of Y alone> <final state> <state of the twin after Y>
//	           <answer of X> <twin's answer before Y> <twin's answer after Y>
//
// An answer is a comma-separated list of atoms (`-` = empty; `err`, `panic`, `hang`):
// positions; `t<target>`… then `h<hash>`… for a proof; `rows=`, `numLeaves=`, `cached=<n>:<digest>`,
// `nodes=<n>:<digest>` for Write; `n<NumLeaves>` then the root hashes for GetStump.  A state is
// rendered as in `conclin` (NumLeaves/TotalRows/#Nodes/#CachedLeaves/digest/roots).
// `conclin info …` lines describe the scenario; when the answer of X equals neither twin
// answer, `conclin info mix …` lines list, per atom on which the two twin answers differ,
// which of the two X returned (for GetLeafHashPositions: which leaf is at its pre-block and
// which at its post-block position).
//
// Verdicts are the driver's (Driver/ConcLin.lean, `handleConcLinRd`).

import (
	"bytes"
	"crypto/sha256"
	"encoding/hex"
	"fmt"
	"os"
	"runtime"
	"sort"
	"strings"
	"sync/atomic"
	"time"

	u "github.com/utreexo/utreexo"
)

func init() { families["conclinrd"] = famConcLinRd }

// ---------- instrumented maps: every element visited by ForEach is an access as well ----------

type hookedNodesIt struct{ hookedNodes }

func (w *hookedNodesIt) ForEach(fn func(uint64, u.Leaf) error) error {
	w.h.hit("Nodes.ForEach")
	return w.in.ForEach(func(k uint64, v u.Leaf) error {
		w.h.hit("Nodes.ForEach.element")
		return fn(k, v)
	})
}

type hookedCachedIt struct{ hookedCached }

func (w *hookedCachedIt) ForEach(fn func(u.Hash, uint64) error) error {
	w.h.hit("CachedLeaves.ForEach")
	return w.in.ForEach(func(k u.Hash, v uint64) error {
		w.h.hit("CachedLeaves.ForEach.element")
		return fn(k, v)
	})
}

var _ u.NodesInterface = (*hookedNodesIt)(nil)
var _ u.CachedLeavesInterface = (*hookedCachedIt)(nil)

// rdClone: linClone with the element-wise wrappers.
func rdClone(base *u.MapPollard, armAt int) *linInst {
	c := u.NewMapPollard(base.Full)
	c.TotalRows = base.TotalRows
	c.NumLeaves = base.NumLeaves
	base.Nodes.ForEach(func(k uint64, v u.Leaf) error { c.Nodes.Put(k, v); return nil })
	base.CachedLeaves.ForEach(func(k u.Hash, v uint64) error { c.CachedLeaves.Put(k, v); return nil })
	in := &linInst{m: &c, h: newLinHook(armAt), nodes: c.Nodes, cached: c.CachedLeaves}
	c.Nodes = &hookedNodesIt{hookedNodes{c.Nodes, in.h}}
	c.CachedLeaves = &hookedCachedIt{hookedCached{c.CachedLeaves, in.h}}
	return in
}

// ---------- the readers ----------

type rdop struct {
	name   string
	desc   string   // arguments, for the reader of a replay (no spaces)
	labels []string // what atom i of the answer is about (optional)
	run    func(m *u.MapPollard) string
}

func safeRd(x rdop, m *u.MapPollard) (res string) {
	defer func() {
		if r := recover(); r != nil {
			res = "panic"
		}
	}()
	return x.run(m)
}

func seqRd(x rdop, m *u.MapPollard) string {
	if concHung {
		return "skipped"
	}
	r := guardStr(func() string { return safeRd(x, m) })
	if r == "hang" {
		concHung = true
	}
	return r
}

func atoms(p []string) string {
	if len(p) == 0 {
		return "-"
	}
	return strings.Join(p, ",")
}

func rdGetLeafHashPositions(hs []u.Hash) rdop {
	lb := make([]string, len(hs))
	for i, h := range hs {
		lb[i] = "leaf:" + sh(h)
	}
	return rdop{"GetLeafHashPositions", fmt.Sprintf("GetLeafHashPositions(n=%d,hashes=%s)", len(hs), shs(hs)), lb,
		func(m *u.MapPollard) string { return us(m.GetLeafHashPositions(copyHashes(hs))) }}
}

func rdProve(hs []u.Hash) rdop {
	lb := make([]string, len(hs))
	for i, h := range hs {
		lb[i] = "target-of:" + sh(h)
	}
	return rdop{"Prove", fmt.Sprintf("Prove(n=%d,hashes=%s)", len(hs), shs(hs)), lb,
		func(m *u.MapPollard) string {
			p, err := m.Prove(copyHashes(hs))
			if err != nil {
				return "err"
			}
			a := make([]string, 0, len(p.Targets)+len(p.Proof))
			for _, t := range p.Targets {
				a = append(a, fmt.Sprintf("t%d", t))
			}
			for _, h := range p.Proof {
				a = append(a, "h"+sh(h))
			}
			return atoms(a)
		}}
}

func rdGetMissingPositions(ts []uint64) rdop {
	return rdop{"GetMissingPositions", fmt.Sprintf("GetMissingPositions(n=%d,targets=%s)", len(ts), us(ts)), nil,
		func(m *u.MapPollard) string { return us(m.GetMissingPositions(copyU64(ts))) }}
}

// writeAtoms: MapPollard.Write output without the map iteration order, one atom per part.
func writeAtoms(b []byte) string {
	if len(b) < 17 {
		return fmt.Sprintf("short%d", len(b))
	}
	le := func(p int) uint64 {
		var v uint64
		for i := 7; i >= 0; i-- {
			v = v<<8 | uint64(b[p+i])
		}
		return v
	}
	part := func(p, n, size int) (string, int) {
		var a []string
		for i := 0; i < n && p+size <= len(b); i++ {
			a = append(a, string(b[p:p+size]))
			p += size
		}
		if len(a) != n {
			return "malformed", -1
		}
		sort.Strings(a)
		h := sha256.New()
		for _, x := range a {
			h.Write([]byte(x))
		}
		return fmt.Sprintf("%d:%s", n, hex.EncodeToString(h.Sum(nil)[:6])), p
	}
	n1 := le(9)
	if n1 > uint64(len(b)) {
		return "malformed"
	}
	c, p := part(17, int(n1), 40)
	if p < 0 || p+8 > len(b) {
		return "malformed"
	}
	n2 := le(p)
	if n2 > uint64(len(b)) {
		return "malformed"
	}
	nd, q := part(p+8, int(n2), 41)
	if q != len(b) {
		return "malformed"
	}
	return fmt.Sprintf("rows=%d,numLeaves=%d,cached=%s,nodes=%s", b[0], le(1), c, nd)
}

func rdWrite() rdop {
	return rdop{"Write", "Write()", []string{"TotalRows", "NumLeaves", "CachedLeaves", "Nodes"},
		func(m *u.MapPollard) string {
			var buf bytes.Buffer
			n, err := m.Write(&buf)
			if err != nil || n != buf.Len() {
				return fmt.Sprintf("err:%d:%d", n, buf.Len())
			}
			return writeAtoms(buf.Bytes())
		}}
}

func rootAtoms(rs []u.Hash) []string {
	a := make([]string, len(rs))
	for i, r := range rs {
		a[i] = sh(r)
	}
	return a
}

func rdGetStump() rdop {
	return rdop{"GetStump", "GetStump()", nil, func(m *u.MapPollard) string {
		s := m.GetStump()
		return atoms(append([]string{fmt.Sprintf("n%d", s.NumLeaves)}, rootAtoms(s.Roots)...))
	}}
}

func rdGetRoots() rdop {
	return rdop{"GetRoots", "GetRoots()", nil, func(m *u.MapPollard) string { return atoms(rootAtoms(m.GetRoots())) }}
}

// ---------- large worlds ----------

type rdWorld struct {
	w      *cworld
	cfg    cconfig
	ys     []linop
	xs     []rdop
	nLive  int
	nCache int
}

// spreadDels picks about k of the cached live leaves: up to four runs of 2..maxRun neighbours
// (in insertion order: siblings and cousins, so that parents die and whole subtrees move up)
// and single leaves all over the forest.
func spreadDels(g *Gen, cached []u.Hash, k, maxRun int) []u.Hash {
	if k > len(cached)/4 {
		k = len(cached) / 4
	}
	chosen := map[int]bool{}
	for r := g.Intn(5); r > 0 && len(chosen)+maxRun <= k; r-- {
		s, l := g.Intn(len(cached)-maxRun), 2+g.Intn(maxRun-1)
		for j := s; j < s+l; j++ {
			chosen[j] = true
		}
	}
	for len(chosen) < k {
		chosen[g.Intn(len(cached))] = true
	}
	idx := make([]int, 0, len(chosen))
	for j := range chosen {
		idx = append(idx, j)
	}
	sort.Ints(idx)
	r := make([]u.Hash, len(idx))
	for i, j := range idx {
		r[i] = cached[j]
	}
	return r
}

func (rw *rdWorld) apply(b *cblock) {
	w := rw.w
	if r := guardStr(func() string { return errStr(b.modify(w.a)) }); r != "ok" {
		die("conclinrd: set-up Modify: %s (hang = a call that never returns: deadlock)", r)
	}
	w.commit(b)
}

func nextPow2(n uint64) uint64 {
	p := uint64(1)
	for p <= n {
		p <<= 1
	}
	return p
}

// newRdWorld builds a forest with about `target` leaves ever added and prepares Y (Modify,
// Undo of the newest block) and the readers X on it.
func newRdWorld(g *Gen, cfg cconfig, target int) *rdWorld {
	w := newCWorld(g, cfg)
	rw := &rdWorld{w: w, cfg: cfg}
	rem := func() bool { return cfg.full || g.Intn(3) > 0 }
	// history: one large block, then a few blocks that delete and add, then the newest block
	// (the one Undo takes back)
	lastAdds := 5 + g.Intn(56)
	body := target - lastAdds
	first := body*(40+g.Intn(30))/100 + 8
	rw.apply(w.mkBlock(nil, first, true))
	nMid := 2 + g.Intn(3)
	for i := 0; i < nMid; i++ {
		left := body - int(w.prover.NumLeaves)
		n := left / (nMid - i)
		if n < 1 {
			n = 1
		}
		rw.apply(w.mkBlock(spreadDels(g, w.cachedLive(), 3+g.Intn(10), 4), n, rem()))
	}
	if len(w.cachedLive()) < 48 {
		return nil
	}
	rw.apply(w.mkBlock(spreadDels(g, w.cachedLive(), 12+g.Intn(30), 8), lastAdds, rem()))
	last := w.last

	cached, uncached := w.cachedLive(), w.uncachedLive()
	rw.nLive, rw.nCache = len(w.live), len(cached)
	lw := &linWorld{w: w, cfg: cfg}

	// Y: Modify / Undo
	dels := spreadDels(g, cached, 15+g.Intn(40), 8)
	nAdds := g.Intn(41)
	if gap := int(nextPow2(w.prover.NumLeaves) - w.prover.NumLeaves); gap <= 80 && g.Intn(2) == 0 {
		nAdds = gap + 1 + g.Intn(5) // across the next power of two: the forest gets a new row
	}
	rw.ys = []linop{lw.opModify(dels, nAdds), lw.opUndo()}

	// X
	perm := func(hs []u.Hash) []u.Hash { return pick(g, hs, len(hs)) }
	all := perm(cached)
	extra := append(pick(g, uncached, min(4, len(uncached))), g.leafHash())
	for _, e := range extra {
		j := g.Intn(len(all) + 1)
		all = append(all[:j], append([]u.Hash{e}, all[j:]...)...)
	}
	// the leaves that stay cached whichever Y runs
	stable := minus(minus(cached, dels), addHashes(last.adds))
	nProve := min(len(stable), 40+g.Intn(121))
	tg := pick(g, stable, nProve)
	sample := pick(g, w.live, min(len(w.live), 30+g.Intn(121)))
	pr, err := w.prover.Prove(copyHashes(sample))
	if err != nil {
		die("conclinrd: prover cannot prove live leaves: %v", err)
	}
	rw.xs = []rdop{rdGetLeafHashPositions(all), rdProve(tg), rdGetMissingPositions(pr.Targets), rdWrite(), rdGetStump(), rdGetRoots()}
	return rw
}

// sampleKrd: 1, 2, K-1, K, every 128*m+1 (the first access of a batch of 128), then 64*m+1,
// 128*m, 256*m, then random values, n in all (more when the mandatory ones are more; every k
// when K <= n).
func sampleKrd(g *Gen, K, n int) []int {
	if K <= n {
		r := make([]int, K)
		for i := range r {
			r[i] = i + 1
		}
		return r
	}
	set := map[int]bool{1: true, 2: true, K - 1: true, K: true}
	for m := 1; 128*m+1 <= K && m <= 5; m++ {
		set[128*m+1] = true
	}
	var cands []int
	for m := 1; 64*m+1 <= K; m++ {
		cands = append(cands, 64*m+1)
		if m%2 == 0 {
			cands = append(cands, 64*m)
		}
	}
	for _, j := range g.Perm(len(cands)) {
		if len(set) >= n-2 {
			break
		}
		set[cands[j]] = true
	}
	for len(set) < n {
		set[1+g.Intn(K)] = true
	}
	var r []int
	for k := range set {
		if k >= 1 && k <= K {
			r = append(r, k)
		}
	}
	sort.Ints(r)
	return r
}

// emitMix describes an answer that is neither twin answer: per class the number of atoms, and
// the atoms around every change of class among those on which the twin answers differ.
func emitMix(x rdop, k int, res, pre, post string) {
	sp := func(s string) []string {
		if s == "-" {
			return nil
		}
		return strings.Split(s, ",")
	}
	r, a, b := sp(res), sp(pre), sp(post)
	emit("conclin info mix k=%d atoms: answer=%d before-Y=%d after-Y=%d", k, len(r), len(a), len(b))
	n := min(len(r), min(len(a), len(b)))
	cls := make([]string, n)
	cnt := map[string]int{}
	for i := 0; i < n; i++ {
		switch {
		case a[i] == b[i] && r[i] == a[i]:
			cls[i] = "same"
		case a[i] == b[i]:
			cls[i] = "NEITHER"
		case r[i] == a[i]:
			cls[i] = "before-Y"
		case r[i] == b[i]:
			cls[i] = "after-Y"
		default:
			cls[i] = "NEITHER"
		}
		cnt[cls[i]]++
	}
	emit("conclin info mix k=%d atoms-that-do-not-depend-on-Y=%d as-before-Y=%d as-after-Y=%d as-neither=%d", k, cnt["same"], cnt["before-Y"], cnt["after-Y"], cnt["NEITHER"])
	// the first three atoms of every run of equal class (atoms that do not depend on Y skipped)
	lines, prev, inRun := 0, "", 0
	for i := 0; i < n && lines < 60; i++ {
		if cls[i] == "same" {
			continue
		}
		if cls[i] != prev {
			prev, inRun = cls[i], 0
		}
		if inRun++; inRun <= 3 {
			lb, first := "", "then-atom"
			if i < len(x.labels) {
				lb = " " + x.labels[i]
			}
			if inRun == 1 {
				first = "from-atom"
			}
			emit("conclin info mix k=%d %s #%d%s answer=%s before-Y=%s after-Y=%s : %s", k, first, i, lb, r[i], a[i], b[i], cls[i])
			lines++
		}
	}
}

// rdScenario: see the file comment.
func rdScenario(g *Gen, rw *rdWorld, x rdop, y linop, nK int) {
	if concHung {
		return
	}
	base := rw.w.a
	u.VerifHook = nil
	emit("session conclinrd %s %s %s", x.name, y.name, rw.cfg)
	tw := rdClone(base, 0)
	bs, _ := tw.dump()
	emit("conclin info base %s live=%d cachedLive=%d", bs, rw.nLive, rw.nCache)
	emit("conclin info X %s", x.desc)
	emit("conclin info Y %s", y.desc)
	c0 := atomic.LoadInt64(&tw.h.count)
	pre := seqRd(x, tw.m)
	K := int(atomic.LoadInt64(&tw.h.count) - c0)
	yalone, postY, post := seqOp(y, tw.m), "hang", "skipped"
	if !concHung {
		postY, _ = tw.dump()
		post = seqRd(x, tw.m)
	}
	ks := sampleKrd(g, K, nK)
	emit("conclin info K %d sampled %s", K, ints(ks))
	if concHung {
		emit("conclin rd %s %s %s %d 0 %d - 0 blocked skipped %s hang %s skipped %s %s", x.name, y.name, rw.cfg, base.NumLeaves, K, yalone, postY, pre, post)
		return
	}
	for _, k := range ks {
		in := rdClone(base, k)
		xdone, ydone := make(chan string, 1), make(chan string, 1)
		go func() { xdone <- safeRd(x, in.m) }()
		parked, xres, yres, ysched := 0, "", "", "blocked"
		select {
		case <-in.h.parked:
			parked = 1
		case xres = <-xdone:
		case <-time.After(concWatchdog):
			xres, concHung = "hang", true
		}
		if parked == 0 {
			close(in.h.release) // X returned before its k-th access: Y simply runs after X
		}
		if !concHung {
			go func() { ydone <- safeOp(y, in.m) }()
			if parked == 1 {
				select {
				case yres = <-ydone:
					ysched = "early"
				case <-time.After(linWindow):
				}
				close(in.h.release)
				select {
				case xres = <-xdone:
				case <-time.After(concWatchdog):
					xres, concHung = "hang", true
				}
			}
			if yres == "" {
				select {
				case yres = <-ydone:
				case <-time.After(concWatchdog):
					yres, concHung = "hang", true
				}
			}
		} else {
			yres = "skipped"
		}
		site, final := "-", "hang"
		if parked == 1 {
			site = in.h.site
		}
		if !concHung {
			final, _ = in.dump()
			if xres != pre && xres != post {
				emitMix(x, k, xres, pre, post)
			}
		}
		emit("conclin rd %s %s %s %d %d %d %s %d %s %s %s %s %s %s %s %s", x.name, y.name, rw.cfg, base.NumLeaves, k, K, site, parked, ysched,
			yres, yalone, final, postY, xres, pre, post)
		if concHung {
			return
		}
	}
}

func famConcLinRd(g *Gen, tier string, shard, nshards int) {
	limit := 5 * time.Minute
	if tier == "thorough" {
		limit = 30 * time.Minute
	}
	runtime.GOMAXPROCS(4)
	time.AfterFunc(limit, func() {
		fmt.Fprintln(os.Stderr, "harness: conclinrd: global watchdog expired (a call never returned: deadlock?)")
		os.Exit(3)
	})
	rounds, nK := 2, 12
	if tier == "thorough" {
		rounds, nK = 8, 18
		linWindow = 40 * time.Millisecond
	}
	cfgs := []cconfig{{true, 63}, {false, 63}, {false, 0}, {true, 0}, {false, 50}, {true, 12}}
	for r := 0; r < rounds; r++ {
		for i, cfg := range cfgs {
			if (r*len(cfgs)+i)%nshards != shard {
				continue
			}
			// leaves ever added: 300..600, every fourth world 130..300
			target := 300 + g.Intn(301)
			if r%2 == 1 && i%2 == 0 {
				target = 130 + g.Intn(170)
			}
			var rw *rdWorld
			for tries := 0; rw == nil && tries < 10; tries++ {
				rw = newRdWorld(g, cfg, target)
			}
			if rw == nil {
				die("conclinrd: could not build a world with enough cached leaves")
			}
			for _, x := range rw.xs {
				for _, y := range rw.ys {
					rdScenario(g, rw, x, y, nK)
				}
			}
			if concHung {
				return
			}
		}
	}
}
