package main

import (
	u "github.com/utreexo/utreexo"
)

func init() {
	families["verify"] = famVerify
	families["verifyexh"] = famVerifyExh
}

// buildState makes a forest with nLeaves, then deletes a random subset in one block.
func buildState(g *Gen, rows []uint8, nLeaves int, delMode int) *Sim {
	s := newSim(g, rows)
	s.applyBlock(nil, nLeaves)
	if delMode > 0 {
		s.applyBlock(s.pickDeletions(delMode), 0)
	}
	return s
}

// nodeAlphabet: every stored node hash (by position) of the prover, plus roots.
func (s *Sim) nodeAlphabet() (hashes []u.Hash, positions []uint64) {
	rows := u.TreeRows(s.numLeaves())
	for p := uint64(0); p < uint64(2)<<rows; p++ {
		h := s.prover.GetHash(p)
		if h != (u.Hash{}) {
			hashes = append(hashes, h)
			positions = append(positions, p)
		}
	}
	return
}

// stumpUpdateProbe runs Stump.Update on a copy of the stump with untrusted input and emits
// the line that lets the model replay it (C04: totality and atomic rejection).
func (s *Sim) stumpUpdateProbe(hashes []u.Hash, targets []uint64, proofHashes []u.Hash, adds []u.Hash) {
	st := u.Stump{Roots: copyHashes(s.stump.Roots), NumLeaves: s.stump.NumLeaves}
	before := u.Stump{Roots: copyHashes(s.stump.Roots), NumLeaves: s.stump.NumLeaves}
	var ud u.UpdateData
	var err error
	r := guard(watchdog, func() {
		ud, err = st.Update(copyHashes(hashes), copyHashes(adds), u.Proof{Targets: copyU64(targets), Proof: copyHashes(proofHashes)})
	})
	emitStumpUpdate(before, hashes, adds, u.Proof{Targets: targets, Proof: proofHashes}, r, err, ud, st)
}

// famVerifyExh: small alphabet over small forests: every target list of size <= k over all
// positions in [0, 2^(rows+1)+2], hashes from {node hashes, zero, fresh}, proofs of length
// <= 2 over {node hashes, zero, fresh}.
func famVerifyExh(g *Gen, tier string, shard, nshards int) {
	maxLeaves := 4
	budget := 25000 // sampled cases per shard when the space is larger
	if tier == "thorough" {
		maxLeaves = 6
		budget = 400000
	}
	c := 0
	for n := 1; n <= maxLeaves; n++ {
		for delMode := 0; delMode <= 7; delMode++ {
			c++
			if c%nshards != shard {
				continue
			}
			s := buildState(g, [][]uint8{{63}, {0}, {3}}[c%3], n, delMode)
			s.obsRoots()
			nodeH, _ := s.nodeAlphabet()
			alpha := append(append([]u.Hash{}, nodeH...), u.Hash{}, g.leafHash())
			rows := u.TreeRows(s.numLeaves())
			nPos := uint64(2)<<rows + 3
			// size 1: fully exhaustive with proofs of length 0..2
			proofs := [][]u.Hash{{}}
			for _, a := range alpha {
				proofs = append(proofs, []u.Hash{a})
			}
			for _, a := range alpha {
				for _, b := range alpha {
					proofs = append(proofs, []u.Hash{a, b})
				}
			}
			for t := uint64(0); t < nPos; t++ {
				for _, h := range alpha {
					for _, pr := range proofs {
						if len(proofs)*len(alpha)*int(nPos) > budget && g.Intn(len(proofs)*len(alpha)*int(nPos)/budget+1) != 0 {
							continue
						}
						s.obsVerify([]u.Hash{h}, []uint64{t}, pr)
					}
				}
			}
			// size 2 (and 3): sampled uniformly from the product space
			for k := 0; k < budget/3; k++ {
				sz := 2 + g.Intn(2)
				ts := make([]uint64, sz)
				hs := make([]u.Hash, sz)
				for i := range ts {
					ts[i] = uint64(g.Intn(int(nPos)))
					hs[i] = alpha[g.Intn(len(alpha))]
				}
				pr := proofs[g.Intn(len(proofs))]
				s.obsVerify(hs, ts, pr)
				if k%7 == 0 {
					s.stumpUpdateProbe(hs, ts, pr, g.leafHashes(g.Intn(3)))
				}
			}
		}
	}
}

// famVerify: structured mutations of honest proofs on larger forests, boundary targets,
// length mismatches, oversized proofs (C03, C04).
func famVerify(g *Gen, tier string, shard, nshards int) {
	nStates, perState, maxLeaves := 10, 250, 40
	if tier == "thorough" {
		nStates, perState, maxLeaves = 40, 1500, 500
	}
	for st := 0; st < nStates; st++ {
		s := newSim(g, pickRows(g))
		// one state in five is a forest of many trees (9 or more roots, rows >= 9); the honest
		// proofs that are mutated there are half of the time proofs of leaves at the right edge
		// (the small trees with the high tree indexes).  A few of them have 12..16 roots.
		manyTrees := st%5 == 4
		if manyTrees {
			k := shard*nStates/5 + st/5
			n := manyTreeCount(k)
			if k%4 == 1 {
				n = hugeTreeCount(k / 4)
			}
			if k%8 == 7 {
				n = giantTreeCount(k / 8)
			}
			s.growTo(n)
			for b := 0; b < 1+g.Intn(3); b++ {
				style := manyTreeStyle(g)
				if b == 0 && k%3 == 0 {
					style = 2 // a leaf that has climbed many rows is among the targets below
				}
				s.applyBlock(manyTreeDeletions(g, s.alive, style), manyTreeAdds(g))
			}
		} else {
			s.applyBlock(nil, 1+g.Intn(maxLeaves))
			for b := 0; b < g.Intn(4); b++ {
				s.applyBlock(s.pickDeletions(1+g.Intn(7)), g.Intn(5))
			}
		}
		s.obsRoots()
		live := s.liveHashes()
		nodeH, nodeP := s.nodeAlphabet()
		if len(nodeH) == 0 {
			nodeH, nodeP = []u.Hash{g.leafHash()}, []uint64{0}
		}
		rows := u.TreeRows(s.numLeaves())
		n := s.numLeaves()
		for k := 0; k < perState; k++ {
			var hs []u.Hash
			var ts []uint64
			var pr []u.Hash
			if len(live) > 0 {
				from := live
				if manyTrees && len(live) > 24 && g.Intn(2) == 0 {
					from = live[len(live)-24:]
				}
				sz := 1 + g.Intn(min(len(from), 6))
				if manyTrees && len(from) > 500 {
					// (a permutation of a big forest per case is what costs here)
					for len(hs) < sz {
						h := from[g.Intn(len(from))]
						dup := false
						for _, x := range hs {
							dup = dup || x == h
						}
						if !dup {
							hs = append(hs, h)
						}
					}
				} else {
					p := g.Perm(len(from))[:sz]
					for _, j := range p {
						hs = append(hs, from[j])
					}
				}
				proof, err := s.prover.Prove(copyHashes(hs))
				if err != nil {
					die("prove: %v", err)
				}
				ts, pr = proof.Targets, proof.Proof
			}
			if k%10 == 0 {
				// the honest proof itself: must be accepted by every verifier
				s.obsVerify(hs, ts, pr)
				continue
			}
			nMut := 1 + g.Intn(2)
			for m := 0; m < nMut; m++ {
				mut := g.Intn(16)
				if len(ts) != len(hs) && mut != 5 && mut != 6 && mut != 7 && mut != 8 && mut != 11 && mut != 13 {
					continue
				}
				switch mut {
				case 0: // target +-1
					if len(ts) > 0 {
						i := g.Intn(len(ts))
						ts[i] += uint64(g.Intn(3)) - 1
					}
				case 1: // target to an arbitrary node position
					if len(ts) > 0 && len(nodeP) > 0 {
						ts[g.Intn(len(ts))] = nodeP[g.Intn(len(nodeP))]
					}
				case 2: // duplicate a target (with its hash)
					if len(ts) > 0 {
						i := g.Intn(len(ts))
						ts = append(ts, ts[i])
						hs = append(hs, hs[i])
					}
				case 3: // nested target: an ancestor with its true hash
					if len(ts) > 0 {
						p := u.Parent(ts[g.Intn(len(ts))], rows)
						for j := range nodeP {
							if nodeP[j] == p {
								ts = append(ts, p)
								hs = append(hs, nodeH[j])
							}
						}
					}
				case 4: // out of forest / boundary targets
					if len(ts) > 0 {
						cands := []uint64{n, n + 1, uint64(2)<<rows - 2, uint64(2)<<rows - 1, uint64(2) << rows,
							uint64(2)<<rows + 1, ^uint64(0), ^uint64(0) - 1, 1 << 63, 1<<63 + ts[0], g.boundaryU64()}
						ts[g.Intn(len(ts))] = cands[g.Intn(len(cands))]
					}
				case 5: // drop a proof hash
					if len(pr) > 0 {
						i := g.Intn(len(pr))
						pr = append(append([]u.Hash{}, pr[:i]...), pr[i+1:]...)
					}
				case 6: // add proof hashes
					for j := 0; j <= g.Intn(3); j++ {
						pr = append(pr, nodeH[g.Intn(len(nodeH))])
					}
				case 7: // zero proof hash
					if len(pr) > 0 {
						pr[g.Intn(len(pr))] = u.Hash{}
					} else {
						pr = append(pr, u.Hash{})
					}
				case 8: // proof hash replaced by a root / node / fresh value
					if len(pr) > 0 {
						alt := []u.Hash{nodeH[g.Intn(len(nodeH))], g.leafHash(), s.stump.Roots[g.Intn(len(s.stump.Roots))]}
						pr[g.Intn(len(pr))] = alt[g.Intn(3)]
					}
				case 9: // claimed hash replaced
					if len(hs) > 0 {
						alt := []u.Hash{nodeH[g.Intn(len(nodeH))], g.leafHash(), s.stump.Roots[g.Intn(len(s.stump.Roots))], {}}
						hs[g.Intn(len(hs))] = alt[g.Intn(4)]
					}
				case 10: // hashes permuted against targets
					if len(hs) > 1 {
						i, j := g.Intn(len(hs)), g.Intn(len(hs))
						hs[i], hs[j] = hs[j], hs[i]
					}
				case 11: // length mismatch
					if g.Intn(2) == 0 && len(hs) > 0 {
						hs = hs[:len(hs)-1]
					} else {
						hs = append(hs, g.leafHash())
					}
				case 12: // claim a node at its own position (true claim about an internal node)
					if len(nodeP) > 0 {
						j := g.Intn(len(nodeP))
						ts = append(ts, nodeP[j])
						hs = append(hs, nodeH[j])
					}
				case 13: // everything empty
					hs, ts, pr = nil, nil, nil
				case 14: // pairs permuted consistently (still honest)
					if len(hs) > 1 {
						i, j := g.Intn(len(hs)), g.Intn(len(hs))
						hs[i], hs[j] = hs[j], hs[i]
						ts[i], ts[j] = ts[j], ts[i]
					}
				default: // claim a wrong tree's root at a root position
					rp := u.RootPositions(n, rows)
					if len(rp) > 1 {
						i, j := g.Intn(len(rp)), g.Intn(len(rp))
						ts = append(ts, rp[i])
						hs = append(hs, s.stump.Roots[j])
					}
				}
			}
			s.obsVerify(hs, ts, pr)
			if k%5 == 0 {
				s.stumpUpdateProbe(hs, ts, pr, g.leafHashes(g.Intn(3)))
			}
		}
	}
}
