package main

// Families `partial` and `partialexh` (property C09): partial (non-full) MapPollards — started
// empty with NewMapPollard(false) under several TotalRows settings, or from bare roots with
// NewMapPollardFromRoots in the middle of a history — are driven through interleavings of
// Modify (random Remember flags), Verify(remember=true), Ingest, Prune, Undo and
// VerifyPartialProof, next to a full Pollard that serves as the reference prover.
//
// After EVERY operation the instance is dumped through the exported ForEach methods:
//
//	pm <label> <op> <args…> <result>                       one line per operation
//	pd <label> <numLeaves> <totalRows> <cached> <nodes>    one dump line
//	    cached = hash:pos,…  (sorted by hash)   nodes = pos:hash:remember,… (sorted by pos)
//
// and `Prove` is asked for random subsets of the set the instance is expected to cache.
// The harness judges nothing: it only reports what the Go code did.  The expected cached
// set kept here (`K`) is used ONLY to choose operations (what has to be verified before a
// deletion, what can be pruned); the driver keeps its own copy and evaluates the oracle.

import (
	"fmt"
	"sort"
	"strings"
	"time"

	u "github.com/utreexo/utreexo"
)

// pWatchdog: generous, so that a machine under heavy load does not produce false "hang"s (a
// real non-terminating call is still reported).
var pWatchdog = 30 * time.Second

func init() {
	families["partial"] = famPartial
	families["partialexh"] = famPartialExh
}

type pInst struct {
	label string
	mp    *u.MapPollard
	full  bool
	K     map[u.Hash]bool // bookkeeping of the expected cached set (operation choice only)
	depth int             // blocks applied since creation (what Undo can take back)
	dead  bool            // a call panicked / hung: the instance is abandoned
}

type pBlock struct {
	delHashes []u.Hash
	proof     u.Proof
	adds      []u.Hash
	prevRoots []u.Hash
	delIdx    []int
}

// pSim: reference prover + the partial instances of one session.
type pSim struct {
	g      *Gen
	prover *u.Pollard
	slots  []u.Hash
	alive  []bool
	hist   []pBlock
	insts  []*pInst
	nLabel int
	// junk: probability (percent) that a Verify(remember) call carries trailing junk hashes
	junkPct int
	// edgeBias (many-tree forests): half of the leaf sets of randomOp are drawn from the last
	// 24 live leaves (the small trees at the right edge)
	edgeBias bool
}

func newPSim(g *Gen) *pSim {
	p := u.NewAccumulator()
	emit("new")
	return &pSim{g: g, prover: &p}
}

func (s *pSim) numLeaves() uint64 { return uint64(len(s.slots)) }

func (s *pSim) live() []u.Hash {
	var r []u.Hash
	for i, a := range s.alive {
		if a {
			r = append(r, s.slots[i])
		}
	}
	return r
}

func (s *pSim) liveIdx() []int {
	var r []int
	for i, a := range s.alive {
		if a {
			r = append(r, i)
		}
	}
	return r
}

func (s *pSim) prove(hs []u.Hash) u.Proof {
	p, err := s.prover.Prove(copyHashes(hs))
	if err != nil {
		die("reference prover failed: %v", err)
	}
	return p
}

// ---------- dumping ----------

func (in *pInst) dump() {
	m := in.mp
	type ce struct {
		h string
		p uint64
	}
	var cs []ce
	var nodes []string
	type ne struct {
		p uint64
		s string
	}
	var ns []ne
	r := guard(pWatchdog, func() {
		m.CachedLeaves.ForEach(func(h u.Hash, p uint64) error {
			cs = append(cs, ce{hx(h), p})
			return nil
		})
		m.Nodes.ForEach(func(p uint64, l u.Leaf) error {
			ns = append(ns, ne{p, fmt.Sprintf("%d:%s:%s", p, hx(l.Hash), b01(l.Remember))})
			return nil
		})
	})
	if r != "ok" {
		emit("pd %s %s", in.label, r)
		in.dead = true
		return
	}
	sort.Slice(cs, func(i, j int) bool { return cs[i].h < cs[j].h })
	sort.Slice(ns, func(i, j int) bool { return ns[i].p < ns[j].p })
	cstr := make([]string, len(cs))
	for i, c := range cs {
		cstr[i] = fmt.Sprintf("%s:%d", c.h, c.p)
	}
	for _, n := range ns {
		nodes = append(nodes, n.s)
	}
	c, n := "-", "-"
	if len(cstr) > 0 {
		c = strings.Join(cstr, ",")
	}
	if len(nodes) > 0 {
		n = strings.Join(nodes, ",")
	}
	emit("pd %s %d %d %s %s", in.label, m.NumLeaves, m.TotalRows, c, n)
}

func resOf(r string, err error) string {
	if r != "ok" {
		return r
	}
	if err != nil {
		return "err"
	}
	return "ok"
}

func (in *pInst) after(res string) {
	if res == "panic" || res == "hang" {
		in.dead = true
		return
	}
	in.dump()
}

// ---------- instance creation ----------

func (s *pSim) addInst(in *pInst) *pInst {
	s.insts = append(s.insts, in)
	return in
}

func (s *pSim) label(prefix string) string {
	s.nLabel++
	return fmt.Sprintf("%s%d", prefix, s.nLabel)
}

// newEmpty: NewMapPollard(full) with TotalRows set to rows.  Only legal at the empty forest.
func (s *pSim) newEmpty(rows uint8, full bool) *pInst {
	m := u.NewMapPollard(full)
	m.TotalRows = rows
	in := &pInst{label: s.label("E"), mp: &m, full: full, K: map[u.Hash]bool{}}
	emit("pm %s new %d %s", in.label, rows, b01(full))
	in.dump()
	return s.addInst(in)
}

// fromRoots: NewMapPollardFromRoots at the prover's current state (TotalRows 63).
func (s *pSim) fromRoots() *pInst {
	roots := s.prover.GetRoots()
	n := s.prover.GetNumLeaves()
	m := u.NewMapPollardFromRoots(copyHashes(roots), n, false)
	in := &pInst{label: s.label("R"), mp: &m, K: map[u.Hash]bool{}}
	emit("pm %s fromroots %d %s", in.label, n, hxs(roots))
	in.dump()
	return s.addInst(in)
}

// fromRootsRows: what NewMapPollardFromRoots does, for another TotalRows setting (the fields
// are exported; NewMapPollardFromRoots itself always allocates 63 rows).
func (s *pSim) fromRootsRows(rows uint8) *pInst {
	roots := s.prover.GetRoots()
	n := s.prover.GetNumLeaves()
	if rows < u.TreeRows(n) {
		rows = u.TreeRows(n)
	}
	m := u.NewMapPollard(false)
	m.TotalRows = rows
	m.NumLeaves = n
	for i, p := range u.RootPositions(n, rows) {
		m.Nodes.Put(p, u.Leaf{Hash: roots[i]})
	}
	in := &pInst{label: s.label("Q"), mp: &m, K: map[u.Hash]bool{}}
	emit("pm %s fromrootsrows %d %d %s", in.label, rows, n, hxs(roots))
	in.dump()
	return s.addInst(in)
}

// ---------- operations on one instance ----------

func (in *pInst) cachedList() []u.Hash {
	r := make([]u.Hash, 0, len(in.K))
	for h := range in.K {
		r = append(r, h)
	}
	sort.Slice(r, func(i, j int) bool { return hx(r[i]) < hx(r[j]) })
	return r
}

func (s *pSim) junkHashes() []u.Hash {
	g := s.g
	k := 1 + g.Intn(3)
	var r []u.Hash
	for i := 0; i < k; i++ {
		switch g.Intn(3) {
		case 0:
			r = append(r, g.leafHash())
		case 1:
			roots := s.prover.GetRoots()
			if len(roots) > 0 {
				r = append(r, roots[g.Intn(len(roots))])
			} else {
				r = append(r, g.leafHash())
			}
		default:
			l := s.live()
			if len(l) > 0 {
				r = append(r, l[g.Intn(len(l))])
			} else {
				r = append(r, g.leafHash())
			}
		}
	}
	return r
}

// opVerify: Verify(hashes, proof, remember) of live leaves with the reference prover's proof.
func (s *pSim) opVerify(in *pInst, hs []u.Hash, remember bool, junk bool) {
	p := s.prove(hs)
	tag := "verify"
	if junk {
		p.Proof = append(p.Proof, s.junkHashes()...)
		tag = "verifyjunk"
	}
	var err error
	r := guard(pWatchdog, func() {
		err = in.mp.Verify(copyHashes(hs), u.Proof{Targets: copyU64(p.Targets), Proof: copyHashes(p.Proof)}, remember)
	})
	res := resOf(r, err)
	emit("pm %s %s %s %s %s %s %s", in.label, tag, hxs(hs), us(p.Targets), hxs(p.Proof), b01(remember), res)
	if res == "ok" && remember {
		for _, h := range hs {
			in.K[h] = true
		}
	}
	in.after(res)
}

func (s *pSim) opIngest(in *pInst, hs []u.Hash) {
	p := s.prove(hs)
	var err error
	r := guard(pWatchdog, func() {
		err = in.mp.Ingest(copyHashes(hs), u.Proof{Targets: copyU64(p.Targets), Proof: copyHashes(p.Proof)})
	})
	res := resOf(r, err)
	emit("pm %s ingest %s %s %s %s", in.label, hxs(hs), us(p.Targets), hxs(p.Proof), res)
	if res == "ok" {
		for _, h := range hs {
			in.K[h] = true
		}
	}
	in.after(res)
}

func (s *pSim) opPrune(in *pInst, hs []u.Hash) {
	var err error
	r := guard(pWatchdog, func() { err = in.mp.Prune(copyHashes(hs)) })
	res := resOf(r, err)
	emit("pm %s prune %s %s", in.label, hxs(hs), res)
	if res == "ok" && !in.full {
		for _, h := range hs {
			delete(in.K, h)
		}
	}
	in.after(res)
}

func (s *pSim) opProve(in *pInst, hs []u.Hash) {
	var p u.Proof
	var err error
	r := guard(pWatchdog, func() { p, err = in.mp.Prove(copyHashes(hs)) })
	res := resOf(r, err)
	if res == "ok" {
		emit("pm %s prove %s ok %s %s", in.label, hxs(hs), us(p.Targets), hxs(p.Proof))
	} else {
		emit("pm %s prove %s %s", in.label, hxs(hs), res)
		if res != "err" {
			in.dead = true
		}
	}
}

// opPartial: GetMissingPositions for the targets, then VerifyPartialProof with exactly the
// missing hashes taken from the reference prover's proof.
func (s *pSim) opPartial(in *pInst, hs []u.Hash, remember bool) {
	p := s.prove(hs)
	n := s.numLeaves()
	var missing []uint64
	r := guard(pWatchdog, func() { missing = in.mp.GetMissingPositions(copyU64(p.Targets)) })
	if r != "ok" {
		emit("pm %s missing %s %s", in.label, us(p.Targets), r)
		in.dead = true
		return
	}
	emit("pm %s missing %s ok %s", in.label, us(p.Targets), us(missing))
	sorted := copyU64(p.Targets)
	sort.Slice(sorted, func(i, j int) bool { return sorted[i] < sorted[j] })
	pp, _ := u.ProofPositions(sorted, n, u.TreeRows(n))
	miss := map[uint64]bool{}
	for _, x := range missing {
		miss[x] = true
	}
	var part []u.Hash
	if len(pp) == len(p.Proof) {
		for i, pos := range pp {
			if miss[pos] {
				part = append(part, p.Proof[i])
			}
		}
	}
	var err error
	r = guard(pWatchdog, func() {
		err = in.mp.VerifyPartialProof(copyU64(p.Targets), copyHashes(hs), copyHashes(part), remember)
	})
	res := resOf(r, err)
	emit("pm %s vpartial %s %s %s %s %s", in.label, us(p.Targets), hxs(hs), hxs(part), b01(remember), res)
	if res == "ok" && remember {
		for _, h := range hs {
			in.K[h] = true
		}
	}
	in.after(res)
}

// opQueries: GetRoots, GetHash of a few positions, GetLeafPosition of a few hashes.
func (s *pSim) opQueries(in *pInst, all bool) {
	g := s.g
	var roots []u.Hash
	if r := guard(pWatchdog, func() { roots = in.mp.GetRoots() }); r != "ok" {
		emit("pm %s roots %s", in.label, r)
		in.dead = true
		return
	}
	emit("pm %s roots %s", in.label, hxs(roots))
	n := s.numLeaves()
	rows := u.TreeRows(n)
	maxPos := uint64(2)<<rows - 1
	var ps []uint64
	if all {
		for p := uint64(0); p < maxPos; p++ {
			ps = append(ps, p)
		}
	} else {
		for i := 0; i < 6; i++ {
			ps = append(ps, uint64(g.Int63n(int64(maxPos)+1)))
		}
	}
	for _, p := range ps {
		var h u.Hash
		if r := guard(pWatchdog, func() { h = in.mp.GetHash(p) }); r != "ok" {
			emit("pm %s gethash %d %s", in.label, p, r)
			in.dead = true
			return
		}
		emit("pm %s gethash %d %s", in.label, p, hx(h))
	}
	var hs []u.Hash
	if all {
		hs = append(hs, s.slots...)
	} else {
		for i := 0; i < 5 && len(s.slots) > 0; i++ {
			hs = append(hs, s.slots[g.Intn(len(s.slots))])
		}
	}
	hs = append(hs, g.leafHash(), u.Hash{})
	hs = append(hs, roots...)
	for _, h := range hs {
		var pos uint64
		var ok bool
		if r := guard(pWatchdog, func() { pos, ok = in.mp.GetLeafPosition(h) }); r != "ok" {
			emit("pm %s getpos %s %s", in.label, hx(h), r)
			in.dead = true
			return
		}
		if ok {
			emit("pm %s getpos %s %d", in.label, hx(h), pos)
		} else {
			emit("pm %s getpos %s none", in.label, hx(h))
		}
	}
}

func pPickSubset(g *Gen, xs []u.Hash, k int) []u.Hash {
	if k > len(xs) {
		k = len(xs)
	}
	p := g.Perm(len(xs))[:k]
	r := make([]u.Hash, k)
	for i, j := range p {
		r[i] = xs[j]
	}
	return r
}

// proveSome: Prove of random subsets of the expected cached set (part of every dump step).
func (s *pSim) proveSome(in *pInst, k int) {
	if in.dead {
		return
	}
	c := in.cachedList()
	if len(c) == 0 {
		return
	}
	for i := 0; i < k; i++ {
		n := 1 + s.g.Intn(len(c))
		if i == 0 && len(c) > 3 {
			n = 1 + s.g.Intn(3)
		}
		s.opProve(in, pPickSubset(s.g, c, n))
	}
}

// randomOp: one random operation between blocks.
func (s *pSim) randomOp(in *pInst) {
	if in.dead {
		return
	}
	g := s.g
	live := s.live()
	c := in.cachedList()
	pickLive := func() []u.Hash {
		if len(live) == 0 {
			return nil
		}
		live := live
		if s.edgeBias && len(live) > 24 && g.Intn(2) == 0 {
			live = live[len(live)-24:]
		}
		n := 1 + g.Intn(len(live))
		if g.Intn(3) != 0 && len(live) > 4 {
			n = 1 + g.Intn(4)
		}
		return pPickSubset(g, live, n)
	}
	switch x := g.Intn(100); {
	case x < 28:
		if hs := pickLive(); hs != nil {
			s.opVerify(in, hs, true, g.Intn(100) < s.junkPct)
		}
	case x < 42:
		if hs := pickLive(); hs != nil {
			s.opIngest(in, hs)
		}
	case x < 70:
		if len(c) > 0 {
			n := 1 + g.Intn(len(c))
			if g.Intn(2) == 0 && len(c) > 3 {
				n = 1 + g.Intn(3)
			}
			hs := pPickSubset(g, c, n)
			if g.Intn(6) == 0 { // a hash that is not cached: Prune skips it
				if g.Intn(2) == 0 || len(live) == 0 {
					hs = append(hs, g.leafHash())
				} else {
					hs = append(hs, live[g.Intn(len(live))])
				}
				g.Shuffle(len(hs), func(a, b int) { hs[a], hs[b] = hs[b], hs[a] })
			}
			s.opPrune(in, hs)
		}
	case x < 84:
		if hs := pickLive(); hs != nil {
			s.opPartial(in, hs, g.Intn(3) != 0)
		}
	case x < 90:
		if hs := pickLive(); hs != nil {
			s.opVerify(in, hs, false, false)
		}
	case x < 95:
		// Prove of a set that is not entirely cached must be refused
		if hs := pickLive(); hs != nil {
			s.opProve(in, hs)
		}
	default:
		s.opQueries(in, false)
	}
	s.proveSome(in, 1)
}

// ---------- blocks ----------

// pickDels: deletion modes as in sim.go.
func (s *pSim) pickDels(mode int) []int {
	live := s.liveIdx()
	if len(live) == 0 {
		return nil
	}
	g := s.g
	switch mode {
	case 0:
		return nil
	case 1:
		return sample(g, live, 1+g.Intn(3))
	case 2:
		return sample(g, live, (len(live)+1)/2)
	case 3:
		k := len(live) - 1 - g.Intn(2)
		if k < 1 {
			k = 1
		}
		return sample(g, live, k)
	case 4:
		return live
	case 5: // whole trees
		n := s.numLeaves()
		var r []int
		lo := 0
		for h := 63; h >= 0; h-- {
			if (n>>uint(h))&1 == 1 {
				hi := lo + (1 << uint(h))
				if g.Intn(2) == 0 {
					for i := lo; i < hi; i++ {
						if s.alive[i] {
							r = append(r, i)
						}
					}
				}
				lo = hi
			}
		}
		return r
	case 6: // sibling pairs
		var r []int
		for i := 0; i+1 < len(s.alive); i += 2 {
			if s.alive[i] && s.alive[i+1] && g.Intn(3) == 0 {
				r = append(r, i, i+1)
			}
		}
		return r
	default:
		a := g.Intn(len(live))
		b := a + 1 + g.Intn(len(live)-a)
		return live[a:b]
	}
}

// block applies one block: every instance first verifies (remember=true) the deletions it
// does not cache, then Modify is called with per-instance Remember flags.
// flagsFor(in, i) decides the Remember flag of addition i on instance in.
func (s *pSim) block(delIdx []int, nAdds int, flagsFor func(in *pInst, i int) bool) {
	g := s.g
	delHashes := make([]u.Hash, len(delIdx))
	for i, j := range delIdx {
		delHashes[i] = s.slots[j]
	}
	g.Shuffle(len(delHashes), func(a, b int) { delHashes[a], delHashes[b] = delHashes[b], delHashes[a] })
	proof := s.prove(delHashes)
	// 1. make the deletions deletable on every partial instance
	for _, in := range s.insts {
		if in.dead || in.full {
			continue
		}
		var missing []u.Hash
		for _, h := range delHashes {
			if !in.K[h] {
				missing = append(missing, h)
			}
		}
		if len(missing) == 0 {
			continue
		}
		switch g.Intn(4) {
		case 0: // verify the whole deletion set
			s.opVerify(in, delHashes, true, g.Intn(100) < s.junkPct)
		case 1:
			s.opPartial(in, missing, true)
		default:
			s.opVerify(in, missing, true, g.Intn(100) < s.junkPct)
		}
		s.proveSome(in, 1)
	}
	addHashes := g.leafHashes(nAdds)
	prevRoots := s.prover.GetRoots()
	emit("block %s %s %s %s", hxs(delHashes), hxs(addHashes), us(proof.Targets), hxs(proof.Proof))
	// 2. the reference prover
	adds := make([]u.Leaf, nAdds)
	for i := range adds {
		adds[i] = u.Leaf{Hash: addHashes[i], Remember: true}
	}
	if err := s.prover.Modify(adds, copyHashes(delHashes), u.Proof{Targets: copyU64(proof.Targets), Proof: copyHashes(proof.Proof)}); err != nil {
		die("reference prover Modify failed: %v", err)
	}
	// 3. the instances
	for _, in := range s.insts {
		if in.dead {
			continue
		}
		ls := make([]u.Leaf, nAdds)
		flags := make([]uint64, nAdds)
		for i := range ls {
			f := flagsFor(in, i)
			ls[i] = u.Leaf{Hash: addHashes[i], Remember: f}
			if f {
				flags[i] = 1
			}
		}
		// Modify only reads proof.Targets; hand it the proof hashes too, as a caller would
		var err error
		r := guard(pWatchdog, func() {
			err = in.mp.Modify(ls, copyHashes(delHashes), u.Proof{Targets: copyU64(proof.Targets), Proof: copyHashes(proof.Proof)})
		})
		res := resOf(r, err)
		emit("pm %s modify %s %s %s %s %s %s", in.label, hxs(delHashes), us(proof.Targets), hxs(proof.Proof),
			hxs(addHashes), us(flags), res)
		if res == "ok" {
			for _, h := range delHashes {
				delete(in.K, h)
			}
			for i, h := range addHashes {
				if flags[i] == 1 || in.full {
					in.K[h] = true
				}
			}
			in.depth++
		}
		in.after(res)
	}
	for _, j := range delIdx {
		s.alive[j] = false
	}
	for _, h := range addHashes {
		s.slots = append(s.slots, h)
		s.alive = append(s.alive, true)
	}
	s.hist = append(s.hist, pBlock{delHashes: delHashes, proof: proof, adds: addHashes, prevRoots: prevRoots, delIdx: delIdx})
	for _, in := range s.insts {
		s.proveSome(in, 2)
	}
}

// undo takes back the newest block on the prover and on every instance that applied it;
// instances created after that block are dropped.
func (s *pSim) undo() {
	if len(s.hist) == 0 {
		return
	}
	b := s.hist[len(s.hist)-1]
	s.hist = s.hist[:len(s.hist)-1]
	emit("undo")
	if err := s.prover.Undo(uint64(len(b.adds)), u.Proof{Targets: copyU64(b.proof.Targets), Proof: copyHashes(b.proof.Proof)},
		copyHashes(b.delHashes), copyHashes(b.prevRoots)); err != nil {
		die("reference prover Undo failed: %v", err)
	}
	n := len(s.slots) - len(b.adds)
	s.slots = s.slots[:n]
	s.alive = s.alive[:n]
	for _, j := range b.delIdx {
		s.alive[j] = true
	}
	var keep []*pInst
	for _, in := range s.insts {
		if in.dead {
			continue
		}
		if in.depth == 0 {
			emit("pm %s drop", in.label)
			continue
		}
		keep = append(keep, in)
		var err error
		r := guard(pWatchdog, func() {
			err = in.mp.Undo(uint64(len(b.adds)), u.Proof{Targets: copyU64(b.proof.Targets), Proof: copyHashes(b.proof.Proof)},
				copyHashes(b.delHashes), copyHashes(b.prevRoots))
		})
		res := resOf(r, err)
		emit("pm %s undo %d %s %s %s %s %s", in.label, len(b.adds), us(b.proof.Targets), hxs(b.proof.Proof),
			hxs(b.delHashes), hxs(b.prevRoots), res)
		if res == "ok" {
			for _, h := range b.adds {
				delete(in.K, h)
			}
			for _, h := range b.delHashes {
				in.K[h] = true
			}
			in.depth--
		}
		in.after(res)
	}
	s.insts = keep
	for _, in := range s.insts {
		s.proveSome(in, 2)
	}
}

// ---------- the random family ----------

var partialRowSets = [][]uint8{{0, 63}, {3, 63}, {0, 5}, {1, 63}, {63}, {0}, {4, 50}}

func famPartial(g *Gen, tier string, shard, nshards int) {
	nHist, maxBlocks, maxAdds := 8, 12, 8
	if tier == "thorough" {
		nHist, maxBlocks, maxAdds = 30, 40, 24
	}
	for h := 0; h < nHist; h++ {
		s := newPSim(g)
		// shards with an odd number also feed Verify(remember) proofs with trailing junk hashes
		if (shard+h)%4 == 3 {
			s.junkPct = 25
		}
		for _, r := range partialRowSets[g.Intn(len(partialRowSets))] {
			s.newEmpty(r, false)
		}
		if g.Intn(3) == 0 {
			s.newEmpty([]uint8{0, 63, 4}[g.Intn(3)], true)
		}
		// one history in four lives in a forest of many trees (9 or more roots, rows >= 9)
		if h%4 == 3 {
			famPartialMany(s, shard*nHist/4+h/4, tier)
			continue
		}
		remProb := []int{10, 30, 50, 80}[g.Intn(4)]
		flags := func(in *pInst, i int) bool { return g.Intn(100) < remProb }
		nBlocks := 3 + g.Intn(maxBlocks)
		for b := 0; b < nBlocks; b++ {
			mode := g.Intn(8)
			nAdds := g.Intn(maxAdds + 1)
			switch g.Intn(6) {
			case 0:
				nAdds = 0
			case 1:
				nAdds = 1
			case 2: // cross the next power of two
				n := s.numLeaves()
				p := uint64(1)
				for p <= n {
					p <<= 1
				}
				nAdds = int(p-n) + g.Intn(2)
				if nAdds > 2*maxAdds {
					nAdds = maxAdds
				}
			}
			if b == 0 {
				mode = 0
				if nAdds == 0 {
					nAdds = 1 + g.Intn(maxAdds)
				}
			}
			if g.Intn(5) == 0 { // empty whole trees and overwrite the empty roots
				mode = 5
				nAdds = 1 + g.Intn(4)
			}
			s.block(s.pickDels(mode), nAdds, flags)
			// new instances from bare roots
			if s.numLeaves() > 0 && g.Intn(5) == 0 && len(s.insts) < 6 {
				if g.Intn(3) == 0 {
					s.fromRootsRows(u.TreeRows(s.numLeaves()) + uint8(g.Intn(3)))
				} else {
					s.fromRoots()
				}
			}
			// operations between blocks
			for _, in := range s.insts {
				k := g.Intn(4)
				for i := 0; i < k; i++ {
					s.randomOp(in)
				}
			}
			if g.Intn(4) == 0 {
				for _, in := range s.insts {
					if !in.dead {
						s.opQueries(in, s.numLeaves() <= 40)
					}
				}
			}
			// undo (and later redo on another branch)
			if len(s.hist) > 0 && g.Intn(5) == 0 {
				k := 1 + g.Intn(min(len(s.hist), 3))
				for i := 0; i < k; i++ {
					s.undo()
					if g.Intn(2) == 0 {
						for _, in := range s.insts {
							s.randomOp(in)
						}
					}
				}
			}
		}
	}
}

// ---------- the bounded-exhaustive family ----------

// famPartialExh: forests of n1 <= 4 (quick) / 5 (thorough) leaves added with EVERY Remember
// mask; then (a) every non-empty live subset is verified/ingested and every subset of the
// resulting cache is pruned, (b) every deletion subset with 0..2 additions under every Remember
// mask is applied and undone, with proofs of every cached subset after each step.
func famPartialExh(g *Gen, tier string, shard, nshards int) {
	maxN1 := 4
	if tier == "thorough" {
		maxN1 = 6
	}
	rowsCfg := []uint8{0, 63, 2, 3}
	caseNo := 0
	proveAll := func(s *pSim, in *pInst) {
		if in.dead {
			return
		}
		c := in.cachedList()
		if len(c) > 4 {
			s.proveSome(in, 3)
			return
		}
		for m := 1; m < 1<<uint(len(c)); m++ {
			var req []u.Hash
			for i := range c {
				if m>>uint(i)&1 == 1 {
					req = append(req, c[i])
				}
			}
			s.opProve(in, req)
		}
	}
	for n1 := 1; n1 <= maxN1; n1++ {
		for rm := 0; rm < 1<<uint(n1); rm++ {
			base := func() (*pSim, *pInst) {
				s := newPSim(g)
				rows := rowsCfg[caseNo%len(rowsCfg)]
				in := s.newEmpty(rows, false)
				s.block(nil, n1, func(_ *pInst, i int) bool { return rm>>uint(i)&1 == 1 })
				return s, in
			}
			// (a) verify / ingest / partial, then prune
			for vm := 1; vm < 1<<uint(n1); vm++ {
				caseNo++
				if caseNo%nshards != shard {
					continue
				}
				maxPm := 1 << uint(n1)
				for pm := 0; pm < maxPm; pm++ {
					s, in := base()
					var vs []u.Hash
					for i := 0; i < n1; i++ {
						if vm>>uint(i)&1 == 1 {
							vs = append(vs, s.slots[i])
						}
					}
					switch (vm + pm) % 4 {
					case 0:
						s.opVerify(in, vs, true, false)
					case 1:
						s.opIngest(in, vs)
					case 2:
						s.opPartial(in, vs, true)
					default: // an accepted proof with surplus hashes
						s.opVerify(in, vs, true, true)
					}
					proveAll(s, in)
					c := in.cachedList()
					var ps []u.Hash
					for i := range c {
						if pm>>uint(i)&1 == 1 {
							ps = append(ps, c[i])
						}
					}
					if pm >= 1<<uint(len(c)) {
						break
					}
					if len(ps) > 0 {
						s.opPrune(in, ps)
						proveAll(s, in)
					}
					if pm%4 == 1 {
						s.opQueries(in, true)
					}
				}
			}
			// (b) second block and its undo
			for dm := 0; dm < 1<<uint(n1); dm++ {
				for k2 := 0; k2 <= 2; k2++ {
					caseNo++
					if caseNo%nshards != shard {
						continue
					}
					for rm2 := 0; rm2 < 1<<uint(k2); rm2++ {
						s, in := base()
						var del []int
						for i := 0; i < n1; i++ {
							if dm>>uint(i)&1 == 1 {
								del = append(del, i)
							}
						}
						s.block(del, k2, func(_ *pInst, i int) bool { return rm2>>uint(i)&1 == 1 })
						proveAll(s, in)
						if (dm+k2+rm2)%3 == 0 {
							// a second instance from the bare roots joins here
							r := s.fromRoots()
							if l := s.live(); len(l) > 0 {
								s.opVerify(r, l[:1+((dm+rm2)%len(l))], true, false)
								proveAll(s, r)
							}
						}
						// a third block on top, then undo both
						if (dm+rm2)%2 == 0 {
							live := s.liveIdx()
							var d3 []int
							for i, j := range live {
								if (dm>>uint(i%3))&1 == 1 {
									d3 = append(d3, j)
								}
							}
							s.block(d3, 1+k2%2, func(_ *pInst, i int) bool { return (rm+i)%2 == 0 })
							proveAll(s, in)
							s.undo()
							proveAll(s, in)
						}
						s.undo()
						proveAll(s, in)
						if len(s.insts) > 0 && !in.dead && dm%2 == 0 {
							// prune everything after the undo
							s.opPrune(in, in.cachedList())
						}
					}
				}
			}
		}
	}
}

// famPartialMany: partial map forests in a many-tree forest.  The first block adds 509..2046
// leaves (thorough: also 4095 and 8190); an instance remembers a few leaves spread over the
// forest and most of the last 40 additions (the small trees at the right edge) — one history
// in four remembers a third of all leaves, so that CachedLeaves holds more than 255 entries.
// Then short blocks (deletions at the right edge, spread, all but one leaf of a big tree, whole
// small trees; few additions), random operations in between whose leaf sets are drawn from the
// right edge half of the time, instances started from the bare roots, undo.
func famPartialMany(s *pSim, k int, tier string) {
	g := s.g
	n := manyTreeCount(k)
	if tier == "thorough" && k%8 == 7 {
		n = []int{4095, 8190}[(k/8)%2] // 12 roots; the replay on the list-based model is slow beyond
	}
	s.edgeBias = true
	spread := 3
	if k%4 == 1 {
		spread = 33
	}
	hasFull := false
	for _, in := range s.insts {
		hasFull = hasFull || in.full
	}
	if (hasFull || spread > 3) && n > 1023 {
		// hundreds of cached leaves: every operation is replayed on the list-based model and
		// followed by a full dump, so these sessions stay at 10 trees / 1023 leaves
		n = []int{1023, 767, 1022, 511}[k%4]
	}
	total := 0
	flags := func(in *pInst, i int) bool {
		if total+i >= n-40 {
			return g.Intn(3) != 0
		}
		return g.Intn(100) < spread
	}
	for total < n {
		c := min(n-total, 2048)
		s.block(nil, c, flags)
		total += c
	}
	lateFlags := func(in *pInst, i int) bool { return g.Intn(2) == 0 }
	nBlocks := 3 + g.Intn(4)
	for b := 0; b < nBlocks; b++ {
		style := manyTreeStyle(g)
		if b == 0 && k%3 == 2 {
			style = 2
		}
		nAdds := manyTreeAdds(g)
		if style == 3 {
			nAdds = 1 + g.Intn(4) // additions overwrite the emptied roots
		}
		// (a partial forest first has to learn every leaf it deletes: the climbing deletions
		// take a tree of at most 256 leaves here)
		s.block(manyTreeDeletionsR(g, s.alive, style, 8), nAdds, lateFlags)
		if g.Intn(4) == 0 && len(s.insts) < 5 {
			if g.Intn(3) == 0 {
				s.fromRootsRows(u.TreeRows(s.numLeaves()) + uint8(g.Intn(3)))
			} else {
				s.fromRoots()
			}
		}
		for _, in := range s.insts {
			kk := g.Intn(4)
			for i := 0; i < kk; i++ {
				s.randomOp(in)
			}
		}
		if g.Intn(4) == 0 {
			for _, in := range s.insts {
				if !in.dead {
					s.opQueries(in, false)
				}
			}
		}
		if len(s.hist) > 1 && g.Intn(4) == 0 {
			kk := 1 + g.Intn(min(len(s.hist)-1, 2))
			for i := 0; i < kk; i++ {
				s.undo()
				if g.Intn(2) == 0 {
					for _, in := range s.insts {
						s.randomOp(in)
					}
				}
			}
		}
	}
}
