package main

// alias family, part 2: the light client (Proof.Update / Proof.Undo), AddProof, GetProofSubset
// and the family drivers.

import (
	u "github.com/utreexo/utreexo"
)

// clientUpdate: Proof.Update with caller-owned copies of everything, the UpdateData slices
// being the very slices Stump.Update returned when the layout is `raw`.
func (s *aliasSim) clientUpdate(b *aBlock) {
	if s.kit.tainted {
		return
	}
	c := s.client
	var rem []uint32
	for i := range b.addHashes {
		if s.g.Intn(3) == 0 {
			rem = append(rem, uint32(i))
		}
	}
	s.clientPermute()
	mode := b.mode
	var cached, addH, ndh, nah []u.Hash
	var bt, td, ndp, nap []uint64
	var rm []uint32
	wh := layoutArgs(mode, canaryHash, []argSpec[u.Hash]{{"cachedHashes", c.hashes, &cached}, {"addHashes", b.addHashes, &addH},
		{"ud.NewDelHash", b.ud.NewDelHash, &ndh}, {"ud.NewAddHash", b.ud.NewAddHash, &nah}})
	wu := layoutArgs(mode, canaryU64, []argSpec[uint64]{{"blockTargets", b.proof.Targets, &bt}, {"ud.ToDestroy", b.ud.ToDestroy, &td},
		{"ud.NewDelPos", b.ud.NewDelPos, &ndp}, {"ud.NewAddPos", b.ud.NewAddPos, &nap}})
	wr := layoutArgs(mode%layRaw, canaryU32, []argSpec[uint32]{{"remembers", rem, &rm}})
	recv := map[string]watch{"recv.Targets": watchResult(c.proof.Targets), "recv.Proof": watchResult(c.proof.Proof)}
	args := mergeWatches(wh, wu, wr, recv)
	udc := u.UpdateData{ToDestroy: td, PrevNumLeaves: b.ud.PrevNumLeaves, NewDelHash: ndh, NewDelPos: ndp, NewAddHash: nah, NewAddPos: nap}
	var out []u.Hash
	r := s.kit.call("Proof.Update", mode, args, []string{"recv.Targets", "recv.Proof", "cachedHashes", "addHashes", "blockTargets",
		"remembers", "ud.ToDestroy", "ud.NewDelHash", "ud.NewDelPos", "ud.NewAddHash", "ud.NewAddPos"}, func() error {
		var err error
		out, err = c.proof.Update(cached, addH, bt, rm, udc)
		return err
	})
	if r != "ok" {
		return
	}
	c.hashes = out
	keepSlice(s.kit, "Proof.Update.hashes", out)
	s.kit.keepProof("Proof.Update.recv", c.proof)
	dead := map[u.Hash]bool{}
	for _, h := range b.delHashes {
		dead[h] = true
	}
	var exp []u.Hash
	for _, h := range c.expect {
		if !dead[h] {
			exp = append(exp, h)
		}
	}
	for _, i := range rem {
		exp = append(exp, b.addHashes[i])
	}
	c.expect = exp
}

func (s *aliasSim) clientUndo(b *aBlock) {
	if s.kit.tainted {
		return
	}
	c := s.client
	s.clientPermute()
	mode := b.mode
	var cached, delH, bp []u.Hash
	var dels, td, bpt []uint64
	wh := layoutArgs(mode, canaryHash, []argSpec[u.Hash]{{"cachedHashes", c.hashes, &cached}, {"delHashes", b.delHashes, &delH},
		{"proof.Proof", b.proof.Proof, &bp}})
	wu := layoutArgs(mode, canaryU64, []argSpec[uint64]{{"toDestroy", b.ud.ToDestroy, &td}, {"proof.Targets", b.proof.Targets, &bpt}})
	// `dels` and `proof.Targets` are naturally the SAME slice (callers pass blockProof.Targets twice)
	dels = bpt
	recv := map[string]watch{"recv.Targets": watchResult(c.proof.Targets), "recv.Proof": watchResult(c.proof.Proof)}
	args := mergeWatches(wh, wu, recv)
	var out []u.Hash
	r := s.kit.call("Proof.Undo", mode, args, []string{"recv.Targets", "recv.Proof", "cachedHashes", "delHashes", "proof.Proof",
		"toDestroy", "proof.Targets"}, func() error {
		var err error
		out, err = c.proof.Undo(uint64(len(b.adds)), b.numAfter, dels, delH, cached, td, u.Proof{Targets: bpt, Proof: bp})
		return err
	})
	if r == "ok" {
		c.hashes = out
		keepSlice(s.kit, "Proof.Undo.hashes", out)
		s.kit.keepProof("Proof.Undo.recv", c.proof)
	}
	added := map[u.Hash]bool{}
	for _, a := range b.adds {
		added[a.Hash] = true
	}
	var exp []u.Hash
	for _, h := range c.expect {
		if !added[h] {
			exp = append(exp, h)
		}
	}
	c.expect = exp
}

// clientPermute: a cached proof is valid in any order of its (hash, target) pairs; present
// it unsorted half of the time so that an in-place sort of the receiver would show.
func (s *aliasSim) clientPermute() {
	c := s.client
	if len(c.hashes) != len(c.proof.Targets) || len(c.hashes) < 2 || s.g.Intn(2) == 0 {
		return
	}
	perm := s.g.Perm(len(c.hashes))
	hs := make([]u.Hash, len(perm))
	ts := make([]uint64, len(perm))
	for i, j := range perm {
		hs[i], ts[i] = c.hashes[j], c.proof.Targets[j]
	}
	c.hashes = hs
	c.proof = u.Proof{Targets: ts, Proof: c.proof.Proof}
}

// clientResync replaces the client's proof by the canonical one when it deviates (deviations
// of Proof.Update/Undo are C07/C08 matters, not C17's), so that the following calls run on a
// valid cached proof.  Called when the simulation state and the forests agree.
func (s *aliasSim) clientResync() {
	if s.kit.tainted {
		return
	}
	c := s.client
	// drop leaves that are no longer live (Undo does not re-cache, and redo may delete them)
	live := map[u.Hash]bool{}
	for i, a := range s.alive {
		if a {
			live[s.slots[i]] = true
		}
	}
	var exp []u.Hash
	for _, h := range c.expect {
		if live[h] {
			exp = append(exp, h)
		}
	}
	c.expect = exp
	var canon u.Proof
	if len(c.expect) > 0 {
		var err error
		if r := guard(aliasWatchdog, func() { canon, err = s.prover.Prove(privCopy(c.expect)) }); r != "ok" || err != nil {
			emit("aliasinfo call Pollard.Prove.resync err")
			s.kit.tainted = true
			return
		}
	}
	same := len(c.hashes) == len(c.expect) && len(c.proof.Proof) == len(canon.Proof) && len(c.proof.Targets) == len(c.hashes)
	if same {
		at := map[u.Hash]uint64{}
		for i, h := range c.expect {
			at[h] = canon.Targets[i]
		}
		for i, h := range c.hashes {
			if p, ok := at[h]; !ok || p != c.proof.Targets[i] {
				same = false
			}
		}
		for i := range canon.Proof {
			if canon.Proof[i] != c.proof.Proof[i] {
				same = false
			}
		}
	}
	if !same {
		c.hashes = privCopy(c.expect)
		c.proof = canon
		emit("aliasinfo resync client 1")
	}
}

// proofOps: AddProof and GetProofSubset on proofs of live-leaf subsets, including the same
// slice passed twice and results of one call used as inputs of the next.
func (s *aliasSim) proofOps(mode int) {
	if s.kit.tainted {
		return
	}
	live := s.liveIdx()
	if len(live) == 0 {
		return
	}
	g := s.g
	pick := func() []u.Hash {
		from := live
		if s.edgeBias && len(live) > 24 && g.Intn(2) == 0 {
			from = live[len(live)-24:]
		}
		k := 1 + g.Intn(min(len(from), 5))
		var r []u.Hash
		for _, j := range g.Perm(len(from))[:k] {
			r = append(r, s.slots[from[j]])
		}
		return r
	}
	ha, hb := pick(), pick()
	pa, pb := s.prove(ha, g.Intn(layRaw)), s.prove(hb, g.Intn(layRaw))
	if s.kit.tainted {
		return
	}
	n := s.stump.NumLeaves
	sameTwice := g.Intn(4) == 0
	if sameTwice {
		hb, pb = ha, pa
	}
	var hA, hB, ppA, ppB []u.Hash
	var tA, tB []uint64
	wh := layoutArgs(mode, canaryHash, []argSpec[u.Hash]{{"targetHashesA", ha, &hA}, {"proofA.Proof", pa.Proof, &ppA},
		{"targetHashesB", hb, &hB}, {"proofB.Proof", pb.Proof, &ppB}})
	wu := layoutArgs(mode, canaryU64, []argSpec[uint64]{{"proofA.Targets", pa.Targets, &tA}, {"proofB.Targets", pb.Targets, &tB}})
	if sameTwice { // literally the same slices as both arguments
		hB, ppB, tB = hA, ppA, tA
		wh["targetHashesB"], wh["proofB.Proof"], wu["proofB.Targets"] = wh["targetHashesA"], wh["proofA.Proof"], wu["proofA.Targets"]
	}
	args := mergeWatches(wh, wu)
	var hc []u.Hash
	var pc u.Proof
	r := s.kit.call("AddProof", mode, args, []string{"proofA.Targets", "proofA.Proof", "proofB.Targets", "proofB.Proof", "targetHashesA", "targetHashesB"},
		func() error {
			hc, pc = u.AddProof(u.Proof{Targets: tA, Proof: ppA}, u.Proof{Targets: tB, Proof: ppB}, hA, hB, n)
			return nil
		})
	emit("aliasinfo sametwice AddProof %s", b01(sameTwice))
	if r != "ok" {
		return
	}
	keepSlice(s.kit, "AddProof.hashes", hc)
	s.kit.keepProof("AddProof", pc)
	// the combined proof must verify (checked by the driver against the model and the spec)
	s.obsVerifyRaw(hc, pc)

	// GetProofSubset on the combined proof (sorted targets) or on a prover's proof (targets in
	// request order, i.e. unsorted): results of earlier calls used as inputs as they are (raw)
	// or re-laid out; wants = a permuted subset, or the proof's own Targets slice
	if g.Intn(2) == 0 {
		hc, pc = ha, pa
	}
	var wants []uint64
	wantsIsTargets := g.Intn(4) == 0
	if !wantsIsTargets {
		k := 1 + g.Intn(len(pc.Targets))
		for _, j := range g.Perm(len(pc.Targets))[:k] {
			wants = append(wants, pc.Targets[j])
		}
	}
	m2 := mode
	if g.Intn(3) == 0 {
		m2 = layRaw
	}
	var gh, gp []u.Hash
	var gt, gw []uint64
	wh2 := layoutArgs(m2, canaryHash, []argSpec[u.Hash]{{"hashes", hc, &gh}, {"proof.Proof", pc.Proof, &gp}})
	var wu2 map[string]watch
	order := []string{"proof.Targets", "proof.Proof", "hashes", "wants"}
	if wantsIsTargets {
		wu2 = layoutArgs(m2, canaryU64, []argSpec[uint64]{{"proof.Targets", pc.Targets, &gt}})
		gw = gt
		wu2["wants"] = wu2["proof.Targets"]
	} else {
		wu2 = layoutArgs(m2, canaryU64, []argSpec[uint64]{{"proof.Targets", pc.Targets, &gt}, {"wants", wants, &gw}})
	}
	var sh []u.Hash
	var sp u.Proof
	r = s.kit.call("GetProofSubset", m2, mergeWatches(wh2, wu2), order, func() error {
		var err error
		sh, sp, err = u.GetProofSubset(u.Proof{Targets: gt, Proof: gp}, gh, gw, n)
		return err
	})
	emit("aliasinfo sametwice GetProofSubset %s", b01(wantsIsTargets))
	if r != "ok" {
		return
	}
	keepSlice(s.kit, "GetProofSubset.hashes", sh)
	s.kit.keepProof("GetProofSubset", sp)
	s.obsVerifyRaw(sh, sp)
}

// obsVerifyRaw hands results of earlier calls to Verify as they are.
func (s *aliasSim) obsVerifyRaw(hashes []u.Hash, p u.Proof) {
	if s.kit.tainted {
		return
	}
	args := map[string]watch{"delHashes": watchResult(hashes), "proof.Targets": watchResult(p.Targets), "proof.Proof": watchResult(p.Proof),
		"stump.Roots": watchResult(s.stump.Roots)}
	var idx []int
	r := s.kit.call("Verify", layRaw, args, []string{"stump.Roots", "delHashes", "proof.Targets", "proof.Proof"}, func() error {
		var err error
		idx, err = u.Verify(s.stump, hashes, p)
		return err
	})
	res := r
	if r == "ok" {
		res = "ok " + ints(idx)
	}
	emit("obs stump verify %s %s %s %s", hxs(hashes), us(p.Targets), hxs(p.Proof), res)
}

// oneBlock: the whole sequence for one block.
func (s *aliasSim) oneBlock(delIdx []int, nAdds int, mode int) {
	if s.kit.tainted {
		return
	}
	b := s.makeBlock(delIdx, nAdds, mode)
	s.partialProofs(b)
	s.verifyAll(b)
	s.apply(b)
	s.clientResync()
}

// undoRedo undoes k blocks and re-applies them with the very same block data.
func (s *aliasSim) undoRedo(k int, redo bool) {
	var undone []*aBlock
	for i := 0; i < k && len(s.hist) > 0 && !s.kit.tainted; i++ {
		if b := s.undoLast(); b != nil {
			undone = append(undone, b)
		}
	}
	s.clientResync()
	if !redo {
		return
	}
	for i := len(undone) - 1; i >= 0 && !s.kit.tainted; i-- {
		b := undone[i]
		s.verifyAll(b)
		s.apply(b)
		s.clientResync()
	}
}

func (s *aliasSim) pickDeletions(mode int) []int {
	// reuse Sim's deletion modes
	tmp := &Sim{g: s.g, slots: s.slots, alive: s.alive}
	return tmp.pickDeletions(mode)
}

var aliasRows = []uint8{63, 0, 50, 3, 1}

// famAlias: structured random histories.
func famAlias(g *Gen, tier string, shard, nshards int) {
	nHist, maxBlocks, maxAdds := 30, 12, 10
	if tier == "thorough" {
		nHist, maxBlocks, maxAdds = 150, 40, 32
	}
	for h := 0; h < nHist; h++ {
		s := newAliasSim(g, aliasRows[(h+shard)%len(aliasRows)])
		// one history in six lives in a forest of many trees (9 or more roots, rows >= 9):
		// slices of a thousand elements, proofs over 9..11 rows, deletions at the right edge,
		// spread over the forest, and of a big tree but one leaf; undo and re-apply of the same
		// block data objects
		if h%6 == 5 {
			famAliasMany(s, shard*nHist/6+h/6, h+shard, tier)
			continue
		}
		nBlocks := 3 + g.Intn(maxBlocks)
		for b := 0; b < nBlocks; b++ {
			dm := []int{1, 1, 1, 1, 1, 1, 2, 2, 2, 6, 6, 6, 7, 7, 7, 5, 5, 3, 4, 0}[g.Intn(20)]
			nAdds := 0
			switch g.Intn(4) {
			case 0:
				nAdds = 1
			case 1:
				nAdds = g.Intn(4)
			default:
				nAdds = g.Intn(maxAdds + 1)
			}
			if b == 0 {
				dm, nAdds = 0, 1+g.Intn(maxAdds*2)
			} else if len(s.liveIdx()) < 5 {
				nAdds += 3 + g.Intn(5)
			}
			mode := (h + b + shard) % nLayouts
			s.oneBlock(s.pickDeletions(dm), nAdds, mode)
			s.proofOps(g.Intn(nLayouts - 1))
			if len(s.hist) > 0 && g.Intn(4) == 0 {
				s.undoRedo(1+g.Intn(min(len(s.hist), 3)), g.Intn(3) != 0)
			}
			if s.kit.tainted {
				emit("aliasinfo abandoned session 1")
				break
			}
		}
	}
}

// famAliasExh: bounded-exhaustive small cases: block 1 adds n1 leaves, block 2 deletes every
// subset and adds 0..2, in every layout; then undo both, re-apply both, undo again.
func famAliasExh(g *Gen, tier string, shard, nshards int) {
	maxN1 := 5
	if tier == "thorough" {
		maxN1 = 7
	}
	caseNo := 0
	for n1 := 1; n1 <= maxN1; n1++ {
		for mask := 0; mask < 1<<uint(n1); mask++ {
			for k2 := 0; k2 <= 2; k2++ {
				for mode := 0; mode < nLayouts; mode++ {
					caseNo++
					if caseNo%nshards != shard {
						continue
					}
					s := newAliasSim(g, aliasRows[caseNo%len(aliasRows)])
					s.oneBlock(nil, n1, mode)
					var del []int
					for i := 0; i < n1; i++ {
						if mask>>uint(i)&1 == 1 {
							del = append(del, i)
						}
					}
					s.oneBlock(del, k2, mode)
					s.proofOps(mode % (nLayouts - 1))
					s.undoRedo(2, true)
					s.undoRedo(1, false)
					if s.kit.tainted {
						emit("aliasinfo abandoned session 1")
					}
				}
			}
		}
	}
}

// famAliasMany: one short history in a many-tree forest (see famAlias).
func famAliasMany(s *aliasSim, k int, layoutBase int, tier string) {
	g := s.g
	n := manyTreeCount(k)
	if tier == "thorough" && k%8 == 7 {
		n = hugeTreeCount(k / 8)
	}
	s.edgeBias = true
	for len(s.slots) < n && !s.kit.tainted {
		s.oneBlock(nil, min(n-len(s.slots), 2048), layoutBase%nLayouts)
	}
	nBlocks := 3 + g.Intn(3)
	for b := 0; b < nBlocks && !s.kit.tainted; b++ {
		style := manyTreeStyleHeavy(g)
		if b == 0 && k%3 == 0 {
			style = 2
		}
		mode := (layoutBase + b + 1) % nLayouts
		s.oneBlock(manyTreeDeletions(g, s.alive, style), manyTreeAdds(g), mode)
		s.proofOps(g.Intn(nLayouts - 1))
		if len(s.hist) > 1 && g.Intn(3) == 0 {
			s.undoRedo(1+g.Intn(min(len(s.hist)-1, 2)), g.Intn(3) != 0)
		}
	}
	if s.kit.tainted {
		emit("aliasinfo abandoned session 1")
	}
}
