package main

// Family `alias` (C17): along honest block histories every API of the C17 set is called with
// caller-owned slices (spare capacity filled with canaries, adversarially aliased layouts,
// earlier results used as inputs, NO defensive copies); every argument's whole backing array
// is compared before/after the call and every result returned earlier is re-compared after
// every later call.  The same block data objects are verified, applied to Stump, Pollard and
// MapPollard (full/partial) one after the other, undone and re-applied.

import (
	"fmt"
	"sort"

	u "github.com/utreexo/utreexo"
)

func init() {
	families["alias"] = famAlias
	families["aliasexh"] = famAliasExh
}

type aInst struct {
	label   string
	api     string // "Pollard" or "MapPollard"
	acc     u.Utreexo
	mp      *u.MapPollard
	partial bool
}

// aBlock is the data of one block as the caller owns it (the very same slices are used for
// every call that concerns the block, including undo and re-apply).
type aBlock struct {
	mode      int
	delIdx    []int
	adds      []u.Leaf
	addHashes []u.Hash
	delHashes []u.Hash
	proof     u.Proof
	w         map[string]watch    // watches of the block data
	prevRoots map[string][]u.Hash // per instance: GetRoots() before the block (an earlier result)
	prevStump u.Stump             // private deep copy (harness bookkeeping)
	ud        u.UpdateData
	numAfter  uint64
}

type aClient struct {
	proof  u.Proof
	hashes []u.Hash
	expect []u.Hash
}

type aliasSim struct {
	g      *Gen
	kit    *aliasKit
	insts  []*aInst
	prover *u.Pollard
	stump  u.Stump
	slots  []u.Hash
	alive  []bool
	hist   []*aBlock
	client *aClient
	// edgeBias (many-tree forests): half of the proof requests of proofOps are drawn from the
	// last 24 live leaves (the small trees at the right edge)
	edgeBias bool
}

func newAliasSim(g *Gen, rows uint8) *aliasSim {
	s := &aliasSim{g: g, kit: &aliasKit{}, client: &aClient{}}
	p := u.NewAccumulator()
	s.prover = &p
	s.insts = append(s.insts, &aInst{label: "pollard", api: "Pollard", acc: &p})
	mf := newMap(true, rows)
	s.insts = append(s.insts, &aInst{label: fmt.Sprintf("map:F:%d", rows), api: "MapPollard", acc: mf, mp: mf})
	mpart := newMap(false, rows)
	s.insts = append(s.insts, &aInst{label: fmt.Sprintf("map:P:%d", rows), api: "MapPollard", acc: mpart, mp: mpart, partial: true})
	emit("new")
	return s
}

func (s *aliasSim) numLeaves() uint64 { return uint64(len(s.slots)) }

func (s *aliasSim) liveIdx() []int {
	var r []int
	for i, a := range s.alive {
		if a {
			r = append(r, i)
		}
	}
	return r
}

func privCopy[T any](x []T) []T { return append([]T(nil), x...) }

// prove asks the pointer forest (the reference prover) and the full map forest for a proof of
// the requested hashes; the request slice is caller-owned.
func (s *aliasSim) prove(req []u.Hash, mode int) u.Proof {
	var proof u.Proof
	for i, in := range s.insts[:2] {
		var h []u.Hash
		w := layoutArgs(mode%layRaw, canaryHash, []argSpec[u.Hash]{{"hashes", req, &h}})
		var p u.Proof
		api := in.api + ".Prove"
		r := s.kit.call(api, mode%layRaw, w, []string{"hashes"}, func() error {
			var err error
			p, err = in.acc.Prove(h)
			return err
		})
		s.kit.keepProof(api, p)
		if r == "ok" {
			emit("obs %s prove %s ok %s %s", in.label, hxs(req), us(p.Targets), hxs(p.Proof))
		} else {
			emit("obs %s prove %s %s", in.label, hxs(req), r)
		}
		if i == 0 {
			proof = p
		}
	}
	return proof
}

// makeBlock builds the caller-owned block data in the given layout.
func (s *aliasSim) makeBlock(delIdx []int, nAdds int, mode int) *aBlock {
	b := &aBlock{mode: mode, delIdx: delIdx, prevRoots: map[string][]u.Hash{}}
	req := make([]u.Hash, len(delIdx))
	for i, j := range delIdx {
		req[i] = s.slots[j]
	}
	s.g.Shuffle(len(req), func(a, c int) { req[a], req[c] = req[c], req[a] })
	proof := s.prove(req, s.g.Intn(layRaw))
	addHashes := s.g.leafHashes(nAdds)
	adds := make([]u.Leaf, nAdds)
	for i := range adds {
		// the partial map forest forgets some leaves; it re-learns them from the block's
		// (partial) proof before it has to delete them
		adds[i] = u.Leaf{Hash: addHashes[i], Remember: s.g.Intn(3) != 0}
	}
	wh := layoutArgs(mode, canaryHash, []argSpec[u.Hash]{
		{"delHashes", req, &b.delHashes}, {"proof.Proof", proof.Proof, &b.proof.Proof}, {"addHashes", addHashes, &b.addHashes}})
	wt := layoutArgs(mode, canaryU64, []argSpec[uint64]{{"proof.Targets", proof.Targets, &b.proof.Targets}})
	wl := layoutArgs(mode, canaryLeaf, []argSpec[u.Leaf]{{"adds", adds, &b.adds}})
	b.w = mergeWatches(wh, wt, wl)
	// the block data is also watched as an "earlier result": a later call that is not handed
	// these slices must not change them either (no retained references)
	for _, name := range []string{"delHashes", "proof.Proof", "addHashes", "proof.Targets", "adds"} {
		w := b.w[name]
		switch x := w.(type) {
		case *watchT[u.Hash]:
			s.kit.keep("blockdata."+name, &watchT[u.Hash]{full: x.full, off: x.off, n: x.n, snap: privCopy(x.full)})
		case *watchT[uint64]:
			s.kit.keep("blockdata."+name, &watchT[uint64]{full: x.full, off: x.off, n: x.n, snap: privCopy(x.full)})
		case *watchT[u.Leaf]:
			s.kit.keep("blockdata."+name, &watchT[u.Leaf]{full: x.full, off: x.off, n: x.n, snap: privCopy(x.full)})
		}
	}
	return b
}

var blockArgs = []string{"delHashes", "proof.Targets", "proof.Proof"}

// verifyAll: stand-alone Verify and every forest's Verify (partial map: remember=true, i.e.
// ingest) on the same block data.
func (s *aliasSim) verifyAll(b *aBlock) {
	if s.kit.tainted {
		return
	}
	var roots []u.Hash
	wr := layoutArgs(b.mode%layRaw, canaryHash, []argSpec[u.Hash]{{"stump.Roots", s.stump.Roots, &roots}})
	args := mergeWatches(b.w, wr)
	var idx []int
	r := s.kit.call("Verify", b.mode, args, append([]string{"stump.Roots"}, blockArgs...), func() error {
		var err error
		idx, err = u.Verify(u.Stump{Roots: roots, NumLeaves: s.stump.NumLeaves}, b.delHashes, b.proof)
		return err
	})
	keepSlice(s.kit, "Verify.rootIndexes", idx)
	res := r
	if r == "ok" {
		res = "ok " + ints(idx)
	}
	emit("obs stump verify %s %s %s %s", hxs(b.delHashes), us(b.proof.Targets), hxs(b.proof.Proof), res)
	for _, in := range s.insts {
		in := in
		r := s.kit.call(in.api+".Verify", b.mode, b.w, blockArgs, func() error {
			return in.acc.Verify(b.delHashes, b.proof, in.partial)
		})
		emit("obs %s verify %s %s %s %s", in.label, hxs(b.delHashes), us(b.proof.Targets), hxs(b.proof.Proof), r)
	}
}

// partialProofs: MapPollard.GetMissingPositions and VerifyPartialProof on both map forests.
func (s *aliasSim) partialProofs(b *aBlock) {
	if s.kit.tainted {
		return
	}
	n := s.stump.NumLeaves
	sorted := privCopy(b.proof.Targets)
	sort.Slice(sorted, func(a, c int) bool { return sorted[a] < sorted[c] })
	var pp []uint64
	if guard(aliasWatchdog, func() { pp, _ = u.ProofPositions(sorted, n, u.TreeRows(n)) }) != "ok" {
		s.kit.tainted = true
		return
	}
	for _, in := range s.insts[1:] {
		in := in
		if s.kit.tainted {
			return
		}
		var missing []uint64
		s.kit.call("MapPollard.GetMissingPositions", b.mode, b.w, []string{"proof.Targets"}, func() error {
			missing = in.mp.GetMissingPositions(b.proof.Targets)
			return nil
		})
		keepSlice(s.kit, "MapPollard.GetMissingPositions", missing)
		miss := map[uint64]bool{}
		for _, m := range missing {
			miss[m] = true
		}
		var part []u.Hash
		for i, p := range pp {
			if miss[p] && i < len(b.proof.Proof) {
				part = append(part, b.proof.Proof[i])
			}
		}
		var ph []u.Hash
		wp := layoutArgs(b.mode%layRaw, canaryHash, []argSpec[u.Hash]{{"proofHashes", part, &ph}})
		args := mergeWatches(b.w, wp)
		s.kit.call("MapPollard.VerifyPartialProof", b.mode, args, []string{"proof.Targets", "delHashes", "proofHashes"}, func() error {
			return in.mp.VerifyPartialProof(b.proof.Targets, b.delHashes, ph, in.partial)
		})
		emit("aliasinfo partial %s %d %d", in.label, len(b.proof.Proof), len(part))
	}
}

// apply: Stump.Update, the light client's Proof.Update, then Modify on every forest, all with
// the same block data objects.
func (s *aliasSim) apply(b *aBlock) {
	if s.kit.tainted {
		return
	}
	for _, in := range s.insts {
		in := in
		var roots []u.Hash
		s.kit.call(in.api+".GetRoots", layRaw, map[string]watch{}, nil, func() error { roots = in.acc.GetRoots(); return nil })
		keepSlice(s.kit, in.api+".GetRoots", roots)
		b.prevRoots[in.label] = roots
	}
	b.prevStump = u.Stump{Roots: privCopy(s.stump.Roots), NumLeaves: s.stump.NumLeaves}
	before := u.Stump{Roots: privCopy(s.stump.Roots), NumLeaves: s.stump.NumLeaves}
	var ud u.UpdateData
	r := s.kit.call("Stump.Update", b.mode, b.w, []string{"delHashes", "addHashes", "proof.Targets", "proof.Proof"}, func() error {
		var err error
		ud, err = s.stump.Update(b.delHashes, b.addHashes, b.proof)
		return err
	})
	s.kit.keepUpdateData(ud)
	emit("block %s %s %s %s", hxs(b.delHashes), hxs(b.addHashes), us(b.proof.Targets), hxs(b.proof.Proof))
	var uerr error
	if r == "err" {
		uerr = fmt.Errorf("err")
		r = "ok"
	}
	emitStumpUpdate(before, b.delHashes, b.addHashes, b.proof, r, uerr, ud, s.stump)
	b.ud, b.numAfter = ud, s.stump.NumLeaves
	if s.kit.tainted {
		return
	}
	s.clientUpdate(b)

	for _, in := range s.insts {
		in := in
		if s.kit.tainted {
			return
		}
		r := s.kit.call(in.api+".Modify", b.mode, b.w, []string{"adds", "delHashes", "proof.Targets", "proof.Proof"}, func() error {
			return in.acc.Modify(b.adds, b.delHashes, b.proof)
		})
		if r != "ok" {
			emit("obs %s modifyfail %s", in.label, r)
		}
	}
	for _, j := range b.delIdx {
		s.alive[j] = false
	}
	for _, a := range b.adds {
		s.slots = append(s.slots, a.Hash)
		s.alive = append(s.alive, true)
	}
	s.hist = append(s.hist, b)
	s.obsRoots()
}

func (s *aliasSim) obsRoots() {
	emit("obs stump roots %d %s", s.stump.NumLeaves, hxs(s.stump.Roots))
	for _, in := range s.insts {
		var n uint64
		var roots []u.Hash
		r := guard(aliasWatchdog, func() { n = in.acc.GetNumLeaves(); roots = in.acc.GetRoots() })
		if r != "ok" {
			emit("obs %s roots %s", in.label, r)
			s.kit.tainted = true
			continue
		}
		emit("obs %s roots %d %s", in.label, n, hxs(roots))
	}
}

// undoLast undoes the newest block on every forest and on the light client with the very
// slices the block was applied with; prevRoots is the GetRoots() result kept from before.
func (s *aliasSim) undoLast() *aBlock {
	if s.kit.tainted {
		return nil
	}
	b := s.hist[len(s.hist)-1]
	s.hist = s.hist[:len(s.hist)-1]
	emit("undo")
	for _, in := range s.insts {
		in := in
		var prev []u.Hash
		wr := layoutArgs(layRaw, canaryHash, []argSpec[u.Hash]{{"prevRoots", b.prevRoots[in.label], &prev}})
		if b.mode != layRaw {
			wr = layoutArgs(b.mode, canaryHash, []argSpec[u.Hash]{{"prevRoots", b.prevRoots[in.label], &prev}})
		}
		args := mergeWatches(b.w, wr)
		nProof := len(b.proof.Proof)
		r := s.kit.call(in.api+".Undo", b.mode, args, []string{"proof.Targets", "proof.Proof", "delHashes", "prevRoots"}, func() error {
			return in.acc.Undo(uint64(len(b.adds)), b.proof, b.delHashes, prev)
		})
		if r != "ok" {
			emit("obs %s undofail %s", in.label, r)
		}
		if in.mp != nil {
			emit("aliasinfo undostore %s %d", in.label, nProof)
		}
		if s.kit.tainted {
			return nil
		}
	}
	s.clientUndo(b)
	s.stump = u.Stump{Roots: privCopy(b.prevStump.Roots), NumLeaves: b.prevStump.NumLeaves}
	n := len(s.slots) - len(b.adds)
	s.slots = s.slots[:n]
	s.alive = s.alive[:n]
	for _, j := range b.delIdx {
		s.alive[j] = true
	}
	s.obsRoots()
	return b
}
