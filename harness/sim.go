package main

import (
	"fmt"
	"math/bits"
	"sort"
	"strings"

	u "github.com/utreexo/utreexo"
)

// Inst is one accumulator implementation under test.
type Inst struct {
	label string
	acc   u.Utreexo
	mp    *u.MapPollard // non-nil for map forests
	pol   *u.Pollard    // non-nil for the pointer forest
}

// LightClient is what a C07/C08 light client holds besides the stump: a cached proof and
// the hashes of the leaves it proves.
type LightClient struct {
	proof  u.Proof
	hashes []u.Hash
	expect []u.Hash // the leaves it should hold (harness-side bookkeeping, used only to resync)
}

type blockRec struct {
	ud        u.UpdateData
	numAfter  uint64
	adds      []u.Leaf
	delHashes []u.Hash
	proof     u.Proof
	prevRoots []u.Hash
	prevStump u.Stump
}

// Sim drives all implementations through the same history.
type Sim struct {
	// ingestMode: partial map forests are not told to remember additions; instead every block's
	// deletions are first verified with remember=true in the block's own encoding (C05/C09)
	ingestMode bool
	lastDels   []u.Hash
	client     *LightClient // non-nil: maintain a cached proof along the history (C07/C08)
	// undoHashes/undoProof, when set before applyBlockData, are what Undo is later called
	// with for that block (the canonical encoding) instead of the encoding given to Modify
	undoHashes  []u.Hash
	undoProof   *u.Proof
	g           *Gen
	prover      *u.Pollard // the reference prover (also insts[0])
	insts       []*Inst
	stump       u.Stump
	slots       []u.Hash // every leaf ever added, by insertion slot
	alive       []bool
	hist        []blockRec
	allRemember bool
	// edgeBias (many-tree forests): half of the draws of pickPool come from the last 24 live
	// leaves, i.e. from the small trees at the right edge
	edgeBias bool
}

func newMap(full bool, rows uint8) *u.MapPollard {
	m := u.NewMapPollard(full)
	m.TotalRows = rows
	return &m
}

func newSim(g *Gen, mapRows []uint8) *Sim {
	s := &Sim{g: g, allRemember: true}
	p := u.NewAccumulator()
	s.prover = &p
	s.insts = append(s.insts, &Inst{label: "pollard", acc: &p, pol: &p})
	for _, r := range mapRows {
		mf := newMap(true, r)
		s.insts = append(s.insts, &Inst{label: fmt.Sprintf("map:F:%d", r), acc: mf, mp: mf})
		mpart := newMap(false, r)
		s.insts = append(s.insts, &Inst{label: fmt.Sprintf("map:P:%d", r), acc: mpart, mp: mpart})
	}
	emit("new")
	phNew()
	return s
}

func (s *Sim) numLeaves() uint64 { return uint64(len(s.slots)) }

func (s *Sim) liveIdx() []int {
	var r []int
	for i, a := range s.alive {
		if a {
			r = append(r, i)
		}
	}
	return r
}

func (s *Sim) liveHashes() []u.Hash {
	var r []u.Hash
	for i, a := range s.alive {
		if a {
			r = append(r, s.slots[i])
		}
	}
	return r
}

func (s *Sim) deadHashes() []u.Hash {
	var r []u.Hash
	for i, a := range s.alive {
		if !a {
			r = append(r, s.slots[i])
		}
	}
	return r
}

// treeRanges returns the slot ranges [lo,hi) of the trees, biggest first.
func (s *Sim) treeRanges() [][2]int {
	n := s.numLeaves()
	var r [][2]int
	lo := 0
	for h := 63; h >= 0; h-- {
		if (n>>uint(h))&1 == 1 {
			r = append(r, [2]int{lo, lo + (1 << uint(h))})
			lo += 1 << uint(h)
		}
	}
	return r
}

// pickDeletions chooses live slot indexes to delete according to a mode.
func (s *Sim) pickDeletions(mode int) []int {
	live := s.liveIdx()
	if len(live) == 0 {
		return nil
	}
	g := s.g
	switch mode {
	case 0: // none
		return nil
	case 1: // few
		k := 1 + g.Intn(3)
		return sample(g, live, k)
	case 2: // half
		return sample(g, live, (len(live)+1)/2)
	case 3: // almost all
		k := len(live) - 1 - g.Intn(2)
		if k < 1 {
			k = 1
		}
		return sample(g, live, k)
	case 4: // all
		return live
	case 5: // whole trees
		tr := s.treeRanges()
		var r []int
		for _, t := range tr {
			if g.Intn(2) == 0 {
				for i := t[0]; i < t[1]; i++ {
					if s.alive[i] {
						r = append(r, i)
					}
				}
			}
		}
		return r
	case 6: // sibling pairs (both slots of a pair alive)
		var r []int
		for i := 0; i+1 < len(s.alive); i += 2 {
			if s.alive[i] && s.alive[i+1] && g.Intn(3) == 0 {
				r = append(r, i, i+1)
			}
		}
		return r
	default: // a contiguous run
		a := g.Intn(len(live))
		b := a + 1 + g.Intn(len(live)-a)
		return live[a:b]
	}
}

func sample(g *Gen, xs []int, k int) []int {
	if k >= len(xs) {
		return append([]int(nil), xs...)
	}
	p := g.Perm(len(xs))[:k]
	sort.Ints(p)
	r := make([]int, k)
	for i, j := range p {
		r[i] = xs[j]
	}
	return r
}

// applyBlock deletes the given slots (with the reference prover's canonical proof) and adds
// nAdds fresh leaves, on every instance and on the stump, and emits the block line plus the
// per-implementation observations selected by obs.
func (s *Sim) applyBlock(delIdx []int, nAdds int) {
	delHashes := make([]u.Hash, len(delIdx))
	for i, j := range delIdx {
		delHashes[i] = s.slots[j]
	}
	// request order: shuffled, so that proofs are exercised in non-sorted order
	s.g.Shuffle(len(delHashes), func(a, b int) { delHashes[a], delHashes[b] = delHashes[b], delHashes[a] })
	proof, err := s.prover.Prove(delHashes)
	if err != nil {
		die("prover failed: %v", err)
	}
	addHashes := s.g.leafHashes(nAdds)
	adds := make([]u.Leaf, nAdds)
	for i := range adds {
		adds[i] = u.Leaf{Hash: addHashes[i], Remember: s.allRemember}
	}
	s.applyBlockData(delIdx, delHashes, proof, adds)
}

func (s *Sim) applyBlockData(delIdx []int, delHashes []u.Hash, proof u.Proof, adds []u.Leaf) {
	addHashes := make([]u.Hash, len(adds))
	for i := range adds {
		addHashes[i] = adds[i].Hash
	}
	rec := blockRec{adds: adds, delHashes: copyHashes(delHashes),
		proof:     u.Proof{Targets: copyU64(proof.Targets), Proof: copyHashes(proof.Proof)},
		prevRoots: copyHashes(s.stump.Roots),
		prevStump: u.Stump{Roots: copyHashes(s.stump.Roots), NumLeaves: s.stump.NumLeaves}}

	// the stump first: its line carries the pre-state, so the model can replay Update
	before := u.Stump{Roots: copyHashes(s.stump.Roots), NumLeaves: s.stump.NumLeaves}
	var ud u.UpdateData
	var uerr error
	res := guard(watchdog, func() {
		ud, uerr = s.stump.Update(copyHashes(delHashes), copyHashes(addHashes),
			u.Proof{Targets: copyU64(proof.Targets), Proof: copyHashes(proof.Proof)})
	})
	emit("block %s %s %s %s", hxs(delHashes), hxs(addHashes), us(proof.Targets), hxs(proof.Proof))
	emitStumpUpdate(before, delHashes, addHashes, proof, res, uerr, ud, s.stump)
	rec.ud, rec.numAfter = ud, s.stump.NumLeaves
	s.lastDels = delHashes
	if s.client != nil && res == "ok" && uerr == nil {
		s.clientUpdate(addHashes, proof.Targets, ud)
	}

	for _, in := range s.insts {
		p := u.Proof{Targets: copyU64(proof.Targets), Proof: copyHashes(proof.Proof)}
		var merr error
		myAdds := append([]u.Leaf(nil), adds...)
		if s.ingestMode && in.mp != nil && !in.mp.Full {
			for i := range myAdds {
				myAdds[i].Remember = false
			}
			if len(delHashes) > 0 {
				var verr error
				rv := guard(watchdog, func() {
					verr = in.mp.Verify(copyHashes(delHashes), u.Proof{Targets: copyU64(proof.Targets), Proof: copyHashes(proof.Proof)}, true)
				})
				if rv != "ok" || verr != nil {
					emit("obs %s modifyfail verify-remember-%s", in.label, rv)
				}
			}
		}
		r := guard(watchdog, func() { merr = in.acc.Modify(myAdds, copyHashes(delHashes), p) })
		if r != "ok" || merr != nil {
			emit("obs %s modifyfail %s", in.label, r)
		}
		s.phModify(in, myAdds, r, merr)
	}
	for _, j := range delIdx {
		s.alive[j] = false
	}
	for _, a := range adds {
		s.slots = append(s.slots, a.Hash)
		s.alive = append(s.alive, true)
	}
	if s.undoProof != nil {
		rec.delHashes = copyHashes(s.undoHashes)
		rec.proof = u.Proof{Targets: copyU64(s.undoProof.Targets), Proof: copyHashes(s.undoProof.Proof)}
		s.undoProof, s.undoHashes = nil, nil
	}
	s.hist = append(s.hist, rec)
}

func emitStumpUpdate(before u.Stump, delHashes, addHashes []u.Hash, proof u.Proof, res string, uerr error, ud u.UpdateData, after u.Stump) {
	head := fmt.Sprintf("stump %s %d update %s %s %s %s", hxs(before.Roots), before.NumLeaves,
		hxs(delHashes), hxs(addHashes), us(proof.Targets), hxs(proof.Proof))
	if res != "ok" {
		emit("%s %s", head, res)
		return
	}
	if uerr != nil {
		// after a rejected update the stump must be unchanged: report what it is now
		emit("%s err %s %d", head, hxs(after.Roots), after.NumLeaves)
		return
	}
	emit("%s ok %s %d %s %d %s %s %s %s", head, hxs(after.Roots), after.NumLeaves,
		us(ud.ToDestroy), ud.PrevNumLeaves, us(ud.NewDelPos), hxs(ud.NewDelHash),
		us(ud.NewAddPos), hxs(ud.NewAddHash))
}

// undoLast undoes the newest block on every forest.
func (s *Sim) undoLast() {
	if len(s.hist) == 0 {
		return
	}
	rec := s.hist[len(s.hist)-1]
	s.hist = s.hist[:len(s.hist)-1]
	emit("undo")
	for _, in := range s.insts {
		p := u.Proof{Targets: copyU64(rec.proof.Targets), Proof: copyHashes(rec.proof.Proof)}
		var uerr error
		r := guard(watchdog, func() {
			uerr = in.acc.Undo(uint64(len(rec.adds)), p, copyHashes(rec.delHashes), copyHashes(rec.prevRoots))
		})
		if r != "ok" || uerr != nil {
			emit("obs %s undofail %s", in.label, r)
		}
		s.phUndo(in, rec, r, uerr)
	}
	if s.client != nil {
		s.clientUndo(rec)
	}
	s.stump = rec.prevStump
	n := len(s.slots) - len(rec.adds)
	s.slots = s.slots[:n]
	s.alive = s.alive[:n]
	for _, h := range rec.delHashes {
		for i := range s.slots {
			if s.slots[i] == h {
				s.alive[i] = true
			}
		}
	}
}

// ---------- observations ----------

func (s *Sim) obsRoots() {
	emit("obs stump roots %d %s", s.stump.NumLeaves, hxs(s.stump.Roots))
	for _, in := range s.insts {
		var n uint64
		var roots []u.Hash
		r := guard(watchdog, func() { n = in.acc.GetNumLeaves(); roots = in.acc.GetRoots() })
		if r != "ok" {
			emit("obs %s roots %s", in.label, r)
			continue
		}
		emit("obs %s roots %d %s", in.label, n, hxs(roots))
		if in.mp != nil {
			// the verifier snapshot of the map forest must be the same whole-block state
			var st u.Stump
			if r := guard(watchdog, func() { st = in.mp.GetStump() }); r != "ok" {
				emit("obs %s roots %s", in.label, r)
			} else {
				emit("obs %s roots %d %s", in.label, st.NumLeaves, hxs(st.Roots))
			}
		}
	}
}

// obsLookups queries every leaf ever added (live and dead), extra hashes, and every position
// up to 2^(rows+1)+3.
func (s *Sim) obsLookups(extra []u.Hash) {
	rows := u.TreeRows(s.numLeaves())
	maxPos := uint64(2)<<rows + 3
	for _, in := range s.insts {
		hs := append(append([]u.Hash(nil), s.slots...), extra...)
		for _, h := range hs {
			var pos uint64
			var ok bool
			r := guard(watchdog, func() { pos, ok = in.acc.GetLeafPosition(h) })
			if r != "ok" {
				emit("obs %s pos %s %s", in.label, hx(h), r)
			} else if ok {
				emit("obs %s pos %s %d", in.label, hx(h), pos)
			} else {
				emit("obs %s pos %s none", in.label, hx(h))
			}
		}
		for p := uint64(0); p <= maxPos; p++ {
			var h u.Hash
			r := guard(watchdog, func() { h = in.acc.GetHash(p) })
			if r != "ok" {
				emit("obs %s hash %d %s", in.label, p, r)
			} else {
				emit("obs %s hash %d %s", in.label, p, hx(h))
			}
		}
		if in.pol != nil {
			emit("obs %s count %d %d", in.label, len(in.pol.NodeMap), in.pol.NumDels)
			s.obsPointerDump(in)
		}
		if in.mp != nil {
			emit("obs %s cachedcount %d", in.label, in.mp.CachedLeaves.Length())
			// the batch look-up of the map forest (0 = not found), in three orders: as listed
			// (insertion order, then the extra hashes), reversed, and rotated by a third
			if len(hs) > 96 {
				hs = hs[len(hs)-96:]
			}
			for variant := 0; variant < 3 && len(hs) > 0; variant++ {
				q := make([]u.Hash, len(hs))
				switch variant {
				case 0:
					copy(q, hs)
				case 1:
					for i := range hs {
						q[len(hs)-1-i] = hs[i]
					}
				default:
					k := len(hs) / 3
					copy(q, hs[k:])
					copy(q[len(hs)-k:], hs[:k])
				}
				var ps []uint64
				r := guard(watchdog, func() { ps = in.mp.GetLeafHashPositions(copyHashes(q)) })
				if r != "ok" {
					emit("obs %s posbatch %s %s", in.label, hxs(q), r)
				} else {
					emit("obs %s posbatch %s %s", in.label, hxs(q), us(ps))
				}
			}
		}
	}
}

// obsPointerDump dumps the pointer forest (every reachable node with the position implied by
// its place in the aunt/niece structure) and the NodeMap with calculatePosition of each entry.
func (s *Sim) obsPointerDump(in *Inst) {
	var nodes []u.VerifNode
	var mapped map[u.Hash]uint64
	r := guard(watchdog, func() { nodes, mapped, _ = in.pol.VerifDump() })
	if r != "ok" {
		emit("obs %s pdump %s", in.label, r)
		return
	}
	sort.Slice(nodes, func(a, b int) bool { return nodes[a].Pos < nodes[b].Pos })
	np := make([]string, len(nodes))
	for i, n := range nodes {
		np[i] = fmt.Sprintf("%d:%s:%s", n.Pos, hx(n.Hash), b01(n.Leaf))
	}
	type hp struct {
		h u.Hash
		p uint64
	}
	var ms []hp
	for h, p := range mapped {
		ms = append(ms, hp{h, p})
	}
	sort.Slice(ms, func(a, b int) bool { return ms[a].p < ms[b].p })
	mp := make([]string, len(ms))
	for i, m := range ms {
		mp[i] = fmt.Sprintf("%d:%s", m.p, hx(m.h))
	}
	j := func(x []string) string {
		if len(x) == 0 {
			return "-"
		}
		return strings.Join(x, ",")
	}
	emit("obs %s pdump %s %s", in.label, j(np), j(mp))
}

// internalHashes returns the hashes of internal nodes and roots as seen by the prover.
func (s *Sim) internalHashes() []u.Hash {
	var r []u.Hash
	rows := u.TreeRows(s.numLeaves())
	for p := s.numLeaves(); p < uint64(2)<<rows; p++ {
		h := s.prover.GetHash(p)
		if h != (u.Hash{}) && u.DetectRow(p, rows) > 0 {
			r = append(r, h)
		}
	}
	return r
}

func (s *Sim) obsProve(req []u.Hash) {
	// the reference prover's proof is also given to every verifier (C02: honest proofs are
	// accepted everywhere and the stand-alone verifier reports exactly the touched trees)
	if hp, err := s.prover.Prove(copyHashes(req)); err == nil {
		s.obsHonestVerify(req, hp)
	}
	for _, in := range s.insts {
		var p u.Proof
		var err error
		r := guard(watchdog, func() { p, err = in.acc.Prove(copyHashes(req)) })
		if r != "ok" {
			emit("obs %s prove %s %s", in.label, hxs(req), r)
		} else if err != nil {
			emit("obs %s prove %s err", in.label, hxs(req))
		} else {
			emit("obs %s prove %s ok %s %s", in.label, hxs(req), us(p.Targets), hxs(p.Proof))
		}
	}
}

// obsVerify feeds (hashes, targets, proof) to every verifier.
func (s *Sim) obsVerify(hashes []u.Hash, targets []uint64, proofHashes []u.Hash) {
	st := u.Stump{Roots: copyHashes(s.stump.Roots), NumLeaves: s.stump.NumLeaves}
	var idx []int
	var err error
	r := guard(watchdog, func() {
		idx, err = u.Verify(st, copyHashes(hashes), u.Proof{Targets: copyU64(targets), Proof: copyHashes(proofHashes)})
	})
	res := r
	if r == "ok" {
		if err != nil {
			res = "err"
		} else {
			res = "ok " + ints(idx)
		}
	}
	emit("obs stump verify %s %s %s %s", hxs(hashes), us(targets), hxs(proofHashes), res)
	for _, in := range s.insts {
		var verr error
		r := guard(watchdog, func() {
			verr = in.acc.Verify(copyHashes(hashes), u.Proof{Targets: copyU64(targets), Proof: copyHashes(proofHashes)}, false)
		})
		res := r
		if r == "ok" && verr != nil {
			res = "err"
		}
		emit("obs %s verify %s %s %s %s", in.label, hxs(hashes), us(targets), hxs(proofHashes), res)
		if res == "ok" && len(hashes) > 0 {
			// an accepted input is also verified with remember=true (the ingest path); it
			// must return the same verdict without panicking (C04)
			var rerr error
			rr := guard(watchdog, func() {
				rerr = in.acc.Verify(copyHashes(hashes), u.Proof{Targets: copyU64(targets), Proof: copyHashes(proofHashes)}, true)
			})
			if rr == "ok" && rerr != nil {
				rr = "err"
			}
			emit("obs %s rverify %s %s %s %s", in.label, hxs(hashes), us(targets), hxs(proofHashes), rr)
		}
		if in.mp != nil {
			// partial-proof verification with the same untrusted input (C03/C04)
			var perr error
			r := guard(watchdog, func() {
				perr = in.mp.VerifyPartialProof(copyU64(targets), copyHashes(hashes), copyHashes(proofHashes), false)
			})
			res := r
			if r == "ok" && perr != nil {
				res = "err"
			}
			emit("obs %s pverify %s %s %s %s", in.label, hxs(hashes), us(targets), hxs(proofHashes), res)
		}
	}
}

// obsHonestVerify feeds an honest (hashes, proof) to the stand-alone verifier and to every
// instance; lines are `obs <impl> hverify …` so that the driver applies the completeness
// oracle (must be accepted; exact tree list for the stand-alone verifier).
func (s *Sim) obsHonestVerify(hashes []u.Hash, proof u.Proof) {
	st := u.Stump{Roots: copyHashes(s.stump.Roots), NumLeaves: s.stump.NumLeaves}
	var idx []int
	var err error
	r := guard(watchdog, func() {
		idx, err = u.Verify(st, copyHashes(hashes), u.Proof{Targets: copyU64(proof.Targets), Proof: copyHashes(proof.Proof)})
	})
	res := r
	if r == "ok" {
		if err != nil {
			res = "err"
		} else {
			res = "ok " + ints(idx)
		}
	}
	emit("obs stump hverify %s %s %s %s", hxs(hashes), us(proof.Targets), hxs(proof.Proof), res)
	for _, in := range s.insts {
		var verr error
		r := guard(watchdog, func() {
			verr = in.acc.Verify(copyHashes(hashes), u.Proof{Targets: copyU64(proof.Targets), Proof: copyHashes(proof.Proof)}, false)
		})
		res := r
		if r == "ok" && verr != nil {
			res = "err"
		}
		emit("obs %s hverify %s %s %s %s", in.label, hxs(hashes), us(proof.Targets), hxs(proof.Proof), res)
	}
}

func popcount(n uint64) int { return bits.OnesCount64(n) }
