package main

// Shared generators for "many-tree" forests: forests with 9 or more roots (rows >= 9), so that
// tree indexes beyond 7, rows beyond 8 and counts beyond 255 are reached in every family.  A
// uint8 bitmask indexed by the tree index, a row cursor limited to 8 rows, a count truncated
// to 8 bits: all of these are invisible in the small forests the families otherwise use.
//
// Every family takes its leaf counts from manyTreeCount (a deterministic cycle, so that the
// listed counts are all reached within a few histories whatever the seed is) and its
// right-edge / climbing deletion sets from the helpers below.

import (
	"sort"

	u "github.com/utreexo/utreexo"
)

// manyCounts: leaf counts with 8..10 one-bits (= trees), rows 9..11.
// 509 and 1021 become 511 and 1023 after two additions (the counts keep their one-bits when
// a history adds nothing; a few additions change the low trees only).
var manyCounts = []int{1022, 511, 1023, 767, 2046, 1021, 1535, 509, 2045, 1019}

// hugeCounts: 12..13 trees; giantCounts: 15..16 trees (for the families whose cost allows).
var hugeCounts = []int{8190, 4095, 16382, 8191}
var giantCounts = []int{32767, 65534, 65535}

// manyTreeCount returns the k-th leaf count of the cycle.
func manyTreeCount(k int) int {
	if k < 0 {
		k = -k
	}
	return manyCounts[k%len(manyCounts)]
}

func hugeTreeCount(k int) int {
	if k < 0 {
		k = -k
	}
	return hugeCounts[k%len(hugeCounts)]
}

func giantTreeCount(k int) int {
	if k < 0 {
		k = -k
	}
	return giantCounts[k%len(giantCounts)]
}

// rightEdge picks each of the last `width` live slots with probability 1/2 (ascending): the
// leaves of the small trees at the right edge of the forest.
func rightEdge(g *Gen, live []int, width int) []int {
	var r []int
	lo := len(live) - width
	if lo < 0 {
		lo = 0
	}
	for i := lo; i < len(live); i++ {
		if g.Intn(2) == 0 {
			r = append(r, live[i])
		}
	}
	return r
}

// treeRangesOf returns the slot ranges [lo,hi) of the trees of a forest of n leaves, biggest first.
func treeRangesOf(n uint64) [][2]int {
	var r [][2]int
	lo := 0
	for h := 63; h >= 0; h-- {
		if (n>>uint(h))&1 == 1 {
			r = append(r, [2]int{lo, lo + (1 << uint(h))})
			lo += 1 << uint(h)
		}
	}
	return r
}

// climbDeletions returns the live slots of one tree with 2^minRow .. 2^maxRow slots EXCEPT one
// (two when keep2) live leaf: after the deletion the surviving leaf has climbed to (just below)
// the root of its tree, i.e. many rows.  which selects the tree among the candidates.
// Returns nil when no tree qualifies.
func climbDeletions(g *Gen, alive []bool, minRow, maxRow uint, which int, keep2 bool) []int {
	var cands [][2]int
	for _, t := range treeRangesOf(uint64(len(alive))) {
		if t[1]-t[0] >= 1<<minRow && t[1]-t[0] <= 1<<maxRow {
			nl := 0
			for i := t[0]; i < t[1]; i++ {
				if alive[i] {
					nl++
				}
			}
			if nl >= 3 {
				cands = append(cands, t)
			}
		}
	}
	if len(cands) == 0 {
		return nil
	}
	if which < 0 {
		which = -which
	}
	t := cands[which%len(cands)]
	var live []int
	for i := t[0]; i < t[1]; i++ {
		if alive[i] {
			live = append(live, i)
		}
	}
	keep := map[int]bool{live[g.Intn(len(live))]: true}
	if keep2 {
		keep[live[g.Intn(len(live))]] = true
	}
	var r []int
	for _, i := range live {
		if !keep[i] {
			r = append(r, i)
		}
	}
	return r
}

// manyTreeDeletions chooses the deletions of one later block of a many-tree history:
//
//	style 0: the small trees at the right edge (about half of the last 24 live slots)
//	style 1: a few leaves spread over the whole forest plus some of the right edge
//	style 2: all but one leaf of a big tree of 64..1024 leaves (the survivor climbs 6..10 rows;
//	         bigger trees are left alone: the specification replay of a deletion of d leaves
//	         among n is O(n*d))
//	style 3: whole small trees (at most 64 leaves each) at the right edge (the last trees emptied)
//	style 5: 260..400 leaves scattered over the whole forest (manyTreeStyleHeavy only)
//	else:    a few leaves anywhere
func manyTreeDeletions(g *Gen, alive []bool, style int) []int {
	return manyTreeDeletionsR(g, alive, style, 10)
}

// manyTreeDeletionsR: the same with the biggest tree style 2 may take (2^maxRow leaves).
func manyTreeDeletionsR(g *Gen, alive []bool, style int, maxRow uint) []int {
	var live []int
	for i, a := range alive {
		if a {
			live = append(live, i)
		}
	}
	if len(live) == 0 {
		return nil
	}
	switch style {
	case 0:
		return rightEdge(g, live, 24)
	case 1:
		set := map[int]bool{}
		for _, i := range sample(g, live, 1+g.Intn(12)) {
			set[i] = true
		}
		for _, i := range rightEdge(g, live, 12) {
			set[i] = true
		}
		var r []int
		for _, i := range live {
			if set[i] {
				r = append(r, i)
			}
		}
		return r
	case 2:
		if d := climbDeletions(g, alive, 6, maxRow, g.Intn(8), g.Intn(3) == 0); d != nil {
			return d
		}
		return rightEdge(g, live, 24)
	case 3:
		tr := treeRangesOf(uint64(len(alive)))
		var r []int
		for k := len(tr) - 1; k >= 0 && k >= len(tr)-5; k-- {
			if tr[k][1]-tr[k][0] <= 64 && g.Intn(2) == 0 {
				for i := tr[k][0]; i < tr[k][1]; i++ {
					if alive[i] {
						r = append(r, i)
					}
				}
			}
		}
		if len(r) == 0 {
			return rightEdge(g, live, 24)
		}
		sort.Ints(r)
		return r
	case 5:
		// scattered: 260..400 leaves anywhere (more than 255 targets, de-twinned targets, proof
		// hashes and moved positions in one block)
		return sample(g, live, 260+g.Intn(141))
	default:
		return sample(g, live, 1+g.Intn(6))
	}
}

// manyTreeStyle draws a deletion style: right edge most often.
func manyTreeStyle(g *Gen) int {
	return []int{0, 0, 0, 1, 1, 2, 3, 4}[g.Intn(8)]
}

// manyTreeStyleHeavy: the same plus, one time in nine, the scattered style 5 (hundreds of
// deletions): for the families whose driver handlers take blocks of that size.
func manyTreeStyleHeavy(g *Gen) int {
	return []int{0, 0, 0, 1, 1, 2, 3, 4, 5}[g.Intn(9)]
}

// manyTreeAdds: mostly no additions, so that the leaf count keeps its many one-bits.
func manyTreeAdds(g *Gen) int {
	if g.Intn(4) == 0 {
		return 1 + g.Intn(3)
	}
	return 0
}

// ---------- observations in big forests ----------

// edgePositions: every position of the `nTrees` smallest trees (all rows), the root positions,
// the positions around the leaf count and the row starts, plus `nRandom` random positions below
// 2^(rows+1)+3.
func edgePositions(g *Gen, n uint64, nTrees, nRandom int) []uint64 {
	rows := u.TreeRows(n)
	set := map[uint64]bool{}
	for _, p := range u.RootPositions(n, rows) {
		set[p] = true
	}
	tr := treeRangesOf(n)
	for k := len(tr) - 1; k >= 0 && k >= len(tr)-nTrees; k-- {
		lo, hi := uint64(tr[k][0]), uint64(tr[k][1])-1 // inclusive, row by row up to the root
		for {
			for p := lo; p <= hi; p++ {
				set[p] = true
			}
			if lo == hi {
				break
			}
			lo, hi = u.Parent(lo, rows), u.Parent(hi, rows)
		}
	}
	maxPos := uint64(2)<<rows + 3
	for d := uint64(0); d < 3; d++ {
		set[n+d] = true
		if n > d {
			set[n-1-d] = true
		}
		set[maxPos-d] = true
	}
	for r := uint8(0); r <= rows; r++ {
		// start of row r and the position before it
		st := (uint64(2)<<rows - uint64(2)<<(rows-r)) // 2^(rows+1) - 2^(rows+1-r)
		set[st] = true
		if st > 0 {
			set[st-1] = true
		}
	}
	for i := 0; i < nRandom; i++ {
		set[uint64(g.Int63n(int64(maxPos)+1))] = true
	}
	r := make([]uint64, 0, len(set))
	for p := range set {
		if p <= maxPos {
			r = append(r, p)
		}
	}
	sort.Slice(r, func(a, b int) bool { return r[a] < r[b] })
	return r
}

// obsLookupsOf: GetLeafPosition of the given hashes and GetHash of the given positions on every
// instance (the lines of obsLookups, for a chosen sample).
func (s *Sim) obsLookupsOf(hs []u.Hash, ps []uint64) {
	for _, in := range s.insts {
		for _, h := range hs {
			var pos uint64
			var ok bool
			r := guard(watchdog, func() { pos, ok = in.acc.GetLeafPosition(h) })
			if r != "ok" {
				emit("obs %s pos %s %s", in.label, hx(h), r)
			} else if ok {
				emit("obs %s pos %s %d", in.label, hx(h), pos)
			} else {
				emit("obs %s pos %s none", in.label, hx(h))
			}
		}
		for _, p := range ps {
			var h u.Hash
			r := guard(watchdog, func() { h = in.acc.GetHash(p) })
			if r != "ok" {
				emit("obs %s hash %d %s", in.label, p, r)
			} else {
				emit("obs %s hash %d %s", in.label, p, hx(h))
			}
		}
		if in.pol != nil {
			emit("obs %s count %d %d", in.label, len(in.pol.NodeMap), in.pol.NumDels)
		}
		if in.mp != nil {
			emit("obs %s cachedcount %d", in.label, in.mp.CachedLeaves.Length())
		}
	}
}

// observeAllSampled: the observations of observeAll for a big forest: look-ups of the leaves
// at the right edge, of a sample of the other leaves (live and dead) and of the positions of
// the small trees, of the roots and of a random sample; proofs of right-edge subsets, of small
// subsets spread over the forest, of a mixed subset and of one large subset.
func (s *Sim) observeAllSampled() {
	g := s.g
	n := len(s.slots)
	if n == 0 {
		s.observeAll()
		return
	}
	var hs []u.Hash
	for i := n - 1; i >= 0 && i >= n-40; i-- {
		hs = append(hs, s.slots[i])
	}
	for i := 0; i < 60; i++ {
		hs = append(hs, s.slots[g.Intn(n)])
	}
	hs = append(hs, g.leafHash(), u.Hash{})
	s.obsLookupsOf(hs, edgePositions(g, uint64(n), 6, 150))
	live := s.liveHashes()
	if len(live) == 0 {
		return
	}
	edge := live
	if len(edge) > 24 {
		edge = live[len(live)-24:]
	}
	pickFrom := func(xs []u.Hash, k int) []u.Hash {
		if k > len(xs) {
			k = len(xs)
		}
		p := g.Perm(len(xs))[:k]
		r := make([]u.Hash, k)
		for i, j := range p {
			r[i] = xs[j]
		}
		return r
	}
	s.obsProve(pickFrom(edge, 1+g.Intn(3)))
	s.obsProve(pickFrom(edge, 1+g.Intn(len(edge))))
	s.obsProve(pickFrom(live, 1+g.Intn(3)))
	s.obsProve(pickFrom(live, 1+g.Intn(10)))
	mixed := append(pickFrom(edge, 1+g.Intn(6)), pickFrom(live, 1+g.Intn(6))...)
	seen := map[u.Hash]bool{}
	var mx []u.Hash
	for _, h := range mixed {
		if !seen[h] {
			seen[h] = true
			mx = append(mx, h)
		}
	}
	s.obsProve(mx)
	s.obsProve(pickFrom(live, 1+g.Intn(min(len(live), 96))))
}

// growTo adds fresh leaves until the forest has n leaves, in blocks of at most 2048 additions:
// the replay of one block on the Lean model of Stump.add is quadratic in the number of the
// block's additions (association lists), so the 4095..65535-leaf forests are built in steps
// (not smaller ones: the driver also re-hashes the whole specification forest once per block).
func (s *Sim) growTo(n int) {
	for len(s.slots) < n {
		k := n - len(s.slots)
		if k > 2048 {
			k = 2048
		}
		s.applyBlock(nil, k)
	}
}

// pickPool returns the live leaves a family draws proof targets from: all of them, or (half of
// the time when edgeBias is set) the last 24.
func (s *Sim) pickPool() []u.Hash {
	live := s.liveHashes()
	if s.edgeBias && len(live) > 24 && s.g.Intn(2) == 0 {
		return live[len(live)-24:]
	}
	return live
}
