package main

import (
	u "github.com/utreexo/utreexo"
)

func init() {
	families["forest"] = famForest
	families["forestexh"] = famForestExh
}

var rowConfigs = [][]uint8{{63}, {0}, {50}, {3}, {0, 63}, {1, 50}}

// pickRows chooses the TotalRows settings of the map forests of one history: one of the
// fixed configurations, or (one time in three) two arbitrary values in 0..63.
func pickRows(g *Gen) []uint8 {
	if g.Intn(3) == 0 {
		return []uint8{uint8(g.Intn(64)), uint8(g.Intn(64))}
	}
	return rowConfigs[g.Intn(len(rowConfigs))]
}

// famForest: structured random block histories on all implementations, with root,
// look-up, proof and undo observations (C01, C02, C06, C10, C11).
func famForest(g *Gen, tier string, shard, nshards int) {
	nHist, maxBlocks, maxAdds := 12, 14, 9
	if tier == "thorough" {
		nHist, maxBlocks, maxAdds = 40, 60, 40
	}
	for h := 0; h < nHist; h++ {
		s := newSim(g, pickRows(g))
		nBlocks := 3 + g.Intn(maxBlocks)
		// one history in six lives in a forest of many trees (9 or more roots, rows >= 9)
		manyTrees := h%6 == 5
		if manyTrees {
			nBlocks = 3 + g.Intn(3)
		}
		for b := 0; b < nBlocks; b++ {
			mode := g.Intn(8)
			if b == 0 {
				mode = 0
			}
			nAdds := 0
			switch g.Intn(5) {
			case 0:
				nAdds = 0
			case 1:
				nAdds = 1
			case 2:
				nAdds = 1 + g.Intn(3)
			case 3: // cross the next power of two
				n := s.numLeaves()
				p := uint64(1)
				for p <= n {
					p <<= 1
				}
				nAdds = int(p-n) + g.Intn(2)
				if nAdds > maxAdds*2 {
					nAdds = maxAdds
				}
			default:
				nAdds = g.Intn(maxAdds + 1)
			}
			if b == 0 && nAdds == 0 {
				nAdds = 1 + g.Intn(maxAdds)
			}
			dels := s.pickDeletions(mode)
			if manyTrees {
				if b == 0 {
					nAdds = []int{511, 1022, 1023, 767, 1021, 509}[g.Intn(6)]
				} else {
					if g.Intn(3) != 0 {
						nAdds = 0
					} else {
						nAdds = 1 + g.Intn(3)
					}
					if g.Intn(3) != 0 { // deletions among the small trees at the right edge
						live := s.liveIdx()
						dels = nil
						for i := len(live) - 1; i >= 0 && i >= len(live)-24; i-- {
							if g.Intn(2) == 0 {
								dels = append([]int{live[i]}, dels...)
							}
						}
					}
				}
			}
			if manyTrees && b > 0 && g.Intn(5) == 0 {
				// now and then: leaves spread over the whole forest plus some of the right
				// edge, or all but one leaf of a big tree (the survivor climbs many rows)
				dels = manyTreeDeletions(g, s.alive, 1+g.Intn(2))
				nAdds = manyTreeAdds(g)
			}
			s.applyBlock(dels, nAdds)
			s.obsRoots()
			if g.Intn(3) == 0 || b == nBlocks-1 {
				s.observeAll()
			}
			// undo / redo
			if len(s.hist) > 1 && g.Intn(6) == 0 {
				k := 1 + g.Intn(min(len(s.hist)-1, 4))
				for i := 0; i < k; i++ {
					s.undoLast()
					s.obsRoots()
				}
				s.observeAll()
			}
		}
	}
}

func min(a, b int) int {
	if a < b {
		return a
	}
	return b
}

// observeAll: look-ups of all hashes/positions and proofs of some subsets.
func (s *Sim) observeAll() {
	g := s.g
	extra := []u.Hash{g.leafHash(), {}}
	ih := s.internalHashes()
	if len(ih) > 6 {
		g.Shuffle(len(ih), func(a, b int) { ih[a], ih[b] = ih[b], ih[a] })
		ih = ih[:6]
	}
	extra = append(extra, ih...)
	s.obsLookups(extra)
	live := s.liveHashes()
	if len(live) == 0 {
		return
	}
	if len(live) <= 5 {
		// every non-empty subset, in slot order and reversed
		for m := 1; m < 1<<uint(len(live)); m++ {
			var req []u.Hash
			for i := range live {
				if m>>uint(i)&1 == 1 {
					req = append(req, live[i])
				}
			}
			s.obsProve(req)
			if len(req) > 1 {
				rev := make([]u.Hash, len(req))
				for i := range req {
					rev[len(req)-1-i] = req[i]
				}
				s.obsProve(rev)
			}
		}
		return
	}
	for k := 0; k < 6; k++ {
		n := 1 + g.Intn(len(live))
		if k < 2 {
			n = 1 + g.Intn(3)
		}
		p := g.Perm(len(live))[:n]
		req := make([]u.Hash, n)
		for i, j := range p {
			req[i] = live[j]
		}
		s.obsProve(req)
	}
}

// famForestExh: bounded-exhaustive histories: first block adds n1 leaves, second block
// deletes every subset and adds 0..3, third block deletes every subset (when few leaves
// are live) and adds 0..2; undo of the last block is observed too.
func famForestExh(g *Gen, tier string, shard, nshards int) {
	maxN1, maxLive3 := 5, 4
	if tier == "thorough" {
		maxN1, maxLive3 = 8, 6
	}
	caseNo := 0
	for n1 := 1; n1 <= maxN1; n1++ {
		for mask := 0; mask < 1<<uint(n1); mask++ {
			for k2 := 0; k2 <= 3; k2++ {
				caseNo++
				if caseNo%nshards != shard {
					continue
				}
				rows := rowConfigs[caseNo%len(rowConfigs)]
				run := func(mask3, k3 int, third bool) {
					s := newSim(g, rows)
					s.applyBlock(nil, n1)
					var del []int
					for i := 0; i < n1; i++ {
						if mask>>uint(i)&1 == 1 {
							del = append(del, i)
						}
					}
					s.applyBlock(del, k2)
					s.obsRoots()
					if !third {
						s.observeAll()
						s.undoLast()
						s.obsRoots()
						s.observeAll()
						return
					}
					live := s.liveIdx()
					var del3 []int
					for i := range live {
						if mask3>>uint(i)&1 == 1 {
							del3 = append(del3, live[i])
						}
					}
					s.applyBlock(del3, k3)
					s.obsRoots()
					if (mask3+k3)%4 == 0 {
						s.observeAll()
					}
					s.undoLast()
					s.obsRoots()
					s.undoLast()
					s.obsRoots()
				}
				run(0, 0, false)
				nlive := n1 - popcount(uint64(mask)) + k2
				if nlive <= maxLive3 {
					for mask3 := 0; mask3 < 1<<uint(nlive); mask3++ {
						for k3 := 0; k3 <= 2; k3++ {
							run(mask3, k3, true)
						}
					}
				}
			}
		}
	}
}
