package main

import (
	u "github.com/utreexo/utreexo"
)

func init() {
	families["encodings"] = famEncodings
	families["undoredo"] = famUndoRedo
}

// altEncoding turns the canonical (delHashes, proof) of a block into another encoding of the
// same claim: permuted (target, hash) pairs, trailing junk proof hashes, a proof assembled by
// AddProof from two partial proofs, or a restriction of a bigger proof by GetProofSubset.
// Returns the encoding and a tag naming how it was made.
func (s *Sim) altEncoding(delHashes []u.Hash, proof u.Proof, mode int) ([]u.Hash, u.Proof, string) {
	g := s.g
	n := len(delHashes)
	hs := copyHashes(delHashes)
	pr := u.Proof{Targets: copyU64(proof.Targets), Proof: copyHashes(proof.Proof)}
	if n == 0 {
		return hs, pr, "canon"
	}
	tag := "canon"
	switch mode {
	case 1: // permute pairs
		perm := g.Perm(n)
		for i, j := range perm {
			hs[i] = delHashes[j]
			pr.Targets[i] = proof.Targets[j]
		}
		tag = "perm"
	case 2: // junk suffix
		k := 1 + g.Intn(3)
		for i := 0; i < k; i++ {
			switch g.Intn(3) {
			case 0:
				pr.Proof = append(pr.Proof, g.leafHash())
			case 1:
				pr.Proof = append(pr.Proof, s.stump.Roots[g.Intn(len(s.stump.Roots))])
			default:
				pr.Proof = append(pr.Proof, delHashes[g.Intn(n)])
			}
		}
		tag = "junk"
	case 3: // AddProof of two partial proofs
		if n < 2 {
			return s.altEncoding(delHashes, proof, 1)
		}
		cut := 1 + g.Intn(n-1)
		a, b := copyHashes(delHashes[:cut]), copyHashes(delHashes[cut:])
		pa, err1 := s.prover.Prove(a)
		pb, err2 := s.prover.Prove(b)
		if err1 != nil || err2 != nil {
			die("prover failed on partial sets")
		}
		var rh []u.Hash
		var rp u.Proof
		r := guard(watchdog, func() { rh, rp = u.AddProof(pa, pb, a, b, s.numLeaves()) })
		if r != "ok" {
			return hs, pr, "canon"
		}
		hs, pr, tag = rh, rp, "addproof"
	case 4: // GetProofSubset of a proof of a superset
		live := s.liveHashes()
		sup := copyHashes(delHashes)
		in := map[u.Hash]bool{}
		for _, h := range delHashes {
			in[h] = true
		}
		for _, h := range live {
			if !in[h] && g.Intn(3) == 0 {
				sup = append(sup, h)
			}
		}
		g.Shuffle(len(sup), func(a, b int) { sup[a], sup[b] = sup[b], sup[a] })
		psup, err := s.prover.Prove(sup)
		if err != nil {
			die("prover failed on superset")
		}
		wants := make([]uint64, n)
		for i, h := range delHashes {
			for j := range sup {
				if sup[j] == h {
					wants[i] = psup.Targets[j]
				}
			}
		}
		var rh []u.Hash
		var rp u.Proof
		var err2 error
		r := guard(watchdog, func() { rh, rp, err2 = u.GetProofSubset(psup, sup, wants, s.numLeaves()) })
		if r != "ok" || err2 != nil {
			return hs, pr, "canon"
		}
		hs, pr, tag = rh, rp, "subset"
	case 5: // permute + junk
		h1, p1, _ := s.altEncoding(delHashes, proof, 1)
		h2, p2, _ := s.altEncoding(h1, p1, 2)
		return h2, p2, "permjunk"
	}
	return hs, pr, tag
}

// applyBlockEnc applies a block in an alternative accepted encoding to every implementation.
func (s *Sim) applyBlockEnc(delIdx []int, nAdds int, mode int) string {
	delHashes := make([]u.Hash, len(delIdx))
	for i, j := range delIdx {
		delHashes[i] = s.slots[j]
	}
	proof, err := s.prover.Prove(delHashes)
	if err != nil {
		die("prover failed: %v", err)
	}
	hs, pr, tag := s.altEncoding(delHashes, proof, mode)
	// the encoding must be one that verification accepts; otherwise it is no C05 case
	st := u.Stump{Roots: copyHashes(s.stump.Roots), NumLeaves: s.stump.NumLeaves}
	var verr error
	r := guard(watchdog, func() {
		_, verr = u.Verify(st, copyHashes(hs), u.Proof{Targets: copyU64(pr.Targets), Proof: copyHashes(pr.Proof)})
	})
	if r != "ok" || verr != nil {
		emit("enc %s rejected", tag)
		hs, pr, tag = delHashes, proof, "canon"
	} else {
		emit("enc %s accepted", tag)
	}
	addHashes := s.g.leafHashes(nAdds)
	adds := make([]u.Leaf, nAdds)
	for i := range adds {
		adds[i] = u.Leaf{Hash: addHashes[i], Remember: s.allRemember}
	}
	// Undo is later given the canonical encoding of the same block
	s.undoHashes, s.undoProof = delHashes, &proof
	s.applyBlockData(delIdx, hs, pr, adds)
	return tag
}

// famEncodings: histories in which every block is applied in a non-canonical but accepted
// encoding (C05); roots of every implementation are compared with the specification.
func famEncodings(g *Gen, tier string, shard, nshards int) {
	nHist, maxBlocks, maxAdds := 50, 12, 9
	if tier == "thorough" {
		nHist, maxBlocks, maxAdds = 60, 40, 30
	}
	for h := 0; h < nHist; h++ {
		s := newSim(g, pickRows(g))
		// half of the histories: partial map forests learn the leaves to delete only through
		// Verify(remember=true) of the block's (non-canonical) encoding
		s.ingestMode = h%2 == 1
		// one history in five lives in a forest of many trees (9 or more roots, rows >= 9):
		// the alternative encodings (permuted, junk suffix, AddProof, GetProofSubset) of
		// deletions at the right edge, spread over the forest, and of a whole big tree but one leaf
		manyTrees := h%5 == 2
		if manyTrees {
			s.ingestMode = (h/5)%2 == 1
			famEncodingsMany(s, shard*nHist/5+h/5, tier)
			continue
		}
		s.applyBlock(nil, 2+g.Intn(maxAdds*2))
		s.obsRoots()
		nBlocks := 2 + g.Intn(maxBlocks)
		for b := 0; b < nBlocks; b++ {
			mode := 1 + g.Intn(7)
			nAdds := g.Intn(maxAdds + 1)
			if g.Intn(4) == 0 {
				nAdds = 0
			}
			s.applyBlockEnc(s.pickDeletions(mode), nAdds, 1+g.Intn(5))
			s.obsRoots()
			if g.Intn(4) == 0 {
				s.observeAll()
			}
			if len(s.hist) > 1 && g.Intn(8) == 0 {
				s.undoLast()
				s.obsRoots()
			}
		}
	}
}

// famEncodingsMany: one short history in a many-tree forest, every block in a non-canonical
// accepted encoding; k selects the leaf count.
func famEncodingsMany(s *Sim, k int, tier string) {
	g := s.g
	n := manyTreeCount(k)
	if tier == "thorough" && k%8 == 7 {
		n = hugeTreeCount(k / 8)
	}
	s.growTo(n)
	s.obsRoots()
	nBlocks := 3 + g.Intn(3)
	for b := 0; b < nBlocks; b++ {
		style := manyTreeStyleHeavy(g)
		if b == 0 && k%3 == 0 {
			style = 2 // a leaf climbs many rows first, the rest of the history runs beside it
		}
		s.applyBlockEnc(manyTreeDeletions(g, s.alive, style), manyTreeAdds(g), 1+g.Intn(5))
		s.obsRoots()
		if b == nBlocks-1 && n <= 2100 && !s.ingestMode {
			// (in ingest mode the partial forests do not cache every leaf: their look-ups
			// are not comparable with the specification and C05 judges the roots only)
			s.observeAllSampled()
		}
		if len(s.hist) > 1 && g.Intn(3) == 0 {
			s.undoLast()
			s.obsRoots()
		}
	}
}

// famUndoRedo: deep undo and redo on another branch (C06): after undoing k blocks (k up to the
// whole history) the roots, every position, every hash and proofs are observed, then
// different blocks are applied from there.
func famUndoRedo(g *Gen, tier string, shard, nshards int) {
	nHist, maxBlocks, maxAdds := 10, 10, 8
	if tier == "thorough" {
		nHist, maxBlocks, maxAdds = 40, 50, 24
	}
	for h := 0; h < nHist; h++ {
		s := newSim(g, pickRows(g))
		// one history in five lives in a forest of many trees (9 or more roots, rows >= 9)
		if h%5 == 3 {
			famUndoRedoMany(s, shard*nHist/5+h/5, tier)
			continue
		}
		nBlocks := 2 + g.Intn(maxBlocks)
		for b := 0; b < nBlocks; b++ {
			mode := g.Intn(8)
			nAdds := g.Intn(maxAdds + 1)
			if b == 0 {
				mode, nAdds = 0, 1+g.Intn(maxAdds*2)
			}
			// blocks that empty whole trees and whose additions overwrite the empty roots
			if g.Intn(4) == 0 {
				mode = 5
				nAdds = 1 + g.Intn(4)
			}
			s.applyBlock(s.pickDeletions(mode), nAdds)
			s.obsRoots()
		}
		for round := 0; round < 3 && len(s.hist) > 0; round++ {
			k := 1 + g.Intn(len(s.hist))
			if round == 0 && g.Intn(3) == 0 {
				k = len(s.hist)
			}
			for i := 0; i < k; i++ {
				s.undoLast()
				s.obsRoots()
				if i == k-1 || g.Intn(3) == 0 {
					s.observeAll()
				}
			}
			// redo on another branch
			nRedo := 1 + g.Intn(4)
			for b := 0; b < nRedo; b++ {
				mode := g.Intn(8)
				nAdds := g.Intn(maxAdds + 1)
				if len(s.slots) == 0 && nAdds == 0 {
					nAdds = 1
				}
				s.applyBlock(s.pickDeletions(mode), nAdds)
				s.obsRoots()
			}
			s.observeAll()
		}
	}
}

// famUndoRedoMany: deep undo and redo in a many-tree forest.  A first block of 509..2046
// leaves (thorough: also 4095..16382), then short blocks whose deletions sit at the right
// edge, are spread over the forest, or take all but one leaf of a big tree (the survivor
// climbs many rows); undo of several blocks (sometimes down to the empty accumulator), full
// observation of the restored state, other blocks redone from there.
func famUndoRedoMany(s *Sim, k int, tier string) {
	g := s.g
	n := manyTreeCount(k)
	if tier == "thorough" && k%8 == 7 {
		n = hugeTreeCount(k / 8)
	}
	s.growTo(n)
	s.obsRoots()
	nBlocks := 2 + g.Intn(4)
	for b := 0; b < nBlocks; b++ {
		style := manyTreeStyleHeavy(g)
		if b == 0 && k%3 == 1 {
			style = 2
		}
		s.applyBlock(manyTreeDeletions(g, s.alive, style), manyTreeAdds(g))
		s.obsRoots()
	}
	for round := 0; round < 2 && len(s.hist) > 0; round++ {
		kk := 1 + g.Intn(len(s.hist))
		if round == 0 && k%4 == 0 {
			kk = len(s.hist) // back to the empty accumulator
		}
		for i := 0; i < kk; i++ {
			s.undoLast()
			s.obsRoots()
		}
		if n <= 2100 {
			s.observeAllSampled()
		}
		nRedo := 1 + g.Intn(3)
		for b := 0; b < nRedo; b++ {
			nAdds := manyTreeAdds(g)
			if len(s.slots) == 0 {
				nAdds = manyTreeCount(k + 1 + round)
			}
			s.applyBlock(manyTreeDeletions(g, s.alive, manyTreeStyleHeavy(g)), nAdds)
			s.obsRoots()
		}
	}
	if n <= 2100 {
		s.observeAllSampled()
	}
}
