module verifharness

go 1.21

require github.com/utreexo/utreexo v0.0.0

replace github.com/utreexo/utreexo => /repo
