package main

// Trace lines that expose the INPUTS and outputs of every Proof.Update / Proof.Undo call made
// by the light client of the `cached` families (fam_cached.go), so that the driver can replay
// the call on the transliterated model (Model/ProofUpdate.lean):
//
//	pupdate <cachedTargets> <cachedProof> <cachedHashes> <addHashes> <blockTargets> <remembers>
//	        <toDestroy> <prevNumLeaves> <newDelPos> <newDelHash> <newAddPos> <newAddHash> <res>
//	pundo   <cachedTargets> <cachedProof> <cachedHashes> <numAdds> <numLeaves> <dels> <delHashes>
//	        <toDestroy> <blockProofTargets> <blockProofHashes> <res>
//	    res = ok <hashes> <targets> <proof> | err | panic | hang

import (
	u "github.com/utreexo/utreexo"
)

func cpProof(p u.Proof) u.Proof {
	return u.Proof{Targets: copyU64(p.Targets), Proof: copyHashes(p.Proof)}
}

func u32s(xs []uint32) string {
	ys := make([]uint64, len(xs))
	for i, x := range xs {
		ys[i] = uint64(x)
	}
	return us(ys)
}

func resTriple(r string, err error, hashes []u.Hash, p u.Proof) string {
	if r != "ok" {
		return r
	}
	if err != nil {
		return "err"
	}
	return "ok " + hxs(hashes) + " " + us(p.Targets) + " " + hxs(p.Proof)
}

func emitPUpdate(before u.Proof, beforeH, addHashes []u.Hash, blockTargets []uint64, rem []uint32, ud u.UpdateData,
	r string, err error, out []u.Hash, after u.Proof) {
	emit("pupdate %s %s %s %s %s %s %s %d %s %s %s %s %s", us(before.Targets), hxs(before.Proof), hxs(beforeH),
		hxs(addHashes), us(blockTargets), u32s(rem), us(ud.ToDestroy), ud.PrevNumLeaves,
		us(ud.NewDelPos), hxs(ud.NewDelHash), us(ud.NewAddPos), hxs(ud.NewAddHash), resTriple(r, err, out, after))
}

func emitPUndo(before u.Proof, beforeH []u.Hash, numAdds, numLeaves uint64, dels []uint64, delHashes []u.Hash,
	toDestroy []uint64, blockProof u.Proof, r string, err error, out []u.Hash, after u.Proof) {
	emit("pundo %s %s %s %d %d %s %s %s %s %s %s", us(before.Targets), hxs(before.Proof), hxs(beforeH),
		numAdds, numLeaves, us(dels), hxs(delHashes), us(toDestroy), us(blockProof.Targets), hxs(blockProof.Proof),
		resTriple(r, err, out, after))
}
