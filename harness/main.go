// Command harness drives the real utreexo implementation (built from /repo's working tree
// with -tags verif) with generated operation sequences and writes one line per operation /
// observation.  The Lean driver replays the same lines on the formal model and the
// specification and reports disagreements.
//
//	harness <family> <seed> <tier> [shard nshards]
package main

import (
	"bufio"
	"os"
	"strconv"
	"time"
)

// watchdog bounds every guarded call.  It is generous on purpose: the checks run many shards
// in parallel, possibly on a loaded machine, and a timeout is reported as non-termination.
// The non-terminating behaviours this project found so far spin forever, so 20 s loses nothing.
var watchdog = 20 * time.Second

type familyFn func(g *Gen, tier string, shard, nshards int)

var families = map[string]familyFn{}

func main() {
	if len(os.Args) < 4 {
		os.Stderr.WriteString("usage: harness <family> <seed> <tier> [shard nshards]\n")
		os.Exit(2)
	}
	fam, ok := families[os.Args[1]]
	if !ok {
		os.Stderr.WriteString("unknown family " + os.Args[1] + "\n")
		os.Exit(2)
	}
	if ms, err := strconv.Atoi(os.Getenv("VERIF_WATCHDOG_MS")); err == nil && ms > 0 {
		watchdog = time.Duration(ms) * time.Millisecond
	}
	seed, _ := strconv.ParseInt(os.Args[2], 10, 64)
	tier := os.Args[3]
	shard, nshards := 0, 1
	if len(os.Args) >= 6 {
		shard, _ = strconv.Atoi(os.Args[4])
		nshards, _ = strconv.Atoi(os.Args[5])
	}
	out = bufio.NewWriterSize(os.Stdout, 1<<20)
	defer out.Flush()
	emit("# family=%s seed=%d tier=%s shard=%d/%d", os.Args[1], seed, tier, shard, nshards)
	fam(newGen(seed*1000003+int64(shard)), tier, shard, nshards)
}
