import UtreexoVerif.Go.Int
