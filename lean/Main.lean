/-
  The model driver: reads the harness trace (one operation / observation per line, see
  /verif/harness), replays it on the specification forest and on the transliterated
  models, and reports every line on which the implementation's answer differs from the
  model's (`MISMATCH`) or on which a property oracle rejects the observed behaviour
  (`ORACLE`).  Core Lean only, compiled with `lake build driver`.
-/
import UtreexoVerif.Driver.Core

def main (args : List String) : IO UInt32 := UtreexoVerif.Driver.run args
