/-
  What a verifier state commits to, as seen by the verification code: an abstract
  "forest view".  The soundness proof of `calculateHashes`/`Verify` (Props/C03) is carried
  out against this interface; `Proofs/SpecView.lean` shows that the specification forest
  (`Spec.Forest`) provides it under collision-freeness.  The split keeps the queue/loop
  reasoning (list induction) apart from the geometry (bit arithmetic, tree induction).
-/
import UtreexoVerif.Model.Calc

namespace UtreexoVerif
open Hasher Model

/-- Collision-freeness, as a hypothesis (never an axiom): `ph` is injective and never
produces the all-zero hash.  Satisfiable: see `Proofs/TermHash.lean` (free term algebra). -/
structure CR (H : Type) [Hasher H] : Prop where
  inj : ∀ a b c d : H, ph a b = ph c d → a = c ∧ b = d
  nonzero : ∀ a b : H, ph a b ≠ (zero : H)

/-- the parent hash is never the all-zero hash (the code uses the zero hash as "empty").
Unlike `CR` this is satisfiable by finite hash types (no pigeonhole argument refutes it), so
theorems stated under `NZ` are not vacuous for a real 32-byte hash. -/
structure NZ (H : Type) [Hasher H] : Prop where
  nonzero : ∀ a b : H, ph a b ≠ (zero : H)

theorem CR.toNZ {H} [Hasher H] (cr : CR H) : NZ H := ⟨cr.nonzero⟩

/-- The forest committed to by `(numLeaves, roots)`, through positions in `TreeRows`
coordinates: `nodeAt p` is the hash of the node currently at position `p`, if any. -/
structure ForestView (H : Type) [Hasher H] (numLeaves : U64) (roots : List H) where
  nodeAt : U64 → Option H
  /-- the root stored for the tree on `row` is the node at that tree's root position -/
  root_ok : ∀ (row : U8) (h : H), row ≤ TreeRows numLeaves →
    (rootExistsOnRow numLeaves row = true) →
    roots[rootIdxOfRow numLeaves row]? = some h →
    nodeAt (rootPosition numLeaves row (TreeRows numLeaves)) = some h
  /-- a node whose hash is a parent hash of two non-zero hashes has exactly those two
  children (for positions inside the forest's address range) -/
  children_ok : ∀ (p : U64) (row : U8) (a b : H), row ≤ TreeRows numLeaves →
    p ≤ (maxPositionAtRow row (TreeRows numLeaves) numLeaves).1 →
    nodeAt (Parent p (TreeRows numLeaves)) = some (ph a b) → a ≠ zero → b ≠ zero →
    nodeAt (leftSib p) = some a ∧ nodeAt (rightSib p) = some b

end UtreexoVerif
