/-
  S / A — the implementation-independent specification of the accumulator.

  State: the list of insertion slots, each alive (`some leafHash`) or dead (`none`).
  Everything observable is a total function of that list:

  * the forest is cut into perfect trees by the binary digits of the slot count;
  * each tree is *collapsed*: a subtree without survivors contributes nothing, a subtree
    whose sibling has no survivors stands in for its parent (`join`);
  * the position of a node is "root position of its tree, then child steps along the
    collapsed tree", expressed as a (row, offset) pair and encoded for a forest of
    `rows` rows by `enc rows (r, o) = 2^(rows+1) - 2^(rows+1-r) + o`.

  Nothing here uses the bit tricks of utils.go: geometry is plain `Nat` arithmetic
  (`parent (r, o) = (r+1, o/2)`, children `(r-1, 2o)`, `(r-1, 2o+1)`).
-/
import UtreexoVerif.Go.Int

namespace UtreexoVerif

/-- The hash function the accumulator is parameterised by (`parentHash`, all-zero hash). -/
class Hasher (H : Type) where
  ph : H → H → H
  zero : H

namespace Spec
open Hasher

/-- a position as (row, offset) -/
abbrev Pos := Nat × Nat

/-- collapsed tree: leaves are live leaves -/
inductive CTree (H : Type) where
  | leaf (h : H)
  | node (l r : CTree H)
deriving Repr, DecidableEq

variable {H : Type} [DecidableEq H] [Hasher H]

def CTree.hash : CTree H → H
  | .leaf h => h
  | .node l r => ph l.hash r.hash

def CTree.leaves : CTree H → List H
  | .leaf h => [h]
  | .node l r => l.leaves ++ r.leaves

/-- merge of two optional collapsed subtrees -/
def join : Option (CTree H) → Option (CTree H) → Option (CTree H)
  | some a, some b => some (.node a b)
  | some a, none => some a
  | none, some b => some b
  | none, none => none

/-- collapse a chunk of `2^k` slots -/
def collapse : Nat → List (Option H) → Option (CTree H)
  | 0, l => match l with
    | some h :: _ => some (.leaf h)
    | _ => none
  | k+1, l => join (collapse k (l.take (2^k))) (collapse k (l.drop (2^k)))

/-- Go's `TreeRows`: rows needed for `n` leaves -/
def forestRows (n : Nat) : Nat := if n ≤ 1 then 0 else Nat.log2 (n - 1) + 1

/-- rows (descending) at which a tree exists for `n` leaves: the set bits of `n` -/
def treeRowsFrom : Nat → Nat → List Nat
  | 0, n => if n.testBit 0 then [0] else []
  | h+1, n => if n.testBit (h+1) then (h+1) :: treeRowsFrom h n else treeRowsFrom h n

def treeRows (n : Nat) : List Nat := treeRowsFrom 64 n

/-- first slot of the tree at row `h` -/
def treeStart (n h : Nat) : Nat := (n >>> (h+1)) <<< (h+1)

/-- encoding of a (row, offset) position in a forest allocated for `rows` rows -/
def enc (rows : Nat) (p : Pos) : Nat := 2^(rows+1) - 2^(rows+1-p.1) + p.2

def parent (p : Pos) : Pos := (p.1 + 1, p.2 / 2)
def sib (p : Pos) : Pos := (p.1, if p.2 % 2 = 0 then p.2 + 1 else p.2 - 1)
def isRootPos (n : Nat) (p : Pos) : Bool := n.testBit p.1 && p.2 == 2 * (n >>> (p.1+1))
def rootPos (n h : Nat) : Pos := (h, 2 * (n >>> (h+1)))

/-- every node of a collapsed tree rooted at `(r, o)`: (position, hash, isLeaf) -/
def CTree.nodes : CTree H → Nat → Nat → List (Pos × H × Bool)
  | .leaf h, r, o => [((r, o), h, true)]
  | .node a b, r, o =>
    ((r, o), (CTree.node a b).hash, false) :: (a.nodes (r-1) (2*o) ++ b.nodes (r-1) (2*o+1))

/-- The accumulator state. -/
structure Forest (H : Type) where
  slots : List (Option H)
deriving Repr

namespace Forest

def empty : Forest H := ⟨[]⟩
def numLeaves (F : Forest H) : Nat := F.slots.length
def rows (F : Forest H) : Nat := forestRows F.numLeaves

/-- the trees, highest row first: (row, collapsed tree or none for an empty root) -/
def trees (F : Forest H) : List (Nat × Option (CTree H)) :=
  (treeRows F.numLeaves).map fun h =>
    (h, collapse h ((F.slots.drop (treeStart F.numLeaves h)).take (2^h)))

/-- root hashes, highest tree first; a tree without survivors has the all-zero root -/
def roots (F : Forest H) : List H :=
  F.trees.map fun (_, t) => match t with
    | some t => t.hash
    | none => zero

/-- all nodes of the forest with their positions; an empty root is a node with hash zero -/
def nodes (F : Forest H) : List (Pos × H × Bool) :=
  F.trees.flatMap fun (h, t) => match t with
    | some t => t.nodes h (rootPos F.numLeaves h).2
    | none => [(rootPos F.numLeaves h, zero, false)]

def liveLeaves (F : Forest H) : List H := F.slots.filterMap id

/-- hash of the node at a position, if there is one -/
def nodeAt (F : Forest H) (p : Pos) : Option H :=
  (F.nodes.find? (fun x => x.1 == p)).map (·.2.1)

/-- position of a live leaf -/
def posOf (F : Forest H) (h : H) : Option Pos :=
  (F.nodes.find? (fun x => x.2.2 && x.2.1 == h)).map (·.1)

def add (F : Forest H) (h : H) : Forest H := ⟨F.slots ++ [some h]⟩
def addMany (F : Forest H) (hs : List H) : Forest H := ⟨F.slots ++ hs.map some⟩
/-- delete live leaves by identity -/
def delLeaves (F : Forest H) (hs : List H) : Forest H :=
  ⟨F.slots.map fun s => match s with
    | some h => if h ∈ hs then none else some h
    | none => none⟩
/-- a block: delete, then add -/
def modify (F : Forest H) (dels adds : List H) : Forest H := (F.delLeaves dels).addMany adds

/-- `p`, its parent, … up to and including the root of its tree (at most `fuel` steps) -/
def pathUp (n : Nat) : Nat → Pos → List Pos
  | 0, p => [p]
  | fuel+1, p => if isRootPos n p then [p] else p :: pathUp n fuel (parent p)

def posLt (a b : Pos) : Bool := a.1 < b.1 || (a.1 == b.1 && a.2 < b.2)

def insertSorted (p : Pos) : List Pos → List Pos
  | [] => [p]
  | q :: qs => if posLt p q then p :: q :: qs else if p == q then q :: qs else q :: insertSorted p qs

def sortDedup (l : List Pos) : List Pos := l.foldr insertSorted []

/-- canonical proof positions for a list of target positions: the siblings on the targets'
paths that are neither on a path themselves (targets, computable ancestors), by row then
position -/
def proofPositions (F : Forest H) (targets : List Pos) : List Pos :=
  let n := F.numLeaves
  let P := sortDedup (targets.flatMap (pathUp n (F.rows + 1)))
  sortDedup ((P.filter (fun p => !isRootPos n p)).map sib |>.filter (fun s => !P.contains s))

/-- the computable ancestors: every strict ancestor of a target -/
def computable (F : Forest H) (targets : List Pos) : List Pos :=
  let n := F.numLeaves
  sortDedup (targets.flatMap (fun t => (pathUp n (F.rows + 1) t).drop 1))

/-- canonical proof of a list of live leaves, in request order:
(target positions, proof hashes); `none` if a leaf is not live or a hash is missing -/
def canon (F : Forest H) (leaves : List H) : Option (List Pos × List H) := do
  let targets ← leaves.mapM F.posOf
  let hashes ← (F.proofPositions targets).mapM F.nodeAt
  pure (targets, hashes)

end Forest
end Spec
end UtreexoVerif
