/-
  Executable index over a specification forest: the same observables as `Spec.Forest`
  (`nodeAt`, `posOf`, canonical proofs), computed once per state into hash maps so that the
  driver can answer thousands of look-ups per state.  Used only by the compiled driver
  (correspondence / oracle), never by a theorem.
-/
import Std.Data.HashMap
import UtreexoVerif.Spec.Forest

namespace UtreexoVerif.Spec
open Std

variable {H : Type} [DecidableEq H] [Hashable H] [BEq H] [Hasher H]

structure Index (H : Type) [BEq H] [Hashable H] where
  n : Nat
  rows : Nat
  roots : List H
  /-- encoded position (in `rows` coordinates) ↦ (hash, isLeaf) -/
  byPos : HashMap Nat (H × Bool)
  /-- live leaf ↦ (row, offset) -/
  byLeaf : HashMap H Pos
  /-- every node as (row, offset) ↦ hash -/
  byRO : HashMap (Nat × Nat) H

def Forest.index (F : Forest H) : Index H :=
  let nodes := F.nodes
  let rows := F.rows
  { n := F.numLeaves, rows := rows, roots := F.roots,
    byPos := nodes.foldl (fun m x => m.insert (enc rows x.1) (x.2.1, x.2.2)) {},
    byLeaf := nodes.foldl (fun m x => if x.2.2 then m.insert x.2.1 x.1 else m) {},
    byRO := nodes.foldl (fun m x => m.insert x.1 x.2.1) {} }

namespace Index

def nodeAtEnc (I : Index H) (p : Nat) : Option H := (I.byPos.get? p).map (·.1)
def posOf (I : Index H) (h : H) : Option Pos := I.byLeaf.get? h

/-- canonical proof positions of leaf target positions (same definition as
`Forest.proofPositions`, on the index) -/
def proofPositions (I : Index H) (targets : List Pos) : List Pos :=
  let P := Forest.sortDedup (targets.flatMap (Forest.pathUp I.n (I.rows + 1)))
  Forest.sortDedup ((P.filter (fun p => !isRootPos I.n p)).map sib |>.filter (fun s => !P.contains s))

def canon (I : Index H) (leaves : List H) : Option (List Pos × List H) := do
  let targets ← leaves.mapM I.posOf
  let hashes ← (I.proofPositions targets).mapM (fun p => I.byRO.get? p)
  pure (targets, hashes)

end Index
end UtreexoVerif.Spec
