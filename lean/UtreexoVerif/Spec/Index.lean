/-
  Executable index over a specification forest: the same observables as `Spec.Forest`
  (`nodeAt`, `posOf`, canonical proofs), computed once per state into hash maps so that the
  driver can answer thousands of look-ups per state.  Used only by the compiled driver
  (correspondence / oracle), never by a theorem.
-/
import Std.Data.HashMap
import Std.Data.HashSet
import UtreexoVerif.Spec.Forest

namespace UtreexoVerif.Spec
open Std

variable {H : Type} [DecidableEq H] [Hashable H] [BEq H] [Hasher H]

structure Index (H : Type) [BEq H] [Hashable H] where
  n : Nat
  rows : Nat
  roots : List H
  /-- encoded position (in `rows` coordinates) ↦ (hash, isLeaf) -/
  byPos : HashMap Nat (H × Bool)
  /-- live leaf ↦ (row, offset) -/
  byLeaf : HashMap H Pos
  /-- every node as (row, offset) ↦ hash -/
  byRO : HashMap (Nat × Nat) H

def Forest.index (F : Forest H) : Index H :=
  let nodes := F.nodes
  let rows := F.rows
  { n := F.numLeaves, rows := rows, roots := F.roots,
    byPos := nodes.foldl (fun m x => m.insert (enc rows x.1) (x.2.1, x.2.2)) {},
    byLeaf := nodes.foldl (fun m x => if x.2.2 then m.insert x.2.1 x.1 else m) {},
    byRO := nodes.foldl (fun m x => m.insert x.1 x.2.1) {} }

namespace Index

def nodeAtEnc (I : Index H) (p : Nat) : Option H := (I.byPos.get? p).map (·.1)
def posOf (I : Index H) (h : H) : Option Pos := I.byLeaf.get? h

/-- canonical proof positions of leaf target positions (same definition as
`Forest.proofPositions`, on the index) -/
def proofPositionsSlow (I : Index H) (targets : List Pos) : List Pos :=
  let P := Forest.sortDedup (targets.flatMap (Forest.pathUp I.n (I.rows + 1)))
  Forest.sortDedup ((P.filter (fun p => !isRootPos I.n p)).map sib |>.filter (fun s => !P.contains s))

/-- the same list (the set `{ sib p | p ∈ P, p no root, sib p ∉ P }` for the set `P` of all
path positions, sorted by row then offset), computed with hash sets and a merge sort instead
of the insertion sorts / list scans of the definition above: proofs of hundreds of targets in
forests of thousands of leaves are asked for by the many-tree histories.  Driver only. -/
def proofPositions (I : Index H) (targets : List Pos) : List Pos :=
  if targets.length ≤ 8 then proofPositionsSlow I targets else
  let P : HashSet Pos := targets.foldl (fun s t => (Forest.pathUp I.n (I.rows + 1) t).foldl (fun s p => s.insert p) s) {}
  let S : HashSet Pos := P.fold (fun s p =>
    if isRootPos I.n p then s else if P.contains (sib p) then s else s.insert (sib p)) {}
  S.toList.mergeSort (fun a b => Forest.posLt a b || a == b)

def canon (I : Index H) (leaves : List H) : Option (List Pos × List H) := do
  let targets ← leaves.mapM I.posOf
  let hashes ← (I.proofPositions targets).mapM (fun p => I.byRO.get? p)
  pure (targets, hashes)

end Index
end UtreexoVerif.Spec
