/-
  Finite, computable data of a specification forest that the collision-extracting soundness
  theorem (`Props/C03x.lean`) refers to:

  * `Forest.nodePairs F` — the `(left, right)` child-hash pairs of every internal node of the
    collapsed trees of `F` (the arguments of every `ph` call that produced a node hash of `F`);
  * `Forest.upLeaves F`  — the hashes of the live leaves that have moved up (leaf nodes of the
    collapsed forest on a row `≥ 1`): the only leaves that sit at a parent position.

  Core Lean only (executable).
-/
import UtreexoVerif.Spec.Forest

namespace UtreexoVerif.Spec
open Hasher

variable {H : Type} [DecidableEq H] [Hasher H]

/-- child-hash pairs of the internal nodes of a collapsed tree (preorder, as `CTree.nodes`) -/
def CTree.pairs : CTree H → List (H × H)
  | .leaf _ => []
  | .node a b => (a.hash, b.hash) :: (a.pairs ++ b.pairs)

namespace Forest

/-- the `(left, right)` child-hash pairs of every internal node of the forest -/
def nodePairs (F : Forest H) : List (H × H) :=
  F.trees.flatMap fun (_, t) => match t with
    | some t => t.pairs
    | none => []

/-- hashes of the leaf nodes of the collapsed forest that sit on a row `≥ 1` -/
def upLeaves (F : Forest H) : List H :=
  (F.nodes.filter (fun x => x.2.2 && decide (1 ≤ x.1.1))).map (·.2.1)

end Forest
end UtreexoVerif.Spec
