/-
  Implementation-independent vocabulary for property C15 (caching schedule), written from
  the property text only:

    "For any recorded sequence of block summaries, every position scheduled for a block is
     the insertion slot of a leaf added in that block and deleted in a later recorded block,
     listed once and in ascending order.  At no block do more than the requested number of
     scheduled leaves exist simultaneously, and when the limit is at least the number of
     leaves ever alive the schedule contains every such leaf."

  A history is a list of blocks; a block deletes some currently live leaves (named by their
  insertion slots) and then appends `numAdds` leaves.  The insertion slot of the i-th leaf
  added by a block is (leaf count before the block) + i.  Nothing here looks at prove.go.
  Also here: the position at which a prover sees a live slot (path in the collapsed tree,
  exactly as `Spec/Forest.lean` defines it, but on alive-flags instead of hashes), which is
  what "deletion targets as emitted by a prover" means.
-/
import UtreexoVerif.Spec.Forest

namespace UtreexoVerif.Spec.Sched
open UtreexoVerif.Spec

structure Block where
  numAdds : Nat
  /-- insertion slots of the leaves this block deletes (in the order the block names them) -/
  delSlots : List Nat
deriving Repr, DecidableEq, Inhabited

abbrev History := List Block

/-- number of leaves ever added -/
def total (h : History) : Nat := (h.map (·.numAdds)).sum

/-- The lifetimes of all leaves of a history, tabulated once:
`starts[t]` = leaf count before block `t` (`starts[len]` = total), so the insertion slots of
block `t` are `starts[t] … starts[t+1]-1`; `birth[s]` = the block that added slot `s`;
`death[s]` = the first block that deletes slot `s`, if any. -/
structure Lives where
  starts : Array Nat
  birth : Array Nat
  death : Array (Option Nat)
deriving Repr

def lives (h : History) : Lives :=
  let starts := h.foldl (fun (acc : Array Nat) b => acc.push (acc.back?.getD 0 + b.numAdds)) #[0]
  let birth := h.zipIdx.foldl (fun (acc : Array Nat) (bt : Block × Nat) => acc ++ Array.replicate bt.1.numAdds bt.2) #[]
  let death := h.zipIdx.foldl (fun (acc : Array (Option Nat)) (bt : Block × Nat) =>
      bt.1.delSlots.foldl (fun (acc : Array (Option Nat)) s =>
        match acc[s]? with
        | some none => acc.set! s (some bt.2)
        | _ => acc) acc) (Array.replicate (total h) none)
  { starts := starts, birth := birth, death := death }

/-- leaf count before block `t` -/
def Lives.before (L : Lives) (t : Nat) : Nat := L.starts[t]?.getD (L.starts.back?.getD 0)
def Lives.total (L : Lives) : Nat := L.birth.size
def Lives.birth? (L : Lives) (s : Nat) : Option Nat := L.birth[s]?
def Lives.death? (L : Lives) (s : Nat) : Option Nat := (L.death[s]?).getD none

/-- is slot `s` live just before block `t` (added earlier, not deleted earlier)? -/
def Lives.aliveBefore (L : Lives) (t s : Nat) : Bool :=
  s < L.before t && (match L.death? s with
    | some d => t ≤ d
    | none => true)

/-- a block history is well formed: every block deletes distinct leaves that are live when
the block starts -/
def wellFormed (h : History) : Bool :=
  let L := lives h
  h.zipIdx.all fun (bt : Block × Nat) =>
    bt.1.delSlots.eraseDups.length == bt.1.delSlots.length &&
    bt.1.delSlots.all (fun s => L.aliveBefore bt.2 s && L.death? s == some bt.2)

-- ---------------------------------------------------------------- the oracle (property text)

def strictlyAscending : List Nat → Bool
  | a :: b :: rest => a < b && strictlyAscending (b :: rest)
  | _ => true

/-- clause 1a: every block's list is ascending and duplicate-free -/
def orderOK (sch : List (List Nat)) : Bool := sch.all strictlyAscending

/-- clause 1b: position `p` scheduled for block `t` is the insertion slot of a leaf added in
block `t` and deleted in a later recorded block -/
def Lives.slotOK (L : Lives) (t p : Nat) : Bool :=
  L.before t ≤ p && p < L.before (t + 1) &&
    (match L.death? p with
     | some d => t < d
     | none => false)

def slotsOK (h : History) (sch : List (List Nat)) : Bool :=
  let L := lives h
  sch.length == h.length && sch.zipIdx.all fun (lt : List Nat × Nat) => lt.1.all (L.slotOK lt.2)

/-- the leaves the schedule names: every scheduled number that is the slot of a leaf that is
added and later deleted (each counted once) -/
def scheduledLeaves (h : History) (sch : List (List Nat)) : List Nat :=
  let L := lives h
  (sch.flatten.filter (fun p => p < L.total && (L.death? p).isSome)).eraseDups

/-- does leaf `s` exist once block `t` has been applied (added in a block ≤ t, deleted in a
block > t)? -/
def Lives.existsAt (L : Lives) (t s : Nat) : Bool :=
  (match L.birth? s with
   | some b => b ≤ t
   | none => false) &&
  (match L.death? s with
   | some d => t < d
   | none => true)

/-- clause 2: at no block do more than `limit` scheduled leaves exist simultaneously -/
def memOK (h : History) (limit : Nat) (sch : List (List Nat)) : Bool :=
  let L := lives h
  let S := scheduledLeaves h sch
  (List.range h.length).all fun t => (S.filter (L.existsAt t)).length ≤ limit

/-- clause 3: when the limit is at least the number of leaves ever added, every leaf that is
added and later deleted is scheduled (in the list of its birth block) -/
def completeOK (h : History) (limit : Nat) (sch : List (List Nat)) : Bool :=
  let L := lives h
  decide (limit < L.total) ||
  (List.range L.total).all fun s =>
    match L.death? s, L.birth? s with
    | some _, some b => (sch[b]?.getD []).contains s
    | _, _ => true

/-- shape predicate used to delimit known finding C15.createdMovedByUndoDel: some block after
the first adds at least one leaf and deletes every leaf still alive of some tree of the
forest it starts from (so the tree is left without survivors by that block) -/
def emptiesTreeAndAdds (h : History) : Bool :=
  let L := lives h
  h.zipIdx.any fun (bt : Block × Nat) =>
    let n := L.before bt.2
    bt.2 ≥ 1 && bt.1.numAdds ≥ 1 &&
    (treeRows n).any fun r =>
      let slots := (List.range (2^r)).map (· + treeStart n r)
      let live := slots.filter (L.aliveBefore bt.2)
      !live.isEmpty && live.all (fun s => bt.1.delSlots.contains s)

-- ---------------------------------------------------------------- prover positions

/-- position (row, offset) of the live slot with index `i` inside a chunk of `2^k` alive
flags whose collapsed tree stands at `(r, o)`: a half without survivors contributes nothing
and the other half stands in for the parent (cf. `Spec.collapse`, `CTree.nodes`) -/
def chunkPos : Nat → List Bool → Nat → Nat → Nat → Option Pos
  | 0, l, _, r, o => if l.head? == some true then some (r, o) else none
  | k+1, l, i, r, o =>
    let L := l.take (2^k)
    let R := l.drop (2^k)
    let lLive := L.any id
    let rLive := R.any id
    if i < 2^k then
      if !lLive then none
      else if rLive then chunkPos k L i (r - 1) (2 * o) else chunkPos k L i r o
    else
      if !rLive then none
      else if lLive then chunkPos k R (i - 2^k) (r - 1) (2 * o + 1) else chunkPos k R (i - 2^k) r o

/-- position of live slot `s` in a forest whose slots have the given alive flags -/
def slotPos (alive : List Bool) (s : Nat) : Option Pos :=
  let n := alive.length
  match (treeRows n).find? (fun h => treeStart n h ≤ s && s < treeStart n h + 2^h) with
  | some h =>
    chunkPos h ((alive.drop (treeStart n h)).take (2^h)) (s - treeStart n h) h (rootPos n h).2
  | none => none

/-- the target a prover emits for slot `s` just before block `t`: its position encoded for
`forestRows (leaf count)` rows -/
def Lives.targetOf (L : Lives) (t s : Nat) : Option Nat :=
  let n := L.before t
  let alive := (List.range n).map (L.aliveBefore t)
  (slotPos alive s).map (enc (forestRows n))

end UtreexoVerif.Spec.Sched
