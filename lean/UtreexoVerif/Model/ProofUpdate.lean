/-
  prove.go: the cached-proof maintenance code — `getNewPositions`, `maybeRemap`,
  `updateProofRemove`, `updateProofAdd`, `Proof.Update`, `pruneEdges`, `proofUndoAdd`, `proofUndoDel`,
  `Proof.Undo` — transliterated (properties C07 / C08).

  This is a model of the code AS IT IS: the driver replays every `Proof.Update` / `Proof.Undo`
  call of the C07/C08 families on it and compares the outputs token for token.
  `pruneEdges` / `proofUndoAdd` / `proofUndo` model the REPAIRED `Proof.undoAdd` (fix of the known
  findings `C08.undo.emptyRootsOverwritten`, `C08.undo.toEmpty`); the code before the repair,
  including the two defects, is kept as `pruneEdgesOld` / `proofUndoAddOld` / `proofUndoOld`
  (the witness theorems `C08_fails_*` of `Props/C08.lean` are about it).

  Conventions as in `Model/HashAndPos.lean`: a `hashAndPos` is a list of (position, hash)
  pairs; `toHashAndPos` is `.panic` on slices of different lengths (outside the domain of the
  model; the driver reports such a line as unmodelled); Go statement order is kept; in-place
  mutation during `range` loops is modelled by index loops over the current list; `sort.Sort`
  is the stable insertion sort (exact for distinct positions, and for ≤ 12 elements).
  A cached proof is the triple (targets, proof hashes) with the cached leaf hashes handed
  around separately, exactly as in Go (`*Proof` receiver + `cachedHashes` argument/result).
-/
import UtreexoVerif.Model.ProofOps
import UtreexoVerif.Model.Schedule

namespace UtreexoVerif.Model
open UtreexoVerif Hasher

section
variable {H : Type} [DecidableEq H] [Hasher H]

/-- the `for pos > maxPossiblePosAtRow(row, totalRows) && row <= totalRows { row++ }` loop -/
def gnpRow (totalRows : U8) (pos : U64) : Nat → U8 → U8
  | 0, row => row
  | fuel+1, row =>
    if pos > maxPossiblePosAtRow row totalRows && row ≤ totalRows then gnpRow totalRows pos fuel (row + 1) else row

/-- the `for _, target := range blockTargets` loop of `getNewPositions` -/
def gnpMove (numLeaves : U64) (totalRows row : U8) : List U64 → U64 → U64
  | [], nextPos => nextPos
  | target :: rest, nextPos =>
    if isRootPositionOnRow nextPos numLeaves row then nextPos      -- break
    else
      let subtree := (DetectOffset target numLeaves).1
      let subtree1 := (DetectOffset nextPos numLeaves).1
      if subtree != subtree1 then gnpMove numLeaves totalRows row rest nextPos   -- continue
      else if isAncestor (Parent target totalRows) nextPos totalRows then
        gnpMove numLeaves totalRows row rest (calcNextPosition nextPos target totalRows).1
      else gnpMove numLeaves totalRows row rest nextPos

/-- the outer loop of `getNewPositions`; `row` persists across the elements -/
def gnpLoop (blockTargets : List U64) (numLeaves : U64) (totalRows : U8) (appendRoots : Bool) :
    HP H → U8 → HP H → HP H
  | [], _, acc => acc
  | (pos, hash) :: rest, row, acc =>
    if hash = zero then gnpLoop blockTargets numLeaves totalRows appendRoots rest row acc
    else
      let row := gnpRow totalRows pos 300 row
      if row > totalRows then acc      -- break
      else
        let nextPos := gnpMove numLeaves totalRows row blockTargets pos
        if appendRoots then gnpLoop blockTargets numLeaves totalRows appendRoots rest row (acc ++ [(nextPos, hash)])
        else if !isRootPositionOnRow nextPos numLeaves row then
          gnpLoop blockTargets numLeaves totalRows appendRoots rest row (acc ++ [(nextPos, hash)])
        else gnpLoop blockTargets numLeaves totalRows appendRoots rest row acc

/-- `getNewPositions(blockTargets, slice, numLeaves, appendRoots)` -/
def getNewPositions (blockTargets : List U64) (slice : HP H) (numLeaves : U64) (appendRoots : Bool) : HP H :=
  sortHP (gnpLoop blockTargets numLeaves (TreeRows numLeaves) appendRoots slice 0#8 [])

/-- `maybeRemap(numLeaves, numAdds, hnp)` -/
def maybeRemap (numLeaves numAdds : U64) (hnp : HP H) : HP H :=
  let newForestRows := TreeRows (numLeaves + numAdds)
  let oldForestRows := TreeRows numLeaves
  if newForestRows > oldForestRows then
    hnp.map (fun (pos, h) =>
      let row := DetectRow pos (TreeRows numLeaves)
      let oldStartPos := startPositionAtRow row oldForestRows
      let newStartPos := startPositionAtRow row newForestRows
      let offset := pos - oldStartPos
      (offset + newStartPos, h))
  else hnp

/-- a cached proof: `Proof{Targets, Proof}` -/
structure CProof (H : Type) where
  targets : List U64
  proof : List H
deriving Repr, DecidableEq

/-- `for idx < len && positions[idx] < pos { idx++ }` on the remaining suffix -/
def advance {α} (l : List (U64 × α)) (pos : U64) : List (U64 × α) := l.dropWhile (fun x => x.1 < pos)
def advanceU (l : List U64) (pos : U64) : List U64 := l.dropWhile (fun x => x < pos)

/-- first loop of `updateProofRemove`: keep the needed old proof hashes, replacing the ones
the block updated -/
def uprKeep : HP H → List U64 → HP H → HP H → HP H
  | [], _, _, acc => acc
  | (pos, h) :: rest, extra, updated, acc =>
    let extra := advanceU extra pos
    match extra with
    | e :: _ =>
      if e = pos then uprKeep rest extra updated acc
      else
        let updated := advance updated pos
        match updated with
        | (up, uh) :: _ =>
          if up = pos then
            if uh ≠ zero then uprKeep rest extra updated (acc ++ [(pos, uh)]) else uprKeep rest extra updated acc
          else uprKeep rest extra updated (acc ++ [(pos, h)])
        | [] => uprKeep rest extra updated (acc ++ [(pos, h)])
    | [] =>
      let updated := advance updated pos
      match updated with
      | (up, uh) :: _ =>
        if up = pos then
          if uh ≠ zero then uprKeep rest extra updated (acc ++ [(pos, uh)]) else uprKeep rest extra updated acc
        else uprKeep rest extra updated (acc ++ [(pos, h)])
      | [] => uprKeep rest extra updated (acc ++ [(pos, h)])

/-- second loop of `updateProofRemove`: the newly needed positions -/
def uprMissing : List U64 → HP H → HP H → HP H
  | [], _, acc => acc
  | missing :: rest, updated, acc =>
    let updated := advance updated missing
    match updated with
    | (up, uh) :: _ => if up = missing then uprMissing rest updated (acc ++ [(missing, uh)]) else uprMissing rest updated acc
    | [] => uprMissing rest updated acc

/-- `(p *Proof) updateProofRemove(blockTargets, cachedHashes, updated, numLeaves)`:
(new proof, new cached hashes) -/
def updateProofRemove (p : CProof H) (blockTargets : List U64) (cachedHashes : List H) (updated : HP H)
    (numLeaves : U64) : Out (CProof H × List H) := do
  let totalRows := TreeRows numLeaves
  let sortedBlockTargets := sortU64 blockTargets
  let targetsWithHash ← toHashAndPos p.targets cachedHashes
  let targetsWithHash := subtractHP targetsWithHash sortedBlockTargets
  let sortedCachedTargets := sortU64 p.targets
  let proofPos := (ProofPositions sortedCachedTargets numLeaves totalRows).1
  let oldProofs ← toHashAndPos proofPos p.proof
  let neededPos := (ProofPositions targetsWithHash.positions numLeaves totalRows).1
  let extraPos := subtractU64 (sortU64 oldProofs.positions) neededPos
  let newProofs := uprKeep oldProofs extraPos updated []
  let missingPos := sortU64 neededPos
  let missingPos := subtractU64 missingPos oldProofs.positions
  let missingPos := subtractU64 missingPos sortedBlockTargets
  let newProofs := uprMissing missingPos updated newProofs
  let sortedBlockTargets := deTwin sortedBlockTargets totalRows
  let targetsWithHash := getNewPositions sortedBlockTargets targetsWithHash numLeaves true
  let newProofs := getNewPositions sortedBlockTargets newProofs numLeaves false
  pure ({ targets := targetsWithHash.positions, proof := newProofs.hashes }, targetsWithHash.hashes)

/-- the loop of `updateProofAdd` that selects the remembered additions (`i--` = retry) -/
def remembered : Nat → Nat → List H → List Nat → List H → List H
  | 0, _, _, _, acc => acc
  | _, _, [], _, acc => acc
  | _, _, _, [], acc => acc          -- remembersIdx >= len(remembers): break
  | fuel+1, i, add :: adds, r :: rs, acc =>
    if i = r then remembered fuel (i+1) adds rs (acc ++ [add])
    else if i > r then remembered fuel i (add :: adds) rs acc
    else remembered fuel (i+1) adds (r :: rs) acc

/-- the loop of `updateProofAdd` that collects the needed proof hashes from `newNodes` -/
def upaCollect : List U64 → HP H → HP H → HP H
  | [], _, acc => acc
  | pos :: rest, nodes, acc =>
    let nodes := advance nodes pos
    match nodes with
    | (np, nh) :: _ => if np = pos then upaCollect rest nodes (acc ++ [(np, nh)]) else upaCollect rest nodes acc
    | [] => upaCollect rest nodes acc

/-- `(p *Proof) updateProofAdd(adds, cachedDelHashes, remembers, newNodes, beforeNumLeaves, toDestroy)` -/
def updateProofAdd (p : CProof H) (adds cachedDelHashes : List H) (remembers : List Nat) (newNodes : HP H)
    (beforeNumLeaves : U64) (toDestroy : List U64) : Out (CProof H × List H) := do
  let origTargetsWithHash ← toHashAndPos p.targets cachedDelHashes
  let proofPos := (ProofPositions origTargetsWithHash.positions beforeNumLeaves (TreeRows beforeNumLeaves)).1
  let proofWithPos ← toHashAndPos proofPos p.proof
  let nAdds : U64 := BitVec.ofNat 64 adds.length
  let origTargetsWithHash := maybeRemap beforeNumLeaves nAdds origTargetsWithHash
  let proofWithPos := maybeRemap beforeNumLeaves nAdds proofWithPos
  let (origTargetsWithHash, proofWithPos) := toDestroy.foldl (fun (st : HP H × HP H) del =>
      (getNewPositions [del] st.1 (beforeNumLeaves + nAdds) true,
       getNewPositions [del] st.2 (beforeNumLeaves + nAdds) true)) (origTargetsWithHash, proofWithPos)
  let newNodes := mergeHP newNodes proofWithPos
  let addHashes := remembered (2 * (adds.length + remembers.length) + 2) 0 adds remembers []
  let remembersWithHash := hashSubsetHP newNodes addHashes
  let origTargetsWithHash := mergeHP remembersWithHash origTargetsWithHash
  let afterLeaves := beforeNumLeaves + nAdds
  let neededProofPositions := (ProofPositions origTargetsWithHash.positions afterLeaves (TreeRows afterLeaves)).1
  let newProofWithPos := sortHP (upaCollect neededProofPositions newNodes [])
  pure ({ targets := origTargetsWithHash.positions, proof := newProofWithPos.hashes }, origTargetsWithHash.hashes)

/-- Go's `UpdateData` as the model of `Stump.Update` returns it -/
structure UpdateDataM (H : Type) where
  toDestroy : List U64
  prevNumLeaves : U64
  newDel : HP H
  newAdd : HP H

/-- `(p *Proof) Update(cachedHashes, addHashes, blockTargets, remembers, updateData)` -/
def proofUpdate (p : CProof H) (cachedHashes addHashes : List H) (blockTargets : List U64)
    (remembers : List Nat) (ud : UpdateDataM H) : Out (CProof H × List H) := do
  let (p, cachedHashes) ← updateProofRemove p blockTargets cachedHashes ud.newDel ud.prevNumLeaves
  updateProofAdd p addHashes cachedHashes remembers ud.newAdd ud.prevNumLeaves ud.toDestroy

/-- `pruneEdges(hnp, numAdds, numLeaves, forestRows, prevForestRows)` BEFORE the repair of
`Proof.undoAdd` (position 0 is taken to exist in a forest of 0 leaves) -/
def pruneEdgesOld (numAdds numLeaves : U64) (forestRows prevForestRows : U8) : HP H → HP H → Out (HP H)
  | [], acc => .ok acc
  | (target, h) :: rest, acc =>
    let row := DetectRow target forestRows
    if row > prevForestRows then pruneEdgesOld numAdds numLeaves forestRows prevForestRows rest acc
    else
      let currentStartPos := startPositionAtRow row forestRows
      let prevStartPos := startPositionAtRow row prevForestRows
      let offset := target - currentStartPos
      let (maxPos, err) := maxPositionAtRow row prevForestRows (numLeaves - numAdds)
      if err then .err
      else if prevStartPos + offset ≤ maxPos then
        pruneEdgesOld numAdds numLeaves forestRows prevForestRows rest (acc ++ [(target, h)])
      else pruneEdgesOld numAdds numLeaves forestRows prevForestRows rest acc

/-- `pruneEdges(hnp, numAdds, numLeaves, forestRows, prevForestRows)` (repaired: nothing exists in
an empty previous forest) -/
def pruneEdges (numAdds numLeaves : U64) (forestRows prevForestRows : U8) : HP H → HP H → Out (HP H)
  | [], acc => .ok acc
  | (target, h) :: rest, acc =>
    let row := DetectRow target forestRows
    if row > prevForestRows then pruneEdges numAdds numLeaves forestRows prevForestRows rest acc
    else
      let currentStartPos := startPositionAtRow row forestRows
      let prevStartPos := startPositionAtRow row prevForestRows
      let offset := target - currentStartPos
      let (maxPos, err) := maxPositionAtRow row prevForestRows (numLeaves - numAdds)
      if err then .err
      else if numLeaves != numAdds && decide (prevStartPos + offset ≤ maxPos) then
        pruneEdges numAdds numLeaves forestRows prevForestRows rest (acc ++ [(target, h)])
      else pruneEdges numAdds numLeaves forestRows prevForestRows rest acc

/-- `for i := 0; i < hnp.Len(); i++ { if cond(positions[i]) { hnp.Delete(i) } }`: no `i--`
after a deletion, so the element that slides into slot `i` is skipped in this pass -/
def deleteSkipping {α} (cond : α → Bool) : Nat → Nat → List α → List α
  | 0, _, l => l
  | fuel+1, i, l =>
    match l[i]? with
    | none => l
    | some x => if cond x then deleteSkipping cond fuel (i+1) (l.eraseIdx i) else deleteSkipping cond fuel (i+1) l

/-- `(p *Proof) undoAdd(numAdds, numLeaves, cachedHashes, toDestroy)` BEFORE the repair (with the
two recorded defects `C08.undo.emptyRootsOverwritten`, `C08.undo.toEmpty`) -/
def proofUndoAddOld (p : CProof H) (numAdds numLeaves : U64) (cachedHashes : List H) (toDestroy : List U64) :
    Out (CProof H × List H) := do
  let targetsWithHash ← toHashAndPos p.targets cachedHashes
  let proofPos := (ProofPositions targetsWithHash.positions numLeaves (TreeRows numLeaves)).1
  let proofWithPos ← toHashAndPos proofPos p.proof
  let forestRows := TreeRows numLeaves
  let prevForestRows := TreeRows (numLeaves - numAdds)
  -- move positions back to where they were before the empty roots were destroyed
  let moveBack (destroyed : U64) (hnp : HP H) : HP H := hnp.map (fun (target, h) =>
    if destroyed ≤ target then (target, h)
    else
      let subtree := (DetectOffset target numLeaves).1
      let subtree1 := (DetectOffset destroyed (numLeaves - numAdds)).1
      if subtree != subtree1 then (target, h)
      else if isAncestor (Parent destroyed forestRows) target forestRows then
        (calcPrevPosition target destroyed forestRows, h)
      else (target, h))
  let (targetsWithHash, proofWithPos) := toDestroy.foldl (fun (st : HP H × HP H) destroyed =>
      (moveBack destroyed st.1, moveBack destroyed st.2)) (targetsWithHash, proofWithPos)
  let targetsWithHash ← pruneEdgesOld numAdds numLeaves forestRows prevForestRows targetsWithHash []
  let proofWithPos ← pruneEdgesOld numAdds numLeaves forestRows prevForestRows proofWithPos []
  -- prune everything under a previously empty root: (prevForestRows+1) passes
  let under (destroyed : U64) (x : U64 × H) : Bool :=
    (DetectOffset destroyed numLeaves).1 == (DetectOffset x.1 numLeaves).1 || x.1 == destroyed
  let onePass (st : HP H × HP H) : HP H × HP H := toDestroy.foldl (fun (st : HP H × HP H) destroyed =>
      let pw := deleteSkipping (under destroyed) (st.2.length + 1) 0 st.2
      let tw := deleteSkipping (under destroyed) (st.1.length + 1) 0 st.1
      (tw, pw)) st
  let (targetsWithHash, proofWithPos) :=
    (List.range (prevForestRows.toNat + 1)).foldl (fun st _ => onePass st) (targetsWithHash, proofWithPos)
  -- remap to the previous number of rows
  let remap (hnp : HP H) : HP H :=
    if prevForestRows < forestRows then
      hnp.map (fun (pos, h) =>
        let row := DetectRow pos (TreeRows numLeaves)
        let currentStartPos := startPositionAtRow row forestRows
        let prevStartPos := startPositionAtRow row prevForestRows
        let offset := pos - currentStartPos
        (offset + prevStartPos, h))
    else hnp
  let targetsWithHash := remap targetsWithHash
  let proofWithPos := remap proofWithPos
  let neededProofPos := (ProofPositions targetsWithHash.positions (numLeaves - numAdds) prevForestRows).1
  let proofWithPos := subsetHP proofWithPos neededProofPos
  pure ({ targets := targetsWithHash.positions, proof := proofWithPos.hashes }, targetsWithHash.hashes)

/-- `(p *Proof) undoAdd(numAdds, numLeaves, cachedHashes, toDestroy)` (repaired) -/
def proofUndoAdd (p : CProof H) (numAdds numLeaves : U64) (cachedHashes : List H) (toDestroy : List U64) :
    Out (CProof H × List H) := do
  let targetsWithHash ← toHashAndPos p.targets cachedHashes
  let proofPos := (ProofPositions targetsWithHash.positions numLeaves (TreeRows numLeaves)).1
  let proofWithPos ← toHashAndPos proofPos p.proof
  let forestRows := TreeRows numLeaves
  let prevForestRows := TreeRows (numLeaves - numAdds)
  -- `for i := len(toDestroy) - 1; i >= 0; i--`: put the destroyed empty roots back, last destroyed
  -- first (`moveDownPositions` on both position slices)
  let moveDown (destroyed : U64) (hnp : HP H) : HP H :=
    let parent := Parent destroyed forestRows
    hnp.map (fun (x : U64 × H) => (moveDownPosition forestRows parent destroyed x.1, x.2))
  let (targetsWithHash, proofWithPos) := toDestroy.reverse.foldl (fun (st : HP H × HP H) destroyed =>
      (moveDown destroyed st.1, moveDown destroyed st.2)) (targetsWithHash, proofWithPos)
  let targetsWithHash ← pruneEdges numAdds numLeaves forestRows prevForestRows targetsWithHash []
  let proofWithPos ← pruneEdges numAdds numLeaves forestRows prevForestRows proofWithPos []
  -- remap to the previous number of rows
  let remap (hnp : HP H) : HP H :=
    if prevForestRows < forestRows then
      hnp.map (fun (pos, h) =>
        let row := DetectRow pos (TreeRows numLeaves)
        let currentStartPos := startPositionAtRow row forestRows
        let prevStartPos := startPositionAtRow row prevForestRows
        let offset := pos - currentStartPos
        (offset + prevStartPos, h))
    else hnp
  let targetsWithHash := remap targetsWithHash
  let proofWithPos := remap proofWithPos
  -- moving the positions down may have put them out of order
  let targetsWithHash := sortHP targetsWithHash
  let proofWithPos := sortHP proofWithPos
  let neededProofPos := (ProofPositions targetsWithHash.positions (numLeaves - numAdds) prevForestRows).1
  let proofWithPos := subsetHP proofWithPos neededProofPos
  pure ({ targets := targetsWithHash.positions, proof := proofWithPos.hashes }, targetsWithHash.hashes)

/-- the `for i, target := range targetsWithHashes.positions` loop of `proofUndoDel` for one block
target: in-place writes and `sort.Sort` are seen by later iterations (same backing array) -/
def udTargets (numLeaves : U64) (totalRows : U8) (blockTarget : U64) (blockHash : H) (sibPos : U64) :
    Nat → Nat → HP H → HP H → HP H × HP H
  | 0, _, tw, np => (tw, np)
  | fuel+1, i, tw, np =>
    match tw[i]? with
    | none => (tw, np)
    | some (target, h) =>
      let subtree := (DetectOffset target numLeaves).1
      let subtree1 := (DetectOffset blockTarget numLeaves).1
      if subtree != subtree1 then udTargets numLeaves totalRows blockTarget blockHash sibPos fuel (i+1) tw np
      else if isAncestor sibPos target totalRows || sibPos == target then
        let tw := tw.set i (calcPrevPosition target blockTarget totalRows, h)
        let np := sortHP (np ++ [(blockTarget, blockHash)])
        let tw := sortHP tw
        udTargets numLeaves totalRows blockTarget blockHash sibPos fuel (i+1) tw np
      else udTargets numLeaves totalRows blockTarget blockHash sibPos fuel (i+1) tw np

/-- the `for i, target := range proofWithPos.positions` loop of `proofUndoDel` for one block target.
`range` evaluates the slice once: `frozen` is the backing array the loop reads `target` from.
Until the first match it is the array of `proofWithPos` itself; a match writes and sorts in
place (still the same array) and then REASSIGNS `proofWithPos` to the freshly allocated merge
result, after which the loop keeps reading the old array while writing into the new one. -/
def udProofs (numLeaves : U64) (totalRows : U8) (blockTarget : U64) (blockHash : H) (sibPos : U64) :
    Nat → Nat → Nat → Option (List U64) → HP H → Out (HP H)
  | 0, _, _, _, pw => .ok pw
  | fuel+1, i, n, frozen, pw =>
    if i ≥ n then .ok pw
    else
      let targetO := match frozen with
        | some arr => arr[i]?
        | none => (pw[i]?).map (·.1)
      match targetO with
      | none => .panic
      | some target =>
        let subtree := (DetectOffset target numLeaves).1
        let subtree1 := (DetectOffset blockTarget numLeaves).1
        if subtree != subtree1 then udProofs numLeaves totalRows blockTarget blockHash sibPos fuel (i+1) n frozen pw
        else if isAncestor sibPos target totalRows || sibPos == target then
          match pw[i]? with
          | none => .panic
          | some (_, sibHash) =>
            let pw := pw.set i (calcPrevPosition target blockTarget totalRows, sibHash)
            let pw := sortHP pw
            let frozen := match frozen with
              | some arr => some arr
              | none => some pw.positions
            let parentH := if isLeftNiece blockTarget then ph blockHash sibHash else ph sibHash blockHash
            let pw := mergeHP pw [(sibPos, parentH)]
            udProofs numLeaves totalRows blockTarget blockHash sibPos fuel (i+1) n frozen pw
        else udProofs numLeaves totalRows blockTarget blockHash sibPos fuel (i+1) n frozen pw

/-- the outer `for i := blockTargetsWithHash.Len() - 1; i >= 0; i--` loop of `proofUndoDel`
(given the block targets in reverse order) -/
def udOuter (numLeaves : U64) (totalRows : U8) : HP H → HP H → HP H → HP H → Out (HP H × HP H × HP H)
  | [], tw, pw, np => .ok (tw, pw, np)
  | (blockTarget, blockHash) :: rest, tw, pw, np => do
    let sibPos := Parent blockTarget totalRows
    let (tw, np) := udTargets numLeaves totalRows blockTarget blockHash sibPos (tw.length + 1) 0 tw np
    let pw ← udProofs numLeaves totalRows blockTarget blockHash sibPos (pw.length + 1) 0 pw.length none pw
    udOuter numLeaves totalRows rest tw pw np

/-- `proofWithPos.hashes[i] = before.hashes[beforeIdx]` where the positions agree -/
def udReplace : HP H → HP H → HP H → HP H
  | [], _, acc => acc
  | (pos, h) :: rest, before, acc =>
    let before := advance before pos
    match before with
    | (bp, bh) :: _ => if bp = pos then udReplace rest before (acc ++ [(pos, bh)]) else udReplace rest before (acc ++ [(pos, h)])
    | [] => udReplace rest before (acc ++ [(pos, h)])

/-- `(p *Proof) proofUndoDel(blockTargets, blockHashes, cachedHashes, blockProof, numLeaves)` -/
def proofUndoDel (p : CProof H) (blockTargets : List U64) (blockHashes cachedHashes : List H)
    (blockProofTargets : List U64) (blockProofHashes : List H) (numLeaves : U64) : Out (CProof H × List H) := do
  let totalRows := TreeRows numLeaves
  if blockTargets.isEmpty then pure (p, cachedHashes)
  else
    let targetsWithHashes ← toHashAndPos p.targets cachedHashes
    let proofPos := (ProofPositions targetsWithHashes.positions numLeaves totalRows).1
    let proofWithPos ← toHashAndPos proofPos p.proof
    let blockTargetsWithHash ← toHashAndPos blockTargets blockHashes
    let blockTargetsWithHash := deTwinHashAndPos blockTargetsWithHash totalRows
    let (targetsWithHashes, proofWithPos, newProofs) ←
      udOuter numLeaves totalRows blockTargetsWithHash.reverse targetsWithHashes proofWithPos []
    let proofWithPos := mergeHP proofWithPos newProofs
    let r ← calculateHashes numLeaves (some blockHashes) blockProofTargets blockProofHashes
    let before := r.nodes
    let proofWithPos := udReplace proofWithPos before []
    let proofWithPos := mergeHP proofWithPos before
    let neededProofPos := (ProofPositions targetsWithHashes.positions numLeaves totalRows).1
    let proofWithPos := subsetHP proofWithPos neededProofPos
    pure ({ targets := targetsWithHashes.positions, proof := proofWithPos.hashes }, targetsWithHashes.hashes)

/-- `(p *Proof) Undo(numAdds, numLeaves, dels, delHashes, cachedHashes, toDestroy, proof)` -/
def proofUndo (p : CProof H) (numAdds numLeaves : U64) (dels : List U64) (delHashes cachedHashes : List H)
    (toDestroy : List U64) (blockProofTargets : List U64) (blockProofHashes : List H) :
    Out (CProof H × List H) := do
  let (p, cachedHashes) ← proofUndoAdd p numAdds numLeaves cachedHashes toDestroy
  proofUndoDel p dels delHashes cachedHashes blockProofTargets blockProofHashes (numLeaves - numAdds)

/-- BEFORE the repair of `Proof.undoAdd`:  `(p *Proof) Undo(numAdds, numLeaves, dels, delHashes, cachedHashes, toDestroy, proof)` -/
def proofUndoOld (p : CProof H) (numAdds numLeaves : U64) (dels : List U64) (delHashes cachedHashes : List H)
    (toDestroy : List U64) (blockProofTargets : List U64) (blockProofHashes : List H) :
    Out (CProof H × List H) := do
  let (p, cachedHashes) ← proofUndoAddOld p numAdds numLeaves cachedHashes toDestroy
  proofUndoDel p dels delHashes cachedHashes blockProofTargets blockProofHashes (numLeaves - numAdds)

end
end UtreexoVerif.Model
