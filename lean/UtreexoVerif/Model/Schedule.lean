/-
  prove.go: `CachingScheduleTracker` — `AddBlockSummary` (+ `delRootInfo`,
  `rootInfoToDestroy`, `addRootInfo`), the `getPrevPos` family (`undoDel`,
  `moveDownPosition(s)`, `undoSingleAdd`, `undoAdd`), `genTTLs` and
  `GenerateCachingSchedule` — transliterated.

  Conventions: Go's `uint64`/`uint8`/`uint16` are `BitVec`s, Go's `int` is `Int` (block
  indexes, ttl values and slice indexes are far below 2^63), slices are lists, in-place
  element updates of a slice that is private to the function are list maps, every index /
  slice expression that Go would panic on is an explicit `.panic`.  Go's
  `map[uint64]int` (`createHeights`) is an association list with Go's semantics (assignment
  overwrites, `delete` removes, a missing key reads as 0); its iteration order is never used.
  `slices.Sort`/`copySortedFunc` on `uint64` are modelled by insertion sort (any correct sort
  of integers gives the same result).
-/
import UtreexoVerif.Model.ProofPos

namespace UtreexoVerif.Model
open UtreexoVerif UtreexoVerif.GoInt

abbrev U16 := BitVec 16

/-- Go `rootInfo` -/
structure RootInfo where
  pos : U64
  isZombie : Bool
deriving Repr, DecidableEq, Inhabited

/-- Go `ttlInfo` -/
structure TTLInfo where
  pos : U64
  ttl : Int
deriving Repr, DecidableEq, Inhabited

/-- Go `const CSTTotalRows = 63` -/
def CSTTotalRows : U8 := 63#8

/-- Go `roots[len(roots)-1]` followed by `roots = roots[:len(roots)-1]` -/
def popLastR {α} (l : List α) : Out (α × List α) :=
  match l.getLast? with
  | some x => .ok (x, l.dropLast)
  | none => .panic

/-- inner loop of `rootInfoToDestroy`: `for h := uint8(0); (numLeaves>>h)&1 == 1; h++`
(a `uint64` has 64 bits and `numLeaves>>64 = 0`, so 65 steps always suffice) -/
def ritdInner (totalRows : U8) (numLeaves : U64) :
    Nat → U8 → List RootInfo → List U64 → Out (List RootInfo × List U64)
  | 0, _, _, _ => .hang
  | fuel+1, h, roots, deleted =>
    if (shr numLeaves h.toNat) &&& 1#64 == 1#64 then do
      let (root, roots) ← popLastR roots
      let deleted := if root.isZombie then deleted ++ [rootPosition numLeaves h totalRows] else deleted
      ritdInner totalRows numLeaves fuel (h + 1#8) roots deleted
    else .ok (roots, deleted)

/-- outer loop of `rootInfoToDestroy`: `for i := uint64(0); i < numAdds; i++` -/
def ritdOuter (totalRows : U8) : Nat → U64 → List RootInfo → List U64 → Out (List U64)
  | 0, _, _, deleted => .ok deleted
  | k+1, numLeaves, roots, deleted => do
    let (roots, deleted) ← ritdInner totalRows numLeaves 65 0#8 roots deleted
    ritdOuter totalRows k (numLeaves + 1#64) (roots ++ [{ pos := 0#64, isZombie := false }]) deleted

/-- Go `rootInfoToDestroy(totalRows, numAdds, numLeaves, origRoots)` -/
def rootInfoToDestroy (totalRows : U8) (numAdds : U64) (numLeaves : U64) (origRoots : List RootInfo) :
    Out (List U64) :=
  if origRoots.any (·.isZombie) then
    ritdOuter totalRows numAdds.toNat numLeaves origRoots []
  else .ok []

/-- inner loop of `addRootInfo` -/
def ariInner (totalRows : U8) (numLeaves : U64) :
    Nat → U8 → List RootInfo → U64 → Out (List RootInfo × U64)
  | 0, _, _, _ => .hang
  | fuel+1, h, roots, pos =>
    if (shr numLeaves h.toNat) &&& 1#64 == 1#64 then
      -- `roots = roots[:len(roots)-1]` panics on an empty slice
      if roots.isEmpty then .panic
      else ariInner totalRows numLeaves fuel (h + 1#8) roots.dropLast (Parent pos totalRows)
    else .ok (roots, pos)

/-- outer loop of `addRootInfo`: `for i := 0; i < int(numAdds); i++` -/
def ariOuter (totalRows : U8) : Nat → U64 → List RootInfo → Out (List RootInfo × U64)
  | 0, numLeaves, roots => .ok (roots, numLeaves)
  | k+1, numLeaves, roots => do
    let (roots, pos) ← ariInner totalRows numLeaves 65 0#8 roots numLeaves
    ariOuter totalRows k (numLeaves + 1#64) (roots ++ [{ pos := pos, isZombie := false }])

/-- Go `addRootInfo(totalRows, origRoots, numAdds, numLeaves)` -/
def addRootInfo (totalRows : U8) (origRoots : List RootInfo) (numAdds : U16) (numLeaves : U64) :
    Out (List RootInfo × U64) :=
  ariOuter totalRows numAdds.toNat numLeaves origRoots

/-- Go `delRootInfo(totalRows, origRoots, targets)`: the nested loops set `isZombie = true`
on every root whose position is one of the de-twinned targets -/
def delRootInfo (totalRows : U8) (origRoots : List RootInfo) (targets : List U64) : List RootInfo :=
  if targets.isEmpty then origRoots
  else
    let deTwined := deTwin (sortU64 targets) totalRows
    deTwined.foldl (fun roots pos =>
      roots.map (fun root => if root.pos == pos then { root with isZombie := true } else root)) origRoots

/-- Go `CachingScheduleTracker` -/
structure Tracker where
  deletions : List (List U64) := []
  ttls : List (List TTLInfo) := []
  numAdds : List U16 := []
  numLeaves : List U64 := []
  toDestroy : List (List U64) := []
  roots : List (List RootInfo) := []
deriving Repr, Inhabited

/-- Go `NewCachingScheduleTracker(blockCount)` (the argument only pre-allocates) -/
def Tracker.new : Tracker := {}

/-- Go `(*CachingScheduleTracker).AddBlockSummary(deletions, numAdds)` -/
def Tracker.addBlockSummary (cs : Tracker) (deletions : List U64) (numAdds : U16) : Out Tracker :=
  if cs.roots.isEmpty then do
    -- For the first block (the deletions are recorded untranslated).
    let (newRoots, newNumLeaves) ← addRootInfo CSTTotalRows [] numAdds 0#64
    pure { cs with deletions := cs.deletions ++ [deletions], numAdds := cs.numAdds ++ [numAdds],
                   toDestroy := cs.toDestroy ++ [[]], roots := cs.roots ++ [newRoots],
                   numLeaves := cs.numLeaves ++ [newNumLeaves] }
  else do
    let numLeaves ← match cs.numLeaves.getLast? with
      | some n => Out.ok n
      | none => .panic
    let roots ← match cs.roots.getLast? with
      | some r => Out.ok r
      | none => .panic
    let rows := TreeRows numLeaves
    let translatedDels := translatePositions deletions rows CSTTotalRows
    let roots := delRootInfo CSTTotalRows roots translatedDels
    let toDestroy ← rootInfoToDestroy CSTTotalRows (conv 64 numAdds) numLeaves roots
    let (newRoots, newNumLeaves) ← addRootInfo CSTTotalRows roots numAdds numLeaves
    pure { cs with deletions := cs.deletions ++ [translatedDels], numAdds := cs.numAdds ++ [numAdds],
                   toDestroy := cs.toDestroy ++ [toDestroy], roots := cs.roots ++ [newRoots],
                   numLeaves := cs.numLeaves ++ [newNumLeaves] }

/-- feed a list of block summaries to a fresh tracker -/
def Tracker.ofBlocks (blocks : List (List U64 × U16)) : Out Tracker :=
  blocks.foldlM (fun cs b => cs.addBlockSummary b.1 b.2) Tracker.new

-- ---------------------------------------------------------------- getPrevPos family

/-- Go `undoDel(totalRows, positions, deleted, numLeaves)` -/
def undoDel (totalRows : U8) (positions deleted : List U64) (numLeaves : U64) : List U64 :=
  if deleted.isEmpty || positions.isEmpty then positions
  else
    let deTwined := deTwin (sortU64 deleted) totalRows
    -- `for i := len(deTwinedPositions) - 1; i >= 0; i--`
    deTwined.foldr (fun deTwinedPos positions =>
      let sibPos := Parent deTwinedPos totalRows
      -- (Go recomputes `subtree` in every iteration of the inner loop; it does not depend on `pos`)
      let subtree := (DetectOffset (translatePos deTwinedPos totalRows (TreeRows numLeaves)) numLeaves).1
      positions.map (fun pos =>
        let subtree1 := (DetectOffset (translatePos pos totalRows (TreeRows numLeaves)) numLeaves).1
        if subtree != subtree1 then pos
        else if isAncestor sibPos pos totalRows || sibPos == pos then
          calcPrevPosition pos deTwinedPos totalRows
        else pos)) positions

/-- Go `moveDownPosition(totalRows, position, delPos, pos)` -/
def moveDownPosition (totalRows : U8) (position delPos pos : U64) : U64 :=
  if pos == position || isAncestor position pos totalRows then calcPrevPosition pos delPos totalRows
  else pos

/-- Go `moveDownPositions(totalRows, position, delPos, cached)` -/
def moveDownPositions (totalRows : U8) (position delPos : U64) (cached : List U64) : List U64 :=
  cached.map (moveDownPosition totalRows position delPos)

/-- Go `slices.Index` as an `int` (−1 = absent) -/
def sliceIndex (l : List U64) (x : U64) : Int :=
  match l.findIdx? (· == x) with
  | some i => (i : Int)
  | none => -1

/-- the `for row := int(subtreeRows); row >= 0; row--` loop of `undoSingleAdd`;
`row1 = row + 1` iterations remain -/
def undoSingleAddLoop (totalRows : U8) :
    Nat → U64 → List U64 → List U64 → Int → (List U64 × List U64 × Int)
  | 0, _, positions, toDestroy, removedPosIdx => (positions, toDestroy, removedPosIdx)
  | row+1, pos, positions, toDestroy, removedPosIdx =>
    -- Check if we have an empty root to place back in.
    let possibleRoot := LeftChild pos totalRows
    let (toDestroy, positions) :=
      match toDestroy.findIdx? (· == possibleRoot) with
      | some index => (toDestroy.eraseIdx index, moveDownPositions totalRows pos possibleRoot positions)
      | none => (toDestroy, positions)
    -- Check if this leaf is in the positions.
    let removedPosIdx :=
      if row = 0 then
        let index := sliceIndex positions pos
        if index != -1 then index else removedPosIdx
      else removedPosIdx
    undoSingleAddLoop totalRows row (RightChild pos totalRows) positions toDestroy removedPosIdx

/-- Go `undoSingleAdd(totalRows, positions, toDestroy, numLeaves)` -/
def undoSingleAdd (totalRows : U8) (positions toDestroy : List U64) (numLeaves : U64) :
    List U64 × List U64 × Int :=
  let pos := numLeaves - 1#64
  let subtree := (DetectOffset pos numLeaves).1
  let subtreeRows := subtreeRow numLeaves subtree
  let pos := rootPosition numLeaves subtreeRows totalRows
  undoSingleAddLoop totalRows (subtreeRows.toNat + 1) pos positions toDestroy (-1)

/-- the `for i := 0; i < int(numAdds); i++` loop of `undoAdd` -/
def undoAddLoop (totalRows : U8) : Nat → List U64 → List U64 → U64 → List Int → (List U64 × List Int)
  | 0, positions, _, _, created => (positions, created)
  | k+1, positions, toDestroy, numLeaves, created =>
    let (positions, toDestroy, idx) := undoSingleAdd totalRows positions toDestroy numLeaves
    let created := if idx != -1 then created ++ [idx] else created
    undoAddLoop totalRows k positions toDestroy (numLeaves - 1#64) created

/-- Go `undoAdd(totalRows, positions, origToDestroy, numAdds, numLeaves)` -/
def undoAdd (totalRows : U8) (positions origToDestroy : List U64) (numAdds : U16) (numLeaves : U64) :
    List U64 × List Int :=
  undoAddLoop totalRows numAdds.toNat positions (sortU64 origToDestroy) numLeaves []

/-- Go `getPrevPos(totalRows, cached, deleted, toDestroy, numAdds, numLeaves)` -/
def getPrevPos (totalRows : U8) (cached deleted toDestroy : List U64) (numAdds : U16) (numLeaves : U64) :
    List U64 × List Int :=
  let (cached, created) := undoAdd totalRows cached toDestroy numAdds numLeaves
  let cached := undoDel totalRows cached deleted (numLeaves - conv 64 numAdds)
  (cached, created)

/-- `getPrevPos` with the repair proposed for finding C15.createdMovedByUndoDel: the positions
that `undoAdd` identified as created in this block did not exist when the block's deletions
happened, so `undoDel` must not move them (they are saved before and restored after it):

    createdPos := make([]uint64, len(created))
    for i, idx := range created { createdPos[i] = cached[idx] }
    cached = undoDel(...)
    for i, idx := range created { cached[idx] = createdPos[i] }
-/
def getPrevPosFixed (totalRows : U8) (cached deleted toDestroy : List U64) (numAdds : U16) (numLeaves : U64) :
    List U64 × List Int :=
  let (cached, created) := undoAdd totalRows cached toDestroy numAdds numLeaves
  let createdPos := created.map (fun idx => cached[idx.toNat]?.getD 0#64)
  let cached := undoDel totalRows cached deleted (numLeaves - conv 64 numAdds)
  let cached := (created.zip createdPos).foldl (fun c (ip : Int × U64) => c.set ip.1.toNat ip.2) cached
  (cached, created)

/-- the type of `getPrevPos` -/
abbrev PrevPosFn := U8 → List U64 → List U64 → List U64 → U16 → U64 → List U64 × List Int

-- ---------------------------------------------------------------- genTTLs

/-- Go `s[i]` with an `int` index -/
def idxInt {α} (l : List α) (i : Int) : Out α :=
  if i < 0 then .panic else Out.idx l i.toNat

/-- Go `slices.Delete(s, i, i+1)` with an `int` index (panics when out of range) -/
def deleteAt {α} (l : List α) (i : Int) : Out (List α) :=
  if i < 0 then .panic else if i.toNat < l.length then .ok (l.eraseIdx i.toNat) else .panic

/-- insertion sort of `int`s (`slices.Sort(createdIdxs)`) -/
def insertInt (x : Int) : List Int → List Int
  | [] => [x]
  | y :: ys => if x < y then x :: y :: ys else y :: insertInt x ys
def sortInt (l : List Int) : List Int := l.foldl (fun acc x => insertInt x acc) []

/-- "Set ttls": `for j := len(createdIdxs) - 1; j >= 0; j--` -/
def genSetTTLs (i : Nat) (cached : List U64) (xy : List (Int × Int)) :
    List Int → List TTLInfo → Out (List TTLInfo)
  | [], acc => .ok acc
  | idx :: rest, acc => do
    let cords ← idxInt xy idx
    let deletedAt := cords.1
    let createdAt : Int := i
    let ttl := deletedAt - createdAt
    let pos ← idxInt cached idx
    genSetTTLs i cached xy rest (acc ++ [{ pos := pos, ttl := ttl }])

/-- "Remove the created positions from the cache": `for i, idx := range createdIdxs` (sorted) -/
def genRemoveCreated : List Int → Int → List U64 → List (Int × Int) → Out (List U64 × List (Int × Int))
  | [], _, cached, xy => .ok (cached, xy)
  | idx :: rest, k, cached, xy => do
    let useIdx := idx - k
    let cached ← deleteAt cached useIdx
    let xy ← deleteAt xy useIdx
    genRemoveCreated rest (k + 1) cached xy

/-- one iteration (block `i`) of the backwards loop of `genTTLs`: returns the ttl table of
block `i` and the new `(cached, xy)`.  `gpp` is `getPrevPos` (or its repaired variant). -/
def genTTLsStepWith (gpp : PrevPosFn) (cs : Tracker) (i : Nat) (cached : List U64) (xy : List (Int × Int)) :
    Out (List TTLInfo × List U64 × List (Int × Int)) := do
  let deletions ← Out.idx cs.deletions i
  let numAdds ← Out.idx cs.numAdds i
  let numLeaves ← Out.idx cs.numLeaves i
  let toDestroy ← Out.idx cs.toDestroy i
  -- Revert the cached positions by a block.
  let (cached, createdIdxs) := gpp CSTTotalRows cached deletions toDestroy numAdds numLeaves
  -- Set ttls. We go backwards since the undo undoes the bigger positions first.
  let ttls ← genSetTTLs i cached xy createdIdxs.reverse []
  -- Remove the created positions from the cache.
  let (cached, xy) ← genRemoveCreated (sortInt createdIdxs) 0 cached xy
  -- Append new deletions.
  let cached := cached ++ deletions
  let xy := xy ++ (List.range deletions.length).map (fun (j : Nat) => (((i : Nat) : Int), ((j : Nat) : Int)))
  pure (ttls, cached, xy)

/-- `for i := len(cs.deletions) - 1; i >= 0; i--`; `acc` collects the tables of the blocks
already processed (those after `i`) -/
def genTTLsLoopWith (gpp : PrevPosFn) (cs : Tracker) : Nat → List U64 → List (Int × Int) → List (List TTLInfo) →
    Out (List (List TTLInfo))
  | 0, _, _, acc => .ok acc
  | i+1, cached, xy, acc => do
    let (ttls, cached, xy) ← genTTLsStepWith gpp cs i cached xy
    genTTLsLoopWith gpp cs i cached xy (ttls :: acc)

/-- Go `(*CachingScheduleTracker).genTTLs()`.  `cs.ttls = make([][]ttlInfo, len(cs.numAdds))`
is indexed by `i < len(cs.deletions)`: with more deletions than `numAdds` entries the first
iteration panics on `cs.numAdds[i]` (as `genTTLsStep` does), with fewer the extra tables stay
empty.  (`AddBlockSummary` keeps all slices the same length.) -/
def Tracker.genTTLsWith (gpp : PrevPosFn) (cs : Tracker) : Out Tracker := do
  let ttls ← genTTLsLoopWith gpp cs cs.deletions.length [] [] []
  pure { cs with ttls := ttls ++ List.replicate (cs.numAdds.length - cs.deletions.length) [] }

/-- `genTTLs` of the unchanged /repo -/
def Tracker.genTTLs (cs : Tracker) : Out Tracker := cs.genTTLsWith getPrevPos
/-- `genTTLs` with the proposed repair of `getPrevPos` -/
def Tracker.genTTLsFixed (cs : Tracker) : Out Tracker := cs.genTTLsWith getPrevPosFixed

-- ---------------------------------------------------------------- GenerateCachingSchedule

/-- `createHeights`: Go `map[uint64]int` -/
abbrev HeightMap := List (U64 × Int)

def HeightMap.get (m : HeightMap) (k : U64) : Int :=
  match m.find? (·.1 == k) with
  | some e => e.2
  | none => 0
def HeightMap.delete (m : HeightMap) (k : U64) : HeightMap := m.filter (fun e => !(e.1 == k))
def HeightMap.put (m : HeightMap) (k : U64) (v : Int) : HeightMap := (m.delete k) ++ [(k, v)]

/-- `cachingSch[height] = append(cachingSch[height], pos); slices.Sort(cachingSch[height])` -/
def schAppend (sch : List (List U64)) (height : Int) (pos : U64) : Out (List (List U64)) :=
  if height < 0 then .panic
  else match sch[height.toNat]? with
    | some l => .ok (sch.set height.toNat (sortU64 (l ++ [pos])))
    | none => .panic

/-- "Check the cache for spent positions": the `for j := 0; j < len(cache); j++` loop;
`kept` is `cache[:j]` (already decremented, in order), the list argument is `cache[j:]` -/
def schExpire : List TTLInfo → List TTLInfo → HeightMap → List (List U64) →
    Out (List TTLInfo × HeightMap × List (List U64))
  | [], kept, ch, sch => .ok (kept, ch, sch)
  | c :: rest, kept, ch, sch =>
    -- TTL value decremented by one.
    let c := { c with ttl := c.ttl - 1 }
    if c.ttl == 0 then do
      let height := ch.get c.pos
      let ch := ch.delete c.pos
      let sch ← schAppend sch height c.pos
      schExpire rest kept ch sch
    else schExpire rest (kept ++ [c]) ch sch

/-- one `ttl` of "Operate on the ttls in this block" -/
def schInsert (maxMemory : Int) (i : Nat) (cache : List TTLInfo) (ch : HeightMap) (ttl : TTLInfo) :
    List TTLInfo × HeightMap :=
  -- Easy path if the cache is free.
  if (cache.length : Int) < maxMemory then (cache ++ [ttl], ch.put ttl.pos i)
  else
    -- If the cache is full, check if we can replace a value with a greater ttl.
    match cache.findIdx? (fun c => c.ttl > ttl.ttl) with
    | some k =>
      let victim := cache[k]?.getD default
      ((cache.eraseIdx k) ++ [ttl], (ch.delete victim.pos).put ttl.pos i)
    | none => (cache, ch)

/-- the body of `for i, ttls := range cs.ttls` -/
def schBlock (maxMemory : Int) (i : Nat) (ttls : List TTLInfo)
    (st : List TTLInfo × HeightMap × List (List U64)) : Out (List TTLInfo × HeightMap × List (List U64)) := do
  let (cache, ch, sch) ← schExpire st.1 [] st.2.1 st.2.2
  let (cache, ch) := ttls.foldl (fun (acc : List TTLInfo × HeightMap) ttl => schInsert maxMemory i acc.1 acc.2 ttl) (cache, ch)
  pure (cache, ch, sch)

/-- `for i, ttls := range cs.ttls` from block `i` on -/
def schLoop (maxMemory : Int) : Nat → List (List TTLInfo) → (List TTLInfo × HeightMap × List (List U64)) →
    Out (List TTLInfo × HeightMap × List (List U64))
  | _, [], st => .ok st
  | i, ttls :: rest, st => do
    let st ← schBlock maxMemory i ttls st
    schLoop maxMemory (i + 1) rest st

/-- the part of `GenerateCachingSchedule` after `genTTLs`: a function of the ttl tables,
the number of blocks and the limit.  `make([]ttlInfo, 0, maxMemory)` panics for a negative
capacity. -/
def scheduleOfTTLs (ttls : List (List TTLInfo)) (numBlocks : Nat) (maxMemory : Int) : Out (List (List U64)) :=
  if maxMemory < 0 then .panic
  else do
    let st ← schLoop maxMemory 0 ttls ([], [], List.replicate numBlocks [])
    pure st.2.2

/-- Go `(*CachingScheduleTracker).GenerateCachingSchedule(maxMemory)` -/
def Tracker.generateCachingScheduleWith (gpp : PrevPosFn) (cs : Tracker) (maxMemory : Int) :
    Out (Tracker × List (List U64)) := do
  let cs ← cs.genTTLsWith gpp
  let sch ← scheduleOfTTLs cs.ttls cs.numAdds.length maxMemory
  pure (cs, sch)

theorem Tracker.generateCachingScheduleWith_eq (gpp : PrevPosFn) (cs : Tracker) (maxMemory : Int) :
    cs.generateCachingScheduleWith gpp maxMemory =
      (cs.genTTLsWith gpp).bind (fun cs => (scheduleOfTTLs cs.ttls cs.numAdds.length maxMemory).bind
        (fun sch => .ok (cs, sch))) := rfl

/-- `GenerateCachingSchedule` of the unchanged /repo -/
def Tracker.generateCachingSchedule (cs : Tracker) (maxMemory : Int) : Out (Tracker × List (List U64)) :=
  cs.generateCachingScheduleWith getPrevPos maxMemory
/-- `GenerateCachingSchedule` with the proposed repair of `getPrevPos` -/
def Tracker.generateCachingScheduleFixed (cs : Tracker) (maxMemory : Int) : Out (Tracker × List (List U64)) :=
  cs.generateCachingScheduleWith getPrevPosFixed maxMemory

end UtreexoVerif.Model
