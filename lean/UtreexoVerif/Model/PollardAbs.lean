/-
  Model of the look-ups of `Pollard` (polnode.go `getNode` / `getHash` / `GetHash`,
  pollard.go `GetLeafPosition`, the `NodeMap` / `NumDels` bookkeeping) on the specification
  forest `Spec.Forest` (abstract state A).  Core Lean only, executable.

  ## What is modelled, and how it corresponds to the Go code

  `Pollard` has no faithful pointer-level model in this project; its state is represented by
  the specification forest: `p.NumLeaves = F.numLeaves`, `p.Roots[i]` is the `i`-th entry of
  `F.trees` (highest tree first, exactly the order of `p.Roots`), and the `polNode`s reachable
  from a root are the nodes of that tree's *collapsed* tree (`Spec.CTree`): when a leaf is
  deleted its sibling (with the whole subtree hanging from it) moves up to the parent, so the
  pointer structure below a root is the collapsed tree and a position is a *path* in it.

  `getNode(pos)`:

      if pos >= maxPosition(TreeRows(p.NumLeaves)) || !inForest(pos, p.NumLeaves, TreeRows(p.NumLeaves)) { error }
      tree, branchLen, bits, err := DetectOffset(pos, p.NumLeaves);  if err != nil { error }
      if tree >= uint8(len(p.Roots)) { error }
      n, sibling = p.Roots[tree], p.Roots[tree]
      for h := int(branchLen) - 1; h >= 0; h-- {
          niecePos := uint8(bits>>h) & 1
          if isLeftNiece(uint64(niecePos)) { n, sibling = n.lNiece, n.rNiece }
          else                             { n, sibling = n.rNiece, n.lNiece }
          if n == nil { return nil }
      }

  and `getHash` returns `empty` (the all-zero hash, `Hasher.zero`) on error or `nil`, and
  `n.data` otherwise.  The three guards and `DetectOffset` are the transliterated functions of
  `Model/Utils.lean` (tied to utils.go by `Gen/UtilsTie.lean`), applied to the real `uint64`s.

  ### The aunt/niece inversion

  A `polNode` does not point to its children but to its *nieces*: `x.lNiece`, `x.rNiece` are
  the children of `x`'s sibling; a root, which has no sibling, points to its own children.
  `nieceWalk` below is the Go loop transcribed literally with the loop state `(n, sibling)`
  and with "`n.lNiece`" read as "left child of `sibling`" (for the initial state
  `n = sibling = root` this is the root's own left child).  Following niece bits
  `b_{k-1} … b_0` from the root therefore reaches

      root.child[¬b_{k-1}].child[¬b_{k-2}] … .child[¬b_1].child[b_0]

  (each step but the last moves `n` to a child of the *sibling* of the node wanted, so every
  bit but the last is inverted), and `DetectOffset` returns the bits already flipped for
  that: `bits = ^((pos - treeStart) ^ 1)`, i.e. bit 0 is the offset bit of the node and bit
  `k ≥ 1` is the complement of offset bit `k` (`Props.C16b.detectOffset_bits`).
  `descend` is the same walk on the CHILD structure with the un-inverted path (child bit at
  step `h` is `¬b_h` for `h ≥ 1` and `b_0` for `h = 0`); `nieceWalk_eq_descend`
  (Proofs/PollardLookup.lean) proves the two walks equal on every collapsed tree, for all bit
  fields.  In a fully stored collapsed tree every internal node has both children, so the
  `n == nil` test of the Go loop fires exactly when the node whose children are looked at is
  a leaf — in both formulations.

  ### Empty roots

  A tree whose leaves are all deleted keeps its slot in `p.Roots` as a chopped `polNode`
  (`data = empty`, no nieces); `F.trees` has `none` there.  `getHash` then returns `empty`
  whether `branchLen = 0` (the root's data) or not (`n.lNiece == nil`).

  ### Out of scope

  * A *pruned* Pollard (nodes not stored): A stores everything; the "not stored" clause of
    the property is about `MapPollard`/`Pollard` with `Full = false` and is not modelled here.
  * `NodeMap` is keyed by the 12-byte prefix `Hash.mini()`; two live leaves whose hashes share
    the first 12 bytes collide in the map.  Abstractly `NodeMap` is "the live leaves", so
    `GetLeafPosition` is `Spec.Forest.posOf`; prefix collisions are out of scope.
  * `calculatePosition` (walks the aunt pointers up, recomputes the position from the path) is
    modelled at the end of this file and proved to return the position `posOf` reports
    (`Props.C10.getLeafPosition_calculatePosition`), so `pollardGetLeafPosition` uses `posOf`.
-/
import UtreexoVerif.Spec.Forest
import UtreexoVerif.Model.Utils

namespace UtreexoVerif.Model.PollardAbs
open UtreexoVerif UtreexoVerif.GoInt UtreexoVerif.Spec Hasher

variable {H : Type} [DecidableEq H] [Hasher H]

/-- the children of a node of a collapsed tree (`false` = left, `true` = right); a leaf has none -/
def child : CTree H → Bool → Option (CTree H)
  | .leaf _, _ => none
  | .node a _, false => some a
  | .node _ b, true => some b

/-- Go: `niecePos := uint8(bits>>h) & 1; isLeftNiece(uint64(niecePos))` -/
def leftNieceAt (bits : U64) (h : Nat) : Bool :=
  let niecePos : U8 := (conv 8 (shr bits h)) &&& 1#8
  isLeftNiece (conv 64 niecePos)

/-- The loop of `getNode`, literally: state `(n, sibling)`, `steps = h + 1` iterations left.
`n.lNiece`/`n.rNiece` are the children of `sibling` (Pollard nodes point to their nieces;
initially `n = sibling = root`, and a root points to its own children).  `none` = Go's early
`return nil` when `n == nil`. -/
def nieceWalk (n sibling : CTree H) : Nat → U64 → Option (CTree H)
  | 0, _ => some n
  | h+1, bits =>
    match child sibling false, child sibling true with
    | some lNiece, some rNiece =>
      if leftNieceAt bits h then nieceWalk lNiece rNiece h bits
      else nieceWalk rNiece lNiece h bits
    | _, _ => none

/-- The same walk on the child structure with the un-inverted path: at step `h` go to the
right child iff (`h = 0` and niece bit `h` says right) or (`h ≥ 1` and niece bit `h` says left). -/
def descend (t : CTree H) : Nat → U64 → Option (CTree H)
  | 0, _ => some t
  | h+1, bits =>
    let goRight := if h = 0 then !leftNieceAt bits h else leftNieceAt bits h
    match child t goRight with
    | none => none
    | some c => descend c h bits

/-- `Pollard.getNode` followed by `getHash`'s `n.data`, on the specification forest:
`none` = error or `nil` node. `useNiece` selects the literal (niece) walk or the child walk. -/
def getNodeHash (useNiece : Bool) (F : Forest H) (pos : U64) : Option H :=
  let numLeaves : U64 := BitVec.ofNat 64 F.numLeaves
  if decide (pos ≥ maxPosition (TreeRows numLeaves)) || !inForest pos numLeaves (TreeRows numLeaves) then
    none
  else
    let (tree, branchLen, bits, err) := DetectOffset pos numLeaves
    if err then none
    else
      match F.trees[tree.toNat]? with
      | none => none                    -- `tree >= uint8(len(p.Roots))`
      | some (_, none) =>               -- chopped (empty) root: `data = empty`, no nieces
        if branchLen.toNat = 0 then some zero else none
      | some (_, some t) =>
        ((if useNiece then nieceWalk t t branchLen.toNat bits
          else descend t branchLen.toNat bits)).map CTree.hash

/-- `Pollard.GetHash` (child-structure walk): the all-zero hash on error / missing node -/
def pollardGetHash (F : Forest H) (pos : U64) : H :=
  (getNodeHash false F pos).getD zero

/-- `Pollard.GetHash` with the loop of `getNode` transcribed literally (niece walk) -/
def pollardGetHashNiece (F : Forest H) (pos : U64) : H :=
  (getNodeHash true F pos).getD zero

/-- `Pollard.GetLeafPosition`: `NodeMap` = the live leaves (prefix collisions out of scope),
`calculatePosition` = the leaf's position, encoded for `TreeRows(NumLeaves)` rows -/
def pollardGetLeafPosition (F : Forest H) (h : H) : U64 × Bool :=
  match F.posOf h with
  | some p => (BitVec.ofNat 64 (enc F.rows p), true)
  | none => (0#64, false)

/-- `len(p.NodeMap)`: the number of tracked live leaves (`NumLeaves - NumDels` in `Pollard`) -/
def trackedCount (F : Forest H) : Nat := F.liveLeaves.length

/-! ### `calculatePosition` (polnode.go)

    leftRightIndicator := uint64(0); polNode := node; rowsToTop := 0
    for polNode.aunt != nil {
        if polNode.aunt.lNiece == polNode { leftRightIndicator <<= 1 }
        else { leftRightIndicator <<= 1; leftRightIndicator |= 1 }
        polNode = polNode.aunt
        if rowsToTop == 0 { leftRightIndicator ^= 1 }
        rowsToTop++
    }
    forestRows := TreeRows(p.NumLeaves)
    rootRow := -1; rootIdx := len(p.Roots) - 1
    for h := 0; h <= int(forestRows); h++ {
        if (p.NumLeaves>>h)&1 == 1 {
            if p.Roots[rootIdx].data == polNode.data { rootRow = h; break }
            rootIdx--
        }
    }
    retPos := rootPosition(p.NumLeaves, uint8(rootRow), forestRows)
    for i := 0; i < rowsToTop; i++ {
        isRight := uint64(1) << i
        if leftRightIndicator&isRight == isRight { retPos = sibling(RightChild(retPos, forestRows)) }
        else { retPos = sibling(LeftChild(retPos, forestRows)) }
    }
    return retPos

The three loops are transcribed below.  What the first loop *observes* — for each step of the
climb, whether the current node is the `lNiece` of its aunt — is supplied as a list of flags
(bottom to top); `nieceFlags` derives that list from the child path of the node in the
collapsed tree:

* the climb starts at the node `x` (child path `d_0 … d_{k-1}` from the root, `true` = right).
  `x.aunt` is the sibling of `x`'s parent (the root itself when the parent is the root), whose
  nieces are the parent's children, so "`x` is its aunt's `lNiece`" iff `x` is a left child:
  flag `¬d_{k-1}`;
* afterwards the current node is the *sibling* of the ancestor `a_j` of `x` at depth `j`
  (`j = k-1, …, 1`); it is its aunt's `lNiece` iff it is a left child iff `a_j` is a right
  child: flag `d_{j-1}`;
* the climb ends at the root after exactly `k` steps.

The second loop identifies the tree by comparing root *hashes* with the hash at the top of the
climb, lowest tree first (Go indexes `p.Roots` from the end; a negative index would panic —
unreachable because `len(p.Roots)` is the number of set bits of `NumLeaves`; `-1` is kept as
Go's "not found" value, converted by `uint8(rootRow)` to 255). -/

/-- first loop; `flags`: bottom to top, `true` = `polNode.aunt.lNiece == polNode` -/
def climbLoop : List Bool → U64 → Nat → U64 × Nat
  | [], lri, rowsToTop => (lri, rowsToTop)
  | isL :: rest, lri, rowsToTop =>
    let lri := if isL then shl lri 1 else (shl lri 1) ||| 1#64
    let lri := if rowsToTop = 0 then lri ^^^ 1#64 else lri
    climbLoop rest lri (rowsToTop + 1)

/-- second loop; `rs` = the roots not yet looked at, lowest first (`p.Roots[rootIdx]`,
`p.Roots[rootIdx-1]`, …); `fuel` = iterations left (`forestRows + 1 - h`) -/
def findRootRow (numLeaves : U64) (data : H) : Nat → Nat → List H → Int
  | 0, _, _ => -1
  | fuel+1, h, rs =>
    if ((shr numLeaves h) &&& 1#64) == 1#64 then
      match rs with
      | [] => -1
      | r :: rs' => if r = data then (h : Int) else findRootRow numLeaves data fuel (h + 1) rs'
    else findRootRow numLeaves data fuel (h + 1) rs

/-- third loop; `k` iterations left, loop variable `i` -/
def descendLoop (forestRows : U8) (lri : U64) : Nat → Nat → U64 → U64
  | 0, _, retPos => retPos
  | k+1, i, retPos =>
    let isRight := shl 1#64 i
    let retPos :=
      if (lri &&& isRight) == isRight then sibling (RightChild retPos forestRows)
      else sibling (LeftChild retPos forestRows)
    descendLoop forestRows lri k (i + 1) retPos

/-- `calculatePosition` given what the climb observes (`flags`, bottom to top) and the hash of
the node the climb ends at (`topData`, a root) -/
def calculatePosition (F : Forest H) (flags : List Bool) (topData : H) : U64 :=
  let numLeaves : U64 := BitVec.ofNat 64 F.numLeaves
  let (lri, rowsToTop) := climbLoop flags 0#64 0
  let forestRows := TreeRows numLeaves
  let rootRow := findRootRow numLeaves topData (forestRows.toNat + 1) 0 F.roots.reverse
  let retPos := rootPosition numLeaves (ofInt 8 rootRow) forestRows
  descendLoop forestRows lri rowsToTop 0 retPos

/-- what the climb from the node with child path `path` (root first, `true` = right child)
observes, bottom to top (see above) -/
def nieceFlags (path : List Bool) : List Bool :=
  match path.reverse with
  | [] => []
  | last :: rest => (!last) :: rest

/-- the child path (root first) given by the `k` low bits of an offset -/
def pathBits : Nat → Nat → List Bool
  | 0, _ => []
  | k+1, o => o.testBit k :: pathBits k o

/-- walk along a child path -/
def childPath : CTree H → List Bool → Option (CTree H)
  | t, [] => some t
  | t, d :: rest => match child t d with
    | none => none
    | some c => childPath c rest

end UtreexoVerif.Model.PollardAbs
