/-
  The verification entry points other than stump.go's `Verify`:
  `Pollard.Verify` (prove.go) and `MapPollard.verify` (mappollard.go), on top of
  `calculateHashes` and the root matching.
-/
import UtreexoVerif.Model.Calc
import UtreexoVerif.Model.ProofPos

namespace UtreexoVerif.Model
open UtreexoVerif Hasher

section
variable {H : Type} [DecidableEq H] [Hasher H]

/-- `Pollard.Verify(delHashes, proof, remember)`: `roots` are the data of `p.Roots` -/
def pollardVerify (numLeaves : U64) (roots : List H) (delHashes : List H) (targets : List U64)
    (proofHashes : List H) : Out Unit :=
  if delHashes.isEmpty then .ok ()
  else if delHashes.length ≠ targets.length then .err
  else do
    let r ← calculateHashes numLeaves (some delHashes) targets proofHashes
    if r.roots.isEmpty then .err
    else
      let _ ← matchRoots numLeaves roots r.roots r.rootRows none
      pure ()

/-- `MapPollard.verify` without the `remember` side effect: targets are translated from
`TotalRows` to `TreeRows` coordinates when the two differ, then `Verify` against the roots
read from `Nodes`. -/
def mapVerify (numLeaves : U64) (totalRows : U8) (roots : List H) (delHashes : List H)
    (targets : List U64) (proofHashes : List H) : Out (List Nat) :=
  let tr := TreeRows numLeaves
  let ts := if tr ≠ totalRows then translatePositions targets totalRows tr else targets
  verify numLeaves roots delHashes ts proofHashes

end
end UtreexoVerif.Model
