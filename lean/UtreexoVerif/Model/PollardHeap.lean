/-
  The pointer forest itself: `Pollard` / `polNode` (pollard.go, polnode.go, `Pollard.Prove` /
  `Pollard.Verify` in prove.go) transliterated onto an explicit heap.  Core Lean only,
  executable; replayed against the Go code by `Driver/PollardHeap.lean`.

  ## Representation

  * the Go heap of `polNode`s is `heap : Array (PolNode H)`; a `*polNode` is `Ptr = Option Nat`
    (`none` = `nil`, `some i` = the node allocated `i`-th).  `&polNode{…}` / `new(polNode)`
    is `alloc` (push; the pointer is the old size, so live pointers never move and pointer
    equality is index equality).  Go's garbage collector is not modelled: unreachable nodes
    stay in the array (nothing observes them).
  * dereferencing `nil` (`n.aunt`, `n.lNiece.remember`, …) is `.panic`; Go errors are `.err`;
    loops that Go does not bound structurally run on fuel and yield `.hang` (see each
    function for what exhaustion means);
  * `Pollard.Roots []*polNode` is `roots : List Nat`: no path of the Go code leaves a `nil`
    in `p.Roots` (`undoEmptyRoots` appends `nil` only to shift and overwrite it; `undoSingleAdd`
    appends `lNiece, rNiece` only after `swapNieces(lNiece, rNiece)` dereferenced both);
  * **`NodeMap map[miniHash]*polNode` is modelled with the FULL 32-byte hash as the key**
    (`nodeMap : List (H × Nat)`, an association list with Go's overwrite-on-insert
    semantics).  Go keys the map by the first 12 bytes (`Hash.mini()`); two hashes that
    share their first 12 bytes collide in Go and not here — prefix collisions are OUT OF
    SCOPE of this model (the harness generates leaves that are distinct in the first 12
    bytes);
  * `sort.Slice` is modelled by a stable insertion sort (`Model.sortBy`); the sorted keys
    are positions, which are distinct for every honest input (for `[]uint64` stability is
    unobservable anyway).

  ## Effects

  Every function is a state transformer `PM H α = Pollard H → Out α × Pollard H`: the state
  is RETAINED on `.err` / `.panic` / `.hang` (Go mutates in place, so a failing `Modify`
  leaves a half-updated forest behind; the model leaves the same one).  Statements are in Go
  order and every statement re-reads the heap, so aliasing between the pointers involved
  (e.g. `swapNieces(a, a)`) behaves as in Go.
-/
import UtreexoVerif.Model.Verifiers
import UtreexoVerif.Model.PollardAbs

namespace UtreexoVerif.Model.PollardHeap
open UtreexoVerif UtreexoVerif.GoInt UtreexoVerif.Model Hasher

/-- `*polNode` -/
abbrev Ptr := Option Nat

/-- `type polNode struct { lNiece, rNiece *polNode; aunt *polNode; data Hash; remember bool }` -/
structure PolNode (H : Type) where
  lNiece : Ptr := none
  rNiece : Ptr := none
  aunt : Ptr := none
  data : H
  remember : Bool := false
deriving Repr, DecidableEq

/-- `type Pollard struct { NodeMap; Roots; NumLeaves; NumDels; full }` plus the heap -/
structure Pollard (H : Type) where
  heap : Array (PolNode H) := #[]
  /-- `NodeMap`, keyed by the full hash (see the header) -/
  nodeMap : List (H × Nat) := []
  roots : List Nat := []
  numLeaves : U64 := 0#64
  numDels : U64 := 0#64
  full : Bool := true
deriving Repr

/-- `NewAccumulator()` -/
def newAccumulator {H : Type} : Pollard H := {}

/-! ### the effect monad -/

def PM (H : Type) (α : Type) := Pollard H → Out α × Pollard H

section
variable {H : Type}

@[inline] def PM.pure {α} (a : α) : PM H α := fun s => (.ok a, s)
@[inline] def PM.bind {α β} (x : PM H α) (f : α → PM H β) : PM H β := fun s =>
  match x s with
  | (.ok a, s') => f a s'
  | (.err, s') => (.err, s')
  | (.panic, s') => (.panic, s')
  | (.hang, s') => (.hang, s')

instance : Monad (PM H) where
  pure := PM.pure
  bind := PM.bind

@[inline] def err {α} : PM H α := fun s => (.err, s)
@[inline] def panic {α} : PM H α := fun s => (.panic, s)
@[inline] def hang {α} : PM H α := fun s => (.hang, s)
@[inline] def liftOut {α} (o : Out α) : PM H α := fun s => (o, s)
@[inline] def getS : PM H (Pollard H) := fun s => (.ok s, s)
@[inline] def modifyS (f : Pollard H → Pollard H) : PM H Unit := fun s => (.ok (), f s)
/-- a call whose `error` result the Go code discards (`transferAunt(a, b)` as a statement) -/
@[inline] def ignoreErr (x : PM H Unit) : PM H Unit := fun s =>
  match x s with
  | (.err, s') => (.ok (), s')
  | r => r

/-- `*p`: a `nil` pointer panics -/
@[inline] def deref (p : Ptr) : PM H Nat :=
  match p with
  | some i => PM.pure i
  | none => panic
/-- the node a (non-nil) pointer points to -/
@[inline] def node (i : Nat) : PM H (PolNode H) := fun s =>
  match s.heap[i]? with
  | some n => (.ok n, s)
  | none => (.panic, s)       -- a dangling index: never produced by `alloc`
/-- read through a pointer -/
@[inline] def rd (p : Ptr) : PM H (PolNode H) := do node (← deref p)
@[inline] def setNode (i : Nat) (f : PolNode H → PolNode H) : PM H Unit :=
  modifyS fun s => { s with heap := s.heap.modify i f }
/-- `&polNode{…}` -/
@[inline] def alloc (n : PolNode H) : PM H Nat := fun s =>
  (.ok s.heap.size, { s with heap := s.heap.push n })
@[inline] def heapSize : PM H Nat := fun s => (.ok s.heap.size, s)
@[inline] def getRoots : PM H (List Nat) := fun s => (.ok s.roots, s)
@[inline] def setRoots (r : List Nat) : PM H Unit := modifyS fun s => { s with roots := r }
@[inline] def getNumLeaves : PM H U64 := fun s => (.ok s.numLeaves, s)
@[inline] def getFull : PM H Bool := fun s => (.ok s.full, s)

end

/-! ### `NodeMap` (association list, full-hash keys) -/
section
variable {H : Type} [DecidableEq H]

def mapGet (m : List (H × Nat)) (k : H) : Option Nat := m.lookup k
/-- `m[k] = v` -/
def mapSet (m : List (H × Nat)) (k : H) (v : Nat) : List (H × Nat) :=
  if (m.lookup k).isSome then m.map (fun e => if e.1 = k then (k, v) else e) else (k, v) :: m
/-- `delete(m, k)` -/
def mapDel (m : List (H × Nat)) (k : H) : List (H × Nat) := m.filter (fun e => !(e.1 = k))

@[inline] def nodeMapGet (k : H) : PM H (Option Nat) := fun s => (.ok (mapGet s.nodeMap k), s)
@[inline] def nodeMapSet (k : H) (v : Nat) : PM H Unit :=
  modifyS fun s => { s with nodeMap := mapSet s.nodeMap k v }
@[inline] def nodeMapDel (k : H) : PM H Unit :=
  modifyS fun s => { s with nodeMap := mapDel s.nodeMap k }
end

section
variable {H : Type} [DecidableEq H] [Hasher H]

/-! ### polnode.go -/

/-- `func (n *polNode) getSibling() (*polNode, error)` -/
def getSibling (n : Ptr) : PM H Ptr := do
  let nn ← rd n
  let aunt := nn.aunt
  match aunt with
  | none => pure none                        -- I'm a root so I have no sibling.
  | some a =>
    let an ← node a
    if an.lNiece = n then pure an.rNiece
    else if an.rNiece = n then pure an.lNiece
    else err

/-- `func (n *polNode) getParent() (*polNode, error)` -/
def getParent (n : Ptr) : PM H Ptr := do
  let nn ← rd n
  let aunt := nn.aunt
  match aunt with
  | none => pure none
  | some a =>
    let an ← node a
    match an.aunt with
    | none => pure (some a)                  -- my aunt is a root so my aunt is my parent
    | some aa =>
      let aan ← node aa
      if aan.lNiece = some a then pure aan.rNiece
      else if aan.rNiece = some a then pure aan.lNiece
      else err

/-- `func (n *polNode) getChildren() (*polNode, *polNode, error)` -/
def getChildren (n : Ptr) : PM H (Ptr × Ptr) := do
  let nn ← rd n
  let aunt := nn.aunt
  match aunt with
  | none => pure (nn.lNiece, nn.rNiece)      -- roots point to their children
  | some _ =>
    let sibling ← getSibling n
    match sibling with
    | none => err
    | some s =>
      let sn ← node s
      pure (sn.lNiece, sn.rNiece)

/-- the `for h := int(branchLen) - 1; h >= 0; h--` loop of `getNode`; state `(n, sibling,
parent)` with `n` non-nil (checked at the end of every iteration) -/
def getNodeLoop : Nat → U64 → Nat → Ptr → Ptr → PM H (Ptr × Ptr × Ptr)
  | 0, _, n, sibling, parent => pure (some n, sibling, parent)
  | h+1, bits, n, sibling, _ => do
    let parent := sibling
    let nn ← node n
    let (n', sibling') :=
      if PollardAbs.leftNieceAt bits h then (nn.lNiece, nn.rNiece) else (nn.rNiece, nn.lNiece)
    match n' with
    | none => pure (none, none, none)        -- the path to the node doesn't exist
    | some n'' => getNodeLoop h bits n'' sibling' parent

/-- `func (p *Pollard) getNode(pos uint64) (n, sibling, parent *polNode, err error)` -/
def getNode (pos : U64) : PM H (Ptr × Ptr × Ptr) := do
  let numLeaves ← getNumLeaves
  let roots ← getRoots
  if decide (pos ≥ maxPosition (TreeRows numLeaves)) ||
      !inForest pos numLeaves (TreeRows numLeaves) then err
  else
    let (tree, branchLen, bits, e) := DetectOffset pos numLeaves
    if e then err
    else if tree ≥ BitVec.ofNat 8 roots.length then err      -- `tree >= uint8(len(p.Roots))`
    else
      match roots[tree.toNat]? with
      | none => panic                        -- `p.Roots[tree]` out of range (len ≥ 256 only)
      | some r => getNodeLoop branchLen.toNat bits r (some r) none

/-- `func (p *Pollard) getHash(pos uint64) Hash` (= `GetHash`): the error of `getNode` is
swallowed -/
def getHash (pos : U64) : PM H H := fun s =>
  match getNode pos s with
  | (.ok (some n, _, _), s') =>
    (match s'.heap[n]? with
     | some nn => (.ok nn.data, s')
     | none => (.panic, s'))
  | (.ok (none, _, _), s') => (.ok zero, s')
  | (.err, s') => (.ok zero, s')
  | (.panic, s') => (.panic, s')
  | (.hang, s') => (.hang, s')

/-- first loop of `calculatePosition`: `for polNode.aunt != nil { … }`.  Fuel = heap size + 1;
exhaustion means a node was visited twice, i.e. the aunt chain is cyclic and the Go loop
never exits. -/
def climb : Nat → Nat → U64 → Nat → PM H (Nat × U64 × Nat)
  | 0, _, _, _ => hang
  | fuel+1, polNode, lri, rowsToTop => do
    let pn ← node polNode
    match pn.aunt with
    | none => pure (polNode, lri, rowsToTop)
    | some a =>
      let an ← node a
      let lri := if an.lNiece = some polNode then shl lri 1 else (shl lri 1) ||| 1#64
      let lri := if rowsToTop = 0 then lri ^^^ 1#64 else lri
      climb fuel a lri (rowsToTop + 1)

/-- second loop of `calculatePosition`: `for h := 0; h <= int(forestRows); h++`; `rootIdx` is a
Go `int` and `p.Roots[rootIdx]` panics once it is negative (or ≥ len) -/
def findRootRow (numLeaves : U64) (data : H) (roots : List Nat) : Nat → Nat → Int → PM H Int
  | 0, _, _ => pure (-1)
  | fuel+1, h, rootIdx =>
    if ((shr numLeaves h) &&& 1#64) == 1#64 then
      if rootIdx < 0 then panic
      else match roots[rootIdx.toNat]? with
        | none => panic
        | some r => do
          let rn ← node r
          if rn.data = data then pure (h : Int)
          else findRootRow numLeaves data roots fuel (h + 1) (rootIdx - 1)
    else findRootRow numLeaves data roots fuel (h + 1) rootIdx

/-- `func (p *Pollard) calculatePosition(node *polNode) uint64` -/
def calculatePosition (nd : Ptr) : PM H U64 := do
  let start ← deref nd
  let size ← heapSize
  let (top, lri, rowsToTop) ← climb (size + 1) start 0#64 0
  let numLeaves ← getNumLeaves
  let roots ← getRoots
  let forestRows := TreeRows numLeaves
  let topN ← node top
  let rootRow ← findRootRow numLeaves topN.data roots (forestRows.toNat + 1) 0
    ((roots.length : Int) - 1)
  let retPos := rootPosition numLeaves (ofInt 8 rootRow) forestRows
  pure (PollardAbs.descendLoop forestRows lri rowsToTop 0 retPos)

/-- `func (n *polNode) deadEnd() bool` -/
def deadEnd (n : Ptr) : PM H Bool := do
  let nn ← rd n
  pure (nn.lNiece.isNone && nn.rNiece.isNone)

/-- `func delNode(node *polNode)` -/
def delNode (nd : Ptr) : PM H Unit :=
  match nd with
  | none => pure ()
  | some i => do
    let n ← node i
    match n.aunt with
    | some a =>
      let an ← node a
      if an.rNiece = some i then setNode a (fun x => { x with rNiece := none })
      else if an.lNiece = some i then setNode a (fun x => { x with lNiece := none })
      else pure ()
    | none => pure ()
    setNode i (fun x => { x with aunt := none })
    let n ← node i
    match n.lNiece with
    | some l => setNode l (fun x => { x with aunt := none })
    | none => pure ()
    setNode i (fun x => { x with lNiece := none })
    let n ← node i
    match n.rNiece with
    | some r => setNode r (fun x => { x with aunt := none })
    | none => pure ()
    setNode i (fun x => { x with rNiece := none })

/-- `func (n *polNode) prune()`: `||` short-circuits, `deadEnd` dereferences its receiver -/
def prune (n : Ptr) : PM H Unit := do
  let i ← deref n
  let nn ← node i
  let l ← rd nn.lNiece
  let remember ← if l.remember then pure true else do
    let r ← rd nn.rNiece
    pure r.remember
  let nn ← node i
  let d ← deadEnd nn.lNiece
  if d && !remember then
    let nn ← node i
    delNode nn.lNiece
    setNode i (fun x => { x with lNiece := none })
  let nn ← node i
  let d ← deadEnd nn.rNiece
  if d && !remember then
    let nn ← node i
    delNode nn.rNiece
    setNode i (fun x => { x with rNiece := none })

/-- `func (n *polNode) chop()` -/
def chop (n : Ptr) : PM H Unit := do
  let i ← deref n
  let nn ← node i
  delNode nn.lNiece
  let nn ← node i
  delNode nn.rNiece
  setNode i (fun x => { x with lNiece := none })
  setNode i (fun x => { x with rNiece := none })

/-- `func updateAunt(n *polNode)`.  Go recurses; `fuel` bounds the recursion DEPTH (heap size
+ 1 at every call site, which a non-repeating niece path cannot exceed).  `.hang` on
exhaustion: unreachable on well-formed heaps (`Props.PollardHeap`), not claimed to be Go's
behaviour on ill-formed ones. -/
def updateAunt : Nat → Ptr → PM H Unit
  | 0, _ => hang
  | fuel+1, n => do
    let i ← deref n
    let nn ← node i
    match nn.lNiece with
    | some l =>
      let ln ← node l
      if ln.aunt = some i then return ()
      else
        setNode l (fun x => { x with aunt := some i })
        updateAunt fuel (some l)
    | none => pure ()
    let nn ← node i
    match nn.rNiece with
    | some r =>
      let rn ← node r
      if rn.aunt = some i then return ()
      else
        setNode r (fun x => { x with aunt := some i })
        updateAunt fuel (some r)
    | none => pure ()

/-- `updateAunt` with the fuel of the current heap -/
def updateAunt' (n : Ptr) : PM H Unit := do
  let size ← heapSize
  updateAunt (size + 1) n

/-- `func swapPlaces(from, fromSib, to, toSib *polNode)` (unused by the library) -/
def swapPlaces (frm to : Ptr) : PM H Unit := do
  let f ← deref frm
  let t ← deref to
  let fn ← node f
  let tn ← node t
  setNode f (fun x => { x with aunt := tn.aunt })
  setNode f (fun x => { x with lNiece := tn.lNiece })
  setNode f (fun x => { x with rNiece := tn.rNiece })
  setNode t (fun x => { x with aunt := fn.aunt })
  setNode t (fun x => { x with lNiece := fn.lNiece })
  setNode t (fun x => { x with rNiece := fn.rNiece })

/-- `func swapNieces(a, b *polNode)`: the right-hand sides are evaluated first, the
assignments are carried out left to right -/
def swapNieces (a b : Ptr) : PM H Unit := do
  let ai ← deref a
  let bi ← deref b
  let an ← node ai
  let bn ← node bi
  setNode ai (fun x => { x with lNiece := bn.lNiece })
  setNode ai (fun x => { x with rNiece := bn.rNiece })
  setNode bi (fun x => { x with lNiece := an.lNiece })
  setNode bi (fun x => { x with rNiece := an.rNiece })
  updateAunt' a
  updateAunt' b

/-- `func transferNiece(a, b *polNode)` -/
def transferNiece (a b : Ptr) : PM H Unit := do
  let ai ← deref a
  let bi ← deref b
  let bn ← node bi
  setNode ai (fun x => { x with lNiece := bn.lNiece })
  setNode ai (fun x => { x with rNiece := bn.rNiece })
  setNode bi (fun x => { x with lNiece := none })
  setNode bi (fun x => { x with rNiece := none })
  updateAunt' a

/-- `func transferAunt(a, b *polNode) error` -/
def transferAunt (a b : Ptr) : PM H Unit := do
  let ai ← deref a
  let an ← node ai
  match an.aunt with
  | some aa =>
    let aan ← node aa
    if aan.lNiece = some ai then setNode aa (fun x => { x with lNiece := none })
    else if aan.rNiece = some ai then setNode aa (fun x => { x with rNiece := none })
    else err
  | none => pure ()
  let bi ← deref b
  let bn ← node bi
  match bn.aunt with
  | some ba =>
    let ban ← node ba
    if ban.lNiece = some bi then setNode ba (fun x => { x with lNiece := some ai })
    else if ban.rNiece = some bi then setNode ba (fun x => { x with rNiece := some ai })
    else err
  | none => pure ()
  let bn ← node bi
  setNode ai (fun x => { x with aunt := bn.aunt })
  let an ← node ai
  match an.aunt with
  | some _ => updateAunt' an.aunt
  | none => pure ()

/-- `func hashToRoot(node *polNode) error`: `for node != nil`.  Fuel = heap size + 1;
exhaustion means the parent chain revisits a node, i.e. the Go loop never exits. -/
def hashToRoot : Nat → Ptr → PM H Unit
  | _, none => pure ()
  | 0, some _ => hang
  | fuel+1, some i => do
    let (leftChild, rightChild) ← getChildren (some i)
    let l ← rd leftChild
    let r ← rd rightChild
    setNode i (fun x => { x with data := ph l.data r.data })
    let nxt ← getParent (some i)
    hashToRoot fuel nxt

def hashToRoot' (n : Ptr) : PM H Unit := do
  let size ← heapSize
  hashToRoot (size + 1) n

/-- `func getCount(n *polNode) int64`; fuel bounds the recursion depth — on a cyclic niece
structure Go overflows its stack (fatal), reported as `.hang` (does not return) -/
def getCount (hp : Array (PolNode H)) : Nat → Ptr → Out Int
  | _, none => .ok 0
  | 0, some _ => .hang
  | fuel+1, some i =>
    match hp[i]? with
    | none => .panic
    | some n => do
      let a ← getCount hp fuel n.lNiece
      let b ← getCount hp fuel n.rNiece
      pure (a + 1 + b)

/-- `func calculateParentHash(nodePos uint64, node, sibling *polNode) Hash` -/
def calculateParentHash (nodePos : U64) (nd sibling : Ptr) : PM H H := do
  if isLeftNiece nodePos then
    let n ← rd nd
    let s ← rd sibling
    pure (ph n.data s.data)
  else
    let s ← rd sibling
    let n ← rd nd
    pure (ph s.data n.data)

/-- `type nodeAndPos struct { node *polNode; pos uint64 }` (the node is never `nil`) -/
abbrev NP := Nat × U64

/-- `sort.Search(n, f)`: the binary search of the standard library, literally -/
def searchLoop (f : Nat → Bool) : Nat → Nat → Nat → Nat
  | 0, i, _ => i
  | fuel+1, i, j =>
    if i < j then
      let h := (i + j) / 2
      if !f h then searchLoop f fuel (h + 1) j else searchLoop f fuel i h
    else i

/-- `func insertSortNodeAndPos(nodes []nodeAndPos, el nodeAndPos) []nodeAndPos` -/
def insertSortNodeAndPos (nodes : List NP) (el : NP) : List NP :=
  let index := searchLoop (fun i => match nodes[i]? with
    | some x => decide (x.2 > el.2)
    | none => false) (nodes.length + 1) 0 nodes.length
  nodes.take index ++ el :: nodes.drop index

/-- the `for i` loop of `deTwinPolNode`; a merge shortens the slice by one and keeps `i`,
otherwise `i` advances, so `2·len + 1` iterations suffice (`.hang` is unreachable) -/
def deTwinPolNodeLoop (forestRows : U8) : Nat → Nat → List NP → PM H (List NP)
  | 0, _, _ => hang
  | fuel+1, i, polNodes =>
    match polNodes[i]? with
    | none => pure polNodes
    | some pn =>
      match polNodes[i+1]? with
      | some nx =>
        if rightSib pn.2 == nx.2 then do
          let sibNode := nx.1
          swapNieces (some pn.1) (some sibNode)
          let polNodes := (polNodes.eraseIdx i).eraseIdx i
          let pd ← node pn.1
          let sd ← node sibNode
          let parentNode ← alloc { data := ph pd.data sd.data }
          setNode parentNode (fun x => { x with lNiece := some pn.1 })
          setNode parentNode (fun x => { x with rNiece := some sibNode })
          updateAunt' (some parentNode)
          let position := Parent pn.2 forestRows
          let polNodes := insertSortNodeAndPos polNodes (parentNode, position)
          deTwinPolNodeLoop forestRows fuel i polNodes
        else deTwinPolNodeLoop forestRows fuel (i + 1) polNodes
      | none => deTwinPolNodeLoop forestRows fuel (i + 1) polNodes

/-- `func deTwinPolNode(polNodes []nodeAndPos, forestRows uint8) []nodeAndPos` -/
def deTwinPolNode (polNodes : List NP) (forestRows : U8) : PM H (List NP) :=
  deTwinPolNodeLoop forestRows (2 * polNodes.length + 1) 0 polNodes

/-! ### pollard.go: additions -/

/-- the loop of `calculateNewRoot`: `for h := uint8(0); (p.NumLeaves>>h)&1 == 1; h++`.
`NumLeaves>>64 = 0`, so at most 65 tests are made (`.hang` is unreachable with fuel 65). -/
def calculateNewRootLoop : Nat → Nat → Nat → PM H Nat
  | 0, _, _ => hang
  | fuel+1, h, nd => do
    let numLeaves ← getNumLeaves
    if ((shr numLeaves h) &&& 1#64) == 1#64 then
      -- Grab and pop off the root that will become a node.
      let roots ← getRoots
      match roots.getLast? with
      | none => panic
      | some root =>
        setRoots roots.dropLast
        let rn ← node root
        if rn.data = zero then calculateNewRootLoop fuel (h + 1) nd
        else
          -- Roots point to their children. Those children become nieces here.
          swapNieces (some root) (some nd)
          let rn ← node root
          let nn ← node nd
          let nHash := ph rn.data nn.data
          let newRoot ← alloc { data := nHash, lNiece := some root, rNiece := some nd }
          if (← getFull) then setNode newRoot (fun x => { x with remember := true })
          updateAunt' (some newRoot)
          prune (some newRoot)
          calculateNewRootLoop fuel (h + 1) newRoot
    else pure nd

/-- `func (p *Pollard) calculateNewRoot(node *polNode) *polNode` -/
def calculateNewRoot (nd : Nat) : PM H Nat := calculateNewRootLoop 65 0 nd

/-- one iteration of the loop of `add` -/
def addOne (add : H × Bool) : PM H Unit := do
  let nd ← alloc { data := add.1, remember := add.2 }
  if (← getFull) then setNode nd (fun x => { x with remember := true })
  let n ← node nd
  if n.remember then nodeMapSet add.1 nd
  let newRoot ← calculateNewRoot nd
  modifyS fun s => { s with roots := s.roots ++ [newRoot] }
  modifyS fun s => { s with numLeaves := s.numLeaves + 1#64 }

/-- `func (p *Pollard) add(adds []Leaf)`; a `Leaf` is `(Hash, Remember)` -/
def add : List (H × Bool) → PM H Unit
  | [] => pure ()
  | a :: rest => do addOne a; add rest

/-! ### pollard.go: deletions -/

/-- `func (p *Pollard) deleteFromMap(delHashes []Hash)` -/
def deleteFromMap : List H → PM H Unit
  | [] => pure ()
  | d :: rest => do nodeMapDel d; deleteFromMap rest

/-- `func (p *Pollard) deleteRoot(del uint64) error` -/
def deleteRoot (del : U64) : PM H Unit := do
  let numLeaves ← getNumLeaves
  let roots ← getRoots
  let (tree, _, _, e) := DetectOffset del numLeaves
  if e then err
  else if tree > ofInt 8 ((roots.length : Int) - 1) then err     -- `tree > uint8(len(p.Roots)-1)`
  else
    match roots[tree.toNat]? with
    | none => panic
    | some r =>
      let rn ← node r
      nodeMapDel rn.data
      match rn.lNiece with
      | some l => setNode l (fun x => { x with aunt := none })
      | none => pure ()
      let rn ← node r
      match rn.rNiece with
      | some rr => setNode rr (fun x => { x with aunt := none })
      | none => pure ()
      chop (some r)
      setNode r (fun x => { x with aunt := none })
      setNode r (fun x => { x with data := zero })

/-- `func (p *Pollard) deleteSingle(del uint64) error` -/
def deleteSingle (del : U64) : PM H Unit := do
  -- Fetch all the needed nodes.
  let frm := sibling del
  let (fromNode, fromNodeSib, _) ← getNode frm
  let toNode ← getParent fromNodeSib
  let fsib ← rd fromNodeSib
  let toSib := fsib.aunt
  let tn ← rd toNode
  -- If the position I'm moving to has an aunt, I'm not becoming a root.
  match tn.aunt with
  | some _ =>
    ignoreErr (transferAunt fromNode toNode)      -- error discarded by the Go code
    transferNiece fromNode toNode
    transferNiece toSib fromNodeSib
    let tn ← rd toNode
    updateAunt' tn.aunt
  | none =>
    -- My data is given to the root: `*toNode = *fromNode`
    let fnode ← rd fromNode
    let ti ← deref toNode
    setNode ti (fun _ => fnode)
    transferNiece toNode fromNodeSib
    updateAunt' toNode
    delNode fromNode
    -- If the node was a leaf, update the map to point to the root.
    let tn ← node ti
    let found ← nodeMapGet tn.data
    if found.isSome then nodeMapSet tn.data ti
  -- Delete the node from the map.
  let fsib ← rd fromNodeSib
  nodeMapDel fsib.data
  delNode fromNodeSib
  let numLeaves ← getNumLeaves
  let totalRows := TreeRows numLeaves
  let to := Parent del totalRows
  let ti ← deref toNode
  if isRootPosition to numLeaves then
    setNode ti (fun x => { x with aunt := none })
  else
    let parentNode ← getParent toNode
    -- `toNode.aunt, err = parentNode.getSibling()`: both results are assigned
    let r ← (fun s => match getSibling parentNode s with
      | (.ok a, s') => ((.ok (a, false), s') : Out (Ptr × Bool) × Pollard H)
      | (.err, s') => (.ok (none, true), s')
      | (.panic, s') => (.panic, s')
      | (.hang, s') => (.hang, s'))
    setNode ti (fun x => { x with aunt := r.1 })
    if r.2 then err
    else
      let tn ← node ti
      if tn.aunt.isNone then setNode ti (fun x => { x with aunt := parentNode })
      hashToRoot' parentNode

/-- the `for _, del := range dels` loop of `remove` -/
def removeLoop : List U64 → PM H Unit
  | [] => pure ()
  | del :: rest => do
    let numLeaves ← getNumLeaves
    if isRootPosition del numLeaves then deleteRoot del else deleteSingle del
    removeLoop rest

/-- `func (p *Pollard) remove(dels []uint64) error` -/
def remove (dels : List U64) : PM H Unit := do
  let dels := sortU64 dels
  let numLeaves ← getNumLeaves
  let totalRows := TreeRows numLeaves
  let dels := deTwin dels totalRows
  removeLoop dels

/-- `func (p *Pollard) Modify(adds []Leaf, delHashes []Hash, proof Proof) error`
(only `proof.Targets` is used) -/
def modify (adds : List (H × Bool)) (delHashes : List H) (targets : List U64) : PM H Unit := do
  let delCount := targets.length
  deleteFromMap delHashes
  remove targets
  modifyS fun s => { s with numDels := s.numDels + BitVec.ofNat 64 delCount }
  add adds

/-! ### pollard.go: undo -/

/-- the `for row := int(lowestRootRow); row >= 0; row--` loop of `undoSingleAdd`; `rows` =
iterations left (`row + 1`); `row = -1` in the body ends the loop -/
def undoSingleAddLoop : Nat → PM H Unit
  | 0 => pure ()
  | rows+1 => do
    let roots ← getRoots
    match roots.getLast? with
    | none => panic
    | some lowestRoot =>
      setRoots roots.dropLast
      let lr ← node lowestRoot
      let (lNiece, rNiece) := (lr.lNiece, lr.rNiece)
      let continue_ ← match lNiece with
        | some l => do
          swapNieces lNiece rNiece
          let r ← deref rNiece
          setNode l (fun x => { x with aunt := none })
          setNode r (fun x => { x with aunt := none })
          modifyS fun s => { s with roots := s.roots ++ [l, r] }
          pure true
        | none => pure false
      let lr ← node lowestRoot
      nodeMapDel lr.data
      delNode (some lowestRoot)
      if continue_ then undoSingleAddLoop rows else pure ()

/-- `func (p *Pollard) undoSingleAdd()` -/
def undoSingleAdd : PM H Unit := do
  let numLeaves ← getNumLeaves
  let lowestRootRow := getLowestRoot numLeaves (TreeRows numLeaves)
  undoSingleAddLoop (lowestRootRow.toNat + 1)
  modifyS fun s => { s with numLeaves := s.numLeaves - 1#64 }

/-- `for i := 0; i < int(numAdds); i++ { p.undoSingleAdd() }` -/
def undoAdds : Nat → PM H Unit
  | 0 => pure ()
  | k+1 => do undoSingleAdd; undoAdds k

/-- `for i >= len(p.Roots) { p.Roots = append(p.Roots, &polNode{remember: p.full}) }` -/
def padRoots : Nat → PM H Unit
  | 0 => pure ()
  | k+1 => do
    let full ← getFull
    let n ← alloc { data := zero, remember := full }
    modifyS fun s => { s with roots := s.roots ++ [n] }
    padRoots k

/-- the `for i, prevRoot := range copyRoots` loop of `undoEmptyRoots` -/
def undoEmptyRootsLoop : Nat → List H → PM H Unit
  | _, [] => pure ()
  | i, prevRoot :: rest => do
    if prevRoot = zero then
      let roots ← getRoots
      padRoots (i + 1 - roots.length)
      let roots ← getRoots
      match roots[i]? with
      | none => panic
      | some r =>
        let rn ← node r
        if rn.data ≠ zero then
          let full ← getFull
          let n ← alloc { data := prevRoot, remember := full }
          modifyS fun s => { s with roots := s.roots.take i ++ n :: s.roots.drop i }
    undoEmptyRootsLoop (i + 1) rest

/-- the `for _, del := range dels` loop of `undoEmptyRoots` (`copyRoots[tree] = empty`) -/
def markEmptied (numLeaves : U64) : List U64 → List H → PM H (List H)
  | [], cr => pure cr
  | del :: rest, cr =>
    if isRootPosition del numLeaves then
      let (tree, _, _, e) := DetectOffset del numLeaves
      if e then err
      else if tree.toNat < cr.length then markEmptied numLeaves rest (cr.set tree.toNat zero)
      else panic
    else markEmptied numLeaves rest cr

/-- `func (p *Pollard) undoEmptyRoots(numAdds uint64, origDels []uint64, prevRoots []Hash) error` -/
def undoEmptyRoots (origDels : List U64) (prevRoots : List H) : PM H Unit := do
  let numLeaves ← getNumLeaves
  let roots ← getRoots
  if (roots.length : Int) ≥ toInt (numRoots numLeaves) then pure ()
  else
    let dels := deTwin (sortU64 origDels) (TreeRows numLeaves)
    let copyRoots ← markEmptied numLeaves dels prevRoots
    undoEmptyRootsLoop 0 copyRoots

/-- `func (p *Pollard) undoSingleDel(node *polNode, pos uint64) error` -/
def undoSingleDel (nd : Nat) (pos : U64) : PM H Unit := do
  let numLeaves ← getNumLeaves
  let totalRows := TreeRows numLeaves
  let siblingPos := Parent pos totalRows
  let (sibling, aunt, _) ← getNode siblingPos
  let pHash ← calculateParentHash pos (some nd) sibling
  let full ← getFull
  let parent ← alloc { data := pHash, remember := full }
  let si ← deref sibling
  let sn ← node si
  -- If the original parent of the deleted node is not a root.
  match sn.aunt with
  | some _ =>
    ignoreErr (transferAunt (some parent) sibling)   -- error discarded by the Go code
    transferNiece (some parent) sibling
    updateAunt' (some parent)
    let ai ← deref aunt
    let an ← node ai
    let auntLNiece := an.lNiece
    let auntRNiece := an.rNiece
    if isLeftNiece pos then
      setNode ai (fun x => { x with lNiece := some nd })
      setNode ai (fun x => { x with rNiece := sibling })
    else
      setNode ai (fun x => { x with lNiece := sibling })
      setNode ai (fun x => { x with rNiece := some nd })
    updateAunt' aunt
    transferNiece sibling (some nd)
    setNode nd (fun x => { x with lNiece := auntLNiece })
    setNode nd (fun x => { x with rNiece := auntRNiece })
    updateAunt' (some nd)
    hashToRoot' (some parent)
  | none =>
    -- `*sibling, *parent = *parent, *sibling` then `sibling, parent = parent, sibling`
    let pn ← node parent
    setNode si (fun _ => pn)
    setNode parent (fun _ => sn)
    let (sibling', parent') := (parent, si)
    if isLeftNiece pos then
      setNode parent' (fun x => { x with lNiece := some nd })
      setNode parent' (fun x => { x with rNiece := some sibling' })
    else
      setNode parent' (fun x => { x with lNiece := some sibling' })
      setNode parent' (fun x => { x with rNiece := some nd })
    updateAunt' (some parent')
    updateAunt' (some sibling')
    let pn ← node parent'
    swapNieces pn.lNiece pn.rNiece
    let sbn ← node sibling'
    let found ← nodeMapGet sbn.data
    if found.isSome then nodeMapSet sbn.data sibling'

/-- the first loop of `undoDels`: allocate a node per deleted leaf and map it -/
def undoDelsAlloc : List U64 → List H → PM H (List NP)
  | d :: ds, h :: hs => do
    let full ← getFull
    let pn ← alloc { data := h, remember := full }
    nodeMapSet h pn
    let rest ← undoDelsAlloc ds hs
    pure ((pn, d) :: rest)
  | _, _ => pure []

/-- the second loop of `undoDels`, from the highest position (`pnps` is passed reversed) -/
def undoDelsLoop : List NP → PM H Unit
  | [] => pure ()
  | pnp :: rest => do
    let numLeaves ← getNumLeaves
    if isRootPosition pnp.2 numLeaves then
      let (tree, _, _, e) := DetectOffset pnp.2 numLeaves
      if e then err
      else
        let roots ← getRoots
        if tree.toNat < roots.length then setRoots (roots.set tree.toNat pnp.1) else panic
    else undoSingleDel pnp.1 pnp.2
    undoDelsLoop rest

/-- `func (p *Pollard) undoDels(dels []uint64, delHashes []Hash) error` -/
def undoDels (dels : List U64) (delHashes : List H) : PM H Unit := do
  if dels.length ≠ delHashes.length then err
  else
    let pnps ← undoDelsAlloc dels delHashes
    let pnps := sortBy (fun (x : NP) => x.2) pnps
    let numLeaves ← getNumLeaves
    let totalRows := TreeRows numLeaves
    let pnps ← deTwinPolNode pnps totalRows
    undoDelsLoop pnps.reverse
    modifyS fun s => { s with numDels := s.numDels - BitVec.ofNat 64 delHashes.length }

/-- `func (p *Pollard) Undo(numAdds uint64, proof Proof, delHashes []Hash, prevRoots []Hash) error`
(only `proof.Targets` is used); `int(numAdds)` is negative from `2^63` on -/
def undo (numAdds : U64) (targets : List U64) (delHashes : List H) (prevRoots : List H) : PM H Unit := do
  undoAdds (if numAdds.toNat < 2 ^ 63 then numAdds.toNat else 0)
  undoEmptyRoots targets prevRoots
  undoDels targets delHashes

/-! ### queries -/

/-- the `for _, root := range p.Roots` loop of `GetRoots` -/
def rootData : List Nat → PM H (List H)
  | [] => pure []
  | r :: rs => do
    let rn ← node r
    let rest ← rootData rs
    pure (rn.data :: rest)

/-- `func (p *Pollard) GetRoots() []Hash` -/
def getRootHashes : PM H (List H) := do
  let roots ← getRoots
  rootData roots

/-- `func (p *Pollard) GetLeafPosition(hash Hash) (uint64, bool)` -/
def getLeafPosition (hash : H) : PM H (U64 × Bool) := do
  match ← nodeMapGet hash with
  | none => pure (0#64, false)
  | some n =>
    let pos ← calculatePosition (some n)
    pure (pos, true)

/-- `func (p *Pollard) Prove(hashes []Hash) (Proof, error)` -/
def prove (hashes : List H) : PM H (List U64 × List H) := do
  let numLeaves ← getNumLeaves
  if hashes.isEmpty || numLeaves == 0#64 then pure ([], [])
  else if numLeaves == 1#64 then pure ([0#64], [])
  else
    let targets ← hashes.mapM (fun wanted => do
      match ← nodeMapGet wanted with
      | none => err
      | some n => calculatePosition (some n))
    let sortedTargets := sortU64 targets
    let (proofPositions, _) := ProofPositions sortedTargets numLeaves (TreeRows numLeaves)
    if proofPositions.isEmpty then pure (targets, [])
    else
      let proofHashes ← proofPositions.mapM (fun proofPos => do
        let hash ← getHash proofPos
        if hash = zero then err else pure hash)
      pure (targets, proofHashes)

/-- `func (p *Pollard) Verify(delHashes []Hash, proof Proof, remember bool) error`
(`remember` is not used by the Go code; the state is not changed) -/
def verify (delHashes : List H) (targets : List U64) (proofHashes : List H) (_remember : Bool) :
    PM H Unit := do
  let numLeaves ← getNumLeaves
  let roots ← getRootHashes
  liftOut (pollardVerify numLeaves roots delHashes targets proofHashes)

/-- `func (p *Pollard) GetTotalCount() int64` -/
def getTotalCount : PM H Int := fun s =>
  let r := s.roots.foldl (fun (acc : Out Int) root => do
    let a ← acc
    let c ← getCount s.heap (s.heap.size + 1) (some root)
    pure (a + c)) (.ok 0)
  (r, s)

/-- `func (p *Pollard) SerializeSize() int` -/
def serializeSize : PM H Int := do
  let count ← getTotalCount
  pure ((count * 32) + 16 + (count * 2))

/-! ### the read-only walker of export_verif.go (`VerifDump`) -/

/-- one dumped node: (position, hash, no children reachable, remember) -/
abbrev DumpNode (H : Type) := U64 × H × Bool × Bool

/-- `walk(n, nieceHolder, pos)`: `n` sits at `pos`, its children hang off `nieceHolder` -/
def dumpWalk (hp : Array (PolNode H)) (rows : U8) : Nat → Ptr → Ptr → U64 → List (DumpNode H) → List (DumpNode H)
  | 0, _, _, _, acc => acc
  | fuel+1, n, holder, pos, acc =>
    match n with
    | none => acc
    | some i =>
      match hp[i]? with
      | none => acc
      | some nn =>
        let (l, r) : Ptr × Ptr := match holder with
          | some hi => (match hp[hi]? with
            | some hn => (hn.lNiece, hn.rNiece)
            | none => (none, none))
          | none => (none, none)
        let acc := (pos, nn.data, l.isNone && r.isNone, nn.remember) :: acc
        if DetectRow pos rows == 0#8 then acc
        else
          let lp := LeftChild pos rows
          let acc := dumpWalk hp rows fuel l r lp acc
          dumpWalk hp rows fuel r l (lp ||| 1#64) acc

/-- every reachable node with the position implied by its place in the niece structure -/
def dumpNodes (p : Pollard H) : List (DumpNode H) :=
  let rows := TreeRows p.numLeaves
  let rootPos := RootPositions p.numLeaves rows
  ((p.roots.zip rootPos).foldl (fun acc (r, pos) => dumpWalk p.heap rows 66 (some r) (some r) pos acc) []).reverse

/-- one dumped node with its identity: (position, heap index, hash, no children reachable,
remember, aunt pointer) -/
structure DumpFull (H : Type) where
  pos : U64
  idx : Nat
  data : H
  leaf : Bool
  remember : Bool
  aunt : Ptr

/-- the same walk as `dumpWalk`, keeping pointer identities -/
def dumpWalkFull (hp : Array (PolNode H)) (rows : U8) : Nat → Ptr → Ptr → U64 → List (DumpFull H) → List (DumpFull H)
  | 0, _, _, _, acc => acc
  | fuel+1, n, holder, pos, acc =>
    match n with
    | none => acc
    | some i =>
      match hp[i]? with
      | none => acc
      | some nn =>
        let (l, r) : Ptr × Ptr := match holder with
          | some hi => (match hp[hi]? with
            | some hn => (hn.lNiece, hn.rNiece)
            | none => (none, none))
          | none => (none, none)
        let acc := { pos := pos, idx := i, data := nn.data, leaf := l.isNone && r.isNone,
                     remember := nn.remember, aunt := nn.aunt : DumpFull H } :: acc
        if DetectRow pos rows == 0#8 then acc
        else
          let lp := LeftChild pos rows
          let acc := dumpWalkFull hp rows fuel l r lp acc
          dumpWalkFull hp rows fuel r l (lp ||| 1#64) acc

/-- every reachable node with its position, heap index and aunt pointer -/
def dumpFull (p : Pollard H) : List (DumpFull H) :=
  let rows := TreeRows p.numLeaves
  let rootPos := RootPositions p.numLeaves rows
  ((p.roots.zip rootPos).foldl (fun acc (r, pos) => dumpWalkFull p.heap rows 66 (some r) (some r) pos acc) []).reverse

/-- `NodeMap` with identities: (data of the mapped node, its `calculatePosition`, its heap index) -/
def dumpMapFull : PM H (List (H × U64 × Nat)) := do
  let s ← getS
  s.nodeMap.mapM (fun e => do
    let n ← node e.2
    let pos ← calculatePosition (some e.2)
    pure (n.data, pos, e.2))

/-- `NodeMap`: for every entry the data of the mapped node and its `calculatePosition` -/
def dumpMap : PM H (List (H × U64)) := do
  let s ← getS
  s.nodeMap.mapM (fun e => do
    let n ← node e.2
    let pos ← calculatePosition (some e.2)
    pure (n.data, pos))

end
end UtreexoVerif.Model.PollardHeap
