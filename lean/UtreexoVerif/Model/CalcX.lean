/-
  An *instrumented twin* of the model of `calculateHashes` (`Model/Calc.lean`): the same code,
  line by line, that additionally returns the list of pairs `(l, r)` it passes to `parentHash`
  (`ph`), in call order.  `Proofs/CalcSoundX.lean` proves that forgetting the log gives back the
  existing model (`calculateHashesX_fst`): same outcome, same nodes, same root candidates.

  The log is what the collision-extracting soundness theorem (`Props/C03x.lean`) draws its
  witnesses from: `hashedPairs n hs ts ps` is a finite list computed from the verifier's input.

  Core Lean only (executable).
-/
import UtreexoVerif.Model.Calc

namespace UtreexoVerif.Model
open UtreexoVerif Hasher

section
variable {H : Type} [DecidableEq H] [Hasher H]

/-- `getNextHash`, also returning the pair handed to `parentHash` (none when a zero hash is
passed through without hashing) -/
def getNextHashX (pos : U64) (hash sibHash : H) : H × List (H × H) :=
  if hash = zero then (sibHash, [])
  else if sibHash = zero then (hash, [])
  else if isLeftNiece pos then (ph hash sibHash, [(hash, sibHash)])
  else (ph sibHash hash, [(sibHash, hash)])

/-- one iteration of the main loop of `calculateHashes` (text of `calcStep`), plus the pairs
hashed in this iteration -/
def calcStepX (numLeaves : U64) (totalRows : U8) (s : CalcSt H) :
    Out (StepOut H × List (H × H)) := do
  if s.row > totalRows then return (.stop s, [])
  match nextLeast s.toProve s.next with
  | none => return (.stop s, [])
  | some fromNext =>
    let (provePos, proveHash, toProve, next, done) :=
      match fromNext, s.toProve, s.next with
      | false, x :: xs, nx => (x.1, x.2, xs, nx, s.done)
      | true, tp, x :: xs => (x.1, x.2, tp, xs, s.done ++ [x])
      | _, tp, nx => (0#64, zero, tp, nx, s.done)   -- unreachable
    let sibFrom : Option Bool :=
      match nextLeast toProve next with
      | some false => match toProve with
        | y :: _ => if provePos != y.1 && rightSib provePos == y.1 then some false else none
        | [] => none
      | some true => match next with
        | y :: _ => if provePos != y.1 && rightSib provePos == y.1 then some true else none
        | [] => none
      | none => none
    let row ← rowCursor numLeaves totalRows provePos 257 s.row
    if isRootPositionOnRow provePos numLeaves row then
      return (.cont { s with toProve := toProve, next := next, done := done, row := row,
                             roots := s.roots ++ [proveHash], rootRows := s.rootRows ++ [row] }, [])
    let (sibHash, toProve, next, done, proof) ←
      (match sibFrom, toProve, next, s.proof with
      | some false, y :: ys, nx, pr => Out.ok (y.2, ys, nx, done, pr)
      | some true, tp, y :: ys, pr => Out.ok (y.2, tp, ys, done ++ [y], pr)
      | some _, _, _, _ => Out.panic  -- unreachable
      | none, tp, nx, p :: ps =>
        if p = zero then Out.err else Out.ok (p, tp, nx, done, ps)
      | none, _, _, [] => Out.err : Out (H × HP H × HP H × HP H × List H))
    let nextHash := getNextHashX provePos proveHash sibHash
    return (.cont { s with toProve := toProve,
                           next := next ++ [(Parent provePos totalRows, nextHash.1)],
                           done := done, proof := proof, row := row }, nextHash.2)

/-- main loop (text of `calcLoop`), plus the pairs hashed from this state on, in call order -/
def calcLoopX (numLeaves : U64) (totalRows : U8) : Nat → CalcSt H → Out (CalcSt H × List (H × H))
  | 0, _ => .hang
  | fuel+1, s => do
    let (so, l) ← calcStepX numLeaves totalRows s
    match so with
    | .stop s => pure (s, l)
    | .cont s =>
      let (sf, l') ← calcLoopX numLeaves totalRows fuel s
      pure (sf, l ++ l')

/-- `calculateHashes` (text of the model), plus every pair passed to `parentHash` -/
def calculateHashesX (numLeaves : U64) (delHashes : Option (List H)) (targets : List U64)
    (proofHashes : List H) : Out (CalcResult H × List (H × H)) := do
  let totalRows := TreeRows numLeaves
  let hashes := match delHashes with
    | some hs => hs
    | none => targets.map (fun _ => zero)
  let toProve ← toHashAndPos targets hashes
  let (s, log) ← calcLoopX numLeaves totalRows (calcFuel targets.length totalRows)
    { toProve := toProve, next := [], done := [], proof := proofHashes, row := 0#8,
      roots := [], rootRows := [] }
  pure ({ nodes := mergeHP (s.done ++ s.next) toProve, roots := s.roots, rootRows := s.rootRows },
        log)

/-- **the pairs `(left, right)` the verifier hashes** on input `(numLeaves, hashes, targets,
proof)`: every argument pair of a `parentHash` call made by `calculateHashes`, in call order
(empty when `calculateHashes` does not return normally) -/
def hashedPairs (numLeaves : U64) (hashes : List H) (targets : List U64) (proofHashes : List H) :
    List (H × H) :=
  match calculateHashesX numLeaves (some hashes) targets proofHashes with
  | .ok r => r.2
  | _ => []

end
end UtreexoVerif.Model
