/-
  Model/Mem.lean — a minimal heap of arrays with Go slice descriptors, for the C17 frame
  theorem (Props/C17.lean).  Core Lean only.

  Go semantics modelled:
  * a slice is a descriptor (array, offset, len, cap); several slices may share an array;
  * `make([]T, n, c)` allocates a new zeroed array;
  * `s[lo:hi]` shares the array (`hi ≤ cap`);
  * `s[i] = v` panics for `i ≥ len`;
  * `append(s, vs…)` writes IN PLACE into the spare capacity when `len+|vs| ≤ cap` (so it
    is visible through every other slice of the same array) and otherwise allocates a new
    array and copies; the appended values are read before anything is written
    (`append(a[:i], a[i+1:]...)` is a memmove);
  * `copy(dst, src)` copies `min len` elements, source read first (memmove).
-/
namespace UtreexoVerif.Model.Mem

/-- the heap: arrays by id (= index); allocation appends a new array -/
structure Heap (α : Type) where
  arrays : List (List α)

/-- Go slice descriptor; `cap` is counted from `off` -/
structure Slice where
  arr : Nat
  off : Nat
  len : Nat
  cap : Nat
  deriving DecidableEq, Repr

variable {α : Type}

/-- overwrite `a` from index `off` with `vs` (writes beyond the end are dropped) -/
def writeAt : List α → Nat → List α → List α
  | a, _, [] => a
  | a, off, v :: vs => writeAt (a.set off v) (off + 1) vs

namespace Heap

def size (h : Heap α) : Nat := h.arrays.length

/-- contents seen through a slice -/
def read (h : Heap α) (s : Slice) : List α := ((h.arrays.getD s.arr []).drop s.off).take s.len

/-- write `vs` into array `id` from index `off` -/
def writeArr (h : Heap α) (id off : Nat) (vs : List α) : Heap α :=
  ⟨h.arrays.set id (writeAt (h.arrays.getD id []) off vs)⟩

/-- `make([]T, n, c)` -/
def alloc (h : Heap α) (n c : Nat) (zero : α) : Heap α × Slice :=
  (⟨h.arrays ++ [List.replicate (max n c) zero]⟩, ⟨h.arrays.length, 0, n, max n c⟩)

/-- `s[i] = v`; `none` = index out of range panic -/
def store (h : Heap α) (s : Slice) (i : Nat) (v : α) : Option (Heap α) :=
  if i < s.len then some (h.writeArr s.arr (s.off + i) [v]) else none

/-- `append(s, vs…)` -/
def append (h : Heap α) (s : Slice) (vs : List α) (zero : α) : Heap α × Slice :=
  if s.len + vs.length ≤ s.cap then
    (h.writeArr s.arr (s.off + s.len) vs, { s with len := s.len + vs.length })
  else
    let content := h.read s ++ vs
    let newCap := 2 * (s.len + vs.length)
    (⟨h.arrays ++ [content ++ List.replicate (newCap - content.length) zero]⟩,
     ⟨h.arrays.length, 0, content.length, max newCap content.length⟩)

/-- `copy(dst, src)`; returns the number of elements copied -/
def copy (h : Heap α) (dst src : Slice) : Heap α × Nat :=
  let n := min dst.len src.len
  (h.writeArr dst.arr dst.off ((h.read src).take n), n)

end Heap

/-- `s[lo:hi]`; `none` = slice bounds out of range panic -/
def Slice.reslice (s : Slice) (lo hi : Nat) : Option Slice :=
  if lo ≤ hi ∧ hi ≤ s.cap then some ⟨s.arr, s.off + lo, hi - lo, s.cap - lo⟩ else none

/-- straight-line slice programs over a register file of slice descriptors; every operation
that yields a slice pushes it as a new register -/
inductive Op (α : Type) where
  | make (n c : Nat)
  | reslice (r lo hi : Nat)
  | store (r i : Nat) (v : α)
  /-- `r[i] = q[j]` -/
  | storeFrom (r i q j : Nat)
  | appendVals (r : Nat) (vs : List α)
  /-- `append(r, q...)` -/
  | appendSlice (r q : Nat)
  | copy (d q : Nat)

/-- the register an operation writes through, if any -/
def Op.dest : Op α → Option Nat
  | .make _ _ => none
  | .reslice _ _ _ => none
  | .store r _ _ => some r
  | .storeFrom r _ _ _ => some r
  | .appendVals r _ => some r
  | .appendSlice r _ => some r
  | .copy d _ => some d

structure St (α : Type) where
  heap : Heap α
  regs : List Slice

/-- one operation; `none` = panic (bad register, index or bounds) -/
def step (zero : α) (st : St α) : Op α → Option (St α)
  | .make n c =>
    let r := st.heap.alloc n c zero
    some ⟨r.1, st.regs ++ [r.2]⟩
  | .reslice r lo hi =>
    match st.regs[r]? with
    | some s =>
      match s.reslice lo hi with
      | some s' => some ⟨st.heap, st.regs ++ [s']⟩
      | none => none
    | none => none
  | .store r i v =>
    match st.regs[r]? with
    | some s =>
      match st.heap.store s i v with
      | some h => some ⟨h, st.regs⟩
      | none => none
    | none => none
  | .storeFrom r i q j =>
    match st.regs[r]?, st.regs[q]? with
    | some s, some t =>
      match (st.heap.read t)[j]? with
      | some v =>
        match st.heap.store s i v with
        | some h => some ⟨h, st.regs⟩
        | none => none
      | none => none
    | _, _ => none
  | .appendVals r vs =>
    match st.regs[r]? with
    | some s =>
      let x := st.heap.append s vs zero
      some ⟨x.1, st.regs ++ [x.2]⟩
    | none => none
  | .appendSlice r q =>
    match st.regs[r]?, st.regs[q]? with
    | some s, some t =>
      let x := st.heap.append s (st.heap.read t) zero
      some ⟨x.1, st.regs ++ [x.2]⟩
    | _, _ => none
  | .copy d q =>
    match st.regs[d]?, st.regs[q]? with
    | some s, some t => some ⟨(st.heap.copy s t).1, st.regs⟩
    | _, _ => none

def run (zero : α) : St α → List (Op α) → Option (St α)
  | st, [] => some st
  | st, op :: rest =>
    match step zero st op with
    | some st' => run zero st' rest
    | none => none

/-- the destination of `op` (if it has one and the register exists) lives in an array with
id ≥ `base`, i.e. one allocated after the heap had `base` arrays -/
def destFresh (base : Nat) (st : St α) (op : Op α) : Bool :=
  match op.dest with
  | none => true
  | some r =>
    match st.regs[r]? with
    | some s => decide (base ≤ s.arr)
    | none => true

/-- along the run, every store/append/copy destination is rooted in an array allocated
after the heap had `base` arrays -/
def writesFresh (zero : α) (base : Nat) : St α → List (Op α) → Bool
  | _, [] => true
  | st, op :: rest =>
    destFresh base st op &&
    (match step zero st op with
     | some st' => writesFresh zero base st' rest
     | none => true)

/-! ### the static discipline the translator's table encodes -/

inductive Tag where
  | fresh
  | param
  deriving DecidableEq, Repr

/-- provenance typing of one operation: writes are allowed only through `fresh`-tagged
registers; slicing and appending keep the tag of their operand; `make` is fresh.
`none` = rejected. -/
def tagStep (tags : List Tag) : Op α → Option (List Tag)
  | .make _ _ => some (tags ++ [.fresh])
  | .reslice r _ _ =>
    match tags[r]? with
    | some t => some (tags ++ [t])
    | none => none
  | .store r _ _ => if tags[r]? = some .fresh then some tags else none
  | .storeFrom r _ _ _ => if tags[r]? = some .fresh then some tags else none
  | .appendVals r _ => if tags[r]? = some .fresh then some (tags ++ [.fresh]) else none
  | .appendSlice r _ => if tags[r]? = some .fresh then some (tags ++ [.fresh]) else none
  | .copy d _ => if tags[d]? = some .fresh then some tags else none

def wellTagged : List Tag → List (Op α) → Bool
  | _, [] => true
  | tags, op :: rest =>
    match tagStep tags op with
    | some tags' => wellTagged tags' rest
    | none => false

end UtreexoVerif.Model.Mem
