/-
  utils.go: the slice-level position functions `deTwin`, `insertInOrder`, `ProofPositions`,
  `proofPosition`, `RootPositions`, `translatePositions` — transliterated.
-/
import UtreexoVerif.Model.Utils
import UtreexoVerif.Model.HashAndPos

namespace UtreexoVerif.Model
open UtreexoVerif

/-- `insertInOrder`: insert before the first element that is greater -/
def insertInOrder : List U64 → U64 → List U64
  | [], el => [el]
  | x :: xs, el => if x > el then el :: x :: xs else x :: insertInOrder xs el

/-- the `for i` loop of `deTwin`; a merge shortens the slice by one and keeps `i`,
otherwise `i` advances, so `2·len + 1` steps suffice -/
def deTwinLoop (rows : U8) : Nat → Nat → List U64 → List U64
  | 0, _, d => d
  | fuel+1, i, d =>
    match d[i]?, d[i+1]? with
    | some a, some b =>
      if rightSib a == b then
        deTwinLoop rows fuel i (insertInOrder ((d.eraseIdx i).eraseIdx i) (Parent a rows))
      else deTwinLoop rows fuel (i+1) d
    | some _, none => d
    | none, _ => d

def deTwin (dels : List U64) (rows : U8) : List U64 := deTwinLoop rows (2 * dels.length + 1) 0 dels

def translatePositions (ps : List U64) (fromRows toRows : U8) : List U64 :=
  ps.map (fun p => translatePos p fromRows toRows)

/-- `RootPositions` -/
def rootPositionsFrom (numLeaves : U64) (totalRows : U8) : Nat → List U64
  | 0 => if rootExistsOnRow numLeaves 0#8 then [rootPosition numLeaves 0#8 totalRows] else []
  | h+1 =>
    (if rootExistsOnRow numLeaves (BitVec.ofNat 8 (h+1)) then [rootPosition numLeaves (BitVec.ofNat 8 (h+1)) totalRows] else [])
      ++ rootPositionsFrom numLeaves totalRows h

def RootPositions (numLeaves : U64) (totalRows : U8) : List U64 :=
  rootPositionsFrom numLeaves totalRows totalRows.toNat

/-- state of the inner loop of `ProofPositions` -/
structure PPSt where
  targets : List U64
  next : List U64
  proofs : List U64

/-- inner `for i` loop of `ProofPositions` on one row -/
def ppInner (numLeaves : U64) (totalRows row : U8) : Nat → Nat → PPSt → PPSt
  | 0, _, s => s
  | fuel+1, i, s =>
    match s.targets[i]? with
    | none => s
    | some target =>
      if target > maxPossiblePosAtRow row totalRows then ppInner numLeaves totalRows row fuel (i+1) s
      else if row != DetectRow target totalRows then ppInner numLeaves totalRows row fuel (i+1) s
      else if isRootPositionOnRowTotalRows target numLeaves row totalRows then
        ppInner numLeaves totalRows row fuel (i+1) s
      else
        let par := Parent target totalRows
        match s.targets[i+1]? with
        | some nxt =>
          if rightSib target == nxt then
            ppInner numLeaves totalRows row fuel (i+2)
              { s with targets := s.targets.set i par, next := s.next ++ [par] }
          else
            ppInner numLeaves totalRows row fuel (i+1)
              { targets := s.targets.set i par, next := s.next ++ [par], proofs := s.proofs ++ [sibling target] }
        | none =>
          ppInner numLeaves totalRows row fuel (i+1)
            { targets := s.targets.set i par, next := s.next ++ [par], proofs := s.proofs ++ [sibling target] }

/-- `slices.Compact` on `[]uint64`, the part after the first element: an element equal to the
last element kept (`prev`) is dropped -/
def compactAux (prev : U64) : List U64 → List U64
  | [] => []
  | x :: xs => if x == prev then compactAux prev xs else x :: compactAux x xs

/-- `slices.Compact(s)`: every run of consecutive equal elements is replaced by its first
element -/
def compactU64 : List U64 → List U64
  | [] => []
  | x :: xs => x :: compactAux x xs

/-- outer `for row` loop: after the row's scan the target list is sorted and compacted
(`slices.Sort(targets); targets = slices.Compact(targets)`) -/
def ppOuter (numLeaves : U64) (totalRows : U8) : Nat → U8 → PPSt → PPSt
  | 0, _, s => s
  | fuel+1, row, s =>
    if row > totalRows then s
    else
      let s := ppInner numLeaves totalRows row (s.targets.length + 1) 0 s
      ppOuter numLeaves totalRows fuel (row + 1) { s with targets := compactU64 (sortU64 s.targets) }

/-- `ProofPositions(targets, numLeaves, totalRows)`: (proof positions, computable positions);
the targets must be sorted -/
def ProofPositions (targets : List U64) (numLeaves : U64) (totalRows : U8) : List U64 × List U64 :=
  let s := ppOuter numLeaves totalRows (totalRows.toNat + 1) 0#8 { targets := targets, next := [], proofs := [] }
  (s.proofs, s.next)

/-- the outer loop of `ProofPositions` BEFORE the repair of finding `C16.proofpositions.nested`
(only `slices.Sort(targets)` after each row, no `slices.Compact`); kept for the theorem that
records the finding (`Props.C16.proofPositions_nested_fails`) -/
def ppOuterOld (numLeaves : U64) (totalRows : U8) : Nat → U8 → PPSt → PPSt
  | 0, _, s => s
  | fuel+1, row, s =>
    if row > totalRows then s
    else
      let s := ppInner numLeaves totalRows row (s.targets.length + 1) 0 s
      ppOuterOld numLeaves totalRows fuel (row + 1) { s with targets := sortU64 s.targets }

/-- `ProofPositions` as it was before the repair (no de-duplication of the per-row target list) -/
def ProofPositionsOld (targets : List U64) (numLeaves : U64) (totalRows : U8) : List U64 × List U64 :=
  let s := ppOuterOld numLeaves totalRows (totalRows.toNat + 1) 0#8 { targets := targets, next := [], proofs := [] }
  (s.proofs, s.next)

/-- `proofPosition` (single target) -/
def proofPositionLoop (numLeaves : U64) (totalRows : U8) : Nat → U64 → List U64 → List U64
  | 0, _, acc => acc
  | fuel+1, pos, acc =>
    if isRootPositionTotalRows pos numLeaves totalRows then acc
    else proofPositionLoop numLeaves totalRows fuel (Parent pos totalRows) (acc ++ [sibling pos])

def proofPosition (target numLeaves : U64) (totalRows : U8) : List U64 :=
  let h := DetectRow target totalRows
  if h > totalRows then []
  else proofPositionLoop numLeaves totalRows (totalRows.toNat - h.toNat + 1) target []

end UtreexoVerif.Model
