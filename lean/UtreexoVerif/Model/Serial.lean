/-
  Model of the two wire formats and of the I/O they are moved through (property C13).

  (a) the pointer-forest format (`Pollard.WriteTo` / `writeOne`) DEFINED ON THE
      SPECIFICATION FOREST (`Spec.Forest`): `encodePollard`;
  (b) the `MapPollard.Write` format as a function of (TotalRows, NumLeaves, cached list,
      node list) in a given map-iteration order: `encodeMap`;
  (c) a reader model (`Reader`: a list of chunks, each `Read` call returns at most what is
      left of the next chunk, the last one possibly together with `io.EOF`; `readFull` is
      `io.ReadFull` on top of it) and the decoders `RestorePollardFrom`/`readOne`
      (`restorePollard`/`readOne`) and `MapPollard.Read` (`mapRead`) in Go's statement
      order, returning the byte count Go returns together with the outcome;
  (d) a writer model (`Sink`: accepts `room` bytes, then every `Write` fails) and the
      writers `WriteTo`/`writeOne` (`writeTo`/`writeOne`), `MapPollard.Write` (`mapWrite`)
      and `SerializeSize` in Go's statement order (`wr` is one
      `n, err := w.Write(p); if err != nil { return totalBytes, err }; totalBytes += n` group).

  Every function returns a `Res`: the byte count Go returns (also on the error paths, with
  their quirks: `MapPollard.Read` returns the size of the last read on two of them) and the
  outcome.  The code modelled is /repo at f320ce3 or later (io.ReadFull per field, ef08fe5;
  remember byte cleared per node, 9f4c57a; a stream ending at the start of a node is an
  error, f320ce3).  `MapPollard.Read` reads INTO its receiver without clearing the maps;
  the property (and `Props/C13`) restores into a fresh receiver.

  The pointer forest is represented by `PNode` (data + both nieces or none) — the shape
  `readOne` builds; `PState.ofForest` is the pointer forest of a specification forest
  (aunt/niece form: a root points to its children, any other node to its sibling's
  children).  Core Lean only (compiled into the driver).
-/
import UtreexoVerif.Spec.Forest
import UtreexoVerif.Model.Outcome
import UtreexoVerif.Model.Utils

namespace UtreexoVerif.Model.Serial
open UtreexoVerif Hasher Spec GoInt

abbrev Byte := U8

/-- the 32-byte wire form of a hash (`Hash` is `[32]byte` in Go; here hashes are abstract) -/
class HashBytes (H : Type) where
  toBytes : H → List Byte
  ofBytes : List Byte → H
export HashBytes (toBytes ofBytes)

-- ---------------------------------------------------------------- integers on the wire

/-- `binary.LittleEndian.PutUint64` -/
def le64 (x : U64) : List Byte :=
  let n := x.toNat
  [BitVec.ofNat 8 n, BitVec.ofNat 8 (n / 2^8), BitVec.ofNat 8 (n / 2^16), BitVec.ofNat 8 (n / 2^24),
   BitVec.ofNat 8 (n / 2^32), BitVec.ofNat 8 (n / 2^40), BitVec.ofNat 8 (n / 2^48), BitVec.ofNat 8 (n / 2^56)]

/-- `binary.LittleEndian.Uint64` (of an 8-byte buffer) -/
def unle64 (bs : List Byte) : U64 :=
  BitVec.ofNat 64 (bs.foldr (fun b acc => b.toNat + 256 * acc) 0)

def flag (b : Bool) : Byte := if b then 1#8 else 0#8

-- ---------------------------------------------------------------- (c) readers

/-- A conforming `io.Reader` over a finite stream: the bytes arrive in `chunks`; one `Read`
call returns at most what is left of the first chunk (an empty chunk is a `0, nil` read);
after the last chunk `Read` returns `0, io.EOF` — or, when `eofWithData`, the read that
delivers the end of the last chunk already returns `io.EOF` (`iotest.DataErrReader`). -/
structure Reader where
  chunks : List (List Byte)
  eofWithData : Bool := false
deriving Repr

/-- the stream the reader delivers -/
def Reader.data (r : Reader) : List Byte := r.chunks.flatten

/-- the reader handing out `bs` in one piece (`bytes.Reader`) -/
def Reader.whole (bs : List Byte) : Reader := ⟨[bs], false⟩

/-- The loop of `io.ReadAtLeast`:
`for n < min && err == nil { nn, err = r.Read(buf[n:]); n += nn }`
with `need = min - n` and `acc = buf[:n]`; returns (buf[:n], err == io.EOF, remaining chunks).
Each `Read(buf[n:])` returns the whole first chunk when it fits (with `io.EOF` when it is the
last one of a data-with-EOF reader), otherwise its first `need` bytes. -/
def readLoop (ewd : Bool) : List (List Byte) → Nat → List Byte → List Byte × Bool × List (List Byte)
  | chunks, 0, acc => (acc, false, chunks)
  | [], _+1, acc => (acc, true, [])
  | c :: rest, need+1, acc =>
    if c.length ≤ need + 1 then
      if ewd && rest.isEmpty then (acc ++ c, true, rest)
      else readLoop ewd rest (need + 1 - c.length) (acc ++ c)
    else (acc ++ c.take (need + 1), false, c.drop (need + 1) :: rest)

/-- what `io.ReadFull(r, buf)` returns -/
inductive RF where
  /-- `len(buf), nil` with the buffer contents -/
  | full (bs : List Byte)
  /-- `0, io.EOF` -/
  | eof
  /-- `n, io.ErrUnexpectedEOF` with `0 < n < len(buf)` -/
  | unexpected (n : Nat)
deriving Repr, DecidableEq

/-- `io.ReadFull(r, buf)` with `len(buf) = k`: after the loop, `n >= min` gives `nil` (an
`io.EOF` that came with the data is dropped), `n == 0` keeps `io.EOF`, otherwise
`io.ErrUnexpectedEOF`. -/
def readFull (r : Reader) (k : Nat) : RF × Reader :=
  let res := readLoop r.eofWithData r.chunks k []
  let r' : Reader := { r with chunks := res.2.2 }
  if k ≤ res.1.length then (.full res.1, r')
  else if res.1.length = 0 then (.eof, r')
  else (.unexpected res.1.length, r')

-- ---------------------------------------------------------------- (d) writers

/-- An `io.Writer` that accepts `room` more bytes and then fails: a `Write(p)` with
`len(p) <= room` returns `len(p), nil`, any other returns `room, err` (short write). -/
structure Sink where
  written : List Byte := []
  room : Nat
deriving Repr

/-- one `w.Write(p)`: (n, err != nil, sink afterwards) -/
def Sink.write (s : Sink) (p : List Byte) : Nat × Bool × Sink :=
  if p.length ≤ s.room then (p.length, false, { written := s.written ++ p, room := s.room - p.length })
  else (s.room, true, { written := s.written ++ p.take s.room, room := 0 })

/-- a Go call returning `(count, error)` (plus a value when it succeeds): the count Go
returns and the outcome -/
structure Res (α : Type) where
  n : Nat
  out : Out α
deriving Repr

/-- an error/panic/hang outcome carried to another result type -/
def failAs {α β : Type} : Out α → Out β
  | .ok _ => .err
  | .err => .err
  | .panic => .panic
  | .hang => .hang

/-- One Go statement group
`n, err := w.Write(p); if err != nil { return totalBytes, err }; totalBytes += n`
followed by the rest `k` of the function (which receives the new `totalBytes` and the sink). -/
def wr (p : List Byte) (total : Nat) (w : Sink) (k : Nat → Sink → Res Unit × Sink) : Res Unit × Sink :=
  match w.write p with
  | (_, true, w') => (⟨total, .err⟩, w')
  | (wrote, false, w') => k (total + wrote) w'

-- ---------------------------------------------------------------- the pointer forest

/-- a `polNode`: its hash and either no nieces or both (the only shapes `readOne` builds
and the only ones a full pollard has) -/
inductive PNode (H : Type) where
  | dead (data : H)
  | fork (data : H) (l r : PNode H)
deriving Repr, DecidableEq

namespace PNode
variable {H : Type}
def data : PNode H → H
  | .dead d => d
  | .fork d _ _ => d
/-- `deadEnd()`: both nieces nil -/
def deadEnd : PNode H → Bool
  | .dead _ => true
  | .fork _ _ _ => false
/-- `getCount` -/
def count : PNode H → Nat
  | .dead _ => 1
  | .fork _ l r => l.count + 1 + r.count
end PNode

/-- `Pollard.NodeMap`: 12-byte key ↦ node, the node represented by its hash; in the order
of first insertion -/
abbrev NodeMap (H : Type) := List (List Byte × H)

/-- Go `m[k] = v` -/
def NodeMap.put {H : Type} : NodeMap H → List Byte → H → NodeMap H
  | [], k, v => [(k, v)]
  | (k', v') :: rest, k, v => if k' == k then (k, v) :: rest else (k', v') :: NodeMap.put rest k v

/-- the serialised part of a `Pollard` -/
structure PState (H : Type) where
  numLeaves : U64
  numDels : U64
  roots : List (PNode H)
  nodeMap : NodeMap H
deriving Repr, DecidableEq

section Pollard
variable {H : Type} [DecidableEq H] [Hasher H] [HashBytes H]

/-- `Hash.mini()`: the first 12 bytes -/
def mini (h : H) : List Byte := (toBytes h).take 12

-- ---------- (a) the wire format on the specification forest

def isLeafT : CTree H → Bool
  | .leaf _ => true
  | .node _ _ => false

/-- the bytes `writeOne` produces for a non-root node `n` whose sibling is `s`: `n`'s hash,
its leaf flag, its niece flag (= `s` has children), then `s`'s children, each with the other
one as sibling -/
def encNode : CTree H → CTree H → List Byte
  | n, .leaf _ => toBytes n.hash ++ [flag (isLeafT n), 0#8]
  | n, .node sl sr => toBytes n.hash ++ [flag (isLeafT n), 1#8] ++ (encNode sl sr ++ encNode sr sl)

/-- the bytes for one root: a root points to its own children; an empty root is a childless
node with the all-zero hash -/
def encRoot : Option (CTree H) → List Byte
  | none => toBytes (zero : H) ++ [1#8, 0#8]
  | some (.leaf h) => toBytes h ++ [1#8, 0#8]
  | some (.node l r) => toBytes (CTree.node l r).hash ++ [0#8, 1#8] ++ (encNode l r ++ encNode r l)

/-- `NumDels` of a forest: the dead slots -/
def numDead (F : Forest H) : Nat := (F.slots.filter (·.isNone)).length

/-- the stream `Pollard.WriteTo` produces for a full pollard holding the forest `F` -/
def encodePollard (F : Forest H) : List Byte :=
  le64 (BitVec.ofNat 64 F.numLeaves) ++ le64 (BitVec.ofNat 64 (numDead F)) ++
    F.trees.flatMap (fun t => encRoot t.2)

-- ---------- the pointer forest of a specification forest

/-- the `polNode` of the non-root node `n` whose sibling is `s` (it points to `s`'s children) -/
def PNode.ofNode : CTree H → CTree H → PNode H
  | n, .leaf _ => .dead n.hash
  | n, .node sl sr => .fork n.hash (PNode.ofNode sl sr) (PNode.ofNode sr sl)

def PNode.ofRoot : Option (CTree H) → PNode H
  | none => .dead zero
  | some (.leaf h) => .dead h
  | some (.node l r) => .fork (CTree.node l r).hash (PNode.ofNode l r) (PNode.ofNode r l)

/-- the leaves below the non-root node `n` with sibling `s`, in the order `writeOne` meets
them (`n` itself first if it is a leaf, then the leaves among `s`'s descendants) -/
def wireLeavesNode : CTree H → CTree H → List H
  | n, .leaf _ => if isLeafT n then [n.hash] else []
  | n, .node sl sr => (if isLeafT n then [n.hash] else []) ++ (wireLeavesNode sl sr ++ wireLeavesNode sr sl)

def wireLeavesRoot : Option (CTree H) → List H
  | none => []
  | some (.leaf h) => [h]
  | some (.node l r) => wireLeavesNode l r ++ wireLeavesNode r l

/-- the live leaves in the order of the stream -/
def wireLeaves (F : Forest H) : List H := F.trees.flatMap (fun t => wireLeavesRoot t.2)

/-- the `Pollard` holding the forest `F`, as far as it is serialised -/
def PState.ofForest (F : Forest H) : PState H :=
  { numLeaves := BitVec.ofNat 64 F.numLeaves,
    numDels := BitVec.ofNat 64 (numDead F),
    roots := F.trees.map (fun t => PNode.ofRoot t.2),
    nodeMap := (wireLeaves F).map (fun h => (mini h, h)) }

-- ---------- (d) WriteTo / writeOne / SerializeSize

/-- Go `writeOne(n, w)`.  `isLeaf` is the result of `n.getChildren()` being `(nil, nil)`:
for a root its own nieces, otherwise its sibling's (the caller knows the sibling). -/
def writeOne : PNode H → Bool → Sink → Res Unit × Sink
  | n, isLeaf, w =>
    -- wroteBytes, err := w.Write(n.data[:])
    wr (toBytes n.data) 0 w fun total w =>
    -- leaf-ness byte
    wr [flag isLeaf] total w fun total w =>
    match n with
    | .fork _ l r =>
      -- if n.lNiece != nil && n.rNiece != nil
      wr [1#8] total w fun total w =>
      -- the left niece's children are the right niece's nieces, and vice versa
      match writeOne l r.deadEnd w with
      | (⟨lb, .ok _⟩, w) =>
        let total := total + lb
        match writeOne r l.deadEnd w with
        | (⟨rb, .ok _⟩, w) => (⟨total + rb, .ok ()⟩, w)
        | (⟨_, e⟩, w) => (⟨total, failAs e⟩, w)
      | (⟨_, e⟩, w) => (⟨total, failAs e⟩, w)
    | .dead _ =>
      wr [0#8] total w fun total w => (⟨total, .ok ()⟩, w)

/-- the loop `for _, root := range p.Roots` of `WriteTo` -/
def writeRoots : List (PNode H) → Nat → Sink → Res Unit × Sink
  | [], total, w => (⟨total, .ok ()⟩, w)
  | root :: rest, total, w =>
    match writeOne root root.deadEnd w with
    | (⟨b, .ok _⟩, w) => writeRoots rest (total + b) w
    | (⟨_, e⟩, w) => (⟨total, failAs e⟩, w)

/-- Go `(p *Pollard) WriteTo(w)` -/
def writeTo (p : PState H) (w : Sink) : Res Unit × Sink :=
  wr (le64 p.numLeaves) 0 w fun total w =>
  wr (le64 p.numDels) total w fun total w =>
  writeRoots p.roots total w

/-- Go `(p *Pollard) SerializeSize()` -/
def serializeSize (p : PState H) : Nat :=
  let count := (p.roots.map PNode.count).sum
  (count * 32) + 16 + (count * 2)

-- ---------- (c) RestorePollardFrom / readOne

/-- Go `(p *Pollard) readOne(n, r)`: fills the fresh node `n`; returns the node, the node
map and the reader afterwards.  (Since f320ce3 a stream that ends at the start of a node is
an error; before, `io.EOF` there meant "done" and left an empty node.)  `fuel` bounds the recursion depth (every level consumes 34
bytes before it recurses; `restorePollard` supplies more fuel than the stream has bytes). -/
def readOne : Nat → Reader → NodeMap H → Res (PNode H × NodeMap H × Reader)
  | 0, _, _ => ⟨0, .hang⟩
  | fuel+1, r, nm =>
    -- readBytes, err := io.ReadFull(r, n.data[:])
    match readFull r 32 with
    | (.eof, _) => ⟨0, .err⟩              -- if err == io.EOF { err = io.ErrUnexpectedEOF }; return totalBytes, err
    | (.unexpected _, _) => ⟨0, .err⟩     -- return totalBytes, err
    | (.full hb, r) =>
      let data : H := ofBytes hb
      let total := 32
      -- leaf-ness
      match readFull r 1 with
      | (.full lf, r) =>
        let total := total + 1
        -- if buf[0] == 1 { if n.data != empty { p.NodeMap[n.data.mini()] = n } }
        let nm := if lf.headD 0#8 == 1#8 then (if data != zero then nm.put (hb.take 12) data else nm) else nm
        match readFull r 1 with
        | (.full nf, r) =>
          let total := total + 1
          if nf.headD 0#8 == 1#8 then
            -- n.lNiece = &polNode{aunt: n}; leftBytes, err := p.readOne(n.lNiece, r)
            match readOne fuel r nm with
            | ⟨lb, .ok (l, nm, r)⟩ =>
              let total := total + lb
              match readOne fuel r nm with
              | ⟨rb, .ok (rn, nm, r)⟩ => ⟨total + rb, .ok (.fork data l rn, nm, r)⟩
              | ⟨_, e⟩ => ⟨total, failAs e⟩
            | ⟨_, e⟩ => ⟨total, failAs e⟩
          else ⟨total, .ok (.dead data, nm, r)⟩
        | _ => ⟨total, .err⟩
      | _ => ⟨total, .err⟩

/-- the loop `for i := range p.Roots` of `RestorePollardFrom` -/
def readRoots (fuel : Nat) : Nat → Reader → NodeMap H → Nat → Res (List (PNode H) × NodeMap H × Reader)
  | 0, r, nm, total => ⟨total, .ok ([], nm, r)⟩
  | k+1, r, nm, total =>
    match readOne fuel r nm with
    | ⟨b, .ok (n, nm, r)⟩ =>
      match readRoots fuel k r nm (total + b) with
      | ⟨t, .ok (ns, nm, r)⟩ => ⟨t, .ok (n :: ns, nm, r)⟩
      | ⟨t, e⟩ => ⟨t, failAs e⟩
    | ⟨_, e⟩ => ⟨total, failAs e⟩

/-- Go `RestorePollardFrom(r)` -/
def restorePollard (r : Reader) : Res (PState H) :=
  let fuel := r.data.length + 1
  match readFull r 8 with
  | (.full b1, r) =>
    let total := 8
    let numLeaves := unle64 b1
    match readFull r 8 with
    | (.full b2, r) =>
      let total := total + 8
      let numDels := unle64 b2
      -- p.Roots = make([]*polNode, numRoots(p.NumLeaves))
      match readRoots fuel (numRoots numLeaves).toNat r [] total with
      | ⟨total, .ok (roots, nm, _)⟩ =>
        -- sanity check: len(p.NodeMap) != int(p.NumLeaves-p.NumDels)
        if (nm.length : Int) != (numLeaves - numDels).toInt then ⟨total, .err⟩
        else ⟨total, .ok { numLeaves := numLeaves, numDels := numDels, roots := roots, nodeMap := nm }⟩
      | ⟨total, e⟩ => ⟨total, failAs e⟩
    | _ => ⟨total, .err⟩
  | _ => ⟨0, .err⟩

end Pollard

-- ---------------------------------------------------------------- (b) MapPollard

/-- the serialised part of a `MapPollard`; the two Go maps as association lists in the
order in which a `ForEach` walks them -/
structure MapSt (H : Type) where
  totalRows : U8
  numLeaves : U64
  /-- `CachedLeaves`: leaf hash ↦ position -/
  cached : List (H × U64)
  /-- `Nodes`: position ↦ (hash, remember) -/
  nodes : List (U64 × H × Bool)
deriving Repr, DecidableEq

/-- Go `m[k] = v` on an association list: overwrite in place, or append -/
def assocPut {κ ν : Type} [DecidableEq κ] : List (κ × ν) → κ → ν → List (κ × ν)
  | [], k, v => [(k, v)]
  | (k', v') :: rest, k, v => if k' = k then (k, v) :: rest else (k', v') :: assocPut rest k v

def assocGet {κ ν : Type} [DecidableEq κ] : List (κ × ν) → κ → Option ν
  | [], _ => none
  | (k', v') :: rest, k => if k' = k then some v' else assocGet rest k

section Map
variable {H : Type} [DecidableEq H] [HashBytes H]

def encCached (e : H × U64) : List Byte := toBytes e.1 ++ le64 e.2
def encNodeRec (e : U64 × H × Bool) : List Byte := le64 e.1 ++ (toBytes e.2.1 ++ [flag e.2.2])

/-- the stream `MapPollard.Write` produces when the maps are walked in the order of the lists -/
def encodeMap (m : MapSt H) : List Byte :=
  [m.totalRows] ++ le64 m.numLeaves ++
  le64 (BitVec.ofNat 64 m.cached.length) ++ m.cached.flatMap encCached ++
  le64 (BitVec.ofNat 64 m.nodes.length) ++ m.nodes.flatMap encNodeRec

/-- `m.CachedLeaves.ForEach(func(k, v) { w.Write(k[:]); w.Write(le64 v) })`; `total` is the
captured `totalBytes` -/
def writeCached : List (H × U64) → Nat → Sink → Res Unit × Sink
  | [], total, w => (⟨total, .ok ()⟩, w)
  | (k, v) :: rest, total, w =>
    wr (toBytes k) total w fun total w =>
    wr (le64 v) total w fun total w =>
    writeCached rest total w

def writeNodes : List (U64 × H × Bool) → Nat → Sink → Res Unit × Sink
  | [], total, w => (⟨total, .ok ()⟩, w)
  | (k, h, rem) :: rest, total, w =>
    wr (le64 k) total w fun total w =>
    wr (toBytes h ++ [flag rem]) total w fun total w =>
    writeNodes rest total w

/-- Go `(m *MapPollard) Write(w)` -/
def mapWrite (m : MapSt H) (w : Sink) : Res Unit × Sink :=
  wr [m.totalRows] 0 w fun total w =>
  wr (le64 m.numLeaves) total w fun total w =>
  wr (le64 (BitVec.ofNat 64 m.cached.length)) total w fun total w =>
  match writeCached m.cached total w with
  | (⟨total, .ok _⟩, w) =>
    wr (le64 (BitVec.ofNat 64 m.nodes.length)) total w fun total w =>
    writeNodes m.nodes total w
  | (⟨total, e⟩, w) => (⟨total, failAs e⟩, w)

/-- Go `int(x)` for a `uint64` loop bound: the number of iterations of
`for i := 0; i < int(x); i++` (none when `int(x)` is negative) -/
def loopCount (x : U64) : Nat := if x.toNat < 2^63 then x.toNat else 0

/-- first loop of `MapPollard.Read` -/
def readCached : Nat → Reader → List (H × U64) → Nat → Res (List (H × U64) × Reader)
  | 0, r, c, total => ⟨total, .ok (c, r)⟩
  | k+1, r, c, total =>
    match readFull r 32 with
    | (.full hb, r) =>
      let total := total + 32
      match readFull r 8 with
      | (.full pb, r) =>
        let total := total + 8
        readCached k r (assocPut c (ofBytes hb) (unle64 pb)) total
      | _ => ⟨total, .err⟩
    | _ => ⟨total, .err⟩

/-- second loop of `MapPollard.Read`; note `return bytes, err` (the size of the failed read,
not the running total) when the position cannot be read -/
def readNodes : Nat → Reader → List (U64 × H × Bool) → Nat → Res (List (U64 × H × Bool) × Reader)
  | 0, r, ns, total => ⟨total, .ok (ns, r)⟩
  | k+1, r, ns, total =>
    match readFull r 8 with
    | (.full pb, r) =>
      let total := total + 8
      match readFull r 33 with
      | (.full lb, r) =>
        let total := total + 33
        let leaf : H × Bool := (ofBytes (lb.take 32), (lb.drop 32).headD 0#8 == 1#8)
        readNodes k r (assocPut ns (unle64 pb) leaf) total
      | _ => ⟨total, .err⟩
    | (.eof, _) => ⟨0, .err⟩
    | (.unexpected n, _) => ⟨n, .err⟩

/-- the sanity check of `MapPollard.Read`: every cached leaf has its node -/
def sanityOk (cached : List (H × U64)) (nodes : List (U64 × H × Bool)) : Bool :=
  cached.all fun (k, v) =>
    match assocGet nodes v with
    | some leaf => k == leaf.1
    | none => false

/-- Go `(m *MapPollard) Read(r)`: reads INTO the receiver `m` (its maps are not cleared) -/
def mapRead (m : MapSt H) (r : Reader) : Res (MapSt H) :=
  match readFull r 1 with
  | (.full b0, r) =>
    let totalRows := b0.headD 0#8
    let total := 1
    match readFull r 8 with
    | (.full b1, r) =>
      let total := total + 8
      let numLeaves := unle64 b1
      match readFull r 8 with
      | (.full b2, r) =>
        let total := total + 8
        match readCached (loopCount (unle64 b2)) r m.cached total with
        | ⟨total, .ok (cached, r)⟩ =>
          match readFull r 8 with
          | (.full b3, r) =>
            let total := total + 8
            match readNodes (loopCount (unle64 b3)) r m.nodes total with
            | ⟨total, .ok (nodes, _)⟩ =>
              -- `return bytes, err`: the outer `bytes` still holds the size of the last
              -- outer read (the node count, 8)
              if !sanityOk cached nodes then ⟨8, .err⟩
              else ⟨total, .ok { totalRows := totalRows, numLeaves := numLeaves, cached := cached, nodes := nodes }⟩
            | ⟨n, e⟩ => ⟨n, failAs e⟩
          | _ => ⟨total, .err⟩
        | ⟨total, e⟩ => ⟨total, failAs e⟩
      | _ => ⟨total, .err⟩
    | _ => ⟨total, .err⟩
  | _ => ⟨0, .err⟩

/-- the receiver of a fresh `NewMapPollard` -/
def MapSt.fresh : MapSt H := { totalRows := 63#8, numLeaves := 0#64, cached := [], nodes := [] }

end Map

end UtreexoVerif.Model.Serial
