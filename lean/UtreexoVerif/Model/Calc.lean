/-
  prove.go / stump.go: `getNextPos`, `getNextHash`, `calculateHashes`, `Verify`,
  `Pollard.Verify`'s root matching — transliterated.

  Go's `slice + index` queues (`toProve/toProveIdx`, `nextProves/nextProvesIdx`,
  `proof.Proof/proofHashIdx`) are the remaining suffix of a list; `append` is snoc.
  `nextProves` is also returned whole at the end, so the consumed prefix is kept in `done`.
-/
import UtreexoVerif.Model.Utils
import UtreexoVerif.Model.HashAndPos

namespace UtreexoVerif.Model
open UtreexoVerif Hasher

section
variable {H : Type} [DecidableEq H] [Hasher H]

/-- `getNextHash` -/
def getNextHash (pos : U64) (hash sibHash : H) : H :=
  if hash = zero then sibHash
  else if sibHash = zero then hash
  else if isLeftNiece pos then ph hash sibHash else ph sibHash hash

/-- which queue `nextLeastSlice` picks: `0` = first, `1` = second, none = both empty -/
def nextLeast (s1 s2 : HP H) : Option Bool :=
  match s1, s2 with
  | a :: _, b :: _ => some (!(decide (a.1 < b.1)))   -- false = slice 0, true = slice 1
  | _ :: _, [] => some false
  | [], _ :: _ => some true
  | [], [] => none

/-- loop state of `calculateHashes` -/
structure CalcSt (H : Type) where
  toProve : HP H          -- toProve[toProveIdx:]
  next : HP H             -- nextProves[nextProvesIdx:]
  done : HP H             -- nextProves[:nextProvesIdx]
  proof : List H          -- proof.Proof[proofHashIdx:]
  row : U8
  roots : List H          -- calculatedRootHashes
  rootRows : List U8      -- calculatedRootRows

/-- the inner `for provePos > maxPos { row++ … }` loop.  `row` is a `uint8`; after 256
increments it is back at its start value with nothing else changed, so running out of
the 257 units of fuel means the Go loop never exits. -/
def rowCursor (numLeaves : U64) (totalRows : U8) (provePos : U64) : Nat → U8 → Out U8
  | 0, _ => .hang
  | fuel+1, row =>
    if provePos > (maxPositionAtRow row totalRows numLeaves).1 then
      let row := row + 1
      -- positions beyond every row are rejected (before the fix: the uint8 wrapped forever)
      if row > totalRows then .err else rowCursor numLeaves totalRows provePos fuel row
    else .ok row

inductive StepOut (H : Type) where
  | cont (s : CalcSt H)
  | stop (s : CalcSt H)

/-- one iteration of the main loop of `calculateHashes` -/
def calcStep (numLeaves : U64) (totalRows : U8) (s : CalcSt H) : Out (StepOut H) := do
  if s.row > totalRows then return .stop s
  -- getNextPos: take the least front element (ties go to nextProves)
  match nextLeast s.toProve s.next with
  | none => return .stop s
  | some fromNext =>
    let (provePos, proveHash, toProve, next, done) :=
      match fromNext, s.toProve, s.next with
      | false, x :: xs, nx => (x.1, x.2, xs, nx, s.done)
      | true, tp, x :: xs => (x.1, x.2, tp, xs, s.done ++ [x])
      | _, tp, nx => (0#64, zero, tp, nx, s.done)   -- unreachable
    -- sibling: the next least element, if it is the right sibling position and not the
    -- position itself (a repeated right sibling is not its own sibling)
    let sibFrom : Option Bool :=
      match nextLeast toProve next with
      | some false => match toProve with
        | y :: _ => if provePos != y.1 && rightSib provePos == y.1 then some false else none
        | [] => none
      | some true => match next with
        | y :: _ => if provePos != y.1 && rightSib provePos == y.1 then some true else none
        | [] => none
      | none => none
    let row ← rowCursor numLeaves totalRows provePos 257 s.row
    if isRootPositionOnRow provePos numLeaves row then
      return .cont { s with toProve := toProve, next := next, done := done, row := row,
                            roots := s.roots ++ [proveHash], rootRows := s.rootRows ++ [row] }
    let (sibHash, toProve, next, done, proof) ←
      (match sibFrom, toProve, next, s.proof with
      | some false, y :: ys, nx, pr => Out.ok (y.2, ys, nx, done, pr)
      | some true, tp, y :: ys, pr => Out.ok (y.2, tp, ys, done ++ [y], pr)
      | some _, _, _, _ => Out.panic  -- unreachable
      | none, tp, nx, p :: ps =>
        -- an all-zero proof hash is never part of a valid proof
        if p = zero then Out.err else Out.ok (p, tp, nx, done, ps)
      | none, _, _, [] => Out.err : Out (H × HP H × HP H × HP H × List H))
    let nextHash := getNextHash provePos proveHash sibHash
    return .cont { s with toProve := toProve, next := next ++ [(Parent provePos totalRows, nextHash)],
                          done := done, proof := proof, row := row }

/-- main loop; each iteration consumes at least one queued element and produces at most
one, on a strictly higher row, so `(|targets|+1)·(rows+2)` iterations always suffice
(theorem `calc_fuel_enough`) -/
def calcLoop (numLeaves : U64) (totalRows : U8) : Nat → CalcSt H → Out (CalcSt H)
  | 0, _ => .hang
  | fuel+1, s => do
    match ← calcStep numLeaves totalRows s with
    | .stop s => pure s
    | .cont s => calcLoop numLeaves totalRows fuel s

def calcFuel (nTargets : Nat) (totalRows : U8) : Nat := (nTargets + 1) * (totalRows.toNat + 2) + 1

/-- result of `calculateHashes`: (all positions with hashes, root candidates, their rows) -/
structure CalcResult (H : Type) where
  nodes : HP H
  roots : List H
  rootRows : List U8

/-- `calculateHashes(numLeaves, delHashes, proof)`; `delHashes = none` is Go's `nil` -/
def calculateHashes (numLeaves : U64) (delHashes : Option (List H)) (targets : List U64)
    (proofHashes : List H) : Out (CalcResult H) := do
  let totalRows := TreeRows numLeaves
  let hashes := match delHashes with
    | some hs => hs
    | none => targets.map (fun _ => zero)
  let toProve ← toHashAndPos targets hashes
  let s ← calcLoop numLeaves totalRows (calcFuel targets.length totalRows)
    { toProve := toProve, next := [], done := [], proof := proofHashes, row := 0#8,
      roots := [], rootRows := [] }
  pure { nodes := mergeHP (s.done ++ s.next) toProve, roots := s.roots, rootRows := s.rootRows }

/-- index in `Roots` (highest tree first) of the root on `row` -/
def rootIdxOfRow (numLeaves : U64) (row : U8) : Nat :=
  (GoInt.onesCount64 (numLeaves >>> (row.toNat + 1))).toNat

/-- root matching of `Verify`: every candidate must equal the root of its own tree, and no
tree may be reached twice.  Returns the matched root indexes. -/
def matchRoots (numLeaves : U64) (roots : List H) : List H → List U8 → Option U8 → Out (List Nat)
  | [], _, _ => .ok []
  | c :: cs, r :: rs, prev =>
    let idx := rootIdxOfRow numLeaves r
    if prev = some r then .err
    else match roots[idx]? with
      | some h => if h = c then (matchRoots numLeaves roots cs rs (some r)).bind (fun l => .ok (idx :: l)) else .err
      | none => .err
  | _ :: _, [], _ => .panic

/-- stump.go `Verify` -/
def verify (numLeaves : U64) (roots : List H) (delHashes : List H) (targets : List U64)
    (proofHashes : List H) : Out (List Nat) := do
  if delHashes.length ≠ targets.length then .err
  else
    let r ← calculateHashes numLeaves (some delHashes) targets proofHashes
    matchRoots numLeaves roots r.roots r.rootRows none

end
end UtreexoVerif.Model
