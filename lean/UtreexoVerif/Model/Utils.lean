/-
  Model of the integer / bit level functions of utils.go.

  This file is a committed, reviewed copy of the translator's output
  (`/verif/translate/utils2lean`, see `Gen/Utils.lean`, which is REGENERATED from
  /repo/utils.go on every run).  `Gen/UtilsTie.lean` proves `Gen.f = Model.f` for every
  function by `rfl`, so all theorems about these definitions are re-checked against what
  utils.go says now: a change to the arithmetic in the Go source breaks a tie.
-/
import UtreexoVerif.Go.Int
set_option linter.unusedVariables false
namespace UtreexoVerif.Model
open UtreexoVerif UtreexoVerif.GoInt

/-- Go `func LeftChild(position uint64, forestRows uint8) uint64` -/
def LeftChild (position : U64) (forestRows : U8) : U64 :=
  let mask := (shl 2#64 forestRows.toNat) - 1#64
  (shl position 1) &&& mask

/-- Go `func RightChild(position uint64, forestRows uint8) uint64` -/
def RightChild (position : U64) (forestRows : U8) : U64 :=
  let mask := (shl 2#64 forestRows.toNat) - 1#64
  ((shl position 1) &&& mask) ||| 1#64

/-- Go `func ChildMany(position uint64, drop uint8, forestRows uint8) (uint64, error)` -/
def ChildMany (position : U64) (drop : U8) (forestRows : U8) : U64 × Bool :=
  if drop == 0#8 then
    (position, false)
  else
    if decide (drop > forestRows) then
      (0#64, true)
    else
      let mask := (shl 2#64 forestRows.toNat) - 1#64
      ((shl position drop.toNat) &&& mask, false)

/-- Go `func sibling(pos uint64) uint64` -/
def sibling (pos : U64) : U64 :=
  pos ^^^ 1#64

/-- Go `func leftSib(pos uint64) uint64` -/
def leftSib (pos : U64) : U64 :=
  pos &&& ~~~1#64

/-- Go `func rightSib(pos uint64) uint64` -/
def rightSib (pos : U64) : U64 :=
  pos ||| 1#64

/-- Go `func Parent(position uint64, forestRows uint8) uint64` -/
def Parent (position : U64) (forestRows : U8) : U64 :=
  (shr position 1) ||| (shl 1#64 forestRows.toNat)

/-- Go `func ParentMany(position uint64, rise uint8, forestRows uint8) (uint64, error)` -/
def ParentMany (position : U64) (rise : U8) (forestRows : U8) : U64 × Bool :=
  if rise == 0#8 then
    (position, false)
  else
    if decide (rise > forestRows) then
      (0#64, true)
    else
      let mask := (shl 2#64 forestRows.toNat) - 1#64
      (((shr position rise.toNat) ||| (shl mask (conv 64 (forestRows - (rise - 1#8))).toNat)) &&& mask, false)

/-- Go `func isLeftNiece(position uint64) bool` -/
def isLeftNiece (position : U64) : Bool :=
  (position &&& 1#64) == 0#64

/-- Go `func rootPosition(leaves uint64, h uint8, forestRows uint8) uint64` -/
def rootPosition (leaves : U64) (h : U8) (forestRows : U8) : U64 :=
  let mask := (shl 2#64 forestRows.toNat) - 1#64
  let before := leaves &&& (shl mask (h + 1#8).toNat)
  let shifted := (shr before h.toNat) ||| (shl mask ((forestRows + 1#8) - h).toNat)
  shifted &&& mask

/-- Go `func rootExistsOnRow(numLeaves uint64, h uint8) bool` -/
def rootExistsOnRow (numLeaves : U64) (h : U8) : Bool :=
  ((shr numLeaves h.toNat) &&& 1#64) == 1#64

/-- Go `func removeBit(val uint64, bit uint64) uint64` -/
def removeBit (val : U64) (bit : U64) : U64 :=
  let mask := (shl 2#64 bit.toNat) - 1#64
  let upperMask := maxUint64 ^^^ mask
  let upper := val &&& upperMask
  let mask := (shl 1#64 bit.toNat) - 1#64
  let lowerMask := ~~~(maxUint64 ^^^ mask)
  let lower := val &&& lowerMask
  (shr upper 1) ||| lower

/-- Go `func addBit(val uint64, place uint64, bit bool) uint64` -/
def addBit (val : U64) (place : U64) (bit : Bool) : U64 :=
  let mask := (shl 1#64 place.toNat) - 1#64
  let upperMask := maxUint64 ^^^ mask
  let upper := val &&& upperMask
  let upper := shl upper 1
  let lowerMask := ~~~(maxUint64 ^^^ mask)
  let lower := val &&& lowerMask
  if bit then
    (upper ||| lower) ||| (shl 1#64 place.toNat)
  else
    upper ||| lower

/-- the `for` loop of `DetectRow` at utils.go:334 (fuel-bounded) -/
def DetectRow.loop1 (position : U64) : Nat → U64 → U8 → LoopOut (U64 × U8) U8
  | 0, _, _ => .outOfFuel
  | fuel+1, marker, h =>
    if (position &&& marker) != 0#64 then
      let marker := shr marker 1
      let h := h + 1#8
      DetectRow.loop1 position fuel marker h
    else
      .done (marker, h)

/-- Go `func DetectRow(position uint64, forestRows uint8) uint8` -/
def DetectRow (position : U64) (forestRows : U8) : U8 :=
  let marker := shl 1#64 forestRows.toNat
  let h := 0#8
  let h := 0#8
  match DetectRow.loop1 position 300 marker h with
  | .done (marker, h) =>
    h
  | .ret r => r
  | .outOfFuel => default

/-- Go `func calcNextPosition(position uint64, delPos uint64, forestRows uint8) (uint64, error)` -/
def calcNextPosition (position : U64) (delPos : U64) (forestRows : U8) : U64 × Bool :=
  let delRow := DetectRow delPos forestRows
  let posRow := DetectRow position forestRows
  if decide (delRow < posRow) then
    (0#64, true)
  else
    let lowerBits := removeBit position (conv 64 (delRow - posRow))
    let toRow := posRow + 1#8
    let higherBits := shl (shl 1#64 toRow.toNat) (conv 64 (forestRows - toRow)).toNat
    (higherBits ||| lowerBits, false)

/-- Go `func calcPrevPosition(position uint64, delPos uint64, forestRows uint8) uint64` -/
def calcPrevPosition (position : U64) (delPos : U64) (forestRows : U8) : U64 :=
  let delRow := DetectRow delPos forestRows
  let posRow := DetectRow position forestRows
  let mask := ~~~(shl (shl 1#64 posRow.toNat) (conv 64 (forestRows - posRow)).toNat)
  let lowerBits := position
  let lowerBits := lowerBits &&& mask
  let bitToAdd := isLeftNiece delPos
  if decide (delRow < posRow) then
    if isLeftNiece delPos then
      let bitToAdd := true
      let place := conv 64 (delRow - (posRow - 1#8))
      let lowerBits := addBit lowerBits place bitToAdd
      lowerBits
    else
      let bitToAdd := false
      let place := conv 64 (delRow - (posRow - 1#8))
      let lowerBits := addBit lowerBits place bitToAdd
      lowerBits
  else
    let place := conv 64 (delRow - (posRow - 1#8))
    let lowerBits := addBit lowerBits place bitToAdd
    lowerBits

/-- the `for` loop of `getLowestRoot` at utils.go:345 (fuel-bounded) -/
def getLowestRoot.loop1 (numLeaves : U64) (totalRows : U8) : Nat → U8 → LoopOut U8 U8
  | 0, _ => .outOfFuel
  | fuel+1, row =>
    if decide (row <= totalRows) then
      let rootPresent := (numLeaves &&& (shl 1#64 row.toNat)) != 0#64
      if rootPresent then
        .done row
      else
        let row := row + 1#8
        getLowestRoot.loop1 numLeaves totalRows fuel row
    else
      .done row

/-- Go `func getLowestRoot(numLeaves uint64, totalRows uint8) uint8` -/
def getLowestRoot (numLeaves : U64) (totalRows : U8) : U8 :=
  let row := 0#8
  match getLowestRoot.loop1 numLeaves totalRows 300 row with
  | .done row =>
    row
  | .ret r => r
  | .outOfFuel => default

/-- Go `func TreeRows(n uint64) uint8` -/
def TreeRows (n : U64) : U8 :=
  if n == 0#64 then
    0#8
  else
    ofInt 8 (len64 (n - 1#64))

/-- Go `func maxPosition(forestRows uint8) uint64` -/
def maxPosition (forestRows : U8) : U64 :=
  (shl 2#64 forestRows.toNat) - 1#64

/-- Go `func maxLeafCount(forestRows uint8) uint64` -/
def maxLeafCount (forestRows : U8) : U64 :=
  shl 1#64 forestRows.toNat

/-- the `for` loop of `DetectOffset` at utils.go:392 (fuel-bounded) -/
def DetectOffset.loop1 (numLeaves : U64) (nr : U8) : Nat → U64 → Int → U8 → LoopOut (U64 × Int × U8) (U8 × U8 × U64 × Bool)
  | 0, _, _, _ => .outOfFuel
  | fuel+1, position, tRows, biggerTrees =>
    if decide (((shl position nr.toNat) &&& (maxPosition (ofInt 8 tRows))) >= ((maxLeafCount (ofInt 8 tRows)) &&& numLeaves)) then
      if decide (tRows < (0 : Int)) then
        .ret (0#8, 0#8, 0#64, true)
      else
        let treeSize := (shl 1#64 tRows.toNat) &&& numLeaves
        if treeSize != 0#64 then
          let position := position - treeSize
          let biggerTrees := biggerTrees + 1#8
          let tRows := tRows - (1 : Int)
          DetectOffset.loop1 numLeaves nr fuel position tRows biggerTrees
        else
          let tRows := tRows - (1 : Int)
          DetectOffset.loop1 numLeaves nr fuel position tRows biggerTrees
    else
      .done (position, tRows, biggerTrees)

/-- Go `func DetectOffset(position uint64, numLeaves uint64) (uint8, uint8, uint64, error)` -/
def DetectOffset (position : U64) (numLeaves : U64) : U8 × U8 × U64 × Bool :=
  let tRows := toInt (TreeRows numLeaves)
  let nr := DetectRow position (ofInt 8 tRows)
  let origPos := position
  let biggerTrees := 0#8
  match DetectOffset.loop1 numLeaves nr 300 position tRows biggerTrees with
  | .done (position, tRows, biggerTrees) =>
    let position := position ^^^ 1#64
    (biggerTrees, (ofInt 8 tRows) - nr, ~~~position, false)
  | .ret r => r
  | .outOfFuel => default

/-- Go `func numRoots(numLeaves uint64) uint8` -/
def numRoots (numLeaves : U64) : U8 :=
  ofInt 8 (onesCount64 numLeaves)

/-- Go `func startPositionAtRow(row uint8, forestRows uint8) uint64` -/
def startPositionAtRow (row : U8) (forestRows : U8) : U64 :=
  (shl 2#64 forestRows.toNat) - (shl 2#64 (forestRows - row).toNat)

/-- Go `func maxPossiblePosAtRow(row uint8, totalRows uint8) uint64` -/
def maxPossiblePosAtRow (row : U8) (totalRows : U8) : U64 :=
  let mask := (shl 2#64 totalRows.toNat) - 1#64
  ((shl mask (totalRows - row).toNat) &&& mask) - 1#64

/-- Go `func maxPositionAtRow(row uint8, forestRows uint8, numLeaves uint64) (uint64, error)` -/
def maxPositionAtRow (row : U8) (forestRows : U8) (numLeaves : U64) : U64 × Bool :=
  let (max, err) := ParentMany numLeaves row forestRows
  if err then
    (0#64, err)
  else
    if max != 0#64 then
      let max := max - 1#64
      (max, false)
    else
      (max, false)

/-- Go `func translatePos(pos uint64, fromTotalRow uint8, toTotalRow uint8) uint64` -/
def translatePos (pos : U64) (fromTotalRow : U8) (toTotalRow : U8) : U64 :=
  let row := DetectRow pos fromTotalRow
  if row == 0#8 then
    pos
  else
    let offset := pos - (startPositionAtRow row fromTotalRow)
    offset + (startPositionAtRow row toTotalRow)

/-- Go `func isRootPositionOnRow(position uint64, numLeaves uint64, row uint8) bool` -/
def isRootPositionOnRow (position : U64) (numLeaves : U64) (row : U8) : Bool :=
  let rootPresent := (numLeaves &&& (shl 1#64 row.toNat)) != 0#64
  let rootPos := rootPosition numLeaves row (TreeRows numLeaves)
  rootPresent && (rootPos == position)

/-- Go `func isRootPosition(position uint64, numLeaves uint64) bool` -/
def isRootPosition (position : U64) (numLeaves : U64) : Bool :=
  let row := DetectRow position (TreeRows numLeaves)
  isRootPositionOnRow position numLeaves row

/-- Go `func isRootPositionTotalRows(position uint64, numLeaves uint64, totalRows uint8) bool` -/
def isRootPositionTotalRows (position : U64) (numLeaves : U64) (totalRows : U8) : Bool :=
  if totalRows != (TreeRows numLeaves) then
    let translated := translatePos position totalRows (TreeRows numLeaves)
    isRootPosition translated numLeaves
  else
    isRootPosition position numLeaves

/-- Go `func isRootPositionOnRowTotalRows(position uint64, numLeaves uint64, row uint8, forestRows uint8) bool` -/
def isRootPositionOnRowTotalRows (position : U64) (numLeaves : U64) (row : U8) (forestRows : U8) : Bool :=
  if (TreeRows numLeaves) != forestRows then
    let translated := translatePos position forestRows (TreeRows numLeaves)
    isRootPositionOnRow translated numLeaves row
  else
    isRootPositionOnRow position numLeaves row

/-- Go `func rootIdxOnRow(numLeaves uint64, row uint8) int` -/
def rootIdxOnRow (numLeaves : U64) (row : U8) : Int :=
  toInt (numRoots (shr numLeaves ((conv 64 row) + 1#64).toNat))

/-- Go `func isAncestor(higherPos uint64, lowerPos uint64, forestRows uint8) bool` -/
def isAncestor (higherPos : U64) (lowerPos : U64) (forestRows : U8) : Bool :=
  if higherPos == lowerPos then
    false
  else
    let lowerRow := DetectRow lowerPos forestRows
    let higherRow := DetectRow higherPos forestRows
    if decide (higherRow < lowerRow) then
      false
    else
      let (ancestor, err) := ParentMany lowerPos (higherRow - lowerRow) forestRows
      if err || (higherPos != ancestor) then
        false
      else
        true

/-- the `for` loop of `inForest` at utils.go:555 (fuel-bounded) -/
def inForest.loop1 (marker : U64) (mask : U64) : Nat → U64 → LoopOut U64 Bool
  | 0, _ => .outOfFuel
  | fuel+1, pos =>
    if (pos &&& marker) != 0#64 then
      let pos := ((shl pos 1) &&& mask) ||| 1#64
      inForest.loop1 marker mask fuel pos
    else
      .done pos

/-- Go `func inForest(pos uint64, numLeaves uint64, forestRows uint8) bool` -/
def inForest (pos : U64) (numLeaves : U64) (forestRows : U8) : Bool :=
  if decide (pos < numLeaves) then
    true
  else
    let marker := shl 1#64 forestRows.toNat
    let mask := (shl marker 1) - 1#64
    if decide (pos >= mask) then
      false
    else
      match inForest.loop1 marker mask 300 pos with
      | .done pos =>
        decide (pos < numLeaves)
      | .ret r => r
      | .outOfFuel => default

/-- the `for` loop of `subtreeRow` at utils.go:130 (fuel-bounded) -/
def subtreeRow.loop1 (numLeaves : U64) (subTree : U8) : Nat → Int → Int → LoopOut (Int × Int) U8
  | 0, _, _ => .outOfFuel
  | fuel+1, sawTrees, h =>
    if decide (h >= (0 : Int)) then
      if rootExistsOnRow numLeaves (ofInt 8 h) then
        if subTree == (ofInt 8 sawTrees) then
          .done (sawTrees, h)
        else
          let sawTrees := sawTrees + (1 : Int)
          let h := h - (1 : Int)
          subtreeRow.loop1 numLeaves subTree fuel sawTrees h
      else
        let h := h - (1 : Int)
        subtreeRow.loop1 numLeaves subTree fuel sawTrees h
    else
      .done (sawTrees, h)

/-- Go `func subtreeRow(numLeaves uint64, subTree uint8) uint8` -/
def subtreeRow (numLeaves : U64) (subTree : U8) : U8 :=
  let sawTrees := (0 : Int)
  let h := toInt (TreeRows numLeaves)
  match subtreeRow.loop1 numLeaves subTree 300 sawTrees h with
  | .done (sawTrees, h) =>
    ofInt 8 h
  | .ret r => r
  | .outOfFuel => default

/-- the `for` loop of `getRootPosition` at utils.go:717 (fuel-bounded) -/
def getRootPosition.loop1 (numLeaves : U64) (forestRows : U8) : Nat → U64 → U8 → LoopOut (U64 × U8) (U64 × Bool)
  | 0, _, _ => .outOfFuel
  | fuel+1, returnPos, h =>
    if decide (h <= forestRows) then
      let rootPos := rootPosition numLeaves h forestRows
      if rootPos == returnPos then
        .ret (returnPos, false)
      else
        let returnPos := Parent returnPos forestRows
        let h := h + 1#8
        getRootPosition.loop1 numLeaves forestRows fuel returnPos h
    else
      .done (returnPos, h)

/-- Go `func getRootPosition(position uint64, numLeaves uint64, forestRows uint8) (uint64, error)` -/
def getRootPosition (position : U64) (numLeaves : U64) (forestRows : U8) : U64 × Bool :=
  let returnPos := position
  let h := DetectRow position forestRows
  match getRootPosition.loop1 numLeaves forestRows 300 returnPos h with
  | .done (returnPos, h) =>
    if (position != 0#64) && (forestRows != 0#8) then
      (0#64, true)
    else
      (0#64, false)
  | .ret r => r
  | .outOfFuel => default

end UtreexoVerif.Model
