/-
  `Pollard.WriteTo` / `writeOne` / `RestorePollardFrom` / `readOne` (pollard.go) on the heap
  model of the pointer forest, on top of the reader / writer models of `Model/Serial.lean`
  (`Sink`: accepts `room` bytes then fails; `Reader`: chunked stream, `readFull` = `io.ReadFull`).
  Go statement order; the byte count Go returns is returned on every path (`Res`).

  `NodeMap` is keyed by the full hash here (see `Model/PollardHeap.lean`), so the sanity check
  `len(p.NodeMap) != int(p.NumLeaves-p.NumDels)` of `RestorePollardFrom` counts distinct full
  hashes; it differs from Go only when two leaves share their first 12 bytes (out of scope).
-/
import UtreexoVerif.Model.PollardHeap
import UtreexoVerif.Model.Serial

namespace UtreexoVerif.Model.PollardHeap
open UtreexoVerif UtreexoVerif.GoInt UtreexoVerif.Model UtreexoVerif.Model.Serial Hasher

section
variable {H : Type} [DecidableEq H] [Hasher H] [HashBytes H]

/-- `n.getChildren()` evaluated on a heap (read-only) -/
def childrenOf (hp : Array (PolNode H)) (n : Nat) : Out (Ptr × Ptr) :=
  (getChildren (some n) ({ heap := hp } : Pollard H)).1

/-- `func writeOne(n *polNode, w io.Writer) (int64, error)`; `fuel` bounds the recursion depth
(heap size + 1: a deeper recursion revisits a node, Go would overflow its stack) -/
def writeOneH (hp : Array (PolNode H)) : Nat → Ptr → Sink → Res Unit × Sink
  | _, none, w => (⟨0, .ok ()⟩, w)
  | 0, some _, w => (⟨0, .hang⟩, w)
  | fuel+1, some i, w =>
    match hp[i]? with
    | none => (⟨0, .panic⟩, w)
    | some n =>
      -- wroteBytes, err := w.Write(n.data[:])
      wr (toBytes n.data) 0 w fun total w =>
      -- lChild, rChild, err := n.getChildren()
      match childrenOf hp i with
      | .ok (lChild, rChild) =>
        wr [flag (lChild.isNone && rChild.isNone)] total w fun total w =>
        if n.lNiece.isSome && n.rNiece.isSome then
          wr [1#8] total w fun total w =>
          match writeOneH hp fuel n.lNiece w with
          | (⟨lb, .ok _⟩, w) =>
            let total := total + lb
            match writeOneH hp fuel n.rNiece w with
            | (⟨rb, .ok _⟩, w) => (⟨total + rb, .ok ()⟩, w)
            | (⟨_, e⟩, w) => (⟨total, failAs e⟩, w)
          | (⟨_, e⟩, w) => (⟨total, failAs e⟩, w)
        else
          wr [0#8] total w fun total w => (⟨total, .ok ()⟩, w)
      | e => (⟨total, failAs e⟩, w)

/-- the loop `for _, root := range p.Roots` of `WriteTo` -/
def writeRootsH (hp : Array (PolNode H)) : List Nat → Nat → Sink → Res Unit × Sink
  | [], total, w => (⟨total, .ok ()⟩, w)
  | root :: rest, total, w =>
    match writeOneH hp (hp.size + 1) (some root) w with
    | (⟨b, .ok _⟩, w) => writeRootsH hp rest (total + b) w
    | (⟨_, e⟩, w) => (⟨total, failAs e⟩, w)

/-- `func (p *Pollard) WriteTo(w io.Writer) (int64, error)` -/
def writeToH (p : Pollard H) (w : Sink) : Res Unit × Sink :=
  wr (le64 p.numLeaves) 0 w fun total w =>
  wr (le64 p.numDels) total w fun total w =>
  writeRootsH p.heap p.roots total w

/-- `func (p *Pollard) readOne(n *polNode, r io.Reader) (int64, error)`: fills node `n`.
`fuel` bounds the recursion depth (every level consumes 34 bytes first). -/
def readOneH : Nat → Nat → Reader → Pollard H → Res (Reader × Pollard H)
  | 0, _, _, _ => ⟨0, .hang⟩
  | fuel+1, n, r, p =>
    match readFull r 32 with
    | (.eof, _) => ⟨0, .err⟩
    | (.unexpected _, _) => ⟨0, .err⟩
    | (.full hb, r) =>
      let data : H := ofBytes hb
      let p := { p with heap := p.heap.modify n (fun x => { x with data := data }) }
      let total := 32
      match readFull r 1 with
      | (.full lf, r) =>
        let total := total + 1
        -- if buf[0] == 1 { if n.data != empty { p.NodeMap[n.data.mini()] = n } }
        let p := if lf.headD 0#8 == 1#8 then
            (if data ≠ zero then { p with nodeMap := mapSet p.nodeMap data n } else p) else p
        match readFull r 1 with
        | (.full nf, r) =>
          let total := total + 1
          if nf.headD 0#8 == 1#8 then
            -- n.lNiece = &polNode{aunt: n}
            let l := p.heap.size
            let hpL := (p.heap.push { data := zero, aunt := some n }).modify n (fun x => { x with lNiece := some l })
            let p := { p with heap := hpL }
            match readOneH fuel l r p with
            | ⟨lb, .ok (r, p)⟩ =>
              let total := total + lb
              -- n.rNiece = &polNode{aunt: n}
              let rr := p.heap.size
              let hpR := (p.heap.push { data := zero, aunt := some n }).modify n (fun x => { x with rNiece := some rr })
              let p := { p with heap := hpR }
              match readOneH fuel rr r p with
              | ⟨rb, .ok (r, p)⟩ => ⟨total + rb, .ok (r, p)⟩
              | ⟨_, e⟩ => ⟨total, failAs e⟩
            | ⟨_, e⟩ => ⟨total, failAs e⟩
          else ⟨total, .ok (r, p)⟩
        | _ => ⟨total, .err⟩
      | _ => ⟨total, .err⟩

/-- the loop `for i := range p.Roots` of `RestorePollardFrom` -/
def readRootsH (fuel : Nat) : Nat → Nat → Reader → Pollard H → Res (Pollard H)
  | 0, total, _, p => ⟨total, .ok p⟩
  | k+1, total, r, p =>
    -- p.Roots[i] = new(polNode)
    let root := p.heap.size
    let p := { p with heap := p.heap.push { data := zero }, roots := p.roots ++ [root] }
    match readOneH fuel root r p with
    | ⟨b, .ok (r, p)⟩ => readRootsH fuel k (total + b) r p
    | ⟨_, e⟩ => ⟨total, failAs e⟩

/-- `func RestorePollardFrom(r io.Reader) (int64, *Pollard, error)` -/
def restoreH (r : Reader) : Res (Pollard H) :=
  let p : Pollard H := newAccumulator
  match readFull r 8 with
  | (.full b1, r) =>
    let p := { p with numLeaves := unle64 b1 }
    match readFull r 8 with
    | (.full b2, r) =>
      let p := { p with numDels := unle64 b2 }
      let fuel := r.data.length + 2
      match readRootsH fuel (numRoots p.numLeaves).toNat 16 r p with
      | ⟨total, .ok p⟩ =>
        -- Sanity check: len(p.NodeMap) != int(p.NumLeaves-p.NumDels)
        if (p.nodeMap.length : Int) ≠ (p.numLeaves - p.numDels).toInt then ⟨total, .err⟩
        else ⟨total, .ok p⟩
      | ⟨total, e⟩ => ⟨total, failAs e⟩
    | _ => ⟨8, .err⟩
  | _ => ⟨0, .err⟩

end
end UtreexoVerif.Model.PollardHeap
