/-
  mappollard.go — the whole `MapPollard` state machine, transliterated.

  * `Nodes : map[uint64]Leaf` and `CachedLeaves : map[Hash]uint64` are association lists with
    functional map semantics (`AL.get?` / `AL.put` / `AL.del`; `put` replaces, so a key occurs
    at most once).  Nothing in the model depends on the order of the entries; dumps are
    compared as sorted lists.
  * Go's statement order is kept, so that the state a failing call leaves behind is the state
    the Go code leaves behind: a call is a function `MapPollard H → MapPollard H × Except Fail α`
    (`MPM`); `Fail.err` = non-nil error, `Fail.panic` = Go would panic (index out of range),
    `Fail.hang` = Go would not return.
  * positions inside the maps are in `TotalRows` coordinates, the API speaks
    `TreeRows(NumLeaves)` coordinates (`translatePos` at the API boundary), exactly as in Go.
  * loops `for row := r0; row <= m.TotalRows; row++` over a `uint8` run `TotalRows+1-r0` times
    (the Go loop would never exit for `TotalRows = 255`; `NewMapPollard` sets 63 and `remap`
    only ever assigns `TreeRows(n) ≤ 64`).
  * WHERE GO ITERATES A MAP: `moveUpDescendants` collects the next level in a `map` and walks it
    in random order; `remap` walks `CachedLeaves` changing values only.  The model walks sorted
    lists.  The result can depend on the order only if, within one level of
    `moveUpDescendants`, two stored nodes move to the same position or a node moves onto a
    position that is itself still to be moved; the model counts such events in the ghost field
    `orderDep` (the driver reports any non-zero value; none has ever been observed, and for
    positions of one row the destinations lie on the row above, so the second case is
    impossible).
  * `ingest` is the code as of /repo commit d0fcc39 (the surplus-proof trimming translates the
    positions to `TreeRows` coordinates before `trimProofPos` and back afterwards).
-/
import UtreexoVerif.Model.Stump
import UtreexoVerif.Model.ProofPos
import UtreexoVerif.Model.Verifiers

namespace UtreexoVerif.Model
open UtreexoVerif Hasher

-- association list with map semantics
namespace AL
variable {κ ν : Type} [DecidableEq κ]

def get? (l : List (κ × ν)) (k : κ) : Option ν :=
  match l with
  | [] => none
  | (k', v) :: t => if k' = k then some v else get? t k

def del (l : List (κ × ν)) (k : κ) : List (κ × ν) := l.filter (fun e => e.1 ≠ k)

def put (l : List (κ × ν)) (k : κ) (v : ν) : List (κ × ν) := (k, v) :: del l k

def has (l : List (κ × ν)) (k : κ) : Bool := (get? l k).isSome
end AL

/-- Go `Leaf{Hash, Remember}` -/
structure Leaf (H : Type) where
  hash : H
  remember : Bool
deriving DecidableEq, Repr

/-- how a modelled call can fail -/
inductive Fail where
  | err | panic | hang
deriving DecidableEq, Repr

def Fail.tag : Fail → String
  | .err => "err"
  | .panic => "panic"
  | .hang => "hang"

/-- Go `MapPollard` (without the lock) -/
structure MapPollard (H : Type) where
  nodes : List (U64 × Leaf H)
  cached : List (H × U64)
  numLeaves : U64
  totalRows : U8
  full : Bool
  /-- ghost: events in which Go's random map iteration order could influence the result -/
  orderDep : Nat := 0
deriving Repr

/-- a call on a map forest: state left behind × result -/
def MPM (H α : Type) := MapPollard H → MapPollard H × Except Fail α

namespace MPM
variable {H α β : Type}
@[inline] def pure (a : α) : MPM H α := fun m => (m, .ok a)
@[inline] def bind (x : MPM H α) (f : α → MPM H β) : MPM H β := fun m =>
  match x m with
  | (m', .ok a) => f a m'
  | (m', .error e) => (m', .error e)
instance : Monad (MPM H) where
  pure := MPM.pure
  bind := MPM.bind
@[inline] def fail (e : Fail) : MPM H α := fun m => (m, .error e)
@[inline] def get : MPM H (MapPollard H) := fun m => (m, .ok m)
@[inline] def upd (f : MapPollard H → MapPollard H) : MPM H Unit := fun m => (f m, .ok ())
/-- Go `x, err := f(); if err != nil { return err }` for the pair-returning utils -/
@[inline] def ofPair (p : α × Bool) : MPM H α := fun m => if p.2 then (m, .error .err) else (m, .ok p.1)
@[inline] def ofOut (o : Out α) : MPM H α := fun m =>
  match o with
  | .ok a => (m, .ok a)
  | .err => (m, .error .err)
  | .panic => (m, .error .panic)
  | .hang => (m, .error .hang)
end MPM

section
variable {H : Type} [DecidableEq H] [Hasher H]

namespace MapPollard

-- ---------- the two maps ----------

def getNode (m : MapPollard H) (p : U64) : Option (Leaf H) := AL.get? m.nodes p
/-- Go `leaf, _ := m.Nodes.Get(p)`: the zero value when absent -/
def getNodeD (m : MapPollard H) (p : U64) : Leaf H := (m.getNode p).getD ⟨zero, false⟩
def hasNode (m : MapPollard H) (p : U64) : Bool := (m.getNode p).isSome
def putNode (m : MapPollard H) (p : U64) (l : Leaf H) : MapPollard H := { m with nodes := AL.put m.nodes p l }
def delNode (m : MapPollard H) (p : U64) : MapPollard H := { m with nodes := AL.del m.nodes p }
def getCached (m : MapPollard H) (h : H) : Option U64 := AL.get? m.cached h
def hasCached (m : MapPollard H) (h : H) : Bool := (m.getCached h).isSome
def putCached (m : MapPollard H) (h : H) (p : U64) : MapPollard H := { m with cached := AL.put m.cached h p }
def delCached (m : MapPollard H) (h : H) : MapPollard H := { m with cached := AL.del m.cached h }

/-- `NewMapPollard(full)` -/
def new (full : Bool) : MapPollard H :=
  { nodes := [], cached := [], numLeaves := 0#64, totalRows := 63#8, full := full }

def isRoot (m : MapPollard H) (p : U64) : Bool := isRootPositionTotalRows p m.numLeaves m.totalRows

/-- number of iterations of `for row := r0; row <= total; row++` (uint8, total < 255) -/
def rowIters (r0 total : U8) : Nat := total.toNat + 1 - r0.toNat

-- ---------- pruning ----------

/-- `niecesPresent` -/
def niecesPresent (m : MapPollard H) (pos : U64) : Bool :=
  if DetectRow pos m.totalRows == 0#8 then false
  else
    let lNiecePos := LeftChild (sibling pos) m.totalRows
    let rNiecePos := RightChild (sibling pos) m.totalRows
    m.hasNode lNiecePos || m.hasNode rNiecePos

/-- `prunePosition` -/
def prunePosition (m : MapPollard H) (pos : U64) : MapPollard H :=
  let node := m.getNodeD pos
  let sibNode := m.getNodeD (sibling pos)
  if !node.remember && !sibNode.remember then
    let m := if !m.niecesPresent (sibling pos) then m.delNode (sibling pos) else m
    let m := if !m.niecesPresent pos then m.delNode pos else m
    m
  else m

/-- `pruneNieces` -/
def pruneNieces (m : MapPollard H) (pos : U64) : MapPollard H :=
  if DetectRow pos m.totalRows == 0#8 then m
  else m.prunePosition (LeftChild pos m.totalRows)

/-- loop of `forgetUnneededDel` -/
def forgetUnneededLoop : Nat → U64 → MapPollard H → MapPollard H
  | 0, _, m => m
  | k+1, parentPos, m =>
    let parentPos := Parent parentPos m.totalRows
    if m.isRoot parentPos then m
    else forgetUnneededLoop k parentPos (m.prunePosition parentPos)

/-- `forgetUnneededDel` -/
def forgetUnneededDel (m : MapPollard H) (del : U64) : MapPollard H :=
  if m.isRoot del then m
  else forgetUnneededLoop (rowIters (DetectRow del m.totalRows) m.totalRows) del m

/-- `forgetBelow`: the recursion descends one row per call -/
def forgetBelowAux : Nat → U64 → MapPollard H → MapPollard H
  | 0, _, m => m
  | k+1, position, m =>
    if DetectRow position m.totalRows == 0#8 then m
    else
      let l := LeftChild position m.totalRows
      let r := sibling l
      let m := (m.delNode l).delNode r
      let m := forgetBelowAux k l m
      forgetBelowAux k r m

def forgetBelow (m : MapPollard H) (position : U64) : MapPollard H :=
  forgetBelowAux (DetectRow position m.totalRows).toNat position m

-- ---------- moving subtrees up ----------

/-- `moveUpChild(position, delPos, numLeaves, child)`; returns the child position -/
def moveUpChild (position delPos : U64) (left : Bool) : MPM H U64 := fun m =>
  let c := if left then LeftChild (sibling position) m.totalRows else RightChild (sibling position) m.totalRows
  let (nextPos, err) := calcNextPosition c delPos m.totalRows
  if err then (m, .error .err)
  else
    match m.getNode c with
    | some lVal =>
      let m := (m.delNode c).putNode nextPos lVal
      let m := if m.hasCached lVal.hash then m.putCached lVal.hash nextPos else m
      (m, .ok c)
    | none => (m, .ok c)

/-- `moveUpNieces` -/
def moveUpNieces (position delPos : U64) : MPM H (List U64) := fun m =>
  if DetectRow position m.totalRows == 0#8 then (m, .ok [])
  else
    match moveUpChild (sibling position) delPos true m with
    | (m, .error e) => (m, .error e)
    | (m, .ok l) =>
      match moveUpChild (sibling position) delPos false m with
      | (m, .error e) => (m, .error e)
      | (m, .ok r) => (m, .ok [l, r])

/-- the `for i := range toMoveUp` loop -/
def moveUpLevel (delPos : U64) : List U64 → List U64 → MPM H (List U64)
  | [], acc => fun m => (m, .ok acc)
  | p :: ps, acc => fun m =>
    match moveUpNieces p delPos m with
    | (m, .error e) => (m, .error e)
    | (m, .ok cs) => moveUpLevel delPos ps (acc ++ cs) m

def dedupSorted : List U64 → List U64
  | a :: b :: t => if a = b then dedupSorted (b :: t) else a :: dedupSorted (b :: t)
  | l => l

/-- would Go's map iteration order matter on this level?  (two stored children moving to one
position, or a child moving onto a position that is itself a child of this level) -/
def levelOrderSensitive (m : MapPollard H) (delPos : U64) (level : List U64) : Bool :=
  if DetectRow (level.headD 0#64) m.totalRows == 0#8 then false
  else
    let children := level.flatMap (fun p => [LeftChild p m.totalRows, RightChild p m.totalRows])
    let moves := children.filterMap (fun c =>
      if m.hasNode c then some (calcNextPosition c delPos m.totalRows).1 else none)
    let sorted := sortU64 moves
    (dedupSorted sorted).length != sorted.length || moves.any (fun d => children.contains d)

/-- the `for h := row; h >= 0; h--` loop of `moveUpDescendants` -/
def moveUpLevels (delPos : U64) : Nat → List U64 → MPM H Unit
  | 0, _ => fun m => (m, .ok ())
  | k+1, toMoveUp => fun m =>
    let m := if levelOrderSensitive m delPos toMoveUp then { m with orderDep := m.orderDep + 1 } else m
    match moveUpLevel delPos toMoveUp [] m with
    | (m, .error e) => (m, .error e)
    | (m, .ok next) => moveUpLevels delPos k (dedupSorted (sortU64 next)) m

/-- `moveUpDescendants(position, delPos, numLeaves)` -/
def moveUpDescendants (position delPos : U64) : MPM H Unit := fun m =>
  let row := (DetectRow position m.totalRows).toNat
  if row = 0 then (m, .ok ())
  else moveUpLevels delPos (row + 1) (sortU64 [position, sibling position]) m

-- ---------- growing ----------

/-- inner loop of `remap`: `for i := startPos; i <= maxPos; i++ { …; j++ }` -/
def remapRow : Nat → U64 → U64 → MapPollard H → MapPollard H
  | 0, _, _, m => m
  | k+1, i, j, m =>
    let m := match m.getNode i with
      | some leaf => (m.delNode i).putNode j leaf
      | none => m
    remapRow k (i + 1) (j + 1) m

/-- outer loop of `remap`: `for h := 1; h <= m.TotalRows; h++` -/
def remapRows (nextRows : U8) : Nat → U8 → MPM H Unit
  | 0, _ => fun m => (m, .ok ())
  | k+1, h => fun m =>
    let startPos := startPositionAtRow h m.totalRows
    let (maxPos, err) := maxPositionAtRow h m.totalRows m.numLeaves
    if err then (m, .error .err)
    else
      let j := startPositionAtRow h nextRows
      let cnt := if startPos ≤ maxPos then (maxPos - startPos).toNat + 1 else 0
      remapRows nextRows k (h + 1) (remapRow cnt startPos j m)

/-- `remap`: returns the rows to use for the coming addition -/
def remap : MPM H U8 := fun m =>
  let nextRows := TreeRows (m.numLeaves + 1)
  if nextRows ≤ m.totalRows then (m, .ok m.totalRows)
  else
    match remapRows nextRows (rowIters 1#8 m.totalRows) 1#8 m with
    | (m, .error e) => (m, .error e)
    | (m, .ok ()) =>
      let cached := m.cached.map (fun (k, v) => (k, translatePos v m.totalRows nextRows))
      ({ m with cached := cached, totalRows := nextRows }, .ok nextRows)

-- ---------- additions ----------

/-- the `for h := 0; (m.NumLeaves>>h)&1 == 1; h++` loop of `addSingle` -/
def addLoop (add : Leaf H) (totalRows : U8) : Nat → U8 → U64 → Leaf H → MPM H Unit
  | 0, _, _, _ => fun m => (m, .error .hang)
  | fuel+1, h, position, pNode => fun m =>
    if (m.numLeaves >>> h.toNat) &&& 1#64 == 1#64 then
      let rootPos := rootPosition m.numLeaves h totalRows
      match m.getNode rootPos with
      | none => (m, .error .err)
      | some node =>
        if node.hash = zero then
          let m := (m.delNode rootPos).delNode position
          let m := if add.remember && pNode.hash = add.hash then
              (if m.hasCached add.hash then m.putCached add.hash (Parent position totalRows) else m)
            else m
          match moveUpDescendants position rootPos m with
          | (m, .error e) => (m, .error e)
          | (m, .ok ()) =>
            let position := Parent position totalRows
            let m := (m.putNode position pNode).pruneNieces position
            addLoop add totalRows fuel (h + 1) position pNode m
        else
          let pNode : Leaf H := ⟨ph node.hash pNode.hash, m.full⟩
          let position := Parent position totalRows
          let m := (m.putNode position pNode).pruneNieces position
          addLoop add totalRows fuel (h + 1) position pNode m
    else (m, .ok ())

/-- `addSingle` -/
def addSingle (add : Leaf H) : MPM H Unit := fun m =>
  match remap m with
  | (m, .error e) => (m, .error e)
  | (m, .ok totalRows) =>
    let add : Leaf H := if m.full then ⟨add.hash, true⟩ else add
    let position := m.numLeaves
    let m := m.putNode position ⟨add.hash, add.remember⟩
    let m := if add.remember then m.putCached add.hash position else m
    addLoop add totalRows 65 0#8 position add m

/-- `add` -/
def add : List (Leaf H) → MPM H Unit
  | [] => fun m => (m, .ok ())
  | a :: rest => fun m =>
    match addSingle a m with
    | (m, .error e) => (m, .error e)
    | (m, .ok ()) => add rest { m with numLeaves := m.numLeaves + 1 }

-- ---------- deletions ----------

/-- loop of `updateHashes` -/
def updateHashesLoop : Nat → U64 → Leaf H → MapPollard H → MapPollard H
  | 0, _, _, m => m
  | k+1, pos, node, m =>
    let sibNode := m.getNodeD (sibling pos)
    let node : Leaf H :=
      if isLeftNiece pos then ⟨ph node.hash sibNode.hash, node.remember⟩
      else ⟨ph sibNode.hash node.hash, node.remember⟩
    let pos := Parent pos m.totalRows
    let m := if m.hasNode pos then m.putNode pos node else m
    if m.isRoot pos then m else updateHashesLoop k pos node m

/-- `updateHashes` -/
def updateHashes (m : MapPollard H) (position : U64) (hash : H) : MapPollard H :=
  let pos := Parent position m.totalRows
  updateHashesLoop (rowIters (DetectRow pos m.totalRows) m.totalRows) pos ⟨hash, m.full⟩ m

/-- `removeSingle` -/
def removeSingle (del : U64) : MPM H Unit := fun m =>
  let m := m.forgetBelow del
  if m.isRoot del then (m.putNode del ⟨zero, m.full⟩, .ok ())
  else
    let m := m.delNode del
    match m.getNode (sibling del) with
    | some node =>
      let m := (m.delNode (sibling del)).putNode (Parent del m.totalRows) node
      let step : MapPollard H × Except Fail Unit :=
        if m.hasCached node.hash then
          let (newPos, err) := calcNextPosition (sibling del) del m.totalRows
          if err then (m, .error .err) else (m.putCached node.hash newPos, .ok ())
        else (m, .ok ())
      match step with
      | (m, .error e) => (m, .error e)
      | (m, .ok ()) =>
        match moveUpDescendants (sibling del) del m with
        | (m, .error e) => (m, .error e)
        | (m, .ok ()) => ((m.updateHashes del node.hash).forgetUnneededDel del, .ok ())
    | none => ((m.updateHashes del zero).forgetUnneededDel del, .ok ())

/-- `cached(hashes)` -/
def allCached (m : MapPollard H) (hashes : List H) : Bool := hashes.all m.hasCached

/-- `uncacheLeaves` -/
def uncacheLeaves (m : MapPollard H) (dels : List H) : MapPollard H := dels.foldl delCached m

/-- the deletion loop of `remove`: the error of `removeSingle` is dropped, as in Go -/
def removeAll : List U64 → MapPollard H → MapPollard H
  | [], m => m
  | d :: ds, m => removeAll ds (removeSingle d m).1

/-- `remove(proof, delHashes)` -/
def remove (targets : List U64) (delHashes : List H) : MPM H Unit := fun m =>
  if !m.allCached delHashes then (m, .error .err)
  else
    let m := m.uncacheLeaves delHashes
    let dels := sortU64 targets
    let dels := if m.totalRows ≠ TreeRows m.numLeaves then translatePositions dels (TreeRows m.numLeaves) m.totalRows else dels
    let dels := deTwin dels m.totalRows
    (removeAll dels m, .ok ())

/-- `Modify(adds, delHashes, proof)`: only `proof.Targets` is read -/
def modify (adds : List (Leaf H)) (delHashes : List H) (targets : List U64) : MPM H Unit := fun m =>
  match remove targets delHashes m with
  | (m, .error e) => (m, .error e)
  | (m, .ok ()) => add adds m

-- ---------- undo ----------

/-- the `for i := 0; i < 1<<h; i++` loop of `placeEmptyRoot` -/
def placeRowLoop (prevRootPos child : U64) : Nat → U64 → MPM H Unit
  | 0, _ => fun m => (m, .ok ())
  | k+1, i => fun m =>
    let pos := i + child
    let (curPos, err) := calcNextPosition pos prevRootPos m.totalRows
    if err then (m, .error .err)
    else
      let m := match m.getNode curPos with
        | some v =>
          if v.hash ≠ zero then
            let m := m.delNode curPos
            let c := m.hasCached v.hash
            let m := if c then m.putCached v.hash pos else m
            let v : Leaf H := if c || m.full then ⟨v.hash, true⟩ else v
            m.putNode pos v
          else m
        | none => m
      placeRowLoop prevRootPos child k (i + 1) m

/-- the `for h := int(row); h > 0; h--` loop of `placeEmptyRoot` -/
def placeLoop (prevRootPos sib : U64) : Nat → MPM H Unit
  | 0 => fun m => (m, .ok ())
  | h+1 => fun m =>
    let (child, err) := ChildMany sib (BitVec.ofNat 8 (h+1)) m.totalRows
    if err then (m, .error .err)
    else
      match placeRowLoop prevRootPos child (2 ^ (h+1)) 0#64 m with
      | (m, .error e) => (m, .error e)
      | (m, .ok ()) => placeLoop prevRootPos sib h m

/-- `placeEmptyRoot` -/
def placeEmptyRoot (prevRootPos : U64) : MPM H Unit := fun m =>
  let sib := sibling prevRootPos
  placeLoop prevRootPos sib (DetectRow sib m.totalRows).toNat m

/-- the `for h := int(row); h >= 0; h--` loop of `undoSingleAdd` (`k` = h+1) -/
def undoSingleAddLoop : Nat → U64 → U64 → List U64 → MPM H (List U64)
  | 0, _, _, e => fun m => (m, .ok e)
  | k+1, pos, lChild, e => fun m =>
    let m := match m.getNode pos with
      | some leaf => (m.delNode pos).delCached leaf.hash
      | none => m
    let next (m : MapPollard H) (e : List U64) :=
      let pos := RightChild pos m.totalRows
      undoSingleAddLoop k pos (LeftChild pos m.totalRows) e m
    if k ≠ 0 then
      match e with
      | e0 :: erest =>
        if e0 = lChild then
          match placeEmptyRoot lChild m with
          | (m, .error er) => (m, .error er)
          | (m, .ok ()) => next (m.putNode lChild ⟨zero, true⟩) erest
        else next m e
      | [] => next m e
    else next m e

/-- `undoSingleAdd` -/
def undoSingleAdd (emptyRootPositions : List U64) : MPM H (List U64) := fun m =>
  let row := getLowestRoot m.numLeaves m.totalRows
  let pos := rootPosition (m.numLeaves - 1) row m.totalRows
  let lChild := LeftChild pos m.totalRows
  match undoSingleAddLoop (row.toNat + 1) pos lChild emptyRootPositions m with
  | (m, .error e) => (m, .error e)
  | (m, .ok e) => ({ m with numLeaves := m.numLeaves - 1 }, .ok e)

/-- `getRootsAfterDel`: `prevRoots[j] = empty` panics when `j` is out of range -/
def getRootsAfterDel (m : MapPollard H) (numAdds : U64) (targets prevRootPos : List U64)
    (origPrevRoots : List H) : Out (List H) :=
  let detwined := deTwin (translatePositions (sortU64 targets) (TreeRows (m.numLeaves - numAdds)) m.totalRows) m.totalRows
  detwined.foldlM (fun prevRoots d =>
    (prevRootPos.zipIdx).foldlM (fun (prevRoots : List H) (rp, j) =>
      if d = rp then (if j < prevRoots.length then Out.ok (prevRoots.set j zero) else Out.panic)
      else Out.ok prevRoots) prevRoots) origPrevRoots

/-- `getWrittenOverEmptyRoots` -/
def getWrittenOverEmptyRoots (nonZero : H) (m : MapPollard H) (numAdds : U64) (origTargets : List U64)
    (origPrevRoots : List H) : Out (List U64) := do
  let prevRootPos := RootPositions (m.numLeaves - numAdds) m.totalRows
  let prevRoots ← getRootsAfterDel m numAdds origTargets prevRootPos origPrevRoots
  let destroyed ← rootsToDestroy nonZero numAdds.toNat (m.numLeaves - numAdds) prevRoots
  let destroyed := if TreeRows m.numLeaves ≠ m.totalRows
    then translatePositions destroyed (TreeRows m.numLeaves) m.totalRows else destroyed
  (prevRoots.zipIdx).foldlM (fun (acc : List U64) (root, i) =>
    if root = zero then
      if destroyed.isEmpty then Out.ok acc
      else match prevRootPos[i]? with
        | some rp => Out.ok (acc ++ (destroyed.filter (· = rp)))
        | none => Out.panic
    else Out.ok acc) []

/-- the `for i := 0; i < int(numAdds); i++` loop of `undoAdd` -/
def undoAddLoop : Nat → List U64 → MPM H Unit
  | 0, _ => fun m => (m, .ok ())
  | k+1, e => fun m =>
    match undoSingleAdd e m with
    | (m, .error er) => (m, .error er)
    | (m, .ok e) => undoAddLoop k e m

/-- `undoAdd` -/
def undoAdd (nonZero : H) (numAdds : U64) (origTargets : List U64) (origPrevRoots : List H) : MPM H Unit := fun m =>
  match getWrittenOverEmptyRoots nonZero m numAdds origTargets origPrevRoots with
  | .ok e => undoAddLoop numAdds.toNat e m
  | .err => (m, .error .err)
  | .panic => (m, .error .panic)
  | .hang => (m, .error .hang)

/-- `trimProofPos` -/
def trimProofPos (proofPos : List U64) (numLeaves : U64) : List U64 :=
  proofPos.takeWhile (fun p => inForest p numLeaves (TreeRows numLeaves))

/-- the descending loop over the detwinned targets in `undoDeletion` -/
def undoDelMoveDown : List U64 → MPM H Unit
  | [] => fun m => (m, .ok ())
  | t :: ts => fun m =>
    let r : MapPollard H × Except Fail Unit :=
      if inForest (sibling t) m.numLeaves m.totalRows then placeEmptyRoot t m else (m, .ok ())
    match r with
    | (m, .error e) => (m, .error e)
    | (m, .ok ()) =>
      let sib := Parent t m.totalRows
      let prevPos := calcPrevPosition sib t m.totalRows
      let m := match m.getNode sib with
        | some v =>
          let c := m.hasCached v.hash
          let m := if c then m.putCached v.hash prevPos else m
          let v : Leaf H := if c || m.full then ⟨v.hash, true⟩ else v
          (m.delNode sib).putNode prevPos v
        | none => m
      undoDelMoveDown ts m

/-- `for i := range proofPos`: store the proof hashes that are absent, read back the present ones -/
def placeProof : List U64 → Nat → List H → MPM H (List H)
  | [], _, pr => fun m => (m, .ok pr)
  | pos :: ps, i, pr => fun m =>
    match m.getNode pos with
    | none =>
      match pr[i]? with
      | some h => placeProof ps (i+1) pr (m.putNode pos ⟨h, m.full⟩)
      | none => (m, .error .panic)
    | some leaf =>
      if i < pr.length then placeProof ps (i+1) (pr.set i leaf.hash) m else (m, .error .panic)

/-- store calculated (position, hash) pairs; targets are remembered and cached -/
def putCalculated (isTarget : U64 → Bool) : HP H → MapPollard H → MapPollard H
  | [], m => m
  | (pos, h) :: rest, m =>
    let t := isTarget pos
    let m := m.putNode pos ⟨h, t || m.full⟩
    let m := if t then m.putCached h pos else m
    putCalculated isTarget rest m

/-- `undoDeletion(proof, hashes)` -/
def undoDeletion (targets : List U64) (proofHashes : List H) (hashes : List H) : MPM H Unit := fun m =>
  match toHashAndPos targets hashes with
  | .panic => (m, .error .panic)
  | .err => (m, .error .err)
  | .hang => (m, .error .hang)
  | .ok hnp =>
    let tr := TreeRows m.numLeaves
    let hnpPos := if tr ≠ m.totalRows then sortU64 (translatePositions hnp.positions tr m.totalRows) else hnp.positions
    let deTwinedTargets := deTwin hnpPos m.totalRows
    match undoDelMoveDown deTwinedTargets.reverse m with
    | (m, .error e) => (m, .error e)
    | (m, .ok ()) =>
      let sortedTargets := sortU64 targets
      let proofPos := (ProofPositions sortedTargets m.numLeaves tr).1
      let proofPos := if tr ≠ m.totalRows
        then translatePositions (trimProofPos proofPos m.numLeaves) tr m.totalRows else proofPos
      let pr : Option (List H) :=
        if proofPos.length ≠ proofHashes.length then
          (if !m.full then none else some (proofPos.map (fun _ => zero)))
        else some proofHashes
      match pr with
      | none => (m, .error .err)
      | some pr =>
        match placeProof proofPos 0 pr m with
        | (m, .error e) => (m, .error e)
        | (m, .ok pr) =>
          match calculateHashes m.numLeaves (some hashes) targets pr with
          | .err => (m, .error .err)
          | .panic => (m, .error .panic)
          | .hang => (m, .error .hang)
          | .ok r =>
            let newhnp : HP H := if tr ≠ m.totalRows
              then sortHP (r.nodes.map (fun (p, h) => (translatePos p tr m.totalRows, h))) else r.nodes
            let tset := if tr ≠ m.totalRows then translatePositions targets tr m.totalRows else targets
            (putCalculated (fun p => tset.contains p) newhnp m, .ok ())

/-- `getRoots`: hashes and positions -/
def getRoots (m : MapPollard H) : List H × List U64 :=
  let rootPositions := RootPositions m.numLeaves m.totalRows
  (rootPositions.map (fun p => (m.getNodeD p).hash), rootPositions)

/-- the final loop of `Undo`: `origPrevRoots[i]` panics when out of range -/
def restoreRoots (origPrevRoots : List H) : List U64 → Nat → MPM H Unit
  | [], _ => fun m => (m, .ok ())
  | rp :: rest, i => fun m =>
    match origPrevRoots[i]? with
    | none => (m, .error .panic)
    | some h =>
      let remember := m.hasCached h || m.full
      restoreRoots origPrevRoots rest (i+1) (m.putNode rp ⟨h, remember⟩)

/-- `Undo(numAdds, proof, hashes, origPrevRoots)` -/
def undo (nonZero : H) (numAdds : U64) (targets : List U64) (proofHashes hashes origPrevRoots : List H) :
    MPM H Unit := fun m =>
  match undoAdd nonZero numAdds targets origPrevRoots m with
  | (m, .error e) => (m, .error e)
  | (m, .ok ()) =>
    match undoDeletion targets proofHashes hashes m with
    | (m, .error e) => (m, .error e)
    | (m, .ok ()) => restoreRoots origPrevRoots m.getRoots.2 0 m

-- ---------- proofs ----------

/-- `Prove(proveHashes)`: (targets in `TreeRows` coordinates, proof hashes) -/
def prove (m : MapPollard H) (proveHashes : List H) : Except Fail (List U64 × List H) :=
  if !m.allCached proveHashes then .error .err
  else
    let origTargets := proveHashes.map (fun h => (m.getCached h).getD 0#64)
    let targets := sortU64 origTargets
    let proofPos := (ProofPositions targets m.numLeaves m.totalRows).1
    match proofPos.mapM (fun p => m.getNode p) with
    | none => .error .err
    | some leaves =>
      let origTargets := if m.totalRows ≠ TreeRows m.numLeaves
        then origTargets.map (fun t => translatePos t m.totalRows (TreeRows m.numLeaves)) else origTargets
      .ok (origTargets, leaves.map (·.hash))

/-- `ingest(delHashes, proof)` -/
def ingest (delHashes : List H) (targets : List U64) (proofHashes : List H) : MPM H Unit := fun m =>
  match toHashAndPos targets delHashes with
  | .panic => (m, .error .panic)
  | .err => (m, .error .err)
  | .hang => (m, .error .hang)
  | .ok hnp =>
    let tr := TreeRows m.numLeaves
    let hnpPos := if m.totalRows ≠ tr then sortU64 (translatePositions hnp.positions tr m.totalRows) else hnp.positions
    let proofPos := (ProofPositions hnpPos m.numLeaves m.totalRows).1
    let proofPos :=
      if tr ≠ m.totalRows && proofPos.length ≠ proofHashes.length then
        translatePositions (trimProofPos (translatePositions proofPos m.totalRows tr) m.numLeaves) tr m.totalRows
      else proofPos
    -- `for i, pos := range proofPos { if !found { Put(pos, proof.Proof[i]) } }`
    let rec store : List U64 → Nat → MapPollard H → MapPollard H × Except Fail Unit
      | [], _, m => (m, .ok ())
      | pos :: ps, i, m =>
        if m.hasNode pos then store ps (i+1) m
        else match proofHashes[i]? with
          | some h => store ps (i+1) (m.putNode pos ⟨h, m.full⟩)
          | none => (m, .error .panic)
    match store proofPos 0 m with
    | (m, .error e) => (m, .error e)
    | (m, .ok ()) =>
      match calculateHashes m.numLeaves (some delHashes) targets proofHashes with
      | .err => (m, .error .err)
      | .panic => (m, .error .panic)
      | .hang => (m, .error .hang)
      | .ok r =>
        let inter : HP H := if m.totalRows ≠ tr
          then sortHP (r.nodes.map (fun (p, h) => (translatePos p tr m.totalRows, h))) else r.nodes
        (putCalculated (fun p => hnpPos.contains p) inter m, .ok ())

/-- `getStump` + `Verify` + optional `ingest` (whose error is dropped, as in Go) -/
def verifyM (delHashes : List H) (targets : List U64) (proofHashes : List H) (remember : Bool) :
    MPM H Unit := fun m =>
  let tr := TreeRows m.numLeaves
  let targets := if tr ≠ m.totalRows then translatePositions targets m.totalRows tr else targets
  match verify m.numLeaves m.getRoots.1 delHashes targets proofHashes with
  | .err => (m, .error .err)
  | .panic => (m, .error .panic)
  | .hang => (m, .error .hang)
  | .ok _ =>
    if remember then
      match ingest delHashes targets proofHashes m with
      | (m, .error .panic) => (m, .error .panic)
      | (m, .error .hang) => (m, .error .hang)
      | (m, _) => (m, .ok ())
    else (m, .ok ())

/-- `VerifyPartialProof` -/
def verifyPartialProof (origTargets : List U64) (delHashes proofHashes : List H) (remember : Bool) :
    MPM H Unit := fun m =>
  let tr := TreeRows m.numLeaves
  let targets := sortU64 origTargets
  let proofPositions := (ProofPositions targets m.numLeaves tr).1
  let proofPositions := if tr ≠ m.totalRows then translatePositions proofPositions tr m.totalRows else proofPositions
  let rec merge : List U64 → List H → List H → Option (List H)
    | [], _, acc => some acc
    | pos :: ps, supplied, acc =>
      let hash := (m.getNodeD pos).hash
      if hash = zero then
        match supplied with
        | s :: rest => merge ps rest (acc ++ [s])
        | [] => none
      else merge ps supplied (acc ++ [hash])
  match merge proofPositions proofHashes [] with
  | none => (m, .error .err)
  | some all => verifyM delHashes origTargets all remember m

/-- `GetMissingPositions` -/
def getMissingPositions (m : MapPollard H) (origTargets : List U64) : List U64 :=
  if origTargets.isEmpty then []
  else
    let tr := TreeRows m.numLeaves
    let targets := sortU64 origTargets
    let proofPos := (ProofPositions targets m.numLeaves tr).1
    let proofPos := if tr ≠ m.totalRows then translatePositions proofPos tr m.totalRows else proofPos
    let missing := proofPos.filter (fun p => !m.hasNode p)
    if tr ≠ m.totalRows then trimProofPos (translatePositions missing m.totalRows tr) m.numLeaves else missing

-- ---------- pruning a cached leaf ----------

/-- the `for row := DetectRow(pos); row <= TreeRows(n); row++` loop of `Prune` -/
def pruneUp : Nat → U64 → MapPollard H → MapPollard H
  | 0, _, m => m
  | k+1, pos, m =>
    if m.isRoot pos then m
    else pruneUp k (Parent pos m.totalRows) (m.prunePosition pos)

/-- one iteration of the loop of `Prune` -/
def pruneOne (hash : H) : MPM H Unit := fun m =>
  match m.getCached hash with
  | none => (m, .ok ())
  | some pos =>
    let m := m.delCached hash
    match m.getNode pos with
    | none => (m, .error .err)
    | some leaf =>
      let m := m.putNode pos ⟨leaf.hash, false⟩
      (pruneUp (rowIters (DetectRow pos m.totalRows) (TreeRows m.numLeaves)) pos m, .ok ())

/-- `Prune(hashes)` -/
def prune (hashes : List H) : MPM H Unit := fun m =>
  if m.full then (m, .ok ())
  else
    let rec go : List H → MapPollard H → MapPollard H × Except Fail Unit
      | [], m => (m, .ok ())
      | h :: hs, m =>
        match pruneOne h m with
        | (m, .error e) => (m, .error e)
        | (m, .ok ()) => go hs m
    go hashes m

-- ---------- look-ups ----------

/-- `GetHash(pos)` -/
def getHash (m : MapPollard H) (pos : U64) : H :=
  let pos := if m.totalRows ≠ TreeRows m.numLeaves then translatePos pos (TreeRows m.numLeaves) m.totalRows else pos
  (m.getNodeD pos).hash

/-- `GetLeafPosition(hash)` -/
def getLeafPosition (m : MapPollard H) (hash : H) : Option U64 :=
  match m.getCached hash with
  | none => none
  | some pos =>
    some (if m.totalRows ≠ TreeRows m.numLeaves then translatePos pos m.totalRows (TreeRows m.numLeaves) else pos)

/-- `GetRoots()` -/
def roots (m : MapPollard H) : List H := m.getRoots.1

/-- `NewMapPollardFromRoots(rootHashes, numLeaves, full)`: `rootHashes[i]` panics when short -/
def fromRootsAt (totalRows : U8) (rootHashes : List H) (numLeaves : U64) (full : Bool) : Except Fail (MapPollard H) :=
  let m : MapPollard H := { (new full : MapPollard H) with numLeaves := numLeaves, totalRows := totalRows }
  let rootPositions := RootPositions numLeaves totalRows
  if rootHashes.length < rootPositions.length then .error .panic
  else .ok ((rootPositions.zip rootHashes).foldl (fun m (p, h) => m.putNode p ⟨h, full⟩) m)

def fromRoots (rootHashes : List H) (numLeaves : U64) (full : Bool) : Except Fail (MapPollard H) :=
  fromRootsAt 63#8 rootHashes numLeaves full

end MapPollard
end
end UtreexoVerif.Model
