/-
  Outcomes of modelled Go calls.  Every Go index/slice expression that would panic is an
  explicit `.panic`; every loop that is not structurally bounded runs on explicit fuel and
  yields `.hang` when the fuel is exhausted (the fuel is chosen so that exhaustion means
  the deterministic Go loop revisits a state, i.e. genuinely never exits — see the
  individual models).  "never panics / terminates" are therefore theorems, not artefacts.
-/
namespace UtreexoVerif

inductive Out (α : Type) where
  | ok (a : α)
  | err          -- Go returned a non-nil error
  | panic        -- Go would panic (index out of range, nil map, …)
  | hang         -- Go would not return
deriving Repr, DecidableEq, Inhabited

namespace Out
@[inline] def bind {α β} (x : Out α) (f : α → Out β) : Out β :=
  match x with
  | .ok a => f a
  | .err => .err
  | .panic => .panic
  | .hang => .hang
instance : Monad Out where
  pure := .ok
  bind := Out.bind
def isOk {α} : Out α → Bool
  | .ok _ => true
  | _ => false
def toOption {α} : Out α → Option α
  | .ok a => some a
  | _ => none
def tag {α} : Out α → String
  | .ok _ => "ok"
  | .err => "err"
  | .panic => "panic"
  | .hang => "hang"
/-- Go `s[i]` -/
def idx {α} (l : List α) (i : Nat) : Out α :=
  match l[i]? with
  | some a => .ok a
  | none => .panic
end Out
end UtreexoVerif
