/-
  prove.go: `AddProof`, `GetProofSubset`, `GetMissingPositions` and the helpers not modelled
  elsewhere (`removeDuplicateUint64Func`, `deTwinHashAndPos`, `mergeSortedHashAndPos` on
  parallel slices of different lengths); mappollard.go: `GetMissingPositions`,
  `VerifyPartialProof` as functions of the node map — transliterated (property C14).

  Conventions as in `Model/HashAndPos.lean`: a `hashAndPos` whose two slices have the same
  length is a list of pairs.  Go never checks that; where caller data is put into a
  `hashAndPos` unchecked (`hashAndPos{proofPosA, proofA.Proof}` in `AddProof`,
  `toHashAndPos(positions, proof.Proof)` in `GetProofSubset`) the model keeps the two lists
  apart (`mergeHP2`, `toHashAndPos2`) and reproduces Go's behaviour — index panic or padding
  with zero values — on lists of different lengths as well.
-/
import UtreexoVerif.Model.Calc
import UtreexoVerif.Model.ProofPos
import UtreexoVerif.Model.Verifiers

namespace UtreexoVerif.Model
open UtreexoVerif Hasher

section
variable {H : Type}

/-- `removeDuplicateUint64Func(slice, get)`: keep the first element of every key -/
def removeDuplicateLoop {α} (key : α → U64) : List α → List U64 → List α
  | [], _ => []
  | x :: xs, seen =>
    if seen.contains (key x) then removeDuplicateLoop key xs seen
    else x :: removeDuplicateLoop key xs (key x :: seen)

def removeDuplicateUint64Func {α} (key : α → U64) (l : List α) : List α := removeDuplicateLoop key l []

/-- `toHashAndPos(targets, hashes)` keeping the two slices apart.  Exact when the lengths agree
(stable sort of the pairs) and when the targets are already ascending (`sort.Sort` then
performs no swap, whatever the length of `hashes`); for unsorted targets with a different
number of hashes Go's sort indexes `hashes` while swapping, which panics or not depending on
the sorting algorithm's swap sequence: reported as `.panic` (outside the modelled domain,
the driver does not compare such lines). -/
def toHashAndPos2 (targets : List U64) (hashes : List H) : Out (List U64 × List H) :=
  if targets.length = hashes.length then
    let s := sortHP (targets.zip hashes)
    .ok (s.positions, s.hashes)
  else if sortU64 targets = targets then .ok (targets, hashes)
  else .panic

/-- the domain on which `toHashAndPos2` is exact -/
def toHashAndPos2Exact (targets : List U64) (hashes : List H) : Bool :=
  targets.length = hashes.length || sortU64 targets = targets

end

section
variable {H : Type} [DecidableEq H] [Hasher H]

/-- main loop of `mergeSortedHashAndPos(hashAndPos{pa, ha}, hashAndPos{pb, hb})` on the
remaining suffixes.  `debt` counts elements of `b` consumed by an "equal" step after
`b.hashes` had run out (`idxb > len(b.hashes)`: that step does not read `b.hashes`);
`room = len(c) - j`.

* `a.hashes[idxa]` / `b.hashes[idxb]` out of range: `.panic`;
* one side exhausted: `copy(c.positions[j:], rest)`, `j += copy(c.hashes[j:], restHashes)`
  (`b.hashes[idxb:]` panics when `idxb > len(b.hashes)`), then both slices of `c` are cut to
  `j`: positions beyond the copied ones are the zeros `make` put there. -/
def mergeHP2Go : List U64 → List H → List U64 → List H → Nat → Nat → Out (HP H)
  | [], _, pb, hb, debt, room =>
    if debt > 0 then .panic
    else
      let nh := min room hb.length
      .ok (((pb ++ List.replicate nh 0#64).take nh).zip (hb.take nh))
  | va :: pa, ha, [], _, _, room =>
    let nh := min room ha.length
    .ok ((((va :: pa) ++ List.replicate nh 0#64).take nh).zip (ha.take nh))
  | va :: pa, ha, vb :: pb, hb, debt, room =>
    if va < vb then
      match ha with
      | h :: ha' => (mergeHP2Go pa ha' (vb :: pb) hb debt (room - 1)).bind (fun l => .ok ((va, h) :: l))
      | [] => .panic
    else if vb < va then
      if debt > 0 then .panic
      else match hb with
        | h :: hb' => (mergeHP2Go (va :: pa) ha pb hb' 0 (room - 1)).bind (fun l => .ok ((vb, h) :: l))
        | [] => .panic
    else
      match ha with
      | h :: ha' =>
        (mergeHP2Go pa ha' pb hb.tail (if hb.isEmpty then debt + 1 else debt) (room - 1)).bind
          (fun l => .ok ((va, h) :: l))
      | [] => .panic
termination_by pa _ pb _ _ _ => pa.length + pb.length

/-- `mergeSortedHashAndPos` on parallel slices of possibly different lengths; the result always
has slices of equal length -/
def mergeHP2 (pa : List U64) (ha : List H) (pb : List U64) (hb : List H) : Out (HP H) :=
  if pa.isEmpty then
    -- c.hashes = make([]Hash, maxb); copy(c.hashes, b.hashes)
    .ok (pb.zip ((hb ++ List.replicate pb.length zero).take pb.length))
  else if pb.isEmpty then
    .ok (pa.zip ((ha ++ List.replicate pa.length zero).take pa.length))
  else mergeHP2Go pa ha pb hb 0 (pa.length + pb.length)

/-- the `for i` loop of `deTwinHashAndPos`; as in `deTwin` a merge shortens the slice by one
and keeps `i`, otherwise `i` advances -/
def deTwinHPLoop (rows : U8) : Nat → Nat → HP H → HP H
  | 0, _, d => d
  | fuel+1, i, d =>
    match d[i]?, d[i+1]? with
    | some a, some b =>
      if rightSib a.1 == b.1 then
        deTwinHPLoop rows fuel i
          (mergeHP ((d.eraseIdx i).eraseIdx i) [(Parent a.1 rows, ph a.2 b.2)])
      else deTwinHPLoop rows fuel (i+1) d
    | some _, none => d
    | none, _ => d

/-- `deTwinHashAndPos(hnp, forestRows)` -/
def deTwinHashAndPos (hnp : HP H) (rows : U8) : HP H := deTwinHPLoop rows (2 * hnp.length + 1) 0 hnp

/-- `GetMissingPositions(numLeaves, proofTargets, desiredTargets)` (Go sorts `desiredTargets`
in place: an effect on the caller's slice, not on the result) -/
def getMissingPositions (numLeaves : U64) (proofTargets desiredTargets : List U64) : List U64 :=
  let forestRows := TreeRows numLeaves
  let targets := sortU64 proofTargets
  let desired := sortU64 desiredTargets
  let desired := subtractU64 desired targets
  if desired.isEmpty then []
  else
    let desiredPositions := (ProofPositions desired numLeaves forestRows).1
    let (havePositions, computablePos) := ProofPositions targets numLeaves forestRows
    let have_ := sortU64 (havePositions ++ targets ++ computablePos)
    subtractU64 desiredPositions have_

/-- `AddProof(proofA, proofB, targetHashesA, targetHashesB, numLeaves)`:
(cached hashes, targets, proof hashes) -/
def addProof (numLeaves : U64) (tA : List U64) (pA hA : List H) (tB : List U64) (pB hB : List H) :
    Out (List H × List U64 × List H) := do
  let totalRows := TreeRows numLeaves
  let targetsA := sortU64 tA
  let (proofPosA, calculateableA) := ProofPositions targetsA numLeaves totalRows
  let targetsB := sortU64 tB
  let (proofPosB, calculateableB) := ProofPositions targetsB numLeaves totalRows
  -- hashAndPos{proofPosA, proofA.Proof}, hashAndPos{proofPosB, proofB.Proof}: unchecked lengths
  let proofAndPosC ← mergeHP2 proofPosA pA proofPosB pB
  let calculateableC := mergeU64 calculateableA calculateableB
  let proofAndPosC := subtractHP proofAndPosC calculateableC
  let targetsC := mergeU64 targetsA targetsB
  let proofAndPosC := subtractHP proofAndPosC targetsC
  let a ← toHashAndPos2 tA hA
  let b ← toHashAndPos2 tB hB
  let c ← mergeHP2 a.1 a.2 b.1 b.2
  pure (c.hashes, targetsC, proofAndPosC.hashes)

/-- the inputs on which `addProof` is exact (see `toHashAndPos2`) -/
def addProofExact (tA : List U64) (hA : List H) (tB : List U64) (hB : List H) : Bool :=
  toHashAndPos2Exact tA hA && toHashAndPos2Exact tB hB

/-- the last loop of `GetProofSubset`: `idx := slices.Index(positions, want);
retHashes[i] = hashes[idx]` — `idx = -1` (not found) is an index panic -/
def lookupHashes (sub : HP H) : List U64 → Out (List H)
  | [] => .ok []
  | w :: ws =>
    match sub.find? (fun x => x.1 == w) with
    | some x => (lookupHashes sub ws).bind (fun l => .ok (x.2 :: l))
    | none => .panic

/-- `GetProofSubset(proof, hashes, wants, numLeaves)`: (hashes, targets, proof hashes).
Exact when `hashes` and `proof.Targets` have the same length (the documented precondition of
`toHashAndPos`; `calculateHashes` is modelled under it). -/
def getProofSubset (numLeaves : U64) (targets : List U64) (proof hashes : List H) (wants : List U64) :
    Out (List H × List U64 × List H) := do
  let proofTargetsCopy := sortU64 targets
  let expectedEmpty := subtractU64 (sortU64 wants) proofTargetsCopy
  if !expectedEmpty.isEmpty then .err
  else
    let targetHashesWithPos ← toHashAndPos targets hashes
    let r ← calculateHashes numLeaves (some hashes) targets proof
    let posAndHashes := sortHP r.nodes
    let positions := (ProofPositions proofTargetsCopy numLeaves (TreeRows numLeaves)).1
    let proofPos ← toHashAndPos2 positions proof
    let posAndHashes ← mergeHP2 posAndHashes.positions posAndHashes.hashes proofPos.1 proofPos.2
    let sortedWants := sortU64 wants
    let targetHashesWithPos := subsetHP targetHashesWithPos sortedWants
    let wantProofPos := (ProofPositions targetHashesWithPos.positions numLeaves (TreeRows numLeaves)).1
    let posAndHashes := subsetHP posAndHashes wantProofPos
    if posAndHashes.length ≠ wantProofPos.length then .err
    else
      let retHashes ← lookupHashes targetHashesWithPos wants
      pure (retHashes, wants, posAndHashes.hashes)

/-- `MapPollard.trimProofPos` -/
def trimProofPos (proofPos : List U64) (numLeaves : U64) : List U64 :=
  proofPos.takeWhile (fun p => inForest p numLeaves (TreeRows numLeaves))

/-- `MapPollard.GetMissingPositions(origTargets)`; `has p` = `m.Nodes.Get(p)` finds an entry
(positions in `TotalRows` coordinates) -/
def mapGetMissingPositions (numLeaves : U64) (totalRows : U8) (has : U64 → Bool) (origTargets : List U64) :
    List U64 :=
  if origTargets.isEmpty then []
  else
    let targets := sortU64 origTargets
    let tr := TreeRows numLeaves
    let proofPos := (ProofPositions targets numLeaves tr).1
    let proofPos := if tr ≠ totalRows then translatePositions proofPos tr totalRows else proofPos
    let missing := proofPos.filter (fun p => !has p)
    if tr ≠ totalRows then trimProofPos (translatePositions missing totalRows tr) numLeaves
    else missing

/-- the loop of `VerifyPartialProof` that merges stored hashes with the supplied ones -/
def partialProofHashes (get : U64 → Option H) : List U64 → List H → Out (List H)
  | [], _ => .ok []
  | pos :: rest, supplied =>
    let hash := (get pos).getD zero       -- leaf, _ := m.Nodes.Get(pos); hash := leaf.Hash
    if hash = zero then
      match supplied with
      | [] => .err                         -- "proof too short"
      | h :: hs => (partialProofHashes get rest hs).bind (fun l => .ok (h :: l))
    else (partialProofHashes get rest supplied).bind (fun l => .ok (hash :: l))

/-- `MapPollard.getRoots` -/
def mapGetRoots (numLeaves : U64) (totalRows : U8) (get : U64 → Option H) : List H :=
  (RootPositions numLeaves totalRows).map (fun p => (get p).getD zero)

/-- `MapPollard.VerifyPartialProof(origTargets, delHashes, proofHashes, false)` -/
def mapVerifyPartialProof (numLeaves : U64) (totalRows : U8) (get : U64 → Option H)
    (origTargets : List U64) (delHashes proofHashes : List H) : Out Unit := do
  let targets := sortU64 origTargets
  let tr := TreeRows numLeaves
  let proofPositions := (ProofPositions targets numLeaves tr).1
  let proofPositions := if tr ≠ totalRows then translatePositions proofPositions tr totalRows else proofPositions
  let all ← partialProofHashes get proofPositions proofHashes
  let _ ← mapVerify numLeaves totalRows (mapGetRoots numLeaves totalRows get) delHashes origTargets all
  pure ()

end
end UtreexoVerif.Model
