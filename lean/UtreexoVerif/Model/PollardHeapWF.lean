/-
  Executable abstraction function and well-formedness check of the heap model of the pointer
  forest (`Model/PollardHeap.lean`).  Core Lean only; the driver evaluates `wfCheck` on the
  model state after every replayed operation (kind `ph:wf`), `Props/PollardHeap.lean` proves
  that a passing check implies the invariant `WF` used by the theorems.

  Reading the collapsed trees off the niece structure: a node `n` does not point to its
  children but to its nieces; the children of `n` hang off `holder` = `n`'s sibling (`n` itself
  for a root).  `readSub hp fuel n holder` returns the collapsed tree below `n`, the nodes it
  owns (all descendants, `n` excluded) and its leaves with their heap indexes.
-/
import UtreexoVerif.Model.PollardHeap

namespace UtreexoVerif.Model.PollardHeap
open UtreexoVerif UtreexoVerif.GoInt UtreexoVerif.Model UtreexoVerif.Spec Hasher

section
variable {H : Type} [DecidableEq H] [Hasher H]

/-- what `readSub` returns: the collapsed tree, the footprint (descendants), the leaves -/
structure SubInfo (H : Type) where
  tree : CTree H
  fp : List Nat
  leaves : List (H × Nat)

/-- the collapsed tree of node `n` whose children hang off `holder`; `none` when the structure
is ill-formed (one niece missing, a niece whose aunt is not `holder`, an inner node whose data
is not the parent hash of its children) or deeper than `fuel - 1` -/
def readSub (hp : Array (PolNode H)) : Nat → Nat → Nat → Option (SubInfo H)
  | 0, _, _ => none
  | fuel+1, n, holder =>
    match hp[n]?, hp[holder]? with
    | some nn, some hn =>
      match hn.lNiece, hn.rNiece with
      | none, none => some ⟨.leaf nn.data, [], [(nn.data, n)]⟩
      | some l, some r =>
        match hp[l]?, hp[r]? with
        | some ln, some rn =>
          if ln.aunt = some holder ∧ rn.aunt = some holder then
            match readSub hp fuel l r, readSub hp fuel r l with
            | some a, some b =>
              if nn.data = ph a.tree.hash b.tree.hash then
                some ⟨.node a.tree b.tree, l :: r :: (a.fp ++ b.fp), a.leaves ++ b.leaves⟩
              else none
            | _, _ => none
          else none
        | _, _ => none
      | _, _ => none
    | _, _ => none

/-- is root `r` an empty root (`deleteRoot`: data = empty, chopped)? -/
def isEmptyRoot (hp : Array (PolNode H)) (r : Nat) : Bool :=
  match hp[r]? with
  | some rn => decide (rn.data = zero) && rn.lNiece.isNone && rn.rNiece.isNone
  | none => false

/-- the tree of root `r` on row `row`: `some none` = empty root, `none` = ill-formed -/
def readRoot (hp : Array (PolNode H)) (row : Nat) (r : Nat) : Option (Option (SubInfo H)) :=
  match hp[r]? with
  | none => none
  | some rn =>
    if rn.aunt ≠ none then none
    else if isEmptyRoot hp r then some none
    else (readSub hp (row + 1) r r).map some

/-- all roots, row by row (`rows` = the set bits of `NumLeaves`, highest first) -/
def readRoots (hp : Array (PolNode H)) : List Nat → List Nat → Option (List (Nat × Option (SubInfo H)))
  | [], [] => some []
  | row :: rows, r :: rs =>
    match readRoot hp row r, readRoots hp rows rs with
    | some i, some rest => some ((r, i) :: rest)
    | _, _ => none
  | _, _ => none

/-- every node reachable: each root followed by its descendants -/
def ownedOf (l : List (Nat × Option (SubInfo H))) : List Nat :=
  l.flatMap (fun e => e.1 :: (match e.2 with
    | some i => i.fp
    | none => []))

/-- every leaf with its heap index, in tree order -/
def leavesOf (l : List (Nat × Option (SubInfo H))) : List (H × Nat) :=
  l.flatMap (fun e => match e.2 with
    | some i => i.leaves
    | none => [])

/-- **the abstraction function**: the collapsed trees (highest tree first, `none` = empty
root) with their rows — together with `NumLeaves` exactly the data `Spec.Equiv` compares
(`F.numLeaves`, `F.trees`) -/
def absTrees (p : Pollard H) : Option (List (Nat × Option (CTree H))) :=
  let rows := treeRows p.numLeaves.toNat
  (readRoots p.heap rows p.roots).map (fun l => rows.zip (l.map (fun e => e.2.map (·.tree))))

/-- executable well-formedness check; `none` = well formed, `some why` otherwise -/
def wfCheck (p : Pollard H) : Option String :=
  match readRoots p.heap (treeRows p.numLeaves.toNat) p.roots with
  | none => some "niece structure ill-formed (root count, missing niece, wrong aunt, wrong parent hash, too deep, root with an aunt)"
  | some infos =>
    let leaves := leavesOf infos
    if !decide (ownedOf infos).Nodup then some "a node is reachable twice"
    else if !decide (p.nodeMap.map (·.1)).Nodup then some "NodeMap key listed twice"
    else if !p.nodeMap.all (fun e => leaves.contains e) then
      some "a NodeMap entry does not point at a reachable leaf with that hash"
    else if p.full && !leaves.all (fun e => p.nodeMap.contains e) then
      some "full pollard: a reachable leaf is not in NodeMap"
    else none

end
end UtreexoVerif.Model.PollardHeap
