/-
  stump.go: `Stump`, `Update = del ; add`, `rootsToDestory`, `UpdateData` — transliterated.
-/
import UtreexoVerif.Model.Calc

namespace UtreexoVerif.Model
open UtreexoVerif Hasher

section
variable {H : Type} [DecidableEq H] [Hasher H]

structure Stump (H : Type) where
  roots : List H
  numLeaves : U64
deriving Repr, DecidableEq

structure UpdateData (H : Type) where
  toDestroy : List U64
  prevNumLeaves : U64
  newDel : HP H        -- NewDelPos / NewDelHash
  newAdd : HP H        -- NewAddPos / NewAddHash
deriving Repr

/-- Go `roots[len-1]` then `roots[:len-1]` -/
def popLast {α} (l : List α) : Out (α × List α) :=
  match l.getLast? with
  | some x => .ok (x, l.dropLast)
  | none => .panic

/-- inner loop of `rootsToDestory`: `for h := 0; (numLeaves>>h)&1 == 1; h++` -/
def rtdInner (numLeaves : U64) (rowsAfter : U8) : Nat → U8 → List H → List U64 → Out (List H × List U64)
  | 0, _, _, _ => .hang
  | fuel+1, h, roots, deleted =>
    if (numLeaves >>> h.toNat) &&& 1#64 == 1#64 then do
      let (root, roots) ← popLast roots
      let deleted := if root = zero then deleted ++ [rootPosition numLeaves h rowsAfter] else deleted
      rtdInner numLeaves rowsAfter fuel (h + 1) roots deleted
    else .ok (roots, deleted)

/-- outer loop of `rootsToDestory`; `nonZero` stands for Go's `Hash{1}` placeholder -/
def rtdOuter (nonZero : H) (numAdds : U64) : Nat → U64 → U64 → List H → List U64 → Out (List U64)
  | 0, _, _, _, deleted => .ok deleted
  | k+1, i, numLeaves, roots, deleted => do
    let (roots, deleted) ← rtdInner numLeaves (TreeRows (numLeaves + (numAdds - i))) 65 0#8 roots deleted
    rtdOuter nonZero numAdds k (i + 1) (numLeaves + 1) (roots ++ [nonZero]) deleted

/-- `rootsToDestory(numAdds, numLeaves, origRoots)`; `numAdds` as a `Nat` loop bound -/
def rootsToDestroy (nonZero : H) (numAdds : Nat) (numLeaves : U64) (roots : List H) : Out (List U64) :=
  if roots.any (· = zero) then
    rtdOuter nonZero (BitVec.ofNat 64 numAdds) numAdds 0#64 numLeaves roots []
  else .ok []

/-- Go `map[Hash]uint64` assignment -/
def mapPut (m : List (H × U64)) (k : H) (v : U64) : List (H × U64) :=
  if m.any (·.1 = k) then m.map (fun e => if e.1 = k then (k, v) else e) else m ++ [(k, v)]

/-- merge loop of `Stump.add` for one leaf -/
def addInner (afterRows : U8) (numLeaves : U64) :
    Nat → U8 → List H → H → U64 → List (H × U64) → Out (List H × H × List (H × U64))
  | 0, _, _, _, _, _ => .hang
  | fuel+1, h, roots, newRoot, pos, upd =>
    if (numLeaves >>> h.toNat) &&& 1#64 == 1#64 then do
      let (root, roots) ← popLast roots
      if root ≠ zero then
        let upd := mapPut upd root (leftSib pos)
        let upd := mapPut upd newRoot pos
        addInner afterRows numLeaves fuel (h + 1) roots (ph root newRoot) (Parent pos afterRows) upd
      else
        addInner afterRows numLeaves fuel (h + 1) roots newRoot pos upd
    else .ok (roots, newRoot, upd)

/-- `Stump.add`: returns the new stump, the created nodes and the destroyed empty roots -/
def Stump.add (nonZero : H) (s : Stump H) (adds : List H) : Out (Stump H × HP H × List U64) := do
  let nAdds := adds.length
  let afterRows := TreeRows (s.numLeaves + BitVec.ofNat 64 nAdds)
  let allDeleted ← rootsToDestroy nonZero nAdds s.numLeaves s.roots
  let rec loop : List H → Nat → Stump H → List (H × U64) → Out (Stump H × List (H × U64))
    | [], _, s, upd => .ok (s, upd)
    | add :: rest, remaining, s, upd => do
      let deleted ← rootsToDestroy nonZero remaining s.numLeaves s.roots
      let pos := deleted.foldl (fun pos del =>
        if isAncestor (Parent del afterRows) pos afterRows then (calcNextPosition pos del afterRows).1 else pos)
        s.numLeaves
      -- fix: the added leaf itself is always reported, also when it ends as a lone root
      let upd := mapPut upd add pos
      let (roots, newRoot, upd) ← addInner afterRows s.numLeaves 65 0#8 s.roots add pos upd
      loop rest (remaining - 1) { roots := roots ++ [newRoot], numLeaves := s.numLeaves + 1 } upd
  let (s', upd) ← loop adds nAdds s []
  pure (s', sortHP (upd.map (fun e => (e.2, e.1))), allDeleted)

/-- `Stump.del` with Go's statement order: `Verify` (reads only), the second
`calculateHashes` with zeroed targets (reads only), the length check, and only then the
write-back of the modified roots.  First component: the stump the receiver holds when
`del` returns, whatever the outcome. -/
def Stump.delSt (s : Stump H) (delHashes : List H) (targets : List U64) (proofHashes : List H) :
    Stump H × Out (HP H) :=
  match verify s.numLeaves s.roots delHashes targets proofHashes with
  | .ok rootIndexes =>
    match calculateHashes s.numLeaves none targets proofHashes with
    | .ok r =>
      if r.roots.length ≠ rootIndexes.length then (s, .err)
      else
        let roots := (rootIndexes.zip r.roots).foldl (fun rs (i, h) => rs.set i h) s.roots
        ({ s with roots := roots }, .ok r.nodes)
    | .err => (s, .err)
    | .panic => (s, .panic)
    | .hang => (s, .hang)
  | .err => (s, .err)
  | .panic => (s, .panic)
  | .hang => (s, .hang)

/-- `Stump.Update = del ; add`, state-leaving form (see `delSt`).  `add` cannot return an
error; if it panics on a malformed stump the state left behind is unspecified (the model
returns the state after `del`). -/
def Stump.updateSt (nonZero : H) (s : Stump H) (delHashes addHashes : List H) (targets : List U64)
    (proofHashes : List H) : Stump H × Out (UpdateData H) :=
  match s.delSt delHashes targets proofHashes with
  | (s1, .ok newDel) =>
    match s1.add nonZero addHashes with
    | .ok (s2, newAdd, toDestroy) =>
      (s2, .ok { toDestroy := toDestroy, prevNumLeaves := s1.numLeaves, newDel := newDel, newAdd := newAdd })
    | .err => (s1, .err)
    | .panic => (s1, .panic)
    | .hang => (s1, .hang)
  | (s1, .err) => (s1, .err)
  | (s1, .panic) => (s1, .panic)
  | (s1, .hang) => (s1, .hang)

/-- `Stump.Update` as an outcome carrying the new stump -/
def Stump.update (nonZero : H) (s : Stump H) (delHashes addHashes : List H) (targets : List U64)
    (proofHashes : List H) : Out (Stump H × UpdateData H) :=
  match s.updateSt nonZero delHashes addHashes targets proofHashes with
  | (s2, .ok ud) => .ok (s2, ud)
  | (_, .err) => .err
  | (_, .panic) => .panic
  | (_, .hang) => .hang

end
end UtreexoVerif.Model
