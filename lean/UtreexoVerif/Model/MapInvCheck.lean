/-
  The storage invariant of a map forest (property C09) as an EXECUTABLE check:
  `invCheck m F : Bool`.  `Proofs/MapInvCheck.lean` proves `invCheck m F = true → Inv m F`
  (`Inv` is the `Prop` the theorems of `Props/C09.lean` are about), so a state the driver
  accepts with this function satisfies the hypothesis of those theorems.  Core Lean only.
-/
import UtreexoVerif.Model.MapPollard

namespace UtreexoVerif.Model
open UtreexoVerif Spec Hasher

/-- decode a position of a forest allocated for `h` rows into (row, offset) -/
def decRO : Nat → Nat → Option Pos
  | 0, p => if p = 0 then some (0, 0) else none
  | h+1, p =>
    if p < 2 ^ (h + 1) then some (0, p)
    else (decRO h (p - 2 ^ (h + 1))).map (fun q => (q.1 + 1, q.2))

def encPos (T : Nat) (q : Pos) : U64 := BitVec.ofNat 64 (enc T (q.1, q.2))

/-- `(r, o)` is, or lies below, the root of the tree on row `R` -/
def belowRootB (n r o R : Nat) : Bool :=
  decide (r ≤ R) && n.testBit R && (o / 2 ^ (R - r) == (rootPos n R).2)

/-- the row of the root above a node -/
def rootRowOf (n : Nat) (t : Pos) : Option Nat := (List.range 65).find? (fun R => belowRootB n t.1 t.2 R)

/-- `p` is `t` or an ancestor of `t` -/
def ancB (p t : Pos) : Bool := decide (t.1 ≤ p.1) && (p.2 == t.2 / 2 ^ (p.1 - t.1))

def onPathB (n : Nat) (t q : Pos) : Bool :=
  match rootRowOf n t with
  | some R => ancB q t && decide (q.1 ≤ R)
  | none => false

def proofSibB (n : Nat) (t q : Pos) : Bool := onPathB n t (sib q) && !isRootPos n (sib q)

section
variable {H : Type} [DecidableEq H] [Hasher H]

/-- every stored hash is the hash of the node of `F` at that position -/
def chkTrue (m : MapPollard H) (F : Forest H) : Bool :=
  m.nodes.all fun e => match decRO m.totalRows.toNat e.1.toNat with
    | some q => F.nodeAt q == some e.2.hash
    | none => false

/-- the cache maps live leaves to their positions -/
def chkCached (m : MapPollard H) (F : Forest H) : Bool :=
  m.cached.all fun c => match F.posOf c.1 with
    | some t => c.2 == encPos m.totalRows.toNat t
    | none => false

/-- everything stored is a root or lies on the path / proof path of a cached leaf -/
def chkOnlyNeeded (m : MapPollard H) (F : Forest H) : Bool :=
  m.nodes.all fun e => match decRO m.totalRows.toNat e.1.toNat with
    | some q => isRootPos F.numLeaves q || m.cached.any fun c => match F.posOf c.1 with
        | some t => onPathB F.numLeaves t q || proofSibB F.numLeaves t q
        | none => false
    | none => false

/-- the roots, the cached leaves and their proof positions are stored -/
def chkHasNeeded (m : MapPollard H) (F : Forest H) : Bool :=
  ((treeRows F.numLeaves).all fun r => m.hasNode (encPos m.totalRows.toNat (rootPos F.numLeaves r))) &&
  m.cached.all fun c => match F.posOf c.1 with
    | some t => match rootRowOf F.numLeaves t with
      | some R => m.hasNode (encPos m.totalRows.toNat t) &&
          (List.range (R - t.1)).all fun j => m.hasNode (encPos m.totalRows.toNat (sib (t.1 + j, t.2 / 2 ^ j)))
      | none => false
    | none => false

/-- remember flags of a non-full forest -/
def chkFlags (m : MapPollard H) (F : Forest H) : Bool :=
  m.full || m.nodes.all fun e => match decRO m.totalRows.toNat e.1.toNat with
    | some q => isRootPos F.numLeaves q ||
        (e.2.remember == m.cached.any fun c => AL.get? m.cached c.1 == some e.1)
    | none => false

/-- **the storage invariant, executable** -/
def invCheck (m : MapPollard H) (F : Forest H) : Bool :=
  decide (F.numLeaves < 2 ^ 63) && (m.numLeaves == BitVec.ofNat 64 F.numLeaves) &&
  decide (F.rows ≤ m.totalRows.toNat) && decide (m.totalRows.toNat ≤ 63) &&
  chkTrue m F && chkCached m F && chkOnlyNeeded m F && chkHasNeeded m F && chkFlags m F

end
end UtreexoVerif.Model
