/-
  Model/Lock.lean — the concurrency model behind property C12 (core Lean only).

  Part 1  `MethodInfo`: what the translator `translate/locktable` extracts from
          `mappollard.go` for every method with receiver `*MapPollard`
          (the table itself is `Gen/LockTable.lean`, regenerated on every check).
  Part 2  An interleaving small-step semantics of threads that run straight-line programs of
          field accesses bracketed by `acquire k … release k` on ONE `sync.RWMutex`.
          The mutex state is (writer mutex owner, writer inside?, reader count); as in Go's
          implementation a writer first announces itself (takes the writer mutex; from then
          on new readers block) and enters once the active readers have drained.  The
          scheduler is the nondeterminism of `Step`: any thread that can move may move, any
          thread may stay suspended for as long as the scheduler likes, at any point
          (in particular at a `hook` = `verifPoint` inside a critical section).
  Part 3  `wfProg`: the shape of a thread program that respects the lock discipline.
  Part 4  `Gen`: the instruction sequences a call of a method may produce ACCORDING TO A
          TABLE (any order, any repetition, any prefix of the accesses in the footprint, any
          order of the listed calls: loops, branches, early returns and panics are all
          covered, because the unlock is deferred), and `LockDiscipline`, the computable check
          of the table (with the transitive closure over the call graph).

  The theorems are in `Proofs/Lock.lean` (invariants) and `Props/C12.lean`.
-/
namespace UtreexoVerif.Model.Lock

/-! ## Part 1 — the extracted table -/

/-- kind of lock a method takes / a thread holds: nothing, the read lock, the write lock -/
inductive LockKind where
  | none | r | w
  deriving DecidableEq, Repr, Inhabited

/-- One row of the lock table (per method with receiver `*MapPollard`).
`pre…` = what the statements BEFORE the top-level `m.rwLock.Lock()/RLock()` statement do
(empty when the lock is taken by the first statement, and for methods that take no lock);
`reads/writes/calls` = what the rest of the body does DIRECTLY (callees are followed by the
closure in `LockDiscipline`, not by the translator). -/
structure MethodInfo (F M : Type) where
  /-- the Go identifier starts with an upper-case letter -/
  exported : Bool
  /-- the top-level statement `m.rwLock.Lock()` (`w`) / `m.rwLock.RLock()` (`r`), if any -/
  lock : LockKind
  /-- index of that statement in the body (0 = first statement) -/
  lockIndex : Nat
  /-- the lock is held for exactly the rest of the body: the statement right after the acquire is
  `defer m.rwLock.Unlock()` resp. `RUnlock()`, or (recognised by the translator's
  `explicitRelease`) the matching release stands immediately before every `return` and before the
  end of the body, with no mention of the receiver after a release -/
  deferred : Bool
  /-- number of OTHER operations on the mutex anywhere in the body (must be 0) -/
  extraLockOps : Nat
  preReads : List F
  preWrites : List F
  preCalls : List M
  reads : List F
  writes : List F
  calls : List M
  /-- the body contains a `verifPoint(site)` call -/
  hook : Bool
  deriving Repr

/-- the lock pattern is the regular one: a single acquire, its unlock deferred at once, no
other operation on the mutex -/
def MethodInfo.regular {F M : Type} (i : MethodInfo F M) : Bool :=
  i.extraLockOps == 0 && (i.lock == .none || i.deferred)

/-! ## Part 2 — threads, the RWMutex, interleaving semantics -/

/-- one step of a method body: a read or a write of a field of the shared struct, or a
`verifPoint` hook (a no-op at which a test harness may suspend the thread).  The value
written is any function of what the thread has read so far. -/
inductive Acc (F V : Type) where
  | read (f : F)
  | write (f : F) (g : List V → V)
  | hook

inductive Instr (F V : Type) where
  | acc (a : Acc F V)
  | acquire (k : LockKind)
  | release (k : LockKind)

abbrev Mem (F V : Type) := F → V

def Mem.upd {F V : Type} [DecidableEq F] (m : Mem F V) (f : F) (v : V) : Mem F V :=
  fun x => if x = f then v else m x

/-- effect of an access on (shared memory, the thread's log of values read) -/
def Acc.run {F V : Type} [DecidableEq F] : Acc F V → Mem F V × List V → Mem F V × List V
  | .read f, (m, l) => (m, l ++ [m f])
  | .write f g, (m, l) => (m.upd f (g l), l)
  | .hook, s => s

/-- SEQUENTIAL execution of a list of accesses (nothing else running) -/
def runOps {F V : Type} [DecidableEq F] (ops : List (Acc F V)) (s : Mem F V × List V) : Mem F V × List V :=
  ops.foldl (fun s a => a.run s) s

/-- what a thread holds: nothing; nothing but it has announced itself as the next writer
(owns the writer mutex, waits for the readers to drain); the read lock; the write lock -/
inductive Held where
  | out | pend | r | w
  deriving DecidableEq, Repr

def Held.ctx : Held → LockKind
  | .out => .none
  | .pend => .none
  | .r => .r
  | .w => .w

structure Thread (F V : Type) where
  /-- the instructions still to execute -/
  prog : List (Instr F V)
  held : Held := .out
  /-- every value read so far -/
  log : List V := []
  /-- ghost: the log at the moment the current critical section was entered -/
  log0 : List V := []
  /-- ghost: the accesses executed so far in the current critical section -/
  done : List (Acc F V) := []

/-- state of the one `sync.RWMutex` -/
structure RW where
  /-- owner of the writer mutex: the pending or active writer (`none`: free) -/
  wmutex : Option Nat := none
  /-- "writer held?": the thread inside a write section -/
  writer : Option Nat := none
  /-- number of threads inside a read section -/
  readers : Nat := 0

structure State (F V : Type) where
  lock : RW := {}
  mem : Mem F V
  threads : List (Thread F V)
  /-- ghost: the initial memory -/
  init : Mem F V
  /-- ghost: the memory left by the last completed write section ("the state between two
  blocks") -/
  committed : Mem F V
  /-- ghost: the completed write sections in order of completion: (accesses executed, the
  writer's log when it entered) -/
  hist : List (List (Acc F V) × List V) := []

def State.initial {F V : Type} (mem0 : Mem F V) (progs : List (List (Instr F V))) : State F V :=
  { mem := mem0, init := mem0, committed := mem0, threads := progs.map (fun p => { prog := p }) }

/-- `Step s i s'`: thread `i` makes one move.  An `acquire` may be disabled (the thread
waits); accesses and releases are always enabled.  A nested acquire or an unmatched release
has no move at all (in Go: self-deadlock resp. fatal error). -/
inductive Step {F V : Type} [DecidableEq F] : State F V → Nat → State F V → Prop
  | acc {s : State F V} {i : Nat} {t : Thread F V} {a : Acc F V} {p : List (Instr F V)}
      (ht : s.threads[i]? = some t) (hp : t.prog = .acc a :: p) :
      Step s i { s with
        mem := (a.run (s.mem, t.log)).1
        threads := s.threads.set i { t with prog := p, log := (a.run (s.mem, t.log)).2, done := t.done ++ [a] } }
  | rlock {s : State F V} {i : Nat} {t : Thread F V} {p : List (Instr F V)}
      (ht : s.threads[i]? = some t) (hp : t.prog = .acquire .r :: p) (hh : t.held = .out)
      (hw : s.lock.wmutex = none) :
      Step s i { s with
        lock := { s.lock with readers := s.lock.readers + 1 }
        threads := s.threads.set i { t with prog := p, held := .r, log0 := t.log, done := [] } }
  | wannounce {s : State F V} {i : Nat} {t : Thread F V} {p : List (Instr F V)}
      (ht : s.threads[i]? = some t) (hp : t.prog = .acquire .w :: p) (hh : t.held = .out)
      (hw : s.lock.wmutex = none) :
      Step s i { s with
        lock := { s.lock with wmutex := some i }
        threads := s.threads.set i { t with held := .pend } }
  | wenter {s : State F V} {i : Nat} {t : Thread F V} {p : List (Instr F V)}
      (ht : s.threads[i]? = some t) (hp : t.prog = .acquire .w :: p) (hh : t.held = .pend)
      (hr : s.lock.readers = 0) :
      Step s i { s with
        lock := { s.lock with writer := some i }
        threads := s.threads.set i { t with prog := p, held := .w, log0 := t.log, done := [] } }
  | runlock {s : State F V} {i : Nat} {t : Thread F V} {p : List (Instr F V)}
      (ht : s.threads[i]? = some t) (hp : t.prog = .release .r :: p) (hh : t.held = .r) :
      Step s i { s with
        lock := { s.lock with readers := s.lock.readers - 1 }
        threads := s.threads.set i { t with prog := p, held := .out } }
  | wunlock {s : State F V} {i : Nat} {t : Thread F V} {p : List (Instr F V)}
      (ht : s.threads[i]? = some t) (hp : t.prog = .release .w :: p) (hh : t.held = .w) :
      Step s i { s with
        lock := { s.lock with writer := none, wmutex := none }
        committed := s.mem
        hist := s.hist ++ [(t.done, t.log0)]
        threads := s.threads.set i { t with prog := p, held := .out } }

/-- the states of ALL executions (every interleaving, every suspension) from `s0` -/
inductive Reachable {F V : Type} [DecidableEq F] (s0 : State F V) : State F V → Prop
  | refl : Reachable s0 s0
  | step {s s' : State F V} {i : Nat} : Reachable s0 s → Step s i s' → Reachable s0 s'

/-! ### The three properties, as predicates on a state -/

/-- two accesses conflict: same field, at least one of them writes -/
def Acc.conflicts {F V : Type} : Acc F V → Acc F V → Prop
  | .write f _, .write f' _ => f = f'
  | .write f _, .read f' => f = f'
  | .read f, .write f' _ => f = f'
  | _, _ => False

/-- (a) data-race freedom: no two distinct threads have conflicting accesses as their next
instruction (an access is always enabled, so "next" = "simultaneously enabled") -/
def RaceFree {F V : Type} (s : State F V) : Prop :=
  ∀ (i j : Nat) (ti tj : Thread F V) (a b : Acc F V) (pi pj : List (Instr F V)), i ≠ j →
    s.threads[i]? = some ti → s.threads[j]? = some tj →
    ti.prog = .acc a :: pi → tj.prog = .acc b :: pj → ¬ a.conflicts b

/-- the memory after replaying whole write sections one after the other -/
def replay {F V : Type} [DecidableEq F] (m0 : Mem F V) (h : List (List (Acc F V) × List V)) : Mem F V :=
  h.foldl (fun m sec => (runOps sec.1 (m, sec.2)).1) m0

/-- (b) every critical section is atomic and sees a whole-block state:
* the committed memory is the initial memory with the COMPLETED write sections applied one
  after the other, each as a sequential run (serializability at section granularity);
* while no writer is inside, the memory IS the committed memory;
* for every thread inside a section (read or write): what it has read and what the memory
  holds now is exactly what the SEQUENTIAL execution of its accesses so far gives when
  started on the committed memory — no access of any other thread is interleaved with
  its section, and it started from the state left by the last completed write section. -/
def Atomic {F V : Type} [DecidableEq F] (s : State F V) : Prop :=
  s.committed = replay s.init s.hist ∧
  (s.lock.writer = none → s.mem = s.committed) ∧
  ∀ (i : Nat) (t : Thread F V), s.threads[i]? = some t → (t.held = .r ∨ t.held = .w) →
    runOps t.done (s.committed, t.log0) = (s.mem, t.log)

/-- (c) no deadlock: unless every thread has finished, some thread can move -/
def DeadlockFree {F V : Type} [DecidableEq F] (s : State F V) : Prop :=
  (∀ t ∈ s.threads, t.prog = []) ∨ ∃ i s', Step s i s'

/-! ## Part 3 — programs that respect the discipline -/

/-- may access `a` be executed by a thread holding `k`?  `mu f` = field `f` is written by
somebody.  Outside the lock only never-written fields may be read; under the read lock there
is no write; writes go to fields declared mutable. -/
def Acc.ok {F V : Type} (mu : F → Bool) : LockKind → Acc F V → Bool
  | _, .hook => true
  | .none, .read f => !mu f
  | _, .read _ => true
  | .w, .write f _ => mu f
  | _, .write _ _ => false

/-- `wfProg mu k p`: a thread that holds `k` and still has to run `p` respects the
discipline: accesses as in `Acc.ok`, no acquire while holding (no re-entrancy), every
acquire is followed by its release (the program cannot end inside a section). -/
def wfProg {F V : Type} (mu : F → Bool) : LockKind → List (Instr F V) → Bool
  | k, [] => k == .none
  | k, .acc a :: p => a.ok mu k && wfProg mu k p
  | k, .acquire k' :: p => k == .none && k' != .none && wfProg mu k' p
  | k, .release k' :: p => k != .none && k == k' && wfProg mu .none p

/-! ## Part 4 — executions according to a table, and the computable check -/

/-- what is being executed: a call of method `m`, or a segment of a body described by its
direct footprint and its direct callees -/
inductive Item (F M : Type) where
  | call (m : M)
  | seg (reads writes : List F) (calls : List M)

def Acc.within {F V : Type} (a : Acc F V) (rs ws : List F) : Prop :=
  match a with
  | .read f => f ∈ rs
  | .write f _ => f ∈ ws
  | .hook => True

/-- `Gen T c item p`: a thread that currently holds `c` may execute the instruction sequence
`p` for `item`, according to table `T`.
A segment is ANY finite sequence of direct accesses within the footprint and of calls of the
listed callees (this over-approximates every control flow through the body, including an
early return or a panic at any point).  A call of a method that takes lock `k` executes its
pre-segment, `acquire k`, its body segment, and — the unlock being deferred — `release k`
at whatever point the body stops.  Only methods with the regular lock pattern have
executions here; `LockDiscipline` checks that every method that can run is regular. -/
inductive Gen {F V M : Type} (T : M → MethodInfo F M) : LockKind → Item F M → List (Instr F V) → Prop
  | segNil {c rs ws cs} : Gen T c (.seg rs ws cs) []
  | segAcc {c rs ws cs a p} : a.within rs ws → Gen T c (.seg rs ws cs) p → Gen T c (.seg rs ws cs) (.acc a :: p)
  | segCall {c rs ws cs n q p} : n ∈ cs → Gen T c (.call n) q → Gen T c (.seg rs ws cs) p →
      Gen T c (.seg rs ws cs) (q ++ p)
  | callPlain {c m p1 p2} : (T m).lock = .none → (T m).regular = true →
      Gen T c (.seg (T m).preReads (T m).preWrites (T m).preCalls) p1 →
      Gen T c (.seg (T m).reads (T m).writes (T m).calls) p2 →
      Gen T c (.call m) (p1 ++ p2)
  | callLocked {c m k p1 p2} : (T m).lock = k → k ≠ .none → (T m).regular = true →
      Gen T c (.seg (T m).preReads (T m).preWrites (T m).preCalls) p1 →
      Gen T k (.seg (T m).reads (T m).writes (T m).calls) p2 →
      Gen T c (.call m) (p1 ++ .acquire k :: (p2 ++ [.release k]))

/-- a goroutine's whole program: any sequence of calls of EXPORTED methods -/
inductive ApiProg {F V M : Type} (T : M → MethodInfo F M) : List (Instr F V) → Prop
  | nil : ApiProg T []
  | call {m q p} : (T m).exported = true → Gen T .none (.call m) q → ApiProg T p → ApiProg T (q ++ p)

/-- the set of lock contexts (nothing held / read lock held / write lock held) in which a
method may be running -/
structure Ctxs where
  o : Bool := false
  r : Bool := false
  w : Bool := false
  deriving DecidableEq, Repr

def Ctxs.has (c : Ctxs) : LockKind → Bool
  | .none => c.o
  | .r => c.r
  | .w => c.w

def Ctxs.single : LockKind → Ctxs
  | .none => { o := true }
  | .r => { r := true }
  | .w => { w := true }

def Ctxs.union (a b : Ctxs) : Ctxs := { o := a.o || b.o, r := a.r || b.r, w := a.w || b.w }

def Ctxs.isEmpty (c : Ctxs) : Bool := !(c.o || c.r || c.w)

def Ctxs.toList (c : Ctxs) : List LockKind :=
  (if c.o then [LockKind.none] else []) ++ (if c.r then [.r] else []) ++ (if c.w then [.w] else [])

section Check
variable {F M : Type} [DecidableEq F] [DecidableEq M]

/-- a field is mutable iff SOME method of the table writes it directly (anywhere) -/
def mutF (T : M → MethodInfo F M) (allM : List M) (f : F) : Bool :=
  allM.any (fun m => (T m).preWrites.contains f || (T m).writes.contains f)

/-- may a segment with this direct footprint run while the thread holds `c`? -/
def accOK (mu : F → Bool) (c : LockKind) (rs ws : List F) : Bool :=
  match c with
  | .none => ws.isEmpty && rs.all (fun f => !mu f)
  | .r => ws.isEmpty
  | .w => ws.all mu

/-- local conditions for method `m`, for every context `c` it may run in (`C m`):
* its pre-segment is admissible in `c` and its callees may run in `c`;
* if it takes no lock: the same for its body; it does not touch the mutex at all;
* if it takes lock `k`: it is only ever called with NOTHING held (no re-entrancy), the
  pattern is regular (unlock deferred immediately, no other mutex operation), the body is
  admissible under `k` and its callees may run under `k`. -/
def methodOK (T : M → MethodInfo F M) (mu : F → Bool) (C : M → Ctxs) (m : M) : Bool :=
  let i := T m
  (C m).toList.all fun c =>
    accOK mu c i.preReads i.preWrites && i.preCalls.all (fun n => (C n).has c) && i.regular &&
    (if i.lock = .none then
      accOK mu c i.reads i.writes && i.calls.all (fun n => (C n).has c)
    else
      c == .none && accOK mu i.lock i.reads i.writes && i.calls.all (fun n => (C n).has i.lock))

/-- the context assignment `C` is closed and every method is fine in all its contexts;
exported methods can be called with nothing held -/
def typingOK (T : M → MethodInfo F M) (allM : List M) (mu : F → Bool) (C : M → Ctxs) : Bool :=
  allM.all fun m => (!(T m).exported || (C m).has .none) && methodOK T mu C m

/-! ### transitive closure over the call graph -/

def lookupC (A : List (M × Ctxs)) (m : M) : Ctxs := (A.lookup m).getD {}

def addCtx (A : List (M × Ctxs)) (m : M) (c : Ctxs) : List (M × Ctxs) :=
  A.map fun xc => if xc.1 = m then (xc.1, xc.2.union c) else xc

/-- push the contexts of caller `x` to its callees: the pre-segment runs in the caller's
contexts, the body in the caller's contexts (no lock taken) or under the lock it takes -/
def pushFrom (T : M → MethodInfo F M) (A : List (M × Ctxs)) (x : M) : List (M × Ctxs) :=
  let cx := lookupC A x
  if cx.isEmpty then A
  else
    let i := T x
    let A1 := i.preCalls.foldl (fun A n => addCtx A n cx) A
    let cb := if i.lock = .none then cx else Ctxs.single i.lock
    i.calls.foldl (fun A n => addCtx A n cb) A1

def stepC (T : M → MethodInfo F M) (allM : List M) (A : List (M × Ctxs)) : List (M × Ctxs) :=
  allM.foldl (pushFrom T) A

def iterC (T : M → MethodInfo F M) (allM : List M) : Nat → List (M × Ctxs) → List (M × Ctxs)
  | 0, A => A
  | n + 1, A =>
    let A' := stepC T allM A
    if A' = A then A else iterC T allM n A'

/-- least context assignment: exported methods start with "nothing held"; contexts are
propagated along the call graph until nothing changes (at most `3·|methods|` rounds) -/
def inferTable (T : M → MethodInfo F M) (allM : List M) : List (M × Ctxs) :=
  iterC T allM (3 * allM.length + 1) (allM.map fun m => (m, if (T m).exported then Ctxs.single .none else {}))

def inferCtxs (T : M → MethodInfo F M) (allM : List M) : M → Ctxs :=
  let A := inferTable T allM
  fun m => lookupC A m

/-- THE computable check of a lock table.  It holds iff, with `mutable` = written directly
by some method and the contexts obtained by the closure over the call graph:
every exported method that (transitively, through non-locking callees) touches a mutable
field does so under the lock; every method that (transitively) writes runs under the write
lock only; no lock-taking method is reachable while a lock is held; every lock-taking
method defers the matching unlock immediately and does nothing else with the mutex. -/
def LockDiscipline (T : M → MethodInfo F M) (allM : List M) : Bool :=
  typingOK T allM (mutF T allM) (inferCtxs T allM)

/-! ### every exported operation is ONE critical section

`LockDiscipline` makes every critical section atomic and race-free; it does not by itself stop
an exported method from being composed of SEVERAL critical sections (take the read lock, look
something up, release; take it again, fetch the rest) — each section sees a whole-block state,
their combination may not.  The property speaks about whole calls, so: an exported method that
takes no lock itself must not reach a lock-taking method (through callees that take none). -/

/-- the lock-taking methods reachable from the body of `m` through callees that take no lock -/
def reachLocking (T : M → MethodInfo F M) : Nat → List M → List M → List M
  | 0, _, acc => acc
  | n + 1, todo, acc =>
    match todo with
    | [] => acc
    | x :: rest =>
      let i := T x
      let cs := i.preCalls ++ i.calls
      let locking := cs.filter (fun c => (T c).lock != .none && !acc.contains c)
      let plain := cs.filter (fun c => (T c).lock == .none)
      reachLocking T n (rest ++ plain) (acc ++ locking.eraseDups)

/-- exported methods that take no lock and still reach a lock-taking method, with what they reach -/
def multiSection (T : M → MethodInfo F M) (allM : List M) : List (M × List M) :=
  (allM.filter (fun m => (T m).exported && (T m).lock == .none)).filterMap fun m =>
    let r := reachLocking T (allM.length * allM.length + 1) [m] []
    if r.isEmpty then none else some (m, r)

/-- THE check: apart from the listed exemptions, no exported method is composed of several
critical sections -/
def SingleSection (T : M → MethodInfo F M) (allM exempt : List M) : Bool :=
  (multiSection T allM).all (fun x => exempt.contains x.1)

end Check

end UtreexoVerif.Model.Lock
