/-
  prove.go: `hashAndPos` and the sorted-slice helpers, as functions on lists of pairs.

  Go keeps two parallel slices; every producer in prove.go keeps them the same length
  (the one exception, `hashAndPos{proofPos, proof.Proof}` built from caller data, is
  handled at its call sites).  `sort.Sort`/`sort.Slice` are modelled by a *stable*
  insertion sort: Go's pdqsort is an insertion sort (stable) for ≤ 12 elements and is
  unstable only among equal keys, so the models agree with Go whenever positions are
  distinct or the slice is short; the harness keeps duplicate-key inputs short.
-/
import UtreexoVerif.Go.Int
import UtreexoVerif.Spec.Forest
import UtreexoVerif.Model.Outcome

namespace UtreexoVerif.Model
open UtreexoVerif

abbrev HP (H : Type) := List (U64 × H)

section
variable {H : Type}

def HP.positions (l : HP H) : List U64 := l.map (·.1)
def HP.hashes (l : HP H) : List H := l.map (·.2)

/-- insert into a list sorted by key, after all elements with key ≤ (stable) -/
def insertBy {α} (key : α → U64) (x : α) : List α → List α
  | [] => [x]
  | y :: ys => if key x < key y then x :: y :: ys else y :: insertBy key x ys

/-- stable insertion sort by key -/
def sortBy {α} (key : α → U64) (l : List α) : List α :=
  l.foldl (fun acc x => insertBy key x acc) []

def sortU64 (l : List U64) : List U64 := sortBy id l
def sortHP (l : HP H) : HP H := sortBy (·.1) l

/-- descending order, as `slices.SortFunc(.., uint64Descending)` -/
def sortU64Desc (l : List U64) : List U64 := (sortU64 l).reverse

/-- `toHashAndPos`: copy, zip and sort by position.  Go indexes `hashes` while swapping, so
a shorter `hashes` can panic; callers in the modelled paths always pass equal lengths and
the model reports `.panic` otherwise. -/
def toHashAndPos (targets : List U64) (hashes : List H) : Out (HP H) :=
  if targets.length = hashes.length then .ok (sortHP (targets.zip hashes)) else .panic

/-- `mergeSortedHashAndPos`: on equal positions keep `a`'s element and drop `b`'s -/
def mergeHP : HP H → HP H → HP H
  | [], b => b
  | a, [] => a
  | x :: xs, y :: ys =>
    if x.1 < y.1 then x :: mergeHP xs (y :: ys)
    else if y.1 < x.1 then y :: mergeHP (x :: xs) ys
    else x :: mergeHP xs ys
termination_by a b => a.length + b.length

/-- `mergeSortedSlicesFunc` with `uint64Cmp` -/
def mergeU64 : List U64 → List U64 → List U64
  | [], b => b
  | a, [] => a
  | x :: xs, y :: ys =>
    if x < y then x :: mergeU64 xs (y :: ys)
    else if y < x then y :: mergeU64 (x :: xs) ys
    else x :: mergeU64 xs ys
termination_by a b => a.length + b.length

/-- `subtractSortedSlice(a, b, uint64Cmp)` / `subtractSortedHashAndPos` on keys:
walk `a` with one cursor into `b` -/
def subtractBy {α} (key : α → U64) : List α → List U64 → List α
  | [], _ => []
  | a, [] => a
  | x :: xs, y :: ys =>
    if key x = y then subtractBy key xs ys
    else if key x < y then x :: subtractBy key xs (y :: ys)
    else subtractBy key (x :: xs) ys
termination_by a b => a.length + b.length

def subtractU64 (a b : List U64) : List U64 := subtractBy id a b
def subtractHP (a : HP H) (b : List U64) : HP H := subtractBy (·.1) a b

/-- `getHashAndPosSubset(a, b)`: elements of `a` whose position is in `b` (both sorted) -/
def subsetHP : HP H → List U64 → HP H
  | [], _ => []
  | _, [] => []
  | x :: xs, y :: ys =>
    if x.1 = y then x :: subsetHP xs ys
    else if y < x.1 then subsetHP (x :: xs) ys
    else subsetHP xs (y :: ys)
termination_by a b => a.length + b.length

/-- `getHashAndPosHashSubset(a, hashes)` -/
def hashSubsetHP [DecidableEq H] (a : HP H) (hs : List H) : HP H := a.filter (fun x => hs.contains x.2)

end
end UtreexoVerif.Model
