/-
  Every list of live leaves has a canonical proof: `Forest.canon` is defined on live leaves.

  * the chunks of the trees cover all slots (`cover`), so every live leaf is a leaf of some
    collapsed tree and `posOf` finds it (`live_has_pos`);
  * every canonical proof position is the sibling of a path node, hence a node (`canon_total`).
-/
import UtreexoVerif.Proofs.LeafDistinct

namespace UtreexoVerif.Proofs.CanonTotal
open UtreexoVerif Spec Hasher
open UtreexoVerif.Proofs.SpecNodes UtreexoVerif.Proofs.SpecSubs UtreexoVerif.Proofs.CalcComplete
open UtreexoVerif.Proofs.CalcGeo UtreexoVerif.Proofs.LeafDistinct UtreexoVerif.Proofs.SpecPlan
open UtreexoVerif.Proofs.CalcPlan

/-- the converse of `mapM_some` -/
theorem mapM_of_forall_some {α β : Type} (f : α → Option β) (d : β) : ∀ (l : List α),
    (∀ a ∈ l, ∃ b, f a = some b) → l.mapM f = some (l.map (fun a => (f a).getD d)) := by
  intro l
  induction l with
  | nil => intro _; rfl
  | cons a l ih =>
    intro h
    obtain ⟨b, hb⟩ := h a (by simp)
    rw [List.mapM_cons, hb, ih (fun x hx => h x (List.mem_cons_of_mem _ hx))]
    simp [hb]

/-- the trees on rows `≤ k` cover the slots from `⌊n / 2^(k+1)⌋ · 2^(k+1)` on -/
theorem cover (n : Nat) : ∀ (k i : Nat), n / 2 ^ (k + 1) * 2 ^ (k + 1) ≤ i → i < n →
    ∃ h, h ≤ k ∧ n.testBit h = true ∧ treeStart n h ≤ i ∧ i < treeStart n h + 2 ^ h := by
  intro k
  induction k with
  | zero =>
    intro i h1 h2
    refine ⟨0, Nat.le_refl _, ?_, ?_, ?_⟩
    · rw [Nat.testBit_zero]
      simp only [Nat.zero_add, Nat.pow_one] at h1
      simp only [decide_eq_true_eq]
      omega
    · rw [treeStart_eq]; exact h1
    · rw [treeStart_eq]
      simp only [Nat.zero_add, Nat.pow_one, Nat.pow_zero] at h1 ⊢
      omega
  | succ k ih =>
    intro i h1 h2
    have hbit := shiftRight_succ_bit n (k + 1)
    rw [Nat.shiftRight_eq_div_pow, Nat.shiftRight_eq_div_pow] at hbit
    have hB : n / 2 ^ (k + 1) * 2 ^ (k + 1) =
        n / 2 ^ (k + 1 + 1) * 2 ^ (k + 1 + 1) + (if n.testBit (k + 1) then 1 else 0) * 2 ^ (k + 1) := by
      rw [hbit, Nat.add_mul, Nat.pow_succ 2 (k + 1), Nat.mul_comm 2, Nat.mul_assoc,
        Nat.mul_comm (2 ^ (k + 1)) 2]
    by_cases hi : n / 2 ^ (k + 1) * 2 ^ (k + 1) ≤ i
    · obtain ⟨h, hh, r⟩ := ih i hi h2
      exact ⟨h, by omega, r⟩
    · cases hb : n.testBit (k + 1) with
      | false =>
        rw [hb] at hB
        simp only [Bool.false_eq_true, if_false, Nat.zero_mul, Nat.add_zero] at hB
        omega
      | true =>
        rw [hb] at hB
        simp only [if_true, Nat.one_mul] at hB
        refine ⟨k + 1, Nat.le_refl _, hb, ?_, ?_⟩
        · rw [treeStart_eq]; exact h1
        · rw [treeStart_eq]; omega

section
set_option linter.unusedSectionVars false
variable {H : Type} [DecidableEq H] [Hasher H]

/-- every live leaf is a leaf node of the forest -/
theorem live_has_pos {F : Forest H} (hn : F.numLeaves ≤ 2 ^ 63) {l : H} (hl : l ∈ F.liveLeaves) :
    ∃ h p, SubAtT F h p (.leaf l) := by
  unfold Forest.liveLeaves at hl
  rw [List.mem_filterMap] at hl
  obtain ⟨s, hs, hsl⟩ := hl
  simp only [id] at hsl
  subst hsl
  obtain ⟨i, hi⟩ := List.mem_iff_getElem?.1 hs
  have hilt : i < F.numLeaves := by
    unfold Forest.numLeaves
    rcases Nat.lt_or_ge i F.slots.length with h | h
    · exact h
    · rw [List.getElem?_eq_none_iff.2 h] at hi; cases hi
  have h0 : F.numLeaves / 2 ^ (63 + 1) * 2 ^ (63 + 1) ≤ i := by
    have : F.numLeaves / 2 ^ (63 + 1) = 0 := Nat.div_eq_of_lt (by omega)
    rw [this, Nat.zero_mul]; exact Nat.zero_le _
  obtain ⟨h, _, hb, h1, h2⟩ := cover F.numLeaves 63 i h0 hilt
  have hh : h ∈ treeRows F.numLeaves := mem_treeRows (by omega) hb
  have hmem : some l ∈ chunk F h := by
    apply List.mem_of_getElem? (i := i - treeStart F.numLeaves h)
    unfold chunk
    rw [List.getElem?_take, if_pos (by omega), List.getElem?_drop]
    rw [show treeStart F.numLeaves h + (i - treeStart F.numLeaves h) = i by omega]
    exact hi
  have hleaf : l ∈ (chunk F h).filterMap id := List.mem_filterMap.2 ⟨some l, hmem, rfl⟩
  have hc := collapse_leaves_eq h (chunk F h)
  have htt : (chunk F h).take (2 ^ h) = chunk F h := by
    unfold chunk; rw [List.take_take, Nat.min_self]
  rw [htt] at hc
  rw [← hc] at hleaf
  cases ht0 : collapse h (chunk F h) with
  | none => rw [ht0] at hleaf; simp [leavesO] at hleaf
  | some t0 =>
    rw [ht0] at hleaf
    simp only [leavesO] at hleaf
    obtain ⟨p, hp⟩ := leaf_in_subs t0 h (rootPos F.numLeaves h).2 l hleaf
    exact ⟨h, p, SubAtT.of_tree hh ht0 hp⟩

/-- **every list of live leaves has a canonical proof** -/
theorem canon_total {F : Forest H} (hn : F.numLeaves ≤ 2 ^ 63) {L : List H}
    (hL : ∀ l ∈ L, l ∈ F.liveLeaves) : ∃ targets hashes, F.canon L = some (targets, hashes) := by
  have hpos : ∀ l ∈ L, ∃ p, F.posOf l = some p := by
    intro l hl
    obtain ⟨h, p, s⟩ := live_has_pos hn (hL l hl)
    exact posOf_isSome s
  have tok : TargetsOK F (L.map (fun l => (F.posOf l).getD (0, 0))) := by
    intro t ht
    obtain ⟨l, hl, rfl⟩ := List.mem_map.1 ht
    obtain ⟨p, hp⟩ := hpos l hl
    obtain ⟨h, s⟩ := posOf_sub hp
    exact ⟨h, l, by rw [hp]; exact s⟩
  have hnode : ∀ p ∈ F.proofPositions (L.map (fun l => (F.posOf l).getD (0, 0))),
      ∃ x, F.nodeAt p = some x := by
    intro p hp
    rw [proofPositions_eq] at hp
    obtain ⟨c, hcm, rfl⟩ := List.mem_map.1 hp
    obtain ⟨hcP, hnp⟩ := List.mem_filter.1 hcm
    simp only [needsProof, Bool.and_eq_true, Bool.not_eq_eq_eq_not, Bool.not_true,
      decide_eq_false_iff_not] at hnp
    obtain ⟨h, t, s⟩ := pathSet_sub tok hcP
    obtain ⟨_, s', _, hsib⟩ := s.parent hnp.1
    exact ⟨_, hsib.nodeAt⟩
  refine ⟨L.map (fun l => (F.posOf l).getD (0, 0)),
    (F.proofPositions (L.map (fun l => (F.posOf l).getD (0, 0)))).map
      (fun p => (F.nodeAt p).getD zero), ?_⟩
  unfold Forest.canon
  rw [mapM_of_forall_some F.posOf (0, 0) L hpos]
  simp only [bind, Option.bind]
  rw [mapM_of_forall_some F.nodeAt zero _ hnode]
  rfl

end
end UtreexoVerif.Proofs.CanonTotal
