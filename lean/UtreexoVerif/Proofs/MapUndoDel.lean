/-
  `MapPollard.undoDeletion` after the move-down loop, on the abstract state (Layer 1, for `Undo`).

  `undoDeletion` is `ingest` with two differences: the detwinned targets are handed (reversed) to
  `undoDelMoveDown` (whose result is a hypothesis here), and `placeProof` replaces `ingest.store`.
-/
import UtreexoVerif.Proofs.MapIngest
import UtreexoVerif.Proofs.MapDeTwin
open UtreexoVerif Model Spec Spec.Forest Proofs MapAL MapInv MapPrune MapRep PForestSpec MapIngest Hasher
open UtreexoVerif.Proofs.SpecPlan UtreexoVerif.Proofs.CalcPlan UtreexoVerif.Proofs.SpecSubs

namespace UtreexoVerif.Proofs.MapUndoDel
set_option linter.unusedSectionVars false
set_option linter.unusedVariables false
variable {H : Type} [DecidableEq H] [Hasher H]

/-! ## Layer 1: `placeProof` and `putCalculated` on the representation -/

section layer1
variable {T : Nat}

/-- `placeProof` on a list of valid positions whose stored hashes (where present) are the hashes
of the proof: the proof is returned unchanged, the absent positions are filled in (`storeA`) -/
theorem placeProof_rep (hv : Pos → H) : ∀ (qs : List Pos) (i : Nat) (pr : List H) (m : MapPollard H)
    (A : Pos → Option (Leaf H)) (C : H → Option Pos), Rep m T A C → m.full = false →
    (∀ q ∈ qs, Valid T q) → (∀ j (hj : j < qs.length), pr[i + j]? = some (hv qs[j])) →
    (∀ q ∈ qs, ∀ l, A q = some l → l.hash = hv q) →
    ∃ m', MapPollard.placeProof (qs.map (encP T)) i pr m = (m', .ok pr) ∧ Rep m' T (storeA qs hv A) C ∧
      m'.full = false ∧ m'.numLeaves = m.numLeaves
  | [], i, pr, m, A, C, rep, hf, _, _, _ => by
    refine ⟨m, rfl, rep.congr (fun q => ?_) (fun _ => rfl), hf, rfl⟩
    simp [storeA]
  | q :: qs, i, pr, m, A, C, rep, hf, hv', hpr, hst => by
    have hq : Valid T q := hv' q List.mem_cons_self
    have hvs : ∀ q' ∈ qs, Valid T q' := fun q' h => hv' q' (List.mem_cons_of_mem _ h)
    have hprs : ∀ j (hj : j < qs.length), pr[i + 1 + j]? = some (hv qs[j]) := by
      intro j hj
      have := hpr (j + 1) (by simp; omega)
      rw [show i + (j + 1) = i + 1 + j by omega] at this
      simpa using this
    have h0 := hpr 0 (by simp)
    rw [Nat.add_zero] at h0
    simp only [List.getElem_cons_zero] at h0
    rw [List.map_cons]
    unfold MapPollard.placeProof
    rw [rep.node q hq]
    cases hA : A q with
    | some l =>
      simp only
      have hlt : i < pr.length := by
        rcases Nat.lt_or_ge i pr.length with h | h
        · exact h
        · rw [List.getElem?_eq_none h] at h0; cases h0
      rw [if_pos hlt]
      have hset : pr.set i l.hash = pr := by
        rw [hst q List.mem_cons_self l hA]
        rw [List.getElem?_eq_getElem hlt] at h0
        simp only [Option.some.injEq] at h0
        rw [← h0]
        exact List.set_getElem_self hlt
      rw [hset]
      obtain ⟨m', h1, h2, h3, h4⟩ := placeProof_rep hv qs (i + 1) pr m A C rep hf hvs hprs
        (fun q' h => hst q' (List.mem_cons_of_mem _ h))
      refine ⟨m', h1, h2.congr (fun x => ?_) (fun _ => rfl), h3, h4⟩
      unfold storeA
      by_cases hx : x = q
      · subst hx; simp [hA]
      · simp [hx]
    | none =>
      simp only
      rw [h0]
      simp only
      rw [hf]
      obtain ⟨m', h1, h2, h3, h4⟩ := placeProof_rep hv qs (i + 1) pr _ _ C
        (rep.putNode hq ⟨hv q, false⟩) (by simpa using hf) hvs hprs
        (by
          intro q' h l hl
          rw [upd_apply] at hl
          split at hl
          · rename_i e
            simp only [Option.some.injEq] at hl
            rw [← hl, e]
          · exact hst q' (List.mem_cons_of_mem _ h) l hl)
      refine ⟨m', h1, h2.congr (fun x => ?_) (fun _ => rfl), h3, h4⟩
      unfold storeA
      by_cases hx : x = q
      · subst hx; simp [hA]
      · simp [hx, upd_ne]

/-- `putCalculated` with the exact cache: the calculated targets are cached at `pos` of their hash -/
theorem putCalculated_rep' (isT' : U64 → Bool) (isT : Pos → Bool) (v : Pos → H) (pos : H → Option Pos) :
    ∀ (qs : List Pos) (m : MapPollard H) (A : Pos → Option (Leaf H)) (C : H → Option Pos), Rep m T A C →
    m.full = false → (∀ q ∈ qs, Valid T q ∧ isT' (encP T q) = isT q) →
    (∀ q ∈ qs, isT q = true → pos (v q) = some q) →
    Rep (MapPollard.putCalculated isT' (qs.map (fun p => (encP T p, v p))) m) T
      (fun q => if q ∈ qs then some ⟨v q, isT q⟩ else A q)
      (fun x => if ∃ t ∈ qs, isT t = true ∧ v t = x then pos x else C x) ∧
      (MapPollard.putCalculated isT' (qs.map (fun p => (encP T p, v p))) m).full = false ∧
      (MapPollard.putCalculated isT' (qs.map (fun p => (encP T p, v p))) m).numLeaves = m.numLeaves
  | [], m, A, C, rep, hf, _, _ => by
    refine ⟨rep.congr (fun q => by simp) (fun x => by simp), hf, rfl⟩
  | q :: qs, m, A, C, rep, hf, hq, hpos => by
    obtain ⟨hqv, hqt⟩ := hq q List.mem_cons_self
    have hqs : ∀ q' ∈ qs, Valid T q' ∧ isT' (encP T q') = isT q' := fun q' h => hq q' (List.mem_cons_of_mem _ h)
    have hposs : ∀ q' ∈ qs, isT q' = true → pos (v q') = some q' := fun q' h => hpos q' (List.mem_cons_of_mem _ h)
    rw [List.map_cons]
    unfold MapPollard.putCalculated
    simp only
    rw [hqt, hf, Bool.or_false]
    have rep1 := rep.putNode hqv ⟨v q, isT q⟩
    cases ht : isT q with
    | false =>
      simp only [Bool.false_eq_true, if_false]
      rw [ht] at rep1
      obtain ⟨r', hf', hn'⟩ := putCalculated_rep' isT' isT v pos qs _ _ _ rep1 (by simpa using hf) hqs hposs
      refine ⟨r'.congr ?_ ?_, hf', hn'⟩
      · intro x
        by_cases hx : x ∈ qs
        · simp [hx]
        · by_cases hxq : x = q
          · subst hxq; simp [hx, ht]
          · simp [hx, hxq, upd_ne]
      · intro x
        by_cases hx : ∃ t ∈ qs, isT t = true ∧ v t = x
        · rw [if_pos hx]
          obtain ⟨t, h1, h2, h3⟩ := hx
          rw [if_pos ⟨t, List.mem_cons_of_mem _ h1, h2, h3⟩]
        · rw [if_neg hx, if_neg]
          rintro ⟨t, h1, h2, h3⟩
          rcases List.mem_cons.1 h1 with rfl | h1
          · rw [ht] at h2; cases h2
          · exact hx ⟨t, h1, h2, h3⟩
    | true =>
      simp only [if_true]
      rw [ht] at rep1
      have rep2 := rep1.putCached (v q) hqv
      obtain ⟨r', hf', hn'⟩ := putCalculated_rep' isT' isT v pos qs _ _ _ rep2 (by simpa using hf) hqs hposs
      refine ⟨r'.congr ?_ ?_, hf', hn'⟩
      · intro x
        by_cases hx : x ∈ qs
        · simp [hx]
        · by_cases hxq : x = q
          · subst hxq; simp [hx, ht]
          · simp [hx, hxq, upd_ne]
      · intro x
        by_cases hx : ∃ t ∈ qs, isT t = true ∧ v t = x
        · rw [if_pos hx]
          obtain ⟨t, h1, h2, h3⟩ := hx
          rw [if_pos ⟨t, List.mem_cons_of_mem _ h1, h2, h3⟩]
        · rw [if_neg hx, upd_apply]
          by_cases hxq : x = v q
          · rw [if_pos hxq, if_pos ⟨q, List.mem_cons_self, ht, hxq.symm⟩, hxq]
            exact hpos q List.mem_cons_self ht
          · rw [if_neg hxq, if_neg]
            rintro ⟨t, h1, h2, h3⟩
            rcases List.mem_cons.1 h1 with rfl | h1
            · exact hxq h3.symm
            · exact hx ⟨t, h1, h2, h3⟩

end layer1

/-! ## the geometry of the call (without `Inv`) -/

section geo
open SpecPlan CalcGeo
variable {F : Forest H} {T : Nat}

theorem h8_ne_iff (hT : T ≤ 63) (hfit : F.rows ≤ T) : H8 F.rows ≠ H8 T ↔ F.rows ≠ T := by
  constructor
  · intro h e; exact h (by rw [e])
  · intro h e
    have := congrArg BitVec.toNat e
    rw [toNat_H8 hT, toNat_H8 (by omega)] at this
    exact h this

/-- API coordinates → storage coordinates, one position -/
theorem toStor1 (hT : T ≤ 63) (hfit : F.rows ≤ T) {q : Pos} (hq : MapInv.Valid F.rows q) :
    translatePos (encP F.rows q) (H8 F.rows) (H8 T) = encP T q := by
  have hq' := hq.mono hfit
  exact Props.C16.translatePos_enc (by omega) hq.1 hq.2 hT hq'.1 hq'.2

/-- API coordinates → storage coordinates, a list -/
theorem toStor (hT : T ≤ 63) (hfit : F.rows ≤ T) (PP : List Pos) (hv : ∀ q ∈ PP, MapInv.Valid F.rows q) :
    (if H8 F.rows ≠ H8 T then translatePositions (PP.map (encP F.rows)) (H8 F.rows) (H8 T)
      else PP.map (encP F.rows)) = PP.map (encP T) := by
  by_cases hc : H8 F.rows ≠ H8 T
  · rw [if_pos hc]
    unfold translatePositions
    rw [List.map_map]
    apply List.map_congr_left
    intro q hq
    exact toStor1 hT hfit (hv q hq)
  · rw [if_neg hc]
    have : F.rows = T := Decidable.byContradiction (fun h => hc ((h8_ne_iff hT hfit).2 h))
    rw [this]

/-- the calculated nodes in storage coordinates -/
theorem inter_eq' (hT : T ≤ 63) (hfit : F.rows ≤ T) (PS : List Pos) (hs : PS.Pairwise Sorted.PLt)
    (hv : ∀ q ∈ PS, MapInv.Valid F.rows q) (v : Pos → H) :
    (if H8 F.rows ≠ H8 T then
      sortHP ((PS.map (fun p => (encP F.rows p, v p))).map
        (fun x => (translatePos x.1 (H8 F.rows) (H8 T), x.2)))
     else PS.map (fun p => (encP F.rows p, v p))) = PS.map (fun p => (encP T p, v p)) := by
  by_cases hc : H8 F.rows ≠ H8 T
  · rw [if_pos hc, List.map_map]
    have : PS.map ((fun x : U64 × H => (translatePos x.1 (H8 F.rows) (H8 T), x.2)) ∘
        (fun p => (encP F.rows p, v p))) = PS.map (fun p => (encP T p, v p)) := by
      apply List.map_congr_left
      intro q hq
      simp only [Function.comp, toStor1 hT hfit (hv q hq)]
    rw [this]
    have hsorted : (PS.map (fun p => (encP T p, v p))).Pairwise (fun a b => a.1 < b.1) := by
      rw [List.pairwise_map]
      apply List.Pairwise.imp_of_mem _ hs
      intro a b ha hb hab
      exact (E_lt_iff hT ((hv a ha).mono hfit) ((hv b hb).mono hfit)).2 hab
    apply Sorted.eq_of_keysorted
    · apply Sorted.sortBy_sorted
      apply List.Pairwise.imp _ hsorted
      intro a b hab e
      rw [e] at hab
      exact BitVec.lt_irrefl _ hab
    · exact hsorted
    · intro x
      unfold sortHP
      exact Sorted.mem_sortBy _ _ _
  · rw [if_neg hc]
    have : F.rows = T := Decidable.byContradiction (fun h => hc ((h8_ne_iff hT hfit).2 h))
    rw [this]

/-- the target test of `putCalculated` -/
theorem contains_eq' (hT : T ≤ 63) (ts : List Pos) (hv : ∀ t ∈ ts, MapInv.Valid T t) {p : Pos}
    (hp : MapInv.Valid T p) : (ts.map (encP T)).contains (encP T p) = decide (p ∈ ts) := by
  rw [List.contains_eq_mem]
  congr 1
  apply propext
  rw [List.mem_map]
  constructor
  · rintro ⟨t, ht, e⟩
    rw [← encP_inj' hT (hv t ht) hp e]; exact ht
  · intro h
    exact ⟨p, h, rfl⟩

/-- unfolding `undoDeletion` along a successful run -/
theorem undoDeletion_eq {m m2 m3 : MapPollard H} {L : List H} {tg : List U64} {prH pr' : List H} {hnp : HP H}
    {X PPe TS : List U64} {r : CalcResult H} {Y : HP H}
    (h1 : toHashAndPos tg L = .ok hnp)
    (h2 : deTwin (if TreeRows m.numLeaves ≠ m.totalRows then
        sortU64 (translatePositions hnp.positions (TreeRows m.numLeaves) m.totalRows) else hnp.positions)
        m.totalRows = X)
    (hmd : MapPollard.undoDelMoveDown X.reverse m = (m2, .ok ()))
    (h3 : (if TreeRows m.numLeaves ≠ m2.totalRows then
        translatePositions (MapPollard.trimProofPos
          (ProofPositions (sortU64 tg) m2.numLeaves (TreeRows m.numLeaves)).1 m2.numLeaves)
          (TreeRows m.numLeaves) m2.totalRows
       else (ProofPositions (sortU64 tg) m2.numLeaves (TreeRows m.numLeaves)).1) = PPe)
    (hlen : PPe.length = prH.length)
    (h4 : MapPollard.placeProof PPe 0 prH m2 = (m3, .ok pr'))
    (h5 : calculateHashes m3.numLeaves (some L) tg pr' = .ok r)
    (h6 : (if TreeRows m.numLeaves ≠ m3.totalRows then
        sortHP (r.nodes.map (fun x => (translatePos x.1 (TreeRows m.numLeaves) m3.totalRows, x.2)))
       else r.nodes) = Y)
    (h7 : (if TreeRows m.numLeaves ≠ m3.totalRows then
        translatePositions tg (TreeRows m.numLeaves) m3.totalRows else tg) = TS) :
    MapPollard.undoDeletion tg prH L m = (MapPollard.putCalculated (fun p => TS.contains p) Y m3, .ok ()) := by
  unfold MapPollard.undoDeletion
  rw [h1]
  simp only
  rw [h2, hmd]
  simp only
  rw [h3, if_neg (fun h => h hlen)]
  simp only
  rw [h4]
  simp only
  rw [h5]
  simp only
  rw [h6, h7]

end geo

/-! ## `undoDeletion` -/

section main
open SpecPlan CalcGeo CalcComplete

/-- **`undoDeletion` after the nodes have been moved back down**: the proof hashes are placed where
nothing is stored, every target and every ancestor of a target is re-computed and stored, the
targets are cached — on the abstract state this is `MapIngest.ingA`, exactly as for `ingest` -/
theorem undoDeletion_rep (nz : NZ H) {m m2 : MapPollard H} {F : Forest H} {T : Nat}
    (hrows : m.totalRows = H8 T) (hT : T ≤ 63) (hn : m.numLeaves = BitVec.ofNat 64 F.numLeaves)
    (hn63 : F.numLeaves < 2 ^ 63) (hfit : F.rows ≤ T) (hy : Hyg F)
    {L : List H} {ts : List Pos} {ps : List H} (hnd : L.Nodup) (hc : F.canon L = some (ts, ps))
    {ds : List Pos}
    (hdt : deTwin (if H8 T ≠ H8 F.rows
        then translatePositions (sortU64 (ts.map (encP F.rows))) (H8 F.rows) (H8 T)
        else sortU64 (ts.map (encP F.rows))) (H8 T) = ds.map (encP T))
    (hmd : MapPollard.undoDelMoveDown (ds.map (encP T)).reverse m = (m2, .ok ()))
    {A2 : Pos → Option (Leaf H)} {C2 : H → Option Pos} (rep2 : Rep m2 T A2 C2)
    (hnl2 : m2.numLeaves = m.numLeaves) (hfull2 : m2.full = false)
    -- what is stored at a proof position is the true hash
    (hpp : ∀ q ∈ F.proofPositions ts, ∀ l, A2 q = some l → l.hash = tvF F q) :
    ∃ m', MapPollard.undoDeletion (ts.map (encP F.rows)) ps L m = (m', .ok ()) ∧
      Rep m' T (ingA (pathSet F ts) (F.proofPositions ts) ts (tvF F) A2)
        (fun x => if x ∈ L then F.posOf x else C2 x) ∧
      m'.numLeaves = m.numLeaves ∧ m'.full = false := by
  have hn64 : F.numLeaves < 2 ^ 64 := Nat.lt_trans hn63 (by decide)
  have Lw := laws_forest nz F hn64 hy
  have h63 : F.rows ≤ 63 := by omega
  have htr : TreeRows m.numLeaves = H8 F.rows := by rw [hn]; exact SpecView.treeRows_eq hn63
  have tok := canon_targetsOK hc
  have tsB : ∀ t ∈ ts, ∃ R, BelowRoot F.numLeaves t.1 t.2 R := by
    intro t ht
    obtain ⟨x, hx⟩ := ts_node hc ht
    exact belowRoot_of_mem_nodes hx
  have psB : ∀ q ∈ pathSet F ts, ∃ R, BelowRoot F.numLeaves q.1 q.2 R := by
    intro q hq
    obtain ⟨b, hb⟩ := ps_node hc hq
    exact belowRoot_of_mem_nodes hb
  have ppB : ∀ q ∈ F.proofPositions ts, ∃ R, BelowRoot F.numLeaves q.1 q.2 R := by
    intro q hq
    obtain ⟨b, hb⟩ := pp_node hc hq
    exact belowRoot_of_mem_nodes hb
  have vF : ∀ {q : Pos}, (∃ R, BelowRoot F.numLeaves q.1 q.2 R) → MapInv.Valid F.rows q :=
    fun ⟨R, hb⟩ => belowRoot_valid' (Nat.le_refl _) hb
  have vT : ∀ {q : Pos}, (∃ R, BelowRoot F.numLeaves q.1 q.2 R) → MapInv.Valid T q :=
    fun ⟨R, hb⟩ => belowRoot_valid' hfit hb
  have tsnd : ts.Nodup := canon_targets_nodup hc hnd
  have tsNode : ∀ p ∈ ts, MapDeTwin.IsNode F.nodes p := by
    intro p hp
    obtain ⟨x, hx⟩ := ts_node hc hp
    exact ⟨x, true, hx⟩
  -- (1) the sorted targets
  obtain ⟨hnp, h1, hpos⟩ := toHashAndPos_canon h63 ts L (fun t ht => vF (tsB t ht)) (canon_targets_length hc)
  -- (2) … in storage coordinates, detwinned
  have hsp : sortU64 (ts.map (encP F.rows)) = (sortPos ts).map (encP F.rows) :=
    sortU64_encP h63 ts (fun t ht => vF (tsB t ht))
  have hvs : ∀ t ∈ sortPos ts, MapInv.Valid F.rows t := fun t ht => vF (tsB t (mem_sortPos.1 ht))
  have hX : (if H8 F.rows ≠ H8 T then
        sortU64 (translatePositions ((sortPos ts).map (encP F.rows)) (H8 F.rows) (H8 T))
      else (sortPos ts).map (encP F.rows)) = (sortPos ts).map (encP T) := by
    have := toStor hT hfit (sortPos ts) hvs
    by_cases hcnd : H8 F.rows ≠ H8 T
    · rw [if_pos hcnd] at this ⊢
      rw [this, sortU64_encP hT _ (fun t ht => (hvs t ht).mono hfit),
        sortPos_of_ssorted (sortPos_ssorted tsnd)]
    · rw [if_neg hcnd] at this ⊢
      exact this
  have h2 : deTwin (if TreeRows m.numLeaves ≠ m.totalRows then
        sortU64 (translatePositions hnp.positions (TreeRows m.numLeaves) m.totalRows) else hnp.positions)
        m.totalRows = ds.map (encP T) := by
    rw [htr, hrows, hpos, hX]
    rw [MapDeTwin.sorted_translated tsNode hT hfit] at hdt
    exact hdt
  -- (3) `ProofPositions` in API coordinates
  have hyp : PPHyp F.numLeaves (sortPos ts) := {
    inForest := fun t ht => tsB t (mem_sortPos.1 ht)
    sorted := sortPos_ssorted tsnd
    anti := by
      intro a ha b hb hab
      obtain ⟨x, hx⟩ := ts_node hc (mem_sortPos.1 ha)
      obtain ⟨y, hy⟩ := ts_node hc (mem_sortPos.1 hb)
      exact (Lw.leaf_below a x b y true hx hy hab).symm }
  have hTR2 : m2.totalRows = H8 T := rep2.rows
  have hPP : (ProofPositions (sortU64 (ts.map (encP F.rows))) m2.numLeaves (TreeRows m.numLeaves)).1 =
      (F.proofPositions ts).map (encP F.rows) := by
    have := Props.C16.proofPositions_spec F (H := F.rows) (h := F.rows)
      (BitVec.ofNat 64 F.numLeaves) (toNat_ofNat64_of_lt hn64) (SpecView.treeRows_eq hn63) h63 (Nat.le_refl _)
      (sortPos ts) hyp
    rw [MapProve.proofPositions_congr (F := F) (fun t => mem_sortPos (l := ts))] at this
    rw [htr, hnl2, hn, hsp, this]
  -- (4) the trimming keeps every position
  have htrim : MapPollard.trimProofPos ((F.proofPositions ts).map (encP F.rows)) m2.numLeaves =
      (F.proofPositions ts).map (encP F.rows) := by
    unfold MapPollard.trimProofPos
    apply takeWhile_all
    intro x hx
    obtain ⟨q, hq, rfl⟩ := List.mem_map.1 hx
    obtain ⟨R, hb⟩ := ppB q hq
    have hvq := vF (ppB q hq)
    rw [hnl2, htr]
    apply (Props.C16.inForest_iff_below_root h63 hvq.1 hvq.2 m.numLeaves).2
    have hn' : m.numLeaves.toNat = F.numLeaves := by
      rw [hn]; exact toNat_ofNat64_of_lt hn64
    rw [hn']
    exact ⟨R, hb⟩
  have h3 : (if TreeRows m.numLeaves ≠ m2.totalRows then
        translatePositions (MapPollard.trimProofPos
          (ProofPositions (sortU64 (ts.map (encP F.rows))) m2.numLeaves (TreeRows m.numLeaves)).1 m2.numLeaves)
          (TreeRows m.numLeaves) m2.totalRows
       else (ProofPositions (sortU64 (ts.map (encP F.rows))) m2.numLeaves (TreeRows m.numLeaves)).1) =
      (F.proofPositions ts).map (encP T) := by
    rw [hPP, htrim, htr, hTR2]
    exact toStor hT hfit _ (fun q hq => vF (ppB q hq))
  have hps := ps_hashes hc
  have hlen : ((F.proofPositions ts).map (encP T)).length = ps.length := by
    rw [hps, List.length_map, List.length_map]
  -- (5) `placeProof`
  have hprf : ∀ j (hj : j < (F.proofPositions ts).length),
      ps[0 + j]? = some (tvF F (F.proofPositions ts)[j]) := by
    intro j hj
    rw [Nat.zero_add]
    subst hps
    rw [List.getElem?_map, List.getElem?_eq_getElem hj]
    rfl
  obtain ⟨m3, h4, rep3, hf3, hn3⟩ := placeProof_rep (tvF F) (F.proofPositions ts) 0 ps m2 A2 C2 rep2 hfull2
    (fun q hq => vT (ppB q hq)) hprf hpp
  have hTR3 : m3.totalRows = H8 T := rep3.rows
  -- (6) `calculateHashes`
  have hdh : (match (some L : Option (List H)) with
      | some hs => hs
      | none => (ts.map (E F.rows)).map (fun _ => zero)) = ts.map (valAt CTree.hash F) := by
    rw [canon_target_vals hc]
    simp [CTree.hash]
  obtain ⟨r, h5, _, _, hnodes⟩ := calc_generic (Nat.le_of_lt hn63) nz.nonzero hy.nz hnd hc CTree.hash
    (fun a b ga gb => hash_node_comb nz.nonzero ga gb) (fun _ _ _ _ _ _ _ => rfl) (some L) hdh []
  have h5' : calculateHashes m3.numLeaves (some L) (ts.map (encP F.rows)) ps = .ok r := by
    rw [hn3, hnl2, hn]
    rw [List.append_nil] at h5
    exact h5
  -- (7) the calculated nodes in storage coordinates
  have h6 : (if TreeRows m.numLeaves ≠ m3.totalRows then
        sortHP (r.nodes.map (fun x => (translatePos x.1 (TreeRows m.numLeaves) m3.totalRows, x.2)))
       else r.nodes) = (pathSet F ts).map (fun p => (encP T p, tvF F p)) := by
    rw [hnodes, htr, hTR3]
    have := inter_eq' hT hfit (pathSet F ts) (pathSet_sorted F ts) (fun q hq => vF (psB q hq))
      (valAt CTree.hash F)
    refine Eq.trans this ?_
    apply List.map_congr_left
    intro q hq
    rw [ps_val hc hq]
  have h7 : (if TreeRows m.numLeaves ≠ m3.totalRows then
        translatePositions (ts.map (encP F.rows)) (TreeRows m.numLeaves) m3.totalRows
        else ts.map (encP F.rows)) = ts.map (encP T) := by
    rw [htr, hTR3]
    exact toStor hT hfit ts (fun t ht => vF (tsB t ht))
  have hrun := undoDeletion_eq h1 h2 hmd h3 hlen h4 h5' h6 h7
  -- (8) `putCalculated`
  have tsPos : ∀ t ∈ ts, F.posOf (tvF F t) = some t := by
    intro t ht
    exact (posOf_iff F hn64 hy nz).2 (ts_val nz hn64 hy hc ht).2
  obtain ⟨rep4, hf4, hn4⟩ := putCalculated_rep'
    (fun p => (ts.map (encP T)).contains p) (fun p => decide (p ∈ ts)) (tvF F) F.posOf
    (pathSet F ts) m3 _ C2 rep3 hf3
    (fun q hq => ⟨vT (psB q hq), contains_eq' hT ts (fun t ht => vT (tsB t ht)) (vT (psB q hq))⟩)
    (fun q hq ht => tsPos q (of_decide_eq_true ht))
  refine ⟨_, hrun, rep4.congr (fun q => rfl) (fun x => ?_), by rw [hn4, hn3, hnl2], hf4⟩
  have hiff : (∃ t ∈ pathSet F ts, decide (t ∈ ts) = true ∧ tvF F t = x) ↔ x ∈ L := by
    constructor
    · rintro ⟨t, h1, h2, h3⟩
      have := ts_val nz hn64 hy hc (of_decide_eq_true h2)
      rw [h3] at this
      exact this.1
    · intro h
      obtain ⟨_, hp, _, _⟩ := canon_spec hc
      obtain ⟨p, hpl⟩ := hp x h
      have hm := posOf_mem hpl
      have hpts : p ∈ ts := (ts_iff nz hn64 hy hc p).2 ⟨x, h, hm⟩
      refine ⟨p, targets_sub_pathSet tok hpts, decide_eq_true hpts, ?_⟩
      unfold tvF
      rw [SpecNodes.nodeAt_of_mem hm]; rfl
  by_cases hx : x ∈ L
  · rw [if_pos hx, if_pos (hiff.2 hx)]
  · rw [if_neg hx, if_neg (fun h => hx (hiff.1 h))]

end main

/-! ## non-vacuity

`m5` / `F5` of `Props/C09.lean` (five live leaves, leaves 0, 2, 4 cached, allocation
`TotalRows = 63 ≠ TreeRows = 3`).  `md`: `m5` after deleting the cached leaf 2 with
`MapPollard.remove` (leaf 3 moved up to `(1, 1)`, the node `(1, 0)` was pruned).  `md2`: `md` after
the move-down loop (leaf 3 is back at `(0, 3)`).  The canonical proof of leaf 2 in `F5` has the
positions `(0, 3)` — stored in `md2`, read back by `placeProof` — and `(1, 0)` — absent, filled in. -/

namespace Example
open Props.C09.Example MapSInv.Example

theorem pair_ok {α : Type} (r : α × Except Fail Unit)
    (h : (match r.2 with | .ok _ => true | .error _ => false) = true) : r = (r.1, .ok ()) := by
  obtain ⟨a, b⟩ := r
  cases b with
  | ok u => rfl
  | error e => simp at h

def md : MapPollard T := (MapPollard.remove [2#64] [T.leaf 2] m5).1

def md2 : MapPollard T := (MapPollard.undoDelMoveDown (([(0, 2)] : List Pos).map (encP 63)).reverse md).1

theorem canon2 : F5.canon [T.leaf 2] = some ([(0, 2)], [T.leaf 3, T.node (.leaf 0) (.leaf 1)]) := by
  decide +kernel

theorem md2_nodes : md2.nodes = [(encP 63 (0, 3), ⟨.leaf 3, false⟩),
    (encP 63 (2, 0), ⟨.node (.node (.leaf 0) (.leaf 1)) (.leaf 3), false⟩),
    (encP 63 (0, 4), ⟨.leaf 4, true⟩), (encP 63 (0, 1), ⟨.leaf 1, false⟩), (encP 63 (0, 0), ⟨.leaf 0, true⟩)] := by
  decide +kernel

theorem md2_cached : md2.cached = [(.leaf 4, encP 63 (0, 4)), (.leaf 0, encP 63 (0, 0))] := by
  decide +kernel

theorem md2_rep : Rep md2 63 (absA md2 63) (absC md2 63) := by
  refine rep_abs (by decide) (by decide +kernel) ?_ ?_
  · intro p l h
    have hm := get?_some_mem h
    rw [md2_nodes] at hm
    simp only [List.mem_cons, List.not_mem_nil, or_false, Prod.mk.injEq] at hm
    rcases hm with ⟨rfl, _⟩ | ⟨rfl, _⟩ | ⟨rfl, _⟩ | ⟨rfl, _⟩ | ⟨rfl, _⟩ <;>
      (refine ⟨_, ?_, rfl⟩; decide)
  · intro x p h
    have hm := get?_some_mem h
    rw [md2_cached] at hm
    simp only [List.mem_cons, List.not_mem_nil, or_false, Prod.mk.injEq] at hm
    rcases hm with ⟨_, rfl⟩ | ⟨_, rfl⟩ <;>
      (refine ⟨_, ?_, rfl⟩; decide)

/-- `undoDeletion_rep`: its hypotheses hold for `md` (= `m5` after deleting the cached leaf 2),
the forest `F5` to be restored and the canonical proof of leaf 2 -/
example : ∃ m', MapPollard.undoDeletion (([(0, 2)] : List Pos).map (encP F5.rows))
      [T.leaf 3, T.node (.leaf 0) (.leaf 1)] [T.leaf 2] md = (m', .ok ()) ∧
    Rep m' 63 (ingA (pathSet F5 [(0, 2)]) (F5.proofPositions [(0, 2)]) [(0, 2)] (tvF F5) (absA md2 63))
      (fun x => if x ∈ [T.leaf 2] then F5.posOf x else absC md2 63 x) ∧
    m'.numLeaves = md.numLeaves ∧ m'.full = false := by
  refine undoDeletion_rep crT.toNZ (m := md) (m2 := md2) (F := F5) (T := 63) (by decide +kernel) (by decide)
    (by decide +kernel) (by decide) (by decide) F5_hyg (by decide) canon2 (ds := [(0, 2)])
    (by decide +kernel) (pair_ok _ (by decide +kernel)) md2_rep (by decide +kernel) (by decide +kernel) ?_
  have e : F5.proofPositions [(0, 2)] = [(0, 3), (1, 0)] := by decide +kernel
  rw [e]
  intro q hq l hl
  simp only [List.mem_cons, List.not_mem_nil, or_false] at hq
  rcases hq with rfl | rfl
  · have h1 : absA md2 63 (0, 3) = some ⟨.leaf 3, false⟩ := by decide +kernel
    have h2 : tvF F5 (0, 3) = .leaf 3 := by decide +kernel
    rw [h1] at hl
    simp only [Option.some.injEq] at hl
    rw [← hl, h2]
  · have h1 : absA md2 63 (1, 0) = none := by decide +kernel
    rw [h1] at hl
    cases hl

/-- the state after the concrete call -/
def mu : MapPollard T :=
  (MapPollard.undoDeletion [2#64] [T.leaf 3, T.node (.leaf 0) (.leaf 1)] [T.leaf 2] md).1

/-- the concrete run: leaf 2 is cached at its old position again, the proof hash missing at
`(1, 0)` has been stored without flag, the one present at `(0, 3)` was kept, and all eight nodes of
`m5` are back with the same contents -/
example : ([(0, 2)] : List Pos).map (encP F5.rows) = [2#64] ∧
    md.getCached (.leaf 2) = none ∧ md.nodes.length = 5 ∧ md2.getNode (encP 63 (1, 0)) = none ∧
    mu.getCached (.leaf 2) = some 2#64 ∧ mu.nodes.length = 8 ∧
    mu.getNode 2#64 = some ⟨.leaf 2, true⟩ ∧
    mu.getNode (encP 63 (1, 0)) = some ⟨.node (.leaf 0) (.leaf 1), false⟩ ∧
    (m5.nodes.map (·.1)).all (fun p => mu.getNode p == m5.getNode p) = true := by
  decide +kernel

end Example

end UtreexoVerif.Proofs.MapUndoDel
