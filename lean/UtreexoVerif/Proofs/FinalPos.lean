/-
  Final positions of nodes in a collapsed forest, at the level of (row, offset) pairs
  (`Spec.Pos`), independent of the bit encoding:

  * `fpos`: top-down — the position of the collapsed root of an aligned chunk of slots,
    obtained by walking down from the root of its tree and skipping the levels whose sibling
    chunk has no survivors;
  * `liftFold`: bottom-up — what `Stump.add` computes: start at the leaf's slot and, for
    every dead sibling on the way up, remove one path bit and move up one row
    (`calcNextPosition`);
  * `fpos_eq_liftFold`: both agree.
-/
import UtreexoVerif.Spec.Forest

namespace UtreexoVerif.Proofs.FinalPos
open UtreexoVerif Spec

/-- remove binary digit `b` of `v` (the digits above move down) -/
def removeBitNat (v b : Nat) : Nat := 2 ^ b * (v / 2 ^ (b + 1)) + v % 2 ^ b

theorem removeBitNat_zero (v : Nat) : removeBitNat v 0 = v / 2 := by
  simp [removeBitNat, Nat.mod_one]

/-- removing a digit above digit 0 commutes with appending a low digit -/
theorem removeBitNat_succ (o q β : Nat) (hβ : β < 2) :
    removeBitNat (2 * o + β) (q + 1) = 2 * removeBitNat o q + β := by
  unfold removeBitNat
  have e1 : (2 * o + β) / 2 ^ (q + 1 + 1) = o / 2 ^ (q + 1) := by
    have hp : 2 ^ (q + 1 + 1) = 2 * 2 ^ (q + 1) := by rw [Nat.pow_succ]; omega
    rw [hp, ← Nat.div_div_eq_div_mul]
    congr 1; omega
  have e2 : (2 * o + β) % 2 ^ (q + 1) = 2 * (o % 2 ^ q) + β := by
    have hp : 2 ^ (q + 1) = 2 * 2 ^ q := by rw [Nat.pow_succ]; omega
    have hpos := Nat.two_pow_pos q
    have hd := Nat.div_add_mod o (2 ^ q)
    have hm := Nat.mod_lt o hpos
    have : 2 * o + β = 2 ^ (q + 1) * (o / 2 ^ q) + (2 * (o % 2 ^ q) + β) := by
      rw [hp, Nat.mul_assoc]; omega
    rw [this, Nat.mul_add_mod]
    exact Nat.mod_eq_of_lt (by omega)
  rw [e1, e2]
  have hp : 2 ^ (q + 1) = 2 * 2 ^ q := by rw [Nat.pow_succ]; omega
  rw [hp, Nat.mul_assoc]
  omega

theorem removeBitNat_lt {v b k : Nat} (hb : b ≤ k) (hv : v < 2 ^ (k + 1)) :
    removeBitNat v b < 2 ^ k := by
  unfold removeBitNat
  have hpos := Nat.two_pow_pos b
  have hm := Nat.mod_lt v hpos
  have e : 2 ^ (k + 1) = 2 ^ (b + 1) * 2 ^ (k - b) := by
    rw [← Nat.pow_add]; congr 1; omega
  have h1 : v / 2 ^ (b + 1) < 2 ^ (k - b) := by
    rw [Nat.div_lt_iff_lt_mul (Nat.two_pow_pos _), Nat.mul_comm, ← e]; exact hv
  have e2 : 2 ^ k = 2 ^ b * 2 ^ (k - b) := by
    rw [← Nat.pow_add]; congr 1; omega
  have h2 : 2 ^ b * (v / 2 ^ (b + 1) + 1) ≤ 2 ^ b * 2 ^ (k - b) :=
    Nat.mul_le_mul_left _ h1
  rw [Nat.mul_add, Nat.mul_one] at h2
  omega

/-! ### bottom-up: lifting over dead siblings -/

/-- one `calcNextPosition` step for a dead sibling on level `h` (levels counted from `l`) -/
def liftStep (l : Nat) (p : Pos) (h : Nat) : Pos := (p.1 + 1, removeBitNat p.2 (h - l - p.1))

def liftFold (l : Nat) (p : Pos) (hs : List Nat) : Pos := hs.foldl (liftStep l) p

/-- strictly ascending list with first element `≥ b` -/
def AscFrom : Nat → List Nat → Prop
  | _, [] => True
  | b, h :: t => b ≤ h ∧ AscFrom (h + 1) t

theorem AscFrom.mono {b b' : Nat} {hs : List Nat} (h : AscFrom b hs) (hb : b' ≤ b) : AscFrom b' hs := by
  cases hs with
  | nil => trivial
  | cons x t => exact ⟨Nat.le_trans hb h.1, h.2⟩

/-! ### ascending lists -/

theorem AscFrom.ge {b : Nat} {l : List Nat} (h : AscFrom b l) : ∀ x ∈ l, b ≤ x := by
  induction l generalizing b with
  | nil => intro x hx; cases hx
  | cons y t ih =>
    intro x hx
    rcases List.mem_cons.mp hx with rfl | hx
    · exact h.1
    · have := ih h.2 x hx
      have := h.1
      omega

theorem AscFrom.of_ge {b : Nat} {l : List Nat} (h : AscFrom 0 l) (hb : ∀ x ∈ l, b ≤ x) : AscFrom b l := by
  cases l with
  | nil => trivial
  | cons y t => exact ⟨hb y List.mem_cons_self, h.2⟩

theorem AscFrom.append {a b : Nat} {l1 l2 : List Nat} (h1 : AscFrom a l1) (hlt : ∀ x ∈ l1, x < b)
    (h2 : AscFrom b l2) (hab : a ≤ b) : AscFrom a (l1 ++ l2) := by
  induction l1 generalizing a with
  | nil => exact h2.mono hab
  | cons y t ih =>
    refine ⟨h1.1, ih h1.2 (fun x hx => hlt x (List.mem_cons_of_mem _ hx)) ?_⟩
    have := hlt y List.mem_cons_self
    omega

/-- strictly ascending lists with the same elements are equal -/
theorem AscFrom.ext : ∀ {l1 l2 : List Nat} {a a' : Nat}, AscFrom a l1 → AscFrom a' l2 →
    (∀ h, h ∈ l1 ↔ h ∈ l2) → l1 = l2 := by
  intro l1
  induction l1 with
  | nil =>
    intro l2 a a' _ _ hm
    cases l2 with
    | nil => rfl
    | cons y t => exact absurd ((hm y).mpr List.mem_cons_self) (by simp)
  | cons x t1 ih =>
    intro l2 a a' h1 h2 hm
    cases l2 with
    | nil => exact absurd ((hm x).mp List.mem_cons_self) (by simp)
    | cons y t2 =>
      have hxy : x = y := by
        have hx := (hm x).mp List.mem_cons_self
        have hy := (hm y).mpr List.mem_cons_self
        rcases List.mem_cons.mp hx with h | h
        · exact h
        · rcases List.mem_cons.mp hy with h' | h'
          · exact h'.symm
          · have := h2.2.ge x h
            have := h1.2.ge y h'
            omega
      subst hxy
      congr 1
      apply ih h1.2 h2.2
      intro h
      constructor
      · intro hh
        have hge := h1.2.ge h hh
        rcases List.mem_cons.mp ((hm h).mp (List.mem_cons_of_mem _ hh)) with e | e
        · omega
        · exact e
      · intro hh
        have hge := h2.2.ge h hh
        rcases List.mem_cons.mp ((hm h).mpr (List.mem_cons_of_mem _ hh)) with e | e
        · omega
        · exact e

/-- lifting commutes with appending a low path digit (all lifted levels are above it) -/
theorem liftFold_low (l : Nat) (β : Nat) (hβ : β < 2) : ∀ (hs : List Nat) (r o : Nat),
    AscFrom (l + 1 + r) hs →
    liftFold l (r, 2 * o + β) hs =
      ((liftFold (l + 1) (r, o) hs).1, 2 * (liftFold (l + 1) (r, o) hs).2 + β) := by
  intro hs
  induction hs with
  | nil => intro r o _; rfl
  | cons h t ih =>
    intro r o hasc
    obtain ⟨h1, h2⟩ := hasc
    simp only [liftFold, List.foldl_cons, liftStep]
    have e : h - l - r = (h - (l + 1) - r) + 1 := by omega
    rw [e, removeBitNat_succ _ _ _ hβ]
    exact ih (r + 1) _ (h2.mono (by omega))

/-- starting one row higher = counting levels from one level lower -/
theorem liftFold_shift (l : Nat) : ∀ (hs : List Nat) (r o : Nat),
    liftFold l (r + 1, o) hs =
      ((liftFold (l + 1) (r, o) hs).1 + 1, (liftFold (l + 1) (r, o) hs).2) := by
  intro hs
  induction hs with
  | nil => intro r o; rfl
  | cons h t ih =>
    intro r o
    simp only [liftFold, List.foldl_cons, liftStep]
    have e : h - l - (r + 1) = h - (l + 1) - r := by omega
    rw [e]
    exact ih (r + 1) _

/-! ### top-down: walking from the tree root -/

/-- index of the sibling chunk -/
def sibIdx (b : Nat) : Nat := if b % 2 = 0 then b + 1 else b - 1

/-- position of the collapsed root of chunk `(l, b)`, `k` levels below the chunk whose
collapsed root sits at `top`; `al l b` tells whether chunk `(l, b)` has survivors -/
def fpos (al : Nat → Nat → Bool) (top : Pos) : Nat → Nat → Nat → Pos
  | 0, _, _ => top
  | k+1, l, b =>
    let p := fpos al top k (l + 1) (b / 2)
    if al l (sibIdx b) then (p.1 - 1, 2 * p.2 + b % 2) else p

/-- the levels `l ≤ j < l + k` at which the sibling of the ancestor of chunk `(l, b)` is dead -/
def deadLevels (al : Nat → Nat → Bool) : Nat → Nat → Nat → List Nat
  | 0, _, _ => []
  | k+1, l, b => (if al l (sibIdx b) then [] else [l]) ++ deadLevels al k (l + 1) (b / 2)

theorem deadLevels_asc (al : Nat → Nat → Bool) : ∀ k l b, AscFrom l (deadLevels al k l b) := by
  intro k
  induction k with
  | zero => intro l b; trivial
  | succ k ih =>
    intro l b
    simp only [deadLevels]
    split
    · exact (ih (l + 1) (b / 2)).mono (by omega)
    · exact ⟨Nat.le_refl _, ih (l + 1) (b / 2)⟩

theorem mem_deadLevels (al : Nat → Nat → Bool) : ∀ k l b h,
    h ∈ deadLevels al k l b ↔ l ≤ h ∧ h < l + k ∧ al h (sibIdx (b / 2 ^ (h - l))) = false := by
  intro k
  induction k with
  | zero => intro l b h; simp [deadLevels]; omega
  | succ k ih =>
    intro l b h
    simp only [deadLevels, List.mem_append, ih]
    by_cases hl : h = l
    · subst hl
      simp only [Nat.sub_self, Nat.pow_zero, Nat.div_one]
      constructor
      · rintro (h1 | h1)
        · split at h1
          · simp at h1
          · rename_i hal
            exact ⟨Nat.le_refl _, by omega, by simpa using hal⟩
        · omega
      · rintro ⟨_, _, h3⟩
        left; simp [h3]
    · constructor
      · rintro (h1 | ⟨h1, h2, h3⟩)
        · split at h1
          · simp at h1
          · simp at h1; exact absurd h1 hl
        · refine ⟨by omega, by omega, ?_⟩
          have e : b / 2 ^ (h - l) = b / 2 / 2 ^ (h - (l + 1)) := by
            rw [Nat.div_div_eq_div_mul, ← Nat.pow_succ']
            congr 2; omega
          rw [e]; exact h3
      · rintro ⟨h1, h2, h3⟩
        right
        refine ⟨by omega, by omega, ?_⟩
        have e : b / 2 ^ (h - l) = b / 2 / 2 ^ (h - (l + 1)) := by
          rw [Nat.div_div_eq_div_mul, ← Nat.pow_succ']
          congr 2; omega
        rw [← e]; exact h3

/-- **bottom-up = top-down**: lifting the chunk index over the dead levels gives the position
reached by walking down from the chunk `k` levels above -/
theorem fpos_eq_liftFold (al : Nat → Nat → Bool) : ∀ k l b,
    fpos al (l + k, b / 2 ^ k) k l b =
      (l + (liftFold l (0, b) (deadLevels al k l b)).1, (liftFold l (0, b) (deadLevels al k l b)).2) := by
  intro k
  induction k with
  | zero => intro l b; simp [fpos, deadLevels, liftFold]
  | succ k ih =>
    intro l b
    have htop : (l + (k + 1), b / 2 ^ (k + 1)) = (l + 1 + k, b / 2 / 2 ^ k) := by
      rw [Nat.div_div_eq_div_mul, ← Nat.pow_succ']
      congr 1; omega
    simp only [fpos, deadLevels]
    rw [htop, ih (l + 1) (b / 2)]
    have hb : b = 2 * (b / 2) + b % 2 := by omega
    split
    · -- sibling alive: descend
      simp only [List.nil_append]
      have := liftFold_low l (b % 2) (Nat.mod_lt _ (by decide)) (deadLevels al k (l + 1) (b / 2)) 0 (b / 2)
        ((deadLevels_asc al k (l + 1) (b / 2)).mono (by omega))
      rw [← hb] at this
      rw [this]
      simp only
      congr 1
      omega
    · -- sibling dead: stay
      simp only [List.singleton_append]
      have h0 : liftFold l (0, b) (l :: deadLevels al k (l + 1) (b / 2)) =
          liftFold l (0 + 1, b / 2) (deadLevels al k (l + 1) (b / 2)) := by
        simp only [liftFold, List.foldl_cons, liftStep, Nat.sub_self, removeBitNat_zero]
      rw [h0, liftFold_shift]
      simp only
      congr 1
      omega

/-! ### facts about `fpos` -/

theorem fpos_succ_alive {al : Nat → Nat → Bool} {top : Pos} {k l b : Nat}
    (h : al l (sibIdx b) = true) :
    fpos al top (k + 1) l b =
      ((fpos al top k (l + 1) (b / 2)).1 - 1, 2 * (fpos al top k (l + 1) (b / 2)).2 + b % 2) := by
  simp [fpos, h]

theorem fpos_succ_dead {al : Nat → Nat → Bool} {top : Pos} {k l b : Nat}
    (h : al l (sibIdx b) = false) :
    fpos al top (k + 1) l b = fpos al top k (l + 1) (b / 2) := by
  simp [fpos, h]

/-- the collapsed root of a chunk on level `l` sits on a row between `l` and the row of the top -/
theorem fpos_row (al : Nat → Nat → Bool) (top : Pos) : ∀ k l b, top.1 = l + k →
    l ≤ (fpos al top k l b).1 ∧ (fpos al top k l b).1 ≤ l + k := by
  intro k
  induction k with
  | zero => intro l b ht; simp [fpos, ht]
  | succ k ih =>
    intro l b ht
    have := ih (l + 1) (b / 2) (by omega)
    simp only [fpos]
    split
    · simp only; omega
    · omega

/-- positions produced by `fpos` are proper positions of a forest with `R` rows -/
theorem fpos_valid (al : Nat → Nat → Bool) (top : Pos) (R : Nat) (hR : top.1 ≤ R)
    (htop : top.2 < 2 ^ (R - top.1)) : ∀ k l b, top.1 = l + k →
    (fpos al top k l b).2 < 2 ^ (R - (fpos al top k l b).1) := by
  intro k
  induction k with
  | zero => intro l b _; simpa [fpos] using htop
  | succ k ih =>
    intro l b ht
    have h1 := ih (l + 1) (b / 2) (by omega)
    have h2 := fpos_row al top k (l + 1) (b / 2) (by omega)
    simp only [fpos]
    split
    · simp only
      have e : R - ((fpos al top k (l + 1) (b / 2)).1 - 1) = (R - (fpos al top k (l + 1) (b / 2)).1) + 1 := by
        omega
      rw [e, Nat.pow_succ]
      have := Nat.mod_lt b (show 0 < 2 by decide)
      omega
    · exact h1

/-- walking up from a chunk whose sibling is alive: the parent chunk's root is the parent position -/
theorem fpos_parent {al : Nat → Nat → Bool} {top : Pos} {k l b : Nat} (ht : top.1 = l + (k + 1))
    (h : al l (sibIdx b) = true) :
    ((fpos al top (k + 1) l b).1 + 1, (fpos al top (k + 1) l b).2 / 2) = fpos al top k (l + 1) (b / 2) := by
  have h2 := fpos_row al top k (l + 1) (b / 2) (by omega)
  rw [fpos_succ_alive h]
  have := Nat.mod_lt b (show 0 < 2 by decide)
  ext
  · simp only; omega
  · simp only; omega

theorem sibIdx_sibIdx (b : Nat) : sibIdx (sibIdx b) = b := by
  unfold sibIdx; split <;> split <;> omega

theorem sibIdx_div_two (b : Nat) : sibIdx b / 2 = b / 2 := by
  unfold sibIdx; split <;> omega

/-- the left sibling of an odd chunk whose sibling is alive sits at the left-sibling position -/
theorem fpos_left_sib {al : Nat → Nat → Bool} {top : Pos} {k l b : Nat}
    (hb : b % 2 = 1) (h : al l (sibIdx b) = true) (h' : al l b = true) :
    fpos al top (k + 1) l (sibIdx b) =
      ((fpos al top (k + 1) l b).1, 2 * ((fpos al top (k + 1) l b).2 / 2)) := by
  have hs : al l (sibIdx (sibIdx b)) = true := by rw [sibIdx_sibIdx]; exact h'
  rw [fpos_succ_alive h, fpos_succ_alive hs, sibIdx_div_two]
  have e : sibIdx b % 2 = 0 := by unfold sibIdx; split <;> omega
  rw [e, hb]
  ext
  · rfl
  · simp only; omega

theorem removeBitNat_div {c b M : Nat} (hb : b ≤ M) : removeBitNat c b / 2 ^ M = c / 2 ^ (M + 1) := by
  unfold removeBitNat
  have e : 2 ^ M = 2 ^ b * 2 ^ (M - b) := by rw [← Nat.pow_add]; congr 1; omega
  have e2 : 2 ^ (M + 1) = 2 ^ (b + 1) * 2 ^ (M - b) := by rw [← Nat.pow_add]; congr 1; omega
  rw [e, ← Nat.div_div_eq_div_mul, Nat.mul_add_div (Nat.two_pow_pos b),
    Nat.div_eq_of_lt (Nat.mod_lt _ (Nat.two_pow_pos b)), Nat.add_zero, e2,
    ← Nat.div_div_eq_div_mul]

end UtreexoVerif.Proofs.FinalPos
