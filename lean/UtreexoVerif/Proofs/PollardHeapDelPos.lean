/-
  Pointer forest, heap model: `getNode` by position, on the pointers.

  * `getNodeLoop_walkChild`: the loop of `getNode` (state `(n, sibling)`, following NIECE
    pointers) is a walk along CHILD paths with the roles exchanged: the state `(n, s)`
    corresponds to "node `s` whose children hang off `n`";
  * `getNode_pos`: for the position `(r, o)` below the root of the tree on row `R`, `getNode`
    returns the node at child path `pathBits (R - r) o` and its sibling.
-/
import UtreexoVerif.Proofs.PollardHeapDelSingle
import UtreexoVerif.Proofs.PollardLookup
import UtreexoVerif.Proofs.PollardCalcPos
set_option linter.unusedSectionVars false
set_option linter.unusedVariables false
set_option linter.unusedSimpArgs false

namespace UtreexoVerif.Proofs.PollardHeap
open UtreexoVerif UtreexoVerif.GoInt UtreexoVerif.Model UtreexoVerif.Model.PollardHeap UtreexoVerif.Spec Hasher
open UtreexoVerif.Model.PollardAbs UtreexoVerif.Proofs.SpecView UtreexoVerif.Proofs.PollardLookup

variable {H : Type} [DecidableEq H] [Hasher H]

/-- the niece decisions of the loop of `getNode`, highest bit first -/
def Lpath (bits : U64) : Nat → List Bool
  | 0 => []
  | k+1 => leftNieceAt bits k :: Lpath bits k

/-- **the loop of `getNode` on the pointers**: from the state `(n, s)` the loop ends in the state
`(n', s')` where `(s', n')` is reached from "`s` with children hanging off `n`" along the child
path `Lpath bits k` -/
theorem getNodeLoop_walkChild (bits : U64) : ∀ (k : Nat) (n s : Nat) (par : Ptr) (st : Pollard H)
    (n' s' : Nat), walkChild st.heap s n (Lpath bits k) = some (s', n') →
    ∃ par', getNodeLoop k bits n (some s) par st = (.ok (some n', some s', par'), st) := by
  intro k
  induction k with
  | zero =>
    intro n s par st n' s' h
    simp only [Lpath, walkChild, Option.some.injEq, Prod.mk.injEq] at h
    obtain ⟨rfl, rfl⟩ := h
    exact ⟨par, rfl⟩
  | succ k ih =>
    intro n s par st n' s' h
    simp only [Lpath, walkChild] at h
    cases hn : st.heap[n]? with
    | none => simp [hn] at h
    | some nn =>
      simp only [hn] at h
      cases hL : nn.lNiece with
      | none => simp [hL] at h
      | some l =>
        cases hR : nn.rNiece with
        | none => simp [hL, hR] at h
        | some r =>
          simp only [hL, hR] at h
          unfold getNodeLoop
          simp only [bind_apply, node_apply, hn, hL, hR]
          by_cases hb : leftNieceAt bits k = true
          · simp only [hb, if_true] at h ⊢
            exact ih l r (some s) st n' s' h
          · simp only [hb, Bool.false_eq_true, if_false] at h ⊢
            exact ih r l (some s) st n' s' h

/-- on a bit field of the shape `DetectOffset` returns for offset `o'`, the niece decisions are
the child path of the SIBLING offset `o' ^^^ 1` -/
theorem Lpath_eq_pathBits (bits : U64) (o' : Nat) : ∀ (k : Nat),
    (∀ j, j < k → bits.getLsbD j = if j = 0 then o'.testBit 0 else !o'.testBit j) →
    Lpath bits k = pathBits k (o' ^^^ 1) := by
  intro k
  induction k with
  | zero => intro _; rfl
  | succ k ih =>
    intro hb
    simp only [Lpath, pathBits]
    rw [ih (fun j hj => hb j (by omega)), leftNieceAt_eq, hb k (by omega)]
    congr 1
    rw [Nat.testBit_xor]
    by_cases h0 : k = 0
    · subst h0; simp
    · have : (1 : Nat).testBit k = false := by
        cases k with
        | zero => exact absurd rfl h0
        | succ k => rw [Nat.testBit_succ]; simp
      simp [h0, this]

/-- a position below the root of the tree on row `R` is a position of the forest geometry -/
theorem under_valid {n R r o : Nat} (hb : n.testBit R = true) (hr : r ≤ R)
    (ho : o / 2 ^ (R - r) = 2 * (n >>> (R + 1))) :
    r ≤ forestRows n ∧ o < 2 ^ (forestRows n - r) := by
  have hR : R ≤ forestRows n := testBit_le_forestRows hb
  have hlt := rootOffset_lt hb
  refine ⟨by omega, ?_⟩
  rw [← ho, Nat.div_lt_iff_lt_mul (Nat.two_pow_pos _), ← Nat.pow_add] at hlt
  rwa [show forestRows n - R + (R - r) = forestRows n - r by omega] at hlt

/-- … and lies inside the forest -/
theorem under_inForest {n R r o : Nat} (hb : n.testBit R = true) (hr : r ≤ R)
    (ho : o / 2 ^ (R - r) = 2 * (n >>> (R + 1))) : (o + 1) * 2 ^ r ≤ n :=
  Proofs.below_root_iff.2 ⟨R, hr, hb, ho⟩

/-- **`getNode` by position**: for the position `(r, o)` below the root of the tree on row `R`
(whose root pointer is `root`), `getNode` returns the node `n'` and its sibling `s'`, where
`(s', n')` is reached from the root along the child path of the sibling offset `o ^^^ 1` -/
theorem getNode_pos {p : Pollard H} {n : Nat} (hnl : p.numLeaves.toNat = n) (hn : n < 2 ^ 63)
    {R r o : Nat} (hR : R ∈ treeRows n) (hr : r ≤ R)
    (ho : o / 2 ^ (R - r) = 2 * (n >>> (R + 1)))
    {root : Nat} (hroot : p.roots[(treeRows n).idxOf R]? = some root) (hL : p.roots.length ≤ 255)
    {s' n' : Nat} (hw : walkChild p.heap root root (pathBits (R - r) (o ^^^ 1)) = some (s', n')) :
    ∃ par, getNode (encU (forestRows n) r o) p = (.ok (some n', some s', par), p) := by
  have hb : n.testBit R = true := (Spec.mem_treeRows.1 hR).2
  have htr : forestRows n ≤ 63 := forestRows_le_63 hn
  obtain ⟨hrr, hoo⟩ := under_valid hb hr ho
  have hN : p.numLeaves = BitVec.ofNat 64 n := by rw [← hnl]; simp
  have hT : TreeRows p.numLeaves = H8 (forestRows n) := by rw [hN]; exact treeRows_eq hn
  have hRrows : R ≤ forestRows n := testBit_le_forestRows hb
  have hg1 : decide (encU (forestRows n) r o ≥ maxPosition (H8 (forestRows n))) = false := by
    rw [decide_eq_false_iff_not, ge_iff_le, BitVec.le_def]
    unfold maxPosition
    rw [toNat_H8 htr, toNat_mask htr, toNat_encU htr hrr hoo]
    have := Proofs.enc_lt_aux hrr hoo
    omega
  have hin : inForest (encU (forestRows n) r o) p.numLeaves (H8 (forestRows n)) = true := by
    rw [Props.C16.inForest_enc htr hrr hoo, hnl, decide_eq_true_iff]
    exact under_inForest hb hr ho
  have hdo := Props.C16.detectOffset_enc (R := R) p.numLeaves hT htr hr hoo (by rw [hnl]; exact hb)
    (by rw [hnl]; exact ho)
  rw [hnl] at hdo
  have hlen : (treeRows n).idxOf R < p.roots.length := by
    rcases Nat.lt_or_ge ((treeRows n).idxOf R) p.roots.length with h | h
    · exact h
    · rw [List.getElem?_eq_none h] at hroot; cases hroot
  have hidx' : (treeRows n).idxOf R < 65 := by
    have h1 := List.idxOf_lt_length_of_mem hR
    have h2 : (treeRows n).length ≤ 65 := by
      rw [Spec.treeRows_length]
      exact Nat.le_trans List.countP_le_length (by simp)
    omega
  have hidx : (BitVec.ofNat 8 ((treeRows n).idxOf R)).toNat = (treeRows n).idxOf R := by
    rw [BitVec.toNat_ofNat]; omega
  have hbl : (H8 (R - r)).toNat = R - r := toNat_H8 (by omega)
  have hbits := fun j (hj : j < R - r) =>
    Props.C16.detectOffset_bits (k := j) p.numLeaves htr hr hRrows hoo hj
  rw [hnl] at hbits
  have hLp := Lpath_eq_pathBits _ o (R - r) hbits
  rw [← hLp] at hw
  obtain ⟨par, hloop⟩ := getNodeLoop_walkChild _ (R - r) root root none p n' s' hw
  refine ⟨par, ?_⟩
  unfold getNode
  simp only [bind_apply, getNumLeaves_apply, getRoots_apply, hT, hg1, hin, Bool.not_true,
    Bool.or_self, Bool.false_eq_true, if_false, hdo, hidx, hroot, hbl]
  have hge : ¬ (BitVec.ofNat 8 ((treeRows n).idxOf R) ≥ BitVec.ofNat 8 p.roots.length) := by
    rw [ge_iff_le, BitVec.le_def, BitVec.toNat_ofNat, BitVec.toNat_ofNat]
    have : (treeRows n).idxOf R % 2 ^ 8 = (treeRows n).idxOf R := Nat.mod_eq_of_lt (by omega)
    rw [this]
    rw [Nat.mod_eq_of_lt (show p.roots.length < 2 ^ 8 by omega)]; omega
  simp only [hge, if_false]
  exact hloop

end UtreexoVerif.Proofs.PollardHeap
