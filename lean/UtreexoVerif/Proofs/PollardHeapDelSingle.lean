/-
  Pointer forest, heap model: `deleteSingle` on one represented tree (collapsed-tree level).

  * `deleteSingle_tree_root`: the deleted node is a child of the root — its sibling's content
    moves into the root node;
  * `deleteSingle_tree_aunt`: the deleted node lies deeper — its sibling takes the place of the
    parent, `hashToRoot` re-computes the ancestors.
-/
import UtreexoVerif.Proofs.PollardHeapDelSurg
set_option linter.unusedSectionVars false
set_option linter.unusedVariables false
set_option linter.unusedSimpArgs false

namespace UtreexoVerif.Proofs.PollardHeap
open UtreexoVerif UtreexoVerif.GoInt UtreexoVerif.Model UtreexoVerif.Model.PollardHeap UtreexoVerif.Spec Hasher
open UtreexoVerif.Model.PollardAbs

variable {H : Type} [DecidableEq H] [Hasher H]

@[simp] theorem nodeMapGet_apply (k : H) (s : Pollard H) :
    nodeMapGet k s = (.ok (mapGet s.nodeMap k), s) := rfl
@[simp] theorem nodeMapSet_apply (k : H) (v : Nat) (s : Pollard H) :
    nodeMapSet k v s = (.ok (), { s with nodeMap := mapSet s.nodeMap k v }) := rfl
@[simp] theorem nodeMapDel_apply (k : H) (s : Pollard H) :
    nodeMapDel k s = (.ok (), { s with nodeMap := mapDel s.nodeMap k }) := rfl

/-- the `NodeMap` update of the root branch of `deleteSingle`: "if the node was a leaf, update
the map to point to the root" -/
def mapMoveTo (m : List (H × Nat)) (k : H) (v : Nat) : List (H × Nat) :=
  if (mapGet m k).isSome then mapSet m k v else m

/-- **`deleteSingle`, the parent is the root** -/
theorem deleteSingle_tree_root {hp : Heap H} {nm : List (H × Nat)} {rs : List Nat} {nl ndl : U64}
    {full : Bool} {r : Nat} {x y : CTree H} {fp : List Nat} {lv : List (H × Nat)} (d : Bool)
    (hR : RootRepr hp r (.node x y) fp lv) (nd : (r :: fp).Nodup) (del : U64)
    (hget : ∀ A B, walkChild hp r r [d] = some (A, B) →
      ∃ par, getNode (sibling del) ⟨hp, nm, rs, nl, ndl, full⟩ =
        (.ok (some B, some A, par), ⟨hp, nm, rs, nl, ndl, full⟩))
    (hroot : isRootPosition (Parent del (TreeRows nl)) nl = true) :
    ∃ (hp' : Heap H) (A B : Nat) (fa fb : List Nat) (la lb : List (H × Nat)),
      Sub hp A B (if d then y else x) fa la ∧ Sub hp B A (if d then x else y) fb lb ∧
      fp = (if d then B :: A :: (fb ++ fa) else A :: B :: (fa ++ fb)) ∧
      lv = (if d then lb ++ la else la ++ lb) ∧
      deleteSingle del ⟨hp, nm, rs, nl, ndl, full⟩ =
        (.ok (), ⟨hp', mapDel (mapMoveTo nm (if d then x else y).hash r) (if d then y else x).hash,
          rs, nl, ndl, full⟩) ∧
      RootRepr hp' r (if d then x else y) fb (relabelTop (if d then x else y) r lb) ∧
      (∀ j, j ∉ r :: fp → hp'[j]? = hp[j]?) ∧ hp'.size = hp.size := by
  obtain ⟨⟨rn, hr, ar⟩, hs⟩ := hR
  cases hs with
  | node h1 h2 h3 h4 h5 h6 h7 h8 h9 sa sb =>
    rename_i l r' nn hn0 ln rn' fa fb la lb
    rw [hr] at h1 h3; cases h1; cases h3
    -- A = the node deleted, B = its sibling
    obtain ⟨A, B, an, bn, a, b, fA, fB, lA, lB, hA, hB, aA, aB, subA, subB, ea, eb, efp, elv, hw⟩ :
        ∃ (A B : Nat) (an bn : PolNode H) (a b : CTree H) (fA fB : List Nat) (lA lB : List (H × Nat)),
          hp[A]? = some an ∧ hp[B]? = some bn ∧ an.aunt = some r ∧ bn.aunt = some r ∧
          Sub hp A B a fA lA ∧ Sub hp B A b fB lB ∧ a = (if d then y else x) ∧
          b = (if d then x else y) ∧
          l :: r' :: (fa ++ fb) = (if d then B :: A :: (fB ++ fA) else A :: B :: (fA ++ fB)) ∧
          la ++ lb = (if d then lB ++ lA else lA ++ lB) ∧ walkChild hp r r [d] = some (A, B) := by
      cases d with
      | false =>
        exact ⟨l, r', ln, rn', x, y, fa, fb, la, lb, h6, h7, h8, h9, sa, sb, rfl, rfl, rfl, rfl,
          by simp [walkChild, hr, h4, h5]⟩
      | true =>
        exact ⟨r', l, rn', ln, y, x, fb, fa, lb, la, h7, h6, h9, h8, sb, sa, rfl, rfl, rfl, rfl,
          by simp [walkChild, hr, h4, h5]⟩
    obtain ⟨par, hget'⟩ := hget A B hw
    have ndAB : (r :: A :: B :: (fA ++ fB)).Nodup := by
      refine (List.Perm.nodup_iff ?_).1 nd
      rw [efp]; cases d
      · simp
      · simp only [if_true]; perm_count
    obtain ⟨h2', h3', h4', x2, x3, x4, hP3, hA3, x5, hsz, hframe, hroot'⟩ :=
      surgeryRoot (a := a) (b := b) hA hB hr aA aB subA subB ndAB nm rs nl ndl full
    have hpar : getParent (some A) ⟨hp, nm, rs, nl, ndl, full⟩ =
        (.ok (some r), ⟨hp, nm, rs, nl, ndl, full⟩) :=
      getParent_child (st := ⟨hp, nm, rs, nl, ndl, full⟩) (up := .top) hA aA (CtxRepr.top hr ar)
        (by simp)
    refine ⟨h4'.modify r (fun x => { x with aunt := none }), A, B, fA, fB, lA, lB,
      ea ▸ subA, eb ▸ subB, efp, elv, ?_, eb ▸ hroot', ?_, by simp [hsz]⟩
    · -- execution
      unfold deleteSingle
      simp only [bind_apply, hget', hpar, rd, deref_some, node_apply, hA, hr, ar, hB, setNode_apply]
      rw [x2]
      simp only []
      rw [x3]
      simp only []
      rw [x4]
      simp only [hP3, nodeMapGet_apply]
      have hdata_b : bn.data = b.hash := by
        obtain ⟨z, ez, dz⟩ := subB.hash; rw [hB] at ez; cases ez; exact dz
      have hdata_a : an.data = a.hash := by
        obtain ⟨z, ez, dz⟩ := subA.hash; rw [hA] at ez; cases ez; exact dz
      by_cases hf : (mapGet nm bn.data).isSome = true
      · simp only [hf, if_true, nodeMapSet_apply, hA3, nodeMapDel_apply, pure_apply, bind_apply, rd,
          deref_some, node_apply]
        rw [x5]
        simp only [getNumLeaves_apply, hroot, if_true, setNode_apply, bind_apply, deref_some]
        unfold mapMoveTo
        rw [← eb, ← ea, ← hdata_b, ← hdata_a, if_pos hf]
      · simp only [hf, if_false, hA3, nodeMapDel_apply, pure_apply, Bool.false_eq_true, bind_apply, rd,
          deref_some, node_apply]
        rw [x5]
        simp only [getNumLeaves_apply, hroot, if_true, setNode_apply, bind_apply, deref_some]
        unfold mapMoveTo
        rw [← eb, ← ea, ← hdata_b, ← hdata_a, if_neg hf]
    · intro j hj
      apply hframe j
      intro hmem
      apply hj
      rw [efp]
      simp only [List.mem_cons, List.mem_append] at hmem ⊢
      cases d <;> simp only [if_true, if_false, Bool.false_eq_true, List.mem_cons, List.mem_append] <;>
        grind

/-- `bind` whose first component is given as a bare state function -/
theorem bind_fun_ok {α β} (g : Pollard H → Out α × Pollard H) (f : α → PM H β) (s : Pollard H)
    (a : α) (s' : Pollard H) (h : g s = (.ok a, s')) :
    (@bind (PM H) _ _ _ (g : PM H α) f) s = f a s' := by
  show (match g s with
    | (.ok a, s') => f a s'
    | (.err, s') => (.err, s')
    | (.panic, s') => (.panic, s')
    | (.hang, s') => (.hang, s')) = _
  rw [h]

/-- the tail of `deleteSingle` when the parent of the deleted node is not a root: whatever the
heap `h5` (equal to the heap after the surgery except at the detached old parent `P`),
`hashToRoot'` from the grand-parent finishes the job -/
theorem hashToRoot'_ctx {root : Nat} (ctx : CCtx H) (st : Pollard H) (c hc : Nat) (fpc : List Nat)
    (l1 l2 : List (H × Nat)) (a b : CTree H) (fp : List Nat) (lv : List (H × Nat))
    (h : CtxRepr st.heap root ctx c hc fpc l1 l2) (k : KidsRepr st.heap c hc a b fp lv)
    (nd : (root :: fpc ++ fp).Nodup) :
    ∃ hp', hashToRoot' (some c) st = (.ok (), { st with heap := hp' }) ∧
      hp'.size = st.heap.size ∧
      (∀ i, i ∉ root :: fpc → hp'[i]? = st.heap[i]?) ∧
      (∃ rn, hp'[root]? = some rn ∧ rn.aunt = none) ∧
      ∃ fp', Sub hp' root root (ctx.plug (.node a b)) fp' (l1 ++ lv ++ l2) ∧
        fp'.Perm (fpc ++ fp) := by
  have hd := h.depth_le
  have nd0 : (root :: fpc).Nodup := by
    have := nd; rw [List.cons_append] at this
    simp only [List.nodup_cons, List.nodup_append, List.mem_append, not_or] at this ⊢
    exact ⟨this.1.1, this.2.1⟩
  have hlen := nodup_length_le nd0 h.lt
  simp only [List.length_cons] at hlen
  unfold hashToRoot'
  simp only [bind_apply, heapSize_apply]
  exact hashToRoot_ctx ctx st c hc fpc l1 l2 a b fp lv (st.heap.size + 1) h k nd (by omega)

theorem deleteSingle_aunt_core {hp : Heap H} {nm : List (H × Nat)} {rs : List Nat} {nl ndl : U64}
    {full : Bool} {r : Nat} {up : CCtx H} {G HG : Nat} {fpu : List Nat} {l1u l2u : List (H × Nat)}
    {A B P S : Nat} {an bn pn sn hgn : PolNode H} {a b ts : CTree H} {fa fb fs : List Nat}
    {la lb ls : List (H × Nat)} (pl : Bool)
    (hu : CtxRepr hp r up G HG fpu l1u l2u)
    (hA : hp[A]? = some an) (hB : hp[B]? = some bn) (hP : hp[P]? = some pn)
    (hS : hp[S]? = some sn) (hHG : hp[HG]? = some hgn)
    (aA : an.aunt = some S) (aB : bn.aunt = some S) (aP : pn.aunt = some HG) (aS : sn.aunt = some HG)
    (kS : (sn.lNiece = some A ∧ sn.rNiece = some B) ∨ (sn.lNiece = some B ∧ sn.rNiece = some A))
    (kHG : if pl then (hgn.lNiece = some P ∧ hgn.rNiece = some S)
      else (hgn.lNiece = some S ∧ hgn.rNiece = some P))
    (subA : Sub hp A B a fa la) (subB : Sub hp B A b fb lb) (subS : Sub hp S P ts fs ls)
    (nd : (r :: (fpu ++ (P :: S :: A :: B :: (fa ++ fb ++ fs)))).Nodup)
    (del : U64) (par : Ptr)
    (hget : getNode (sibling del) ⟨hp, nm, rs, nl, ndl, full⟩ =
      (.ok (some B, some A, par), ⟨hp, nm, rs, nl, ndl, full⟩))
    (hroot : isRootPosition (Parent del (TreeRows nl)) nl = false) :
    ∃ hp' fp', deleteSingle del ⟨hp, nm, rs, nl, ndl, full⟩ =
        (.ok (), ⟨hp', mapDel nm a.hash, rs, nl, ndl, full⟩) ∧
      RootRepr hp' r (up.plug (if pl then .node b ts else .node ts b)) fp'
        (l1u ++ (if pl then lb ++ ls else ls ++ lb) ++ l2u) ∧
      fp'.Perm (fpu ++ (B :: S :: (fb ++ fs))) ∧
      (∀ j, j ∉ r :: (fpu ++ (P :: S :: A :: B :: (fa ++ fb ++ fs))) → hp'[j]? = hp[j]?) ∧
      hp'.size = hp.size := by
  -- distinctness
  have ndx := nd
  simp only [List.nodup_cons, List.mem_cons, List.mem_append, not_or, List.nodup_append] at ndx
  obtain ⟨⟨hrfpu, hrP, hrS, hrA, hrB, ⟨hrfa, hrfb⟩, hrfs⟩, ndfpu,
    ⟨⟨nPS, nPA, nPB, ⟨nPfa, nPfb⟩, nPfs⟩, ⟨nSA, nSB, ⟨nSfa, nSfb⟩, nSfs⟩, ⟨nAB, ⟨nAfa, nAfb⟩, nAfs⟩,
      ⟨⟨nBfa, nBfb⟩, nBfs⟩, ⟨ndfa, ndfb, dab⟩, ndfs, dabs⟩, dfpu⟩ := ndx
  have ndu : (r :: fpu).Nodup := List.nodup_cons.2 ⟨hrfpu, ndfpu⟩
  -- nodes of the upper context are none of the nodes below
  have hup : ∀ i ∈ r :: fpu, i ≠ P ∧ i ≠ S ∧ i ≠ A ∧ i ≠ B ∧ i ∉ fa ∧ i ∉ fb ∧ i ∉ fs := by
    intro i hi
    simp only [List.mem_cons] at hi
    rcases hi with rfl | hi
    · exact ⟨hrP, hrS, hrA, hrB, hrfa, hrfb, hrfs⟩
    · have := dfpu i hi
      refine ⟨fun e => this i (by simp [e]) rfl, fun e => this i (by simp [e]) rfl,
        fun e => this i (by simp [e]) rfl, fun e => this i (by simp [e]) rfl,
        fun e => this i (by simp [e]) rfl, fun e => this i (by simp [e]) rfl,
        fun e => this i (by simp [e]) rfl⟩
  obtain ⟨nHGP, nHGS, nHGA, nHGB, nHGfa, nHGfb, nHGfs⟩ := hup HG hu.holder_mem
  obtain ⟨nGP, nGS, nGA, nGB, nGfa, nGfb, nGfs⟩ := hup G hu.node_mem
  have ndS : (HG :: P :: S :: A :: B :: (fa ++ fb ++ fs)).Nodup := by
    simp only [List.nodup_cons, List.mem_cons, List.mem_append, not_or, List.nodup_append]
    exact ⟨⟨nHGP, nHGS, nHGA, nHGB, ⟨nHGfa, nHGfb⟩, nHGfs⟩, ⟨nPS, nPA, nPB, ⟨nPfa, nPfb⟩, nPfs⟩,
      ⟨nSA, nSB, ⟨nSfa, nSfb⟩, nSfs⟩, ⟨nAB, ⟨nAfa, nAfb⟩, nAfs⟩, ⟨⟨nBfa, nBfb⟩, nBfs⟩,
      ⟨ndfa, ndfb, dab⟩, ndfs, dabs⟩
  have kHG' : (hgn.lNiece = some P ∧ hgn.rNiece = some S) ∨ (hgn.lNiece = some S ∧ hgn.rNiece = some P) := by
    cases pl
    · exact Or.inr (by simpa using kHG)
    · exact Or.inl (by simpa using kHG)
  obtain ⟨h1, h2, h3, h4, x1, x2, x3, hP3, x4, hA3, x5, hsz4, hframe4, hfa4, hHG4, hP4,
    ⟨xB, hB4, aB4, dB4⟩, ⟨xS, hS4, aS4, dS4⟩, subB4, subS4⟩ :=
    surgeryAunt hA hB hP hS hHG aA aB aP aS kS kHG' subA subB subS ndS nm rs nl ndl full
  -- `getParent(fromNodeSib)` = the parent `P`
  have hparA : getParent (some A) ⟨hp, nm, rs, nl, ndl, full⟩ =
      (.ok (some P), ⟨hp, nm, rs, nl, ndl, full⟩) := by
    unfold getParent rd
    cases pl
    · simp only [Bool.false_eq_true, if_false] at kHG
      simp [hA, aA, hS, aS, hHG, kHG.1, kHG.2]
    · simp only [if_true] at kHG
      have : hgn.lNiece ≠ some S := by rw [kHG.1]; intro e; cases e; exact nPS rfl
      simp [hA, aA, hS, aS, hHG, kHG.1, kHG.2, nPS]
  have hdata_a : an.data = a.hash := by
    obtain ⟨z, ez, dz⟩ := subA.hash; rw [hA] at ez; cases ez; exact dz
  -- the upper context after the surgery
  have hu4 : CtxRepr h4 r up G HG fpu l1u l2u := by
    apply hu.frame_holder ndu
    · intro i hi hne
      obtain ⟨i1, i2, i3, i4, i5, i6, i7⟩ := hup i hi
      apply hframe4
      simp only [List.mem_cons, List.mem_append, not_or]
      exact ⟨hne, i1, i2, i3, i4, ⟨i5, i6⟩, i7⟩
    · intro x hx
      rw [hHG] at hx; cases hx
      refine ⟨_, hHG4, ?_, ?_⟩ <;> (unfold replK; split <;> rfl)
  have hparP : ∀ nm', getParent (some P) ⟨h4, nm', rs, nl, ndl, full⟩ =
      (.ok (some G), ⟨h4, nm', rs, nl, ndl, full⟩) := fun nm' =>
    getParent_child (st := ⟨h4, nm', rs, nl, ndl, full⟩) hP4 aP hu4 ndu
  obtain ⟨sibG, hsib⟩ := getSibling_ctx (st := ⟨h4, mapDel nm an.data, rs, nl, ndl, full⟩) hu4 ndu
  -- the heap after the garbage writes to `P`
  obtain ⟨h5, h5_def⟩ : ∃ h5 : Heap H, h5 = (if sibG.isNone
      then (h4.modify P (fun x => { x with aunt := sibG })).modify P (fun x => { x with aunt := some G })
      else h4.modify P (fun x => { x with aunt := sibG })) := ⟨_, rfl⟩
  have e5 : ∀ j, j ≠ P → h5[j]? = h4[j]? := by
    intro j hj
    rw [h5_def]
    split <;> simp [Array.getElem?_modify, Ne.symm hj]
  have hsz5 : h5.size = hp.size := by
    rw [h5_def]; split <;> simp [hsz4]
  have hu5 : CtxRepr h5 r up G HG fpu l1u l2u :=
    hu4.frame (fun i hi => e5 i (hup i hi).1)
  -- the children of the grand-parent
  have kids5 : KidsRepr h5 G HG (if pl then b else ts) (if pl then ts else b)
      (if pl then B :: S :: (fb ++ fs) else S :: B :: (fs ++ fb))
      (if pl then lb ++ ls else ls ++ lb) := by
    have hB5 : h5[B]? = some xB := (e5 B (Ne.symm nPB)).trans hB4
    have hS5 : h5[S]? = some xS := (e5 S (Ne.symm nPS)).trans hS4
    have hHG5 : h5[HG]? = some (replK hgn P B) := (e5 HG nHGP).trans hHG4
    have subB5 : Sub h5 B S b fb lb := by
      apply subB4.frame
      · intro x hx; exact ⟨x, (e5 B (Ne.symm nPB)).trans hx, rfl⟩
      · intro x hx; exact ⟨x, (e5 S (Ne.symm nPS)).trans hx, rfl, rfl⟩
      · intro i hi; exact e5 i (fun e => nPfb (e ▸ hi))
    have subS5 : Sub h5 S B ts fs ls := by
      apply subS4.frame
      · intro x hx; exact ⟨x, (e5 S (Ne.symm nPS)).trans hx, rfl⟩
      · intro x hx; exact ⟨x, (e5 B (Ne.symm nPB)).trans hx, rfl, rfl⟩
      · intro i hi; exact e5 i (fun e => nPfs (e ▸ hi))
    cases pl
    · simp only [Bool.false_eq_true, if_false] at kHG ⊢
      have hne : hgn.lNiece ≠ some P := by rw [kHG.1]; intro e; cases e; exact nPS rfl
      refine ⟨S, B, _, xS, xB, fs, fb, ls, lb, hHG5, ?_, ?_, hS5, hB5, aS4, aB4, subS5, subB5, rfl, rfl⟩
      · unfold replK; rw [if_neg hne]; exact kHG.1
      · unfold replK; rw [if_neg hne]
    · simp only [if_true] at kHG ⊢
      refine ⟨B, S, _, xB, xS, fb, fs, lb, ls, hHG5, ?_, ?_, hB5, hS5, aB4, aS4, subB5, subS5, rfl, rfl⟩
      · unfold replK; rw [if_pos kHG.1]
      · unfold replK; rw [if_pos kHG.1]; exact kHG.2
  have nd5 : (r :: fpu ++ (if pl then B :: S :: (fb ++ fs) else S :: B :: (fs ++ fb))).Nodup := by
    rw [List.nodup_iff_count] at nd ⊢
    intro x
    have := nd x
    cases pl <;>
      simp only [List.count_cons, List.count_append, List.cons_append, if_true, if_false,
        Bool.false_eq_true] at this ⊢ <;> omega
  obtain ⟨hp', g1, g2, g3, ⟨rn', g4a, g4b⟩, fp', g5, g6⟩ := hashToRoot'_ctx up
    ⟨h5, mapDel nm an.data, rs, nl, ndl, full⟩ G HG fpu l1u l2u _ _ _ _ hu5 kids5 nd5
  refine ⟨hp', fp', ?_, ⟨⟨rn', g4a, g4b⟩, ?_⟩, ?_, ?_, by rw [g2]; exact hsz5⟩
  · -- execution
    unfold deleteSingle
    simp only [bind_apply, hget, hparA, rd, deref_some, node_apply, hA, hP, aP, aA,
      ignoreErr_ok x1]
    rw [x2]
    simp only []
    rw [x3]
    simp only [hP3, aP]
    rw [x4]
    simp only [hA3, nodeMapDel_apply]
    rw [x5]
    simp only [getNumLeaves_apply, hroot, Bool.false_eq_true, if_false, hparP, bind_apply, deref_some]
    refine (bind_fun_ok _ _ _ (sibG, false) ⟨h4, mapDel nm an.data, rs, nl, ndl, full⟩ ?_).trans ?_
    · show (match getSibling (some G) ⟨h4, mapDel nm an.data, rs, nl, ndl, full⟩ with
        | (.ok a, s') => ((.ok (a, false), s') : Out (Ptr × Bool) × Pollard H)
        | (.err, s') => (.ok (none, true), s')
        | (.panic, s') => (.panic, s')
        | (.hang, s') => (.hang, s')) = _
      rw [hsib]
    rw [← hdata_a]
    cases hx : sibG with
    | none =>
      rw [hx] at h5_def
      simp only [Option.isNone_none, if_true] at h5_def
      simp only [setNode_apply, bind_apply, Bool.false_eq_true, if_false, node_apply,
        Array.getElem?_modify, if_true, hP4, Option.map_some, Option.isNone_none]
      rw [← h5_def]
      exact g1
    | some q =>
      rw [hx] at h5_def
      simp only [Option.isNone_some, Bool.false_eq_true, if_false] at h5_def
      simp only [setNode_apply, bind_apply, Bool.false_eq_true, if_false, node_apply,
        Array.getElem?_modify, if_true, hP4, Option.map_some, Option.isNone_some]
      rw [← h5_def]
      exact g1
  · cases pl
    · simpa using g5
    · simpa using g5
  · refine g6.trans ?_
    cases pl
    · simp only [Bool.false_eq_true, if_false]; perm_count
    · simp only [if_true]; exact List.Perm.refl _
  · intro j hj
    simp only [List.mem_cons, List.mem_append, not_or] at hj
    obtain ⟨j1, j2, j3, j4, j5, j6, ⟨j7, j8⟩, j9⟩ := hj
    rw [g3 j (by simp only [List.mem_cons, not_or]; exact ⟨j1, j2⟩)]
    show h5[j]? = hp[j]?
    rw [e5 j j3]
    apply hframe4
    have : j ≠ HG := by
      intro e
      have := hu.holder_mem
      rw [← e] at this
      simp only [List.mem_cons] at this
      rcases this with h | h
      · exact j1 h
      · exact j2 h
    simp only [List.mem_cons, List.mem_append, not_or]
    exact ⟨this, j3, j4, j5, j6, ⟨j7, j8⟩, j9⟩

/-- **`deleteSingle`, the parent is not the root**: the node at child path `π1 ++ [d]` of a
represented tree is deleted; its sibling takes the place of the parent -/
theorem deleteSingle_tree_aunt {hp : Heap H} {nm : List (H × Nat)} {rs : List Nat} {nl ndl : U64}
    {full : Bool} {r : Nat} {t : CTree H} {fp : List Nat} {lv : List (H × Nat)} (π1 : List Bool)
    (d : Bool) (a : CTree H)
    (hR : RootRepr hp r t fp lv) (nd : (r :: fp).Nodup) (hne : π1 ≠ [])
    (hpath : childPath t (π1 ++ [d]) = some a) (del : U64)
    (hget : ∀ A B, walkChild hp r r (π1 ++ [d]) = some (A, B) →
      ∃ par, getNode (sibling del) ⟨hp, nm, rs, nl, ndl, full⟩ =
        (.ok (some B, some A, par), ⟨hp, nm, rs, nl, ndl, full⟩))
    (hroot : isRootPosition (Parent del (TreeRows nl)) nl = false) :
    ∃ (hp' : Heap H) (ctx : CCtx H) (b : CTree H) (fp' : List Nat) (pre la post : List (H × Nat)),
      t = ctx.plug (if d then .node b a else .node a b) ∧ ctx.depth = π1.length ∧
      lv = pre ++ la ++ post ∧ la.map (·.1) = a.leaves ∧
      deleteSingle del ⟨hp, nm, rs, nl, ndl, full⟩ =
        (.ok (), ⟨hp', mapDel nm a.hash, rs, nl, ndl, full⟩) ∧
      RootRepr hp' r (ctx.plug b) fp' (pre ++ post) ∧ (r :: fp').Nodup ∧ (∀ i ∈ fp', i ∈ fp) ∧
      (∀ j, j ∉ r :: fp → hp'[j]? = hp[j]?) ∧ hp'.size = hp.size := by
  obtain ⟨⟨rn, hr, ar⟩, hs⟩ := hR
  -- the parent `P`
  rw [childPath_append] at hpath
  cases hP0 : childPath t π1 with
  | none => rw [hP0] at hpath; cases hpath
  | some tP =>
    rw [hP0] at hpath
    simp only [Option.bind_some] at hpath
    obtain ⟨ctxP, P, S, fP, lP, fpcP, l1, l2, hctx, subP, eplug, hperm, elv, hwalk, hdepth, hrevP⟩ :=
      Sub.zoom π1 .top r r t fp lv [] [] [] tP (CtxRepr.top hr ar) hs hP0
    simp only [CCtx.plug, List.nil_append, List.append_nil, CCtx.depth, Nat.zero_add] at eplug hperm elv hdepth
    cases subP with
    | leaf => simp [childPath, child] at hpath
    | node q1 q2 q3 q4 q5 q6 q7 q8 q9 sx sy =>
      rename_i l r' pn sn ln rn' x y fx fy lx ly
      -- A = the node deleted, B = its sibling
      obtain ⟨A, B, an, bn, b, fa, fb, la, lb, hA, hB, aA, aB, subA, subB, etP, kS, efp, elv', hw⟩ :
          ∃ (A B : Nat) (an bn : PolNode H) (b : CTree H) (fa fb : List Nat) (la lb : List (H × Nat)),
            hp[A]? = some an ∧ hp[B]? = some bn ∧ an.aunt = some S ∧ bn.aunt = some S ∧
            Sub hp A B a fa la ∧ Sub hp B A b fb lb ∧
            CTree.node x y = (if d then .node b a else .node a b) ∧
            ((sn.lNiece = some A ∧ sn.rNiece = some B) ∨ (sn.lNiece = some B ∧ sn.rNiece = some A)) ∧
            (l :: r' :: (fx ++ fy)).Perm (A :: B :: (fa ++ fb)) ∧
            lx ++ ly = (if d then lb ++ la else la ++ lb) ∧ walkChild hp P S [d] = some (A, B) := by
        cases d with
        | false =>
          simp only [childPath, child, Option.some.injEq] at hpath
          subst hpath
          exact ⟨l, r', ln, rn', y, fx, fy, lx, ly, q6, q7, q8, q9, sx, sy, rfl, Or.inl ⟨q4, q5⟩,
            List.Perm.refl _, rfl, by simp [walkChild, q3, q4, q5]⟩
        | true =>
          simp only [childPath, child, Option.some.injEq] at hpath
          subst hpath
          exact ⟨r', l, rn', ln, x, fy, fx, ly, lx, q7, q6, q9, q8, sy, sx, rfl, Or.inr ⟨q4, q5⟩,
            by perm_count, rfl, by simp [walkChild, q3, q4, q5]⟩
      have hwAB : walkChild hp r r (π1 ++ [d]) = some (A, B) := by
        rw [walkChild_append, hwalk]; exact hw
      obtain ⟨par, hget'⟩ := hget A B hwAB
      have hlaL : la.map (·.1) = a.leaves := subA.leaves
      cases hctx with
      | top h1 h2 =>
        simp only [CCtx.depth] at hdepth
        exact absurd (List.length_eq_zero_iff.mp hdepth.symm) hne
      | left hu h1 h2 h3 h4 h5 h6 h7 hsS =>
        rename_i up G HG hgn pn' sn' ts fs fpu ls l2u
        rw [q1] at h4; cases h4
        rw [q3] at h5; cases h5
        have ndc : (r :: (fpu ++ (P :: S :: A :: B :: (fa ++ fb ++ fs)))).Nodup := by
          rw [List.nodup_iff_count] at nd ⊢
          intro z
          have h1 := nd z
          have h2 := List.perm_iff_count.1 hperm z
          have h3 := List.perm_iff_count.1 efp z
          simp only [List.count_cons, List.count_append] at h1 h2 h3 ⊢
          omega
        obtain ⟨hp', fp', g1, g2, g3, g4, g5⟩ := deleteSingle_aunt_core (a := a) (b := b) true hu hA hB q1 q3 h1
          aA aB h6 h7 kS (by simp only [if_true]; exact ⟨h2, h3⟩) subA subB hsS ndc del par hget' hroot
        simp only [if_true] at g2
        have hmem : ∀ i ∈ fp', i ∈ fp := by
          intro i hi
          have c1 := List.perm_iff_count.1 g3 i
          have c2 := List.perm_iff_count.1 hperm i
          have c3 := List.perm_iff_count.1 efp i
          have : 0 < List.count i fp' := List.count_pos_iff.2 hi
          apply List.count_pos_iff.1
          simp only [List.count_cons, List.count_append] at c1 c2 c3 ⊢
          omega
        refine ⟨hp', .left up ts, b, fp', ?_, la, ?_, ?_, ?_, ?_, hlaL, g1, ?_, ?_, hmem, ?_, g5⟩
        · exact if d then l1 ++ lb else l1
        · exact if d then ls ++ l2u else lb ++ (ls ++ l2u)
        · rw [← eplug, etP]
        · simp only [CCtx.depth] at hdepth; simp [CCtx.depth, hdepth]
        · rw [← elv, elv']; cases d <;> simp [List.append_assoc]
        · have : l1 ++ (lb ++ ls) ++ l2u =
              (if d then l1 ++ lb else l1) ++ (if d then ls ++ l2u else lb ++ (ls ++ l2u)) := by
            cases d <;> simp [List.append_assoc]
          rw [← this]; simpa [CCtx.plug] using g2
        · rw [List.nodup_iff_count] at nd ⊢
          intro z
          have h1 := nd z
          have c1 := List.perm_iff_count.1 g3 z
          have c2 := List.perm_iff_count.1 hperm z
          have c3 := List.perm_iff_count.1 efp z
          simp only [List.count_cons, List.count_append] at h1 c1 c2 c3 ⊢
          omega
        · intro j hj
          apply g4
          intro hm
          apply hj
          have c2 := List.perm_iff_count.1 hperm j
          have c3 := List.perm_iff_count.1 efp j
          simp only [List.mem_cons] at hm ⊢
          rcases hm with hm | hm
          · exact Or.inl hm
          · right
            have : 0 < List.count j (fpu ++ (P :: S :: A :: B :: (fa ++ fb ++ fs))) :=
              List.count_pos_iff.2 hm
            apply List.count_pos_iff.1
            simp only [List.count_cons, List.count_append] at c2 c3 this ⊢
            omega
      | right hu h1 h2 h3 h4 h5 h6 h7 hsS =>
        rename_i up G HG hgn pn' sn' ts fs fpu ls l1u
        rw [q1] at h4; cases h4
        rw [q3] at h5; cases h5
        have ndc : (r :: (fpu ++ (P :: S :: A :: B :: (fa ++ fb ++ fs)))).Nodup := by
          rw [List.nodup_iff_count] at nd ⊢
          intro z
          have h1 := nd z
          have h2 := List.perm_iff_count.1 hperm z
          have h3 := List.perm_iff_count.1 efp z
          simp only [List.count_cons, List.count_append] at h1 h2 h3 ⊢
          omega
        obtain ⟨hp', fp', g1, g2, g3, g4, g5⟩ := deleteSingle_aunt_core (a := a) (b := b) false hu hA hB q1 q3 h1
          aA aB h6 h7 kS (by simp only [Bool.false_eq_true, if_false]; exact ⟨h2, h3⟩) subA subB hsS ndc
          del par hget' hroot
        simp only [Bool.false_eq_true, if_false] at g2
        have hmem : ∀ i ∈ fp', i ∈ fp := by
          intro i hi
          have c1 := List.perm_iff_count.1 g3 i
          have c2 := List.perm_iff_count.1 hperm i
          have c3 := List.perm_iff_count.1 efp i
          have : 0 < List.count i fp' := List.count_pos_iff.2 hi
          apply List.count_pos_iff.1
          simp only [List.count_cons, List.count_append] at c1 c2 c3 ⊢
          omega
        refine ⟨hp', .right ts up, b, fp', ?_, la, ?_, ?_, ?_, ?_, hlaL, g1, ?_, ?_, hmem, ?_, g5⟩
        · exact if d then l1u ++ ls ++ lb else l1u ++ ls
        · exact if d then l2 else lb ++ l2
        · rw [← eplug, etP]
        · simp only [CCtx.depth] at hdepth; simp [CCtx.depth, hdepth]
        · rw [← elv, elv']; cases d <;> simp [List.append_assoc]
        · have : l1u ++ (ls ++ lb) ++ l2 =
              (if d then l1u ++ ls ++ lb else l1u ++ ls) ++ (if d then l2 else lb ++ l2) := by
            cases d <;> simp [List.append_assoc]
          rw [← this]; simpa [CCtx.plug] using g2
        · rw [List.nodup_iff_count] at nd ⊢
          intro z
          have h1 := nd z
          have c1 := List.perm_iff_count.1 g3 z
          have c2 := List.perm_iff_count.1 hperm z
          have c3 := List.perm_iff_count.1 efp z
          simp only [List.count_cons, List.count_append] at h1 c1 c2 c3 ⊢
          omega
        · intro j hj
          apply g4
          intro hm
          apply hj
          have c2 := List.perm_iff_count.1 hperm j
          have c3 := List.perm_iff_count.1 efp j
          simp only [List.mem_cons] at hm ⊢
          rcases hm with hm | hm
          · exact Or.inl hm
          · right
            have : 0 < List.count j (fpu ++ (P :: S :: A :: B :: (fa ++ fb ++ fs))) :=
              List.count_pos_iff.2 hm
            apply List.count_pos_iff.1
            simp only [List.count_cons, List.count_append] at c2 c3 this ⊢
            omega

end UtreexoVerif.Proofs.PollardHeap
