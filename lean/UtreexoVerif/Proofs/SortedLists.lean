/-
  Strictly sorted lists (helper lemmas for the completeness proof of `calculateHashes`).

  * a strictly sorted list is determined by its members (`eq_of_sorted_of_mem_iff`);
  * the specification's `insertSorted`/`sortDedup` produce the strictly sorted list of the
    members (`PLt` = `posLt` as a `Prop`);
  * the model's stable insertion sort `sortBy` produces a strictly sorted list when the keys
    are pairwise different;
  * `mergeHP` of the two complementary parts of a strictly sorted list is the list.
-/
import UtreexoVerif.Spec.Forest
import UtreexoVerif.Model.HashAndPos

namespace UtreexoVerif.Proofs.Sorted
open UtreexoVerif Spec Model

/-! ### strictly sorted lists are determined by their members -/

theorem eq_of_sorted_of_mem_iff {α : Type} {R : α → α → Prop}
    (irrefl : ∀ a, ¬ R a a) (trans : ∀ a b c, R a b → R b c → R a c) :
    ∀ (l1 l2 : List α), l1.Pairwise R → l2.Pairwise R → (∀ x, x ∈ l1 ↔ x ∈ l2) → l1 = l2 := by
  intro l1
  induction l1 with
  | nil =>
    intro l2 _ _ h
    cases l2 with
    | nil => rfl
    | cons b t => exact absurd ((h b).2 (by simp)) (by simp)
  | cons a t1 ih =>
    intro l2 h1 h2 h
    cases l2 with
    | nil => exact absurd ((h a).1 (by simp)) (by simp)
    | cons b t2 =>
      rw [List.pairwise_cons] at h1 h2
      have hab : a = b := by
        rcases List.mem_cons.1 ((h a).1 (by simp)) with e | ha
        · exact e
        · rcases List.mem_cons.1 ((h b).2 (by simp)) with e | hb
          · exact e.symm
          · exact absurd (trans _ _ _ (h1.1 b hb) (h2.1 a ha)) (irrefl a)
      subst hab
      congr 1
      apply ih t2 h1.2 h2.2
      intro x
      constructor
      · intro hx
        rcases List.mem_cons.1 ((h x).1 (List.mem_cons_of_mem _ hx)) with e | hx'
        · subst e; exact absurd (h1.1 x hx) (irrefl x)
        · exact hx'
      · intro hx
        rcases List.mem_cons.1 ((h x).2 (List.mem_cons_of_mem _ hx)) with e | hx'
        · subst e; exact absurd (h2.1 x hx) (irrefl x)
        · exact hx'

/-- on a list whose images under `f` are pairwise different, `f` is injective -/
theorem inj_of_pairwise_ne {α β : Type} (f : α → β) :
    ∀ (l : List α), l.Pairwise (fun a b => f a ≠ f b) → ∀ a ∈ l, ∀ b ∈ l, f a = f b → a = b := by
  intro l
  induction l with
  | nil => intro _ a ha; simp at ha
  | cons x t ih =>
    intro hp a ha b hb hab
    rw [List.pairwise_cons] at hp
    rcases List.mem_cons.1 ha with rfl | ha' <;> rcases List.mem_cons.1 hb with rfl | hb'
    · rfl
    · exact absurd hab (hp.1 b hb')
    · exact absurd hab.symm (hp.1 a ha')
    · exact ih hp.2 a ha' b hb' hab

/-! ### the order on positions -/

/-- `posLt` as a proposition: by row, then by offset -/
def PLt (a b : Pos) : Prop := a.1 < b.1 ∨ (a.1 = b.1 ∧ a.2 < b.2)

theorem posLt_iff (a b : Pos) : Forest.posLt a b = true ↔ PLt a b := by
  unfold Forest.posLt PLt
  simp

theorem PLt.irrefl (a : Pos) : ¬ PLt a a := by
  unfold PLt; omega

theorem PLt.trans (a b c : Pos) (h1 : PLt a b) (h2 : PLt b c) : PLt a c := by
  unfold PLt at *; omega

theorem PLt.asymm {a b : Pos} (h1 : PLt a b) (h2 : PLt b a) : False := by
  unfold PLt at *; omega

theorem PLt.tri (a b : Pos) : a = b ∨ PLt a b ∨ PLt b a := by
  obtain ⟨a1, a2⟩ := a
  obtain ⟨b1, b2⟩ := b
  unfold PLt
  simp only [Prod.mk.injEq]
  omega

theorem PLt.ne {a b : Pos} (h : PLt a b) : a ≠ b := by
  intro e; subst e; exact PLt.irrefl a h

/-- strictly sorted lists of positions with the same members are equal -/
theorem eq_of_psorted {l1 l2 : List Pos} (h1 : l1.Pairwise PLt) (h2 : l2.Pairwise PLt)
    (h : ∀ x, x ∈ l1 ↔ x ∈ l2) : l1 = l2 :=
  eq_of_sorted_of_mem_iff PLt.irrefl PLt.trans l1 l2 h1 h2 h

/-- in a strictly sorted list starting with `m`, everything else is above `m` -/
theorem head_lt {m : Pos} {S : List Pos} (h : (m :: S).Pairwise PLt) : ∀ x ∈ S, PLt m x :=
  (List.pairwise_cons.1 h).1

theorem not_mem_tail {m : Pos} {S : List Pos} (h : (m :: S).Pairwise PLt) : m ∉ S :=
  fun hm => PLt.irrefl m (head_lt h m hm)

/-! ### `insertSorted`, `sortDedup` -/

theorem mem_insertSorted (p x : Pos) (l : List Pos) :
    x ∈ Forest.insertSorted p l ↔ x = p ∨ x ∈ l := by
  induction l with
  | nil => simp [Forest.insertSorted]
  | cons q qs ih =>
    unfold Forest.insertSorted
    split
    · simp
    · split
      · rename_i hpq
        have : p = q := by simpa using hpq
        subst this
        simp
      · simp only [List.mem_cons, ih]
        constructor
        · rintro (h | h | h) <;> simp [h]
        · rintro (h | h | h) <;> simp [h]

theorem insertSorted_sorted (p : Pos) (l : List Pos) (hl : l.Pairwise PLt) :
    (Forest.insertSorted p l).Pairwise PLt := by
  induction l with
  | nil => simp [Forest.insertSorted]
  | cons q qs ih =>
    unfold Forest.insertSorted
    have hq := List.pairwise_cons.1 hl
    split
    · rename_i hpq
      have hpq' := (posLt_iff p q).1 hpq
      rw [List.pairwise_cons]
      refine ⟨?_, hl⟩
      intro x hx
      rcases List.mem_cons.1 hx with rfl | hx
      · exact hpq'
      · exact PLt.trans _ _ _ hpq' (hq.1 x hx)
    · rename_i hnlt
      split
      · exact hl
      · rename_i hne
        have hne' : p ≠ q := by simpa using hne
        have hqp : PLt q p := by
          rcases PLt.tri p q with e | h | h
          · exact absurd e hne'
          · exact absurd ((posLt_iff p q).2 h) hnlt
          · exact h
        rw [List.pairwise_cons]
        refine ⟨?_, ih hq.2⟩
        intro x hx
        rcases (mem_insertSorted p x qs).1 hx with rfl | hx
        · exact hqp
        · exact hq.1 x hx

theorem mem_sortDedup (x : Pos) (l : List Pos) : x ∈ Forest.sortDedup l ↔ x ∈ l := by
  unfold Forest.sortDedup
  induction l with
  | nil => simp
  | cons a l ih =>
    simp only [List.foldr_cons, mem_insertSorted, ih, List.mem_cons]

theorem sortDedup_sorted (l : List Pos) : (Forest.sortDedup l).Pairwise PLt := by
  unfold Forest.sortDedup
  induction l with
  | nil => simp
  | cons a l ih =>
    simp only [List.foldr_cons]
    exact insertSorted_sorted a _ ih

theorem sortDedup_eq_self {l : List Pos} (h : l.Pairwise PLt) : Forest.sortDedup l = l :=
  eq_of_psorted (sortDedup_sorted l) h (fun x => mem_sortDedup x l)

/-! ### the stable insertion sort with pairwise different keys -/

section
variable {α : Type}

theorem mem_insertBy (key : α → U64) (x y : α) (l : List α) :
    y ∈ insertBy key x l ↔ y = x ∨ y ∈ l := by
  induction l with
  | nil => simp [insertBy]
  | cons a l ih =>
    unfold insertBy
    split
    · simp
    · simp only [List.mem_cons, ih]
      constructor
      · rintro (h | h | h) <;> simp [h]
      · rintro (h | h | h) <;> simp [h]

theorem insertBy_sorted (key : α → U64) (x : α) (l : List α)
    (hl : l.Pairwise (fun a b => key a < key b)) (hx : ∀ y ∈ l, key x ≠ key y) :
    (insertBy key x l).Pairwise (fun a b => key a < key b) := by
  induction l with
  | nil => simp [insertBy]
  | cons a l ih =>
    unfold insertBy
    have ha := List.pairwise_cons.1 hl
    split
    · rename_i hlt
      rw [List.pairwise_cons]
      refine ⟨?_, hl⟩
      intro y hy
      rcases List.mem_cons.1 hy with rfl | hy
      · exact hlt
      · exact BitVec.lt_trans hlt (ha.1 y hy)
    · rename_i hnlt
      have hne := hx a (by simp)
      have hlt : key a < key x := by
        have h1 : key a ≤ key x := BitVec.not_lt.mp hnlt
        rw [BitVec.le_def] at h1
        rw [BitVec.lt_def]
        have : (key x).toNat ≠ (key a).toNat := fun e => hne (BitVec.eq_of_toNat_eq e)
        omega
      rw [List.pairwise_cons]
      refine ⟨?_, ih ha.2 (fun y hy => hx y (List.mem_cons_of_mem _ hy))⟩
      intro y hy
      rcases (mem_insertBy key x y l).1 hy with rfl | hy
      · exact hlt
      · exact ha.1 y hy

theorem mem_foldl_insertBy (key : α → U64) (y : α) (l : List α) :
    ∀ acc, y ∈ l.foldl (fun acc x => insertBy key x acc) acc ↔ y ∈ acc ∨ y ∈ l := by
  induction l with
  | nil => simp
  | cons a l ih =>
    intro acc
    simp only [List.foldl_cons, ih, mem_insertBy, List.mem_cons]
    constructor
    · rintro ((h | h) | h) <;> simp [h]
    · rintro (h | h | h) <;> simp [h]

theorem foldl_insertBy_sorted (key : α → U64) (l : List α) :
    ∀ acc, acc.Pairwise (fun a b => key a < key b) → l.Pairwise (fun a b => key a ≠ key b) →
      (∀ x ∈ l, ∀ y ∈ acc, key x ≠ key y) →
      (l.foldl (fun acc x => insertBy key x acc) acc).Pairwise (fun a b => key a < key b) := by
  induction l with
  | nil => intro acc h _ _; exact h
  | cons a l ih =>
    intro acc hacc hl hd
    rw [List.pairwise_cons] at hl
    simp only [List.foldl_cons]
    apply ih
    · exact insertBy_sorted key a acc hacc (hd a (by simp))
    · exact hl.2
    · intro x hx y hy
      rcases (mem_insertBy key a y acc).1 hy with rfl | hy
      · exact fun e => hl.1 x hx e.symm
      · exact hd x (List.mem_cons_of_mem _ hx) y hy

theorem mem_sortBy (key : α → U64) (y : α) (l : List α) : y ∈ sortBy key l ↔ y ∈ l := by
  unfold sortBy
  rw [mem_foldl_insertBy]
  simp

theorem sortBy_sorted (key : α → U64) (l : List α) (hl : l.Pairwise (fun a b => key a ≠ key b)) :
    (sortBy key l).Pairwise (fun a b => key a < key b) := by
  unfold sortBy
  apply foldl_insertBy_sorted key l [] (by simp) hl
  intro x _ y hy
  simp at hy

end

/-- strictly key-sorted lists of (position, hash) pairs with the same members are equal -/
theorem eq_of_keysorted {H : Type} {l1 l2 : HP H}
    (h1 : l1.Pairwise (fun a b => a.1 < b.1)) (h2 : l2.Pairwise (fun a b => a.1 < b.1))
    (h : ∀ x, x ∈ l1 ↔ x ∈ l2) : l1 = l2 :=
  eq_of_sorted_of_mem_iff (R := fun a b : U64 × H => a.1 < b.1) (fun a => BitVec.lt_irrefl a.1)
    (fun _ _ _ => BitVec.lt_trans) l1 l2 h1 h2 h

/-! ### merging the two complementary parts of a strictly sorted list -/

theorem mergeHP_nil_left {H : Type} (b : HP H) : mergeHP [] b = b := by
  unfold mergeHP; rfl

theorem mergeHP_nil_right {H : Type} (a : HP H) : mergeHP a [] = a := by
  cases a with
  | nil => exact mergeHP_nil_left []
  | cons x xs => unfold mergeHP; rfl

theorem mergeHP_filter {H α : Type} (g : α → U64 × H) (f1 f2 : α → Bool) :
    ∀ (l : List α), l.Pairwise (fun a b => (g a).1 < (g b).1) → (∀ x ∈ l, f2 x = !f1 x) →
      mergeHP ((l.filter f1).map g) ((l.filter f2).map g) = l.map g := by
  intro l
  induction l with
  | nil => intro _ _; simp [mergeHP_nil_left]
  | cons a l ih =>
    intro hp hf
    rw [List.pairwise_cons] at hp
    have ih' := ih hp.2 (fun x hx => hf x (List.mem_cons_of_mem _ hx))
    have hfa := hf a (by simp)
    cases h1 : f1 a with
    | true =>
      have h2 : f2 a = false := by rw [hfa, h1]; rfl
      rw [List.filter_cons_of_pos (by simpa using h1), List.filter_cons_of_neg (by simp [h2])]
      simp only [List.map_cons]
      cases hB : (l.filter f2).map g with
      | nil =>
        rw [hB, mergeHP_nil_right] at ih'
        rw [mergeHP_nil_right, ih']
      | cons y ys =>
        have hy : y ∈ (l.filter f2).map g := by rw [hB]; simp
        obtain ⟨b, hb, rfl⟩ := List.mem_map.1 hy
        have hlt : (g a).1 < (g b).1 := hp.1 b (List.mem_filter.1 hb).1
        unfold mergeHP
        rw [if_pos hlt, ← hB, ih']
    | false =>
      have h2 : f2 a = true := by rw [hfa, h1]; rfl
      rw [List.filter_cons_of_neg (by simp [h1]), List.filter_cons_of_pos (by simpa using h2)]
      simp only [List.map_cons]
      cases hA : (l.filter f1).map g with
      | nil =>
        rw [hA, mergeHP_nil_left] at ih'
        rw [mergeHP_nil_left, ih']
      | cons x xs =>
        have hx : x ∈ (l.filter f1).map g := by rw [hA]; simp
        obtain ⟨b, hb, rfl⟩ := List.mem_map.1 hx
        have hlt : (g a).1 < (g b).1 := hp.1 b (List.mem_filter.1 hb).1
        have hnlt : ¬ (g b).1 < (g a).1 := fun h => BitVec.lt_irrefl _ (BitVec.lt_trans h hlt)
        unfold mergeHP
        rw [if_neg hnlt, if_pos hlt, ← hA, ih']

end UtreexoVerif.Proofs.Sorted
