/-
  `undoAdd` of `MapPollard.Undo` on a FULL map forest: the additions of the block are taken back
  one by one (`undoSingleAdd`), each by walking down the right spine of the lowest tree and dropping
  the spine nodes; overwritten empty roots are re-created on the way (`placeEmptyRoot`).

  Layer 1 (the model on the abstract state) is shared with the partial forests
  (`Proofs/MapUndoRep.lean`, `Proofs/MapPlaceEmpty.lean` generalised over the `full` flag); the
  bookkeeping of the list of overwritten empty roots is `Proofs/MapUndoOrder.lean`.  Here: the full
  image `FA` across the un-steps.  Between two iterations the state tracks the node list `N` of the
  current view EXCEPT possibly at the spine position, where nothing may be stored (`FAq`): the next
  iteration starts by dropping that node.
-/
import UtreexoVerif.Proofs.MapFullAdd
import UtreexoVerif.Proofs.MapUndoAdd

namespace UtreexoVerif.Proofs.MapFullUndoAdd
open UtreexoVerif Model Spec Spec.Forest Proofs MapAL MapInv MapPrune MapRep MapLiftGeo PForest MapAInv MapLiftCore
open MapUndoDefs MapUndoSteps PForestSpec PForestAdd MapPlaceEmpty MapUndoRep MapUndoOrder MapAddMerge MapUndoAdd
open MapFull MapFullAdd Hasher
set_option linter.unusedSectionVars false
set_option linter.unusedVariables false

variable {H : Type} [DecidableEq H] [Hasher H]

/-! ### dropping the entries at one position -/

/-- the node list without the entries at `q` -/
def dropN (q : Pos) (N : List (Pos × H × Bool)) : List (Pos × H × Bool) := N.filter (fun e => e.1 ≠ q)

theorem mem_dropN {q : Pos} {N : List (Pos × H × Bool)} {e : Pos × H × Bool} :
    e ∈ dropN q N ↔ e ∈ N ∧ e.1 ≠ q := by
  unfold dropN
  rw [List.mem_filter]
  simp

section drop
variable {A : Pos → Option (Leaf H)} {C : H → Option Pos} {N : List (Pos × H × Bool)} {P : H → Prop}
  {R : Pos → Prop}

/-- dropping the node at `q` (and its hash from the cache) on a state that tracks `N` -/
theorem FA.drop (L : Laws N R) (fa : FA A C N P) (q : Pos) :
    FA (upd A q none) (dropC q A C) (dropN q N) P where
  dom := by
    intro q' l hl
    rw [upd_apply] at hl
    split at hl
    · cases hl
    · rename_i hne
      obtain ⟨h, b, hm⟩ := fa.dom q' l hl
      exact ⟨h, b, mem_dropN.2 ⟨hm, hne⟩⟩
  sto := by
    intro q' h b hm
    obtain ⟨hm', hne⟩ := mem_dropN.1 hm
    rw [upd_ne _ _ hne]; exact fa.sto q' h b hm'
  cdom := by
    intro x t hx
    have hC := dropC_some hx
    obtain ⟨hp, t', hm⟩ := fa.cdom x t hC
    refine ⟨hp, t', mem_dropN.2 ⟨hm, ?_⟩⟩
    intro e
    simp only at e
    subst e
    have hA := fa.sto _ _ _ hm
    unfold dropC at hx
    rw [hA] at hx
    simp only [upd_self] at hx
    cases hx
  csto := by
    intro t x hm hp
    obtain ⟨hm', hne⟩ := mem_dropN.1 hm
    have hC := fa.csto t x hm' hp
    unfold dropC
    cases hA : A q with
    | none => exact hC
    | some l =>
      simp only
      obtain ⟨b, hb⟩ := fa.mem hA
      have hxl : x ≠ l.hash := by
        rintro rfl
        exact hne (L.leaf_hash t _ q b hm' hb).symm
      rw [upd_ne _ _ hxl]; exact hC

/-- the state tracks `N`, except that nothing may be stored at `q` -/
def FAq (A : Pos → Option (Leaf H)) (C : H → Option Pos) (N : List (Pos × H × Bool)) (P : H → Prop)
    (q : Pos) : Prop := FA A C N P ∨ FA A C (dropN q N) P

/-- … after the drop at `q` it tracks `N` without the entries at `q` -/
theorem FAq.drop (L : Laws N R) {q : Pos} (h : FAq A C N P q) :
    FA (upd A q none) (dropC q A C) (dropN q N) P := by
  rcases h with h | h
  · exact FA.drop L h q
  · have hA : A q = none := h.none_of (fun h' b hm => (mem_dropN.1 hm).2 rfl)
    refine h.congr_AC (fun q' => ?_) (fun x => ?_)
    · rw [upd_apply]
      split
      · rename_i e; rw [e, hA]
      · rfl
    · unfold dropC; rw [hA]

end drop

/-! ### un-step B on the full image -/

section stepB
variable {A : Pos → Option (Leaf H)} {C : H → Option Pos} {N N' : List (Pos × H × Bool)} {P : H → Prop}
  {R R' : Pos → Prop}

/-- **un-step B**: the state (after the drop at `P = parent σ`) tracks the lifted view `N'` without
its root `P`; the subtree moves back down below `σ` and the empty root is re-created at `sib σ`;
afterwards the state tracks `N` without the entry at `σ` -/
theorem funstepB {σ : Pos} (L : Laws N R) (fa : FA A C (dropN (parent σ) N') P)
    (hρN : (sib σ, (zero : H), false) ∈ N) (hσR : R σ)
    (hN' : ∀ e : Pos × H × Bool, e ∈ N' ↔ (¬ Anc (parent σ) e.1 ∧ e ∈ N) ∨
      (∃ c, Anc σ c ∧ e.1 = liftP σ c ∧ (c, e.2) ∈ N)) :
    FA (upd (unliftA σ A) (sib σ) (some ⟨zero, true⟩)) (unliftC σ C) (dropN σ N) P := by
  obtain ⟨hρR, _, hρbelow⟩ := L.zero_root (sib σ) false hρN
  obtain ⟨hσh, hσb, hσN⟩ := L.root_node σ hσR
  have hPnot : ∀ h f, (parent σ, h, f) ∉ N := by
    intro h f hm
    obtain ⟨r, hr, ha⟩ := L.under_root _ h f hm
    have := L.root_disj r σ σ hr hσR (Anc.trans ha (anc_parent_self σ)) (Anc.refl σ)
    subst this
    have h1 := ha.1
    have : (parent r).1 = r.1 + 1 := rfl
    omega
  have node_mid : ∀ q h b, (q, h, b) ∈ N → Anc (parent σ) q → ¬ SUnder σ q → q ≠ sib σ → q = σ := by
    intro q h b hm ha h1 h2
    rcases anc_parent_iff'.1 ha with e | e | e
    · rw [e] at hm; exact absurd hm (hPnot h b)
    · apply Classical.byContradiction
      intro hne
      exact h1 (sunder_of_anc_ne e hne)
    · exact absurd (hρbelow q h b hm e) h2
  have lift_ne_P : ∀ c, SUnder σ c → liftP σ c ≠ parent σ := by
    intro c hc e
    have := (sunder_parent_liftP hc).2
    rw [e] at this; omega
  have hsσ : sib σ ≠ σ := sib_ne σ
  -- the store
  have st_sib : upd (unliftA σ A) (sib σ) (some (⟨zero, true⟩ : Leaf H)) (sib σ) = some ⟨zero, true⟩ := upd_self _ _ _
  have st_under : ∀ q, SUnder σ q → upd (unliftA σ A) (sib σ) (some (⟨zero, true⟩ : Leaf H)) q = A (liftP σ q) := by
    intro q hq
    have h1 : q ≠ sib σ := by
      intro e; rw [e] at hq; exact not_anc_sib σ hq.1
    rw [upd_ne _ _ h1]
    unfold unliftA
    rw [if_pos hq]
  have st_out : ∀ q, ¬ Anc (parent σ) q → upd (unliftA σ A) (sib σ) (some (⟨zero, true⟩ : Leaf H)) q = A q := by
    intro q hq
    have h1 : q ≠ sib σ := fun e => hq (e ▸ anc_parent_sib σ)
    have h3 : ¬ SUnder σ q := fun h => hq (Anc.trans (anc_parent_self σ) h.1)
    have h4 : ¬ SUnder (parent σ) q := fun h => hq h.1
    rw [upd_ne _ _ h1]
    unfold unliftA
    rw [if_neg h3, if_neg h4]
  have hAP : A (parent σ) = none := fa.none_of (fun h' b hm => (mem_dropN.1 hm).2 rfl)
  have st_none : ∀ q, Anc (parent σ) q → ¬ SUnder σ q → q ≠ sib σ →
      upd (unliftA σ A) (sib σ) (some (⟨zero, true⟩ : Leaf H)) q = none := by
    intro q hq h1 h2
    rw [upd_ne _ _ h2]
    unfold unliftA
    rw [if_neg h1]
    by_cases h4 : SUnder (parent σ) q
    · rw [if_pos h4]
    · rw [if_neg h4]
      have : q = parent σ := by
        apply Classical.byContradiction
        intro hne
        exact h4 (sunder_of_anc_ne hq hne)
      rw [this, hAP]
  refine { dom := ?_, sto := ?_, cdom := ?_, csto := ?_ }
  · intro q l hl
    rcases unstep_cases σ q with rfl | hs | ⟨hu, h1, h2⟩ | hout
    · exact ⟨zero, false, mem_dropN.2 ⟨hρN, hsσ⟩⟩
    · rw [st_under q hs] at hl
      obtain ⟨b, hb⟩ := fa.mem hl
      have hb' := (mem_dropN.1 hb).1
      refine ⟨l.hash, b, mem_dropN.2 ⟨(memB_lift hN' hs.1 _ _).1 hb', ?_⟩⟩
      intro e; simp only at e; rw [e] at hs; exact Nat.lt_irrefl _ hs.2
    · rw [st_none q hu h1 h2] at hl; cases hl
    · rw [st_out q hout] at hl
      obtain ⟨b, hb⟩ := fa.mem hl
      have hb' := (mem_dropN.1 hb).1
      refine ⟨l.hash, b, mem_dropN.2 ⟨(memB_out hN' hout _ _).1 hb', ?_⟩⟩
      intro e; simp only at e; exact hout (e ▸ anc_parent_self σ)
  · intro q h b hm
    obtain ⟨hmN, hne⟩ := mem_dropN.1 hm
    simp only at hne
    rcases unstep_cases σ q with rfl | hs | ⟨hu, h1, h2⟩ | hout
    · rw [st_sib, (L.func _ _ _ _ _ hmN hρN).1]
    · rw [st_under q hs]
      exact fa.sto _ h b (mem_dropN.2 ⟨(memB_lift hN' hs.1 h b).2 hmN, lift_ne_P q hs⟩)
    · exact absurd (node_mid q h b hmN hu h1 h2) hne
    · rw [st_out q hout]
      have hne' : q ≠ parent σ := fun e => hout (e ▸ Anc.refl _)
      exact fa.sto q h b (mem_dropN.2 ⟨(memB_out hN' hout h b).2 hmN, hne'⟩)
  · intro x t hx
    unfold unliftC at hx
    cases hC : C x with
    | none => rw [hC] at hx; cases hx
    | some p =>
      have hm := fa.cpos hC
      obtain ⟨hm', hpP⟩ := mem_dropN.1 hm
      simp only at hpP
      refine ⟨fa.notP hC, ?_⟩
      by_cases hu : Anc (parent σ) p
      · obtain ⟨c, hc, he, hmc⟩ := memB_under hN' hm' hu
        refine ⟨c, mem_dropN.2 ⟨hmc, ?_⟩⟩
        intro e; simp only at e
        rw [e, liftP_self] at he
        exact hpP he
      · refine ⟨p, mem_dropN.2 ⟨(memB_out hN' hu x true).1 hm', ?_⟩⟩
        intro e; simp only at e; exact hu (e ▸ anc_parent_self σ)
  · intro t x hm hp
    obtain ⟨hmN, hne⟩ := mem_dropN.1 hm
    simp only at hne
    unfold unliftC
    rcases unstep_cases σ t with rfl | hs | ⟨hu, h1, h2⟩ | hout
    · have := (L.func _ _ _ _ _ hmN hρN).2
      cases this
    · have hC := fa.csto _ x (mem_dropN.2 ⟨(memB_lift hN' hs.1 x true).2 hmN, lift_ne_P t hs⟩) hp
      rw [hC]
      simp only [Option.map_some, Option.some.injEq]
      rw [if_pos ⟨sunder_parent_liftP hs, by simp [liftP_fst]⟩, unliftP_liftP hs.1]
    · exact absurd (node_mid t x true hmN hu h1 h2) hne
    · have hne' : t ≠ parent σ := fun e => hout (e ▸ Anc.refl _)
      have hC := fa.csto t x (mem_dropN.2 ⟨(memB_out hN' hout x true).2 hmN, hne'⟩) hp
      rw [hC]
      simp only [Option.map_some, Option.some.injEq]
      rw [if_neg (fun h => hout h.1.1)]

/-- the preconditions of `placeEmptyRoot_rep_gen` from the full image of the lifted view without its
root -/
theorem fplace_pre {Pp : Pos} (L' : Laws N' R') (fa : FA A C (dropN Pp N') P) (hP : R' Pp)
    (hrow : ∀ e ∈ N', Anc Pp e.1 → e.1 ≠ Pp → 1 ≤ e.1.1) :
    (∀ q, SUnder Pp q → q.1 = 0 → A q = none) ∧
    (∀ q v, SUnder Pp q → A q = some v → v.hash ≠ zero) ∧
    (∀ q v, SUnder Pp q → A q = some v → v.remember = true) ∧
    (∀ q v, SUnder Pp q → A q = some v → ∀ t, C v.hash = some t → t = q) ∧
    (∀ x t, C x = some t → SUnder Pp t → ∃ v, A t = some v ∧ v.hash = x) := by
  obtain ⟨hPh, hPb, hPN⟩ := L'.root_node Pp hP
  have hne : ∀ q, SUnder Pp q → q ≠ Pp := by
    intro q hs e; subst e; exact Nat.lt_irrefl _ hs.2
  refine ⟨?_, ?_, ?_, ?_, ?_⟩
  · intro q hs h0
    cases hA : A q with
    | none => rfl
    | some v =>
      obtain ⟨b, hm⟩ := fa.mem hA
      have := hrow _ (mem_dropN.1 hm).1 hs.1 (hne q hs)
      simp only at this
      omega
  · intro q v hs hA hz
    obtain ⟨b, hm⟩ := fa.mem hA
    have hm' := (mem_dropN.1 hm).1
    rw [hz] at hm'
    exact L'.not_root_of_sunder hPN hm' hs (L'.zero_root q b hm').1
  · intro q v _ hA; exact fa.flag hA
  · intro q v _ hA t hC
    obtain ⟨b, hm⟩ := fa.mem hA
    exact (L'.leaf_hash t v.hash q b (mem_dropN.1 (fa.cpos hC)).1 (mem_dropN.1 hm).1).symm
  · intro x t hC _
    exact ⟨_, fa.sto t x true (fa.cpos hC), rfl⟩

end stepB

/-! ### the levels of one `undoSingleAdd` -/

section levels
variable {T : Nat} (G : Forest H) (xs : List H) (x : H) {t c : Nat}

/-- **the loop of `undoSingleAdd` on a full forest**, by induction on the low trees (highest first)
that are still merged into the accumulated tree -/
theorem funadd_levels (nz : NZ H) (hn63 : G.numLeaves + xs.length + 1 < 2 ^ 63)
    (hfit : forestRows (G.numLeaves + xs.length + 1) ≤ T)
    (htc : G.numLeaves + xs.length = 2 ^ (t + 1) * c + (2 ^ t - 1))
    (hyp : Hyg (G.addMany xs))
    (hx0 : x ≠ zero) (hxph : ∀ u v : H, x ≠ ph u v) (hxfresh : x ∉ (G.addMany xs).liveLeaves) :
    ∀ (ro : List (Option (CTree H))) (Y : PF H), ro.length ≤ t →
      Y ++ lowV (G.numLeaves + xs.length) 0 ro.reverse = ofForest (G.addMany xs) →
      ∀ (m : MapPollard H) (A : Pos → Option (Leaf H)) (C : H → Option Pos),
      Rep m T A C → m.full = true →
      FAq A C (PForest.nodes (Y ++ [((ro.length, (G.numLeaves + xs.length) >>> ro.length),
          some (mergeLow ro.reverse (.leaf x)))])) (fun _ => False)
        (ro.length, (G.numLeaves + xs.length) >>> ro.length) →
      ∃ m' A' C', MapPollard.undoSingleAddLoop (ro.length + 1)
          (encP T (ro.length, (G.numLeaves + xs.length) >>> ro.length))
          (encP T (childP (ro.length, (G.numLeaves + xs.length) >>> ro.length) 0))
          ((((newRows G xs.length).filter (fun h => decide (h < ro.length))) ++ destroyed G xs.length).map (encE T G))
          m = (m', .ok ((destroyed G xs.length).map (encE T G))) ∧
        Rep m' T A' C' ∧ m'.numLeaves = m.numLeaves ∧ m'.full = true ∧
        FA A' C' (G.addMany xs).nodes (fun _ => False)
  | [], Y, hlen, hY, m, A, C, rep, hfull, inv => by
    -- level 0: the leaf itself
    simp only [List.reverse_nil, lowV, List.append_nil, List.length_nil, Nat.shiftRight_zero, mergeLow] at hY inv ⊢
    have hT := rep.T_le
    have hv : Valid T (0, G.numLeaves + xs.length) := by
      have := spine_valid (T := T) (n := G.numLeaves + xs.length) (j := 0) hfit (by omega)
      rwa [Nat.shiftRight_zero] at this
    rw [undoSingleAddLoop_last rep.rows hT hv]
    obtain ⟨rep', hnl', hfl'⟩ := dropNodeM_rep rep hv
    have hnp : (G.addMany xs).numLeaves = G.numLeaves + xs.length := numLeaves_addMany' G xs
    have hn64 : (G.addMany xs).numLeaves < 2 ^ 64 := by rw [hnp]; omega
    have hfilter : (newRows G xs.length).filter (fun h => decide (h < 0)) = [] := by
      apply List.filter_eq_nil_iff.2
      intro a _; simp
    rw [hfilter, List.nil_append]
    obtain ⟨ok0, hnodes0⟩ := step0_pf (G.addMany xs) x (by rw [hnp]; omega) hyp hxfresh hx0 hxph
    rw [hnp] at ok0 hnodes0
    rw [hY] at inv
    have L' := laws_of_ok nz ok0
    have hpos : ∀ q h b, (q, h, b) ∈ (G.addMany xs).nodes → q ≠ (0, G.numLeaves + xs.length) := by
      rintro q h b hm rfl
      have h1 := MapAdd.node_lt hm
      simp only at h1
      rw [hnp] at h1
      omega
    have fa' := FAq.drop L' inv
    rw [dropNode_fst, dropNode_snd] at rep'
    refine ⟨_, _, _, rfl, rep', hnl', hfl'.trans hfull, fa'.congr_N ?_⟩
    intro e
    rw [mem_dropN, hnodes0, List.mem_append, List.mem_singleton]
    constructor
    · intro he; exact ⟨Or.inl he, hpos _ _ _ he⟩
    · rintro ⟨he | he, hne⟩
      · exact he
      · rw [he] at hne; exact absurd rfl hne
  | o :: ro, Y, hlen, hY, m, A, C, rep, hfull, inv => by
    have hT := rep.T_le
    have hnp : (G.addMany xs).numLeaves = G.numLeaves + xs.length := numLeaves_addMany' G xs
    have hn64 : (G.addMany xs).numLeaves < 2 ^ 64 := by rw [hnp]; omega
    have hjt : ro.length < t := by simp only [List.length_cons] at hlen; omega
    have hbit : (G.numLeaves + xs.length).testBit ro.length = true := by
      rw [htc]; exact testBit_trailing_low hjt
    obtain ⟨hρσ, heven, hPσ, hPρ⟩ := acc_geo hbit
    obtain ⟨hc1, hc0⟩ := spine_children hbit
    obtain ⟨hkT, hnT, _, _, hσv⟩ := MapAddRep.geo hfit hbit
    have hρv : Valid T (rootPos (G.numLeaves + xs.length) ro.length) := MapAddRep.valid_root hfit hbit
    have hsv : Valid T (ro.length + 1, (G.numLeaves + xs.length) >>> (ro.length + 1)) := by
      rw [← hPσ]; exact valid_parent hσv hkT
    -- the lists
    have hrev : (o :: ro).reverse = ro.reverse ++ [o] := List.reverse_cons
    have hlen' : (o :: ro).length = ro.length + 1 := rfl
    simp only [hrev, hlen'] at hY inv ⊢
    rw [lowV_snoc, Nat.zero_add, List.length_reverse] at hY
    have hY' : (Y ++ [(rootPos (G.numLeaves + xs.length) ro.length, o)]) ++
        lowV (G.numLeaves + xs.length) 0 ro.reverse = ofForest (G.addMany xs) := by
      rw [← hY]; simp
    have hρent : (rootPos (G.numLeaves + xs.length) ro.length, o) ∈ ofForest (G.addMany xs) := by
      rw [← hY]; simp
    -- the bottom view is well formed
    obtain ⟨ok0, _⟩ := step0_pf (G.addMany xs) x (by rw [hnp]; omega) hyp hxfresh hx0 hxph
    rw [hnp] at ok0
    have hbits : ∀ i, i < ro.reverse.length → (G.numLeaves + xs.length).testBit (0 + i) = true := by
      intro i hi
      rw [List.length_reverse] at hi
      rw [Nat.zero_add, htc]; exact testBit_trailing_low (by omega)
    have okb : OK (accV (G.numLeaves + xs.length) 0 Y (ro.reverse ++ [o]) (.leaf x)) := by
      unfold accV
      rw [lowV_snoc, Nat.zero_add, List.length_reverse, Nat.shiftRight_zero, hY]
      exact ok0
    have okj := acc_ok Y ro.reverse [o] 0 (.leaf x) okb hbits
    rw [Nat.zero_add, List.length_reverse] at okj
    have hview : accV (G.numLeaves + xs.length) ro.length Y [o] (mergeLow ro.reverse (.leaf x)) =
        Y ++ [(rootPos (G.numLeaves + xs.length) ro.length, o),
          ((ro.length, (G.numLeaves + xs.length) >>> ro.length), some (mergeLow ro.reverse (.leaf x)))] := by
      unfold accV; simp [lowV]
    rw [hview] at okj
    have hsplit : Y ++ [(rootPos (G.numLeaves + xs.length) ro.length, o),
          ((ro.length, (G.numLeaves + xs.length) >>> ro.length), some (mergeLow ro.reverse (.leaf x)))] =
        (Y ++ [(rootPos (G.numLeaves + xs.length) ro.length, o)]) ++
          [((ro.length, (G.numLeaves + xs.length) >>> ro.length), some (mergeLow ro.reverse (.leaf x)))] := by simp
    have hmerge := mergeLow_snoc ro.reverse o (.leaf x)
    -- the model state after the node at the spine position has been dropped
    obtain ⟨rep1, hnl1, hfl1⟩ := dropNodeM_rep rep hsv
    rw [dropNode_fst, dropNode_snd] at rep1
    have hD := destroyed_succ G xs.length
    have hsub : ∀ h, h ∈ (newRows G xs.length).filter (fun h => decide (h < ro.length + 1)) ++ destroyed G xs.length →
        h ∈ destroyed G (xs.length + 1) := by
      intro h hh
      rw [hD]
      rcases List.mem_append.1 hh with h1 | h1
      · exact List.mem_append_left _ (List.mem_filter.1 h1).1
      · exact List.mem_append_right _ h1
    cases o with
    | some tr =>
      -- un-step A
      have hmt : mergeLow (ro.reverse ++ [some tr]) (.leaf x) = .node tr (mergeLow ro.reverse (.leaf x)) := by
        have := hmerge; simp only [join] at this; exact Option.some.inj this
      rw [hmt] at inv
      have hσρ : (ro.length, (G.numLeaves + xs.length) >>> ro.length) = sib (rootPos (G.numLeaves + xs.length) ro.length) := by
        rw [hρσ, sib_sib]
      have okj' := okj
      rw [hσρ] at okj'
      obtain ⟨ok', hN', hR', hfresh⟩ := stepA_pf Y (rootPos (G.numLeaves + xs.length) ro.length) tr
        (mergeLow ro.reverse (.leaf x)) heven okj'
      rw [hPρ] at ok' hN' hR' hfresh
      have L' := laws_of_ok nz ok'
      have fa1 := FAq.drop L' inv
      have fa2 : FA (upd A (ro.length + 1, (G.numLeaves + xs.length) >>> (ro.length + 1)) none)
          (dropC (ro.length + 1, (G.numLeaves + xs.length) >>> (ro.length + 1)) A C)
          (PForest.nodes ((Y ++ [(rootPos (G.numLeaves + xs.length) ro.length, some tr)]) ++
            [((ro.length, (G.numLeaves + xs.length) >>> ro.length), some (mergeLow ro.reverse (.leaf x)))]))
          (fun _ => False) := by
        apply fa1.congr_N
        intro e
        rw [← hsplit, hσρ, mem_dropN, hN']
        constructor
        · intro he
          refine ⟨Or.inr he, ?_⟩
          intro e'
          obtain ⟨q, h, b⟩ := e
          simp only at e'
          subst e'
          exact hfresh h b he
        · rintro ⟨he | he, hne⟩
          · rw [he] at hne; exact absurd rfl hne
          · exact he
      -- the head of the list is not this root position
      have hnotin : ro.length ∉ newRows G xs.length := by
        intro hmem
        have := ((low_tree_none_iff G xs (by omega) htc hjt).1).2 hmem
        have := ofForest_entry_unique hn64 hyp this hρent
        cases this
      have hne : ∀ e0 er, ((newRows G xs.length).filter (fun h => decide (h < ro.length + 1)) ++ destroyed G xs.length).map
          (encE T G) = e0 :: er → e0 ≠ encP T (childP (ro.length + 1, (G.numLeaves + xs.length) >>> (ro.length + 1)) 0) := by
        intro e0 er he
        have hmem : e0 ∈ ((newRows G xs.length).filter (fun h => decide (h < ro.length + 1)) ++
            destroyed G xs.length).map (encE T G) := by rw [he]; simp
        obtain ⟨h, hh, rfl⟩ := List.mem_map.1 hmem
        have hd := hsub h hh
        have hne := low_tree_some_ne G xs (by omega) htc hjt hρent h hd
        rw [hc0]
        intro e
        apply hne
        have hbh : G.numLeaves.testBit h = true := by
          have := (mem_destroyed.1 hd).1
          exact (mem_treeRows.1 this).2
        have hG : G.numLeaves ≤ 2 ^ T := by omega
        have hv1 := Props.C16.rootPos_valid hG hbh
        exact encP_inj' hT ⟨hv1.1, hv1.2⟩ hρv e
      rw [undoSingleAddLoop_skip rep.rows hT hsv (by show 1 ≤ ro.length + 1; omega) ro.length _ hne, hc1,
        filter_lt_succ_not_mem _ _ hnotin]
      obtain ⟨m', A', C', hloop, rep', hnl', hfl', fa'⟩ := funadd_levels nz hn63 hfit htc hyp hx0 hxph hxfresh ro
        (Y ++ [(rootPos (G.numLeaves + xs.length) ro.length, some tr)]) (by omega) hY' _ _ _ rep1 (hfl1.trans hfull)
        (Or.inl fa2)
      exact ⟨m', A', C', hloop, rep', hnl'.trans hnl1, hfl', fa'⟩
    | none =>
      have hmt : mergeLow (ro.reverse ++ [none]) (.leaf x) = mergeLow ro.reverse (.leaf x) := by
        have := hmerge; simp only [join] at this; exact Option.some.inj this
      rw [hmt] at inv
      have okj' := okj
      rw [hρσ] at okj'
      obtain ⟨ok', hN', hR'⟩ := stepB_pf Y (ro.length, (G.numLeaves + xs.length) >>> ro.length)
        (mergeLow ro.reverse (.leaf x)) okj'
      rw [hPσ] at ok' hN' hR'
      have L' := laws_of_ok nz ok'
      have L := laws_of_ok nz okj'
      have hρN : (sib (ro.length, (G.numLeaves + xs.length) >>> ro.length), (zero : H), false) ∈
          PForest.nodes (Y ++ [(sib (ro.length, (G.numLeaves + xs.length) >>> ro.length), none),
            ((ro.length, (G.numLeaves + xs.length) >>> ro.length), some (mergeLow ro.reverse (.leaf x)))]) := by
        rw [mem_nodes]
        exact ⟨(sib (ro.length, (G.numLeaves + xs.length) >>> ro.length), none), by simp, by simp [entryNodes]⟩
      have hσR : IsRoot (Y ++ [(sib (ro.length, (G.numLeaves + xs.length) >>> ro.length), none),
            ((ro.length, (G.numLeaves + xs.length) >>> ro.length), some (mergeLow ro.reverse (.leaf x)))])
          (ro.length, (G.numLeaves + xs.length) >>> ro.length) :=
        ⟨((ro.length, (G.numLeaves + xs.length) >>> ro.length), some (mergeLow ro.reverse (.leaf x))), by simp, rfl⟩
      have fa1 := FAq.drop L' inv
      -- the model
      have hRs : IsRoot (Y ++ [((ro.length + 1, (G.numLeaves + xs.length) >>> (ro.length + 1)),
          some (mergeLow ro.reverse (.leaf x)))]) (ro.length + 1, (G.numLeaves + xs.length) >>> (ro.length + 1)) :=
        ⟨((ro.length + 1, (G.numLeaves + xs.length) >>> (ro.length + 1)),
          some (mergeLow ro.reverse (.leaf x))), by simp, rfl⟩
      have hrow : ∀ e ∈ PForest.nodes (Y ++ [((ro.length + 1, (G.numLeaves + xs.length) >>> (ro.length + 1)),
          some (mergeLow ro.reverse (.leaf x)))]),
          Anc (ro.length + 1, (G.numLeaves + xs.length) >>> (ro.length + 1)) e.1 →
          e.1 ≠ (ro.length + 1, (G.numLeaves + xs.length) >>> (ro.length + 1)) → 1 ≤ e.1.1 := by
        intro e he ha _
        rcases (hN' e).1 he with ⟨hna, _⟩ | ⟨c, _, hc, _⟩
        · exact absurd ha hna
        · rw [hc]; show 1 ≤ c.1 + 1; omega
      obtain ⟨p0, pz, pall, pc, pc2⟩ := fplace_pre L' fa1 hRs hrow
      obtain ⟨m2, hpl, rep2, hnl2, hfl2⟩ := placeEmptyRoot_rep_gen rep1 (hfl1.trans hfull) hσv hkT
        (by rw [hPσ]; exact p0) (by rw [hPσ]; exact pz) (by rw [hPσ]; exact fun q v hq hA _ => pall q v hq hA)
        (by rw [hPσ]; exact fun _ => pall) (by rw [hPσ]; exact pc) (by rw [hPσ]; exact pc2)
      rw [← hρσ] at hpl
      have rep3 := rep2.putNode hρv (⟨zero, true⟩ : Leaf H)
      have fa1' := fa1
      rw [← hPσ] at fa1'
      have hN'' := hN'
      rw [← hPσ] at hN''
      have fa2 := funstepB (A := upd A (parent (ro.length, (G.numLeaves + xs.length) >>> ro.length)) none)
        (C := dropC (parent (ro.length, (G.numLeaves + xs.length) >>> ro.length)) A C) L fa1' hρN hσR hN''
      rw [← hρσ, hsplit] at fa2
      rw [hPσ] at fa2
      have hmem : ro.length ∈ newRows G xs.length :=
        ((low_tree_none_iff G xs (by omega) htc hjt).1).1 hρent
      have hrp := ((low_tree_none_iff G xs (by omega) htc hjt).2) hmem
      rw [filter_lt_succ_mem _ (newRows_sorted G xs.length) _ hmem, List.cons_append, List.map_cons]
      have hhead : encE T G ro.length = encP T (childP (ro.length + 1, (G.numLeaves + xs.length) >>> (ro.length + 1)) 0) := by
        unfold encE; rw [hc0, hrp]
      rw [hhead, undoSingleAddLoop_place rep.rows hT hsv (by show 1 ≤ ro.length + 1; omega) ro.length _
        (by rw [hc0]; exact hpl), hc1, hc0]
      obtain ⟨m', A', C', hloop, rep', hnl', hfl', fa'⟩ := funadd_levels nz hn63 hfit htc hyp hx0 hxph hxfresh ro
        (Y ++ [(rootPos (G.numLeaves + xs.length) ro.length, none)]) (by omega) hY' _ _ _ rep3
        (show m2.full = true from hfl2.trans (hfl1.trans hfull)) (Or.inr fa2)
      exact ⟨m', A', C', hloop, rep', hnl'.trans (hnl2.trans hnl1), hfl', fa'⟩
end levels

/-- **`undoSingleAdd` on a full forest**: the last addition `x` is taken back -/
theorem funadd_single (nz : NZ H) {T : Nat} (G : Forest H) (xs : List H) (x : H)
    (hn63 : G.numLeaves + xs.length + 1 < 2 ^ 63)
    (hfit : forestRows (G.numLeaves + xs.length + 1) ≤ T)
    (hyp : Hyg (G.addMany (xs ++ [x])))
    {m : MapPollard H} {A : Pos → Option (Leaf H)} {C : H → Option Pos} (rep : Rep m T A C)
    (hfull : m.full = true) (hnl : m.numLeaves = BitVec.ofNat 64 (G.numLeaves + xs.length + 1))
    (fa : FA A C (G.addMany (xs ++ [x])).nodes (fun _ => False)) :
    ∃ m' A' C', MapPollard.undoSingleAdd ((destroyed G (xs.length + 1)).map (encE T G)) m
        = (m', .ok ((destroyed G xs.length).map (encE T G))) ∧
      Rep m' T A' C' ∧ m'.numLeaves = BitVec.ofNat 64 (G.numLeaves + xs.length) ∧ m'.full = true ∧
      FA A' C' (G.addMany xs).nodes (fun _ => False) := by
  have hT := rep.T_le
  have hnp : (G.addMany xs).numLeaves = G.numLeaves + xs.length := numLeaves_addMany' G xs
  rw [addMany_snoc] at hyp fa
  have hll : ((G.addMany xs).add x).liveLeaves = (G.addMany xs).liveLeaves ++ [x] := by
    simp [Forest.add, Forest.liveLeaves, List.filterMap_append]
  have hyG : Hyg (G.addMany xs) := by
    refine ⟨?_, ?_, ?_⟩
    · have := hyp.nodup; rw [hll] at this; exact (List.nodup_append.1 this).1
    · intro y hy; exact hyp.nz y (by rw [hll]; exact List.mem_append_left _ hy)
    · intro y hy; exact hyp.nph y (by rw [hll]; exact List.mem_append_left _ hy)
  have hx0 : x ≠ zero := hyp.nz x (by rw [hll]; simp)
  have hxph : ∀ u v : H, x ≠ ph u v := hyp.nph x (by rw [hll]; simp)
  have hxfresh : x ∉ (G.addMany xs).liveLeaves := by
    intro hmem
    have := hyp.nodup; rw [hll] at this
    exact (List.nodup_append.1 this).2.2 x hmem x (by simp) rfl
  obtain ⟨t, c, htc⟩ := exists_trailing_ones (G.numLeaves + xs.length)
  have ht63 : t ≤ 63 := trailing_le_63 htc (by omega)
  obtain ⟨Y, os, hlen, hdec, hdec', _, _⟩ := add_decomp (G.addMany xs) x (hnp.trans htc) ht63
  rw [hnp] at hdec hdec'
  have inv0 : FAq A C (PForest.nodes (Y ++ [((os.reverse.length, (G.numLeaves + xs.length) >>> os.reverse.length),
      some (mergeLow os.reverse.reverse (.leaf x)))])) (fun _ => False)
      (os.reverse.length, (G.numLeaves + xs.length) >>> os.reverse.length) := by
    rw [List.length_reverse, List.reverse_reverse, hlen, ← hdec', nodes_ofForest]
    exact Or.inl fa
  obtain ⟨m', A', C', hloop, rep', hnl', hfl', fa'⟩ := funadd_levels G xs x nz hn63 hfit htc hyG hx0 hxph hxfresh
    os.reverse Y (by rw [List.length_reverse, hlen]; exact Nat.le_refl _) (by rw [List.reverse_reverse]; exact hdec.symm)
    m A C rep hfull inv0
  rw [List.length_reverse, hlen, filter_all _ _ (fun a ha => by simpa using newRows_lt G htc a ha), ← destroyed_succ] at hloop
  have hsh : (G.numLeaves + xs.length) >>> t = 2 * c := by rw [htc]; exact shiftRight_trailing t c
  rw [hsh] at hloop
  refine ⟨{ m' with numLeaves := m'.numLeaves - 1 }, A', C', ?_, ?_, ?_, hfl', fa'⟩
  · rw [undoSingleAdd_start rep.rows hT hnl hn63 hfit htc, hloop]
  · exact ⟨rep'.T_le, rep'.rows, rep'.keys, rep'.node, rep'.dom, rep'.cache, rep'.cdom⟩
  · show m'.numLeaves - 1 = _
    rw [hnl', hnl, BitVec.ofNat_add]
    exact BitVec.add_sub_cancel _ _

/-- **the loop of `undoAdd` on a full forest**: all additions `xs` are taken back, the last one first -/
theorem funadd_loop (nz : NZ H) {T : Nat} (G : Forest H) : ∀ (xs : List H),
    G.numLeaves + xs.length < 2 ^ 63 → forestRows (G.numLeaves + xs.length) ≤ T → Hyg (G.addMany xs) →
    ∀ {m : MapPollard H} {A : Pos → Option (Leaf H)} {C : H → Option Pos}, Rep m T A C → m.full = true →
    m.numLeaves = BitVec.ofNat 64 (G.numLeaves + xs.length) →
    FA A C (G.addMany xs).nodes (fun _ => False) →
    ∃ m' A' C', MapPollard.undoAddLoop xs.length ((destroyed G xs.length).map (encE T G)) m = (m', .ok ()) ∧
      Rep m' T A' C' ∧ m'.numLeaves = BitVec.ofNat 64 G.numLeaves ∧ m'.full = true ∧
      FA A' C' G.nodes (fun _ => False) := by
  intro xs0
  generalize hk : xs0.length = k
  induction k generalizing xs0 with
  | zero =>
    have : xs0 = [] := List.length_eq_zero_iff.1 hk
    subst this
    intro _ _ _ m A C rep hfull hnl fa
    refine ⟨m, A, C, rfl, rep, hnl, hfull, ?_⟩
    have : G.addMany [] = G := by simp [Forest.addMany]
    rw [this] at fa
    exact fa
  | succ k ih =>
    have hne : xs0 ≠ [] := by intro e; subst e; cases hk
    obtain ⟨xs, x, rfl⟩ : ∃ xs x, xs0 = xs ++ [x] := ⟨xs0.dropLast, xs0.getLast hne, (List.dropLast_concat_getLast hne).symm⟩
    have hk' : xs.length = k := by simpa using hk
    intro hn63 hfit hyp m A C rep hfull hnl fa
    subst hk'
    rw [← Nat.add_assoc] at hn63 hfit hnl
    obtain ⟨m1, A1, C1, hrun, rep1, hnl1, hfl1, fa1⟩ := funadd_single nz G xs x hn63 hfit hyp rep hfull hnl fa
    have hyp1 : Hyg (G.addMany xs) := by
      rw [addMany_snoc] at hyp
      have hll : ((G.addMany xs).add x).liveLeaves = (G.addMany xs).liveLeaves ++ [x] := by
        simp [Forest.add, Forest.liveLeaves, List.filterMap_append]
      refine ⟨?_, ?_, ?_⟩
      · have := hyp.nodup; rw [hll] at this; exact (List.nodup_append.1 this).1
      · intro y hy; exact hyp.nz y (by rw [hll]; exact List.mem_append_left _ hy)
      · intro y hy; exact hyp.nph y (by rw [hll]; exact List.mem_append_left _ hy)
    obtain ⟨m2, A2, C2, hrun2, rep2, hnl2, hfl2, fa2⟩ := ih xs rfl (by omega)
      (Nat.le_trans (forestRows_mono_succ _) hfit) hyp1 rep1 hfl1 hnl1 fa1
    refine ⟨m2, A2, C2, ?_, rep2, hnl2, hfl2, fa2⟩
    unfold MapPollard.undoAddLoop
    rw [hrun]
    exact hrun2

end UtreexoVerif.Proofs.MapFullUndoAdd

section Axioms
open UtreexoVerif.Proofs.MapFullUndoAdd
#print axioms funadd_loop
end Axioms
