/-
  Restoring a VALID stream on the heap: the parse of `encodePollard F` is the record forest of
  `F` (`restoreL_encode`), and a heap carrying that record forest in its niece pointers
  (`LRoots`, what `buildRoots` builds) REPRESENTS `F` in the sense of `ReprRoots` / `Abs`
  (`reprRoots_of_lroots`): niece pointers of a node = children of its sibling, inner data =
  parent hashes (they were written that way), `NodeMap` insertions = exactly the leaves.
-/
import UtreexoVerif.Proofs.PollardHeapSerialB
set_option linter.unusedSectionVars false
set_option linter.unusedVariables false
set_option linter.unusedSimpArgs false

namespace UtreexoVerif.Proofs.PollardHeapSerial
open UtreexoVerif UtreexoVerif.Model UtreexoVerif.Model.PollardHeap UtreexoVerif.Spec Hasher
open UtreexoVerif.Model.Serial UtreexoVerif.Proofs.Serial UtreexoVerif.Proofs.PollardHeap

variable {H : Type} [DecidableEq H] [Hasher H] [HashBytes H]

/-! ### the record tree of a specification tree -/

/-- the records `writeOne` writes for the non-root node `n` with sibling `s` -/
def LNode.ofNode : CTree H → CTree H → LNode
  | n, .leaf _ => .dead (toBytes n.hash) (isLeafT n)
  | n, .node sl sr => .fork (toBytes n.hash) (isLeafT n) (LNode.ofNode sl sr) (LNode.ofNode sr sl)

/-- the records for a root (a root is its own "sibling"; an empty root is a childless all-zero node) -/
def LNode.ofRoot (t : Option (CTree H)) : LNode := LNode.ofNode (selfT t) (selfT t)

theorem isLeafT_node (a b : CTree H) : isLeafT (CTree.node a b) = false := rfl
theorem isLeafT_leaf (x : H) : isLeafT (CTree.leaf x) = true := rfl

theorem flag_beq (b : Bool) : (flag b == 1#8) = b := by cases b <;> decide

/-- the parse of what `writeOne` wrote for `n` (sibling `s`), followed by anything -/
theorem readOneL_encNode (ok : HashBytesOK H) : ∀ (s n : CTree H) (fuel : Nat) (r : Reader)
    (rest : List Byte), r.data = encNode n s ++ rest → (encNode n s).length ≤ fuel →
    ∃ r', readOneL fuel r = ⟨(encNode n s).length, .ok (LNode.ofNode n s, r')⟩ ∧ r'.data = rest := by
  intro s
  induction s with
  | leaf x =>
    intro n fuel r rest hd hf
    have hlen : (encNode n (CTree.leaf x)).length = 34 := by simp [encNode, ok.len]
    obtain ⟨f, rfl⟩ : ∃ f, fuel = f + 1 := ⟨fuel - 1, by omega⟩
    simp only [encNode, List.append_assoc] at hd
    obtain ⟨r1, e1, d1, _⟩ := readFull_append r (toBytes n.hash) _ hd
    rw [ok.len] at e1
    obtain ⟨r2, e2, d2, _⟩ := readFull_append r1 [flag (isLeafT n)] _ (by rw [d1]; rfl)
    obtain ⟨r3, e3, d3, _⟩ := readFull_append r2 [0#8] _ (by rw [d2]; rfl)
    simp only [List.length_singleton] at e2 e3
    refine ⟨r3, ?_, d3⟩
    rw [hlen]
    simp [readOneL, e1, e2, e3, LNode.ofNode, flag_beq]
  | node sl sr ihl ihr =>
    intro n fuel r rest hd hf
    have hlen : (encNode n (CTree.node sl sr)).length = 34 + (encNode sl sr).length + (encNode sr sl).length := by
      simp [encNode, ok.len]; omega
    obtain ⟨f, rfl⟩ : ∃ f, fuel = f + 1 := ⟨fuel - 1, by omega⟩
    simp only [encNode, List.append_assoc] at hd
    obtain ⟨r1, e1, d1, _⟩ := readFull_append r (toBytes n.hash) _ hd
    rw [ok.len] at e1
    obtain ⟨r2, e2, d2, _⟩ := readFull_append r1 [flag (isLeafT n)] _ (by rw [d1]; rfl)
    obtain ⟨r3, e3, d3, _⟩ := readFull_append r2 [1#8] _ (by rw [d2]; rfl)
    simp only [List.length_singleton] at e2 e3
    obtain ⟨r4, e4, d4⟩ := ihr sl f r3 (encNode sr sl ++ rest) (by rw [d3]) (by omega)
    obtain ⟨r5, e5, d5⟩ := ihl sr f r4 rest (by rw [d4]) (by omega)
    refine ⟨r5, ?_, d5⟩
    rw [hlen]
    simp only [readOneL, e1, e2, e3, List.headD_cons, e4, e5, LNode.ofNode, flag_beq]
    simp
    try omega

theorem readRootsL_enc (ok : HashBytesOK H) : ∀ (ts : List (Option (CTree H))) (fuel : Nat) (r : Reader)
    (total : Nat) (rest : List Byte),
    r.data = ts.flatMap encRoot ++ rest → (ts.flatMap encRoot).length ≤ fuel →
    ∃ r', readRootsL fuel ts.length r total =
        ⟨total + (ts.flatMap encRoot).length, .ok (ts.map LNode.ofRoot, r')⟩ ∧ r'.data = rest := by
  intro ts
  induction ts with
  | nil =>
    intro fuel r total rest hd _
    exact ⟨r, by simp [readRootsL], by simpa using hd⟩
  | cons t ts ih =>
    intro fuel r total rest hd hf
    simp only [List.flatMap_cons, List.length_append, List.append_assoc] at hd hf ⊢
    rw [encRoot_self] at hd hf
    obtain ⟨r1, e1, d1⟩ := readOneL_encNode ok (selfT t) (selfT t) fuel r _ hd (by omega)
    obtain ⟨r2, e2, d2⟩ := ih fuel r1 (total + (encNode (selfT t) (selfT t)).length) rest d1 (by omega)
    refine ⟨r2, ?_, d2⟩
    simp only [List.length_cons, readRootsL, e1, e2, List.map_cons, LNode.ofRoot, encRoot_self]
    simp [Nat.add_assoc]

/-- **the parse of a valid stream** is the record forest of `F` -/
theorem restoreL_encode (ok : HashBytesOK H) (F : Forest H) (hn : F.numLeaves < 2 ^ 64)
    (r : Reader) (hd : r.data = encodePollard F) :
    restoreL r = ⟨(encodePollard F).length, .ok (BitVec.ofNat 64 F.numLeaves,
      BitVec.ofNat 64 (numDead F), (F.trees.map (·.2)).map LNode.ofRoot)⟩ := by
  unfold encodePollard at hd
  simp only [List.append_assoc] at hd
  obtain ⟨r1, e1, d1, _⟩ := readFull_append r (le64 (BitVec.ofNat 64 F.numLeaves)) _ hd
  obtain ⟨r2, e2, d2, _⟩ := readFull_append r1 (le64 (BitVec.ofNat 64 (numDead F))) _ d1
  rw [le64_length] at e1 e2
  have hroots : (numRoots (BitVec.ofNat 64 F.numLeaves)).toNat = (F.trees.map (·.2)).length := by
    rw [numRoots_eq hn]
    simp [Forest.trees]
  have hflat : F.trees.flatMap (fun t => encRoot t.2) = (F.trees.map (·.2)).flatMap encRoot := by
    rw [List.flatMap_map]
  have hlen : r.data.length = 16 + ((F.trees.map (·.2)).flatMap encRoot).length := by
    rw [hd, ← hflat]; simp [le64_length]; omega
  obtain ⟨r3, e3, _⟩ := readRootsL_enc ok (F.trees.map (·.2)) (r.data.length + 1) r2 16 []
    (by rw [d2, hflat]; simp) (by omega)
  unfold restoreL
  simp only [e1, e2, unle64_le64, hroots, e3]
  congr 1
  unfold encodePollard; rw [hflat]; simp [le64_length]; omega

/-! ### from the niece structure to the child structure -/

theorem LShape.data {hp : Heap H} {n : Nat} {t : LNode} {fp : List Nat} {ents : List (H × Nat)}
    (h : LShape hp n t fp ents) : ∃ nn, hp[n]? = some nn ∧ nn.data = ofBytes t.hb := by
  cases h with
  | dead h1 h2 => exact ⟨_, h1, h2⟩
  | fork h1 h2 => exact ⟨_, h1, h2⟩

theorem ofNode_hb (n s : CTree H) : (LNode.ofNode n s).hb = toBytes n.hash := by
  cases s <;> rfl

theorem sub_leaf_lv {hp : Heap H} {n s : Nat} {t : CTree H} {fp : List Nat} {lv : List (H × Nat)}
    (h : Sub hp n s t fp lv) (hl : isLeafT t = true) : lv = [(t.hash, n)] := by
  cases h with
  | leaf => rfl
  | node => simp [isLeafT] at hl

/-- **niece structure ⇒ child structure.**  If the sibling `s` of `n` carries the record tree
written for `ts` (sibling `tn`) and `n`'s data is `tn.hash`, then `n` carries the collapsed
tree `tn` with its children hanging off `s`; the footprint is the one of `s`'s record tree, and
the `NodeMap` insertions of `s`'s record tree are `s` itself (when `ts` is a leaf) and the
leaves strictly below `n` (all-zero hashes are not inserted). -/
theorem sub_of_lshape (ok : HashBytesOK H) {hp : Heap H} : ∀ (tn ts : CTree H) (n s : Nat)
    (fps : List Nat) (es : List (H × Nat)) (nn : PolNode H),
    hp[n]? = some nn → nn.data = tn.hash → LShape hp s (LNode.ofNode ts tn) fps es →
    ∃ fa la, Sub hp n s tn fa la ∧ fa.Perm fps ∧
      ∀ e, e ∈ es ↔ (isLeafT ts = true ∧ ts.hash ≠ zero ∧ e = (ts.hash, s)) ∨
        (isLeafT tn = false ∧ e ∈ la ∧ e.1 ≠ zero) := by
  intro tn
  induction tn with
  | leaf x =>
    intro ts n s fps es nn hn hd hs
    simp only [LNode.ofNode] at hs
    cases hs with
    | dead h1 h2 h3 h4 h5 =>
      refine ⟨[], [(x, n)], Sub.leaf hn hd h1 h3 h4, List.Perm.refl _, ?_⟩
      intro e
      simp only [entH, ok.rt, isLeafT_leaf, Bool.true_eq_false, false_and, or_false]
      by_cases hl : isLeafT ts = true <;> by_cases hz : ts.hash = zero <;> simp [hl, hz]
  | node a b iha ihb =>
    intro ts n s fps es nn hn hd hs
    simp only [LNode.ofNode] at hs
    cases hs with
    | fork h1 h2 h3 h4 h5 h6 h7 h8 h9 sl sr =>
      rename_i l r sn ln rn fl fr el er
      obtain ⟨ln', hl1, hl2⟩ := sl.data
      obtain ⟨rn', hr1, hr2⟩ := sr.data
      rw [h6] at hl1; cases hl1
      rw [h7] at hr1; cases hr1
      rw [ofNode_hb, ok.rt] at hl2 hr2
      obtain ⟨fa', la', A1, A2, A3⟩ := iha b l r fr er ln h6 hl2 sr
      obtain ⟨fb', lb', B1, B2, B3⟩ := ihb a r l fl el rn h7 hr2 sl
      refine ⟨l :: r :: (fa' ++ fb'), la' ++ lb', Sub.node hn hd h1 h3 h4 h6 h7 h8 h9 A1 B1, ?_, ?_⟩
      · refine List.Perm.cons _ (List.Perm.cons _ ?_)
        exact (A2.append B2).trans List.perm_append_comm
      · intro e
        simp only [List.mem_append, A3 e, B3 e, isLeafT_node, true_and]
        have ha : isLeafT a = true → la' = [(a.hash, l)] := sub_leaf_lv A1
        have hb : isLeafT b = true → lb' = [(b.hash, r)] := sub_leaf_lv B1
        have hent : e ∈ (entH (toBytes ts.hash) (isLeafT ts) s : List (H × Nat)) ↔
            (isLeafT ts = true ∧ ts.hash ≠ zero ∧ e = (ts.hash, s)) := by
          simp only [entH, ok.rt]
          by_cases hl : isLeafT ts = true <;> by_cases hz : ts.hash = zero <;> simp [hl, hz]
        rw [hent]
        cases hla : isLeafT a <;> cases hlb : isLeafT b
        · simp; grind
        · have := hb hlb; subst this; simp; grind
        · have := ha hla; subst this; simp; grind
        · have := ha hla; have := hb hlb; subst_vars; simp; grind

/-- a root carrying the record tree written for `t` represents `t` -/
theorem reprRoot_of_lshape (ok : HashBytesOK H) {hp : Heap H} {r : Nat} {rn : PolNode H}
    (t : Option (CTree H)) {fp : List Nat} {es : List (H × Nat)} (h1 : hp[r]? = some rn)
    (h2 : rn.aunt = none) (hs : LShape hp r (LNode.ofRoot t) fp es) :
    ∃ fp' lv, ReprRoot hp r t fp' lv ∧ fp'.Perm fp ∧ ∀ e, e ∈ es ↔ (e ∈ lv ∧ e.1 ≠ zero) := by
  match t, hs with
  | none, hs =>
    simp only [LNode.ofRoot, selfT, LNode.ofNode, CTree.hash] at hs
    cases hs with
    | dead g1 g2 g3 g4 g5 =>
      rw [h1] at g1; cases g1
      rw [ok.rt] at g2
      refine ⟨[], [], ⟨⟨rn, h1, h2, g2, g3, g4⟩, rfl, rfl⟩, List.Perm.refl _, ?_⟩
      intro e; simp [entH, ok.rt]
  | some t, hs =>
    simp only [LNode.ofRoot, selfT] at hs
    obtain ⟨rn', g1, g2⟩ := hs.data
    rw [h1] at g1; cases g1
    rw [ofNode_hb, ok.rt] at g2
    obtain ⟨fa, la, A1, A2, A3⟩ := sub_of_lshape ok t t r r fp es rn h1 g2 hs
    refine ⟨fa, la, ⟨⟨rn, h1, h2⟩, A1⟩, A2, ?_⟩
    intro e
    rw [A3 e]
    cases hl : isLeafT t
    · simp
    · have := sub_leaf_lv A1 hl
      subst this
      simp
      constructor
      · rintro ⟨h, rfl⟩; exact ⟨rfl, h⟩
      · rintro ⟨rfl, h⟩; exact ⟨h, rfl⟩

/-- **the roots**: a heap carrying the record forest written for `ts` represents `ts` -/
theorem reprRoots_of_lroots (ok : HashBytesOK H) {hp : Heap H} : ∀ (ts : List (Option (CTree H)))
    (rs owned : List Nat) (ents : List (H × Nat)), LRoots hp rs (ts.map LNode.ofRoot) owned ents →
    ∃ owned' lv, ReprRoots hp rs ts owned' lv ∧ owned'.Perm owned ∧
      ∀ e, e ∈ ents ↔ (e ∈ lv ∧ e.1 ≠ zero) := by
  intro ts
  induction ts with
  | nil =>
    intro rs owned ents h
    cases h
    exact ⟨[], [], ReprRoots.nil, List.Perm.refl _, by simp⟩
  | cons t ts ih =>
    intro rs owned ents h
    simp only [List.map_cons] at h
    cases h with
    | cons h1 h2 h3 h4 =>
      rename_i r rn fp e rs' owned' es
      obtain ⟨fp', lv, A1, A2, A3⟩ := reprRoot_of_lshape ok t h1 h2 h3
      obtain ⟨owned'', lvs, B1, B2, B3⟩ := ih rs' owned' es h4
      refine ⟨r :: fp' ++ owned'', lv ++ lvs, ReprRoots.cons A1 B1, ?_, ?_⟩
      · simp only [List.cons_append]
        exact List.Perm.cons _ (A2.append B2)
      · intro e'
        simp only [List.mem_append, A3 e', B3 e']
        grind

/-! ### `NodeMap` after the insertions -/

theorem mapSet_fresh {m : List (H × Nat)} {k : H} {v : Nat} (h : k ∉ m.map (·.1)) :
    mapSet m k v = (k, v) :: m := by
  unfold mapSet
  have : (m.lookup k).isSome = false := by
    cases hl : m.lookup k with
    | none => rfl
    | some v' =>
      exfalso; apply h
      have := List.lookup_eq_some_iff.1 hl
      obtain ⟨l1, l2, e, _⟩ := this
      rw [e]; simp
  simp [this]

theorem mapSet_same {m : List (H × Nat)} {k : H} {v : Nat} (h : (k, v) ∈ m)
    (hf : ∀ a ∈ m, a.1 = k → a = (k, v)) : mapSet m k v = m := by
  unfold mapSet
  have : (m.lookup k).isSome = true := by
    cases hl : m.lookup k with
    | some v' => rfl
    | none =>
      exfalso
      rw [List.lookup_eq_none_iff] at hl
      have := hl (k, v) h
      simp at this
  simp only [this, if_true]
  conv => rhs; rw [← List.map_id m]
  apply List.map_congr_left
  intro a ha
  by_cases e : a.1 = k
  · simp [e, (hf a ha e)]
  · simp [e]

/-- inserting entries that agree with each other and with the map (same key ⇒ same entry):
the map holds exactly the old and the inserted entries, keys still distinct -/
theorem mapSetAll_mem : ∀ (es m : List (H × Nat)), (m.map (·.1)).Nodup →
    (∀ a ∈ m ++ es, ∀ b ∈ m ++ es, a.1 = b.1 → a = b) →
    ((mapSetAll m es).map (·.1)).Nodup ∧ ∀ e, e ∈ mapSetAll m es ↔ (e ∈ m ∨ e ∈ es) := by
  intro es
  induction es with
  | nil => intro m h _; exact ⟨h, by simp [mapSetAll]⟩
  | cons x es ih =>
    intro m hnd hf
    obtain ⟨k, v⟩ := x
    have hstep : mapSetAll m ((k, v) :: es) = mapSetAll (mapSet m k v) es := rfl
    rw [hstep]
    by_cases hk : k ∈ m.map (·.1)
    · obtain ⟨a, ha, hak⟩ := List.mem_map.1 hk
      have hav : a = (k, v) := hf a (by simp [ha]) (k, v) (by simp) hak
      subst hav
      have hsame : mapSet m k v = m := mapSet_same ha (fun b hb hbk => hf b (by simp [hb]) (k, v) (by simp) hbk)
      rw [hsame]
      obtain ⟨i1, i2⟩ := ih m hnd (fun a ha' b hb' => hf a (by simp at ha' ⊢; grind) b (by simp at hb' ⊢; grind))
      refine ⟨i1, fun e => ?_⟩
      rw [i2 e]
      simp only [List.mem_cons]
      constructor
      · rintro (h | h)
        · exact Or.inl h
        · exact Or.inr (Or.inr h)
      · rintro (h | h | h)
        · exact Or.inl h
        · subst h; exact Or.inl ha
        · exact Or.inr h
    · rw [mapSet_fresh hk]
      obtain ⟨i1, i2⟩ := ih ((k, v) :: m) (by simp [hnd]; simpa using hk)
        (fun a ha' b hb' => hf a (by simp at ha' ⊢; grind) b (by simp at hb' ⊢; grind))
      refine ⟨i1, fun e => ?_⟩
      rw [i2 e]
      simp only [List.mem_cons]
      grind

end UtreexoVerif.Proofs.PollardHeapSerial
