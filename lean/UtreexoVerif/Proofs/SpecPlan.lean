/-
  The canonical proof of the specification forest is a plan for `calculateHashes`.

  For a valuation `f` of collapsed subtrees that satisfies the `getNextHash` recurrence
  (`f (node a b) = comb (f a) (f b)`) and agrees with the hash outside the paths, the path set
  `pathSet F targets` with values `valAt f F` and proof values `valAt hash F` is a `Plan`
  (`spec_plan`), the canonical proof hashes are exactly the hashes the plan consumes
  (`canon_proof`), and therefore `calculateHashes` on the canonical proof returns
  `valAt f F` of the touched roots and of every path node (`calc_generic`).
-/
import UtreexoVerif.Proofs.CalcPlan
import UtreexoVerif.Proofs.SpecSubs

namespace UtreexoVerif.Proofs.SpecPlan
open UtreexoVerif UtreexoVerif.GoInt UtreexoVerif.Proofs Spec Model Hasher
open UtreexoVerif.Proofs.SpecNodes UtreexoVerif.Proofs.SpecView UtreexoVerif.Proofs.Sorted
open UtreexoVerif.Proofs.CalcGeo UtreexoVerif.Proofs.CalcPlan UtreexoVerif.Proofs.SpecSubs
open UtreexoVerif.Proofs.CalcSound

section
set_option linter.unusedSectionVars false
variable {H : Type} [DecidableEq H] [Hasher H]

/-! ### `mapM` in `Option` -/

theorem mapM_some {α β : Type} (f : α → Option β) (d : β) : ∀ (l : List α) (r : List β),
    l.mapM f = some r → r = l.map (fun a => (f a).getD d) ∧ ∀ a ∈ l, ∃ b, f a = some b := by
  intro l
  induction l with
  | nil =>
    intro r h
    simp only [List.mapM_nil] at h
    injection h with h
    subst h
    exact ⟨rfl, by simp⟩
  | cons a l ih =>
    intro r h
    rw [List.mapM_cons] at h
    cases hfa : f a with
    | none => rw [hfa] at h; simp at h
    | some b =>
      rw [hfa] at h
      cases hl : l.mapM f with
      | none => rw [hl] at h; simp at h
      | some bs =>
        rw [hl] at h
        simp only [Option.pure_def, Option.bind_eq_bind, Option.bind_some, Option.some.injEq] at h
        obtain ⟨h1, h2⟩ := ih bs hl
        subst h
        refine ⟨by simp [hfa, ← h1], ?_⟩
        intro x hx
        rcases List.mem_cons.1 hx with rfl | hx
        · exact ⟨b, hfa⟩
        · exact h2 x hx

/-! ### values attached to positions -/

/-- the subtree at a position, if any -/
def subAt (F : Forest H) (p : Pos) : Option (CTree H) :=
  (((treeRows F.numLeaves).flatMap (treeSubs F)).find? (fun x => x.1 == p)).map (·.2)

theorem subAt_of {F : Forest H} {h : Nat} {p : Pos} {t : CTree H} (s : SubAtT F h p t) :
    subAt F p = some t := by
  unfold subAt
  cases hf : ((treeRows F.numLeaves).flatMap (treeSubs F)).find? (fun x => x.1 == p) with
  | none =>
    have := List.find?_eq_none.1 hf (p, t) (List.mem_flatMap.2 ⟨h, s.1, s.2⟩)
    simp at this
  | some y =>
    have hy := List.mem_of_find?_eq_some hf
    have hp := List.find?_some hf
    simp only [beq_iff_eq] at hp
    obtain ⟨h', hh', hy'⟩ := List.mem_flatMap.1 hy
    have s' : SubAtT F h' p y.2 := ⟨hh', by rw [← hp]; exact hy'⟩
    rw [(s.unique s').2]
    rfl

/-- the value of a valuation of subtrees at a position (zero where there is no node) -/
def valAt (f : CTree H → H) (F : Forest H) (p : Pos) : H :=
  match subAt F p with
  | some t => f t
  | none => zero

theorem valAt_of {f : CTree H → H} {F : Forest H} {h : Nat} {p : Pos} {t : CTree H}
    (s : SubAtT F h p t) : valAt f F p = f t := by
  unfold valAt
  rw [subAt_of s]

/-- the combination computed by `getNextHash`: a zero operand is skipped -/
def comb (x y : H) : H := if x = zero then y else if y = zero then x else ph x y

theorem getNextHash_comb (pos : U64) (x y : H) :
    getNextHash pos x y = if isLeftNiece pos then comb x y else comb y x := by
  unfold getNextHash comb
  by_cases hx : x = zero <;> by_cases hy : y = zero <;> cases isLeftNiece pos <;> simp [hx, hy]

/-- all leaves are non-zero -/
def Good (t : CTree H) : Prop := ∀ l ∈ t.leaves, l ≠ zero

theorem Good.left {a b : CTree H} (h : Good (.node a b)) : Good a :=
  fun l hl => h l (by simp [CTree.leaves, hl])

theorem Good.right {a b : CTree H} (h : Good (.node a b)) : Good b :=
  fun l hl => h l (by simp [CTree.leaves, hl])

theorem hash_ne_zero (hnz : ∀ a b : H, ph a b ≠ (zero : H)) {t : CTree H} (g : Good t) :
    t.hash ≠ zero := by
  cases t with
  | leaf l => exact g l (by simp [CTree.leaves])
  | node a b => exact hnz _ _

theorem hash_node_comb (hnz : ∀ a b : H, ph a b ≠ (zero : H)) {a b : CTree H} (ga : Good a)
    (gb : Good b) : (CTree.node a b).hash = comb a.hash b.hash := by
  unfold comb
  rw [if_neg (hash_ne_zero hnz ga), if_neg (hash_ne_zero hnz gb)]
  rfl

/-! ### the path set -/

/-- all positions on the paths from the targets to their roots, by row then offset -/
def pathSet (F : Forest H) (targets : List Pos) : List Pos :=
  Forest.sortDedup (targets.flatMap (Forest.pathUp F.numLeaves (F.rows + 1)))

theorem mem_pathSet {F : Forest H} {targets : List Pos} {p : Pos} :
    p ∈ pathSet F targets ↔ ∃ t ∈ targets, p ∈ Forest.pathUp F.numLeaves (F.rows + 1) t := by
  unfold pathSet
  rw [mem_sortDedup, List.mem_flatMap]

theorem pathSet_sorted (F : Forest H) (targets : List Pos) : (pathSet F targets).Pairwise PLt :=
  sortDedup_sorted _

theorem length_insertSorted_le (p : Pos) (l : List Pos) :
    (Forest.insertSorted p l).length ≤ l.length + 1 := by
  induction l with
  | nil => simp [Forest.insertSorted]
  | cons q qs ih =>
    unfold Forest.insertSorted
    split
    · simp
    · split
      · simp
      · simp only [List.length_cons]; omega

theorem length_sortDedup_le (l : List Pos) : (Forest.sortDedup l).length ≤ l.length := by
  unfold Forest.sortDedup
  induction l with
  | nil => simp
  | cons a l ih =>
    simp only [List.foldr_cons, List.length_cons]
    have := length_insertSorted_le a (List.foldr Forest.insertSorted [] l)
    omega

theorem length_pathSet_le (F : Forest H) (targets : List Pos) :
    (pathSet F targets).length ≤ targets.length * (F.rows + 2) := by
  unfold pathSet
  refine Nat.le_trans (length_sortDedup_le _) ?_
  induction targets with
  | nil => simp
  | cons t ts ih =>
    rw [List.flatMap_cons, List.length_append, List.length_cons, Nat.succ_mul]
    have := pathUp_length F.numLeaves (F.rows + 1) t
    omega

/-- the targets are leaf positions of the forest -/
def TargetsOK (F : Forest H) (targets : List Pos) : Prop :=
  ∀ t ∈ targets, ∃ h l, SubAtT F h t (.leaf l)

section paths
variable {F : Forest H} {targets : List Pos} (tok : TargetsOK F targets)
include tok

theorem pathSet_sub {p : Pos} (hp : p ∈ pathSet F targets) : ∃ h t, SubAtT F h p t := by
  obtain ⟨t, ht, hpt⟩ := mem_pathSet.1 hp
  obtain ⟨h, l, s⟩ := tok t ht
  have hh : h ≤ F.rows := le_forestRows_of_mem s.1
  obtain ⟨⟨t', s'⟩, _⟩ := pathUp_sub (F.rows + 1) t _ s (by omega) p hpt
  exact ⟨h, t', s'⟩

theorem pathSet_up {p : Pos} (hp : p ∈ pathSet F targets)
    (hr : isRootPos F.numLeaves p = false) : Spec.parent p ∈ pathSet F targets := by
  obtain ⟨t, ht, hpt⟩ := mem_pathSet.1 hp
  obtain ⟨h, l, s⟩ := tok t ht
  have hh : h ≤ F.rows := le_forestRows_of_mem s.1
  have := (pathUp_sub (F.rows + 1) t _ s (by omega) p hpt).2 hr
  exact mem_pathSet.2 ⟨t, ht, this⟩

theorem targets_sub_pathSet {t : Pos} (ht : t ∈ targets) : t ∈ pathSet F targets :=
  mem_pathSet.2 ⟨t, ht, mem_pathUp_self _ _ _⟩

theorem pathSet_gen {p : Pos} (hp : p ∈ pathSet F targets) :
    p ∈ targets ∨ ∃ c ∈ pathSet F targets, isRootPos F.numLeaves c = false ∧ Spec.parent c = p := by
  obtain ⟨t, ht, hpt⟩ := mem_pathSet.1 hp
  rcases pathUp_gen _ _ _ _ hpt with e | ⟨c, hc, hcr, hpc⟩
  · left; rw [e]; exact ht
  · right; exact ⟨c, mem_pathSet.2 ⟨t, ht, hc⟩, hcr, hpc⟩

/-- the root of the tree of every path node is on the paths -/
theorem pathSet_root {p : Pos} {h : Nat} {t : CTree H} (hp : p ∈ pathSet F targets)
    (s : SubAtT F h p t) : rootPos F.numLeaves h ∈ pathSet F targets := by
  obtain ⟨tg, htg, hpt⟩ := mem_pathSet.1 hp
  obtain ⟨h', l, stg⟩ := tok tg htg
  have hh : h' ≤ F.rows := le_forestRows_of_mem stg.1
  obtain ⟨⟨t', s'⟩, _⟩ := pathUp_sub (F.rows + 1) tg _ stg (by omega) p hpt
  have e : h = h' := (s.unique s').1
  subst e
  obtain ⟨t0, ht0, _, hm⟩ := stg.tree
  have sr := SubAtT.root stg.1 ht0
  have := pathUp_anc (F.rows + 1) t0 (rootPos F.numLeaves h) tg _ sr hm (by omega)
  exact mem_pathSet.2 ⟨tg, htg, this⟩

end paths

/-! ### the plan -/

/-- the targets as a predicate -/
def isTarget (targets : List Pos) (p : Pos) : Bool := decide (p ∈ targets)

theorem spec_plan {F : Forest H} {targets : List Pos} (tok : TargetsOK F targets)
    (hn : F.numLeaves ≤ 2 ^ 63) (hnz : ∀ a b : H, ph a b ≠ (zero : H)) (hlive : ∀ l ∈ F.liveLeaves, l ≠ (zero : H))
    (f : CTree H → H) (hf : ∀ a b : CTree H, Good a → Good b → f (.node a b) = comb (f a) (f b))
    (hout : ∀ c ∈ pathSet F targets, isRootPos F.numLeaves c = false → sib c ∉ pathSet F targets →
      ∀ h s', SubAtT F h (sib c) s' → f s' = s'.hash) :
    Plan F.numLeaves (pathSet F targets) (isTarget targets) (valAt f F) (valAt CTree.hash F) := by
  have good : ∀ {h p t}, SubAtT F h p t → Good t :=
    fun s l hl => hlive l (s.leaves_live l hl)
  refine ⟨pathSet_sorted F targets, ?_, ?_, ?_, ?_, ?_, ?_⟩
  · intro p hp
    obtain ⟨h, t, s⟩ := pathSet_sub tok hp
    exact s.inF
  · intro p hp hr
    obtain ⟨h, t, s⟩ := pathSet_sub tok hp
    have := (s.parent hr).1
    have hh : h ≤ F.rows := le_forestRows_of_mem s.1
    exact ⟨by show p.1 < F.rows; omega, pathSet_up tok hp hr⟩
  · intro p hp
    rcases pathSet_gen tok hp with h | h
    · left; simp [isTarget, h]
    · right; exact h
  · intro c hc hr
    obtain ⟨h, t, s⟩ := pathSet_sub tok hc
    obtain ⟨_, s', hpar, _⟩ := s.parent hr
    simp only [isTarget, decide_eq_false_iff_not]
    intro hmem
    obtain ⟨h', l, sl⟩ := tok _ hmem
    have := (hpar.unique sl).2
    split at this <;> cases this
  · intro c hc hr
    obtain ⟨h, t, s⟩ := pathSet_sub tok hc
    obtain ⟨hlt, s', hpar, hsib⟩ := s.parent hr
    have htr := rows_le_63 hn
    rw [valAt_of hpar, valAt_of s, getNextHash_comb]
    have hX : (if sib c ∈ pathSet F targets then valAt f F (sib c) else valAt CTree.hash F (sib c)) =
        f s' := by
      split
      · exact valAt_of hsib
      · rename_i hns
        rw [valAt_of hsib, hout c hc hr hns h s' hsib]
    rw [hX, isLeftNiece_E htr s.inF.valid]
    by_cases he : c.2 % 2 = 0
    · rw [if_pos he, hf _ _ (good s) (good hsib)]
      simp [he]
    · rw [if_neg he, hf _ _ (good hsib) (good s)]
      simp [he]
  · intro c hc hr hns
    obtain ⟨h, t, s⟩ := pathSet_sub tok hc
    obtain ⟨_, s', _, hsib⟩ := s.parent hr
    rw [valAt_of hsib]
    exact hash_ne_zero hnz (good hsib)

/-! ### what `canon` returns -/

theorem canon_spec {F : Forest H} {L : List H} {targets : List Pos} {hashes : List H}
    (hc : F.canon L = some (targets, hashes)) :
    targets = L.map (fun l => (F.posOf l).getD (0, 0)) ∧ (∀ l ∈ L, ∃ p, F.posOf l = some p) ∧
    hashes = (F.proofPositions targets).map (fun p => (F.nodeAt p).getD zero) ∧
    (∀ p ∈ F.proofPositions targets, ∃ x, F.nodeAt p = some x) := by
  unfold Forest.canon at hc
  cases h1 : L.mapM F.posOf with
  | none => rw [h1] at hc; simp at hc
  | some ts =>
    rw [h1] at hc
    simp only [bind, Option.bind] at hc
    cases h2 : (F.proofPositions ts).mapM F.nodeAt with
    | none => rw [h2] at hc; simp at hc
    | some hs =>
      rw [h2] at hc
      simp only [pure, Option.some.injEq, Prod.mk.injEq] at hc
      obtain ⟨rfl, rfl⟩ := hc
      obtain ⟨a1, a2⟩ := mapM_some F.posOf (0, 0) L ts h1
      obtain ⟨b1, b2⟩ := mapM_some F.nodeAt zero _ hs h2
      exact ⟨a1, a2, b1, b2⟩

theorem canon_targetsOK {F : Forest H} {L : List H} {targets : List Pos} {hashes : List H}
    (hc : F.canon L = some (targets, hashes)) : TargetsOK F targets := by
  obtain ⟨ht, hp, _, _⟩ := canon_spec hc
  intro t htm
  rw [ht] at htm
  obtain ⟨l, hl, rfl⟩ := List.mem_map.1 htm
  obtain ⟨p, hpl⟩ := hp l hl
  obtain ⟨h, s⟩ := posOf_sub hpl
  exact ⟨h, l, by rw [hpl]; exact s⟩

/-- the target of a requested leaf carries that leaf -/
theorem canon_target_leaf {F : Forest H} {L : List H} {targets : List Pos} {hashes : List H}
    (hc : F.canon L = some (targets, hashes)) {l : H} (hl : l ∈ L) :
    ∃ h, SubAtT F h ((F.posOf l).getD (0, 0)) (.leaf l) := by
  obtain ⟨_, hp, _, _⟩ := canon_spec hc
  obtain ⟨p, hpl⟩ := hp l hl
  obtain ⟨h, s⟩ := posOf_sub hpl
  exact ⟨h, by rw [hpl]; exact s⟩

theorem canon_targets_nodup {F : Forest H} {L : List H} {targets : List Pos} {hashes : List H}
    (hc : F.canon L = some (targets, hashes)) (hnd : L.Nodup) : targets.Nodup := by
  obtain ⟨ht, _, _, _⟩ := canon_spec hc
  rw [ht]
  unfold List.Nodup
  rw [List.pairwise_map]
  apply List.Pairwise.imp_of_mem _ hnd
  intro a b ha hb hab e
  obtain ⟨h1, s1⟩ := canon_target_leaf hc ha
  obtain ⟨h2, s2⟩ := canon_target_leaf hc hb
  rw [e] at s1
  have := (s1.unique s2).2
  injection this with this
  exact hab this

/-! ### the canonical proof positions are the positions whose hashes the plan consumes -/

theorem sib_lt {a b : Pos} (h : PLt a b) (hs : b ≠ sib a) : PLt (sib a) (sib b) := by
  obtain ⟨r, o⟩ := a
  obtain ⟨r', o'⟩ := b
  unfold PLt sib at *
  simp only [ne_eq, Prod.mk.injEq, not_and] at hs
  simp only at h ⊢
  rcases h with h | ⟨h1, h2⟩
  · left; exact h
  · right
    refine ⟨h1, ?_⟩
    have := hs h1.symm
    by_cases e1 : o % 2 = 0 <;> by_cases e2 : o' % 2 = 0 <;>
      simp only [e1, e2, if_true, if_false] at this ⊢ <;> omega

theorem proofPositions_eq (F : Forest H) (targets : List Pos) :
    F.proofPositions targets =
      ((pathSet F targets).filter (needsProof F.numLeaves (pathSet F targets))).map sib := by
  show Forest.sortDedup (((pathSet F targets).filter (fun p => !isRootPos F.numLeaves p)).map sib
    |>.filter (fun s => !(pathSet F targets).contains s)) = _
  have hpred : ∀ a : Pos, (((fun s => !(pathSet F targets).contains s) ∘ sib) a &&
      !isRootPos F.numLeaves a) = needsProof F.numLeaves (pathSet F targets) a := by
    intro a
    simp [needsProof, Bool.and_comm]
  rw [List.filter_map, List.filter_filter, List.filter_congr (fun a _ => hpred a)]
  apply sortDedup_eq_self
  rw [List.pairwise_map]
  have hs : ((pathSet F targets).filter (needsProof F.numLeaves (pathSet F targets))).Pairwise PLt :=
    (pathSet_sorted F targets).sublist List.filter_sublist
  apply List.Pairwise.imp_of_mem _ hs
  intro a b ha hb hab
  apply sib_lt hab
  intro e
  have h1 := (List.mem_filter.1 ha).2
  have h2 := (List.mem_filter.1 hb).1
  simp only [needsProof, Bool.and_eq_true, Bool.not_eq_eq_eq_not, Bool.not_true,
    decide_eq_false_iff_not] at h1
  exact h1.2 (by rw [← e]; exact h2)

theorem canon_proof {F : Forest H} {L : List H} {targets : List Pos} {hashes : List H}
    (hc : F.canon L = some (targets, hashes)) :
    hashes = (((pathSet F targets).filter (needsProof F.numLeaves (pathSet F targets))).map sib).map
      (valAt CTree.hash F) := by
  have tok := canon_targetsOK hc
  obtain ⟨_, _, hh, _⟩ := canon_spec hc
  rw [hh, proofPositions_eq]
  apply List.map_congr_left
  intro x hx
  obtain ⟨c, hcm, rfl⟩ := List.mem_map.1 hx
  obtain ⟨hcP, hnp⟩ := List.mem_filter.1 hcm
  simp only [needsProof, Bool.and_eq_true, Bool.not_eq_eq_eq_not, Bool.not_true,
    decide_eq_false_iff_not] at hnp
  obtain ⟨h, t, s⟩ := pathSet_sub tok hcP
  obtain ⟨_, s', _, hsib⟩ := s.parent hnp.1
  rw [hsib.nodeAt, valAt_of hsib]
  rfl

/-! ### `calculateHashes` on the canonical proof -/

/-- **`calculateHashes` computes the valuation along the paths.**  `dh` is the `delHashes`
argument: the target hashes must be the valuation of the target leaves (the leaf hashes for
`Verify`, zero for the deletion pass).  Hashes appended to the canonical proof (`junk`) are never
looked at. -/
theorem calc_generic {F : Forest H} (hn : F.numLeaves ≤ 2 ^ 63)
    (hnz : ∀ a b : H, ph a b ≠ (zero : H)) (hlive : ∀ l ∈ F.liveLeaves, l ≠ (zero : H))
    {L : List H} {targets : List Pos} {hashes : List H} (hnd : L.Nodup)
    (hc : F.canon L = some (targets, hashes))
    (f : CTree H → H) (hf : ∀ a b : CTree H, Good a → Good b → f (.node a b) = comb (f a) (f b))
    (hout : ∀ c ∈ pathSet F targets, isRootPos F.numLeaves c = false → sib c ∉ pathSet F targets →
      ∀ h s', SubAtT F h (sib c) s' → f s' = s'.hash)
    (dh : Option (List H))
    (hdh : (match dh with
      | some hs => hs
      | none => (targets.map (E F.rows)).map (fun _ => zero)) = targets.map (valAt f F))
    (junk : List H) :
    ∃ r : CalcResult H,
      calculateHashes (BitVec.ofNat 64 F.numLeaves) dh (targets.map (E F.rows)) (hashes ++ junk) =
        .ok r ∧
      r.roots = ((pathSet F targets).filter (isRootPos F.numLeaves)).map (valAt f F) ∧
      r.rootRows = ((pathSet F targets).filter (isRootPos F.numLeaves)).map (fun p => H8 p.1) ∧
      r.nodes = (pathSet F targets).map (G F.numLeaves (valAt f F)) := by
  have tok := canon_targetsOK hc
  have pl := spec_plan tok hn hnz hlive f hf hout
  have htr := rows_le_63 hn
  have hfuel : (pathSet F targets).length <
      calcFuel (targets.map (E F.rows)).length (H8 F.rows) := by
    have := length_pathSet_le F targets
    unfold calcFuel
    rw [show F.rows = forestRows F.numLeaves from rfl] at this ⊢
    rw [toNat_H8 htr, List.length_map, Nat.succ_mul]
    omega
  obtain ⟨sf, hloop, hroots, hrows, _, hmerge⟩ := plan_run hn pl junk _ hfuel
  have htp : toHashAndPos (targets.map (E F.rows)) (targets.map (valAt f F)) =
      .ok (((pathSet F targets).filter (isTarget targets)).map (G F.numLeaves (valAt f F))) := by
    unfold toHashAndPos
    rw [if_pos (by simp), List.zip_map']
    congr 1
    apply eq_of_keysorted
    · apply sortBy_sorted
      rw [List.pairwise_map]
      apply List.Pairwise.imp_of_mem _ (canon_targets_nodup hc hnd)
      intro a b ha hb hab e
      obtain ⟨h1, _, s1⟩ := tok a ha
      obtain ⟨h2, _, s2⟩ := tok b hb
      exact hab (E_inj htr s1.inF.valid s2.inF.valid e)
    · rw [List.pairwise_map]
      exact (plan_keys_sorted hn pl).sublist List.filter_sublist
    · intro x
      unfold sortHP
      rw [Sorted.mem_sortBy, List.mem_map, List.mem_map]
      constructor
      · rintro ⟨t, ht, rfl⟩
        exact ⟨t, List.mem_filter.2 ⟨targets_sub_pathSet tok ht, by simp [isTarget, ht]⟩, rfl⟩
      · rintro ⟨t, ht, rfl⟩
        have := (List.mem_filter.1 ht).2
        exact ⟨t, by simpa [isTarget] using this, rfl⟩
  refine ⟨⟨(pathSet F targets).map (G F.numLeaves (valAt f F)), sf.roots, sf.rootRows⟩,
    ?_, hroots, hrows, rfl⟩
  unfold calculateHashes
  simp only [bind, pure]
  unfold start at hloop
  rw [show Forest.rows F = forestRows F.numLeaves from rfl] at hloop
  cases dh <;>
  · simp only at hdh ⊢
    rw [hdh, htp]
    simp only [Out.bind]
    rw [treeRows_eq' hn, canon_proof hc]
    rw [show Forest.rows F = forestRows F.numLeaves from rfl]
    rw [hloop]
    simp only
    rw [hmerge]

end
end UtreexoVerif.Proofs.SpecPlan
