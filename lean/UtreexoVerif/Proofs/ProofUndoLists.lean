/-
  List-level lemmas for `Proof.Undo` (property C08): closed forms of the loops of
  `pruneEdgesOld`, `udReplace`, `getHashAndPosSubset` (first-match look-up form, for lists that are
  only weakly sorted), `mergeSortedHashAndPos` on weakly sorted lists.
-/
import UtreexoVerif.Model.ProofUpdate
import UtreexoVerif.Proofs.ProofUpdateLists

namespace UtreexoVerif.Proofs.ProofUndoLists
open UtreexoVerif Model Hasher
open UtreexoVerif.Proofs.ProofUpdateLists

section
variable {H : Type}

/-! ### `pruneEdgesOld` -/

/-- the test of `pruneEdgesOld` for one position -/
def pruneKeep (numAdds numLeaves : U64) (forestRows prevForestRows : U8) (target : U64) : Bool :=
  let row := DetectRow target forestRows
  if row > prevForestRows then false
  else
    decide (startPositionAtRow row prevForestRows + (target - startPositionAtRow row forestRows) ≤
      (maxPositionAtRow row prevForestRows (numLeaves - numAdds)).1)

/-- `pruneEdgesOld` is a filter when `maxPositionAtRow` reports no error on the rows that reach it -/
theorem pruneEdges_eq (a n : U64) (fr pfr : U8) : ∀ (l acc : HP H),
    (∀ x ∈ l, ¬ DetectRow x.1 fr > pfr →
      (maxPositionAtRow (DetectRow x.1 fr) pfr (n - a)).2 = false) →
    pruneEdgesOld a n fr pfr l acc = .ok (acc ++ l.filter (fun x => pruneKeep a n fr pfr x.1)) := by
  intro l
  induction l with
  | nil => intro acc _; simp [pruneEdgesOld]
  | cons x rest ih =>
    intro acc hne
    obtain ⟨target, h⟩ := x
    have hrest : ∀ y ∈ rest, ¬ DetectRow y.1 fr > pfr →
        (maxPositionAtRow (DetectRow y.1 fr) pfr (n - a)).2 = false :=
      fun y hy => hne y (List.mem_cons_of_mem _ hy)
    unfold pruneEdgesOld
    simp only
    by_cases hrow : DetectRow target fr > pfr
    · rw [if_pos hrow, ih acc hrest, List.filter_cons_of_neg]
      simp [pruneKeep, hrow]
    · rw [if_neg hrow]
      have herr := hne (target, h) List.mem_cons_self hrow
      simp only at herr
      rcases hm : maxPositionAtRow (DetectRow target fr) pfr (n - a) with ⟨maxPos, err⟩
      rw [hm] at herr
      simp only at herr
      subst herr
      simp only [Bool.false_eq_true, if_false]
      by_cases hk : startPositionAtRow (DetectRow target fr) pfr +
          (target - startPositionAtRow (DetectRow target fr) fr) ≤ maxPos
      · rw [if_pos hk, ih _ hrest, List.filter_cons_of_pos]
        · simp
        · simp [pruneKeep, hrow, hm, hk]
      · rw [if_neg hk, ih _ hrest, List.filter_cons_of_neg]
        simp [pruneKeep, hrow, hm, hk]

/-- a fold that ignores its argument -/
theorem foldl_const {α β : Type} (l : List β) (x : α) : l.foldl (fun st _ => st) x = x := by
  induction l with
  | nil => rfl
  | cons _ _ ih => exact ih

/-! ### look-ups in weakly sorted lists -/

theorem lookupHP_none_of_lt {l : HP H} {p : U64} (h : ∀ x ∈ l, p < x.1) : lookupHP l p = none := by
  rw [lookupHP_eq_none]
  intro hm
  obtain ⟨z, hz, e⟩ := mem_positions.1 hm
  have := h z hz
  rw [e] at this
  exact BitVec.lt_irrefl _ this

/-- `getHashAndPosSubset(a, b)` picks, for every wanted position, the first entry of `a` at that
position (if any) -/
theorem subsetHP_eq_filterMap : ∀ (l : HP H) (needed : List U64),
    l.Pairwise (fun a b => a.1 ≤ b.1) → needed.Pairwise (· < ·) →
    subsetHP l needed = needed.filterMap (fun p => (lookupHP l p).map (fun h => (p, h))) := by
  intro l needed
  fun_induction subsetHP l needed with
  | case1 b => intro _ _; simp
  | case2 a _ => intro _ _; simp
  | case3 x xs ys ih =>
    intro hl hn
    rw [List.pairwise_cons] at hl hn
    rw [ih hl.2 hn.2, List.filterMap_cons, lookupHP_cons, if_pos rfl]
    simp only [Option.map_some]
    congr 1
    apply filterMap_congr'
    intro p hp
    have := hn.1 p hp
    rw [lookupHP_cons, if_neg (by intro e'; rw [e'] at this; exact BitVec.lt_irrefl _ this)]
  | case4 x xs y ys hxy hlt ih =>
    intro hl hn
    rw [List.pairwise_cons] at hn
    rw [ih hl hn.2, List.filterMap_cons]
    have hnone : lookupHP (x :: xs) y = none := by
      apply lookupHP_none_of_lt
      intro z hz
      rcases List.mem_cons.1 hz with rfl | hz
      · exact hlt
      · have := (List.pairwise_cons.1 hl).1 z hz
        bv_omega
    rw [hnone]
    rfl
  | case5 x xs y ys hxy hlt ih =>
    intro hl hn
    rw [List.pairwise_cons] at hl
    rw [ih hl.2 hn]
    apply filterMap_congr'
    intro p hp
    have hyp : y ≤ p := by
      rcases List.mem_cons.1 hp with rfl | hp
      · bv_omega
      · have := (List.pairwise_cons.1 hn).1 p hp
        bv_omega
    rw [lookupHP_cons, if_neg (by intro e'; bv_omega)]

/-- `mergeSortedHashAndPos` keeps weakly sorted lists weakly sorted -/
theorem mergeHP_sorted_le : ∀ (a b : HP H), a.Pairwise (fun x y => x.1 ≤ y.1) →
    b.Pairwise (fun x y => x.1 ≤ y.1) → (mergeHP a b).Pairwise (fun x y => x.1 ≤ y.1) := by
  intro a b
  fun_induction mergeHP a b with
  | case1 b => intro _ hb; exact hb
  | case2 a _ => intro ha _; exact ha
  | case3 x xs y ys hlt ih =>
    intro ha hb
    rw [List.pairwise_cons] at ha ⊢
    refine ⟨?_, ih ha.2 hb⟩
    intro z hz
    rcases ProofOps.mem_mergeHP _ _ _ hz with h | h
    · exact ha.1 z h
    · rcases List.mem_cons.1 h with rfl | h
      · bv_omega
      · have := (List.pairwise_cons.1 hb).1 z h
        bv_omega
  | case4 x xs y ys hnlt hlt ih =>
    intro ha hb
    rw [List.pairwise_cons] at hb ⊢
    refine ⟨?_, ih ha hb.2⟩
    intro z hz
    rcases ProofOps.mem_mergeHP _ _ _ hz with h | h
    · rcases List.mem_cons.1 h with rfl | h
      · bv_omega
      · have := (List.pairwise_cons.1 ha).1 z h
        bv_omega
    · exact hb.1 z h
  | case5 x xs y ys hnlt1 hnlt2 ih =>
    intro ha hb
    rw [List.pairwise_cons] at ha hb ⊢
    refine ⟨?_, ih ha.2 hb.2⟩
    intro z hz
    rcases ProofOps.mem_mergeHP _ _ _ hz with h | h
    · exact ha.1 z h
    · have := hb.1 z h
      bv_omega

/-- the look-up in a merge of weakly sorted lists: `a` first, then `b` -/
theorem lookupHP_mergeHP_le : ∀ (a b : HP H), a.Pairwise (fun x y => x.1 ≤ y.1) → ∀ (pos : U64),
    lookupHP (mergeHP a b) pos = (lookupHP a pos).orElse (fun _ => lookupHP b pos) := by
  intro a b
  fun_induction mergeHP a b with
  | case1 b => intro _ pos; simp
  | case2 a _ =>
    intro _ pos
    cases lookupHP a pos <;> simp
  | case3 x xs y ys hlt ih =>
    intro ha pos
    rw [List.pairwise_cons] at ha
    rw [lookupHP_cons, lookupHP_cons (t := xs)]
    by_cases e : x.1 = pos
    · simp [e]
    · rw [if_neg e, if_neg e, ih ha.2]
  | case4 x xs y ys hnlt hlt ih =>
    intro ha pos
    rw [lookupHP_cons, lookupHP_cons (x := y) (t := ys)]
    by_cases e : y.1 = pos
    · rw [if_pos e, if_pos e]
      have hnone : lookupHP (x :: xs) pos = none := by
        apply lookupHP_none_of_lt
        intro z hz
        rcases List.mem_cons.1 hz with rfl | hz
        · rw [← e]; exact hlt
        · have := (List.pairwise_cons.1 ha).1 z hz
          rw [← e]
          bv_omega
      rw [hnone]
      rfl
    · rw [if_neg e, if_neg e, ih ha]
  | case5 x xs y ys hnlt1 hnlt2 ih =>
    intro ha pos
    have hxy : x.1 = y.1 := ProofOps.u64_eq_of_not_lt hnlt1 hnlt2
    rw [List.pairwise_cons] at ha
    rw [lookupHP_cons, lookupHP_cons (t := xs), lookupHP_cons (x := y) (t := ys)]
    by_cases e : x.1 = pos
    · simp [e]
    · rw [if_neg e, if_neg e, if_neg (by rw [← hxy]; exact e), ih ha.2]

/-! ### `udReplace` -/

/-- the replacement loop of `proofUndoDel`: every entry whose position occurs in `before` gets
the hash stored there -/
theorem udReplace_eq : ∀ (l before acc : HP H), l.Pairwise (fun a b => a.1 ≤ b.1) →
    before.Pairwise (fun a b => a.1 ≤ b.1) →
    udReplace l before acc = acc ++ l.map (fun x => (x.1, (lookupHP before x.1).getD x.2)) := by
  intro l
  induction l with
  | nil => intro before acc _ _; simp [udReplace]
  | cons x rest ih =>
    intro before acc hl hb
    obtain ⟨pos, h⟩ := x
    rw [List.pairwise_cons] at hl
    have hb' : (advance before pos).Pairwise (fun a b => a.1 ≤ b.1) :=
      hb.sublist (advance_sublist _ _)
    have hcongr : rest.map (fun x => (x.1, (lookupHP (advance before pos) x.1).getD x.2)) =
        rest.map (fun x => (x.1, (lookupHP before x.1).getD x.2)) := by
      apply List.map_congr_left
      intro y hy
      have hle : pos ≤ y.1 := hl.1 y hy
      rw [lookupHP_advance before pos y.1 hle]
    unfold udReplace
    simp only [List.map_cons]
    rcases advance_cases before pos hb with ⟨hU, hlk⟩ | ⟨up, uh, t', hU, ⟨rfl, hlk⟩ | ⟨hnu, hlk⟩⟩
    · have h2 := hcongr
      rw [hU] at h2
      simp only [hU]
      rw [ih _ _ hl.2 List.Pairwise.nil, h2, hlk]
      simp
    · simp only [hU, if_true]
      rw [← hU, ih _ _ hl.2 hb', hcongr, hlk]
      simp
    · simp only [hU, hnu, if_false]
      rw [← hU, ih _ _ hl.2 hb', hcongr, hlk]
      simp

theorem udReplace_positions_sorted (l before : HP H) (hl : l.Pairwise (fun a b => a.1 ≤ b.1))
    (hb : before.Pairwise (fun a b => a.1 ≤ b.1)) :
    (udReplace l before []).Pairwise (fun a b => a.1 ≤ b.1) := by
  rw [udReplace_eq l before [] hl hb, List.nil_append, List.pairwise_map]
  exact hl

theorem lookupHP_map_snd (l : HP H) (g : U64 → H → H) (pos : U64) :
    lookupHP (l.map (fun x => (x.1, g x.1 x.2))) pos = (lookupHP l pos).map (g pos) := by
  induction l with
  | nil => rfl
  | cons x t ih =>
    rw [List.map_cons, lookupHP_cons, lookupHP_cons]
    by_cases e : x.1 = pos
    · simp [e]
    · simp only [e, if_false]
      exact ih

/-- **the pile of proof hashes at the end of `proofUndoDel`**, looked up at one position:
`before` wins; otherwise the loop's pile, then the re-inserted block targets -/
theorem lookup_final (pile np before : HP H) (hp : pile.Pairwise (fun a b => a.1 ≤ b.1))
    (hnp : np.Pairwise (fun a b => a.1 ≤ b.1)) (hb : before.Pairwise (fun a b => a.1 ≤ b.1))
    (pos : U64) :
    lookupHP (mergeHP (udReplace (mergeHP pile np) before []) before) pos =
      match lookupHP before pos with
      | some h => some h
      | none => (lookupHP pile pos).orElse (fun _ => lookupHP np pos) := by
  have h1 := mergeHP_sorted_le pile np hp hnp
  have h2 := udReplace_positions_sorted _ _ h1 hb
  rw [lookupHP_mergeHP_le _ _ h2, udReplace_eq _ _ _ h1 hb, List.nil_append,
    lookupHP_map_snd (mergeHP pile np) (fun p h => (lookupHP before p).getD h),
    lookupHP_mergeHP_le _ _ hp]
  cases hB : lookupHP before pos with
  | some h =>
    cases (lookupHP pile pos).orElse (fun _ => lookupHP np pos) <;> simp
  | none =>
    cases (lookupHP pile pos).orElse (fun _ => lookupHP np pos) <;> simp

theorem final_sorted (pile np before : HP H) (hp : pile.Pairwise (fun a b => a.1 ≤ b.1))
    (hnp : np.Pairwise (fun a b => a.1 ≤ b.1)) (hb : before.Pairwise (fun a b => a.1 ≤ b.1)) :
    (mergeHP (udReplace (mergeHP pile np) before []) before).Pairwise (fun a b => a.1 ≤ b.1) :=
  mergeHP_sorted_le _ _ (udReplace_positions_sorted _ _ (mergeHP_sorted_le pile np hp hnp) hb) hb

end
end UtreexoVerif.Proofs.ProofUndoLists
