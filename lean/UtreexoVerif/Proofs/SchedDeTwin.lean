/-
  `deTwin` on positions encoded with an arbitrary row count (property C15, helper).

  `ProofUpdateDeTwin.deTwin_spec` describes `deTwin` applied to the sorted positions of the deleted
  leaves, encoded with the forest's own row count `F.rows`.  The caching-schedule tracker
  (prove.go `undoDel`, `delRootInfo`) calls `deTwin` with `totalRows = 63` on positions translated
  to 63 rows.  Here the same theorem is proved for every encoding row count `rows` with
  `F.rows ≤ rows ≤ 63` (`deTwin_spec_rows`, instance `deTwin_spec_63`).

  The only new ingredient is the monotonicity of validity (`Valid.mono`).
-/
import UtreexoVerif.Proofs.ProofUpdateDeTwin

namespace UtreexoVerif.Proofs.SchedDeTwin
open UtreexoVerif Spec Hasher Model
open UtreexoVerif.Proofs UtreexoVerif.Proofs.SpecNodes UtreexoVerif.Proofs.SpecSubs
open UtreexoVerif.Proofs.CalcComplete UtreexoVerif.Proofs.FinalPos
open UtreexoVerif.Proofs.CalcGeo UtreexoVerif.Proofs.Sorted UtreexoVerif.Proofs.Movement
open UtreexoVerif.Proofs.LeafDistinct
open UtreexoVerif.Proofs.ProofUpdateDeTwin

/-- a position valid for `r` rows is valid for every larger row count -/
theorem Valid.mono {r rows : Nat} (h : r ≤ rows) {p : Pos} (hp : Valid r p) : Valid rows p := by
  obtain ⟨h1, h2⟩ := hp
  refine ⟨by omega, Nat.lt_of_lt_of_le h2 (Nat.pow_le_pow_right (by omega) (by omega))⟩

section forest
set_option linter.unusedSectionVars false
variable {H : Type} [DecidableEq H] [Hasher H]

theorem inv_valid_rows {F : Forest H} {D : List H} {d : List Pos} (inv : Inv F D d) {rows : Nat}
    (hF : F.rows ≤ rows) {T : Pos} (hT : T ∈ d) : Valid rows T :=
  Valid.mono hF (inv.valid hT)

/-- **the loop of `deTwin`**, positions encoded with `rows ≥ F.rows` rows -/
theorem loop_spec_rows {F : Forest H} {D : List H} {rows : Nat} (hF : F.rows ≤ rows)
    (hr : rows ≤ 63) :
    ∀ (fuel : Nat) (pre rest : List Pos), Inv F D (pre ++ rest) →
      (∀ x ∈ pre, sib x ∉ pre ++ rest) → rest.length ≤ fuel →
      ∃ dtp, deTwinLoop (H8 rows) fuel pre.length ((pre ++ rest).map (E rows)) =
          dtp.map (E rows) ∧ Inv F D dtp ∧ ∀ x ∈ dtp, sib x ∉ dtp := by
  intro fuel
  induction fuel with
  | zero =>
    intro pre rest inv ns hf
    exact ⟨pre ++ rest, rfl, inv, by
      have : rest = [] := List.eq_nil_of_length_eq_zero (by omega)
      subst this
      intro x hx
      exact ns x (by simpa using hx)⟩
  | succ f ih =>
    intro pre rest inv ns hf
    match rest, inv, ns, hf with
    | [], inv, ns, _ =>
      refine ⟨pre ++ [], deTwinLoop_end (map_getElem?_at_none _ _), inv, ?_⟩
      intro x hx
      exact ns x (by simpa using hx)
    | [a], inv, ns, _ =>
      refine ⟨pre ++ [a], deTwinLoop_last (map_getElem?_at _ _ _ _) (map_getElem?_at_succ_none _ _ _),
        inv, ?_⟩
      intro x hx hs
      rcases List.mem_append.1 hx with hx | hx
      · exact ns x hx hs
      · simp only [List.mem_singleton] at hx
        subst hx
        rcases List.mem_append.1 hs with hs | hs
        · have := ns _ hs
          rw [sib_sib] at this
          exact this (by simp)
        · simp only [List.mem_singleton] at hs
          exact sib_ne _ hs
    | a :: b :: rest', inv, ns, hf =>
      have ha : a ∈ pre ++ a :: b :: rest' := by simp
      have hb : b ∈ pre ++ a :: b :: rest' := by simp
      have va := inv_valid_rows inv hF ha
      have vb := inv_valid_rows inv hF hb
      have hso := inv.sorted
      rw [List.pairwise_append, List.pairwise_cons, List.pairwise_cons] at hso
      obtain ⟨sPre, ⟨hA, hB, sRest⟩, hPR⟩ := hso
      have hlt : PLt a b := hA b (by simp)
      cases htest : (rightSib (E rows a) == E rows b) with
      | true =>
        obtain ⟨hev, hbs⟩ := (twinTest_E hr va vb hlt).1 htest
        subst hbs
        have hrow := row_lt_of_PLt vb hlt
        have vP := parent_valid va hrow
        have hrowP : ∀ x, PLt x a → (sib x).1 < (Spec.parent a).1 := by
          intro x hx
          simp only [sib, Spec.parent]
          rcases hx with h | ⟨h, _⟩ <;> omega
        -- the parent is not in the list
        have hPnot : Spec.parent a ∉ pre ++ a :: sib a :: rest' := by
          intro hP
          obtain ⟨hL', tL, sL, _⟩ := inv.fd a ha
          obtain ⟨hR', tR, sR, _⟩ := inv.fd _ hb
          obtain ⟨_, tP, sP, hlv⟩ := merge_node sL sR
          obtain ⟨x, hx⟩ := List.exists_mem_of_ne_nil _ (CTree.leaves_ne_nil tL)
          have := inv.disj _ hP a ha _ _ _ _ x sP sL ((hlv x).2 (Or.inl hx)) hx
          have := congrArg Prod.fst this
          simp [Spec.parent] at this
        have hPnot' : Spec.parent a ∉ pre ++ rest' := by
          intro h
          apply hPnot
          rcases List.mem_append.1 h with h | h
          · exact List.mem_append_left _ h
          · exact List.mem_append_right _ (List.mem_cons_of_mem _ (List.mem_cons_of_mem _ h))
        have hsort' : (pre ++ rest').Pairwise PLt := by
          rw [List.pairwise_append]
          exact ⟨sPre, sRest, fun x hx y hy => hPR x hx y (by simp [hy])⟩
        have hmem : ∀ x, x ∈ Forest.insertSorted (Spec.parent a) (pre ++ rest') ↔
            x = Spec.parent a ∨ (x ∈ pre ++ a :: sib a :: rest' ∧ x ≠ a ∧ x ≠ sib a) := by
          intro x
          rw [mem_insertSorted]
          have hna : ∀ x ∈ pre ++ rest', x ≠ a ∧ x ≠ sib a := by
            intro x hx
            rcases List.mem_append.1 hx with hx | hx
            · exact ⟨PLt.ne (hPR x hx a (by simp)), PLt.ne (hPR x hx _ (by simp))⟩
            · exact ⟨(PLt.ne (hA x (by simp [hx]))).symm, (PLt.ne (hB x hx)).symm⟩
          constructor
          · rintro (h | h)
            · exact Or.inl h
            · refine Or.inr ⟨?_, hna x h⟩
              rcases List.mem_append.1 h with h | h
              · exact List.mem_append_left _ h
              · exact List.mem_append_right _ (List.mem_cons_of_mem _ (List.mem_cons_of_mem _ h))
          · rintro (h | ⟨h, n1, n2⟩)
            · exact Or.inl h
            · right
              rcases List.mem_append.1 h with h | h
              · exact List.mem_append_left _ h
              · simp only [List.mem_cons] at h
                rcases h with h | h | h
                · exact absurd h n1
                · exact absurd h n2
                · exact List.mem_append_right _ h
        have inv' : Inv F D (Forest.insertSorted (Spec.parent a) (pre ++ rest')) :=
          inv.merge ha hb (insertSorted_sorted _ _ hsort') hmem
        have hpreP : ∀ x ∈ pre, PLt x (Spec.parent a) :=
          fun x hx => PLt.trans _ _ _ (hPR x hx a (by simp)) (lt_parent a)
        have eins := insertSorted_append pre rest' hpreP
        rw [eins] at inv'
        have ns' : ∀ x ∈ pre, sib x ∉ pre ++ Forest.insertSorted (Spec.parent a) rest' := by
          intro x hx hs
          rw [← eins] at hs
          rcases (hmem _).1 hs with h | ⟨h, _, _⟩
          · have := hrowP x (hPR x hx a (by simp))
            rw [h] at this
            omega
          · exact ns x hx h
        have hlen : (Forest.insertSorted (Spec.parent a) rest').length ≤ f := by
          have := length_insertSorted_le (Spec.parent a) rest'
          simp only [List.length_cons] at hf
          omega
        obtain ⟨dtp, h1, h2, h3⟩ := ih pre _ inv' ns' hlen
        refine ⟨dtp, ?_, h2, h3⟩
        rw [deTwinLoop_merge (map_getElem?_at _ _ _ _) (map_getElem?_at_succ _ _ _ _ _) htest,
          map_eraseIdx_twice, parent_E hr va hrow,
          insertInOrder_map hr vP _ (fun q hq => inv_valid_rows inv hF (by
            rcases List.mem_append.1 hq with h | h
            · exact List.mem_append_left _ h
            · exact List.mem_append_right _ (List.mem_cons_of_mem _ (List.mem_cons_of_mem _ h))))
            hPnot', eins]
        exact h1
      | false =>
        have e : pre ++ a :: b :: rest' = (pre ++ [a]) ++ b :: rest' := by simp
        have elen : pre.length + 1 = (pre ++ [a]).length := by simp
        have nsa : sib a ∉ pre ++ a :: b :: rest' := by
          intro hs
          rcases List.mem_append.1 hs with hs | hs
          · have := ns _ hs
            rw [sib_sib] at this
            exact this ha
          · simp only [List.mem_cons] at hs
            rcases hs with hs | hs | hs
            · exact sib_ne _ hs
            · have hev : a.2 % 2 = 0 := (sib_gt_iff a).1 (hs ▸ hlt)
              have := (twinTest_E hr va vb hlt).2 ⟨hev, hs.symm⟩
              rw [htest] at this
              cases this
            · have h1 : PLt b (sib a) := hB _ hs
              have hev : a.2 % 2 = 0 := (sib_gt_iff a).1 (PLt.trans _ _ _ hlt h1)
              exact no_between hev hlt h1
        have ns' : ∀ x ∈ pre ++ [a], sib x ∉ (pre ++ [a]) ++ b :: rest' := by
          intro x hx
          rw [← e]
          rcases List.mem_append.1 hx with hx | hx
          · exact ns x hx
          · simp only [List.mem_singleton] at hx
            subst hx
            exact nsa
        obtain ⟨dtp, h1, h2, h3⟩ := ih (pre ++ [a]) (b :: rest') (e ▸ inv) ns'
          (by simp only [List.length_cons] at hf ⊢; omega)
        refine ⟨dtp, ?_, h2, h3⟩
        rw [deTwinLoop_skip (map_getElem?_at _ _ _ _) (map_getElem?_at_succ _ _ _ _ _) htest, elen, e]
        exact h1

/-- **`deTwin` of the sorted positions of the deleted leaves, encoded with `rows ≥ F.rows` rows,
is the strictly ascending list of the positions of the maximal fully-deleted subtrees** -/
theorem deTwin_spec_rows {F : Forest H} (hn : F.numLeaves ≤ 2 ^ 63) (hnd : F.liveLeaves.Nodup)
    {D : List H} (hD : D.Nodup) (hlive : ∀ x ∈ D, x ∈ F.liveLeaves) {rows : Nat}
    (hF : F.rows ≤ rows) (hr : rows ≤ 63) :
    ∃ dtp : List Pos,
      Model.deTwin (Model.sortU64 ((D.map (fun l => (F.posOf l).getD (0, 0))).map (E rows)))
        (H8 rows) = dtp.map (E rows) ∧
      dtp.Pairwise PLt ∧ ∀ T, T ∈ dtp ↔ IsDT F D T := by
  have hsort := sortU64_map_E hr (leafPositions F D)
    (fun p hp => Valid.mono hF (leafPositions_valid hn hlive p hp))
    (leafPositions_nodup hn hD hlive)
  have inv0 := Inv.init (F := F) hn hlive
  obtain ⟨dtp, h1, h2, h3⟩ := loop_spec_rows (F := F) (D := D) hF hr
    (2 * (Forest.sortDedup (leafPositions F D)).length + 1) []
    (Forest.sortDedup (leafPositions F D)) inv0 (by simp) (by omega)
  refine ⟨dtp, ?_, h2.sorted, h2.final hnd h3⟩
  show Model.deTwin (Model.sortU64 ((leafPositions F D).map (E rows))) (H8 rows) = _
  rw [hsort]
  unfold Model.deTwin
  rw [List.length_map]
  exact h1

/-- the instance used by the caching-schedule tracker: `totalRows = 63` -/
theorem deTwin_spec_63 {F : Forest H} (hn : F.numLeaves ≤ 2 ^ 63) (hnd : F.liveLeaves.Nodup)
    {D : List H} (hD : D.Nodup) (hlive : ∀ x ∈ D, x ∈ F.liveLeaves) :
    ∃ dtp : List Pos,
      Model.deTwin (Model.sortU64 ((D.map (fun l => (F.posOf l).getD (0, 0))).map (E 63)))
        (H8 63) = dtp.map (E 63) ∧
      dtp.Pairwise PLt ∧ ∀ T, T ∈ dtp ↔ IsDT F D T :=
  deTwin_spec_rows hn hnd hD hlive (rows_le_63 hn) (Nat.le_refl _)

/-- `deTwin_spec` is the instance `rows := F.rows` -/
example {F : Forest H} (hn : F.numLeaves ≤ 2 ^ 63) (hnd : F.liveLeaves.Nodup)
    {D : List H} (hD : D.Nodup) (hlive : ∀ x ∈ D, x ∈ F.liveLeaves) :
    ∃ dtp : List Pos,
      Model.deTwin (Model.sortU64 ((D.map (fun l => (F.posOf l).getD (0, 0))).map (E F.rows)))
        (H8 F.rows) = dtp.map (E F.rows) ∧
      dtp.Pairwise PLt ∧ ∀ T, T ∈ dtp ↔ IsDT F D T :=
  deTwin_spec_rows hn hnd hD hlive (Nat.le_refl _) (rows_le_63 hn)

end forest

/-! ### a concrete instance

The forest `F5` (five live slots, `F5.rows = 3`) and the deletion `D5 = [3, 0, 1]` of
`ProofUpdateDeTwin.Example`, encoded with 63 rows: `deTwin` merges the sibling leaves `0`, `1`
into their parent `2^63 = E 63 (1, 0)` and keeps `3`. -/

namespace Example
open UtreexoVerif.Proofs.ProofUpdateDeTwin.Example

theorem targets5_63 :
    Model.sortU64 ((D5.map (fun l => (F5.posOf l).getD (0, 0))).map (E 63)) =
      [0#64, 1#64, 3#64] := by decide +kernel

theorem deTwin5_63 :
    Model.deTwin (Model.sortU64 ((D5.map (fun l => (F5.posOf l).getD (0, 0))).map (E 63)))
      (H8 63) = [3#64, 9223372036854775808#64] := by decide +kernel

theorem deTwin5_63_pos :
    [3#64, 9223372036854775808#64] = [((0, 3) : Pos), (1, 0)].map (E 63) := by decide +kernel

/-- the hypotheses of `deTwin_spec_rows` (with `rows := 63 > F5.rows = 3`) hold for this instance,
and the list it describes is `[(0,3), (1,0)]` -/
example : ∀ T, T ∈ [((0, 3) : Pos), (1, 0)] ↔ IsDT F5 D5 T := by
  have hF : F5.rows ≤ 63 := by decide +kernel
  obtain ⟨dtp, h1, h2, h3⟩ := deTwin_spec_rows (F := F5) (by decide) (by decide) (D := D5)
    (by decide) (by decide) (rows := 63) hF (Nat.le_refl _)
  rw [deTwin5_63, deTwin5_63_pos] at h1
  have hv : ∀ p ∈ dtp, Valid 63 p := by
    intro p hp
    obtain ⟨h, t, s, _⟩ := (h3 p).1 hp
    exact Valid.mono hF s.inF.valid
  have e : [((0, 3) : Pos), (1, 0)] = dtp := by
    have hlen := congrArg List.length h1
    simp only [List.length_map, List.length_cons, List.length_nil] at hlen
    match dtp, hlen, h1, hv with
    | [p, q], _, h1, hv =>
      simp only [List.map_cons, List.map_nil, List.cons.injEq, and_true] at h1
      have e1 := E_inj (Nat.le_refl 63) (by unfold Valid; decide +kernel) (hv p (by simp)) h1.1
      have e2 := E_inj (Nat.le_refl 63) (by unfold Valid; decide +kernel) (hv q (by simp)) h1.2
      rw [e1, e2]
  rw [e]
  exact h3

end Example

#print axioms loop_spec_rows
#print axioms deTwin_spec_rows
#print axioms deTwin_spec_63

end UtreexoVerif.Proofs.SchedDeTwin
