/-
  Undoing one addition on (row, offset) pairs (property C15, `undoSingleAdd`).

  `B` = slot list before the addition (`n` slots, `k` trailing one digits), `A = B ++ [some x]`.
  The addition merges the roots of `B` on rows `0 … k-1` with the new leaf into the tree on
  row `k`.  `undoSingleAdd` walks from the root of that tree down its right spine
  (`(l, n / 2^l)`, `l = k … 0`) and, whenever the left child is a dead root that the addition
  merged over, moves everything at or below the spine node one step down to the right
  (`moveDownP`, the pair form of `moveDownPosition`).  `gP` is that walk on pairs.

  * `fpos_fdw`: the walk `fpos` is "root, then `d` child steps along the path `w`";
  * `moveDown_fpos`: `moveDownP` re-roots a walk from `top` to the right child of `top`;
  * `gP_old`, `gP_new`, `gP_later`: the walk `gP` maps the position in `A` of every live old
    slot to its position in `B`, the new leaf to `(0, n)`, and leaves `(0, s')`, `s' > n`, alone.
-/
import UtreexoVerif.Proofs.SchedSem
import UtreexoVerif.Proofs.AddMove
set_option linter.unusedSectionVars false
set_option linter.unusedVariables false

namespace UtreexoVerif.Proofs.SchedAdd
open UtreexoVerif Spec
open UtreexoVerif.Proofs UtreexoVerif.Proofs.FinalPos UtreexoVerif.Proofs.SchedSem
open UtreexoVerif.Proofs.SpecNodes UtreexoVerif.Proofs.AddMove UtreexoVerif.Proofs.StumpAddPos
open UtreexoVerif.Proofs.Movement

/-! ### the walk as (depth, path) -/

/-- depth and path of the walk `fpos al top k l b` below `top` -/
def fdw (al : Nat → Nat → Bool) : Nat → Nat → Nat → Nat × Nat
  | 0, _, _ => (0, 0)
  | k+1, l, b =>
    let q := fdw al k (l + 1) (b / 2)
    if al l (sibIdx b) then (q.1 + 1, 2 * q.2 + b % 2) else q

theorem fpos_fdw (al : Nat → Nat → Bool) (top : Pos) : ∀ k l b,
    fpos al top k l b = (top.1 - (fdw al k l b).1, top.2 * 2 ^ (fdw al k l b).1 + (fdw al k l b).2) := by
  intro k
  induction k with
  | zero => intro l b; simp [fpos, fdw]
  | succ k ih =>
    intro l b
    simp only [fpos, fdw]
    rw [ih (l + 1) (b / 2)]
    split
    · simp only
      ext
      · simp only; omega
      · simp only; rw [Nat.pow_succ]
        generalize 2 ^ (fdw al k (l + 1) (b / 2)).1 = P
        have e : top.2 * (P * 2) = 2 * (top.2 * P) := by
          rw [Nat.mul_comm P 2, ← Nat.mul_assoc, Nat.mul_comm top.2 2, Nat.mul_assoc]
        omega
    · rfl

theorem fdw_le (al : Nat → Nat → Bool) : ∀ k l b, (fdw al k l b).1 ≤ k := by
  intro k
  induction k with
  | zero => intro l b; simp [fdw]
  | succ k ih =>
    intro l b
    have := ih (l + 1) (b / 2)
    simp only [fdw]
    split
    · simp only; omega
    · omega

theorem fdw_lt (al : Nat → Nat → Bool) : ∀ k l b, (fdw al k l b).2 < 2 ^ (fdw al k l b).1 := by
  intro k
  induction k with
  | zero => intro l b; simp [fdw]
  | succ k ih =>
    intro l b
    have := ih (l + 1) (b / 2)
    simp only [fdw]
    split
    · simp only
      rw [Nat.pow_succ]
      have := Nat.mod_lt b (show 0 < 2 by decide)
      omega
    · exact this

/-! ### `moveDownPosition` on pairs -/

/-- pair form of `moveDownPosition totalRows top (LeftChild top)`: a position at or below `top`
moves one row down, the bit "right" is inserted below `top` -/
def moveDownP (top p : Pos) : Pos :=
  if p = top ∨ (p.1 < top.1 ∧ p.2 / 2 ^ (top.1 - p.1) = top.2) then
    (p.1 - 1, addBitNat p.2 (top.1 - p.1) true)
  else p

theorem addBitNat_path (a d w : Nat) (hw : w < 2 ^ d) :
    addBitNat (a * 2 ^ d + w) d true = (2 * a + 1) * 2 ^ d + w := by
  unfold addBitNat
  have hpos := Nat.two_pow_pos d
  have e1 : (a * 2 ^ d + w) / 2 ^ d = a := by
    rw [Nat.mul_comm, Nat.mul_add_div hpos, Nat.div_eq_of_lt hw, Nat.add_zero]
  have e2 : (a * 2 ^ d + w) % 2 ^ d = w := by
    rw [Nat.mul_comm, Nat.mul_add_mod, Nat.mod_eq_of_lt hw]
  rw [e1, e2]
  simp only [Bool.toNat_true]
  rw [Nat.mul_comm]

/-- **re-rooting**: a walk of depth `< top.1` from `top`, moved down, is the same walk from the
right child of `top` -/
theorem moveDown_fpos (al : Nat → Nat → Bool) (top : Pos) (k l b : Nat) (hk : k < top.1) :
    moveDownP top (fpos al top k l b) = fpos al (top.1 - 1, 2 * top.2 + 1) k l b := by
  rw [fpos_fdw al top, fpos_fdw al (top.1 - 1, 2 * top.2 + 1)]
  have hd := fdw_le al k l b
  have hw := fdw_lt al k l b
  generalize (fdw al k l b).1 = d at *
  generalize (fdw al k l b).2 = w at *
  unfold moveDownP
  have hcond : ((top.1 - d, top.2 * 2 ^ d + w) = top ∨
      ((top.1 - d, top.2 * 2 ^ d + w).1 < top.1 ∧
        (top.1 - d, top.2 * 2 ^ d + w).2 / 2 ^ (top.1 - (top.1 - d, top.2 * 2 ^ d + w).1) = top.2)) := by
    by_cases hd0 : d = 0
    · left
      subst hd0
      simp at hw
      subst hw
      simp
    · right
      simp only
      refine ⟨by omega, ?_⟩
      rw [show top.1 - (top.1 - d) = d by omega, Nat.mul_comm, Nat.mul_add_div (Nat.two_pow_pos d),
        Nat.div_eq_of_lt hw, Nat.add_zero]
  rw [if_pos hcond]
  simp only
  rw [show top.1 - (top.1 - d) = d by omega, addBitNat_path _ _ _ hw]
  ext
  · simp only; omega
  · rfl

theorem moveDownP_of_not {top p : Pos} (h1 : p ≠ top)
    (h2 : ¬ (p.1 < top.1 ∧ p.2 / 2 ^ (top.1 - p.1) = top.2)) : moveDownP top p = p := by
  unfold moveDownP
  rw [if_neg]
  rintro (h | h)
  · exact h1 h
  · exact h2 h


/-! ### trailing one digits -/

theorem trailing_mod {n : Nat} : ∀ {k : Nat}, (∀ j, j < k → n.testBit j = true) → n % 2 ^ k = 2 ^ k - 1 := by
  intro k
  induction k with
  | zero => intro _; simp [Nat.mod_one]
  | succ k ih =>
    intro h
    have h1 := ih (fun j hj => h j (by omega))
    have h2 := testBit_div_odd.mp (h k (by omega))
    rw [Nat.mod_pow_succ, h1, h2]
    have := Nat.two_pow_pos k
    rw [Nat.pow_succ]
    omega

theorem trailing_form {n k : Nat} (h : ∀ j, j < k → n.testBit j = true) :
    n = n / 2 ^ k * 2 ^ k + (2 ^ k - 1) := by
  have := Nat.div_add_mod n (2 ^ k)
  rw [trailing_mod h] at this
  rw [Nat.mul_comm]
  exact this.symm

theorem trailing_odd {n k l : Nat} (h : ∀ j, j < k → n.testBit j = true) (hl : l < k) :
    n / 2 ^ l = 2 * (n / 2 ^ (l + 1)) + 1 := by
  have h2 := testBit_div_odd.mp (h l hl)
  rw [half_pow]
  omega

theorem trailing_gt {n k l s : Nat} (h : ∀ j, j < k → n.testBit j = true) (hl : l ≤ k) (hs : n < s) :
    n / 2 ^ l < s / 2 ^ l := by
  have hf := trailing_form (n := n) (k := l) (fun j hj => h j (by omega))
  have hpos := Nat.two_pow_pos l
  rw [Nat.lt_div_iff_mul_lt hpos]
  have : (n / 2 ^ l + 1) * 2 ^ l ≤ s := by
    rw [Nat.add_mul, Nat.one_mul]; omega
  rw [Nat.add_mul, Nat.one_mul] at this
  omega

/-! ### the walk of `undoSingleAdd` on pairs -/

/-- levels `l, l-1, …, 1` of `undoSingleAdd` on pairs; `dz j` = the root on row `j` is dead -/
def gP (n : Nat) (dz : Nat → Bool) : Nat → Pos → Pos
  | 0, p => p
  | l+1, p => gP n dz l (if dz l then moveDownP (l + 1, n / 2 ^ (l + 1)) p else p)

/-- the walk only moves positions above row 0 (`calcPrevPosition` is then the pair function) -/
def gPS (n : Nat) (dz : Nat → Bool) : Nat → Pos → Prop
  | 0, _ => True
  | l+1, p =>
    (dz l = true → (p = (l + 1, n / 2 ^ (l + 1)) ∨
        (p.1 < l + 1 ∧ p.2 / 2 ^ (l + 1 - p.1) = n / 2 ^ (l + 1))) → 1 ≤ p.1) ∧
    gPS n dz l (if dz l then moveDownP (l + 1, n / 2 ^ (l + 1)) p else p)

section
variable {H : Type} [DecidableEq H] [Hasher H]

/-- positions in a tree of `B` that the walk has passed (or of a higher tree) are not touched -/
theorem gP_under (n : Nat) (dz : Nat → Bool) : ∀ (l j : Nat) (p : Pos), l ≤ j → n.testBit j = true →
    Under j (2 * (n / 2 ^ (j + 1))) p → gP n dz l p = p ∧ gPS n dz l p := by
  intro l
  induction l with
  | zero => intro j p _ _ _; exact ⟨rfl, trivial⟩
  | succ l ih =>
    intro j p hlj hb hu
    have hodd := testBit_div_odd.mp hb
    have hhalf := half_pow n j
    obtain ⟨hu1, hu2⟩ := hu
    have hnc : ¬ (p = (l + 1, n / 2 ^ (l + 1)) ∨
        (p.1 < l + 1 ∧ p.2 / 2 ^ (l + 1 - p.1) = n / 2 ^ (l + 1))) := by
      rintro (e | ⟨h1, h2⟩)
      · rw [e] at hu2
        simp only at hu2
        rw [div_div_pow (by omega)] at hu2
        omega
      · have e : p.2 / 2 ^ (j - p.1) = p.2 / 2 ^ (l + 1 - p.1) / 2 ^ (j - (l + 1)) := by
          rw [Nat.div_div_eq_div_mul, ← Nat.pow_add]; congr 2; omega
        rw [e, h2, div_div_pow (by omega)] at hu2
        omega
    have hne : moveDownP (l + 1, n / 2 ^ (l + 1)) p = p := by
      unfold moveDownP; rw [if_neg hnc]
    have := ih j p (by omega) hb ⟨hu1, hu2⟩
    simp only [gP, gPS]
    refine ⟨?_, fun _ hc => absurd hc hnc, ?_⟩
    · split
      · rw [hne]; exact this.1
      · exact this.1
    · split
      · rw [hne]; exact this.2
      · exact this.2

/-- leaves added later are not touched -/
theorem gP_later {n k : Nat} (dz : Nat → Bool) (hk : ∀ j, j < k → n.testBit j = true) :
    ∀ (l s : Nat), l ≤ k → n < s → gP n dz l (0, s) = (0, s) ∧ gPS n dz l (0, s) := by
  intro l
  induction l with
  | zero => intro s _ _; exact ⟨rfl, trivial⟩
  | succ l ih =>
    intro s hl hs
    have hnc : ¬ (((0, s) : Pos) = (l + 1, n / 2 ^ (l + 1)) ∨
        (((0, s) : Pos).1 < l + 1 ∧ ((0, s) : Pos).2 / 2 ^ (l + 1 - ((0, s) : Pos).1) = n / 2 ^ (l + 1))) := by
      rintro (e | ⟨_, h2⟩)
      · injection e with e1 e2; omega
      · simp only [Nat.sub_zero] at h2
        have := trailing_gt hk hl hs
        omega
    have hne : moveDownP (l + 1, n / 2 ^ (l + 1)) (0, s) = (0, s) := by
      unfold moveDownP; rw [if_neg hnc]
    have := ih s (by omega) hs
    simp only [gP, gPS]
    refine ⟨?_, fun _ hc => absurd hc hnc, ?_⟩
    · split
      · rw [hne]; exact this.1
      · exact this.1
    · split
      · rw [hne]; exact this.2
      · exact this.2

variable (B : List (Option H)) (x : H)

/-- the chunk of the new leaf is alive -/
theorem new_chunk_alive (l : Nat) : chunkAlive (B ++ [some x]) l (B.length / 2 ^ l) = true := by
  apply chunkAlive_of_slot _ l _ B.length x
  · simp
  · exact Nat.div_mul_le_self _ _
  · exact lt_succ_div_mul _ _ (Nat.two_pow_pos l)

/-- one level of the walk from the spine node `(l+1, n / 2^(l+1))` -/
theorem spine_step {k l : Nat} (hk : ∀ j, j < k → B.length.testBit j = true) (hl : l < k) (b : Nat) :
    fpos (chunkAlive (B ++ [some x])) (l + 1, B.length / 2 ^ (l + 1)) 1 l b =
      if chunkAlive (B ++ [some x]) l (sibIdx b) then (l, 2 * (B.length / 2 ^ (l + 1)) + b % 2)
      else (l + 1, B.length / 2 ^ (l + 1)) := by
  simp [fpos]


/-- **the walk along the spine**: from the spine node `(l, n / 2^l)` the walk maps the new leaf
to `(0, n)` and every live old slot of the chunk to its position in `B` -/
theorem gP_spine {k : Nat} (hk : ∀ j, j < k → B.length.testBit j = true) (dz : Nat → Bool)
    (hdz : ∀ l, l < k → dz l = !chunkAlive B l (2 * (B.length / 2 ^ (l + 1)))) :
    ∀ (l s : Nat), l ≤ k → s / 2 ^ l = B.length / 2 ^ l →
      (s = B.length →
        gPS B.length dz l (fpos (chunkAlive (B ++ [some x])) (l, B.length / 2 ^ l) l 0 s) ∧
        gP B.length dz l
          (fpos (chunkAlive (B ++ [some x])) (l, B.length / 2 ^ l) l 0 s) = (0, B.length)) ∧
      (s < B.length → chunkAlive B 0 s = true →
        gPS B.length dz l (fpos (chunkAlive (B ++ [some x])) (l, B.length / 2 ^ l) l 0 s) ∧
        ∀ T, Spec.inTree B.length T 0 s →
          gP B.length dz l (fpos (chunkAlive (B ++ [some x])) (l, B.length / 2 ^ l) l 0 s) =
            nodePos B T 0 s) := by
  intro l
  induction l with
  | zero =>
    intro s _ hs
    simp only [Nat.pow_zero, Nat.div_one] at hs
    refine ⟨fun _ => ⟨trivial, ?_⟩, fun h => by omega⟩
    simp [gP, fpos]
  | succ l ih =>
    intro s hl hs
    have hlk : l < k := by omega
    have hodd := trailing_odd hk hlk
    have hbit := hk l hlk
    have hsplit : fpos (chunkAlive (B ++ [some x])) (l + 1, B.length / 2 ^ (l + 1)) (l + 1) 0 s =
        fpos (chunkAlive (B ++ [some x]))
          (fpos (chunkAlive (B ++ [some x])) (l + 1, B.length / 2 ^ (l + 1)) 1 l (s / 2 ^ l)) l 0 s := by
      have := fpos_split (chunkAlive (B ++ [some x])) (l + 1, B.length / 2 ^ (l + 1)) 1 l 0 s
      rw [Nat.zero_add, Nat.add_comm 1 l] at this
      exact this
    have hhalf : s / 2 ^ l / 2 = B.length / 2 ^ (l + 1) := by rw [← half_pow]; exact hs
    rw [hsplit, spine_step B x hk hlk]
    rcases Nat.mod_two_eq_zero_or_one (s / 2 ^ l) with h0 | h1
    · -- the slot lies in the old root on row `l`
      have hsl : s / 2 ^ l = 2 * (B.length / 2 ^ (l + 1)) := by omega
      have hsib : sibIdx (s / 2 ^ l) = B.length / 2 ^ l := by
        unfold sibIdx; rw [if_pos h0]; omega
      rw [hsib, new_chunk_alive B x l, if_pos rfl, h0]
      simp only [Nat.add_zero]
      have hin : Spec.inTree B.length l 0 s := ⟨hbit, Nat.zero_le _, by rw [Nat.sub_zero]; exact hsl⟩
      have hu : Under l (2 * (B.length / 2 ^ (l + 1)))
          (fpos (chunkAlive (B ++ [some x])) (l, 2 * (B.length / 2 ^ (l + 1))) l 0 s) :=
        fpos_under _ (l, 2 * (B.length / 2 ^ (l + 1))) l 0 s (by simp)
      have hund := gP_under B.length dz l l _ (Nat.le_refl _) hbit hu
      refine ⟨fun e => ?_, fun hlt hal => ?_⟩
      · subst e; omega
      · have halive : chunkAlive B l (2 * (B.length / 2 ^ (l + 1))) = true := by
          have := chunkAlive_anc B hal l
          rwa [Nat.zero_add, hsl] at this
        have hdzl : dz l = false := by rw [hdz l hlk, halive]; rfl
        refine ⟨?_, fun T hT => ?_⟩
        · simp only [gPS, hdzl, Bool.false_eq_true, if_false]
          exact ⟨fun h => (by cases h), hund.2⟩
        · have hTl : T = l := inTree_unique hT hin
          subst hTl
          have hcongr : fpos (chunkAlive (B ++ [some x])) (T, 2 * (B.length / 2 ^ (T + 1))) T 0 s =
              fpos (chunkAlive B) (T, 2 * (B.length / 2 ^ (T + 1))) T 0 s := by
            apply fpos_congr
            intro j hj
            apply chunkAlive_append_left
            have := inTree_anc hin (m := j) (by omega)
            exact inTree_le (inTree_sib this (by omega))
          simp only [gP, hdzl, Bool.false_eq_true, if_false]
          rw [hund.1, hcongr]
          unfold nodePos
          rw [Nat.sub_zero]
    · -- the slot lies in the chunk of the new leaf
      have hsl : s / 2 ^ l = B.length / 2 ^ l := by omega
      have hsib : sibIdx (s / 2 ^ l) = 2 * (B.length / 2 ^ (l + 1)) := by
        unfold sibIdx; rw [if_neg (by omega)]; omega
      have happ : chunkAlive (B ++ [some x]) l (2 * (B.length / 2 ^ (l + 1))) =
          chunkAlive B l (2 * (B.length / 2 ^ (l + 1))) :=
        chunkAlive_append_left _ _ _ _ (root_chunk_le hbit)
      rw [hsib, happ, h1]
      have IH := ih s (by omega) hsl
      cases hal : chunkAlive B l (2 * (B.length / 2 ^ (l + 1))) with
      | true =>
        have hdzl : dz l = false := by rw [hdz l hlk, hal]; rfl
        simp only [if_true, gP, gPS, hdzl, Bool.false_eq_true, if_false]
        rw [← hodd]
        refine ⟨fun e => ⟨⟨fun h => (by cases h), (IH.1 e).1⟩, (IH.1 e).2⟩,
          fun h1 h2 => ⟨⟨fun h => (by cases h), (IH.2 h1 h2).1⟩, (IH.2 h1 h2).2⟩⟩
      | false =>
        have hdzl : dz l = true := by rw [hdz l hlk, hal]; rfl
        simp only [Bool.false_eq_true, if_false, gP, gPS, hdzl, if_true]
        have hrow : 1 ≤ (fpos (chunkAlive (B ++ [some x])) (l + 1, B.length / 2 ^ (l + 1)) l 0 s).1 := by
          rw [fpos_fdw]
          have := fdw_le (chunkAlive (B ++ [some x])) l 0 s
          simp only
          omega
        rw [moveDown_fpos _ _ _ _ _ (by simp), show (l + 1, B.length / 2 ^ (l + 1)).1 - 1 = l from rfl,
          show 2 * (l + 1, B.length / 2 ^ (l + 1)).2 + 1 = B.length / 2 ^ l from hodd.symm]
        refine ⟨fun e => ⟨⟨fun _ _ => hrow, (IH.1 e).1⟩, (IH.1 e).2⟩,
          fun h1 h2 => ⟨⟨fun _ _ => hrow, (IH.2 h1 h2).1⟩, (IH.2 h1 h2).2⟩⟩

/-! ### `n` and `n + 1` -/

theorem succ_div_high {n k j : Nat} (hk : ∀ i, i < k → n.testBit i = true) (hk0 : n.testBit k = false)
    (hj : k < j) : (n + 1) / 2 ^ j = n / 2 ^ j := by
  have hf := trailing_form hk
  have hq : n / 2 ^ k % 2 = 0 := by
    have : ¬ n / 2 ^ k % 2 = 1 := fun h => by rw [testBit_div_odd.mpr h] at hk0; cases hk0
    omega
  have hpos := Nat.two_pow_pos k
  have e1 : (n + 1) / 2 ^ k = n / 2 ^ k + 1 := by
    have : n + 1 = (n / 2 ^ k + 1) * 2 ^ k := by rw [Nat.add_mul, Nat.one_mul]; omega
    rw [this, Nat.mul_div_cancel _ hpos]
  rw [← div_div_pow (show k + 1 ≤ j by omega), ← div_div_pow (m := n) (show k + 1 ≤ j by omega)]
  congr 1
  rw [half_pow, half_pow n, e1]
  omega

theorem succ_testBit_k {n k : Nat} (hk : ∀ i, i < k → n.testBit i = true) (hk0 : n.testBit k = false) :
    (n + 1).testBit k = true := by
  have hf := trailing_form hk
  have hq : n / 2 ^ k % 2 = 0 := by
    have : ¬ n / 2 ^ k % 2 = 1 := fun h => by rw [testBit_div_odd.mpr h] at hk0; cases hk0
    omega
  have hpos := Nat.two_pow_pos k
  have e1 : (n + 1) / 2 ^ k = n / 2 ^ k + 1 := by
    have : n + 1 = (n / 2 ^ k + 1) * 2 ^ k := by rw [Nat.add_mul, Nat.one_mul]; omega
    rw [this, Nat.mul_div_cancel _ hpos]
  rw [testBit_div_odd, e1]
  omega

theorem succ_testBit_high {n k j : Nat} (hk : ∀ i, i < k → n.testBit i = true) (hk0 : n.testBit k = false)
    (hj : k < j) : (n + 1).testBit j = n.testBit j := by
  rw [Nat.testBit_eq_decide_div_mod_eq, Nat.testBit_eq_decide_div_mod_eq, succ_div_high hk hk0 hj]

theorem root_k {n k : Nat} (hk0 : n.testBit k = false) : n / 2 ^ k = 2 * (n / 2 ^ (k + 1)) := by
  have hq : n / 2 ^ k % 2 = 0 := by
    have : ¬ n / 2 ^ k % 2 = 1 := fun h => by rw [testBit_div_odd.mpr h] at hk0; cases hk0
    omega
  rw [half_pow]
  omega

/-- **the position in `A = B ++ [x]` of a live old slot is walked back to its position in `B`** -/
theorem gP_old {k : Nat} (hk : ∀ j, j < k → B.length.testBit j = true) (hk0 : B.length.testBit k = false)
    (dz : Nat → Bool) (hdz : ∀ l, l < k → dz l = !chunkAlive B l (2 * (B.length / 2 ^ (l + 1))))
    {s TA TB : Nat} (hs : s < B.length) (hal : chunkAlive B 0 s = true)
    (hA : Spec.inTree (B.length + 1) TA 0 s) (hB : Spec.inTree B.length TB 0 s) :
    gP B.length dz k (nodePos (B ++ [some x]) TA 0 s) = nodePos B TB 0 s ∧
    gPS B.length dz k (nodePos (B ++ [some x]) TA 0 s) := by
  have hlen : (B ++ [some x]).length = B.length + 1 := by simp
  obtain ⟨hb1, _, hb3⟩ := hB
  rw [Nat.sub_zero] at hb3
  rcases Nat.lt_trichotomy TB k with hlt | heq | hgt
  · -- the tree of `s` is merged into the new tree on row `k`
    have hsk : s / 2 ^ k = B.length / 2 ^ k := by
      rw [← div_div_pow (show TB ≤ k by omega), hb3, root_anc _ hlt]
    have hAk : Spec.inTree (B.length + 1) k 0 s :=
      ⟨succ_testBit_k hk hk0, Nat.zero_le _, by
        rw [Nat.sub_zero, hsk, succ_div_high hk hk0 (Nat.lt_succ_self k)]; exact root_k hk0⟩
    have hTA : TA = k := inTree_unique hA hAk
    subst hTA
    unfold nodePos
    rw [hlen, Nat.sub_zero, succ_div_high hk hk0 (Nat.lt_succ_self TA), ← root_k hk0]
    have := (gP_spine B x hk dz hdz TA s (Nat.le_refl _) hsk).2 hs hal
    exact ⟨this.2 TB ⟨hb1, Nat.zero_le _, by rw [Nat.sub_zero]; exact hb3⟩, this.1⟩
  · subst heq; rw [hb1] at hk0; cases hk0
  · -- the tree of `s` is not touched by the addition
    have hAT : Spec.inTree (B.length + 1) TB 0 s :=
      ⟨by rw [succ_testBit_high hk hk0 hgt]; exact hb1, Nat.zero_le _, by
        rw [Nat.sub_zero, hb3, succ_div_high hk hk0 (show k < TB + 1 by omega)]⟩
    have hTA : TA = TB := inTree_unique hA hAT
    subst hTA
    have hin : Spec.inTree B.length TA 0 s := ⟨hb1, Nat.zero_le _, by rw [Nat.sub_zero]; exact hb3⟩
    have e : nodePos (B ++ [some x]) TA 0 s = nodePos B TA 0 s := by
      unfold nodePos
      rw [hlen, Nat.sub_zero, succ_div_high hk hk0 (show k < TA + 1 by omega)]
      apply fpos_congr
      intro j hj
      apply chunkAlive_append_left
      have := inTree_anc hin (m := j) (by omega)
      exact inTree_le (inTree_sib this (by omega))
    rw [e]
    apply gP_under B.length dz k TA _ (by omega) hb1
    unfold nodePos
    exact fpos_under _ (TA, 2 * (B.length / 2 ^ (TA + 1))) (TA - 0) 0 s (by simp)

/-- **the new leaf is walked to its slot** -/
theorem gP_new {k : Nat} (hk : ∀ j, j < k → B.length.testBit j = true) (hk0 : B.length.testBit k = false)
    (dz : Nat → Bool) (hdz : ∀ l, l < k → dz l = !chunkAlive B l (2 * (B.length / 2 ^ (l + 1))))
    {TA : Nat} (hA : Spec.inTree (B.length + 1) TA 0 B.length) :
    gP B.length dz k (nodePos (B ++ [some x]) TA 0 B.length) = (0, B.length) ∧
    gPS B.length dz k (nodePos (B ++ [some x]) TA 0 B.length) := by
  have hlen : (B ++ [some x]).length = B.length + 1 := by simp
  have hAk : Spec.inTree (B.length + 1) k 0 B.length :=
    ⟨succ_testBit_k hk hk0, Nat.zero_le _, by
      rw [Nat.sub_zero, succ_div_high hk hk0 (Nat.lt_succ_self k)]; exact root_k hk0⟩
  have hTA : TA = k := inTree_unique hA hAk
  subst hTA
  unfold nodePos
  rw [hlen, Nat.sub_zero, succ_div_high hk hk0 (Nat.lt_succ_self TA), ← root_k hk0]
  have := (gP_spine B x hk dz hdz TA B.length (Nat.le_refl _) rfl).1 rfl
  exact ⟨this.2, this.1⟩

end

end UtreexoVerif.Proofs.SchedAdd
