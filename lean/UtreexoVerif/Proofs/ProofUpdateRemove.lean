/-
  `updateProofRemove` is canonical (property C07, level 3): fed the canonical proof of the cached
  leaves `C` in `F` and the block's deletion data (`newDelSpec F D`), it returns the canonical
  proof of the remaining cached leaves in `F.delLeaves D` (targets ascending by position).
-/
import UtreexoVerif.Proofs.ProofUpdateHelpers
import UtreexoVerif.Proofs.ProofUpdateGnp
import UtreexoVerif.Proofs.ProofUpdateDeTwin
import UtreexoVerif.Proofs.MoveDT
import UtreexoVerif.Props.C11del
import UtreexoVerif.Proofs.CanonTotal

namespace UtreexoVerif.Proofs.ProofUpdateRemove
open UtreexoVerif Spec Hasher Model
open UtreexoVerif.Proofs UtreexoVerif.Proofs.SpecNodes UtreexoVerif.Proofs.SpecSubs
open UtreexoVerif.Proofs.SpecPlan UtreexoVerif.Proofs.CalcComplete
open UtreexoVerif.Proofs.CalcGeo UtreexoVerif.Proofs.Movement UtreexoVerif.Proofs.CalcPlan
open UtreexoVerif.Proofs.Sorted UtreexoVerif.Proofs.MovePP UtreexoVerif.Proofs.ProofUpdateHelpers
open UtreexoVerif.Proofs.ProofUpdateLists UtreexoVerif.Proofs.ProofUpdateGnp
open UtreexoVerif.Proofs.MoveFold UtreexoVerif.Proofs.MoveDT

section
set_option linter.unusedSectionVars false
variable {H : Type} [DecidableEq H] [Hasher H]

/-- the position of a leaf (junk `(0,0)` for a leaf that is not live) -/
def posD (F : Forest H) (x : H) : Pos := (F.posOf x).getD (0, 0)

/-- encode the position of a (position, hash) pair -/
def enc2 (rows : Nat) (z : Pos × H) : U64 × H := (E rows z.1, z.2)

/-- the cached leaves with their positions, ascending by position -/
def sortedPairs (F : Forest H) (C : List H) : List (Pos × H) :=
  sortBy (fun z => E F.rows z.1) (C.map (fun x => (posD F x, x)))

theorem canon_targets_eq {F : Forest H} {C : List H} {tgC : List Pos} {hsC : List H}
    (hc : F.canon C = some (tgC, hsC)) : tgC = C.map (posD F) := (canon_spec hc).1

theorem posD_sub {F : Forest H} {C : List H} {tgC : List Pos} {hsC : List H}
    (hc : F.canon C = some (tgC, hsC)) {x : H} (hx : x ∈ C) :
    ∃ h, SubAtT F h (posD F x) (.leaf x) := canon_target_leaf hc hx

theorem posD_inj {F : Forest H} {C : List H} {tgC : List Pos} {hsC : List H}
    (hc : F.canon C = some (tgC, hsC)) {x y : H} (hx : x ∈ C) (hy : y ∈ C)
    (e : posD F x = posD F y) : x = y := by
  obtain ⟨h1, s1⟩ := posD_sub hc hx
  obtain ⟨h2, s2⟩ := posD_sub hc hy
  rw [e] at s1
  have := (s1.unique s2).2
  injection this

section cached
variable {F : Forest H} (hn : F.numLeaves ≤ 2 ^ 63) {C : List H} {tgC : List Pos} {hsC : List H}
  (hc : F.canon C = some (tgC, hsC)) (hC : C.Nodup)
include hn hc hC

theorem sortedPairs_perm : (sortedPairs F C).Perm (C.map (fun x => (posD F x, x))) :=
  SortBy.sortBy_perm _ _

theorem sortedPairs_mem {z : Pos × H} (hz : z ∈ sortedPairs F C) :
    z.2 ∈ C ∧ z.1 = posD F z.2 ∧ ∃ h, SubAtT F h z.1 (.leaf z.2) := by
  have := (sortedPairs_perm hn hc hC).mem_iff.1 hz
  obtain ⟨x, hx, rfl⟩ := List.mem_map.1 this
  exact ⟨hx, rfl, posD_sub hc hx⟩

theorem mem_sortedPairs {x : H} (hx : x ∈ C) : (posD F x, x) ∈ sortedPairs F C :=
  (sortedPairs_perm hn hc hC).mem_iff.2 (List.mem_map.2 ⟨x, hx, rfl⟩)

theorem sortedPairs_keys : (sortedPairs F C).Pairwise (fun a b => E F.rows a.1 < E F.rows b.1) := by
  apply SortBy.sortBy_strict
  rw [List.map_map]
  unfold List.Nodup
  rw [List.pairwise_map]
  apply List.Pairwise.imp_of_mem _ hC
  intro a b ha hb hab e
  simp only [Function.comp] at e
  obtain ⟨h1, s1⟩ := posD_sub hc ha
  obtain ⟨h2, s2⟩ := posD_sub hc hb
  exact hab (posD_inj hc ha hb (E_inj (rows_le_63 hn) s1.inF.valid s2.inF.valid e))

theorem sortedPairs_sorted : ((sortedPairs F C).map (·.1)).Pairwise Sorted.PLt := by
  rw [List.pairwise_map]
  apply List.Pairwise.imp_of_mem _ (sortedPairs_keys hn hc hC)
  intro a b ha hb hab
  obtain ⟨_, _, _, sa⟩ := sortedPairs_mem hn hc hC ha
  obtain ⟨_, _, _, sb⟩ := sortedPairs_mem hn hc hC hb
  exact (E_lt_iff (rows_le_63 hn) sa.inF.valid sb.inF.valid).1 hab

theorem toHashAndPos_cached :
    toHashAndPos (tgC.map (E F.rows)) C = .ok ((sortedPairs F C).map (enc2 F.rows)) := by
  rw [toHashAndPos_ok _ _ (by rw [List.length_map, canon_targets_length hc])]
  congr 1
  rw [canon_targets_eq hc, List.map_map]
  have e : (C.map (E F.rows ∘ posD F)).zip C = (C.map (fun x => (posD F x, x))).map (enc2 F.rows) := by
    rw [List.map_map]
    clear hc hC
    induction C with
    | nil => rfl
    | cons a t ih => simp only [List.map_cons, List.zip_cons_cons, ih]; rfl
  rw [e]
  unfold sortHP sortedPairs
  rw [sortBy_map]
  rfl

theorem sortedPairs_targetsOK : TargetsOK F ((sortedPairs F C).map (·.1)) := by
  intro t ht
  obtain ⟨z, hz, rfl⟩ := List.mem_map.1 ht
  obtain ⟨_, _, h, s⟩ := sortedPairs_mem hn hc hC hz
  exact ⟨h, z.2, s⟩

end cached

/-! ### removing the deleted targets -/

/-- the cached leaves that are not deleted, with their positions, ascending by position -/
def keptPairs (F : Forest H) (C D : List H) : List (Pos × H) :=
  (sortedPairs F C).filter (fun z => decide (z.2 ∉ D))

section block
variable {F : Forest H} (hn : F.numLeaves ≤ 2 ^ 63) {C D : List H} {tgC tgD : List Pos}
  {hsC hsD : List H}
  (hc : F.canon C = some (tgC, hsC)) (hC : C.Nodup) (hcD : F.canon D = some (tgD, hsD))
include hn hc hC hcD

theorem mem_blockTargets_iff {z : Pos × H} (hz : z ∈ sortedPairs F C) :
    E F.rows z.1 ∈ sortU64 (tgD.map (E F.rows)) ↔ z.2 ∈ D := by
  obtain ⟨hzC, hz1, h, sz⟩ := sortedPairs_mem hn hc hC hz
  rw [ProofOps.mem_sortU64, List.mem_map]
  constructor
  · rintro ⟨t, ht, e⟩
    rw [canon_targets_eq hcD] at ht
    obtain ⟨d, hd, rfl⟩ := List.mem_map.1 ht
    obtain ⟨h', sd⟩ := posD_sub hcD hd
    have := E_inj (rows_le_63 hn) sd.inF.valid sz.inF.valid e
    rw [this] at sd
    have := (sd.unique sz).2
    injection this with this
    rw [← this]
    exact hd
  · intro hd
    refine ⟨posD F z.2, ?_, by rw [hz1]⟩
    rw [canon_targets_eq hcD]
    exact List.mem_map.2 ⟨z.2, hd, rfl⟩

theorem subtract_cached :
    subtractHP ((sortedPairs F C).map (enc2 F.rows)) (sortU64 (tgD.map (E F.rows))) =
      (keptPairs F C D).map (enc2 F.rows) := by
  rw [subtractHP_eq_filter _ _ (by
      rw [List.pairwise_map]; exact sortedPairs_keys hn hc hC) (ProofOps.sorted_sortU64 _),
    List.filter_map]
  unfold keptPairs
  congr 1
  apply List.filter_congr
  intro z hz
  have h := mem_blockTargets_iff hn hc hC hcD hz
  by_cases hd : z.2 ∈ D
  · simp [hd, enc2, h.2 hd]
  · have : ¬ E F.rows z.1 ∈ sortU64 (tgD.map (E F.rows)) := fun hh => hd (h.1 hh)
    simp [hd, enc2, this]

theorem keptPairs_mem {z : Pos × H} (hz : z ∈ keptPairs F C D) :
    z ∈ sortedPairs F C ∧ z.2 ∉ D := by
  unfold keptPairs at hz
  simpa using hz

theorem keptPairs_sorted : ((keptPairs F C D).map (·.1)).Pairwise Sorted.PLt := by
  apply List.Pairwise.sublist _ (sortedPairs_sorted hn hc hC)
  exact List.Sublist.map _ List.filter_sublist

theorem keptPairs_keys :
    (keptPairs F C D).Pairwise (fun a b => E F.rows a.1 < E F.rows b.1) :=
  List.Pairwise.sublist List.filter_sublist (sortedPairs_keys hn hc hC)

theorem keptPairs_targetsOK : TargetsOK F ((keptPairs F C D).map (·.1)) := by
  intro t ht
  obtain ⟨z, hz, rfl⟩ := List.mem_map.1 ht
  obtain ⟨_, _, h, s⟩ := sortedPairs_mem hn hc hC (keptPairs_mem hn hc hC hcD hz).1
  exact ⟨h, z.2, s⟩

end block

/-! ### the proof positions -/

/-- `ProofPositions` on the ascending positions of leaves is the canonical list -/
theorem proofPositions_model {F : Forest H} (hn : F.numLeaves ≤ 2 ^ 63) {Tg : List Pos}
    (tok : TargetsOK F Tg) (hs : Tg.Pairwise Sorted.PLt) :
    (ProofPositions (Tg.map (E F.rows)) (BitVec.ofNat 64 F.numLeaves) (H8 F.rows)).1 =
      (F.proofPositions Tg).map (E F.rows) := by
  have h := Props.C16.proofPositions_spec F (H := F.rows) (h := F.rows) (BitVec.ofNat 64 F.numLeaves)
    (N_toNat hn) (treeRows_eq' hn) (rows_le_63 hn) (Nat.le_refl _) Tg (leaves_ppHyp tok hs)
  have e : (encP F.rows : Pos → U64) = E F.rows := rfl
  rw [e] at h
  rw [h]

/-- the canonical proof with positions attached -/
def ppPairs (F : Forest H) (tg : List Pos) : List (Pos × H) :=
  (F.proofPositions tg).map (fun q => (q, (F.nodeAt q).getD zero))

theorem pp_valid {F : Forest H} {tg : List Pos} (tok : TargetsOK F tg) {q : Pos}
    (hq : q ∈ F.proofPositions tg) : Valid F.rows q := by
  obtain ⟨h, t, s⟩ := pp_node tok hq
  exact s.inF.valid

theorem pp_keys {F : Forest H} (hn : F.numLeaves ≤ 2 ^ 63) {tg : List Pos} (tok : TargetsOK F tg) :
    ((F.proofPositions tg).map (E F.rows)).Pairwise (· < ·) := by
  rw [List.pairwise_map]
  apply List.Pairwise.imp_of_mem _ (proofPositions_sorted F tg)
  intro a b ha hb hab
  exact (E_lt_iff (rows_le_63 hn) (pp_valid tok ha) (pp_valid tok hb)).2 hab

theorem ppPairs_keys {F : Forest H} (hn : F.numLeaves ≤ 2 ^ 63) {tg : List Pos}
    (tok : TargetsOK F tg) :
    ((ppPairs F tg).map (enc2 F.rows)).Pairwise (fun a b => a.1 < b.1) := by
  have := pp_keys hn tok
  unfold ppPairs
  rw [List.pairwise_map] at this
  rw [List.pairwise_map, List.pairwise_map]
  exact this

section cached2
variable {F : Forest H} (hn : F.numLeaves ≤ 2 ^ 63) {C : List H} {tgC : List Pos} {hsC : List H}
  (hc : F.canon C = some (tgC, hsC)) (hC : C.Nodup)
include hn hc hC

theorem sortedPairs_fst_mem (t : Pos) : t ∈ (sortedPairs F C).map (·.1) ↔ t ∈ tgC := by
  rw [canon_targets_eq hc]
  constructor
  · intro ht
    obtain ⟨z, hz, rfl⟩ := List.mem_map.1 ht
    obtain ⟨h1, h2, _⟩ := sortedPairs_mem hn hc hC hz
    exact List.mem_map.2 ⟨z.2, h1, h2.symm⟩
  · intro ht
    obtain ⟨x, hx, rfl⟩ := List.mem_map.1 ht
    exact List.mem_map.2 ⟨_, mem_sortedPairs hn hc hC hx, rfl⟩

theorem sortU64_cached :
    sortU64 (tgC.map (E F.rows)) = ((sortedPairs F C).map (·.1)).map (E F.rows) := by
  have h1 := toHashAndPos_cached hn hc hC
  rw [toHashAndPos_ok _ _ (by rw [List.length_map, canon_targets_length hc])] at h1
  injection h1 with h1
  have h2 := toHashAndPos_positions (tgC.map (E F.rows)) C
    (by rw [List.length_map, canon_targets_length hc])
  rw [h1] at h2
  rw [← h2]
  simp [HP.positions, enc2]

theorem proofPos_cached :
    (ProofPositions (sortU64 (tgC.map (E F.rows))) (BitVec.ofNat 64 F.numLeaves) (H8 F.rows)).1 =
      (F.proofPositions tgC).map (E F.rows) := by
  rw [sortU64_cached hn hc hC, proofPositions_model hn (sortedPairs_targetsOK hn hc hC)
    (sortedPairs_sorted hn hc hC), proofPositions_congr F (sortedPairs_fst_mem hn hc hC)]

theorem oldProofs_eq :
    toHashAndPos ((F.proofPositions tgC).map (E F.rows)) hsC =
      .ok ((ppPairs F tgC).map (enc2 F.rows)) := by
  have hh := (canon_spec hc).2.2.1
  rw [toHashAndPos_ok _ _ (by rw [hh, List.length_map, List.length_map])]
  congr 1
  have e : ((F.proofPositions tgC).map (E F.rows)).zip hsC = (ppPairs F tgC).map (enc2 F.rows) := by
    rw [hh]
    unfold ppPairs
    rw [List.map_map]
    generalize F.proofPositions tgC = l
    induction l with
    | nil => rfl
    | cons a t ih => simp only [List.map_cons, List.zip_cons_cons, ih]; rfl
  rw [e]
  exact sortHP_eq_self_of_strict (ppPairs_keys hn (canon_targetsOK hc))

end cached2

/-! ### the two loops over the proof hashes -/

/-- the hash the subtree at `q` has after the deletion (zero if nothing survives); this is
`Props.C11del.hashAfter` -/
def haft (F : Forest H) (D : List H) (q : Pos) : H := valAt (dhash D) F q

/-- the kept old proof hashes, updated -/
def keepM (F : Forest H) (D : List H) (tgC tgK : List Pos) : List (Pos × H) :=
  (F.proofPositions tgC).filterMap (fun q =>
    if q ∈ F.proofPositions tgK ∧ haft F D q ≠ zero then some (q, haft F D q) else none)

/-- the newly needed proof hashes -/
def missM (F : Forest H) (D : List H) (tgC tgD tgK : List Pos) : List (Pos × H) :=
  (F.proofPositions tgK).filterMap (fun q =>
    if q ∉ F.proofPositions tgC ∧ q ∉ tgD then some (q, haft F D q) else none)

section updated
variable {F : Forest H} (hn : F.numLeaves ≤ 2 ^ 63) {D : List H} {tgD : List Pos} {hsD : List H}
  (hcD : F.canon D = some (tgD, hsD))
include hn hcD

theorem lookup_updated {q : Pos} (hq : Valid F.rows q) :
    lookupHP (Props.C11del.newDelSpec F D tgD) (E F.rows q) =
      if q ∈ pathSet F tgD then some (haft F D q) else none := by
  have hs := Props.C11del.newDelSpec_sorted hn hcD
  rw [Props.C11del.newDelSpec_eq] at hs ⊢
  by_cases hq' : q ∈ pathSet F tgD
  · rw [if_pos hq']
    apply lookupHP_of_mem hs
    exact List.mem_map.2 ⟨q, hq', rfl⟩
  · rw [if_neg hq', lookupHP_eq_none]
    intro hm
    simp only [HP.positions, List.map_map, List.mem_map, Function.comp] at hm
    obtain ⟨p, hp, e⟩ := hm
    obtain ⟨h, t, s⟩ := pathSet_sub (canon_targetsOK hcD) hp
    have := E_inj (rows_le_63 hn) s.inF.valid hq e
    exact hq' (this ▸ hp)

end updated

section loops
variable {F : Forest H} (hn : F.numLeaves ≤ 2 ^ 63)
  (hnz : ∀ a b : H, ph a b ≠ (zero : H)) (hlive : ∀ l ∈ F.liveLeaves, l ≠ (zero : H))
  (hnd : F.liveLeaves.Nodup)
  {C D K : List H} {tgC tgD tgK : List Pos} {hsC hsD hsK : List H}
  (hcC : F.canon C = some (tgC, hsC)) (hcD : F.canon D = some (tgD, hsD))
  (hcK : F.canon K = some (tgK, hsK))
  (hKC : ∀ x ∈ K, x ∈ C) (hCK : ∀ x ∈ C, x ∉ D → x ∈ K)
include hn hnz hlive hnd hcC hcD hcK hKC hCK

theorem mem_map_E_iff {l : List Pos} (hl : ∀ p ∈ l, Valid F.rows p) {q : Pos} (hq : Valid F.rows q) :
    E F.rows q ∈ l.map (E F.rows) ↔ q ∈ l := by
  rw [List.mem_map]
  constructor
  · rintro ⟨p, hp, e⟩
    exact (E_inj (rows_le_63 hn) (hl p hp) hq e) ▸ hp
  · intro h; exact ⟨q, h, rfl⟩

theorem uprKeep_eq :
    uprKeep ((ppPairs F tgC).map (enc2 F.rows))
      (subtractU64 (sortU64 (HP.positions ((ppPairs F tgC).map (enc2 F.rows))))
        ((F.proofPositions tgK).map (E F.rows)))
      (Props.C11del.newDelSpec F D tgD) [] = (keepM F D tgC tgK).map (enc2 F.rows) := by
  have tokC := canon_targetsOK hcC
  have tokK := canon_targetsOK hcK
  have hd := LeafDistinct.leafDistinct_of_nodup hnd
  have hpos : HP.positions ((ppPairs F tgC).map (enc2 F.rows)) = (F.proofPositions tgC).map (E F.rows) := by
    simp [HP.positions, ppPairs, enc2]
  have hsortC := pp_keys hn tokC
  have hsortK := pp_keys hn tokK
  rw [hpos, sortU64_eq_self (hsortC.imp (fun h => ProofOps.u64_le_of_lt h))]
  rw [uprKeep_spec _ _ _ _ (ppPairs_keys hn tokC)
    ((subtractU64_sorted _ _ hsortC).imp (fun h => ProofOps.u64_le_of_lt h))
    (Props.C11del.newDelSpec_sorted hn hcD), List.nil_append]
  unfold keepM ppPairs
  rw [List.filterMap_map, List.filterMap_map, List.map_filterMap]
  apply filterMap_congr'
  intro q hq
  obtain ⟨h, t, s⟩ := pp_node tokC hq
  have hv := s.inF.valid
  simp only [Function.comp, enc2]
  have hex : E F.rows q ∈ subtractU64 ((F.proofPositions tgC).map (E F.rows))
      ((F.proofPositions tgK).map (E F.rows)) ↔ q ∉ F.proofPositions tgK := by
    rw [ProofOps.mem_subtractU64_iff _ _ hsortC (hsortK.imp (fun h => ProofOps.u64_le_of_lt h)),
      mem_map_E_iff hn hnz hlive hnd hcC hcD hcK hKC hCK (fun p hp => pp_valid tokK hp) hv]
    constructor
    · exact fun h => h.2
    · exact fun h => ⟨List.mem_map.2 ⟨q, hq, rfl⟩, h⟩
  simp only [hex]
  by_cases hK : q ∈ F.proofPositions tgK
  · simp only [hK, not_true_eq_false, if_false, true_and]
    rw [lookup_updated hn hcD hv]
    by_cases hp : q ∈ pathSet F tgD
    · rw [if_pos hp]
      by_cases hz : haft F D q = zero
      · simp [hz]
      · simp [hz, enc2]
    · rw [if_neg hp]
      have h1 : haft F D q = t.hash := by
        unfold haft
        rw [valAt_of s]
        exact dhash_off_path hcD hd s hp
      have h2 : (F.nodeAt q).getD zero = t.hash := by rw [s.nodeAt]; rfl
      have h3 : t.hash ≠ zero := hash_ne_zero hnz (fun l hl => hlive l (s.leaves_live l hl))
      simp [h1, h2, h3, enc2]
  · simp [hK]

theorem uprMissing_eq (acc : HP H) :
    uprMissing (subtractU64 (subtractU64 (sortU64 ((F.proofPositions tgK).map (E F.rows)))
        (HP.positions ((ppPairs F tgC).map (enc2 F.rows)))) (sortU64 (tgD.map (E F.rows))))
      (Props.C11del.newDelSpec F D tgD) acc = acc ++ (missM F D tgC tgD tgK).map (enc2 F.rows) := by
  have tokC := canon_targetsOK hcC
  have tokK := canon_targetsOK hcK
  have tokD := canon_targetsOK hcD
  have hd := LeafDistinct.leafDistinct_of_nodup hnd
  have hpos : HP.positions ((ppPairs F tgC).map (enc2 F.rows)) = (F.proofPositions tgC).map (E F.rows) := by
    simp [HP.positions, ppPairs, enc2]
  have hsortC := pp_keys hn tokC
  have hsortK := pp_keys hn tokK
  have hle : ∀ {l : List U64}, l.Pairwise (· < ·) → l.Pairwise (· ≤ ·) :=
    fun h => h.imp (fun h => ProofOps.u64_le_of_lt h)
  rw [hpos, sortU64_eq_self (hle hsortK)]
  have hs1 := subtractU64_sorted _ ((F.proofPositions tgC).map (E F.rows)) hsortK
  have hs2 := subtractU64_sorted _ (sortU64 (tgD.map (E F.rows))) hs1
  rw [uprMissing_spec _ _ _ hs2 (Props.C11del.newDelSpec_sorted hn hcD)]
  congr 1
  rw [subtractU64_eq_filter _ _ hs1 (ProofOps.sorted_sortU64 _),
    subtractU64_eq_filter _ _ hsortK (hle hsortC), List.filter_filter, List.filter_map,
    List.filterMap_map]
  unfold missM
  rw [List.map_filterMap, ← List.filterMap_eq_filter, List.filterMap_filterMap]
  apply filterMap_congr'
  intro q hq
  obtain ⟨h, t, s⟩ := pp_node tokK hq
  have hv := s.inF.valid
  have e1 : E F.rows q ∈ sortU64 (tgD.map (E F.rows)) ↔ q ∈ tgD := by
    rw [ProofOps.mem_sortU64]
    exact mem_map_E_iff hn hnz hlive hnd hcC hcD hcK hKC hCK (fun p hp => by
      obtain ⟨h', l, s'⟩ := tokD p hp
      exact s'.inF.valid) hv
  have e2 : E F.rows q ∈ (F.proofPositions tgC).map (E F.rows) ↔ q ∈ F.proofPositions tgC :=
    mem_map_E_iff hn hnz hlive hnd hcC hcD hcK hKC hCK (fun p hp => pp_valid tokC hp) hv
  simp only [Function.comp, Option.guard, Bool.and_eq_true, decide_eq_true_eq, e1, e2]
  by_cases hc1 : q ∈ F.proofPositions tgC
  · simp [hc1]
  · by_cases hc2 : q ∈ tgD
    · simp [hc1, hc2]
    · -- a newly needed position lies on the path of a deleted cached leaf
      obtain ⟨h', t', s', l, hlC, hlK, hlt⟩ := missing_on_del_path hnd hcC hcK hKC hq hc1
      have hlD : l ∈ D := by
        apply Classical.byContradiction
        intro hnD
        exact hlK (hCK l hlC hnD)
      have hp : q ∈ pathSet F tgD := leaf_on_path hcD hd s' hlt hlD
      simp [hc1, hc2, lookup_updated hn hcD hv, hp, enc2]

end loops

/-! ### `getNewPositions` over the maximal fully-deleted subtrees -/

theorem dtOK_of_isDT {F : Forest H} {D : List H} {dtp : List Pos}
    (hdt : ∀ T, T ∈ dtp ↔ IsDT F D T) {h : Nat} {p : Pos} {t : CTree H} (s : SubAtT F h p t)
    (hal : delT D t ≠ none) : DtOK F.numLeaves h dtp := by
  intro T hT
  have hT' := (hdt T).1 hT
  obtain ⟨hT0, tT, sT, _, _⟩ := id hT'
  refine ⟨hT0, sT.1, sT.under, ?_⟩
  intro e
  subst e
  exact dt_not_root s hal hT' ((inTree_iff _ _ _).2 sT.under)

theorem gnp_apply {F : Forest H} (hn : F.numLeaves ≤ 2 ^ 63) {D : List H} {dtp : List Pos}
    (hs : dtp.Pairwise Sorted.PLt) (hdt : ∀ T, T ∈ dtp ↔ IsDT F D T) (L : List (Pos × H))
    (appendRoots : Bool)
    (hL : ∀ x ∈ L, x.2 ≠ zero → ∃ h t, SubAtT F h x.1 t ∧ delT D t ≠ none)
    (hroot : appendRoots = true ∨
      ∀ x ∈ L, x.2 ≠ zero → isRootPos F.numLeaves (movePos F D x.1) = false) :
    getNewPositions (dtp.map (E F.rows)) (L.map (enc2 F.rows)) (BitVec.ofNat 64 F.numLeaves)
        appendRoots =
      sortHP ((L.filter (fun x => decide (x.2 ≠ zero))).map
        (fun x => (E F.rows (movePos F D x.1), x.2))) := by
  have hmv : ∀ x ∈ L, x.2 ≠ zero →
      moveA F.numLeaves (treeRowOf F.numLeaves x.1) dtp x.1 = movePos F D x.1 := by
    intro x hx hz
    obtain ⟨h, t, s, hal⟩ := hL x hx hz
    rw [treeRowOf_of s]
    exact moveA_eq_movePos hs hdt s hal
  have := getNewPositions_enc hn dtp appendRoots L
    (by
      intro x hx hz
      obtain ⟨h, t, s, hal⟩ := hL x hx hz
      exact ⟨h, s.1, s.under, dtOK_of_isDT hdt s hal⟩)
    (by
      rcases hroot with h | h
      · exact Or.inl h
      · right
        intro x hx hz
        rw [hmv x hx hz]
        exact h x hx hz)
  have e : (L.map fun x => (E (forestRows F.numLeaves) x.1, x.2)) = L.map (enc2 F.rows) := rfl
  rw [e] at this
  rw [show F.rows = forestRows F.numLeaves from rfl] at *
  rw [this]
  congr 1
  apply List.map_congr_left
  intro x hx
  rw [List.mem_filter] at hx
  rw [hmv x hx.1 (by simpa using hx.2)]

/-! ### the remaining cached leaves and their canonical proofs -/

section kept
variable {F : Forest H} (hn : F.numLeaves ≤ 2 ^ 63) {C D : List H} {tgC tgD : List Pos}
  {hsC hsD : List H}
  (hc : F.canon C = some (tgC, hsC)) (hC : C.Nodup) (hcD : F.canon D = some (tgD, hsD))
include hn hc hC hcD

theorem kept_live {x : H} (hx : x ∈ (keptPairs F C D).map (·.2)) : x ∈ F.liveLeaves := by
  obtain ⟨z, hz, rfl⟩ := List.mem_map.1 hx
  obtain ⟨_, _, h, s⟩ := sortedPairs_mem hn hc hC (keptPairs_mem hn hc hC hcD hz).1
  exact s.leaves_live _ (by simp [CTree.leaves])

theorem kept_canon : ∃ hsK, F.canon ((keptPairs F C D).map (·.2)) =
    some ((keptPairs F C D).map (·.1), hsK) := by
  obtain ⟨tg, hs, hcK⟩ := CanonTotal.canon_total hn (fun l hl => kept_live hn hc hC hcD hl)
  refine ⟨hs, ?_⟩
  rw [hcK]
  congr 2
  rw [canon_targets_eq hcK, List.map_map]
  apply List.map_congr_left
  intro z hz
  exact (sortedPairs_mem hn hc hC (keptPairs_mem hn hc hC hcD hz).1).2.1.symm

theorem kept_sub {x : H} (hx : x ∈ (keptPairs F C D).map (·.2)) : x ∈ C ∧ x ∉ D := by
  obtain ⟨z, hz, rfl⟩ := List.mem_map.1 hx
  have := keptPairs_mem hn hc hC hcD hz
  exact ⟨(sortedPairs_mem hn hc hC this.1).1, this.2⟩

theorem kept_all {x : H} (hx : x ∈ C) (hxD : x ∉ D) : x ∈ (keptPairs F C D).map (·.2) := by
  refine List.mem_map.2 ⟨(posD F x, x), ?_, rfl⟩
  unfold keptPairs
  rw [List.mem_filter]
  exact ⟨mem_sortedPairs hn hc hC hx, by simpa using hxD⟩

theorem kept_perm : ((keptPairs F C D).map (·.2)).Perm (C.filter (fun x => decide (x ∉ D))) := by
  unfold keptPairs
  have h1 := ((sortedPairs_perm hn hc hC).filter (fun z => decide (z.2 ∉ D))).map (·.2)
  refine h1.trans ?_
  rw [List.filter_map, List.map_map]
  have : ((fun z : Pos × H => z.2) ∘ fun x => (posD F x, x)) = id := rfl
  rw [this, List.map_id]
  exact List.Perm.refl _

end kept

theorem filterMap_fst {α β : Type} (c : α → Prop) [DecidablePred c] (g : α → β) (l : List α) :
    (l.filterMap (fun q => if c q then some (q, g q) else none)).map Prod.fst = l.filter c := by
  induction l with
  | nil => rfl
  | cons a t ih =>
    rw [List.filterMap_cons, List.filter_cons]
    by_cases h : c a
    · simp [h, ih]
    · simp [h, ih]

/-! ### the proof hashes after both loops and the movement are the canonical ones -/

section final
variable {F : Forest H} (hn : F.numLeaves ≤ 2 ^ 63)
  (hnz : ∀ a b : H, ph a b ≠ (zero : H)) (hlive : ∀ l ∈ F.liveLeaves, l ≠ (zero : H))
  (hnd : F.liveLeaves.Nodup)
  {C D K K' : List H} {tgC tgD tgK tgK0 tgK' : List Pos} {hsC hsD hsK hsK0 hsK' : List H}
  (hcC : F.canon C = some (tgC, hsC)) (hcD : F.canon D = some (tgD, hsD))
  (hcK : F.canon K = some (tgK, hsK)) (hcK0 : F.canon K' = some (tgK0, hsK0))
  (hc' : (F.delLeaves D).canon K' = some (tgK', hsK'))
  (hKK' : ∀ x, x ∈ K' ↔ x ∈ K)
  (hKC : ∀ x ∈ K, x ∈ C) (hKD : ∀ x ∈ K, x ∉ D) (hCK : ∀ x ∈ C, x ∉ D → x ∈ K)
include hn hnz hlive hnd hcC hcD hcK hcK0 hc' hKK' hKC hKD hCK

theorem pp_K_eq : F.proofPositions tgK0 = F.proofPositions tgK := by
  apply proofPositions_congr
  intro x
  rw [canon_targets_eq hcK0, canon_targets_eq hcK, List.mem_map, List.mem_map]
  constructor
  · rintro ⟨l, hl, rfl⟩; exact ⟨l, (hKK' l).1 hl, rfl⟩
  · rintro ⟨l, hl, rfl⟩; exact ⟨l, (hKK' l).2 hl, rfl⟩

/-- a node's hash after the deletion is non-zero iff a leaf survives -/
theorem haft_ne_zero_iff {h : Nat} {q : Pos} {t : CTree H} (s : SubAtT F h q t) :
    haft F D q ≠ zero ↔ delT D t ≠ none := by
  unfold haft
  rw [valAt_of s]
  unfold dhash
  cases hd : delT D t with
  | none => simp [hashO]
  | some t' =>
    simp only [hashO, ne_eq, reduceCtorEq, not_false_eq_true, iff_true]
    exact hashO_ne_zero hnz D (fun l hl => hlive l (s.leaves_live l hl)) hd

/-- the entries that survive the zero-hash filter of `getNewPositions` -/
theorem mem_M_filter (x : Pos × H) :
    x ∈ (keepM F D tgC tgK ++ missM F D tgC tgD tgK).filter (fun x => decide (x.2 ≠ zero)) ↔
      ∃ q ∈ F.proofPositions tgK, haft F D q ≠ zero ∧ x = (q, haft F D q) := by
  rw [List.mem_filter, List.mem_append]
  unfold keepM missM
  simp only [List.mem_filterMap, decide_eq_true_eq]
  constructor
  · rintro ⟨⟨q, _, hq⟩ | ⟨q, hqK, hq⟩, hz⟩
    · split at hq
      · rename_i hc
        injection hq with hq
        exact ⟨q, hc.1, hc.2, hq.symm⟩
      · cases hq
    · split at hq
      · injection hq with hq
        subst hq
        exact ⟨q, hqK, hz, rfl⟩
      · cases hq
  · rintro ⟨q, hqK, hz, rfl⟩
    refine ⟨?_, hz⟩
    by_cases hqC : q ∈ F.proofPositions tgC
    · exact Or.inl ⟨q, hqC, by rw [if_pos ⟨hqK, hz⟩]⟩
    · right
      refine ⟨q, hqK, ?_⟩
      rw [if_pos]
      refine ⟨hqC, ?_⟩
      -- a deleted target has hash zero afterwards
      intro hqD
      rw [canon_targets_eq hcD] at hqD
      obtain ⟨d, hd, rfl⟩ := List.mem_map.1 hqD
      obtain ⟨h, sd⟩ := posD_sub hcD hd
      apply hz
      unfold haft
      rw [valAt_of sd]
      simp [dhash, delT, hd, hashO]

theorem M_filter_nodup :
    ((keepM F D tgC tgK ++ missM F D tgC tgD tgK).filter (fun x => decide (x.2 ≠ zero))).Nodup := by
  apply List.Nodup.sublist List.filter_sublist
  have hof : ∀ {l : List (Pos × H)}, (l.map Prod.fst).Nodup → l.Nodup := by
    intro l h
    unfold List.Nodup at h ⊢
    rw [List.pairwise_map] at h
    exact h.imp (fun hab e => hab (by rw [e]))
  apply hof
  rw [List.map_append]
  unfold keepM missM
  rw [filterMap_fst (fun q => q ∈ F.proofPositions tgK ∧ haft F D q ≠ zero),
    filterMap_fst (fun q => q ∉ F.proofPositions tgC ∧ q ∉ tgD)]
  rw [List.nodup_append]
  refine ⟨List.Nodup.sublist List.filter_sublist ((proofPositions_sorted F tgC).imp (fun h => PLt.ne h)),
    List.Nodup.sublist List.filter_sublist ((proofPositions_sorted F tgK).imp (fun h => PLt.ne h)), ?_⟩
  intro a ha b hb hab
  subst hab
  rw [List.mem_filter] at ha hb
  have := hb.2
  simp only [decide_eq_true_eq] at this
  exact this.1 ha.1

theorem proofs_final :
    sortHP (((keepM F D tgC tgK ++ missM F D tgC tgD tgK).filter
        (fun x => decide (x.2 ≠ zero))).map (fun x => (E F.rows (movePos F D x.1), x.2))) =
      (ppPairs (F.delLeaves D) tgK').map (enc2 F.rows) := by
  have hn' := delLeaves_numLeaves F D
  have hrows : (F.delLeaves D).rows = F.rows := by unfold Forest.rows; rw [hn']
  have tokK := canon_targetsOK hcK
  have tok' := canon_targetsOK hc'
  have hKD' : ∀ x ∈ K', x ∉ D := fun x hx => hKD x ((hKK' x).1 hx)
  have hppe := pp_K_eq hn hnz hlive hnd hcC hcD hcK hcK0 hc' hKK' hKC hKD hCK
  -- the target list is strictly sorted
  have hsorted : ((ppPairs (F.delLeaves D) tgK').map (enc2 F.rows)).Pairwise
      (fun a b => a.1 < b.1) := by
    have := ppPairs_keys (F := F.delLeaves D) (by rw [hn']; exact hn) tok'
    rw [hrows] at this
    exact this
  apply sortBy_eq_of_perm_sorted _ _ hsorted
  -- both lists are duplicate-free with the same members
  have hnd2 : ((ppPairs (F.delLeaves D) tgK').map (enc2 F.rows)).Nodup :=
    hsorted.imp (fun {a b} hab e => by rw [e] at hab; exact ProofOps.u64_lt_irrefl _ hab)
  -- description of the members of the moved list
  have hmem1 : ∀ z, z ∈ ((keepM F D tgC tgK ++ missM F D tgC tgD tgK).filter
        (fun x => decide (x.2 ≠ zero))).map (fun x => (E F.rows (movePos F D x.1), x.2)) ↔
      ∃ q ∈ F.proofPositions tgK, haft F D q ≠ zero ∧ z = (E F.rows (movePos F D q), haft F D q) := by
    intro z
    rw [List.mem_map]
    constructor
    · rintro ⟨x, hx, rfl⟩
      obtain ⟨q, hq, hz, rfl⟩ :=
        (mem_M_filter hn hnz hlive hnd hcC hcD hcK hcK0 hc' hKK' hKC hKD hCK x).1 hx
      exact ⟨q, hq, hz, rfl⟩
    · rintro ⟨q, hq, hz, rfl⟩
      exact ⟨(q, haft F D q),
        (mem_M_filter hn hnz hlive hnd hcC hcD hcK hcK0 hc' hKK' hKC hKD hCK _).2 ⟨q, hq, hz, rfl⟩,
        rfl⟩
  -- the moved list has no duplicates
  have hnd1 : (((keepM F D tgC tgK ++ missM F D tgC tgD tgK).filter
        (fun x => decide (x.2 ≠ zero))).map (fun x => (E F.rows (movePos F D x.1), x.2))).Nodup := by
    have hMn := M_filter_nodup hn hnz hlive hnd hcC hcD hcK hcK0 hc' hKK' hKC hKD hCK
    unfold List.Nodup at hMn ⊢
    rw [List.pairwise_map]
    apply List.Pairwise.imp_of_mem _ hMn
    intro x y hx hy hxy e
    apply hxy
    obtain ⟨q1, hq1, hz1, rfl⟩ :=
      (mem_M_filter hn hnz hlive hnd hcC hcD hcK hcK0 hc' hKK' hKC hKD hCK x).1 hx
    obtain ⟨q2, hq2, hz2, rfl⟩ :=
      (mem_M_filter hn hnz hlive hnd hcC hcD hcK hcK0 hc' hKK' hKC hKD hCK y).1 hy
    obtain ⟨h1, t1, s1⟩ := pp_node tokK hq1
    obtain ⟨h2, t2, s2⟩ := pp_node tokK hq2
    have a1 := (haft_ne_zero_iff hn hnz hlive hnd hcC hcD hcK hcK0 hc' hKK' hKC hKD hCK s1).1 hz1
    have a2 := (haft_ne_zero_iff hn hnz hlive hnd hcC hcD hcK hcK0 hc' hKK' hKC hKD hCK s2).1 hz2
    have e1 := (Prod.mk.inj e).1
    -- the moved positions are nodes of the forest after the deletion
    cases hd1 : delT D t1 with
    | none => exact absurd hd1 a1
    | some t1' =>
      cases hd2 : delT D t2 with
      | none => exact absurd hd2 a2
      | some t2' =>
        have m1 := (move_sub s1 hd1).inF.valid
        have m2 := (move_sub s2 hd2).inF.valid
        rw [hn', show forestRows F.numLeaves = F.rows from rfl] at m1 m2
        have := E_inj (rows_le_63 hn) m1 m2 e1
        rw [← hppe] at hq1 hq2
        have := movePos_inj_pp hnd hcK0 hc' hKD' hq1 hq2 s1 s2 a1 a2 this
        rw [this]
  rw [List.perm_ext_iff_of_nodup hnd1 hnd2]
  intro z
  rw [hmem1]
  unfold ppPairs
  rw [List.map_map, List.mem_map]
  constructor
  · rintro ⟨q, hq, hz, rfl⟩
    obtain ⟨h, t, s⟩ := pp_node tokK hq
    have hal := (haft_ne_zero_iff hn hnz hlive hnd hcC hcD hcK hcK0 hc' hKK' hKC hKD hCK s).1 hz
    refine ⟨movePos F D q, ?_, ?_⟩
    · rw [proofPositions_del hnd hcK0 hc' hKD']
      rw [← hppe] at hq
      exact ⟨q, hq, ⟨h, t, s, hal⟩, rfl⟩
    · simp only [Function.comp, enc2]
      rw [move_nodeAt s hal]
      simp only [Option.getD_some]
      unfold haft
      rw [valAt_of s]
  · rintro ⟨q', hq', rfl⟩
    rw [proofPositions_del hnd hcK0 hc' hKD'] at hq'
    obtain ⟨q, hq, ⟨h, t, s, hal⟩, rfl⟩ := hq'
    rw [hppe] at hq
    have hz := (haft_ne_zero_iff hn hnz hlive hnd hcC hcD hcK hcK0 hc' hKK' hKC hKD hCK s).2 hal
    refine ⟨q, hq, hz, ?_⟩
    simp only [Function.comp, enc2]
    rw [move_nodeAt s hal]
    simp only [Option.getD_some]
    unfold haft
    rw [valAt_of s]

end final

/-! ### `updateProofRemove` -/

theorem ok_bind' {α β : Type} (a : α) (f : α → Out β) : (Out.ok a >>= f) = f a := rfl

theorem positions_enc2 (rows : Nat) (l : List (Pos × H)) :
    HP.positions (l.map (enc2 rows)) = (l.map (·.1)).map (E rows) := by
  simp [HP.positions, enc2]

/-- **`updateProofRemove` is canonical**: from the canonical proof of the cached leaves `C` of
`F` (any request order) and the block's deletion data — the targets of the deleted leaves `D`
(any order) and `NewDel = newDelSpec F D` — it produces the canonical proof, in the forest
`F.delLeaves D`, of the cached leaves that were not deleted, listed by ascending position. -/
theorem updateProofRemove_canonical {F : Forest H} (hn : F.numLeaves ≤ 2 ^ 63)
    (hnz : ∀ a b : H, ph a b ≠ (zero : H)) (hlive : ∀ l ∈ F.liveLeaves, l ≠ (zero : H))
    (hnd : F.liveLeaves.Nodup) {C D : List H} {tgC tgD : List Pos} {hsC hsD : List H}
    (hC : C.Nodup) (hD : D.Nodup)
    (hcC : F.canon C = some (tgC, hsC)) (hcD : F.canon D = some (tgD, hsD)) :
    ∃ K' tgK' hsK', K'.Perm (C.filter (fun x => decide (x ∉ D))) ∧
      (F.delLeaves D).canon K' = some (tgK', hsK') ∧ tgK'.Pairwise Sorted.PLt ∧
      updateProofRemove ⟨tgC.map (E F.rows), hsC⟩ (tgD.map (E F.rows)) C
        (Props.C11del.newDelSpec F D tgD) (BitVec.ofNat 64 F.numLeaves) =
        .ok (⟨tgK'.map (E F.rows), hsK'⟩, K') := by
  have hn' := delLeaves_numLeaves F D
  have hrows : (F.delLeaves D).rows = F.rows := by unfold Forest.rows; rw [hn']
  have hnd' := LiveLeaves.liveLeaves_delLeaves_nodup hnd D
  -- the kept pairs and their canonical proof in `F`
  obtain ⟨hsK, hcK⟩ := kept_canon hn hcC hC hcD
  have tokK := canon_targetsOK hcK
  have hKsub := fun x hx => kept_sub hn hcC hC hcD (x := x) hx
  -- the maximal fully-deleted subtrees
  have hDlive : ∀ x ∈ D, x ∈ F.liveLeaves := by
    intro x hx
    obtain ⟨h, s⟩ := posD_sub hcD hx
    exact s.leaves_live _ (by simp [CTree.leaves])
  obtain ⟨dtp, hdt1, hdt2, hdt3⟩ := ProofUpdateDeTwin.deTwin_spec hn hnd hD hDlive
  have hdt1' : deTwin (sortU64 (tgD.map (E F.rows))) (H8 F.rows) = dtp.map (E F.rows) := by
    rw [canon_targets_eq hcD]; exact hdt1
  -- the kept pairs survive
  have hKPalive : ∀ x ∈ keptPairs F C D, x.2 ≠ zero →
      ∃ h t, SubAtT F h x.1 t ∧ delT D t ≠ none := by
    intro x hx _
    obtain ⟨h1, h2⟩ := keptPairs_mem hn hcC hC hcD hx
    obtain ⟨_, _, h, s⟩ := sortedPairs_mem hn hcC hC h1
    exact ⟨h, _, s, by simp [delT, h2]⟩
  have hKPnz : ∀ x ∈ keptPairs F C D, x.2 ≠ zero := by
    intro x hx
    exact hlive _ (kept_live hn hcC hC hcD (List.mem_map.2 ⟨x, hx, rfl⟩))
  have hfilt : (keptPairs F C D).filter (fun x => decide (x.2 ≠ zero)) = keptPairs F C D := by
    rw [List.filter_eq_self]
    intro x hx
    simpa using hKPnz x hx
  -- the new order of the kept pairs
  let key' : Pos × H → U64 := fun z => E F.rows (movePos F D z.1)
  let KP' := sortBy key' (keptPairs F C D)
  have hKP'perm : KP'.Perm (keptPairs F C D) := SortBy.sortBy_perm _ _
  have hKP'mem : ∀ z, z ∈ KP' ↔ z ∈ keptPairs F C D := fun z => hKP'perm.mem_iff
  have hK'K : ∀ x, x ∈ KP'.map (·.2) ↔ x ∈ (keptPairs F C D).map (·.2) :=
    fun x => (hKP'perm.map (·.2)).mem_iff
  -- canonical proofs of the kept leaves, new order
  have hK'live : ∀ x ∈ KP'.map (·.2), x ∈ F.liveLeaves :=
    fun x hx => kept_live hn hcC hC hcD ((hK'K x).1 hx)
  obtain ⟨tgK0, hsK0, hcK0⟩ := CanonTotal.canon_total hn hK'live
  have hK'live' : ∀ x ∈ KP'.map (·.2), x ∈ (F.delLeaves D).liveLeaves := by
    intro x hx
    exact LiveLeaves.mem_liveLeaves_delLeaves.2 ⟨hK'live x hx, (hKsub x ((hK'K x).1 hx)).2⟩
  obtain ⟨tgK', hsK', hc'⟩ := CanonTotal.canon_total (F := F.delLeaves D) (by rw [hn']; exact hn)
    hK'live'
  -- the new targets are the moved old ones
  have hpos' : ∀ z ∈ KP', (F.delLeaves D).posOf z.2 = some (movePos F D z.1) := by
    intro z hz
    obtain ⟨h1, h2⟩ := keptPairs_mem hn hcC hC hcD ((hKP'mem z).1 hz)
    obtain ⟨hzC, hz1, _⟩ := sortedPairs_mem hn hcC hC h1
    obtain ⟨p, hp⟩ := (canon_spec hcC).2.1 z.2 hzC
    have : z.1 = p := by rw [hz1]; unfold posD; rw [hp]; rfl
    rw [this]
    exact move_posOf (by omega) hnd hp h2
  have htg' : tgK' = KP'.map (fun z => movePos F D z.1) := by
    rw [canon_targets_eq hc', List.map_map]
    apply List.map_congr_left
    intro z hz
    simp only [Function.comp, posD]
    rw [hpos' z hz]
    rfl
  -- the new targets ascend strictly
  have hkeys' : KP'.Pairwise (fun a b => key' a < key' b) := by
    apply SortBy.sortBy_strict
    unfold List.Nodup
    rw [List.pairwise_map]
    have hndKP : (keptPairs F C D).Nodup :=
      (keptPairs_keys hn hcC hC hcD).imp (fun {a b} hab e => by
        rw [e] at hab; exact ProofOps.u64_lt_irrefl _ hab)
    apply List.Pairwise.imp_of_mem _ hndKP
    intro a b ha hb hab e
    apply hab
    have pa := hpos' a ((hKP'mem a).2 ha)
    have pb := hpos' b ((hKP'mem b).2 hb)
    obtain ⟨ha', sa⟩ := posOf_sub pa
    obtain ⟨hb', sb⟩ := posOf_sub pb
    have va := sa.inF.valid
    have vb := sb.inF.valid
    rw [hn', show forestRows F.numLeaves = F.rows from rfl] at va vb
    have e' := E_inj (rows_le_63 hn) va vb e
    rw [e'] at pa
    have e2 := posOf_inj pa pb
    obtain ⟨h1, _⟩ := keptPairs_mem hn hcC hC hcD ha
    obtain ⟨h2, _⟩ := keptPairs_mem hn hcC hC hcD hb
    have z1 := (sortedPairs_mem hn hcC hC h1).2.1
    have z2 := (sortedPairs_mem hn hcC hC h2).2.1
    exact Prod.ext (by rw [z1, z2, e2]) e2
  have hsorted' : tgK'.Pairwise Sorted.PLt := by
    rw [htg', List.pairwise_map]
    apply List.Pairwise.imp_of_mem _ hkeys'
    intro a b ha hb hab
    obtain ⟨ha', sa⟩ := posOf_sub (hpos' a ha)
    obtain ⟨hb', sb⟩ := posOf_sub (hpos' b hb)
    have va := sa.inF.valid
    have vb := sb.inF.valid
    rw [hn', show forestRows F.numLeaves = F.rows from rfl] at va vb
    exact (E_lt_iff (rows_le_63 hn) va vb).1 hab
  refine ⟨KP'.map (·.2), tgK', hsK', ?_, hc', hsorted', ?_⟩
  · exact (hKP'perm.map (·.2)).trans (kept_perm hn hcC hC hcD)
  -- the computation
  have hKC : ∀ x ∈ (keptPairs F C D).map (·.2), x ∈ C := fun x hx => (hKsub x hx).1
  have hKD : ∀ x ∈ (keptPairs F C D).map (·.2), x ∉ D := fun x hx => (hKsub x hx).2
  have hCK : ∀ x ∈ C, x ∉ D → x ∈ (keptPairs F C D).map (·.2) :=
    fun x hx hxD => kept_all hn hcC hC hcD hx hxD
  -- the needed proof positions survive with non-root images
  have hMalive : ∀ x ∈ keepM F D tgC ((keptPairs F C D).map (·.1)) ++
      missM F D tgC tgD ((keptPairs F C D).map (·.1)), x.2 ≠ zero →
      ∃ h t, SubAtT F h x.1 t ∧ delT D t ≠ none := by
    intro x hx hz
    have := (mem_M_filter hn hnz hlive hnd hcC hcD hcK hcK0 hc' hK'K hKC hKD hCK x).1
      (List.mem_filter.2 ⟨hx, by simpa using hz⟩)
    obtain ⟨q, hq, hz', rfl⟩ := this
    obtain ⟨h, t, s⟩ := pp_node tokK hq
    exact ⟨h, t, s,
      (haft_ne_zero_iff hn hnz hlive hnd hcC hcD hcK hcK0 hc' hK'K hKC hKD hCK s).1 hz'⟩
  have hMroot : ∀ x ∈ keepM F D tgC ((keptPairs F C D).map (·.1)) ++
      missM F D tgC tgD ((keptPairs F C D).map (·.1)), x.2 ≠ zero →
      isRootPos F.numLeaves (movePos F D x.1) = false := by
    intro x hx hz
    have := (mem_M_filter hn hnz hlive hnd hcC hcD hcK hcK0 hc' hK'K hKC hKD hCK x).1
      (List.mem_filter.2 ⟨hx, by simpa using hz⟩)
    obtain ⟨q, hq, hz', rfl⟩ := this
    obtain ⟨h, t, s⟩ := pp_node tokK hq
    have hal := (haft_ne_zero_iff hn hnz hlive hnd hcC hcD hcK hcK0 hc' hK'K hKC hKD hCK s).1 hz'
    have hppe := pp_K_eq hn hnz hlive hnd hcC hcD hcK hcK0 hc' hK'K hKC hKD hCK
    have hq' : movePos F D q ∈ (F.delLeaves D).proofPositions tgK' := by
      rw [proofPositions_del hnd hcK0 hc' (fun x hx => hKD x ((hK'K x).1 hx))]
      exact ⟨q, by rw [hppe]; exact hq, ⟨h, t, s, hal⟩, rfl⟩
    have := pp_not_root (canon_targetsOK hc') hq'
    rw [hn'] at this
    exact this
  unfold updateProofRemove
  simp only [treeRows_eq' hn]
  rw [show H8 (forestRows F.numLeaves) = H8 F.rows from rfl]
  simp only [toHashAndPos_cached hn hcC hC, ok_bind', proofPos_cached hn hcC hC,
    oldProofs_eq hn hcC hC, subtract_cached hn hcC hC hcD, positions_enc2,
    proofPositions_model hn tokK (keptPairs_sorted hn hcC hC hcD)]
  rw [← positions_enc2 F.rows (ppPairs F tgC)]
  simp only [uprKeep_eq hn hnz hlive hnd hcC hcD hcK hKC hCK,
    uprMissing_eq hn hnz hlive hnd hcC hcD hcK hKC hCK, hdt1', ← List.map_append,
    gnp_apply hn hdt2 hdt3 _ true hKPalive (Or.inl rfl),
    gnp_apply hn hdt2 hdt3 _ false hMalive (Or.inr hMroot), hfilt,
    proofs_final hn hnz hlive hnd hcC hcD hcK hcK0 hc' hK'K hKC hKD hCK]
  have e1 : sortHP ((keptPairs F C D).map (fun x => (E F.rows (movePos F D x.1), x.2))) =
      KP'.map (fun x => (E F.rows (movePos F D x.1), x.2)) := by
    unfold sortHP
    rw [sortBy_map]
    rfl
  rw [e1]
  show Out.ok _ = Out.ok _
  congr 2
  · congr 1
    · rw [htg']
      simp [HP.positions]
    · rw [(canon_spec hc').2.2.1]
      simp [HP.hashes, ppPairs, enc2]
  · simp [HP.hashes]

end
end UtreexoVerif.Proofs.ProofUpdateRemove
