/-
  The stable insertion sort of Model/HashAndPos.lean returns an ordered permutation.
-/
import UtreexoVerif.Model.HashAndPos

namespace UtreexoVerif.Proofs.SortBy
open UtreexoVerif Model

variable {α : Type}

theorem insertBy_perm (key : α → U64) (x : α) : ∀ l : List α, (insertBy key x l).Perm (x :: l) := by
  intro l
  induction l with
  | nil => exact List.Perm.refl _
  | cons y ys ih =>
    unfold insertBy
    split
    · exact List.Perm.refl _
    · exact ((List.Perm.cons y ih).trans (List.Perm.swap x y ys))

theorem foldl_insertBy_perm (key : α → U64) : ∀ (l acc : List α),
    (l.foldl (fun acc x => insertBy key x acc) acc).Perm (acc ++ l) := by
  intro l
  induction l with
  | nil => intro acc; simp
  | cons x xs ih =>
    intro acc
    simp only [List.foldl_cons]
    refine (ih (insertBy key x acc)).trans ?_
    refine ((insertBy_perm key x acc).append_right xs).trans ?_
    simp only [List.cons_append]
    exact List.perm_middle.symm

theorem sortBy_perm (key : α → U64) (l : List α) : (sortBy key l).Perm l := by
  unfold sortBy
  simpa using foldl_insertBy_perm key l []

theorem insertBy_sorted (key : α → U64) (x : α) : ∀ l : List α,
    l.Pairwise (fun a b => key a ≤ key b) → (insertBy key x l).Pairwise (fun a b => key a ≤ key b) := by
  intro l
  induction l with
  | nil => intro _; simp [insertBy]
  | cons y ys ih =>
    intro h
    rw [List.pairwise_cons] at h
    unfold insertBy
    split
    · rename_i hlt
      rw [List.pairwise_cons]
      refine ⟨?_, List.pairwise_cons.mpr h⟩
      intro a ha
      rcases List.mem_cons.mp ha with rfl | ha
      · exact BitVec.le_of_lt hlt
      · exact BitVec.le_trans (BitVec.le_of_lt hlt) (h.1 a ha)
    · rename_i hnlt
      rw [List.pairwise_cons]
      refine ⟨?_, ih h.2⟩
      intro a ha
      have := (insertBy_perm key x ys).mem_iff.mp ha
      rcases List.mem_cons.mp this with rfl | ha'
      · exact BitVec.not_lt.mp hnlt
      · exact h.1 a ha'

theorem sortBy_sorted (key : α → U64) (l : List α) :
    (sortBy key l).Pairwise (fun a b => key a ≤ key b) := by
  unfold sortBy
  have : ∀ (l acc : List α), acc.Pairwise (fun a b => key a ≤ key b) →
      (l.foldl (fun acc x => insertBy key x acc) acc).Pairwise (fun a b => key a ≤ key b) := by
    intro l
    induction l with
    | nil => intro acc h; exact h
    | cons x xs ih => intro acc h; exact ih _ (insertBy_sorted key x acc h)
  exact this l [] List.Pairwise.nil

/-- sorted with pairwise distinct keys = strictly sorted -/
theorem sortBy_strict (key : α → U64) (l : List α) (hnd : (l.map key).Nodup) :
    (sortBy key l).Pairwise (fun a b => key a < key b) := by
  have hs := sortBy_sorted key l
  have hp := sortBy_perm key l
  have hnd' : ((sortBy key l).map key).Nodup := (hp.map key).nodup_iff.mpr hnd
  generalize sortBy key l = s at hs hnd'
  induction s with
  | nil => exact List.Pairwise.nil
  | cons a t ih =>
    rw [List.pairwise_cons] at hs ⊢
    rw [List.map_cons, List.nodup_cons] at hnd'
    refine ⟨?_, ih hs.2 hnd'.2⟩
    intro b hb
    have hle := hs.1 b hb
    have hne : key a ≠ key b := by
      intro he
      exact hnd'.1 (he ▸ List.mem_map_of_mem hb)
    rw [BitVec.lt_def]
    rw [BitVec.le_def] at hle
    have : (key a).toNat ≠ (key b).toNat := fun h => hne (BitVec.eq_of_toNat_eq h)
    omega

theorem nodup_map_of_inj {β γ : Type} (f : α → β) (g : α → γ) : ∀ (l : List α),
    (l.map f).Nodup → (∀ a ∈ l, ∀ b ∈ l, g a = g b → f a = f b) → (l.map g).Nodup := by
  intro l
  induction l with
  | nil => intro _ _; simp
  | cons a t ih =>
    intro hnd hinj
    rw [List.map_cons, List.nodup_cons] at hnd ⊢
    refine ⟨?_, ih hnd.2 (fun x hx y hy => hinj x (List.mem_cons_of_mem _ hx) y (List.mem_cons_of_mem _ hy))⟩
    intro hmem
    obtain ⟨b, hb, hgb⟩ := List.mem_map.mp hmem
    have := hinj a List.mem_cons_self b (List.mem_cons_of_mem _ hb) hgb.symm
    exact hnd.1 (this ▸ List.mem_map_of_mem hb)

end UtreexoVerif.Proofs.SortBy
