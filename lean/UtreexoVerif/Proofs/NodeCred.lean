/-
  The chunk-level description of nodes (`IsNode`, used by the C11 specification) agrees with
  `Spec.Forest.nodes`: every `IsNode` pair is a node of the forest at that position.  With
  Proofs/NodesUnique this gives: a hash occurs at one position only, and a position holds one
  hash only.
-/
import UtreexoVerif.Proofs.NewAddSpec
import UtreexoVerif.Proofs.NodesUnique
set_option linter.unusedSectionVars false

namespace UtreexoVerif.Spec
open Hasher UtreexoVerif.Proofs.FinalPos

variable {H : Type} [DecidableEq H] [Hasher H]

def CTree.isLeaf : CTree H → Bool
  | .leaf _ => true
  | .node _ _ => false

theorem CTree.nodes_head (t : CTree H) (r o : Nat) : ((r, o), t.hash, t.isLeaf) ∈ t.nodes r o := by
  cases t <;> simp [CTree.nodes, CTree.isLeaf, CTree.hash]

/-- the nodes of a chunk's collapsed tree, placed at the chunk's final position, are nodes of
the tree the chunk belongs to -/
theorem chunk_nodes_sub (S : List (Option H)) (T ro : Nat) : ∀ (k l b : Nat) (t : CTree H),
    l + k = T → b / 2 ^ k = ro → chunk S l b = some t →
    ∃ tT, chunk S T ro = some tT ∧
      ∀ e ∈ t.nodes (fpos (chunkAlive S) (T, ro) k l b).1 (fpos (chunkAlive S) (T, ro) k l b).2,
        e ∈ tT.nodes T ro := by
  intro k
  induction k with
  | zero =>
    intro l b t hl hb ht
    simp only [Nat.pow_zero, Nat.div_one] at hb
    have : l = T := by omega
    subst this; subst hb
    exact ⟨t, ht, fun e he => by simpa [fpos] using he⟩
  | succ k ih =>
    intro l b t hl hb ht
    have hb' : b / 2 / 2 ^ k = ro := by
      rw [Nat.div_div_eq_div_mul, ← Nat.pow_succ']; exact hb
    have hpar := chunk_succ S l (b / 2)
    by_cases hodd : b % 2 = 1
    · -- our chunk is the right child
      have e1 : 2 * (b / 2) + 1 = b := by omega
      have e2 : sibIdx b = 2 * (b / 2) := by unfold sibIdx; rw [if_neg (by omega)]; omega
      rw [e1, ht] at hpar
      cases hs : chunk S l (2 * (b / 2)) with
      | none =>
        rw [hs] at hpar
        obtain ⟨tT, h1, h2⟩ := ih (l + 1) (b / 2) t (by omega) hb' (by rw [hpar]; rfl)
        refine ⟨tT, h1, ?_⟩
        have hdead : chunkAlive S l (sibIdx b) = false := by rw [e2]; unfold chunkAlive; rw [hs]; rfl
        rw [fpos_succ_dead hdead]
        exact h2
      | some s =>
        rw [hs] at hpar
        obtain ⟨tT, h1, h2⟩ := ih (l + 1) (b / 2) (.node s t) (by omega) hb' (by rw [hpar]; rfl)
        refine ⟨tT, h1, ?_⟩
        have hal : chunkAlive S l (sibIdx b) = true := by rw [e2]; unfold chunkAlive; rw [hs]; rfl
        rw [fpos_succ_alive hal, hodd]
        intro e he
        apply h2
        simp only [CTree.nodes, List.mem_cons, List.mem_append]
        right; right
        exact he
    · -- our chunk is the left child
      have e1 : 2 * (b / 2) = b := by omega
      have e2 : sibIdx b = 2 * (b / 2) + 1 := by unfold sibIdx; rw [if_pos (by omega)]; omega
      rw [e1, ht] at hpar
      have e3 : b + 1 = 2 * (b / 2) + 1 := by omega
      cases hs : chunk S l (b + 1) with
      | none =>
        rw [hs] at hpar
        obtain ⟨tT, h1, h2⟩ := ih (l + 1) (b / 2) t (by omega) hb' (by rw [hpar]; rfl)
        refine ⟨tT, h1, ?_⟩
        have hdead : chunkAlive S l (sibIdx b) = false := by
          rw [e2, ← e3]; unfold chunkAlive; rw [hs]; rfl
        rw [fpos_succ_dead hdead]
        exact h2
      | some s =>
        rw [hs] at hpar
        obtain ⟨tT, h1, h2⟩ := ih (l + 1) (b / 2) (.node t s) (by omega) hb' (by rw [hpar]; rfl)
        refine ⟨tT, h1, ?_⟩
        have hal : chunkAlive S l (sibIdx b) = true := by
          rw [e2, ← e3]; unfold chunkAlive; rw [hs]; rfl
        rw [fpos_succ_alive hal, show b % 2 = 0 by omega]
        intro e he
        apply h2
        simp only [CTree.nodes, List.mem_cons, List.mem_append]
        right; left
        exact he

/-- every `IsNode` pair is a node of the forest, at that position -/
theorem isNode_mem_nodes (S : List (Option H)) (hS : S.length < 2 ^ 64) {pos : Pos} {h : H}
    (hn : IsNode S (pos, h)) : ∃ lf, (pos, h, lf) ∈ (Forest.mk S).nodes := by
  obtain ⟨T, l, b, ⟨h1, h2, h3⟩, h4, h5⟩ := hn
  have h5' := Prod.mk.inj h5
  unfold chunkAlive at h4
  cases ht : chunk S l b with
  | none => rw [ht] at h4; cases h4
  | some t =>
    obtain ⟨tT, hT1, hT2⟩ := chunk_nodes_sub S T (2 * (S.length / 2 ^ (T + 1))) (T - l) l b t
      (by omega) h3 ht
    refine ⟨t.isLeaf, ?_⟩
    have hmem := hT2 _ (CTree.nodes_head t _ _)
    have hT64 : T ≤ 64 := by
      apply Classical.byContradiction
      intro hc
      have : S.length < 2 ^ T := Nat.lt_of_lt_of_le hS (Nat.pow_le_pow_right (by decide) (by omega))
      rw [Nat.testBit_lt_two_pow this] at h1
      cases h1
    have htree : (T, some tT) ∈ (Forest.mk S).trees := by
      unfold Forest.trees
      rw [List.mem_map]
      refine ⟨T, mem_treeRows.mpr ⟨hT64, h1⟩, ?_⟩
      simp only [Forest.numLeaves]
      rw [collapse_take_self, treeStart_eq, ← hT1]
      unfold chunk
      congr 3
      rw [Nat.pow_succ]; ac_rfl
    unfold Forest.nodes
    rw [List.mem_flatMap]
    refine ⟨(T, some tT), htree, ?_⟩
    simp only [rootPos, Forest.numLeaves, Nat.shiftRight_eq_div_pow]
    rw [h5'.1, h5'.2]
    unfold nodePos chunkHash
    rw [ht]
    exact hmem

/-- a hash occurs at one position only, from the FINITE hypothesis `NodesDistinct (Forest.mk S)`
(no non-zero hash sits at two places of the forest with slots `S`); only `NZ` is asked of the
hash function -/
theorem isNode_functional_nd (nz : NZ H) (S : List (Option H)) (hS : S.length < 2 ^ 64)
    (hnz : ∀ x : H, some x ∈ S → x ≠ (zero : H)) (hd : NodesDistinct (Forest.mk S))
    (p p' : Pos) (h : H) (h1 : IsNode S (p, h)) (h2 : IsNode S (p', h)) : p = p' := by
  obtain ⟨lf, hm⟩ := isNode_mem_nodes S hS h1
  obtain ⟨lf', hm'⟩ := isNode_mem_nodes S hS h2
  have hne : h ≠ zero := by
    obtain ⟨T, l, b, _, ha, he⟩ := h1
    have := (Prod.mk.inj he).2
    rw [this]
    intro hz
    rw [chunkHash_eq_zero_iff nz.nonzero S hnz, ha] at hz
    cases hz
  exact (hd.unique hne hm hm').1

/-- a hash occurs at one position only (collision-freeness, distinct leaves that are not
parent hashes) -/
theorem isNode_functional (cr : CR H) (S : List (Option H)) (hS : S.length < 2 ^ 64)
    (hnd : (S.filterMap id).Nodup) (hleaf : ∀ x : H, some x ∈ S → ∀ a b : H, x ≠ ph a b)
    (hnz : ∀ x : H, some x ∈ S → x ≠ (zero : H)) (p p' : Pos) (h : H)
    (h1 : IsNode S (p, h)) (h2 : IsNode S (p', h)) : p = p' :=
  isNode_functional_nd cr.toNZ S hS hnz
    (nodesDistinct_of_CR cr (Forest.mk S) hS hnd
      (fun x hx a b => hleaf x (Forest.mem_liveLeaves.mp hx) a b)) p p' h h1 h2

/-- a position holds one hash only -/
theorem isNode_pos_unique (S : List (Option H)) (hS : S.length < 2 ^ 64) (p : Pos) (h h' : H)
    (h1 : IsNode S (p, h)) (h2 : IsNode S (p, h')) : h = h' := by
  obtain ⟨lf, hm⟩ := isNode_mem_nodes S hS h1
  obtain ⟨lf', hm'⟩ := isNode_mem_nodes S hS h2
  exact (nodes_pos_unique (Forest.mk S) hS p h h' lf lf' hm hm').1

end UtreexoVerif.Spec
