/-
  Proofs/LockSingle.lean — what the check `SingleSection` of `Model/Lock.lean` means in the
  semantics `Gen` (helper lemmas for `Props/C12Single.lean`).

  * `Reaches T x l`: the body of `x` reaches the lock-taking method `l` through callees that take
    no lock (the relation `reachLocking` is meant to compute), `Quiet T x`: a call of `x` executes
    no operation on the mutex.
  * `gen_quiet`: a `Gen` execution of a quiet item consists of accesses only.
  * `gen_held_flat`: under a table that passes the typing check, a `Gen` execution started while
    a lock is held consists of accesses only (no re-entrancy, no release).
  * `reaches_gen_core`: conversely, a method that takes no lock and reaches a lock-taking method has
    executions with ANY number of acquires.
  * `reachLocking_sound` (any fuel), `reachLocking_complete` (if the work list of `reachLocking`
    empties before the fuel runs out: `exploreDone`).
  * the two checks that `SingleSection` lacks: `Explored` (the fuel sufficed) and `PreSingle`
    (the statements BEFORE the lock statement of an exported lock-taking method reach no
    lock-taking method).
-/
import UtreexoVerif.Proofs.Lock

namespace UtreexoVerif.Proofs.LockSingle
open UtreexoVerif.Model.Lock UtreexoVerif.Proofs.Lock

/-! ## counting mutex operations -/

section Count
variable {F V : Type}

def isAcquire : Instr F V → Bool
  | .acquire _ => true
  | _ => false

def isRelease : Instr F V → Bool
  | .release _ => true
  | _ => false

def isAcc : Instr F V → Bool
  | .acc _ => true
  | _ => false

/-- number of `acquire` instructions -/
def acquires (p : List (Instr F V)) : Nat := p.countP isAcquire

/-- number of `release` instructions -/
def releases (p : List (Instr F V)) : Nat := p.countP isRelease

/-- the list consists of field accesses / hooks only -/
def Flat (p : List (Instr F V)) : Prop := ∀ i ∈ p, isAcc i = true

theorem Flat.nil : Flat ([] : List (Instr F V)) := by intro i hi; cases hi

theorem Flat.append {p q : List (Instr F V)} (hp : Flat p) (hq : Flat q) : Flat (p ++ q) := by
  intro i hi
  rcases List.mem_append.mp hi with h | h
  · exact hp i h
  · exact hq i h

theorem Flat.cons_acc {a : Acc F V} {p : List (Instr F V)} (hp : Flat p) : Flat (.acc a :: p) := by
  intro i hi
  rcases List.mem_cons.mp hi with h | h
  · subst h; rfl
  · exact hp i h

theorem Flat.acquires {p : List (Instr F V)} (hp : Flat p) : acquires p = 0 := by
  unfold LockSingle.acquires
  rw [List.countP_eq_zero]
  intro i hi
  have := hp i hi
  cases i <;> simp_all [isAcc, isAcquire]

theorem Flat.releases {p : List (Instr F V)} (hp : Flat p) : releases p = 0 := by
  unfold LockSingle.releases
  rw [List.countP_eq_zero]
  intro i hi
  have := hp i hi
  cases i <;> simp_all [isAcc, isRelease]

theorem acquires_append (p q : List (Instr F V)) : acquires (p ++ q) = acquires p + acquires q := by
  simp [acquires, List.countP_append]

theorem releases_append (p q : List (Instr F V)) : releases (p ++ q) = releases p + releases q := by
  simp [releases, List.countP_append]

/-- the shape of ONE critical section: accesses, `acquire k`, accesses, `release k` -/
theorem section_counts {k : LockKind} {p1 p2 : List (Instr F V)} (h1 : Flat p1) (h2 : Flat p2) :
    acquires (p1 ++ .acquire k :: (p2 ++ [.release k])) = 1 ∧
    releases (p1 ++ .acquire k :: (p2 ++ [.release k])) = 1 ∧
    (p1 ++ Instr.acquire k :: (p2 ++ [Instr.release k])).filter (fun i => !isAcc i) =
      [Instr.acquire k, Instr.release k] := by
  refine ⟨?_, ?_, ?_⟩
  · have e : p1 ++ Instr.acquire k :: (p2 ++ [Instr.release k]) = p1 ++ ([Instr.acquire k] ++ (p2 ++ [Instr.release k])) := rfl
    rw [e, acquires_append, acquires_append, acquires_append, h1.acquires, h2.acquires]
    rfl
  · have e : p1 ++ Instr.acquire k :: (p2 ++ [Instr.release k]) = p1 ++ ([Instr.acquire k] ++ (p2 ++ [Instr.release k])) := rfl
    rw [e, releases_append, releases_append, releases_append, h1.releases, h2.releases]
    rfl
  · have f1 : p1.filter (fun i => !isAcc i) = [] := by
      rw [List.filter_eq_nil_iff]; intro i hi; simp [h1 i hi]
    have f2 : p2.filter (fun i => !isAcc i) = [] := by
      rw [List.filter_eq_nil_iff]; intro i hi; simp [h2 i hi]
    rw [List.filter_append, f1, List.filter_cons, List.filter_append, f2]
    simp [isAcc]

/-- a flat program that is well formed while holding `k`: every access is admissible under `k` -/
theorem flat_wf_ok {mu : F → Bool} {k : LockKind} {p q : List (Instr F V)} (hp : Flat p)
    (hwf : wfProg mu k (p ++ q) = true) : ∀ a, Instr.acc a ∈ p → a.ok mu k = true := by
  induction p with
  | nil => intro a ha; cases ha
  | cons i p ih =>
    have hi := hp i List.mem_cons_self
    cases i with
    | acquire k' => cases hi
    | release k' => cases hi
    | acc b =>
      rw [List.cons_append, wf_acc] at hwf
      intro a ha
      rcases List.mem_cons.mp ha with h | h
      · cases h; exact hwf.1
      · exact ih (fun j hj => hp j (List.mem_cons_of_mem _ hj)) hwf.2 a h

/-- admissible with nothing held = a hook, or a read of a field nobody writes -/
theorem ok_none_iff {mu : F → Bool} (a : Acc F V) :
    a.ok mu .none = true ↔ a = .hook ∨ ∃ f, a = .read f ∧ mu f = false := by
  cases a with
  | hook => simp [Acc.ok]
  | read f => simp [Acc.ok]
  | write f g => simp [Acc.ok]

end Count

/-! ## the call graph: reaching a lock-taking method through callees that take none -/

section Graph
variable {F V M : Type}

/-- the direct callees of a method (before and after its lock statement) -/
def callees (T : M → MethodInfo F M) (x : M) : List M := (T x).preCalls ++ (T x).calls

/-- `Reaches T x l`: `l` takes a lock and is called from the body of `x`, directly or through a
chain of callees that take no lock -/
inductive Reaches (T : M → MethodInfo F M) : M → M → Prop
  | direct {x l} : l ∈ callees T x → (T l).lock ≠ .none → Reaches T x l
  | step {x c l} : c ∈ callees T x → (T c).lock = .none → Reaches T c l → Reaches T x l

/-- `PlainPath T m x`: `x` is `m` or is reached from `m` through callees that take no lock -/
inductive PlainPath (T : M → MethodInfo F M) (m : M) : M → Prop
  | refl : PlainPath T m m
  | tail {x c} : PlainPath T m x → c ∈ callees T x → (T c).lock = .none → PlainPath T m c

theorem Reaches.of_path {T : M → MethodInfo F M} {m x l : M} (hp : PlainPath T m x) :
    Reaches T x l → Reaches T m l := by
  induction hp with
  | refl => exact id
  | tail _ hc hl ih => intro h; exact ih (Reaches.step hc hl h)

/-- a call of `x` executes no mutex operation at all -/
def Quiet (T : M → MethodInfo F M) (x : M) : Prop := (T x).lock = .none ∧ ∀ l, ¬ Reaches T x l

theorem Quiet.callee {T : M → MethodInfo F M} {x n : M} (hq : Quiet T x) (hn : n ∈ callees T x) : Quiet T n := by
  by_cases hl : (T n).lock = .none
  · exact ⟨hl, fun l hr => hq.2 l (Reaches.step hn hl hr)⟩
  · exact (hq.2 n (Reaches.direct hn hl)).elim

def ItemQuiet (T : M → MethodInfo F M) : Item F M → Prop
  | .call m => Quiet T m
  | .seg _ _ cs => ∀ n ∈ cs, Quiet T n

/-- an execution of a quiet item contains no mutex operation -/
theorem gen_quiet {T : M → MethodInfo F M} {c : LockKind} {item : Item F M} {p : List (Instr F V)}
    (hg : Gen T c item p) : ItemQuiet T item → Flat p := by
  induction hg with
  | segNil => intro _; exact Flat.nil
  | segAcc _ _ ih => intro hq; exact (ih hq).cons_acc
  | segCall hn _ _ ih1 ih2 => intro hq; exact (ih1 (hq _ hn)).append (ih2 hq)
  | @callPlain c m p1 p2 _ _ _ _ ih1 ih2 =>
    intro hq
    have hq : Quiet T m := hq
    exact (ih1 (fun n hn => hq.callee (List.mem_append_left _ hn))).append
      (ih2 (fun n hn => hq.callee (List.mem_append_right _ hn)))
  | @callLocked c m k p1 p2 hlock hk _ _ _ _ _ =>
    intro hq
    have hq : Quiet T m := hq
    rw [hq.1] at hlock
    exact (hk hlock.symm).elim

/-- repeating a call of a listed callee `j` times is an execution of the segment -/
theorem seg_replicate {T : M → MethodInfo F M} {c : LockKind} {rs ws : List F} {cs : List M} {n : M}
    {q : List (Instr F V)} (hn : n ∈ cs) (hq : Gen T c (.call n) q) (j : Nat) :
    Gen T c (.seg rs ws cs) (List.replicate j q).flatten := by
  induction j with
  | zero => exact Gen.segNil
  | succ j ih =>
    rw [List.replicate_succ, List.flatten_cons]
    exact Gen.segCall hn hq ih

theorem acquires_flatten_replicate (q : List (Instr F V)) (j : Nat) :
    acquires (List.replicate j q).flatten = j * acquires q := by
  induction j with
  | zero => simp [acquires]
  | succ j ih =>
    rw [List.replicate_succ, List.flatten_cons, acquires_append, ih, Nat.succ_mul, Nat.add_comm]

/-- a method that takes no lock and calls `n` can run `n` `j` times in a row and nothing else -/
theorem plain_call_replicate {T : M → MethodInfo F M} {c : LockKind} {x n : M} {q : List (Instr F V)}
    (hl : (T x).lock = .none) (hreg : (T x).regular = true) (hn : n ∈ callees T x)
    (hq : Gen T c (.call n) q) (j : Nat) :
    ∃ p : List (Instr F V), Gen T c (.call x) p ∧ acquires p = j * acquires q := by
  rcases List.mem_append.mp hn with h | h
  · refine ⟨(List.replicate j q).flatten ++ [], Gen.callPlain hl hreg (seg_replicate h hq j) Gen.segNil, ?_⟩
    rw [List.append_nil, acquires_flatten_replicate]
  · refine ⟨[] ++ (List.replicate j q).flatten, Gen.callPlain hl hreg Gen.segNil (seg_replicate h hq j), ?_⟩
    rw [List.nil_append, acquires_flatten_replicate]

/-- CONVERSE OF `gen_quiet`: a method that takes no lock and reaches a lock-taking method has
executions (started with nothing held) with any number `j` of acquires.  `P` is any invariant
along the path that gives the regularity `Gen` asks for. -/
theorem reaches_gen_core {T : M → MethodInfo F M} (P : M → Prop)
    (hPreg : ∀ x, P x → (T x).regular = true)
    (hPstep : ∀ x n, P x → (T x).lock = .none → n ∈ callees T x → P n)
    {x l : M} (hr : Reaches T x l) : P x → (T x).lock = .none →
    ∀ j, ∃ p : List (Instr F V), Gen T .none (.call x) p ∧ acquires p = j := by
  induction hr with
  | @direct x l hn hlk =>
    intro hP hl j
    have hPl := hPstep x l hP hl hn
    have hq : Gen (V := V) T .none (.call l) ([] ++ .acquire (T l).lock :: ([] ++ [.release (T l).lock])) :=
      Gen.callLocked rfl hlk (hPreg l hPl) Gen.segNil Gen.segNil
    obtain ⟨p, hp, hc⟩ := plain_call_replicate hl (hPreg x hP) hn hq j
    refine ⟨p, hp, ?_⟩
    rw [hc]
    show j * 1 = j
    omega
  | @step x c l hn hlc _ ih =>
    intro hP hl j
    obtain ⟨q, hq, hq1⟩ := ih (hPstep x c hP hl hn) hlc 1
    obtain ⟨p, hp, hc⟩ := plain_call_replicate hl (hPreg x hP) hn hq j
    exact ⟨p, hp, by rw [hc, hq1, Nat.mul_one]⟩

end Graph

/-! ## executions while a lock is held (under the typing check) -/

section Held
variable {F V M : Type}

/-- Under a table that passes the typing check, whatever runs while a lock is held consists of
admissible accesses only: no acquire (no re-entrancy) and no release. -/
theorem gen_held_flat {T : M → MethodInfo F M} {allM : List M} {mu : F → Bool} {C : M → Ctxs}
    (hall : ∀ m, m ∈ allM) (hty : typingOK T allM mu C = true)
    {c : LockKind} {item : Item F M} {p : List (Instr F V)} (hg : Gen T c item p) :
    c ≠ .none → ItemOK mu C c item → Flat p ∧ ∀ a, Instr.acc a ∈ p → a.ok mu c = true := by
  induction hg with
  | segNil => intro _ _; exact ⟨Flat.nil, fun a ha => by cases ha⟩
  | segAcc hin _ ih =>
    intro hc hok
    obtain ⟨h1, h2⟩ := ih hc hok
    refine ⟨h1.cons_acc, ?_⟩
    intro a ha
    rcases List.mem_cons.mp ha with h | h
    · cases h; exact ok_of_within hok.1 hin
    · exact h2 a h
  | segCall hn _ _ ih1 ih2 =>
    intro hc hok
    obtain ⟨h1, h2⟩ := ih1 hc (hok.2 _ hn)
    obtain ⟨h3, h4⟩ := ih2 hc hok
    refine ⟨h1.append h3, ?_⟩
    intro a ha
    rcases List.mem_append.mp ha with h | h
    · exact h2 a h
    · exact h4 a h
  | @callPlain c m p1 p2 hlock hreg _ _ ih1 ih2 =>
    intro hcn hok
    have hm := (methodOK_of_typing hall hty m).2
    simp only [methodOK, List.all_eq_true] at hm
    have hc := hm c ((mem_toList_iff _ _).mpr hok)
    simp only [hlock, if_true, Bool.and_eq_true, List.all_eq_true] at hc
    obtain ⟨⟨⟨hpre, hprec⟩, _⟩, hbody, hbodyc⟩ := hc
    obtain ⟨h1, h2⟩ := ih1 hcn ⟨hpre, hprec⟩
    obtain ⟨h3, h4⟩ := ih2 hcn ⟨hbody, hbodyc⟩
    refine ⟨h1.append h3, ?_⟩
    intro a ha
    rcases List.mem_append.mp ha with h | h
    · exact h2 a h
    · exact h4 a h
  | @callLocked c m k p1 p2 hlock hk hreg _ _ _ _ =>
    intro hcn hok
    have hm := (methodOK_of_typing hall hty m).2
    simp only [methodOK, List.all_eq_true] at hm
    have hc := hm c ((mem_toList_iff _ _).mpr hok)
    have hne : ¬ (T m).lock = .none := by rw [hlock]; exact hk
    simp only [hne, if_false, Bool.and_eq_true, List.all_eq_true, beq_iff_eq] at hc
    exact (hcn hc.2.1.1).elim

/-- what the typing check says about a method that may run with nothing held and takes no lock:
it is regular and its callees may run with nothing held -/
theorem typing_plain_step {T : M → MethodInfo F M} {allM : List M} {mu : F → Bool} {C : M → Ctxs}
    (hall : ∀ m, m ∈ allM) (hty : typingOK T allM mu C = true) {x : M}
    (hx : (C x).has .none = true) :
    (T x).regular = true ∧ ((T x).lock = .none → ∀ n ∈ callees T x, (C n).has .none = true) := by
  have hm := (methodOK_of_typing hall hty x).2
  simp only [methodOK, List.all_eq_true] at hm
  have hc := hm .none ((mem_toList_iff _ _).mpr hx)
  simp only [Bool.and_eq_true, List.all_eq_true] at hc
  refine ⟨hc.1.2, ?_⟩
  intro hl n hn
  rw [if_pos hl] at hc
  simp only [Bool.and_eq_true, List.all_eq_true] at hc
  rcases List.mem_append.mp hn with h | h
  · exact hc.1.1.2 n h
  · exact hc.2.2 n h

end Held

/-! ## `reachLocking`: sound for every fuel, complete when the work list empties -/

section Reach
variable {F M : Type} [DecidableEq M]

/-- the callees that take no lock -/
def plainOf (T : M → MethodInfo F M) (cs : List M) : List M := cs.filter (fun c => (T c).lock == .none)

/-- the callees that take a lock -/
def lockingOf (T : M → MethodInfo F M) (cs : List M) : List M := cs.filter (fun c => (T c).lock != .none)

/-- does the work list of `reachLocking T n todo _` become empty before the fuel `n` runs out?
(`reachLocking` keeps no visited set: its work list enumerates, breadth first, the PATHS through
callees that take no lock, so the answer is "yes" iff the unfolding of that call graph from `todo`
into a forest has at most `n` nodes — never if the graph has a cycle.) -/
def exploreDone (T : M → MethodInfo F M) : Nat → List M → Bool
  | 0, todo => todo.isEmpty
  | _ + 1, [] => true
  | n + 1, x :: rest => exploreDone T n (rest ++ plainOf T (callees T x))

theorem reachLocking_mono (T : M → MethodInfo F M) (n : Nat) (todo acc : List M) (l : M) (h : l ∈ acc) :
    l ∈ reachLocking T n todo acc := by
  induction n generalizing todo acc with
  | zero => exact h
  | succ n ih =>
    cases todo with
    | nil => exact h
    | cons x rest =>
      simp only [reachLocking]
      exact ih _ _ (List.mem_append_left _ h)

/-- SOUNDNESS (any fuel): everything `reachLocking` returns is reached -/
theorem reachLocking_sound (T : M → MethodInfo F M) (m : M) (n : Nat) (todo acc : List M)
    (htodo : ∀ x ∈ todo, PlainPath T m x) (hacc : ∀ l ∈ acc, Reaches T m l) :
    ∀ l ∈ reachLocking T n todo acc, Reaches T m l := by
  induction n generalizing todo acc with
  | zero => exact hacc
  | succ n ih =>
    cases todo with
    | nil => exact hacc
    | cons x rest =>
      simp only [reachLocking]
      apply ih
      · intro y hy
        rcases List.mem_append.mp hy with h | h
        · exact htodo y (List.mem_cons_of_mem _ h)
        · simp only [List.mem_filter, beq_iff_eq] at h
          exact PlainPath.tail (htodo x List.mem_cons_self) h.1 h.2
      · intro l hl
        rcases List.mem_append.mp hl with h | h
        · exact hacc l h
        · rw [List.mem_eraseDups] at h
          simp only [List.mem_filter, Bool.and_eq_true, bne_iff_ne, ne_eq] at h
          exact Reaches.of_path (htodo x List.mem_cons_self) (Reaches.direct h.1 h.2.1)

/-- COMPLETENESS (when the work list empties within the fuel): everything reached from the work
list is returned -/
theorem reachLocking_complete (T : M → MethodInfo F M) (n : Nat) (todo acc : List M)
    (hd : exploreDone T n todo = true) (l : M)
    (h : l ∈ acc ∨ ∃ x ∈ todo, Reaches T x l) : l ∈ reachLocking T n todo acc := by
  induction n generalizing todo acc with
  | zero =>
    simp only [exploreDone, List.isEmpty_iff] at hd
    subst hd
    rcases h with h | ⟨x, hx, _⟩
    · exact h
    · cases hx
  | succ n ih =>
    cases todo with
    | nil =>
      rcases h with h | ⟨x, hx, _⟩
      · exact h
      · cases hx
    | cons x rest =>
      simp only [exploreDone] at hd
      simp only [reachLocking]
      apply ih _ _ hd
      rcases h with h | ⟨y, hy, hr⟩
      · exact Or.inl (List.mem_append_left _ h)
      · rcases List.mem_cons.mp hy with rfl | hy
        · cases hr with
          | direct hn hlk =>
            by_cases hin : l ∈ acc
            · exact Or.inl (List.mem_append_left _ hin)
            · refine Or.inl (List.mem_append_right _ ?_)
              rw [List.mem_eraseDups]
              simp only [List.mem_filter, Bool.and_eq_true, bne_iff_ne, ne_eq, Bool.not_eq_true',
                List.contains_eq_mem, decide_eq_false_iff_not]
              exact ⟨hn, hlk, hin⟩
          | @step _ c _ hn hlc hr' =>
            refine Or.inr ⟨c, List.mem_append_right _ ?_, hr'⟩
            simp only [plainOf, List.mem_filter, beq_iff_eq]
            exact ⟨hn, hlc⟩
        · exact Or.inr ⟨y, List.mem_append_left _ hy, hr⟩

/-- once the work list has emptied, more fuel changes nothing: the result is the fixed point -/
theorem reachLocking_stable (T : M → MethodInfo F M) (n : Nat) (todo acc : List M)
    (hd : exploreDone T n todo = true) (k : Nat) :
    reachLocking T (n + k) todo acc = reachLocking T n todo acc := by
  induction n generalizing todo acc with
  | zero =>
    simp only [exploreDone, List.isEmpty_iff] at hd
    subst hd
    cases k <;> simp [reachLocking]
  | succ n ih =>
    cases todo with
    | nil => rw [Nat.add_right_comm]; simp [reachLocking]
    | cons x rest =>
      simp only [exploreDone] at hd
      rw [Nat.add_right_comm]
      simp only [reachLocking]
      exact ih _ _ hd

omit [DecidableEq M] in
theorem exploreDone_mono (T : M → MethodInfo F M) (n : Nat) (todo : List M)
    (hd : exploreDone T n todo = true) (k : Nat) : exploreDone T (n + k) todo = true := by
  induction n generalizing todo with
  | zero =>
    simp only [exploreDone, List.isEmpty_iff] at hd
    subst hd
    cases k <;> simp [exploreDone]
  | succ n ih =>
    cases todo with
    | nil => rw [Nat.add_right_comm]; simp [exploreDone]
    | cons x rest =>
      simp only [exploreDone] at hd
      rw [Nat.add_right_comm]
      simp only [exploreDone]
      exact ih _ hd

omit [DecidableEq M] in
/-- NO fuel suffices when the work list contains a method on (or leading into) a cycle of calls
between methods that take no lock: `S` is any set of methods each of which calls, directly, a method
of `S` that takes no lock (e.g. a recursive helper) -/
theorem exploreDone_cycle (T : M → MethodInfo F M) (S : M → Prop)
    (hS : ∀ x, S x → ∃ c ∈ plainOf T (callees T x), S c) (n : Nat) (todo : List M)
    (h : ∃ y ∈ todo, S y) : exploreDone T n todo = false := by
  induction n generalizing todo with
  | zero =>
    obtain ⟨y, hy, _⟩ := h
    cases todo with
    | nil => cases hy
    | cons _ _ => rfl
  | succ n ih =>
    obtain ⟨y, hy, hys⟩ := h
    cases todo with
    | nil => cases hy
    | cons x rest =>
      simp only [exploreDone]
      apply ih
      rcases List.mem_cons.mp hy with rfl | hy
      · obtain ⟨c, hc, hcs⟩ := hS _ hys
        exact ⟨c, List.mem_append_right _ hc, hcs⟩
      · exact ⟨y, List.mem_append_left _ hy, hys⟩

/-- the fuel `SingleSection` uses -/
def fuelOf (allM : List M) : Nat := allM.length * allM.length + 1

/-- what the statements BEFORE the lock statement of `m` reach -/
def preReach (T : M → MethodInfo F M) (allM : List M) (m : M) : List M :=
  reachLocking T (fuelOf allM) (plainOf T (T m).preCalls) (lockingOf T (T m).preCalls)

/-- MISSING IN `SingleSection` (1): an exported method that takes a lock itself must not reach a
lock-taking method from the statements before its lock statement -/
def PreSingle (T : M → MethodInfo F M) (allM exempt : List M) : Bool :=
  allM.all fun m => !((T m).exported && (T m).lock != .none) || exempt.contains m || (preReach T allM m).isEmpty

/-- MISSING IN `SingleSection` (2): the fuel sufficed for every exploration the verdict rests on -/
def Explored (T : M → MethodInfo F M) (allM exempt : List M) : Bool :=
  allM.all fun m => !(T m).exported || exempt.contains m ||
    (if (T m).lock = .none then exploreDone T (fuelOf allM) [m]
     else exploreDone T (fuelOf allM) (plainOf T (T m).preCalls))

/-- the check `SingleSection` completed by what it lacks -/
def SingleSectionStrong (T : M → MethodInfo F M) (allM exempt : List M) : Bool :=
  SingleSection T allM exempt && PreSingle T allM exempt && Explored T allM exempt

/-- an exported method that takes no lock is listed by `multiSection` or quiet — provided the
exploration from it ran to completion -/
theorem listed_or_quiet {T : M → MethodInfo F M} {allM : List M} (hall : ∀ m, m ∈ allM) {m : M}
    (hd : exploreDone T (fuelOf allM) [m] = true)
    (hexp : (T m).exported = true) (hl : (T m).lock = .none) :
    (∃ r, (m, r) ∈ multiSection T allM) ∨ Quiet T m := by
  cases hh : reachLocking T (allM.length * allM.length + 1) [m] [] with
  | nil =>
    refine Or.inr ⟨hl, ?_⟩
    intro l hr
    have hin : l ∈ reachLocking T (allM.length * allM.length + 1) [m] [] :=
      reachLocking_complete T _ [m] [] hd l (Or.inr ⟨m, List.mem_cons_self, hr⟩)
    rw [hh] at hin; cases hin
  | cons l r =>
    refine Or.inl ⟨l :: r, ?_⟩
    simp only [multiSection, List.mem_filterMap, List.mem_filter, Bool.and_eq_true, beq_iff_eq]
    exact ⟨m, ⟨hall m, hexp, hl⟩, by simp [hh]⟩

/-- what a passed `SingleSection` means for a method that takes no lock (given enough fuel) -/
theorem quiet_of_single {T : M → MethodInfo F M} {allM exempt : List M} (hall : ∀ m, m ∈ allM)
    (hS : SingleSection T allM exempt = true) (hE : Explored T allM exempt = true) {m : M}
    (hexp : (T m).exported = true) (hne : m ∉ exempt) (hl : (T m).lock = .none) : Quiet T m := by
  have hd : exploreDone T (fuelOf allM) [m] = true := by
    simp only [Explored, List.all_eq_true] at hE
    have := hE m (hall m)
    simpa [hexp, hne, hl] using this
  rcases listed_or_quiet hall hd hexp hl with ⟨r, hmem⟩ | hq
  · simp only [SingleSection, List.all_eq_true] at hS
    have := hS _ hmem
    simp only [List.contains_eq_mem, decide_eq_true_eq] at this
    exact (hne this).elim
  · exact hq

/-- what a passed `PreSingle` means (given enough fuel) -/
theorem preQuiet_of_preSingle {T : M → MethodInfo F M} {allM exempt : List M} (hall : ∀ m, m ∈ allM)
    (hP : PreSingle T allM exempt = true) (hE : Explored T allM exempt = true) {m : M}
    (hexp : (T m).exported = true) (hne : m ∉ exempt) (hl : (T m).lock ≠ .none) :
    ∀ n ∈ (T m).preCalls, Quiet T n := by
  have hd : exploreDone T (fuelOf allM) (plainOf T (T m).preCalls) = true := by
    simp only [Explored, List.all_eq_true] at hE
    have := hE m (hall m)
    simpa [hexp, hne, hl] using this
  have hemp : preReach T allM m = [] := by
    simp only [PreSingle, List.all_eq_true] at hP
    have := hP m (hall m)
    simpa [hexp, hne, hl] using this
  intro n hn
  by_cases hln : (T n).lock = .none
  · refine ⟨hln, ?_⟩
    intro l hr
    have : l ∈ preReach T allM m :=
      reachLocking_complete T _ _ _ hd l (Or.inr ⟨n, by simp [plainOf, hn, hln], hr⟩)
    rw [hemp] at this; cases this
  · have : n ∈ preReach T allM m :=
      reachLocking_mono T _ _ _ n (by simp [lockingOf, hn, hln])
    rw [hemp] at this; cases this

/-- what a failed `SingleSection` means (any fuel): some exported method outside the exemptions
takes no lock and reaches a lock-taking method -/
theorem reaches_of_not_single {T : M → MethodInfo F M} {allM exempt : List M}
    (hS : SingleSection T allM exempt = false) :
    ∃ m l, (T m).exported = true ∧ m ∉ exempt ∧ (T m).lock = .none ∧ Reaches T m l := by
  simp only [SingleSection, List.all_eq_false] at hS
  obtain ⟨⟨m, r⟩, hmem, hnex⟩ := hS
  simp only [multiSection, List.mem_filterMap, List.mem_filter, Bool.and_eq_true, beq_iff_eq] at hmem
  obtain ⟨m', ⟨_, hexp, hl⟩, hsome⟩ := hmem
  cases hr : reachLocking T (allM.length * allM.length + 1) [m'] [] with
  | nil => simp [hr] at hsome
  | cons l r' =>
    simp only [hr, List.isEmpty_cons, Bool.false_eq_true, if_false, Option.some.injEq, Prod.mk.injEq] at hsome
    obtain ⟨rfl, _⟩ := hsome
    refine ⟨m', l, hexp, ?_, hl, ?_⟩
    · simpa using hnex
    · apply reachLocking_sound T m' _ [m'] []
      · intro x hx
        rcases List.mem_cons.mp hx with rfl | hx
        · exact PlainPath.refl
        · cases hx
      · intro l hl; cases hl
      · rw [hr]; exact List.mem_cons_self

end Reach

end UtreexoVerif.Proofs.LockSingle
