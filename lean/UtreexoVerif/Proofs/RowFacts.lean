/-
  The two row facts the step count of `calculateHashes` rests on (`Props.C04.RowFacts`),
  discharged from the bit-level definitions of utils.go:

  * `DetectRow p rows` counts the one bits of `p` from bit `rows` downwards
    (`detectRow_of_lead`), for ARBITRARY 64-bit `p` (bits above `rows` are ignored);
  * `Parent` shifts a one in at bit `rows`, so it adds one to that count;
  * every position admitted by `maxPositionAtRow` is `≤ 2^(rows+1) - 2`, hence has a zero
    bit among bits `0..rows`, hence sits on a row `≤ rows`.
-/
import UtreexoVerif.Props.C04_statement
import UtreexoVerif.Proofs.Geometry

namespace UtreexoVerif.Proofs.RowFacts
open UtreexoVerif Model GoInt Proofs
open UtreexoVerif.Props.C04 (RowFacts)

/-- bits `h, h-1, …, h-r+1` of `p` are set and (if `r ≤ h`) bit `h-r` is clear -/
def Lead (p : U64) (h r : Nat) : Prop :=
  (∀ k, k < r → p.getLsbD (h - k) = true) ∧ (r ≤ h → p.getLsbD (h - r) = false)

/-- every `p` has a well-defined number `r ≤ h+1` of leading ones below bit `h` -/
theorem lead_exists (p : U64) (h : Nat) : ∃ r, r ≤ h + 1 ∧ Lead p h r := by
  have key : ∀ m, m ≤ h + 1 →
      (∀ k, k < m → p.getLsbD (h - k) = true) ∨ ∃ r, r < m ∧ Lead p h r := by
    intro m
    induction m with
    | zero => intro _; left; intro k hk; omega
    | succ m ih =>
      intro hm
      rcases ih (by omega) with hl | ⟨r, hr, hL⟩
      · cases hb : p.getLsbD (h - m)
        · right
          exact ⟨m, by omega, hl, fun _ => hb⟩
        · left
          intro k hk
          by_cases hkm : k = m
          · subst hkm; exact hb
          · exact hl k (by omega)
      · right
        exact ⟨r, by omega, hL⟩
  rcases key (h + 1) (Nat.le_refl _) with hl | ⟨r, hr, hL⟩
  · exact ⟨h + 1, Nat.le_refl _, hl, fun hc => by omega⟩
  · exact ⟨r, by omega, hL⟩

/-! ### the `DetectRow` loop on an arbitrary 64-bit value -/

/-- the loop stops at the first clear bit -/
theorem loop_lead {p : U64} {h r : Nat} (hh : h ≤ 63) (hr : r ≤ h) (hL : Lead p h r) :
    ∀ (d k fuel : Nat), k + d = r → d < fuel →
      DetectRow.loop1 p fuel (BitVec.twoPow 64 (h - k)) (BitVec.ofNat 8 k) =
        .done (BitVec.twoPow 64 (h - r), BitVec.ofNat 8 r) := by
  intro d
  induction d with
  | zero =>
    intro k fuel hk hf
    obtain ⟨f, rfl⟩ : ∃ f, fuel = f + 1 := ⟨fuel - 1, by omega⟩
    have hkr : k = r := by omega
    subst hkr
    unfold DetectRow.loop1
    rw [and_twoPow_ne_zero _ (by omega), hL.2 hr]
    simp
  | succ d ih =>
    intro k fuel hk hf
    obtain ⟨f, rfl⟩ : ∃ f, fuel = f + 1 := ⟨fuel - 1, by omega⟩
    unfold DetectRow.loop1
    rw [and_twoPow_ne_zero _ (by omega), hL.1 k (by omega)]
    simp only [if_true]
    have e : h - k = (h - (k + 1)) + 1 := by omega
    rw [e, twoPow_shr_one (by omega), H8_add_one]
    exact ih (k + 1) f (by omega) (by omega)

/-- all of bits `0..h` set: the marker runs out and the loop stops with `h + 1` -/
theorem loop_all {p : U64} {h : Nat} (hh : h ≤ 63) (hL : Lead p h (h + 1)) :
    ∀ (d k fuel : Nat), k + d = h → d + 1 < fuel →
      DetectRow.loop1 p fuel (BitVec.twoPow 64 (h - k)) (BitVec.ofNat 8 k) =
        .done (0#64, BitVec.ofNat 8 (h + 1)) := by
  intro d
  induction d with
  | zero =>
    intro k fuel hk hf
    obtain ⟨f, rfl⟩ : ∃ f, fuel = f + 2 := ⟨fuel - 2, by omega⟩
    have hkr : k = h := by omega
    subst hkr
    unfold DetectRow.loop1
    rw [and_twoPow_ne_zero _ (by omega), hL.1 k (by omega)]
    simp only [if_true]
    have e : shr (BitVec.twoPow 64 (k - k)) 1 = 0#64 := by
      rw [Nat.sub_self]; decide
    rw [e, H8_add_one]
    unfold DetectRow.loop1
    simp
  | succ d ih =>
    intro k fuel hk hf
    obtain ⟨f, rfl⟩ : ∃ f, fuel = f + 1 := ⟨fuel - 1, by omega⟩
    unfold DetectRow.loop1
    rw [and_twoPow_ne_zero _ (by omega), hL.1 k (by omega)]
    simp only [if_true]
    have e : h - k = (h - (k + 1)) + 1 := by omega
    rw [e, twoPow_shr_one (by omega), H8_add_one]
    exact ih (k + 1) f (by omega) (by omega)

/-- `DetectRow` is the number of leading ones below bit `rows` -/
theorem detectRow_of_lead {p : U64} {tr : U8} {r : Nat} (hh : tr.toNat ≤ 63)
    (hr : r ≤ tr.toNat + 1) (hL : Lead p tr.toNat r) : DetectRow p tr = BitVec.ofNat 8 r := by
  unfold DetectRow
  simp only [one_shl_eq_twoPow]
  by_cases hrh : r ≤ tr.toNat
  · have key := loop_lead hh hrh hL r 0 300 (by omega) (by omega)
    rw [Nat.sub_zero] at key
    rw [key]
  · have hr' : r = tr.toNat + 1 := by omega
    subst hr'
    have key := loop_all hh hL tr.toNat 0 300 (by omega) (by omega)
    rw [Nat.sub_zero] at key
    rw [key]

theorem toNat_detectRow_of_lead {p : U64} {tr : U8} {r : Nat} (hh : tr.toNat ≤ 63)
    (hr : r ≤ tr.toNat + 1) (hL : Lead p tr.toNat r) : (DetectRow p tr).toNat = r := by
  rw [detectRow_of_lead hh hr hL, BitVec.toNat_ofNat]
  omega

/-! ### `Parent` -/

theorem parent_getLsbD (p : U64) (tr : U8) (hh : tr.toNat ≤ 63) (j : Nat) (_hj : j ≤ tr.toNat) :
    (Parent p tr).getLsbD j = if j = tr.toNat then true else p.getLsbD (j + 1) := by
  unfold Parent
  rw [one_shl_eq_twoPow, shr_eq, BitVec.getLsbD_or, BitVec.getLsbD_ushiftRight,
    BitVec.getLsbD_twoPow]
  by_cases hjt : j = tr.toNat
  · simp [hjt]; omega
  · have : ¬ (tr.toNat = j) := fun h => hjt h.symm
    simp [hjt, this, Nat.add_comm]

/-- `Parent` moves one row up (for every 64-bit `p` on a row `≤ rows`) -/
theorem lead_parent {p : U64} {tr : U8} {r : Nat} (hh : tr.toNat ≤ 63) (hr : r ≤ tr.toNat)
    (hL : Lead p tr.toNat r) : Lead (Parent p tr) tr.toNat (r + 1) := by
  constructor
  · intro k hk
    rw [parent_getLsbD p tr hh _ (by omega)]
    split
    · rfl
    · rename_i hne
      have hk0 : 0 < k := by
        rcases Nat.eq_zero_or_pos k with h0 | h0
        · subst h0; exact absurd (Nat.sub_zero _) hne
        · exact h0
      have e : tr.toNat - k + 1 = tr.toNat - (k - 1) := by omega
      rw [e]
      exact hL.1 (k - 1) (by omega)
  · intro hr1
    rw [parent_getLsbD p tr hh _ (by omega), if_neg (by omega)]
    have e : tr.toNat - (r + 1) + 1 = tr.toNat - r := by omega
    rw [e]
    exact hL.2 hr

/-! ### positions admitted by the row cursor -/

/-- all of bits `0..h` set means `p ≥ 2^(h+1) - 1` -/
theorem ge_of_all_ones {p : U64} {h : Nat} (hL : Lead p h (h + 1)) :
    2 ^ (h + 1) - 1 ≤ p.toNat := by
  have e : p.toNat % 2 ^ (h + 1) = 2 ^ (h + 1) - 1 := by
    apply Nat.eq_of_testBit_eq
    intro i
    rw [Nat.testBit_mod_two_pow, Nat.testBit_two_pow_sub_one]
    by_cases hi : i < h + 1
    · have := hL.1 (h - i) (by omega)
      rw [show h - (h - i) = i by omega] at this
      rw [BitVec.testBit_toNat, this]
      simp [hi]
    · simp [hi]
  have := Nat.mod_le p.toNat (2 ^ (h + 1))
  omega

theorem toNat_treeRows (n : U64) :
    (n.toNat ≤ 2 ^ 63 → (TreeRows n).toNat ≤ 63) ∧ n.toNat ≤ 2 ^ (TreeRows n).toNat := by
  unfold TreeRows
  split
  · rename_i h0
    have : n = 0#64 := by simpa using h0
    subst this
    simp
  · rename_i h0
    have hn : n ≠ 0#64 := by simpa using h0
    have hn' : n.toNat ≠ 0 := fun h => hn (BitVec.eq_of_toNat_eq (by simpa using h))
    have hsub : (n - 1#64).toNat = n.toNat - 1 := by
      rw [BitVec.toNat_sub]; simp; omega
    unfold len64 ofInt
    split
    · rename_i h1
      have : n.toNat - 1 = 0 := by rw [← hsub, h1]; rfl
      simp
      omega
    · rename_i h1
      have h1' : n.toNat - 1 ≠ 0 := by
        intro hc
        apply h1
        apply BitVec.eq_of_toNat_eq
        rw [hsub, hc]; rfl
      have hlog : (n.toNat - 1).log2 < 64 := (Nat.log2_lt h1').2 (by omega)
      rw [BitVec.ofInt_natCast, BitVec.toNat_ofNat, hsub]
      have e : ((n.toNat - 1).log2 + 1) % 2 ^ 8 = (n.toNat - 1).log2 + 1 :=
        Nat.mod_eq_of_lt (by omega)
      rw [e]
      constructor
      · intro hle
        have : (n.toNat - 1).log2 < 63 := (Nat.log2_lt h1').2 (by omega)
        omega
      · have := @Nat.lt_log2_self (n.toNat - 1)
        omega

/-- every bound handed out by `maxPositionAtRow` is at most `2^(rows+1) - 2` -/
theorem maxPositionAtRow_le (row tr : U8) (n : U64) (hh : tr.toNat ≤ 63)
    (hn : n.toNat ≤ 2 ^ tr.toNat) :
    (maxPositionAtRow row tr n).1.toNat ≤ 2 ^ (tr.toNat + 1) - 2 := by
  have hpow : 2 ^ (tr.toNat + 1) = 2 * 2 ^ tr.toNat := two_pow_succ' _
  have hpos : 0 < 2 ^ tr.toNat := Nat.two_pow_pos _
  have hdec : ∀ v : U64, v.toNat ≤ 2 ^ (tr.toNat + 1) - 1 →
      (if (v != 0#64) = true then (v - 1#64, false) else (v, false)).1.toNat ≤
        2 ^ (tr.toNat + 1) - 2 := by
    intro v hv
    split
    · rename_i hne
      have hne' : v ≠ 0#64 := by simpa using hne
      have : v.toNat ≠ 0 := fun h => hne' (BitVec.eq_of_toNat_eq (by simpa using h))
      show (v - 1#64).toNat ≤ _
      rw [BitVec.toNat_sub]
      simp
      omega
    · rename_i hne
      have : v = 0#64 := by simpa using hne
      subst this
      simp
  have hPM : (ParentMany n row tr).1.toNat ≤ 2 ^ (tr.toNat + 1) - 1 := by
    unfold ParentMany
    split
    · show n.toNat ≤ _
      omega
    · split
      · simp
      · show (_ &&& (shl 2#64 tr.toNat - 1#64)).toNat ≤ _
        rw [toNat_and_mask hh]
        have := Nat.mod_lt (((shr n row.toNat ||| shl (shl 2#64 tr.toNat - 1#64)
          (conv 64 (tr - (row - 1#8))).toNat)).toNat) (Nat.two_pow_pos (tr.toNat + 1))
        omega
  unfold maxPositionAtRow
  generalize ParentMany n row tr = pm at hPM
  obtain ⟨v, e⟩ := pm
  cases e
  · exact hdec v hPM
  · simp

/-! ### the structure -/

theorem rowFacts (n : U64) (hn : n.toNat ≤ 2 ^ 63) : RowFacts n := by
  obtain ⟨h63, hle⟩ := toNat_treeRows n
  have hh := h63 hn
  constructor
  · intro p row _ hp
    obtain ⟨r, hr, hL⟩ := lead_exists p (TreeRows n).toNat
    have hmax := maxPositionAtRow_le row (TreeRows n) n hh hle
    have hp' : p.toNat ≤ _ := BitVec.le_def.mp hp
    rw [BitVec.le_def, toNat_detectRow_of_lead hh hr hL]
    by_cases hrh : r ≤ (TreeRows n).toNat
    · exact hrh
    · have hr' : r = (TreeRows n).toNat + 1 := by omega
      subst hr'
      have := ge_of_all_ones hL
      have hpos : 0 < 2 ^ (TreeRows n).toNat := Nat.two_pow_pos _
      have hpow : 2 ^ ((TreeRows n).toNat + 1) = 2 * 2 ^ (TreeRows n).toNat := two_pow_succ' _
      omega
  · intro p hp
    obtain ⟨r, hr, hL⟩ := lead_exists p (TreeRows n).toNat
    rw [BitVec.le_def, toNat_detectRow_of_lead hh hr hL] at hp
    rw [toNat_detectRow_of_lead hh hr hL,
      toNat_detectRow_of_lead hh (by omega) (lead_parent hh hp hL)]

end UtreexoVerif.Proofs.RowFacts
