/-
  Collision-EXTRACTING soundness of `calculateHashes` + root matching (helper lemmas for
  `Props/C03x.lean`): the argument of `Proofs/CalcSound.lean` with the global hypothesis `CR H`
  removed.  Wherever the old proof used `cr.nonzero`/`cr.inj`, the new one either continues or
  stops with an explicit witness drawn from the list of pairs the verifier hashed.

  * `calcStepX`/`calcLoopX`/`calculateHashesX` (`Model/CalcX.lean`) project to the existing model
    (`calcStepX_fst`, `calcLoopX_fst`, `calculateHashesX_fst`, `calculateHashesX_of_ok`);
  * `hashedPairs_nonzero`: only non-zero hashes are ever passed to `ph`;
  * `ForestViewX … Good Bad`: `ForestView` whose `children_ok` may fail with `Bad a b`, and
    certifies `Good a b` when it does not;
  * `Inv.stepX`, `back_stepX`, `calcLoopX_sound`: forward invariant / backward truth propagation
    under "no pair hashed so far is bad";
  * `calc_sound_x`: accepted ⇒ (every claim is true ∧ every hashed pair is `Good`) ∨ some hashed
    pair is bad (hash zero or `Bad`).
-/
import UtreexoVerif.Proofs.CalcSound
import UtreexoVerif.Model.CalcX

namespace UtreexoVerif.Proofs.CalcSoundX
open UtreexoVerif Model Hasher GoInt
open UtreexoVerif.Proofs.CalcSound

/-- forget the log -/
def fstO {α β : Type} (x : Out (α × β)) : Out α := x.bind fun r => .ok r.1

theorem fstO_ok {α β : Type} {x : Out (α × β)} {a : α} :
    fstO x = .ok a ↔ ∃ b, x = .ok (a, b) := by
  cases x with
  | ok r =>
    obtain ⟨r1, r2⟩ := r
    simp [fstO, Out.bind]
  | err => simp [fstO, Out.bind]
  | panic => simp [fstO, Out.bind]
  | hang => simp [fstO, Out.bind]

section
variable {H : Type} [DecidableEq H] [Hasher H]

/-! ### the instrumented twin projects to the model -/

theorem getNextHashX_fst (p : U64) (h sib : H) : (getNextHashX p h sib).1 = getNextHash p h sib := by
  unfold getNextHashX getNextHash
  split
  · rfl
  · split
    · rfl
    · split <;> rfl

theorem getNextHashX_nonzero {p : U64} {h sib : H} (h1 : h ≠ zero) (h2 : sib ≠ zero) :
    getNextHashX p h sib =
      if isLeftNiece p then (ph h sib, [(h, sib)]) else (ph sib h, [(sib, h)]) := by
  simp [getNextHashX, h1, h2]

/-- `calcStepX` through the named pieces of `Proofs/CalcSound.lean` -/
def calcStepX' (n : U64) (tr : U8) (s : CalcSt H) : Out (StepOut H × List (H × H)) :=
  if s.row > tr then .ok (.stop s, [])
  else match nextLeast s.toProve s.next with
  | none => .ok (.stop s, [])
  | some fromNext =>
    let pop := popLeast fromNext s.toProve s.next s.done
    (rowCursor n tr pop.1 257 s.row).bind fun row =>
      if isRootPositionOnRow pop.1 n row then
        .ok (.cont { s with
          toProve := pop.2.2.1, next := pop.2.2.2.1, done := pop.2.2.2.2, row := row,
          roots := s.roots ++ [pop.2.1], rootRows := s.rootRows ++ [row] }, [])
      else
        (sibSel (sibFrom pop.1 pop.2.2.1 pop.2.2.2.1) pop.2.2.1 pop.2.2.2.1 pop.2.2.2.2
            s.proof).bind fun r =>
          .ok (.cont { s with
            toProve := r.2.1,
            next := r.2.2.1 ++ [(Parent pop.1 tr, (getNextHashX pop.1 pop.2.1 r.1).1)],
            done := r.2.2.2.1, proof := r.2.2.2.2, row := row },
            (getNextHashX pop.1 pop.2.1 r.1).2)

theorem calcStepX_eq (n : U64) (tr : U8) (s : CalcSt H) : calcStepX n tr s = calcStepX' n tr s := rfl

/-- forgetting the log of one instrumented step gives the model's step -/
theorem calcStepX_fst (n : U64) (tr : U8) (s : CalcSt H) :
    fstO (calcStepX n tr s) = calcStep n tr s := by
  rw [calcStepX_eq, calcStep_eq]
  unfold calcStepX' calcStep' fstO
  by_cases hr : s.row > tr
  · rw [if_pos hr, if_pos hr]; rfl
  rw [if_neg hr, if_neg hr]
  cases nextLeast s.toProve s.next with
  | none => rfl
  | some fromNext =>
    simp only
    cases rowCursor n tr _ 257 s.row with
    | ok row =>
      simp only [Out.bind]
      by_cases hroot : isRootPositionOnRow (popLeast fromNext s.toProve s.next s.done).1 n row = true
      · rw [if_pos hroot, if_pos hroot]
      · rw [if_neg hroot, if_neg hroot]
        cases sibSel _ _ _ _ s.proof with
        | ok r => simp only [getNextHashX_fst]
        | err => rfl
        | panic => rfl
        | hang => rfl
    | err => rfl
    | panic => rfl
    | hang => rfl

theorem calcLoopX_fst (n : U64) (tr : U8) :
    ∀ (fuel : Nat) (s : CalcSt H), fstO (calcLoopX n tr fuel s) = calcLoop n tr fuel s := by
  intro fuel
  induction fuel with
  | zero => intro s; rfl
  | succ fuel ih =>
    intro s
    unfold calcLoopX calcLoop
    rw [← calcStepX_fst]
    simp only [bind, pure]
    cases calcStepX n tr s with
    | ok r =>
      obtain ⟨so, l⟩ := r
      cases so with
      | stop s1 => rfl
      | cont s1 =>
        simp only [fstO, Out.bind]
        rw [← ih s1]
        cases calcLoopX n tr fuel s1 with
        | ok r2 => rfl
        | err => rfl
        | panic => rfl
        | hang => rfl
    | err => rfl
    | panic => rfl
    | hang => rfl

/-- **the instrumented `calculateHashes` is the model plus a log**: forgetting the log gives
exactly the model's outcome (same `ok`/`err`/`panic`/`hang`, same nodes, roots and root rows) -/
theorem calculateHashesX_fst (n : U64) (dh : Option (List H)) (ts : List U64) (ps : List H) :
    fstO (calculateHashesX n dh ts ps) = calculateHashes n dh ts ps := by
  unfold calculateHashesX calculateHashes
  simp only [bind, pure]
  cases toHashAndPos ts _ with
  | ok tp =>
    simp only [Out.bind]
    rw [← calcLoopX_fst]
    generalize calcLoopX (H := H) n (TreeRows n) _ _ = x
    cases x <;> rfl
  | err => rfl
  | panic => rfl
  | hang => rfl

/-- a normal return of the model is a normal return of the twin with the log `hashedPairs` -/
theorem calculateHashesX_of_ok {n : U64} {hs : List H} {ts : List U64} {ps : List H}
    {r : CalcResult H} (h : calculateHashes n (some hs) ts ps = .ok r) :
    calculateHashesX n (some hs) ts ps = .ok (r, hashedPairs n hs ts ps) := by
  rw [← calculateHashesX_fst, fstO_ok] at h
  obtain ⟨l, hl⟩ := h
  unfold hashedPairs
  rw [hl]

/-! ### the view, with an escape -/

/-- `ForestView` (`Spec/View.lean`) without collision-freeness built in: a node whose hash is
`ph a b` (`a`, `b` non-zero) has children `a`, `b` and the pair `(a, b)` is `Good` (for the
specification forest: it is the pair the node's hash was made from) — or the pair is `Bad`. -/
structure ForestViewX (H : Type) [Hasher H] (numLeaves : U64) (roots : List H)
    (Good Bad : H → H → Prop) where
  nodeAt : U64 → Option H
  root_ok : ∀ (row : U8) (h : H), row ≤ TreeRows numLeaves →
    (rootExistsOnRow numLeaves row = true) →
    roots[rootIdxOfRow numLeaves row]? = some h →
    nodeAt (rootPosition numLeaves row (TreeRows numLeaves)) = some h
  children_ok : ∀ (p : U64) (row : U8) (a b : H), row ≤ TreeRows numLeaves →
    p ≤ (maxPositionAtRow row (TreeRows numLeaves) numLeaves).1 →
    nodeAt (Parent p (TreeRows numLeaves)) = some (ph a b) → a ≠ zero → b ≠ zero →
    (nodeAt (leftSib p) = some a ∧ nodeAt (rightSib p) = some b ∧ Good a b) ∨ Bad a b

/-- every `ForestView` is a `ForestViewX` that never escapes -/
def ForestViewX.ofView {n : U64} {roots : List H} (V : ForestView H n roots) :
    ForestViewX H n roots (fun _ _ => True) (fun _ _ => False) where
  nodeAt := V.nodeAt
  root_ok := V.root_ok
  children_ok := fun p row a b h1 h2 h3 h4 h5 =>
    Or.inl ⟨(V.children_ok p row a b h1 h2 h3 h4 h5).1, (V.children_ok p row a b h1 h2 h3 h4 h5).2,
      trivial⟩

/-! ### shape of an instrumented step -/

/-- shape of a continuing step, with its log -/
theorem calcStepX_cont {n : U64} {tr : U8} {s s' : CalcSt H} {l : List (H × H)}
    (h : calcStepX n tr s = .ok (.cont s', l)) :
    ∃ x tp nx, Pop s.toProve s.next x tp nx ∧ rowCursor n tr x.1 257 s.row = .ok s'.row ∧
      ((isRootPositionOnRow x.1 n s'.row = true ∧ s'.toProve = tp ∧ s'.next = nx ∧
          s'.roots = s.roots ++ [x.2] ∧ s'.rootRows = s.rootRows ++ [s'.row] ∧ l = []) ∨
       (∃ sib tp' nx', SibOK x.1 tp nx sib tp' nx' ∧ s'.toProve = tp' ∧
          s'.next = nx' ++ [(Parent x.1 tr, (getNextHashX x.1 x.2 sib).1)] ∧
          s'.roots = s.roots ∧ s'.rootRows = s.rootRows ∧ l = (getNextHashX x.1 x.2 sib).2)) := by
  rw [calcStepX_eq] at h
  unfold calcStepX' at h
  split at h
  · simp at h
  split at h
  · simp at h
  rename_i fromNext hnl
  have hP := popLeast_pop s.done hnl
  generalize popLeast fromNext s.toProve s.next s.done = pop at h hP
  obtain ⟨p, hsh, tp, nx, dn⟩ := pop
  simp only at h hP
  rw [bind_eq_ok] at h
  obtain ⟨row, hrow, h⟩ := h
  refine ⟨(p, hsh), tp, nx, hP, ?_⟩
  split at h
  · rename_i hroot
    injection h with h
    injection h with h hl
    injection h with h
    subst h
    exact ⟨hrow, Or.inl ⟨hroot, rfl, rfl, rfl, rfl, hl.symm⟩⟩
  · rw [bind_eq_ok] at h
    obtain ⟨r, hsel, h⟩ := h
    injection h with h
    injection h with h hl
    injection h with h
    subst h
    exact ⟨hrow, Or.inr ⟨r.1, r.2.1, r.2.2.1, sibSel_ok hsel, rfl, rfl, rfl, rfl, hl.symm⟩⟩

/-- shape of a stopping step: nothing is hashed -/
theorem calcStepX_stop {n : U64} {tr : U8} {s s' : CalcSt H} {l : List (H × H)}
    (h : calcStepX n tr s = .ok (.stop s', l)) :
    s' = s ∧ l = [] ∧ (s.row > tr ∨ (s.toProve = [] ∧ s.next = [])) := by
  rw [calcStepX_eq] at h
  unfold calcStepX' at h
  split at h
  · rename_i hr
    injection h with h
    injection h with h hl
    injection h with h
    exact ⟨h.symm, hl.symm, Or.inl hr⟩
  split at h
  · rename_i hnl
    injection h with h
    injection h with h hl
    injection h with h
    exact ⟨h.symm, hl.symm, Or.inr (nextLeast_none hnl)⟩
  · rw [bind_eq_ok] at h
    obtain ⟨row, _, h⟩ := h
    split at h
    · simp at h
    · rw [bind_eq_ok] at h
      obtain ⟨r, _, h⟩ := h
      simp at h

/-! ### only non-zero hashes are ever passed to `ph` -/

theorem getNextHashX_log_nonzero (p : U64) (h sib : H) :
    ∀ x ∈ (getNextHashX p h sib).2, x.1 ≠ (zero : H) ∧ x.2 ≠ (zero : H) := by
  intro x hx
  unfold getNextHashX at hx
  split at hx
  · simp at hx
  · split at hx
    · simp at hx
    · split at hx
      · simp only [List.mem_singleton] at hx
        subst hx
        exact ⟨by assumption, by assumption⟩
      · simp only [List.mem_singleton] at hx
        subst hx
        exact ⟨by assumption, by assumption⟩

theorem calcLoopX_log_nonzero {n : U64} {tr : U8} :
    ∀ (fuel : Nat) (s sf : CalcSt H) (L : List (H × H)),
      calcLoopX n tr fuel s = .ok (sf, L) → ∀ x ∈ L, x.1 ≠ (zero : H) ∧ x.2 ≠ (zero : H) := by
  intro fuel
  induction fuel with
  | zero => intro s sf L h; simp [calcLoopX] at h
  | succ fuel ih =>
    intro s sf L h
    unfold calcLoopX at h
    simp only [bind, pure] at h
    rw [bind_eq_ok] at h
    obtain ⟨⟨so, l⟩, hstep, h⟩ := h
    cases so with
    | cont s1 =>
      simp only at h
      rw [bind_eq_ok] at h
      obtain ⟨⟨sf', l'⟩, hloop, h⟩ := h
      injection h with h
      injection h with h1 h2
      subst h1 h2
      intro x hx
      rw [List.mem_append] at hx
      rcases hx with hx | hx
      · obtain ⟨y, tp, nx, _, _, hcase⟩ := calcStepX_cont hstep
        rcases hcase with ⟨_, _, _, _, _, h5⟩ | ⟨sib, _, _, _, _, _, _, _, h5⟩
        · rw [h5] at hx; simp at hx
        · rw [h5] at hx
          exact getNextHashX_log_nonzero _ _ _ x hx
      · exact ih s1 sf' l' hloop x hx
    | stop s1 =>
      simp only at h
      injection h with h
      injection h with h1 h2
      obtain ⟨_, hl, _⟩ := calcStepX_stop hstep
      subst h2 hl
      intro x hx
      simp at hx

/-- both components of every hashed pair are non-zero (`getNextHash` passes a zero hash through
without hashing) -/
theorem hashedPairs_nonzero (n : U64) (hs : List H) (ts : List U64) (ps : List H) :
    ∀ x ∈ hashedPairs n hs ts ps, x.1 ≠ (zero : H) ∧ x.2 ≠ (zero : H) := by
  unfold hashedPairs
  split
  · rename_i r hr
    unfold calculateHashesX at hr
    simp only [bind, pure] at hr
    rw [bind_eq_ok] at hr
    obtain ⟨tp, _, hr⟩ := hr
    rw [bind_eq_ok] at hr
    obtain ⟨⟨sf, L'⟩, hloop, hr⟩ := hr
    injection hr with hr
    subst hr
    exact calcLoopX_log_nonzero _ _ _ _ hloop
  · intro x hx
    simp at hx

/-! ### forward invariant, without `CR` -/

/-- one step preserves `Inv` provided the pair hashed in this step does not hash to zero -/
theorem Inv.stepX {n : U64} {s s' : CalcSt H} {l : List (H × H)}
    (h : calcStepX n (TreeRows n) s = .ok (.cont s', l)) (inv : Inv n s)
    (hl : ∀ x ∈ l, ph x.1 x.2 ≠ (zero : H)) : Inv n s' := by
  obtain ⟨x, tp, nx, hP, hrow, hcase⟩ := calcStepX_cont h
  have hcur := rowCursor_ok _ _ _ hrow inv.row_le
  have hx : x.2 ≠ zero := inv.nonzero x ((hP.mem_iff x).2 (Or.inl rfl))
  have hrest : ∀ z ∈ tp ++ nx, z.2 ≠ (zero : H) :=
    fun z hz => inv.nonzero z ((hP.mem_iff z).2 (Or.inr hz))
  rcases hcase with ⟨hroot, h1, h2, h3, h4, _⟩ | ⟨sib, tp', nx', hsib, h1, h2, h3, h4, h5⟩
  · refine ⟨?_, hcur.1, ?_, ?_⟩
    · rw [h1, h2]; exact hrest
    · rw [h3, h4]; simp [inv.len]
    · intro r hr
      rw [h4, List.mem_append, List.mem_singleton] at hr
      rcases hr with hr | rfl
      · exact inv.rows r hr
      · exact ⟨hcur.1, (isRootPositionOnRow_true hroot).1⟩
  · obtain ⟨hs, hrest'⟩ := hsib.nonzero hrest
    refine ⟨?_, hcur.1, ?_, ?_⟩
    · intro z hz
      rw [h1, h2, ← List.append_assoc, List.mem_append, List.mem_singleton] at hz
      rcases hz with hz | rfl
      · exact hrest' z hz
      · show (getNextHashX x.1 x.2 sib).1 ≠ zero
        rw [getNextHashX_nonzero hx hs] at h5 ⊢
        split
        · rename_i hc
          rw [if_pos hc] at h5
          exact hl (x.2, sib) (by rw [h5]; simp)
        · rename_i hc
          rw [if_neg hc] at h5
          exact hl (sib, x.2) (by rw [h5]; simp)
    · rw [h3, h4]; exact inv.len
    · rw [h4]; exact inv.rows

/-! ### backward propagation of truth, with the escape -/

section view
variable {n : U64} {roots : List H} {Good Bad : H → H → Prop}
  (V : ForestViewX H n roots Good Bad)

def AllTrueX (s : CalcSt H) : Prop := ∀ x ∈ s.toProve ++ s.next, V.nodeAt x.1 = some x.2

def RootsTrueX (s : CalcSt H) : Prop :=
  ∀ c ∈ s.roots.zip s.rootRows, V.nodeAt (rootPosition n c.2 (TreeRows n)) = some c.1

theorem back_stepX {s s' : CalcSt H} {l : List (H × H)}
    (h : calcStepX n (TreeRows n) s = .ok (.cont s', l)) (inv : Inv n s)
    (hl : ∀ x ∈ l, ¬ Bad x.1 x.2)
    (hall : AllTrueX V s') (hroots : RootsTrueX V s') :
    AllTrueX V s ∧ RootsTrueX V s ∧ ∀ x ∈ l, Good x.1 x.2 := by
  obtain ⟨x, tp, nx, hP, hrow, hcase⟩ := calcStepX_cont h
  have hcur := rowCursor_ok _ _ _ hrow inv.row_le
  have hx : x.2 ≠ zero := inv.nonzero x ((hP.mem_iff x).2 (Or.inl rfl))
  have hrest : ∀ z ∈ tp ++ nx, z.2 ≠ (zero : H) :=
    fun z hz => inv.nonzero z ((hP.mem_iff z).2 (Or.inr hz))
  rcases hcase with ⟨hroot, h1, h2, h3, h4, h5⟩ | ⟨sib, tp', nx', hsib, h1, h2, h3, h4, h5⟩
  · have hzip : s'.roots.zip s'.rootRows = s.roots.zip s.rootRows ++ [(x.2, s'.row)] := by
      rw [h3, h4, List.zip_append inv.len]; rfl
    refine ⟨?_, ?_, ?_⟩
    · intro z hz
      rcases (hP.mem_iff z).1 hz with rfl | hz
      · have := hroots (z.2, s'.row) (by rw [hzip]; simp)
        rw [← (isRootPositionOnRow_true hroot).2] at this
        exact this
      · exact hall z (by rw [h1, h2]; exact hz)
    · intro c hc
      exact hroots c (by rw [hzip]; exact List.mem_append_left _ hc)
    · intro z hz
      rw [h5] at hz
      simp at hz
  · obtain ⟨hs, _⟩ := hsib.nonzero hrest
    have hnew : V.nodeAt (Parent x.1 (TreeRows n)) = some (getNextHashX x.1 x.2 sib).1 :=
      hall (Parent x.1 (TreeRows n), (getNextHashX x.1 x.2 sib).1) (by rw [h2]; simp)
    rw [getNextHashX_nonzero hx hs] at hnew h5
    have hrest' : ∀ z ∈ tp' ++ nx', V.nodeAt z.1 = some z.2 := by
      intro z hz
      apply hall z
      rw [h1, h2, ← List.append_assoc]
      exact List.mem_append_left _ hz
    -- the children of the parent node, whichever side the popped element is on
    have hkids : V.nodeAt x.1 = some x.2 ∧
        ((isLeftNiece x.1 = true ∧ V.nodeAt (rightSib x.1) = some sib) ∨
          isLeftNiece x.1 = false) ∧ ∀ z ∈ l, Good z.1 z.2 := by
      cases hln : isLeftNiece x.1
      · rw [hln] at hnew h5
        simp only [Bool.false_eq_true, if_false] at hnew h5
        rcases V.children_ok x.1 s'.row sib x.2 hcur.1 hcur.2 hnew hs hx with hc | hb
        · rw [rightSib_of_not_isLeftNiece hln] at hc
          refine ⟨hc.2.1, Or.inr rfl, ?_⟩
          intro z hz
          rw [h5, List.mem_singleton] at hz
          subst hz
          exact hc.2.2
        · exact absurd hb (hl (sib, x.2) (by rw [h5]; simp))
      · rw [hln] at hnew h5
        simp only [if_true] at hnew h5
        rcases V.children_ok x.1 s'.row x.2 sib hcur.1 hcur.2 hnew hx hs with hc | hb
        · rw [leftSib_of_isLeftNiece hln] at hc
          refine ⟨hc.1, Or.inl ⟨rfl, hc.2.1⟩, ?_⟩
          intro z hz
          rw [h5, List.mem_singleton] at hz
          subst hz
          exact hc.2.2
        · exact absurd hb (hl (x.2, sib) (by rw [h5]; simp))
    refine ⟨?_, ?_, hkids.2.2⟩
    · have hxtrue : V.nodeAt x.1 = some x.2 ∧ ∀ z ∈ tp ++ nx, V.nodeAt z.1 = some z.2 := by
        refine ⟨hkids.1, ?_⟩
        rcases hsib with ⟨y, hPy, hne, hrs, rfl⟩ | ⟨rfl, rfl, _⟩
        · have hne' : x.1 ≠ rightSib x.1 := by rw [hrs]; exact hne
          have hln := isLeftNiece_of_ne_rightSib hne'
          intro z hz
          rcases (hPy.mem_iff z).1 hz with rfl | hz
          · rcases hkids.2.1 with ⟨_, hr⟩ | hf
            · rw [hrs] at hr; exact hr
            · rw [hln] at hf; cases hf
          · exact hrest' z hz
        · exact hrest'
      intro z hz
      rcases (hP.mem_iff z).1 hz with rfl | hz
      · exact hxtrue.1
      · exact hxtrue.2 z hz
    · intro c hc
      exact hroots c (by rw [h3, h4]; exact hc)

/-- the loop: as long as no hashed pair hashes to zero or is `Bad`, the invariant reaches the
final state, truth of the final root candidates flows back to everything queued at the start,
and every pair hashed on the way is `Good` -/
theorem calcLoopX_sound :
    ∀ (fuel : Nat) (s sf : CalcSt H) (L : List (H × H)),
      calcLoopX n (TreeRows n) fuel s = .ok (sf, L) → Inv n s →
      (∀ x ∈ L, ph x.1 x.2 ≠ (zero : H) ∧ ¬ Bad x.1 x.2) →
      Inv n sf ∧ (RootsTrueX V sf →
        AllTrueX V s ∧ RootsTrueX V s ∧ ∀ x ∈ L, Good x.1 x.2) := by
  intro fuel
  induction fuel with
  | zero => intro s sf L h; simp [calcLoopX] at h
  | succ fuel ih =>
    intro s sf L h inv hL
    unfold calcLoopX at h
    simp only [bind, pure] at h
    rw [bind_eq_ok] at h
    obtain ⟨⟨so, l⟩, hstep, h⟩ := h
    cases so with
    | cont s1 =>
      simp only at h
      rw [bind_eq_ok] at h
      obtain ⟨⟨sf', l'⟩, hloop, h⟩ := h
      injection h with h
      injection h with h1 h2
      subst h1 h2
      have hl : ∀ x ∈ l, ph x.1 x.2 ≠ (zero : H) ∧ ¬ Bad x.1 x.2 :=
        fun x hx => hL x (List.mem_append_left _ hx)
      have inv1 := Inv.stepX hstep inv (fun x hx => (hl x hx).1)
      obtain ⟨invf, hback⟩ := ih s1 sf' l' hloop inv1 (fun x hx => hL x (List.mem_append_right _ hx))
      refine ⟨invf, fun hr => ?_⟩
      obtain ⟨ha1, hr1, hg1⟩ := hback hr
      obtain ⟨ha, hr0, hg⟩ := back_stepX V hstep inv (fun x hx => (hl x hx).2) ha1 hr1
      refine ⟨ha, hr0, ?_⟩
      intro x hx
      rw [List.mem_append] at hx
      rcases hx with hx | hx
      · exact hg x hx
      · exact hg1 x hx
    | stop s1 =>
      simp only at h
      injection h with h
      injection h with h1 h2
      obtain ⟨rfl, hl0, hstop⟩ := calcStepX_stop hstep
      subst h1 h2 hl0
      refine ⟨inv, fun hr => ⟨?_, hr, ?_⟩⟩
      · rcases hstop with hgt | ⟨h1, h2⟩
        · exact absurd inv.row_le (BitVec.not_le.mpr hgt)
        · intro x hx
          rw [h1, h2] at hx
          simp at hx
      · intro x hx
        simp at hx

end view

/-! ### the core statement -/

/-- **collision-extracting core**: if `calculateHashes` returns and its root candidates match
the stored roots, then either every claimed `(target, hash)` is a node of the view AND every pair
the run hashed is `Good`, or one of the pairs the run hashed (an element of `hashedPairs`) hashes
to zero or is `Bad` -/
theorem calc_sound_x {n : U64} {roots : List H} {Good Bad : H → H → Prop}
    (V : ForestViewX H n roots Good Bad)
    {hs : List H} {ts : List U64} {ps : List H} {r : CalcResult H} {idx : List Nat}
    (hnz : ∀ h ∈ hs, h ≠ (zero : H))
    (hc : calculateHashes n (some hs) ts ps = .ok r)
    (hm : matchRoots n roots r.roots r.rootRows none = .ok idx) :
    ((∀ x ∈ ts.zip hs, V.nodeAt x.1 = some x.2) ∧
      ∀ x ∈ hashedPairs n hs ts ps, Good x.1 x.2) ∨
    (∃ x ∈ hashedPairs n hs ts ps, ph x.1 x.2 = (zero : H) ∨ Bad x.1 x.2) := by
  have hcx := calculateHashesX_of_ok hc
  generalize hashedPairs n hs ts ps = L at hcx ⊢
  by_cases hbad : ∃ x ∈ L, ph x.1 x.2 = (zero : H) ∨ Bad x.1 x.2
  · exact Or.inr hbad
  left
  have hgood : ∀ x ∈ L, ph x.1 x.2 ≠ (zero : H) ∧ ¬ Bad x.1 x.2 := by
    intro x hx
    constructor
    · intro h0; exact hbad ⟨x, hx, Or.inl h0⟩
    · intro hb; exact hbad ⟨x, hx, Or.inr hb⟩
  unfold calculateHashesX at hcx
  simp only [bind, pure] at hcx
  rw [bind_eq_ok] at hcx
  obtain ⟨tp, htp, hcx⟩ := hcx
  rw [bind_eq_ok] at hcx
  obtain ⟨⟨sf, L'⟩, hloop, hcx⟩ := hcx
  injection hcx with hcx
  injection hcx with hr hL
  subst hr hL
  simp only at hm
  have htp' : tp = sortHP (ts.zip hs) := by
    unfold toHashAndPos at htp
    split at htp
    · injection htp with htp; exact htp.symm
    · simp at htp
  subst htp'
  have inv0 : Inv n ({
      toProve := sortHP (ts.zip hs), next := [], done := [], proof := ps,
      row := 0#8, roots := [], rootRows := [] } : CalcSt H) := by
    refine ⟨?_, ?_, rfl, ?_⟩
    · intro x hx
      simp only [List.append_nil] at hx
      rw [mem_sortHP] at hx
      exact hnz _ (List.of_mem_zip hx).2
    · simp [BitVec.le_def]
    · intro r hr; simp at hr
  obtain ⟨invf, hback⟩ := calcLoopX_sound V _ _ _ _ hloop inv0 hgood
  have hrt : RootsTrueX V sf := by
    intro c hc
    have hidx := matchRoots_ok _ _ _ _ hm c hc
    obtain ⟨hle, hex⟩ := invf.rows c.2 (List.of_mem_zip hc).2
    exact V.root_ok c.2 c.1 hle hex hidx
  obtain ⟨hat, _, hg⟩ := hback hrt
  refine ⟨?_, hg⟩
  intro x hx
  have := hat x
  simp only [List.append_nil] at this
  exact this ((mem_sortHP x _).2 hx)

/-- with no claimed hashes nothing is hashed -/
theorem hashedPairs_nil (n : U64) (ts : List U64) (ps : List H) :
    hashedPairs n ([] : List H) ts ps = [] := by
  cases ts with
  | cons t ts => simp [hashedPairs, calculateHashesX, toHashAndPos, bind, Out.bind]
  | nil =>
    have h0 : ¬ ((0#8 : U8) > TreeRows n) := by simp [BitVec.lt_def]
    simp [hashedPairs, calculateHashesX, toHashAndPos, bind, pure, Out.bind, sortHP, sortBy,
      calcFuel, calcLoopX, calcStepX, nextLeast, h0]

/-- the three verifiers reduce to `calc_sound_x` -/
theorem verify_sound_x {n : U64} {roots : List H} {Good Bad : H → H → Prop}
    (V : ForestViewX H n roots Good Bad)
    {hs : List H} {ts : List U64} {ps : List H} {idx : List Nat}
    (hnz : ∀ h ∈ hs, h ≠ (zero : H))
    (h : verify n roots hs ts ps = .ok idx) :
    ((∀ x ∈ ts.zip hs, V.nodeAt x.1 = some x.2) ∧
      ∀ x ∈ hashedPairs n hs ts ps, Good x.1 x.2) ∨
    (∃ x ∈ hashedPairs n hs ts ps, ph x.1 x.2 = (zero : H) ∨ Bad x.1 x.2) := by
  unfold verify at h
  split at h
  · simp at h
  · simp only [bind] at h
    rw [bind_eq_ok] at h
    obtain ⟨r, hc, hm⟩ := h
    exact calc_sound_x V hnz hc hm

theorem pollardVerify_sound_x {n : U64} {roots : List H} {Good Bad : H → H → Prop}
    (V : ForestViewX H n roots Good Bad)
    {hs : List H} {ts : List U64} {ps : List H}
    (hnz : ∀ h ∈ hs, h ≠ (zero : H))
    (h : pollardVerify n roots hs ts ps = .ok ()) :
    ((∀ x ∈ ts.zip hs, V.nodeAt x.1 = some x.2) ∧
      ∀ x ∈ hashedPairs n hs ts ps, Good x.1 x.2) ∨
    (∃ x ∈ hashedPairs n hs ts ps, ph x.1 x.2 = (zero : H) ∨ Bad x.1 x.2) := by
  unfold pollardVerify at h
  split at h
  · rename_i hempty
    have : hs = [] := by simpa using hempty
    subst this
    left
    refine ⟨?_, ?_⟩
    · intro x hx
      simp at hx
    · intro x hx
      rw [hashedPairs_nil] at hx
      simp at hx
  split at h
  · simp at h
  · simp only [bind] at h
    rw [bind_eq_ok] at h
    obtain ⟨r, hc, h⟩ := h
    split at h
    · simp at h
    · rw [bind_eq_ok] at h
      obtain ⟨idx, hm, _⟩ := h
      exact calc_sound_x V hnz hc hm

theorem mapVerify_sound_x {n : U64} {roots : List H} {Good Bad : H → H → Prop}
    (V : ForestViewX H n roots Good Bad)
    {hs : List H} {ts : List U64} {ps : List H} {idx : List Nat}
    (hnz : ∀ h ∈ hs, h ≠ (zero : H))
    (h : mapVerify n (TreeRows n) roots hs ts ps = .ok idx) :
    ((∀ x ∈ ts.zip hs, V.nodeAt x.1 = some x.2) ∧
      ∀ x ∈ hashedPairs n hs ts ps, Good x.1 x.2) ∨
    (∃ x ∈ hashedPairs n hs ts ps, ph x.1 x.2 = (zero : H) ∨ Bad x.1 x.2) := by
  unfold mapVerify at h
  simp only [ne_eq, not_true_eq_false, if_false] at h
  exact verify_sound_x V hnz h

end
end UtreexoVerif.Proofs.CalcSoundX
