/-
  C15: from the table-level theorems of `Props/C15.lean` (`order_strict`, `scheduled_is_entry`,
  `memory_bound`, `complete_wrt_tables`, `generate_total`) to the Array/Bool oracle of
  `Spec/Sched.lean` (`orderOK`, `slotsOK`, `memOK`, `completeOK`), given that the ttl tables
  computed by `genTTLs` are the lifetime tables of the history (`Props.C15.lifetimeTables`).
-/
import UtreexoVerif.Props.C15
import UtreexoVerif.Proofs.SchedLives

namespace UtreexoVerif.Proofs.SchedOracle
open UtreexoVerif Spec Spec.Sched UtreexoVerif.Proofs.SchedSem UtreexoVerif.Proofs.SchedLives
open UtreexoVerif.Proofs.Schedule UtreexoVerif.Props.C15

-- ---------------------------------------------------------------- the lifetime tables

/-- table `t` of `lifetimeTables` -/
def row (h : History) (t : Nat) : List Model.TTLInfo :=
  ((List.range ((lives h).before (t + 1) - (lives h).before t)).map (· + (lives h).before t)).filterMap fun s =>
    match (lives h).death? s with
    | some d => some { pos := BitVec.ofNat 64 s, ttl := (d : Int) - (t : Int) }
    | none => none

theorem lifetimeTables_eq (h : History) : lifetimeTables h = (List.range h.length).map (row h) := rfl

theorem lifetimeTables_length (h : History) : (lifetimeTables h).length = h.length := by
  simp [lifetimeTables_eq]

theorem lifetimeTables_getElem? (h : History) (i : Nat) :
    (lifetimeTables h)[i]? = if i < h.length then some (row h i) else none := by
  rw [lifetimeTables_eq, List.getElem?_map]
  by_cases hi : i < h.length
  · rw [List.getElem?_range hi, if_pos hi]; rfl
  · rw [List.getElem?_eq_none (by simpa using hi), if_neg hi]; rfl

theorem mem_row (h : History) (t : Nat) (e : Model.TTLInfo) :
    e ∈ row h t ↔ ∃ s d, pre h t ≤ s ∧ s < pre h (t + 1) ∧ (lives h).death? s = some d ∧
      e = { pos := BitVec.ofNat 64 s, ttl := (d : Int) - (t : Int) } := by
  unfold row
  rw [List.mem_filterMap]
  simp only [List.mem_map, List.mem_range, before_pre]
  constructor
  · rintro ⟨s, ⟨j, hj, rfl⟩, hf⟩
    cases hd : (lives h).death? (j + pre h t) with
    | none => rw [hd] at hf; cases hf
    | some d =>
      rw [hd] at hf
      exact ⟨j + pre h t, d, by omega, by omega, hd, (Option.some.inj hf).symm⟩
  · rintro ⟨s, d, h1, h2, h3, rfl⟩
    refine ⟨s, ⟨s - pre h t, by omega, by omega⟩, ?_⟩
    rw [h3]

/-- entries of the lifetime tables -/
theorem ent_iff (h : History) (i : Nat) (e : Model.TTLInfo) :
    Ent (lifetimeTables h) i e ↔ i < h.length ∧ ∃ s d, pre h i ≤ s ∧ s < pre h (i + 1) ∧
      (lives h).death? s = some d ∧ e = { pos := BitVec.ofNat 64 s, ttl := (d : Int) - (i : Int) } := by
  unfold Ent
  rw [lifetimeTables_getElem?]
  constructor
  · rintro ⟨l, hl, he⟩
    by_cases hi : i < h.length
    · rw [if_pos hi] at hl
      cases hl
      exact ⟨hi, (mem_row h i e).mp he⟩
    · rw [if_neg hi] at hl; cases hl
  · rintro ⟨hi, he⟩
    exact ⟨row h i, by rw [if_pos hi], (mem_row h i e).mpr he⟩

theorem toNat_ofNat_of_lt {h : History} (htot : total h < 2 ^ 64) {s t : Nat} (hs : s < pre h t) :
    (BitVec.ofNat 64 s).toNat = s := by
  rw [BitVec.toNat_ofNat]
  have := pre_le_total h t
  exact Nat.mod_eq_of_lt (by omega)

theorem row_sorted {h : History} (htot : total h < 2 ^ 64) (t : Nat) :
    (row h t).Pairwise (fun a b => a.pos.toNat < b.pos.toNat) := by
  unfold row
  refine List.Pairwise.filterMap (R := fun a b => a < b ∧ b < pre h (t + 1)) _ ?_ ?_
  · intro a a' hlt b hb b' hb'
    cases hd : (lives h).death? a with
    | none => rw [hd] at hb; cases hb
    | some d =>
      cases hd' : (lives h).death? a' with
      | none => rw [hd'] at hb'; cases hb'
      | some d' =>
        rw [hd] at hb; rw [hd'] at hb'
        cases hb; cases hb'
        simp only
        rw [toNat_ofNat_of_lt htot (by omega : a < pre h (t + 1)), toNat_ofNat_of_lt htot hlt.2]
        exact hlt.1
  · rw [List.pairwise_map]
    refine List.Pairwise.imp_of_mem ?_ List.pairwise_lt_range
    intro a b _ hb hab
    simp only [List.mem_range, before_pre] at hb ⊢
    omega

theorem tables_sorted {h : History} (htot : total h < 2 ^ 64) :
    (lifetimeTables h).flatten.Pairwise (fun a b => a.pos.toNat < b.pos.toNat) := by
  rw [List.pairwise_flatten]
  constructor
  · intro l hl
    rw [lifetimeTables_eq, List.mem_map] at hl
    obtain ⟨t, _, rfl⟩ := hl
    exact row_sorted htot t
  · rw [lifetimeTables_eq, List.pairwise_map]
    refine List.Pairwise.imp ?_ List.pairwise_lt_range
    intro i j hij x hx y hy
    obtain ⟨s, d, h1, h2, _, rfl⟩ := (mem_row h i x).mp hx
    obtain ⟨s', d', h1', h2', _, rfl⟩ := (mem_row h j y).mp hy
    simp only
    rw [toNat_ofNat_of_lt htot h2, toNat_ofNat_of_lt htot h2']
    have := pre_mono h (by omega : i + 1 ≤ j)
    omega

theorem tables_distinct {h : History} (htot : total h < 2 ^ 64) : Distinct (lifetimeTables h) := by
  unfold Distinct
  rw [List.nodup_iff_pairwise_ne, List.pairwise_map]
  refine List.Pairwise.imp ?_ (tables_sorted htot)
  intro a b hab heq
  rw [heq] at hab
  exact Nat.lt_irrefl _ hab

/-- the tables have at most `total h` entries -/
theorem tables_length_le {h : History} (htot : total h < 2 ^ 64) :
    (lifetimeTables h).flatten.length ≤ total h := by
  have hnd : ((lifetimeTables h).flatten.map (·.pos.toNat)).Nodup := by
    rw [List.nodup_iff_pairwise_ne, List.pairwise_map]
    refine List.Pairwise.imp ?_ (tables_sorted htot)
    intro a b hab heq
    rw [heq] at hab
    exact Nat.lt_irrefl _ hab
  have hsub : ∀ x ∈ (lifetimeTables h).flatten.map (·.pos.toNat), x ∈ List.range (total h) := by
    intro x hx
    obtain ⟨e, he, rfl⟩ := List.mem_map.mp hx
    obtain ⟨l, hl, hel⟩ := List.mem_flatten.mp he
    rw [lifetimeTables_eq, List.mem_map] at hl
    obtain ⟨t, _, rfl⟩ := hl
    obtain ⟨s, d, _, h2, _, rfl⟩ := (mem_row h t e).mp hel
    simp only [List.mem_range]
    rw [toNat_ofNat_of_lt htot h2]
    have := pre_le_total h (t + 1)
    omega
  have := nodup_subset_length_le _ _ hnd hsub
  rw [List.length_map, List.length_range] at this
  exact this

/-- the block of a slot is unique -/
theorem block_unique (h : History) {s i j : Nat} (hi : pre h i ≤ s) (hi' : s < pre h (i + 1))
    (hj : pre h j ≤ s) (hj' : s < pre h (j + 1)) : i = j := by
  rcases Nat.lt_trichotomy i j with hlt | heq | hgt
  · have := pre_mono h (by omega : i + 1 ≤ j); omega
  · exact heq
  · have := pre_mono h (by omega : j + 1 ≤ i); omega

-- ---------------------------------------------------------------- clause 1a: order

theorem strictlyAscending_of_pairwise : ∀ (l : List Nat), l.Pairwise (· < ·) → strictlyAscending l = true := by
  intro l
  induction l with
  | nil => intro _; rfl
  | cons a l ih =>
    intro hp
    cases l with
    | nil => rfl
    | cons b l =>
      have hp' := List.pairwise_cons.mp hp
      unfold strictlyAscending
      simp only [Bool.and_eq_true, decide_eq_true_eq]
      exact ⟨hp'.1 b (by simp), ih hp'.2⟩

theorem orderOK_of_tables (sch : List (List U64))
    (hord : ∀ (i : Nat) (l : List U64), sch[i]? = some l → l.Pairwise (· < ·)) :
    orderOK (sch.map (·.map (·.toNat))) = true := by
  unfold orderOK
  simp only [List.all_eq_true, List.mem_map]
  rintro l' ⟨l, hl, rfl⟩
  obtain ⟨i, hi, rfl⟩ := List.mem_iff_getElem.mp hl
  apply strictlyAscending_of_pairwise
  rw [List.pairwise_map]
  refine List.Pairwise.imp ?_ (hord i _ (List.getElem?_eq_getElem hi))
  intro a b hab
  exact BitVec.lt_def.mp hab

-- ---------------------------------------------------------------- clause 1b: slots

theorem slotsOK_of_tables (h : History) (sch : List (List U64)) (htot : total h < 2 ^ 64)
    (hlen : sch.length = h.length)
    (hent : ∀ (i : Nat) (l : List U64) (p : U64), sch[i]? = some l → p ∈ l →
      ∃ e, Ent (lifetimeTables h) i e ∧ e.pos = p ∧ 0 < e.ttl) :
    slotsOK h (sch.map (·.map (·.toNat))) = true := by
  unfold slotsOK
  simp only [Bool.and_eq_true, beq_iff_eq, List.length_map, List.all_eq_true]
  refine ⟨hlen, ?_⟩
  rintro ⟨l', t⟩ hlt p' hp'
  have hget := List.mem_zipIdx_iff_getElem?.mp hlt
  simp only [List.getElem?_map] at hget
  cases hl : sch[t]? with
  | none => rw [hl] at hget; cases hget
  | some l =>
    rw [hl] at hget
    simp only [Option.map_some, Option.some.injEq] at hget
    subst hget
    obtain ⟨p, hp, rfl⟩ := List.mem_map.mp hp'
    obtain ⟨e, he, hpos, httl⟩ := hent t l p hl hp
    obtain ⟨_, s, d, h1, h2, h3, rfl⟩ := (ent_iff h t e).mp he
    simp only at hpos httl
    subst hpos
    rw [toNat_ofNat_of_lt htot h2]
    unfold Lives.slotOK
    simp only [before_pre, h3, Bool.and_eq_true, decide_eq_true_eq]
    exact ⟨⟨h1, h2⟩, by omega⟩

-- ---------------------------------------------------------------- clause 2: memory

theorem mem_aliveScheduled_of {T : List (List Model.TTLInfo)} {sch : List (List U64)} {τ i : Nat}
    {e : Model.TTLInfo} {l : List U64} (he : Ent T i e) (hl : sch[i]? = some l) (hp : e.pos ∈ l)
    (h1 : i ≤ τ) (h2 : (τ : Int) < i + e.ttl) : e ∈ aliveScheduled T sch τ := by
  unfold aliveScheduled
  obtain ⟨lt, hlt, hel⟩ := he
  refine List.mem_flatMap.mpr ⟨(lt, i), List.mem_zipIdx_iff_getElem?.mpr hlt, ?_⟩
  refine List.mem_filter.mpr ⟨hel, ?_⟩
  simp only [hl, Option.getD_some, List.contains_eq_mem, Bool.and_eq_true, decide_eq_true_eq]
  exact ⟨⟨hp, h1⟩, h2⟩

theorem memOK_of_tables (h : History) (sch : List (List U64)) (limit : Nat) (htot : total h < 2 ^ 64)
    (hent : ∀ (i : Nat) (l : List U64) (p : U64), sch[i]? = some l → p ∈ l →
      ∃ e, Ent (lifetimeTables h) i e ∧ e.pos = p ∧ 0 < e.ttl)
    (hmem : ∀ τ : Nat, ((aliveScheduled (lifetimeTables h) sch τ).length : Int) ≤ (limit : Int)) :
    memOK h limit (sch.map (·.map (·.toNat))) = true := by
  unfold memOK
  simp only [List.all_eq_true, decide_eq_true_eq]
  intro τ _
  have hnd : ((scheduledLeaves h (sch.map (·.map (·.toNat)))).filter ((lives h).existsAt τ)).Nodup := by
    unfold scheduledLeaves
    exact List.Pairwise.filter _ (eraseDups_nodup _ _ (Nat.le_refl _))
  have hsub : ∀ x ∈ (scheduledLeaves h (sch.map (·.map (·.toNat)))).filter ((lives h).existsAt τ),
      x ∈ (aliveScheduled (lifetimeTables h) sch τ).map (·.pos.toNat) := by
    intro x hx
    obtain ⟨hxS, hex⟩ := List.mem_filter.mp hx
    unfold scheduledLeaves at hxS
    simp only at hxS
    rw [List.mem_eraseDups] at hxS
    obtain ⟨hxf, _⟩ := List.mem_filter.mp hxS
    obtain ⟨l', hl', hxl'⟩ := List.mem_flatten.mp hxf
    obtain ⟨i, hi, rfl⟩ := List.mem_iff_getElem.mp hl'
    simp only [List.length_map] at hi
    simp only [List.getElem_map, List.mem_map] at hxl'
    obtain ⟨p, hp, rfl⟩ := hxl'
    have hl : sch[i]? = some sch[i] := List.getElem?_eq_getElem hi
    obtain ⟨e, he, hpos, _⟩ := hent i _ p hl hp
    obtain ⟨_, s, d, h1, h2, h3, heq⟩ := (ent_iff h i e).mp he
    have hps : p.toNat = s := by
      rw [← hpos, heq]; exact toNat_ofNat_of_lt htot h2
    rw [hps] at hex
    unfold Lives.existsAt at hex
    rw [h3] at hex
    cases hb : (lives h).birth? s with
    | none => rw [hb] at hex; simp at hex
    | some b =>
      rw [hb] at hex
      simp only [Bool.and_eq_true, decide_eq_true_eq] at hex
      obtain ⟨_, hb1, hb2⟩ := (birth_iff h s b).mp hb
      rw [stateAt_length_pre] at hb1 hb2
      have hbi : b = i := block_unique h hb1 hb2 h1 h2
      subst hbi
      refine List.mem_map.mpr ⟨e, ?_, by rw [hpos, hps]⟩
      refine mem_aliveScheduled_of he hl (by rw [hpos]; exact hp) hex.1 ?_
      rw [heq]
      simp only
      omega
  have hle := nodup_subset_length_le _ _ hnd hsub
  rw [List.length_map] at hle
  have := hmem τ
  omega

-- ---------------------------------------------------------------- clause 3: completeness

theorem completeOK_of_tables (h : History) (sch : List (List U64)) (limit : Nat) (htot : total h < 2 ^ 64)
    (hcomp : ((lifetimeTables h).flatten.length : Int) ≤ (limit : Int) →
      ∀ (i : Nat) (e : Model.TTLInfo), Ent (lifetimeTables h) i e → ∃ l, sch[i]? = some l ∧ e.pos ∈ l) :
    completeOK h limit (sch.map (·.map (·.toNat))) = true := by
  unfold completeOK
  simp only [Bool.or_eq_true, decide_eq_true_eq, List.all_eq_true, List.mem_range]
  rcases Nat.lt_or_ge limit (lives h).total with hlt | hge
  · exact Or.inl hlt
  · right
    rw [(total_eq h).1] at hge
    have hbig : ((lifetimeTables h).flatten.length : Int) ≤ (limit : Int) := by
      have := tables_length_le htot
      omega
    intro s _
    cases hd : (lives h).death? s with
    | none => rfl
    | some d =>
      cases hb : (lives h).birth? s with
      | none => rfl
      | some b =>
        simp only
        obtain ⟨hbl, hb1, hb2⟩ := (birth_iff h s b).mp hb
        rw [stateAt_length_pre] at hb1 hb2
        have he : Ent (lifetimeTables h) b { pos := BitVec.ofNat 64 s, ttl := (d : Int) - (b : Int) } :=
          (ent_iff h b _).mpr ⟨hbl, s, d, hb1, hb2, hd, rfl⟩
        obtain ⟨l, hl, hpl⟩ := hcomp hbig b _ he
        simp only at hpl
        rw [List.getElem?_map, hl]
        simp only [Option.map_some, Option.getD_some, List.contains_eq_mem, decide_eq_true_eq]
        refine List.mem_map.mpr ⟨BitVec.ofNat 64 s, hpl, toNat_ofNat_of_lt htot hb2⟩

-- ---------------------------------------------------------------- the bridge

theorem mapM_option_length {α β : Type} (f : α → Option β) : ∀ (l : List α) (r : List β),
    l.mapM f = some r → r.length = l.length := by
  intro l
  induction l with
  | nil => intro r hr; simp at hr; subst hr; rfl
  | cons a l ih =>
    intro r hr
    rw [List.mapM_cons] at hr
    cases hfa : f a with
    | none => rw [hfa] at hr; cases hr
    | some b =>
      cases hm : l.mapM f with
      | none => rw [hfa, hm] at hr; cases hr
      | some r' =>
        rw [hfa, hm] at hr
        cases hr
        simp [ih r' hm]

theorem summariesOf_length {h : History} {blocks : List (List U64 × Model.U16)}
    (hs : summariesOf h = some blocks) : blocks.length = h.length := by
  unfold summariesOf at hs
  have := mapM_option_length _ _ _ hs
  simpa using this

/-- **From the tables to the oracle.**  If `genTTLs` returns the lifetime tables of a
well-formed history, `GenerateCachingSchedule(limit)` returns a schedule that the oracle of
`Spec/Sched.lean` accepts in all four clauses. -/
theorem oracle_of_tables (gpp : Model.PrevPosFn) (h : History) (limit : Nat)
    (blocks : List (List U64 × Model.U16)) (tr cs : Model.Tracker)
    (hw : wellFormed h = true) (htot : total h < 2 ^ 64) (hlim : 1 ≤ limit)
    (hs : Props.C15.summariesOf h = some blocks) (hb : Model.Tracker.ofBlocks blocks = .ok tr)
    (hg : tr.genTTLsWith gpp = .ok cs) (ht : cs.ttls = Props.C15.lifetimeTables h) :
    ∃ sch, tr.generateCachingScheduleWith gpp (limit : Int) = .ok (cs, sch) ∧
      orderOK (sch.map (·.map (·.toNat))) = true ∧ slotsOK h (sch.map (·.map (·.toNat))) = true ∧
      memOK h limit (sch.map (·.map (·.toNat))) = true ∧
      completeOK h limit (sch.map (·.map (·.toNat))) = true := by
  have _ := hw
  have _ := hlim
  have hd : Distinct cs.ttls := by rw [ht]; exact tables_distinct htot
  obtain ⟨sch, hrun⟩ := generate_total gpp hb hg hd (Int.natCast_nonneg limit)
  have hord := order_strict gpp hb hrun hd
  have hent := scheduled_is_entry gpp hb hrun hd
  have hmem := Props.C15.memory_bound gpp hb hrun hd
  have hcomp := complete_wrt_tables gpp hb hrun hd
  rw [ht] at hent hmem hcomp
  have hent' : ∀ (i : Nat) (l : List U64) (p : U64), sch[i]? = some l → p ∈ l →
      ∃ e, Ent (lifetimeTables h) i e ∧ e.pos = p ∧ 0 < e.ttl := by
    intro i l p hl hp
    obtain ⟨e, h1, h2, h3, _⟩ := hent i l p hl hp
    exact ⟨e, h1, h2, h3⟩
  refine ⟨sch, hrun, orderOK_of_tables sch hord.2,
    slotsOK_of_tables h sch htot (by rw [hord.1, summariesOf_length hs]) hent',
    memOK_of_tables h sch limit htot hent' hmem, completeOK_of_tables h sch limit htot hcomp⟩

-- ---------------------------------------------------------------- non-vacuity

theorem witness_tables : (do
    let tr ← Model.Tracker.ofBlocks witnessBlocks
    let cs ← tr.genTTLsWith Model.getPrevPosFixed
    pure cs.ttls) = Out.ok (lifetimeTables witness) := by decide +kernel

/-- the hypotheses of `oracle_of_tables` are satisfiable: on the witness history of
`Props/C15.lean` (whose block 1 empties the only tree and adds a leaf) the repaired
`getPrevPos` yields the lifetime tables, hence a schedule accepted by the oracle -/
example : ∃ tr cs sch, Model.Tracker.ofBlocks witnessBlocks = .ok tr ∧
    tr.generateCachingScheduleWith Model.getPrevPosFixed ((2 : Nat) : Int) = .ok (cs, sch) ∧
    orderOK (sch.map (·.map (·.toNat))) = true ∧ slotsOK witness (sch.map (·.map (·.toNat))) = true ∧
    memOK witness 2 (sch.map (·.map (·.toNat))) = true ∧
    completeOK witness 2 (sch.map (·.map (·.toNat))) = true := by
  have hrun := witness_tables
  cases hb : Model.Tracker.ofBlocks witnessBlocks with
  | ok tr =>
    rw [hb] at hrun
    have hrun' : (do let cs ← tr.genTTLsWith Model.getPrevPosFixed; pure cs.ttls) =
        Out.ok (lifetimeTables witness) := hrun
    cases hg : tr.genTTLsWith Model.getPrevPosFixed with
    | ok cs =>
      rw [hg] at hrun'
      have ht : cs.ttls = lifetimeTables witness := Out.ok.inj hrun'
      obtain ⟨sch, h1, h2⟩ := oracle_of_tables Model.getPrevPosFixed witness 2 witnessBlocks tr cs
        (by decide +kernel) (by decide +kernel) (by decide) witness_summaries hb hg ht
      exact ⟨tr, cs, sch, rfl, h1, h2⟩
    | err => rw [hg] at hrun'; cases hrun'
    | panic => rw [hg] at hrun'; cases hrun'
    | hang => rw [hg] at hrun'; cases hrun'
  | err => rw [hb] at hrun; cases hrun
  | panic => rw [hb] at hrun; cases hrun
  | hang => rw [hb] at hrun; cases hrun

end UtreexoVerif.Proofs.SchedOracle
