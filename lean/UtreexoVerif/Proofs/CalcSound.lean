/-
  Soundness of `calculateHashes` + root matching against an abstract `ForestView`
  (helper lemmas for Props/C03).

  Structure:
  * `Out.bind` inversion, membership lemmas for the stable insertion sort;
  * low-bit facts about `leftSib`/`rightSib`/`isLeftNiece`, root-presence bit;
  * `calcStep'`: `calcStep` restated through named pieces (`popLeast`, `sibFrom`, `sibSel`),
    equal to `calcStep` by `rfl`; characterisation lemmas `calcStep_cont`/`calcStep_stop`;
  * forward invariant `Inv`, backward truth propagation `back_step`, the loop, `matchRoots`;
  * `calc_sound`: the core statement used by all three verifiers.
-/
import UtreexoVerif.Spec.View
import UtreexoVerif.Model.Verifiers

namespace UtreexoVerif.Proofs.CalcSound
open UtreexoVerif Model Hasher GoInt

/-! ### `Out` -/

theorem bind_eq_ok {α β} {x : Out α} {f : α → Out β} {b : β} :
    x.bind f = .ok b ↔ ∃ a, x = .ok a ∧ f a = .ok b := by
  cases x <;> simp [Out.bind]

/-! ### the insertion sort is a permutation (membership only) -/

theorem mem_insertBy {α} (key : α → U64) (x y : α) (l : List α) :
    y ∈ insertBy key x l ↔ y = x ∨ y ∈ l := by
  induction l with
  | nil => simp [insertBy]
  | cons a l ih =>
    unfold insertBy
    split
    · simp
    · simp only [List.mem_cons, ih]
      constructor
      · rintro (h | h | h) <;> simp [h]
      · rintro (h | h | h) <;> simp [h]

theorem mem_foldl_insertBy {α} (key : α → U64) (y : α) (l : List α) :
    ∀ acc, y ∈ l.foldl (fun acc x => insertBy key x acc) acc ↔ y ∈ acc ∨ y ∈ l := by
  induction l with
  | nil => simp
  | cons a l ih =>
    intro acc
    simp only [List.foldl_cons, ih, mem_insertBy, List.mem_cons]
    constructor
    · rintro ((h | h) | h) <;> simp [h]
    · rintro (h | h | h) <;> simp [h]

theorem mem_sortBy {α} (key : α → U64) (y : α) (l : List α) : y ∈ sortBy key l ↔ y ∈ l := by
  unfold sortBy
  rw [mem_foldl_insertBy]
  simp

theorem mem_sortHP {H : Type} (y : U64 × H) (l : HP H) : y ∈ sortHP l ↔ y ∈ l :=
  mem_sortBy _ y l

/-! ### lowest-bit facts -/

theorem and_one_eq_zero_iff (p : U64) : p &&& 1#64 = 0#64 ↔ p[0] = false := by
  constructor
  · intro h
    have := congrArg (·[0]) h
    simpa using this
  · intro h
    ext i hi
    by_cases h0 : i = 0
    · subst h0; simp [h]
    · simp [h0]

theorem or_one_eq_self {p : U64} (hb : p[0] = true) : p ||| 1#64 = p := by
  ext i hi
  by_cases h0 : i = 0
  · subst h0; simp [hb]
  · simp [h0]

theorem isLeftNiece_of_ne_rightSib {p : U64} (h : p ≠ rightSib p) : isLeftNiece p = true := by
  unfold isLeftNiece
  rw [beq_iff_eq, and_one_eq_zero_iff]
  cases hb : p[0]
  · rfl
  · exact absurd (or_one_eq_self hb).symm h

theorem leftSib_of_isLeftNiece {p : U64} (h : isLeftNiece p = true) : leftSib p = p := by
  unfold isLeftNiece at h
  rw [beq_iff_eq, and_one_eq_zero_iff] at h
  unfold leftSib
  ext i hi
  simp only [BitVec.getElem_and, BitVec.getElem_not, BitVec.getElem_one]
  by_cases h0 : i = 0
  · subst h0; simp [h]
  · simp [h0]

theorem rightSib_of_not_isLeftNiece {p : U64} (h : isLeftNiece p = false) : rightSib p = p := by
  unfold isLeftNiece at h
  have h' : ¬ (p &&& 1#64 = 0#64) := by simpa using h
  rw [and_one_eq_zero_iff] at h'
  exact or_one_eq_self (by simpa using h')

/-- the root-presence test of `isRootPositionOnRow` implies the one of `rootExistsOnRow` -/
theorem rootExists_of_present {n : U64} {row : U8}
    (h : (n &&& shl 1#64 row.toNat != 0#64) = true) : rootExistsOnRow n row = true := by
  unfold rootExistsOnRow
  rw [shl_eq] at h
  rw [shr_eq, beq_iff_eq]
  have hne : n &&& (1#64 <<< row.toNat) ≠ 0#64 := by simpa using h
  have hbit : n.getLsbD row.toNat = true := by
    cases hb : n.getLsbD row.toNat
    · exfalso; apply hne
      apply BitVec.eq_of_getLsbD_eq
      intro i hi
      simp only [BitVec.getLsbD_and, BitVec.getLsbD_shiftLeft, BitVec.getLsbD_one,
        BitVec.getLsbD_zero]
      by_cases hir : i = row.toNat
      · subst hir; simp [hb]
      · simp; intro _ _ ; omega
    · rfl
  apply BitVec.eq_of_getLsbD_eq
  intro i hi
  simp only [BitVec.getLsbD_and, BitVec.getLsbD_ushiftRight, BitVec.getLsbD_one]
  by_cases h0 : i = 0
  · subst h0; simp [hbit]
  · simp [h0]

theorem isRootPositionOnRow_true {p n : U64} {row : U8}
    (h : isRootPositionOnRow p n row = true) :
    rootExistsOnRow n row = true ∧ p = rootPosition n row (TreeRows n) := by
  unfold isRootPositionOnRow at h
  simp only [Bool.and_eq_true, beq_iff_eq] at h
  exact ⟨rootExists_of_present h.1, h.2.symm⟩

section
variable {H : Type} [DecidableEq H] [Hasher H]

/-! ### `calcStep` through named pieces -/

def popLeast (fromNext : Bool) (stp snx dn : HP H) : U64 × H × HP H × HP H × HP H :=
  match fromNext, stp, snx with
  | false, x :: xs, nx => (x.1, x.2, xs, nx, dn)
  | true, tp, x :: xs => (x.1, x.2, tp, xs, dn ++ [x])
  | _, tp, nx => (0#64, zero, tp, nx, dn)

def sibFrom (provePos : U64) (toProve next : HP H) : Option Bool :=
  match nextLeast toProve next with
  | some false => match toProve with
    | y :: _ => if provePos != y.1 && rightSib provePos == y.1 then some false else none
    | [] => none
  | some true => match next with
    | y :: _ => if provePos != y.1 && rightSib provePos == y.1 then some true else none
    | [] => none
  | none => none

def sibSel (sf : Option Bool) (toProve next done : HP H) (proof : List H) :
    Out (H × HP H × HP H × HP H × List H) :=
  match sf, toProve, next, proof with
  | some false, y :: ys, nx, pr => Out.ok (y.2, ys, nx, done, pr)
  | some true, tp, y :: ys, pr => Out.ok (y.2, tp, ys, done ++ [y], pr)
  | some _, _, _, _ => Out.panic
  | none, tp, nx, p :: ps => if p = zero then Out.err else Out.ok (p, tp, nx, done, ps)
  | none, _, _, [] => Out.err

def calcStep' (n : U64) (tr : U8) (s : CalcSt H) : Out (StepOut H) :=
  if s.row > tr then .ok (.stop s)
  else match nextLeast s.toProve s.next with
  | none => .ok (.stop s)
  | some fromNext =>
    let pop := popLeast fromNext s.toProve s.next s.done
    (rowCursor n tr pop.1 257 s.row).bind fun row =>
      if isRootPositionOnRow pop.1 n row then
        .ok (.cont { s with
          toProve := pop.2.2.1, next := pop.2.2.2.1, done := pop.2.2.2.2, row := row,
          roots := s.roots ++ [pop.2.1], rootRows := s.rootRows ++ [row] })
      else
        (sibSel (sibFrom pop.1 pop.2.2.1 pop.2.2.2.1) pop.2.2.1 pop.2.2.2.1 pop.2.2.2.2
            s.proof).bind fun r =>
          .ok (.cont { s with
            toProve := r.2.1,
            next := r.2.2.1 ++ [(Parent pop.1 tr, getNextHash pop.1 pop.2.1 r.1)],
            done := r.2.2.2.1, proof := r.2.2.2.2, row := row })

theorem calcStep_eq (n : U64) (tr : U8) (s : CalcSt H) : calcStep n tr s = calcStep' n tr s := rfl

/-- `x` is popped from the front of one of the two queues -/
def Pop (tp nx : HP H) (x : U64 × H) (tp' nx' : HP H) : Prop :=
  (tp = x :: tp' ∧ nx' = nx) ∨ (nx = x :: nx' ∧ tp' = tp)

omit [DecidableEq H] [Hasher H] in
theorem Pop.mem_iff {tp nx tp' nx' : HP H} {x : U64 × H} (h : Pop tp nx x tp' nx')
    (z : U64 × H) : z ∈ tp ++ nx ↔ z = x ∨ z ∈ tp' ++ nx' := by
  rcases h with ⟨rfl, rfl⟩ | ⟨rfl, rfl⟩
  · simp
  · simp only [List.mem_append, List.mem_cons]
    constructor
    · rintro (h | h | h) <;> simp [h]
    · rintro (h | h | h) <;> simp [h]

omit [DecidableEq H] [Hasher H] in
theorem nextLeast_none {tp nx : HP H} (h : nextLeast tp nx = none) : tp = [] ∧ nx = [] := by
  cases tp <;> cases nx <;> simp [nextLeast] at h ⊢

omit [DecidableEq H] in
theorem popLeast_pop {b : Bool} {stp snx : HP H} (dn : HP H) (h : nextLeast stp snx = some b) :
    Pop stp snx ((popLeast b stp snx dn).1, (popLeast b stp snx dn).2.1)
      (popLeast b stp snx dn).2.2.1 (popLeast b stp snx dn).2.2.2.1 := by
  cases b <;> cases stp <;> cases snx <;> simp_all [nextLeast, popLeast, Pop]

/-- the sibling hash is either popped from a queue (then the position is a left node and the
popped element sits at its right sibling) or a non-zero proof hash -/
def SibOK (p : U64) (tp nx : HP H) (sib : H) (tp' nx' : HP H) : Prop :=
  (∃ y, Pop tp nx y tp' nx' ∧ p ≠ y.1 ∧ rightSib p = y.1 ∧ sib = y.2) ∨
  (tp' = tp ∧ nx' = nx ∧ sib ≠ zero)

theorem sibSel_none {tp nx dn : HP H} {pr : List H} {r}
    (h : sibSel none tp nx dn pr = .ok r) : r.2.1 = tp ∧ r.2.2.1 = nx ∧ r.1 ≠ zero := by
  cases pr with
  | nil => simp [sibSel] at h
  | cons a pr =>
    simp only [sibSel] at h
    split at h
    · simp at h
    · rename_i hne
      injection h with h
      subst h
      exact ⟨rfl, rfl, hne⟩

theorem sibSel_false {y : U64 × H} {ys nx dn : HP H} {pr : List H} :
    sibSel (some false) (y :: ys) nx dn pr = .ok (y.2, ys, nx, dn, pr) := rfl

theorem sibSel_true {y : U64 × H} {tp ys dn : HP H} {pr : List H} :
    sibSel (some true) tp (y :: ys) dn pr = .ok (y.2, tp, ys, dn ++ [y], pr) := rfl

theorem sibSel_ok {p : U64} {tp nx dn : HP H} {pr : List H} {r}
    (h : sibSel (sibFrom p tp nx) tp nx dn pr = .ok r) : SibOK p tp nx r.1 r.2.1 r.2.2.1 := by
  have hnone : ∀ {tp nx : HP H}, sibSel none tp nx dn pr = .ok r →
      SibOK p tp nx r.1 r.2.1 r.2.2.1 := fun h => Or.inr (sibSel_none h)
  have hF : ∀ {a : U64 × H} {tp nx : HP H},
      sibSel (if (p != a.1 && rightSib p == a.1) = true then some false else none)
        (a :: tp) nx dn pr = .ok r → SibOK p (a :: tp) nx r.1 r.2.1 r.2.2.1 := by
    intro a tp nx h
    split at h
    · rename_i hc
      simp only [Bool.and_eq_true, bne_iff_ne, beq_iff_eq] at hc
      rw [sibSel_false] at h
      injection h with h
      subst h
      exact Or.inl ⟨a, Or.inl ⟨rfl, rfl⟩, hc.1, hc.2, rfl⟩
    · exact hnone h
  have hT : ∀ {b : U64 × H} {tp nx : HP H},
      sibSel (if (p != b.1 && rightSib p == b.1) = true then some true else none)
        tp (b :: nx) dn pr = .ok r → SibOK p tp (b :: nx) r.1 r.2.1 r.2.2.1 := by
    intro b tp nx h
    split at h
    · rename_i hc
      simp only [Bool.and_eq_true, bne_iff_ne, beq_iff_eq] at hc
      rw [sibSel_true] at h
      injection h with h
      subst h
      exact Or.inl ⟨b, Or.inr ⟨rfl, rfl⟩, hc.1, hc.2, rfl⟩
    · exact hnone h
  rcases tp with _ | ⟨a, tp⟩ <;> rcases nx with _ | ⟨b, nx⟩
  · exact hnone h
  · exact hT h
  · exact hF h
  · by_cases hab : a.1 < b.1
    · have : sibFrom p (a :: tp) (b :: nx) =
          if (p != a.1 && rightSib p == a.1) = true then some false else none := by
        simp [sibFrom, nextLeast, hab]
      rw [this] at h
      exact hF h
    · have : sibFrom p (a :: tp) (b :: nx) =
          if (p != b.1 && rightSib p == b.1) = true then some true else none := by
        simp [sibFrom, nextLeast, hab]
      rw [this] at h
      exact hT h

/-- shape of a continuing step -/
theorem calcStep_cont {n : U64} {tr : U8} {s s' : CalcSt H}
    (h : calcStep n tr s = .ok (.cont s')) :
    ∃ x tp nx, Pop s.toProve s.next x tp nx ∧ rowCursor n tr x.1 257 s.row = .ok s'.row ∧
      ((isRootPositionOnRow x.1 n s'.row = true ∧ s'.toProve = tp ∧ s'.next = nx ∧
          s'.roots = s.roots ++ [x.2] ∧ s'.rootRows = s.rootRows ++ [s'.row]) ∨
       (∃ sib tp' nx', SibOK x.1 tp nx sib tp' nx' ∧ s'.toProve = tp' ∧
          s'.next = nx' ++ [(Parent x.1 tr, getNextHash x.1 x.2 sib)] ∧
          s'.roots = s.roots ∧ s'.rootRows = s.rootRows)) := by
  rw [calcStep_eq] at h
  unfold calcStep' at h
  split at h
  · simp at h
  split at h
  · simp at h
  rename_i fromNext hnl
  have hP := popLeast_pop s.done hnl
  generalize popLeast fromNext s.toProve s.next s.done = pop at h hP
  obtain ⟨p, hsh, tp, nx, dn⟩ := pop
  simp only at h hP
  rw [bind_eq_ok] at h
  obtain ⟨row, hrow, h⟩ := h
  refine ⟨(p, hsh), tp, nx, hP, ?_⟩
  split at h
  · rename_i hroot
    injection h with h
    injection h with h
    subst h
    exact ⟨hrow, Or.inl ⟨hroot, rfl, rfl, rfl, rfl⟩⟩
  · rw [bind_eq_ok] at h
    obtain ⟨r, hsel, h⟩ := h
    injection h with h
    injection h with h
    subst h
    exact ⟨hrow, Or.inr ⟨r.1, r.2.1, r.2.2.1, sibSel_ok hsel, rfl, rfl, rfl, rfl⟩⟩

/-- shape of a stopping step -/
theorem calcStep_stop {n : U64} {tr : U8} {s s' : CalcSt H}
    (h : calcStep n tr s = .ok (.stop s')) :
    s' = s ∧ (s.row > tr ∨ (s.toProve = [] ∧ s.next = [])) := by
  rw [calcStep_eq] at h
  unfold calcStep' at h
  split at h
  · rename_i hr
    injection h with h
    injection h with h
    exact ⟨h.symm, Or.inl hr⟩
  split at h
  · rename_i hnl
    injection h with h
    injection h with h
    exact ⟨h.symm, Or.inr (nextLeast_none hnl)⟩
  · rw [bind_eq_ok] at h
    obtain ⟨row, _, h⟩ := h
    split at h
    · simp at h
    · rw [bind_eq_ok] at h
      obtain ⟨r, _, h⟩ := h
      simp at h

/-- the row cursor stays within the forest rows and ends on a row that can hold the position -/
theorem rowCursor_ok {n : U64} {tr : U8} {p : U64} :
    ∀ (fuel : Nat) (row row' : U8), rowCursor n tr p fuel row = .ok row' → row ≤ tr →
      row' ≤ tr ∧ p ≤ (maxPositionAtRow row' tr n).1 := by
  intro fuel
  induction fuel with
  | zero => intro row row' h; simp [rowCursor] at h
  | succ fuel ih =>
    intro row row' h hle
    unfold rowCursor at h
    split at h
    · simp only at h
      split at h
      · simp at h
      · rename_i hnot
        exact ih _ _ h (BitVec.not_lt.mp hnot)
    · rename_i hnot
      injection h with h
      subst h
      exact ⟨hle, BitVec.not_lt.mp hnot⟩

theorem getNextHash_nonzero {p : U64} {h sib : H} (h1 : h ≠ zero) (h2 : sib ≠ zero) :
    getNextHash p h sib = if isLeftNiece p then ph h sib else ph sib h := by
  simp [getNextHash, h1, h2]

/-! ### forward invariant -/

structure Inv (n : U64) (s : CalcSt H) : Prop where
  nonzero : ∀ x ∈ s.toProve ++ s.next, x.2 ≠ (zero : H)
  row_le : s.row ≤ TreeRows n
  len : s.roots.length = s.rootRows.length
  rows : ∀ r ∈ s.rootRows, r ≤ TreeRows n ∧ rootExistsOnRow n r = true

omit [DecidableEq H] in
theorem SibOK.nonzero {p : U64} {tp nx tp' nx' : HP H} {sib : H}
    (h : SibOK p tp nx sib tp' nx') (hnz : ∀ x ∈ tp ++ nx, x.2 ≠ (zero : H)) :
    sib ≠ zero ∧ ∀ x ∈ tp' ++ nx', x.2 ≠ (zero : H) := by
  rcases h with ⟨y, hP, _, _, rfl⟩ | ⟨rfl, rfl, h⟩
  · exact ⟨hnz y ((hP.mem_iff y).2 (Or.inl rfl)), fun x hx => hnz x ((hP.mem_iff x).2 (Or.inr hx))⟩
  · exact ⟨h, hnz⟩

theorem Inv.step {n : U64} (cr : CR H) {s s' : CalcSt H}
    (h : calcStep n (TreeRows n) s = .ok (.cont s')) (inv : Inv n s) : Inv n s' := by
  obtain ⟨x, tp, nx, hP, hrow, hcase⟩ := calcStep_cont h
  have hcur := rowCursor_ok _ _ _ hrow inv.row_le
  have hx : x.2 ≠ zero := inv.nonzero x ((hP.mem_iff x).2 (Or.inl rfl))
  have hrest : ∀ z ∈ tp ++ nx, z.2 ≠ (zero : H) :=
    fun z hz => inv.nonzero z ((hP.mem_iff z).2 (Or.inr hz))
  rcases hcase with ⟨hroot, h1, h2, h3, h4⟩ | ⟨sib, tp', nx', hsib, h1, h2, h3, h4⟩
  · refine ⟨?_, hcur.1, ?_, ?_⟩
    · rw [h1, h2]; exact hrest
    · rw [h3, h4]; simp [inv.len]
    · intro r hr
      rw [h4, List.mem_append, List.mem_singleton] at hr
      rcases hr with hr | rfl
      · exact inv.rows r hr
      · exact ⟨hcur.1, (isRootPositionOnRow_true hroot).1⟩
  · obtain ⟨hs, hrest'⟩ := hsib.nonzero hrest
    refine ⟨?_, hcur.1, ?_, ?_⟩
    · intro z hz
      rw [h1, h2, ← List.append_assoc, List.mem_append, List.mem_singleton] at hz
      rcases hz with hz | rfl
      · exact hrest' z hz
      · show getNextHash x.1 x.2 sib ≠ zero
        rw [getNextHash_nonzero hx hs]
        split
        · exact cr.nonzero _ _
        · exact cr.nonzero _ _
    · rw [h3, h4]; exact inv.len
    · rw [h4]; exact inv.rows

/-! ### backward propagation of truth -/

section view
variable {n : U64} {roots : List H} (V : ForestView H n roots)

def AllTrue (s : CalcSt H) : Prop := ∀ x ∈ s.toProve ++ s.next, V.nodeAt x.1 = some x.2

def RootsTrue (s : CalcSt H) : Prop :=
  ∀ c ∈ s.roots.zip s.rootRows, V.nodeAt (rootPosition n c.2 (TreeRows n)) = some c.1

theorem back_step {s s' : CalcSt H}
    (h : calcStep n (TreeRows n) s = .ok (.cont s')) (inv : Inv n s)
    (hall : AllTrue V s') (hroots : RootsTrue V s') : AllTrue V s ∧ RootsTrue V s := by
  obtain ⟨x, tp, nx, hP, hrow, hcase⟩ := calcStep_cont h
  have hcur := rowCursor_ok _ _ _ hrow inv.row_le
  have hx : x.2 ≠ zero := inv.nonzero x ((hP.mem_iff x).2 (Or.inl rfl))
  have hrest : ∀ z ∈ tp ++ nx, z.2 ≠ (zero : H) :=
    fun z hz => inv.nonzero z ((hP.mem_iff z).2 (Or.inr hz))
  rcases hcase with ⟨hroot, h1, h2, h3, h4⟩ | ⟨sib, tp', nx', hsib, h1, h2, h3, h4⟩
  · have hzip : s'.roots.zip s'.rootRows = s.roots.zip s.rootRows ++ [(x.2, s'.row)] := by
      rw [h3, h4, List.zip_append inv.len]; rfl
    constructor
    · intro z hz
      rcases (hP.mem_iff z).1 hz with rfl | hz
      · have := hroots (z.2, s'.row) (by rw [hzip]; simp)
        rw [← (isRootPositionOnRow_true hroot).2] at this
        exact this
      · exact hall z (by rw [h1, h2]; exact hz)
    · intro c hc
      exact hroots c (by rw [hzip]; exact List.mem_append_left _ hc)
  · obtain ⟨hs, _⟩ := hsib.nonzero hrest
    have hnew : V.nodeAt (Parent x.1 (TreeRows n)) = some (getNextHash x.1 x.2 sib) :=
      hall (Parent x.1 (TreeRows n), getNextHash x.1 x.2 sib) (by rw [h2]; simp)
    rw [getNextHash_nonzero hx hs] at hnew
    have hrest' : ∀ z ∈ tp' ++ nx', V.nodeAt z.1 = some z.2 := by
      intro z hz
      apply hall z
      rw [h1, h2, ← List.append_assoc]
      exact List.mem_append_left _ hz
    constructor
    · -- the popped element and (if any) the popped sibling
      have hxtrue : V.nodeAt x.1 = some x.2 ∧ ∀ z ∈ tp ++ nx, V.nodeAt z.1 = some z.2 := by
        rcases hsib with ⟨y, hPy, hne, hrs, rfl⟩ | ⟨rfl, rfl, _⟩
        · have hne' : x.1 ≠ rightSib x.1 := by rw [hrs]; exact hne
          have hl := isLeftNiece_of_ne_rightSib hne'
          rw [if_pos hl] at hnew
          have hc := V.children_ok x.1 s'.row x.2 y.2 hcur.1 hcur.2 hnew hx hs
          rw [leftSib_of_isLeftNiece hl, hrs] at hc
          refine ⟨hc.1, fun z hz => ?_⟩
          rcases (hPy.mem_iff z).1 hz with rfl | hz
          · exact hc.2
          · exact hrest' z hz
        · refine ⟨?_, hrest'⟩
          cases hl : isLeftNiece x.1
          · rw [hl] at hnew
            simp only [Bool.false_eq_true, if_false] at hnew
            have hc := V.children_ok x.1 s'.row sib x.2 hcur.1 hcur.2 hnew hs hx
            rw [rightSib_of_not_isLeftNiece hl] at hc
            exact hc.2
          · rw [if_pos hl] at hnew
            have hc := V.children_ok x.1 s'.row x.2 sib hcur.1 hcur.2 hnew hx hs
            rw [leftSib_of_isLeftNiece hl] at hc
            exact hc.1
      intro z hz
      rcases (hP.mem_iff z).1 hz with rfl | hz
      · exact hxtrue.1
      · exact hxtrue.2 z hz
    · intro c hc
      exact hroots c (by rw [h3, h4]; exact hc)

/-- the loop: the invariant reaches the final state, and truth of the final root candidates
flows back to everything queued in the start state -/
theorem calcLoop_sound (cr : CR H) :
    ∀ (fuel : Nat) (s sf : CalcSt H), calcLoop n (TreeRows n) fuel s = .ok sf → Inv n s →
      Inv n sf ∧ (RootsTrue V sf → AllTrue V s ∧ RootsTrue V s) := by
  intro fuel
  induction fuel with
  | zero => intro s sf h; simp [calcLoop] at h
  | succ fuel ih =>
    intro s sf h inv
    unfold calcLoop at h
    simp only [bind] at h
    rw [bind_eq_ok] at h
    obtain ⟨so, hstep, h⟩ := h
    cases so with
    | cont s1 =>
      simp only at h
      have inv1 := inv.step cr hstep
      obtain ⟨invf, hback⟩ := ih s1 sf h inv1
      refine ⟨invf, fun hr => ?_⟩
      obtain ⟨ha1, hr1⟩ := hback hr
      exact back_step V hstep inv ha1 hr1
    | stop s1 =>
      simp only [pure] at h
      injection h with h
      obtain ⟨rfl, hstop⟩ := calcStep_stop hstep
      subst h
      refine ⟨inv, fun hr => ⟨?_, hr⟩⟩
      rcases hstop with hgt | ⟨h1, h2⟩
      · exact absurd inv.row_le (BitVec.not_le.mpr hgt)
      · intro x hx
        rw [h1, h2] at hx
        simp at hx

end view

/-! ### root matching -/

omit [Hasher H] in
theorem matchRoots_ok {n : U64} {roots : List H} :
    ∀ (cs : List H) (rs : List U8) (prev : Option U8) (idx : List Nat),
      matchRoots n roots cs rs prev = .ok idx →
      ∀ c ∈ cs.zip rs, roots[rootIdxOfRow n c.2]? = some c.1 := by
  intro cs
  induction cs with
  | nil => intro rs prev idx _ c hc; simp at hc
  | cons c cs ih =>
    intro rs prev idx h
    cases rs with
    | nil => simp [matchRoots] at h
    | cons r rs =>
      unfold matchRoots at h
      simp only at h
      split at h
      · simp at h
      split at h
      · rename_i hh heq
        split at h
        · rename_i hc
          rw [bind_eq_ok] at h
          obtain ⟨l, hl, _⟩ := h
          intro c' hc'
          rw [List.zip_cons_cons, List.mem_cons] at hc'
          rcases hc' with rfl | hc'
          · rw [heq, hc]
          · exact ih rs _ _ hl c' hc'
        · simp at h
      · simp at h

/-! ### the core statement -/

theorem calc_sound {n : U64} {roots : List H} (V : ForestView H n roots) (cr : CR H)
    {hs : List H} {ts : List U64} {ps : List H} {r : CalcResult H} {idx : List Nat}
    (hnz : ∀ h ∈ hs, h ≠ (zero : H))
    (hc : calculateHashes n (some hs) ts ps = .ok r)
    (hm : matchRoots n roots r.roots r.rootRows none = .ok idx) :
    ∀ x ∈ ts.zip hs, V.nodeAt x.1 = some x.2 := by
  unfold calculateHashes at hc
  simp only [bind, pure] at hc
  rw [bind_eq_ok] at hc
  obtain ⟨tp, htp, hc⟩ := hc
  rw [bind_eq_ok] at hc
  obtain ⟨sf, hloop, hc⟩ := hc
  injection hc with hc
  subst hc
  simp only at hm
  have htp' : tp = sortHP (ts.zip hs) := by
    unfold toHashAndPos at htp
    split at htp
    · injection htp with htp; exact htp.symm
    · simp at htp
  subst htp'
  have inv0 : Inv n ({
      toProve := sortHP (ts.zip hs), next := [], done := [], proof := ps,
      row := 0#8, roots := [], rootRows := [] } : CalcSt H) := by
    refine ⟨?_, ?_, rfl, ?_⟩
    · intro x hx
      simp only [List.append_nil] at hx
      rw [mem_sortHP] at hx
      exact hnz _ (List.of_mem_zip hx).2
    · simp [BitVec.le_def]
    · intro r hr; simp at hr
  obtain ⟨invf, hback⟩ := calcLoop_sound V cr _ _ _ hloop inv0
  have hrt : RootsTrue V sf := by
    intro c hc
    have hidx := matchRoots_ok _ _ _ _ hm c hc
    obtain ⟨hle, hex⟩ := invf.rows c.2 (List.of_mem_zip hc).2
    exact V.root_ok c.2 c.1 hle hex hidx
  intro x hx
  have := (hback hrt).1 x
  simp only [List.append_nil] at this
  exact this ((mem_sortHP x _).2 hx)

end
end UtreexoVerif.Proofs.CalcSound
