/-
  Association lists with map semantics (`Model.AL`, used by `Model/MapPollard.lean` for Go's
  two maps) and the node / cache accessors of the model: look-up after `put` / `del`.
-/
import UtreexoVerif.Model.MapPollard

namespace UtreexoVerif.Proofs.MapAL
open UtreexoVerif Model
set_option linter.unusedSectionVars false

section AL
variable {κ ν : Type} [DecidableEq κ]

theorem get?_nil (k : κ) : AL.get? ([] : List (κ × ν)) k = none := rfl

theorem get?_cons (k' : κ) (v : ν) (t : List (κ × ν)) (k : κ) :
    AL.get? ((k', v) :: t) k = if k' = k then some v else AL.get? t k := rfl

theorem get?_some_mem {l : List (κ × ν)} {k : κ} {v : ν} (h : AL.get? l k = some v) : (k, v) ∈ l := by
  induction l with
  | nil => simp [get?_nil] at h
  | cons e t ih =>
    obtain ⟨k', v'⟩ := e
    rw [get?_cons] at h
    split at h
    · rename_i hk
      subst hk
      simp only [Option.some.injEq] at h
      subst h
      exact List.mem_cons_self
    · exact List.mem_cons_of_mem _ (ih h)

theorem get?_eq_none_iff {l : List (κ × ν)} {k : κ} : AL.get? l k = none ↔ ∀ e ∈ l, e.1 ≠ k := by
  induction l with
  | nil => simp [get?_nil]
  | cons e t ih =>
    obtain ⟨k', v'⟩ := e
    rw [get?_cons]
    by_cases hk : k' = k
    · simp [hk]
    · simp [hk, ih]

theorem get?_isSome_iff {l : List (κ × ν)} {k : κ} : (AL.get? l k).isSome ↔ ∃ e ∈ l, e.1 = k := by
  cases h : AL.get? l k with
  | none =>
    have := get?_eq_none_iff.1 h
    simp only [Option.isSome_none, Bool.false_eq_true, false_iff, not_exists, not_and]
    exact this
  | some v => simp only [Option.isSome_some, true_iff]; exact ⟨(k, v), get?_some_mem h, rfl⟩

theorem get?_filter_ne (l : List (κ × ν)) (k k' : κ) (hne : k' ≠ k) :
    AL.get? (l.filter (fun e => e.1 ≠ k)) k' = AL.get? l k' := by
  induction l with
  | nil => rfl
  | cons e t ih =>
    obtain ⟨a, v⟩ := e
    by_cases ha : a = k
    · subst ha
      rw [List.filter_cons_of_neg (by simp), ih, get?_cons, if_neg (fun h => hne h.symm)]
    · rw [List.filter_cons_of_pos (by simpa using ha), get?_cons, get?_cons, ih]

theorem get?_filter_self (l : List (κ × ν)) (k : κ) :
    AL.get? (l.filter (fun e => e.1 ≠ k)) k = none := by
  rw [get?_eq_none_iff]
  intro e he
  simpa using (List.mem_filter.1 he).2

theorem get?_del_self (l : List (κ × ν)) (k : κ) : AL.get? (AL.del l k) k = none := get?_filter_self l k

theorem get?_del_ne (l : List (κ × ν)) {k k' : κ} (hne : k' ≠ k) : AL.get? (AL.del l k) k' = AL.get? l k' :=
  get?_filter_ne l k k' hne

theorem get?_del (l : List (κ × ν)) (k k' : κ) :
    AL.get? (AL.del l k) k' = if k' = k then none else AL.get? l k' := by
  by_cases h : k' = k
  · subst h; simp [get?_del_self]
  · simp [h, get?_del_ne l h]

theorem get?_put_self (l : List (κ × ν)) (k : κ) (v : ν) : AL.get? (AL.put l k v) k = some v := by
  simp [AL.put, get?_cons]

theorem get?_put_ne (l : List (κ × ν)) {k k' : κ} (v : ν) (hne : k' ≠ k) :
    AL.get? (AL.put l k v) k' = AL.get? l k' := by
  have hne' : ¬ k = k' := fun h => hne h.symm
  simp only [AL.put, get?_cons, if_neg hne']
  exact get?_del_ne l hne

theorem get?_put (l : List (κ × ν)) (k k' : κ) (v : ν) :
    AL.get? (AL.put l k v) k' = if k' = k then some v else AL.get? l k' := by
  by_cases h : k' = k
  · subst h; simp [get?_put_self]
  · simp [h, get?_put_ne l v h]

end AL

section MP
variable {H : Type} [DecidableEq H] [Hasher H]
open MapPollard

@[simp] theorem getNode_putNode (m : MapPollard H) (p q : U64) (l : Leaf H) :
    (m.putNode p l).getNode q = if q = p then some l else m.getNode q := get?_put _ _ _ _

@[simp] theorem getNode_delNode (m : MapPollard H) (p q : U64) :
    (m.delNode p).getNode q = if q = p then none else m.getNode q := get?_del _ _ _

@[simp] theorem getCached_putCached (m : MapPollard H) (x y : H) (p : U64) :
    (m.putCached x p).getCached y = if y = x then some p else m.getCached y := get?_put _ _ _ _

@[simp] theorem getCached_delCached (m : MapPollard H) (x y : H) :
    (m.delCached x).getCached y = if y = x then none else m.getCached y := get?_del _ _ _

@[simp] theorem getCached_putNode (m : MapPollard H) (p : U64) (l : Leaf H) (y : H) :
    (m.putNode p l).getCached y = m.getCached y := rfl
@[simp] theorem getCached_delNode (m : MapPollard H) (p : U64) (y : H) :
    (m.delNode p).getCached y = m.getCached y := rfl
@[simp] theorem getNode_putCached (m : MapPollard H) (x : H) (p q : U64) :
    (m.putCached x p).getNode q = m.getNode q := rfl
@[simp] theorem getNode_delCached (m : MapPollard H) (x : H) (q : U64) :
    (m.delCached x).getNode q = m.getNode q := rfl

@[simp] theorem totalRows_putNode (m : MapPollard H) (p : U64) (l : Leaf H) : (m.putNode p l).totalRows = m.totalRows := rfl
@[simp] theorem totalRows_delNode (m : MapPollard H) (p : U64) : (m.delNode p).totalRows = m.totalRows := rfl
@[simp] theorem totalRows_putCached (m : MapPollard H) (x : H) (p : U64) : (m.putCached x p).totalRows = m.totalRows := rfl
@[simp] theorem totalRows_delCached (m : MapPollard H) (x : H) : (m.delCached x).totalRows = m.totalRows := rfl
@[simp] theorem numLeaves_putNode (m : MapPollard H) (p : U64) (l : Leaf H) : (m.putNode p l).numLeaves = m.numLeaves := rfl
@[simp] theorem numLeaves_delNode (m : MapPollard H) (p : U64) : (m.delNode p).numLeaves = m.numLeaves := rfl
@[simp] theorem numLeaves_putCached (m : MapPollard H) (x : H) (p : U64) : (m.putCached x p).numLeaves = m.numLeaves := rfl
@[simp] theorem numLeaves_delCached (m : MapPollard H) (x : H) : (m.delCached x).numLeaves = m.numLeaves := rfl
@[simp] theorem full_putNode (m : MapPollard H) (p : U64) (l : Leaf H) : (m.putNode p l).full = m.full := rfl
@[simp] theorem full_delNode (m : MapPollard H) (p : U64) : (m.delNode p).full = m.full := rfl
@[simp] theorem full_putCached (m : MapPollard H) (x : H) (p : U64) : (m.putCached x p).full = m.full := rfl
@[simp] theorem full_delCached (m : MapPollard H) (x : H) : (m.delCached x).full = m.full := rfl

theorem hasNode_eq (m : MapPollard H) (p : U64) : m.hasNode p = (m.getNode p).isSome := rfl
theorem hasCached_eq (m : MapPollard H) (x : H) : m.hasCached x = (m.getCached x).isSome := rfl

end MP
end UtreexoVerif.Proofs.MapAL
